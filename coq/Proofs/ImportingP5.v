(* Proofs/ImportingP5.v — C13, part 5: coexistence of many references in one module.
   Two references made from the same module whose import lines bind the same name have the
   same import line (so neither can redirect the other), under the side condition
   "package segments look like [a-z]+[0-9]*, are not keywords and not `betterproto`":
   that excludes the two genuine clashes of the pinned code, x.a.b / x.a_b (underscore) and
   x.a1.b / x.a1b (snake_case splits at a digit/letter boundary), both refuted here. *)
From BP Require Import Base.Prelude Proofs.BytesP Spec.PyImport Model.Importing.
From BP Require Import Proofs.ImportingP Proofs.ImportingP2 Proofs.ImportingP3 Proofs.ImportingP4.
From Coq Require Import Lia.
Local Open Scope nat_scope.

Definition alias_of (stmt : list byte) : option (list byte) := bound_name stmt.

(* ------------------------------------------------------------------ plain segments *)
Fixpoint plain_shape (s : list byte) : bool :=       (* [a-z]*[0-9]* *)
  match s with
  | [] => true
  | c :: r => if is_lower c then plain_shape r else forallb is_digit s
  end.
Definition plain_segb (s : list byte) : bool :=
  match s with c :: _ => is_lower c | [] => false end
  && plain_shape s && negb (is_keyword s) && negb (bytes_eqb s s_betterproto).
Definition plain_pkgb (p : path) : bool := forallb plain_segb p.

Lemma lower_or_digit_not_upper c : is_lower c || is_digit c = true -> upperb c = false.
Proof. destruct c; vm_compute; intros H; first [reflexivity | discriminate]. Qed.
Lemma lower_or_digit_ident c : is_lower c || is_digit c = true -> is_ident_char c = true.
Proof.
  unfold is_ident_char, is_ident_start. intros H. apply orb_true_iff in H. destruct H as [H|H]; rewrite H.
  - rewrite orb_true_r. reflexivity.
  - apply orb_true_r.
Qed.
Lemma lower_or_digit_not_us c : is_lower c || is_digit c = true -> c <> b_us.
Proof. intros H ->. vm_compute in H. discriminate. Qed.

Lemma plain_shape_chars s : plain_shape s = true -> forallb (fun c => is_lower c || is_digit c) s = true.
Proof.
  induction s as [|c r IH]; cbn [plain_shape]; [reflexivity|].
  destruct (is_lower c) eqn:L.
  - intros H. cbn [forallb]. rewrite L. cbn [orb andb]. auto.
  - intros H. apply forallb_forall. intros x Hx. rewrite forallb_forall in H. rewrite (H x Hx). apply orb_true_r.
Qed.

Record plain_facts (s : list byte) : Prop := {
  pf_ident : identb s = true;
  pf_no_us : ~ In b_us s;
  pf_lower : exists c r, s = c :: r /\ is_lower c = true;
  pf_noupper : no_upperb s = true;
  pf_not_bp : s <> s_betterproto }.

Lemma plain_seg_facts s : plain_segb s = true -> plain_facts s.
Proof.
  unfold plain_segb. intros H.
  apply andb_true_iff in H. destruct H as [H Hbp]. apply andb_true_iff in H. destruct H as [H Hkw].
  apply andb_true_iff in H. destruct H as [Hl Hs].
  destruct s as [|c r]; [discriminate|].
  pose proof (plain_shape_chars _ Hs) as Hc. rewrite forallb_forall in Hc.
  constructor.
  - cbn [identb]. unfold is_ident_start. rewrite Hl. rewrite orb_true_r. cbn [orb andb].
    rewrite Hkw. rewrite andb_true_r. apply forallb_forall. intros x Hx. apply lower_or_digit_ident. auto.
  - intros I. apply (lower_or_digit_not_us b_us); [apply Hc; exact I | reflexivity].
  - exists c, r. split; [reflexivity | exact Hl].
  - unfold no_upperb. apply forallb_forall. intros x Hx. apply negb_true_iff. apply lower_or_digit_not_upper. auto.
  - apply negb_true_iff in Hbp. apply bytes_eqb_neq in Hbp. exact Hbp.
Qed.

Lemma plain_pkg_facts p : plain_pkgb p = true -> Forall plain_facts p.
Proof.
  unfold plain_pkgb. rewrite forallb_forall, Forall_forall. intros H x Hx. apply plain_seg_facts. auto.
Qed.

Lemma plain_pkg_ok p : plain_pkgb p = true -> pkg_okb p = true.
Proof.
  intros H. apply plain_pkg_facts in H. unfold pkg_okb. apply forallb_forall. intros x Hx.
  rewrite Forall_forall in H. destruct (H x Hx). unfold seg_okb. rewrite pf_ident0, pf_noupper0. reflexivity.
Qed.

Lemma plain_pkgb_app a b : plain_pkgb (a ++ b) = true <-> plain_pkgb a = true /\ plain_pkgb b = true.
Proof. unfold plain_pkgb. rewrite forallb_app. apply andb_true_iff. Qed.

Lemma plain_not_betterproto tgt : plain_pkgb tgt = true -> path_eqb (firstn 1 tgt) [s_betterproto] = false.
Proof.
  intros H. destruct tgt as [|t0 tgt]; [reflexivity|]. cbn [firstn].
  apply path_eqb_neq. intros E. injection E as E.
  apply plain_pkg_facts in H. inversion H as [|? ? H0 _]; subst. destruct H0. congruence.
Qed.

(* ------------------------------------------------------------------ shapes of the import line *)
Inductive shape :=
| ShChild (x : list byte)
| ShDesc (ys : list (list byte)) (x : list byte)
| ShAnc (d : nat) (x : list byte)
| ShRoot (d : nat) (C : list byte)
| ShCousin (d : nat) (ys : list (list byte)) (x : list byte).

Definition us2 : list byte := [b_us; b_us].

Definition sh_alias (s : shape) : list byte :=
  match s with
  | ShChild x => x
  | ShDesc ys x => py_join b_us (ys ++ [x])
  | ShAnc d x => b_us :: repeat b_us d ++ x ++ us2
  | ShRoot d C => repeat b_us d ++ C ++ us2
  | ShCousin d ys x => repeat b_us d ++ py_join b_us (ys ++ [x]) ++ us2
  end.

Definition render (s : shape) : list byte :=
  match s with
  | ShChild x => s_from_dot_import ++ x
  | ShDesc ys x => s_from_sp ++ b_dot :: py_join b_dot ys ++ s_import_sp ++ x ++ s_as_sp ++ sh_alias s
  | ShAnc d x => s_from_sp ++ (b_dot :: b_dot :: repeat b_dot d) ++ s_import_sp ++ x ++ s_as_sp ++ sh_alias s
  | ShRoot d C => s_from_sp ++ b_dot :: repeat b_dot d ++ s_import_sp ++ C ++ s_as_sp ++ sh_alias s
  | ShCousin d ys x => s_from_sp ++ (b_dot :: repeat b_dot d ++ py_join b_dot ys) ++ s_import_sp ++ x ++ s_as_sp ++ sh_alias s
  end.

(* how a shape relates to the referencing package cur, the target tgt and the class name C *)
Definition valid (cur tgt : list (list byte)) (C : list byte) (s : shape) : Prop :=
  match s with
  | ShChild x => tgt = cur ++ [x]
  | ShDesc ys x => tgt = cur ++ ys ++ [x] /\ ys <> []
  | ShAnc d x => exists ts rest, tgt = ts ++ [x] /\ cur = (ts ++ [x]) ++ rest /\ d = length rest /\ rest <> []
  | ShRoot d C' => tgt = [] /\ d = length cur /\ cur <> [] /\ C' = C
  | ShCousin d ys x => exists sh ra, cur = sh ++ ra /\ tgt = sh ++ ys ++ [x] /\ d = length ra /\ ra <> []
                                     /\ (forall r, cur <> tgt ++ r)
  end.

Section Clash.
  Variable cls_name snake optional : list byte -> list byte.
  Hypothesis snake_plain : forall l, l <> [] -> forallb plain_segb l = true -> snake (py_join b_dot l) = py_join b_us l.

  (* the annotation that goes with a shape *)
  Definition ref_text (sh : shape) (C : list byte) : list byte :=
    match sh with
    | ShRoot _ _ => quoted (sh_alias sh)
    | _ => quoted (sh_alias sh ++ b_dot :: C)
    end.

  Lemma gtr_shape (cur tgt : list (list byte)) T (unwrap pyd : bool) :
    plain_pkgb cur = true -> plain_pkgb tgt = true -> type_okb T = true ->
    path_eqb tgt google_protobuf = false ->
    let res := get_type_reference cls_name snake optional (py_join b_dot cur) (b_dot :: py_join b_dot (tgt ++ [T])) unwrap pyd in
    (tgt = cur /\ res = (quoted (cls_name T), None)) \/
    (exists sh, res = (ref_text sh (cls_name T), Some (render sh)) /\ valid cur tgt (cls_name T) sh).
  Proof.
    intros Pcur Ptgt HT Hg.
    pose proof (plain_pkg_ok _ Pcur) as Hcur. pose proof (plain_pkg_ok _ Ptgt) as Htgt.
    unfold get_type_reference.
    assert ((if unwrap then early_return optional (b_dot :: py_join b_dot (tgt ++ [T])) else None) = None) as ->.
    { destruct unwrap; [apply early_none; assumption | reflexivity]. }
    rewrite parse_well_formed by assumption.
    rewrite !split_pkg_join by assumption.
    cbv beta iota zeta. rewrite Hg. cbn [andb]. rewrite (plain_not_betterproto _ Ptgt).
    set (C := cls_name T).
    destruct (path_eqb tgt cur) eqn:E1.
    { left. apply path_eqb_eq in E1. split; [exact E1 | reflexivity]. }
    right.
    apply path_eqb_neq in E1.
    destruct (path_eqb (firstn (length cur) tgt) cur) eqn:E2.
    { apply path_eqb_eq in E2. apply firstn_eq_prefix in E2.
      remember (skipn (length cur) tgt) as rest eqn:Hr. clear Hr. subst tgt.
      assert (Hrest : rest <> []) by (intros ->; apply E1; apply app_nil_r).
      destruct (snoc_cases rest) as [->|[ys [x ->]]]; [congruence|].
      unfold reference_descendent. rewrite skipn_length_app, removelast_snoc, last_snoc.
      destruct ys as [|y0 ys'].
      - cbn [py_join]. exists (ShChild x). split; reflexivity.
      - assert (HJ : py_join b_dot (y0 :: ys') <> []).
        { apply py_join_nonnil; [discriminate|].
          apply plain_pkgb_app in Ptgt. destruct Ptgt as [_ Pr]. apply plain_pkgb_app in Pr. destruct Pr as [Pys _].
          apply plain_pkg_facts in Pys. rewrite Forall_forall in *. intros z Hz. destruct (Pys z Hz).
          apply identb_nonnil. assumption. }
        destruct (py_join b_dot (y0 :: ys')) as [|j0 jr] eqn:EJ; [congruence|]. cbv iota. rewrite <- EJ.
        exists (ShDesc (y0 :: ys') x). split; [reflexivity|].
        split; [reflexivity | discriminate]. }
    destruct (path_eqb (firstn (length tgt) cur) tgt) eqn:E3.
    { apply path_eqb_eq in E3. apply firstn_eq_prefix in E3.
      remember (skipn (length tgt) cur) as rest eqn:Hr. clear Hr. subst cur.
      assert (Hrest : rest <> []) by (intros ->; apply E1; symmetry; apply app_nil_r).
      unfold reference_ancestor. rewrite app_length_sub.
      destruct (snoc_cases tgt) as [->|[ts [x ->]]].
      - exists (ShRoot (length rest) C). split; [reflexivity|].
        cbn [valid app]. repeat split; assumption.
      - rewrite last_snoc.
        destruct (ts ++ [x]) as [|t0 tr] eqn:E; [destruct ts; discriminate|]. cbv iota. rewrite <- E.
        exists (ShAnc (length rest) x). split; [reflexivity|].
        exists ts, rest. repeat split; assumption. }
    destruct (common_prefix_decomp cur tgt) as [ra [rb [Hc Ht]]].
    assert (Hra : ra <> []).
    { intros ->. rewrite app_nil_r in Hc. rewrite Ht in E2. rewrite <- Hc in E2.
      rewrite firstn_length_app in E2. rewrite path_eqb_refl in E2. discriminate. }
    assert (Hrb : rb <> []).
    { intros ->. rewrite app_nil_r in Ht. rewrite Hc in E3. rewrite <- Ht in E3.
      rewrite firstn_length_app in E3. rewrite path_eqb_refl in E3. discriminate. }
    assert (Hnp : forall r, cur <> tgt ++ r).
    { intros r E. rewrite E in E3. rewrite firstn_length_app in E3. rewrite path_eqb_refl in E3. discriminate. }
    unfold reference_cousin.
    remember (common_prefix cur tgt) as sh eqn:Hsh. clear Hsh.
    destruct (snoc_cases rb) as [->|[ys [x ->]]]; [congruence|].
    assert (Prb : forallb plain_segb (ys ++ [x]) = true).
    { rewrite Ht in Ptgt. apply plain_pkgb_app in Ptgt. tauto. }
    subst cur tgt. rewrite app_length_sub. rewrite skipn_length_app.
    rewrite snake_plain by (assumption || (destruct ys; discriminate)).
    rewrite removelast_snoc. rewrite (app_assoc sh ys [x]), last_snoc.
    exists (ShCousin (length ra) ys x). split; [reflexivity|].
    exists sh, ra. rewrite <- (app_assoc sh ys [x]). repeat split; try reflexivity; assumption.
  Qed.

  Lemma gtr_shape_snd (cur tgt : list (list byte)) T (unwrap pyd : bool) s :
    plain_pkgb cur = true -> plain_pkgb tgt = true -> type_okb T = true ->
    path_eqb tgt google_protobuf = false ->
    snd (get_type_reference cls_name snake optional (py_join b_dot cur) (b_dot :: py_join b_dot (tgt ++ [T])) unwrap pyd) = Some s ->
    exists sh, s = render sh /\ valid cur tgt (cls_name T) sh.
  Proof.
    intros Pc Pt HT Hg H. destruct (gtr_shape cur tgt T unwrap pyd Pc Pt HT Hg) as [[_ E]|[sh [E V]]]; rewrite E in H; cbn [snd] in H.
    - discriminate.
    - injection H as <-. exists sh. split; [reflexivity | exact V].
  Qed.

  (* ---------------------------------------------------------------- aliases *)
  Definition non_us_start (a : list byte) : Prop := match a with c :: _ => c <> b_us | [] => False end.

  Lemma us_prefix_inj n m a b :
    non_us_start a -> non_us_start b -> repeat b_us n ++ a = repeat b_us m ++ b -> n = m /\ a = b.
  Proof.
    revert m. induction n as [|n IH]; intros [|m] Ha Hb E; cbn [repeat app] in E.
    - auto.
    - subst a. cbn in Ha. congruence.
    - subst b. cbn in Hb. congruence.
    - injection E as E. destruct (IH m Ha Hb E). auto.
  Qed.

  Lemma join_us_inj (l1 l2 : list (list byte)) :
    l1 <> [] -> l2 <> [] -> Forall (fun s => ~ In b_us s) l1 -> Forall (fun s => ~ In b_us s) l2 ->
    py_join b_us l1 = py_join b_us l2 -> l1 = l2.
  Proof.
    intros N1 N2 F1 F2 E. rewrite <- (split_on_join b_us l1 N1 F1), <- (split_on_join b_us l2 N2 F2). rewrite E. reflexivity.
  Qed.

  Lemma lower_start_non_us s : plain_facts s -> non_us_start s.
  Proof. intros [_ _ [c [r [-> L]]] _ _]. cbn. intros ->. vm_compute in L. discriminate. Qed.

  Lemma non_us_start_app a b : non_us_start a -> non_us_start (a ++ b).
  Proof. destruct a; cbn; [intros [] | auto]. Qed.

  Lemma join_us_start (l : list (list byte)) :
    l <> [] -> Forall plain_facts l -> exists c r, py_join b_us l = c :: r /\ is_lower c = true.
  Proof.
    intros Hn Hf. destruct l as [|a l]; [congruence|]. inversion Hf as [|? ? Ha _]; subst.
    destruct Ha as [_ _ [c [r [-> L]]] _ _]. destruct l; cbn [py_join app]; eauto.
  Qed.

  Lemma join_us_has_us (l : list (list byte)) : 2 <= length l -> In b_us (py_join b_us l).
  Proof.
    destruct l as [|a [|b l]]; cbn [length]; try lia. intros _.
    rewrite py_join_cons by discriminate. apply in_or_app. right. left. reflexivity.
  Qed.

  Definition cls_ok (C : list byte) : Prop := identb C = true /\ cls_startb C = true.

  Lemma cls_non_us C : cls_ok C -> non_us_start C.
  Proof. intros [_ H]. destruct C as [|c r]; [discriminate|]. cbn in *. intros ->. vm_compute in H. discriminate. Qed.

  Lemma cls_not_lower C c r : cls_ok C -> C = c :: r -> is_lower c = false.
  Proof.
    intros [_ H] ->. cbn [cls_startb] in H. destruct (is_lower c) eqn:L; [|reflexivity].
    exfalso. revert H L. clear. destruct c; vm_compute; intros; discriminate.
  Qed.

  Lemma forall_no_us l : Forall plain_facts l -> Forall (fun s => ~ In b_us s) l.
  Proof. intros H. rewrite Forall_forall in *. intros x Hx. destruct (H x Hx). assumption. Qed.

  (* the central case analysis: equal alias -> equal import line *)
  Lemma shapes_clash cur tgt1 tgt2 C1 C2 sh1 sh2 :
    Forall plain_facts tgt1 -> Forall plain_facts tgt2 -> cls_ok C1 -> cls_ok C2 ->
    valid cur tgt1 C1 sh1 -> valid cur tgt2 C2 sh2 ->
    sh_alias sh1 = sh_alias sh2 -> render sh1 = render sh2.
  Proof.
    intros F1 F2 K1 K2 V1 V2 E.
    (* facts about the segments mentioned by a shape *)
    assert (G : forall tgt C sh, Forall plain_facts tgt -> valid cur tgt C sh ->
              match sh with
              | ShChild x => plain_facts x
              | ShDesc ys x => Forall plain_facts (ys ++ [x]) /\ 2 <= length (ys ++ [x])
              | ShAnc d x => plain_facts x
              | ShRoot d C' => True
              | ShCousin d ys x => Forall plain_facts (ys ++ [x])
              end).
    { intros tgt C sh F V. destruct sh as [x|ys x|d x|d C'|d ys x]; cbn [valid] in V.
      - subst tgt. apply Forall_app in F. destruct F as [_ F]. inversion F; assumption.
      - destruct V as [-> Hys]. apply Forall_app in F. destruct F as [_ F]. split; [exact F|].
        rewrite app_length. cbn [length]. destruct ys; [congruence | cbn [length]; lia].
      - destruct V as [ts [rest [-> _]]]. apply Forall_app in F. destruct F as [_ F]. inversion F; assumption.
      - exact I.
      - destruct V as [sh' [ra [_ [-> _]]]]. apply Forall_app in F. destruct F as [_ F]. exact F. }
    pose proof (G _ _ _ F1 V1) as G1. pose proof (G _ _ _ F2 V2) as G2. clear G.
    assert (NE : forall (ys : list (list byte)) x, ys ++ [x] <> []) by (intros ys x; destruct ys; discriminate).
    destruct sh1 as [x1|ys1 x1|d1 x1|d1 C1'|d1 ys1 x1]; destruct sh2 as [x2|ys2 x2|d2 x2|d2 C2'|d2 ys2 x2];
      cbn [sh_alias] in E.
    - (* child / child *) subst. reflexivity.
    - (* child / desc *) exfalso. destruct G2 as [G2 L2]. destruct G1 as [_ N _ _ _]. apply N. rewrite E. apply join_us_has_us. exact L2.
    - (* child / anc *) exfalso. apply lower_start_non_us in G1. destruct x1; cbn in G1; [contradiction|]. injection E as E _. congruence.
    - (* child / root *) exfalso. cbn [valid] in V2. destruct V2 as [_ [-> [Hc _]]].
      apply lower_start_non_us in G1. destruct cur; [congruence|]. cbn [length repeat app] in E. destruct x1; cbn in G1; [contradiction|].
      injection E as E _. congruence.
    - (* child / cousin *) exfalso. cbn [valid] in V2. destruct V2 as [sh [ra [_ [_ [-> [Hra _]]]]]].
      apply lower_start_non_us in G1. destruct ra; [congruence|]. cbn [length repeat app] in E. destruct x1; cbn in G1; [contradiction|].
      injection E as E _. congruence.
    - (* desc / child *) exfalso. destruct G1 as [G1 L1]. destruct G2 as [_ N _ _ _]. apply N. rewrite <- E. apply join_us_has_us. exact L1.
    - (* desc / desc *) destruct G1 as [G1 _]. destruct G2 as [G2 _].
      apply join_us_inj in E; try apply NE; try (apply forall_no_us; assumption).
      apply app_inj_tail in E. destruct E as [-> ->]. reflexivity.
    - (* desc / anc *) exfalso. destruct G1 as [G1 _]. destruct (join_us_start _ (NE ys1 x1) G1) as [c [r [Ej L]]].
      rewrite Ej in E. injection E as -> _. vm_compute in L. discriminate.
    - (* desc / root *) exfalso. cbn [valid] in V2. destruct V2 as [_ [-> [Hc _]]]. destruct G1 as [G1 _].
      destruct (join_us_start _ (NE ys1 x1) G1) as [c [r [Ej L]]]. rewrite Ej in E.
      destruct cur; [congruence|]. cbn [length repeat app] in E. injection E as -> _. vm_compute in L. discriminate.
    - (* desc / cousin *) exfalso. cbn [valid] in V2. destruct V2 as [sh [ra [_ [_ [-> [Hra _]]]]]]. destruct G1 as [G1 _].
      destruct (join_us_start _ (NE ys1 x1) G1) as [c [r [Ej L]]]. rewrite Ej in E.
      destruct ra; [congruence|]. cbn [length repeat app] in E. injection E as -> _. vm_compute in L. discriminate.
    - (* anc / child *) exfalso. apply lower_start_non_us in G2. destruct x2; cbn in G2; [contradiction|]. injection E as E _. congruence.
    - (* anc / desc *) exfalso. destruct G2 as [G2 _]. destruct (join_us_start _ (NE ys2 x2) G2) as [c [r [Ej L]]].
      rewrite Ej in E. injection E as <- _. vm_compute in L. discriminate.
    - (* anc / anc *)
      change (b_us :: repeat b_us d1 ++ x1 ++ us2) with (repeat b_us (S d1) ++ x1 ++ us2) in E.
      change (b_us :: repeat b_us d2 ++ x2 ++ us2) with (repeat b_us (S d2) ++ x2 ++ us2) in E.
      apply us_prefix_inj in E; try (apply non_us_start_app, lower_start_non_us; assumption).
      destruct E as [Ed E]. apply app_inv_tail in E. injection Ed as ->. subst. reflexivity.
    - (* anc / root *) exfalso.
      cbn [valid] in V2. destruct V2 as [_ [_ [_ ->]]].
      change (b_us :: repeat b_us d1 ++ x1 ++ us2) with (repeat b_us (S d1) ++ x1 ++ us2) in E.
      apply us_prefix_inj in E; [| apply non_us_start_app, lower_start_non_us; assumption | apply non_us_start_app, cls_non_us; assumption].
      destruct E as [_ E]. apply app_inv_tail in E. destruct G1 as [_ _ [c [r [-> L]]] _ _].
      rewrite (cls_not_lower C2 c r K2 (eq_sym E)) in L. discriminate.
    - (* anc / cousin *) exfalso.
      change (b_us :: repeat b_us d1 ++ x1 ++ us2) with (repeat b_us (S d1) ++ x1 ++ us2) in E.
      destruct (join_us_start _ (NE ys2 x2) G2) as [c [r [Ej L]]].
      apply us_prefix_inj in E; [| apply non_us_start_app, lower_start_non_us; assumption
                                 | apply non_us_start_app; rewrite Ej; cbn; intros ->; vm_compute in L; discriminate].
      destruct E as [Ed E]. apply app_inv_tail in E.
      destruct ys2 as [|y ys2].
      + cbn [app py_join] in E. subst x2.
        cbn [valid] in V1, V2. destruct V1 as [ts [rest [-> [Hc [-> _]]]]]. destruct V2 as [sh [ra [Hc2 [-> [-> [_ Hnp]]]]]].
        (* cur = (ts ++ [x1]) ++ rest = sh ++ ra with |ra| = S |rest| : sh = ts, so the cousin target ts ++ [x1] is a prefix of cur *)
        assert (Hl : length sh = length ts).
        { apply (f_equal (@length _)) in Hc2. rewrite Hc in Hc2. rewrite !app_length in Hc2. cbn [length] in Hc2. lia. }
        rewrite Hc in Hc2. rewrite <- app_assoc in Hc2.
        assert (sh = ts).
        { apply (f_equal (firstn (length ts))) in Hc2. rewrite firstn_length_app in Hc2. rewrite <- Hl in Hc2.
          rewrite firstn_length_app in Hc2. congruence. }
        subst sh. apply (Hnp rest). cbn [app]. exact Hc.
      + destruct G1 as [_ N _ _ _]. apply N. rewrite E. apply join_us_has_us. rewrite app_length. cbn [length]. lia.
    - (* root / child *) exfalso. cbn [valid] in V1. destruct V1 as [_ [-> [Hc _]]].
      apply lower_start_non_us in G2. destruct cur; [congruence|]. cbn [length repeat app] in E. destruct x2; cbn in G2; [contradiction|].
      injection E as E _. congruence.
    - (* root / desc *) exfalso. cbn [valid] in V1. destruct V1 as [_ [-> [Hc _]]]. destruct G2 as [G2 _].
      destruct (join_us_start _ (NE ys2 x2) G2) as [c [r [Ej L]]]. rewrite Ej in E.
      destruct cur; [congruence|]. cbn [length repeat app] in E. injection E as <- _. vm_compute in L. discriminate.
    - (* root / anc *) exfalso.
      cbn [valid] in V1. destruct V1 as [_ [_ [_ ->]]].
      change (b_us :: repeat b_us d2 ++ x2 ++ us2) with (repeat b_us (S d2) ++ x2 ++ us2) in E.
      apply us_prefix_inj in E; [| apply non_us_start_app, cls_non_us; assumption | apply non_us_start_app, lower_start_non_us; assumption].
      destruct E as [_ E]. apply app_inv_tail in E. destruct G2 as [_ _ [c [r [-> L]]] _ _].
      rewrite (cls_not_lower C1 c r K1 E) in L. discriminate.
    - (* root / root *)
      cbn [valid] in V1, V2. destruct V1 as [_ [-> [_ ->]]]. destruct V2 as [_ [-> [_ ->]]].
      apply app_inv_head in E. apply app_inv_tail in E. subst. reflexivity.
    - (* root / cousin *) exfalso.
      cbn [valid] in V1. destruct V1 as [_ [_ [_ ->]]].
      destruct (join_us_start _ (NE ys2 x2) G2) as [c [r [Ej L]]].
      apply us_prefix_inj in E; [| apply non_us_start_app, cls_non_us; assumption
                                 | apply non_us_start_app; rewrite Ej; cbn; intros ->; vm_compute in L; discriminate].
      destruct E as [_ E]. apply app_inv_tail in E. rewrite Ej in E.
      rewrite (cls_not_lower C1 c r K1 E) in L. discriminate.
    - (* cousin / child *) exfalso. cbn [valid] in V1. destruct V1 as [sh [ra [_ [_ [-> [Hra _]]]]]].
      apply lower_start_non_us in G2. destruct ra; [congruence|]. cbn [length repeat app] in E. destruct x2; cbn in G2; [contradiction|].
      injection E as E _. congruence.
    - (* cousin / desc *) exfalso. cbn [valid] in V1. destruct V1 as [sh [ra [_ [_ [-> [Hra _]]]]]]. destruct G2 as [G2 _].
      destruct (join_us_start _ (NE ys2 x2) G2) as [c [r [Ej L]]]. rewrite Ej in E.
      destruct ra; [congruence|]. cbn [length repeat app] in E. injection E as <- _. vm_compute in L. discriminate.
    - (* cousin / anc *) exfalso.
      change (b_us :: repeat b_us d2 ++ x2 ++ us2) with (repeat b_us (S d2) ++ x2 ++ us2) in E.
      destruct (join_us_start _ (NE ys1 x1) G1) as [c [r [Ej L]]].
      apply us_prefix_inj in E; [| apply non_us_start_app; rewrite Ej; cbn; intros ->; vm_compute in L; discriminate
                                 | apply non_us_start_app, lower_start_non_us; assumption].
      destruct E as [Ed E]. apply app_inv_tail in E.
      destruct ys1 as [|y ys1].
      + cbn [app py_join] in E. subst x2.
        cbn [valid] in V1, V2. destruct V2 as [ts [rest [-> [Hc [-> _]]]]]. destruct V1 as [sh [ra [Hc2 [-> [-> [_ Hnp]]]]]].
        assert (Hl : length sh = length ts).
        { apply (f_equal (@length _)) in Hc2. rewrite Hc in Hc2. rewrite !app_length in Hc2. cbn [length] in Hc2. lia. }
        rewrite Hc in Hc2. rewrite <- app_assoc in Hc2.
        assert (sh = ts).
        { apply (f_equal (firstn (length ts))) in Hc2. rewrite firstn_length_app in Hc2. rewrite <- Hl in Hc2.
          rewrite firstn_length_app in Hc2. congruence. }
        subst sh. apply (Hnp rest). cbn [app]. exact Hc.
      + destruct G2 as [_ N _ _ _]. apply N. rewrite <- E. apply join_us_has_us. rewrite app_length. cbn [length]. lia.
    - (* cousin / root *) exfalso.
      cbn [valid] in V2. destruct V2 as [_ [_ [_ ->]]].
      destruct (join_us_start _ (NE ys1 x1) G1) as [c [r [Ej L]]].
      apply us_prefix_inj in E; [| apply non_us_start_app; rewrite Ej; cbn; intros ->; vm_compute in L; discriminate
                                 | apply non_us_start_app, cls_non_us; assumption].
      destruct E as [_ E]. apply app_inv_tail in E. rewrite Ej in E.
      rewrite (cls_not_lower C2 c r K2 (eq_sym E)) in L. discriminate.
    - (* cousin / cousin *)
      destruct (join_us_start _ (NE ys1 x1) G1) as [c1 [r1 [Ej1 L1]]].
      destruct (join_us_start _ (NE ys2 x2) G2) as [c2 [r2 [Ej2 L2]]].
      apply us_prefix_inj in E; [| apply non_us_start_app; rewrite Ej1; cbn; intros ->; vm_compute in L1; discriminate
                                 | apply non_us_start_app; rewrite Ej2; cbn; intros ->; vm_compute in L2; discriminate].
      destruct E as [-> E]. apply app_inv_tail in E.
      apply join_us_inj in E; try apply NE; try (apply forall_no_us; assumption).
      apply app_inj_tail in E. destruct E as [-> ->]. reflexivity.
  Qed.

  (* the name the rendered line binds, read by the SPEC's parser *)
  Lemma alias_of_render cur tgt C sh :
    Forall plain_facts tgt -> cls_ok C -> valid cur tgt C sh ->
    alias_of (render sh) = Some (sh_alias sh) /\ identb (sh_alias sh) = true.
  Proof.
    intros F K V. unfold alias_of, bound_name.
    assert (NE : forall (ys : list (list byte)) x, ys ++ [x] <> []) by (intros ys x; destruct ys; discriminate).
    assert (JC : forall l : list (list byte), Forall plain_facts l -> ident_chars (py_join b_us l)).
    { intros l Hl. unfold ident_chars. apply forallb_forall. intros z Hz. apply In_py_join in Hz.
      destruct Hz as [->|[s [Hs Hz]]]; [reflexivity|]. rewrite Forall_forall in Hl. destruct (Hl s Hs) as [Hi _ _ _ _].
      apply identb_chars in Hi. unfold ident_chars in Hi. rewrite forallb_forall in Hi. auto. }
    destruct sh as [x|ys x|d x|d C'|d ys x]; cbn [valid] in V; cbn [render sh_alias].
    - subst tgt. apply Forall_app in F. destruct F as [_ F]. inversion F as [|? ? [Hx _ _ _ _] _]; subst.
      rewrite parse_stmt_from_dot by exact Hx. split; [reflexivity | exact Hx].
    - destruct V as [-> Hys]. apply Forall_app in F. destruct F as [_ F].
      assert (Fi : Forall (fun s => identb s = true) (ys ++ [x])).
      { rewrite Forall_forall in *. intros z Hz. destruct (F z Hz). assumption. }
      pose proof Fi as Fi'. apply Forall_app in Fi'. destruct Fi' as [Fys Fx]. inversion Fx as [|? ? Hx _]; subst.
      assert (Hal : identb (py_join b_us (ys ++ [x])) = true).
      { apply identb_join_us; [|exact Fi]. rewrite app_length. cbn [length]. destruct ys; [congruence | cbn [length]; lia]. }
      assert (Hps : parse_stmt (s_from_sp ++ b_dot :: py_join b_dot ys ++ s_import_sp ++ x ++ s_as_sp ++ py_join b_us (ys ++ [x]))
                    = Some (SFrom 1 ys x (py_join b_us (ys ++ [x])))).
      { exact (parse_stmt_from_as 1 ys x _ (or_introl (Nat.neq_succ_0 0)) Fys Hx Hal). }
      rewrite Hps. split; [reflexivity | exact Hal].
    - destruct V as [ts [rest [-> _]]]. apply Forall_app in F. destruct F as [_ F]. inversion F as [|? ? [Hx _ _ _ _] _]; subst.
      assert (Hal : identb (b_us :: repeat b_us d ++ x ++ us2) = true).
      { apply (identb_us_wrapped (S d) x); [discriminate | apply identb_chars, Hx]. }
      assert (Hps : parse_stmt (s_from_sp ++ (b_dot :: b_dot :: repeat b_dot d) ++ s_import_sp ++ x ++ s_as_sp ++ b_us :: repeat b_us d ++ x ++ us2)
                    = Some (SFrom (S (S d)) [] x (b_us :: repeat b_us d ++ x ++ us2))).
      { exact (parse_stmt_from_as_nosub (S (S d)) x _ (Nat.neq_succ_0 _) Hx Hal). }
      rewrite Hps. split; [reflexivity | exact Hal].
    - destruct V as [_ [-> [Hc ->]]]. destruct K as [HC _].
      assert (Hd : length cur <> 0) by (destruct cur; [congruence | discriminate]).
      assert (Hal : identb (repeat b_us (length cur) ++ C ++ us2) = true) by (apply identb_us_wrapped; [exact Hd | apply identb_chars, HC]).
      destruct (length cur) as [|d]; [congruence|].
      assert (Hps : parse_stmt (s_from_sp ++ b_dot :: repeat b_dot (S d) ++ s_import_sp ++ C ++ s_as_sp ++ repeat b_us (S d) ++ C ++ us2)
                    = Some (SFrom (S (S d)) [] C (repeat b_us (S d) ++ C ++ us2))).
      { exact (parse_stmt_from_as_nosub (S (S d)) C _ (Nat.neq_succ_0 _) HC Hal). }
      rewrite Hps. split; [reflexivity | exact Hal].
    - destruct V as [sh' [ra [_ [-> [-> [Hra _]]]]]]. apply Forall_app in F. destruct F as [_ F].
      assert (Fi : Forall (fun s => identb s = true) (ys ++ [x])).
      { rewrite Forall_forall in *. intros z Hz. destruct (F z Hz). assumption. }
      pose proof Fi as Fi'. apply Forall_app in Fi'. destruct Fi' as [Fys Fx]. inversion Fx as [|? ? Hx _]; subst.
      assert (Hd : length ra <> 0) by (destruct ra; [congruence | discriminate]).
      assert (Hal : identb (repeat b_us (length ra) ++ py_join b_us (ys ++ [x]) ++ us2) = true).
      { apply identb_us_wrapped; [exact Hd | apply JC, F]. }
      assert (Hps : parse_stmt (s_from_sp ++ (b_dot :: repeat b_dot (length ra) ++ py_join b_dot ys) ++ s_import_sp ++ x ++ s_as_sp
                                ++ repeat b_us (length ra) ++ py_join b_us (ys ++ [x]) ++ us2)
                    = Some (SFrom (S (length ra)) ys x (repeat b_us (length ra) ++ py_join b_us (ys ++ [x]) ++ us2))).
      { exact (parse_stmt_from_as (S (length ra)) ys x _ (or_introl (Nat.neq_succ_0 _)) Fys Hx Hal). }
      rewrite Hps. split; [reflexivity | exact Hal].
  Qed.

  Theorem no_alias_clash_gen (cur tgt1 tgt2 : list (list byte)) T1 T2 (u1 u2 pyd : bool) s1 s2 :
    plain_pkgb cur = true -> plain_pkgb tgt1 = true -> plain_pkgb tgt2 = true ->
    type_okb T1 = true -> type_okb T2 = true ->
    cls_ok (cls_name T1) -> cls_ok (cls_name T2) ->
    path_eqb tgt1 google_protobuf = false -> path_eqb tgt2 google_protobuf = false ->
    snd (get_type_reference cls_name snake optional (py_join b_dot cur) (b_dot :: py_join b_dot (tgt1 ++ [T1])) u1 pyd) = Some s1 ->
    snd (get_type_reference cls_name snake optional (py_join b_dot cur) (b_dot :: py_join b_dot (tgt2 ++ [T2])) u2 pyd) = Some s2 ->
    alias_of s1 = alias_of s2 -> s1 = s2.
  Proof.
    intros Pc P1 P2 HT1 HT2 K1 K2 G1 G2 R1 R2 EA.
    destruct (gtr_shape_snd cur tgt1 T1 u1 pyd s1 Pc P1 HT1 G1 R1) as [sh1 [-> V1]].
    destruct (gtr_shape_snd cur tgt2 T2 u2 pyd s2 Pc P2 HT2 G2 R2) as [sh2 [-> V2]].
    pose proof (plain_pkg_facts _ P1) as F1. pose proof (plain_pkg_facts _ P2) as F2.
    rewrite (proj1 (alias_of_render cur tgt1 (cls_name T1) sh1 F1 K1 V1)) in EA.
    rewrite (proj1 (alias_of_render cur tgt2 (cls_name T2) sh2 F2 K2 V2)) in EA.
    injection EA as EA.
    exact (shapes_clash cur tgt1 tgt2 _ _ sh1 sh2 F1 F2 K1 K2 V1 V2 EA).
  Qed.
End Clash.

(* ------------------------------------------------------------------ the two clashes of the pinned code *)
Definition imp_of (r : list byte * option (list byte)) : list byte := match snd r with Some s => s | None => [] end.

Definition w_us : world :=
  world_of [sr] [py_join b_dot [sx]; py_join b_dot [sx; sa; sb]; py_join b_dot [sx; s_a_b]]
           [([sr; sx; sa; sb], [CLS t_T]); ([sr; sx; s_a_b], [CLS t_T])] [].
Definition s1_us : list byte := Eval vm_compute in imp_of (gtr [sx] [sx; sa; sb] t_T).   (* from .a import b as a_b *)
Definition s2_us : list byte := Eval vm_compute in imp_of (gtr [sx] [sx; s_a_b] t_T).    (* from . import a_b *)

Theorem underscore_alias_refuted :
  exists (w : world) (root cur tgt1 tgt2 : list (list byte)) T s1 s2,
    pkg_okb cur = true /\ pkg_okb tgt1 = true /\ pkg_okb tgt2 = true /\
    world_has w root tgt1 (CLS T) /\ world_has w root tgt2 (CLS T) /\
    snd (gtr cur tgt1 T) = Some s1 /\ snd (gtr cur tgt2 T) = Some s2 /\
    alias_of s1 = alias_of s2 /\ s1 <> s2 /\
    (forall order, order = [s1; s2] \/ order = [s2; s1] ->
       exists e, exec_all w (root ++ cur) order = Some e /\
         (resolve_annotation w (root ++ cur) e (fst (gtr cur tgt1 T)) <> Some (VCls (root ++ tgt1) (CLS T)) \/
          resolve_annotation w (root ++ cur) e (fst (gtr cur tgt2 T)) <> Some (VCls (root ++ tgt2) (CLS T)))).
Proof.
  exists w_us, [sr], [sx], [sx; sa; sb], [sx; s_a_b], t_T, s1_us, s2_us.
  conj_split; try (vm_compute; reflexivity); try discriminate.
  - apply (world_of_has [sr] _ _ [] [sx; sa; sb] [CLS t_T]).
    + reflexivity.
    + right. left. reflexivity.
    + left. reflexivity.
    + left. reflexivity.
    + intros d n [<-|[<-|[]]] [<-|[]]; vm_compute; reflexivity.
  - apply (world_of_has [sr] _ _ [] [sx; s_a_b] [CLS t_T]).
    + reflexivity.
    + right. right. left. reflexivity.
    + right. left. reflexivity.
    + left. reflexivity.
    + intros d n [<-|[<-|[]]] [<-|[]]; vm_compute; reflexivity.
  - intros order [->| ->].
    + eexists. split; [vm_compute; reflexivity|]. left. vm_compute. discriminate.
    + eexists. split; [vm_compute; reflexivity|]. right. vm_compute. discriminate.
Qed.

Definition s1_dg : list byte := Eval vm_compute in imp_of (gtr [sx; sy] [sx; s_a1; sb] t_T).   (* from ..a1 import b as _a1_b__ *)
Definition s2_dg : list byte := Eval vm_compute in imp_of (gtr [sx; sy] [sx; s_a1b] t_T).      (* from .. import a1b as _a1_b__ *)

Theorem digit_alias_refuted :
  exists (cur tgt1 tgt2 : list (list byte)) T s1 s2,
    pkg_okb cur = true /\ pkg_okb tgt1 = true /\ pkg_okb tgt2 = true /\
    snd (gtr cur tgt1 T) = Some s1 /\ snd (gtr cur tgt2 T) = Some s2 /\
    alias_of s1 = alias_of s2 /\ s1 <> s2.
Proof.
  exists [sx; sy], [sx; s_a1; sb], [sx; s_a1b], t_T, s1_dg, s2_dg.
  conj_split; try (vm_compute; reflexivity); discriminate.
Qed.

(* non-vacuity of no_alias_clash_gen: two plain cousins of one module, with different aliases *)
Example no_alias_clash_example :
  plain_pkgb [sa; sb] = true /\ plain_pkgb [sc; sd] = true /\ plain_pkgb [sa; sc] = true /\
  type_okb t_T = true /\ identb (CLS t_T) = true /\ cls_startb (CLS t_T) = true /\
  SNK (py_join b_dot [sc; sd]) = py_join b_us [sc; sd] /\
  alias_of (imp_of (gtr [sa; sb] [sc; sd] t_T)) = Some [x5f; x5f; x63; x5f; x64; x5f; x5f] /\    (* __c_d__ *)
  alias_of (imp_of (gtr [sa; sb] [sa; sc] t_T)) = Some [x5f; x63; x5f; x5f].                     (* _c__ *)
Proof. conj_split; vm_compute; reflexivity. Qed.
