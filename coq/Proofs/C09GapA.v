(* C09 - gap analysis of the property text against Properties/C09.v, and the gap-closing proofs (group A).

   PROPERTY TEXT, clause by clause  ->  theorems that existed  ->  gap  ->  closed by

   (1) "For every message value m, len(m) equals len(bytes(m))"
         -> C09_len, C09_len_err, C09_two_walks_agree, C09_len_ok_inv, C09_len_nonneg: unconditional in schema and object,
            both directions, failures included.  No gap in the MODEL.
         gap a: the statement is about VALUES (bytes(m) returns); nothing said that for the values of the quantifier
            ("as in C01") the two walks RETURN at all.  -> value_ok_total (C01's c01_value_ok => bytes, len, both dumps
            return and are related as the text says), reachable_total (discharged for every run7 history of public-API
            operations through C01_reachable_value_ok_parse).
         gap b: ill-typed values (header of Properties/C09.v): the model raises TypeError on both walks, the code only on
            the write walk.  -> C09GapB: the exact decidable typing condition under which the model's TypeError /
            AttributeError arms are unreachable.
   (2) "m.dump(stream) writes exactly bytes(m)"  -> C09_dump (an equation of results).  No gap.
   (3) "m.dump(stream, SIZE_DELIMITED) writes the varint encoding of that length followed by bytes(m)"
         -> C09_dump_delimited (equation, in terms of encode_varint), C09_dump_delimited_prefix / _total (under
            Zlength bs < 2^64), C09_dump_ok_inv, C09_dump_err_inv (second disjunct: "the length does not fit a varint").
         gap a: the bound 2^64 of _total and the second disjunct of _err_inv are NOT needed: dump_varint accepts every
            non-negative int.  -> dump_delimited_always (no bound), dump_err_iff (dump raises e IFF bytes raises e, both
            forms), dump_ok_iff, length_never_rejected.
         gap b: "the varint encoding" was stated through the model's encode_varint only.  -> dump_delimited_spec: the
            prefix is THE canonical varint of Spec/Varint.v (unique by C16_canonical_unique) when the length is < 2^64
            (the bound is what C16 needs to speak of a 64-bit varint; above it the prefix is longer than 10 bytes and
            load_varint refuses it - not witnessable by computation).
         gap c: "exactly" as uniqueness: the frame determines the payload.  -> frame_determines_bytes (two delimited
            dumps that wrote the same bytes had the same bytes(m), whatever the schemas / objects), frame_size_exact.
   (4) "SerializeToString and bytes agree"  -> NO theorem (the model had no name for SerializeToString).
         -> Model/C09GapDefs.serialize_to_string (= `return bytes(self)`), serialize_agrees (+ len form).
   (5) quantifier "all message types": every theorem is for all sc.  No gap.
   (6) quantifier "values as in C01": see (1a).  "including messages carrying unknown fields": the theorems are
       unconditional, but c01_value_ok EXCLUDES unknown bytes, so (1a) alone would not cover them.
         -> value_ok_unknown_total: a C01 value with ANY unknown bytes attached: bytes = body ++ unknown, len = |body| +
            |unknown|, both dumps as in the text (composition with C08_reemit / C08_len_unknown).
       "empty-but-present optional / oneof / nested members": covered by the unconditional statements; the
       example of Properties/C09.v exhibits one of each; C09GapB states their sizes (present_empty_sizes).
   (7) compositions asked for by neighbouring properties: C01 round trip -> len_roundtrip (the decoded message has the
       same len), C10 framing (load_varint reads the prefix back: existing C09_dump_delimited_prefix), C07 histories
       (existing C09_len_after_history, unconditional). *)
From Coq Require Import ZArith List Bool Lia.
From BP Require Import Base.Prelude Model.Types Model.Varint Model.Object Model.Encode Model.Decode Model.Len.
From BP Require Import Model.WellFormed Model.C01Def Model.C08Step Model.C09GapDefs.
From BP Require Import Model.History Model.C07Ops Model.C01Reach Model.C01Parse.
From BP Require Import Spec.Varint.
From BP Require Import Proofs.VarintP Proofs.LenP Proofs.LenP2 Proofs.C08StepP.
From BP Require Proofs.C01Final Proofs.C01Stable Proofs.C01Reach2B.
Import ListNotations.

(* ---------- (3a) the length is never what makes a delimited dump fail ---------- *)
Lemma length_never_rejected {A} (l : list A) : exists p, encode_varint (Zlength l) = Ok p.
Proof.
  unfold encode_varint. pose proof (Zlength_nonneg l) as H.
  destruct (Zlength l <? - 2 ^ 63) eqn:E; [lia|]. eauto.
Qed.

Lemma dump_delimited_always sc o bs : enc_obj sc o = Ok bs ->
  exists p, encode_varint (Zlength bs) = Ok p /\ dump sc o true = Ok (p ++ bs).
Proof.
  intros E. destruct (length_never_rejected bs) as [p Hp]. exists p. split; [exact Hp|].
  rewrite (dump_delimited _ _ _ E), Hp. reflexivity.
Qed.

Lemma dump_err_iff sc o d e : dump sc o d = Err e <-> enc_obj sc o = Err e.
Proof.
  split; [|apply dump_fails_iff_bytes_fails].
  intros H. destruct (dump_err_inv _ _ _ _ H) as [E|[_ [bs [_ E]]]]; [exact E|].
  destruct (length_never_rejected bs) as [p Hp]. congruence.
Qed.

Lemma dump_ok_iff sc o d : (exists out, dump sc o d = Ok out) <-> (exists bs, enc_obj sc o = Ok bs).
Proof.
  split.
  - intros [out H]. destruct (dump_ok_inv _ _ _ _ H) as [bs [E _]]. eauto.
  - intros [bs E]. destruct d.
    + destruct (dump_delimited_always _ _ _ E) as [p [_ D]]. eauto.
    + rewrite dump_plain. eauto.
Qed.

(* ---------- (3b) the prefix is the canonical varint of the specification ---------- *)
Lemma dump_delimited_spec sc o bs : enc_obj sc o = Ok bs -> Zlength bs < 2 ^ 64 ->
  exists p, canonical (Zlength bs) p /\ (length p <= 10)%nat /\ dump sc o true = Ok (p ++ bs) /\
            (forall q, canonical (Zlength bs) q -> q = p).
Proof.
  intros E L. pose proof (Zlength_nonneg bs) as N.
  destruct (encode_in_range (Zlength bs)) as [p [Hp [C Len]]]; [lia|].
  unfold wrap64 in C. rewrite Z.mod_small in C by lia.
  exists p. split; [exact C|]. split; [exact Len|]. split.
  - rewrite (dump_delimited _ _ _ E), Hp. reflexivity.
  - intros q Hq. exact (canonical_unique _ _ _ Hq C).
Qed.

(* ---------- (3c) the frame determines the payload ---------- *)
Lemma frame_determines_bytes sc o sc' o' out : Zlength out < 2 ^ 64 ->
  dump sc o true = Ok out -> dump sc' o' true = Ok out -> enc_obj sc o = enc_obj sc' o'.
Proof.
  intros L D D'.
  destruct (dump_ok_inv _ _ _ _ D) as [bs [E [p [Hp ->]]]].
  destruct (dump_ok_inv _ _ _ _ D') as [bs' [E' [p' [Hp' Eq]]]].
  rewrite Zlength_app in L. pose proof (Zlength_nonneg p) as Np.
  assert (Lb : Zlength bs < 2 ^ 64) by lia.
  assert (Lb' : Zlength bs' < 2 ^ 64).
  { pose proof (f_equal (@Zlength byte) Eq) as Z. rewrite !Zlength_app in Z.
    pose proof (Zlength_nonneg p'). lia. }
  destruct (dump_delimited_canonical _ _ _ E Lb) as [q [Hq [_ Ld]]].
  destruct (dump_delimited_canonical _ _ _ E' Lb') as [q' [Hq' [_ Ld']]].
  assert (q = p) by congruence. assert (q' = p') by congruence. subst q q'.
  rewrite Eq in Ld. rewrite Ld in Ld'. rewrite E, E'. congruence.
Qed.

Lemma enc_go_nonempty f v : 1 <= Zlength (enc_go f v).
Proof.
  destruct f as [|f]; cbn [enc_go]; [unfold Zlength; cbn [length]; lia|].
  destruct (Z.shiftr v 7 =? 0); unfold Zlength; cbn [length]; lia.
Qed.

Lemma encode_varint_nonempty v p : encode_varint v = Ok p -> 1 <= Zlength p.
Proof.
  unfold encode_varint. destruct (v <? - 2 ^ 63); [discriminate|].
  cbv zeta.
  generalize (enc_go_nonempty (enc_fuel (if v <? 0 then v + 2 ^ 64 else v)) (if v <? 0 then v + 2 ^ 64 else v)).
  generalize (enc_go (enc_fuel (if v <? 0 then v + 2 ^ 64 else v)) (if v <? 0 then v + 2 ^ 64 else v)).
  intros r Hr H. injection H as H. subst p. exact Hr.
Qed.

Lemma frame_size_exact sc o out : dump sc o true = Ok out ->
  exists bs p, enc_obj sc o = Ok bs /\ encode_varint (Zlength bs) = Ok p /\
               Zlength out = Zlength p + Zlength bs /\ 1 <= Zlength p /\ len_obj sc o = Ok (Zlength out - Zlength p).
Proof.
  intros D. destruct (dump_ok_inv _ _ _ _ D) as [bs [E [p [Hp ->]]]].
  exists bs, p. split; [exact E|]. split; [exact Hp|]. rewrite Zlength_app. split; [reflexivity|].
  split.
  - exact (encode_varint_nonempty _ _ Hp).
  - rewrite (len_of_bytes _ _ _ E). f_equal. lia.
Qed.

(* ---------- (4) SerializeToString ---------- *)
Lemma serialize_agrees sc o : serialize_to_string sc o = enc_obj sc o /\ serialize_to_string sc o = dump sc o false.
Proof. split; [reflexivity|]. rewrite dump_plain. reflexivity. Qed.

Lemma serialize_len sc o bs : serialize_to_string sc o = Ok bs -> len_obj sc o = Ok (Zlength bs).
Proof. apply len_of_bytes. Qed.

(* ---------- (1a) totality on the values of the quantifier ---------- *)
Lemma value_ok_total sc m : c01_schema_ok sc = true -> c01_value_ok sc m = true ->
  exists bs p, enc_obj sc m = Ok bs /\ len_obj sc m = Ok (Zlength bs) /\ serialize_to_string sc m = Ok bs /\
    dump sc m false = Ok bs /\ encode_varint (Zlength bs) = Ok p /\ dump sc m true = Ok (p ++ bs).
Proof.
  intros S V. destruct (C01Final.c01_roundtrip sc m S V) as [bs [E _]].
  destruct (dump_delimited_always _ _ _ E) as [p [Hp D]].
  exists bs, p. repeat split; try assumption.
  - apply len_of_bytes; exact E.
  - rewrite dump_plain; exact E.
Qed.

Lemma reachable_total sc c ops m :
  c01_schema_ok sc = true -> hist_ok op_value_ok_p sc (new sc c) ops = true -> run7 sc (new sc c) ops = Ok m ->
  exists bs p, enc_obj sc m = Ok bs /\ len_obj sc m = Ok (Zlength bs) /\ serialize_to_string sc m = Ok bs /\
    dump sc m false = Ok bs /\ encode_varint (Zlength bs) = Ok p /\ dump sc m true = Ok (p ++ bs).
Proof.
  intros S H R. apply value_ok_total; [exact S|].
  exact (C01Reach2B.c01_reachable_value_ok_parse sc c ops m S H R).
Qed.

(* ---------- (6) the same with unknown bytes attached ---------- *)
Lemma value_ok_unknown_total sc m : c01_schema_ok sc = true -> c01_value_ok sc (clear_unk m) = true ->
  exists body p, enc_obj sc (clear_unk m) = Ok body /\
    enc_obj sc m = Ok (body ++ ounk m) /\
    len_obj sc m = Ok (Zlength body + Zlength (ounk m)) /\
    dump sc m false = Ok (body ++ ounk m) /\
    encode_varint (Zlength body + Zlength (ounk m)) = Ok p /\
    dump sc m true = Ok (p ++ body ++ ounk m).
Proof.
  intros S V. destruct (C01Final.c01_roundtrip sc _ S V) as [body [E _]].
  assert (Em : enc_obj sc m = Ok (body ++ ounk m)).
  { apply (reemit sc m). exists body. split; [exact E|reflexivity]. }
  destruct (dump_delimited_always _ _ _ Em) as [p [Hp D]].
  exists body, p. split; [exact E|]. split; [exact Em|].
  rewrite <- Zlength_app. split; [apply len_of_bytes; exact Em|].
  split; [rewrite dump_plain; exact Em|]. split; [exact Hp|exact D].
Qed.

(* ---------- (7) C01 round trip: the decoded message has the same len ---------- *)
Lemma len_roundtrip sc m : c01_schema_ok sc = true -> c01_value_ok sc m = true ->
  len_obj sc (norm_obj sc m) = len_obj sc m /\
  forall bs, enc_obj sc m = Ok bs -> Zlength bs < 2 ^ 64 ->
    exists m', parse sc (ocls m) bs = Ok m' /\ len_obj sc m' = Ok (Zlength bs) /\ dump sc m' true = dump sc m true.
Proof.
  intros S V.
  pose proof (C01Stable.c01_reencode_stable sc m S V) as St.
  assert (L : len_obj sc (norm_obj sc m) = len_obj sc m).
  { pose proof (len_matches_bytes sc (norm_obj sc m)) as A. pose proof (len_matches_bytes sc m) as B.
    unfold agree in *. rewrite St in A.
    destruct (enc_obj sc m), (len_obj sc (norm_obj sc m)), (len_obj sc m); try contradiction; congruence. }
  split; [exact L|].
  intros bs E Lt. destruct (C01Final.c01_roundtrip sc m S V) as [bs' [E' H]].
  assert (bs' = bs) by congruence. subst bs'.
  destruct (H Lt) as [m' [P [_ [_ [_ [_ Em']]]]]].
  exists m'. split; [exact P|]. split; [apply len_of_bytes; exact Em'|].
  rewrite (dump_delimited _ _ _ Em'), (dump_delimited _ _ _ E). reflexivity.
Qed.
