(* C01 layer 4e — the remaining slot shapes: nothing written (unselected oneof member, None, a
   PLACEHOLDER that is not the selected member), the selected oneof member still holding PLACEHOLDER
   (its default is written), packed and unpacked repeated fields. *)
From Coq Require Import ZArith List Bool Lia ZifyBool.
From BP Require Import Base.Prelude Model.Types Model.Varint Model.Scalar Model.Float Model.Utf8.
From BP Require Import Model.Object Model.Eq Model.TimeCore Model.Encode Model.Decode Model.WellFormed Model.C01Def.
From BP Require Import gen.Tables Proofs.BytesP Proofs.LenP Proofs.C01Scalar Proofs.C01Frame Proofs.C01Step Proofs.C01Apply
     Proofs.C01Elem Proofs.C01Field Proofs.C01Builtin Proofs.C01Unfold Proofs.C01Value Proofs.C01Slot.

Section Slot2.
  Variables (sc : schema) (fuel' : nat) (c : nat).
  Hypothesis Hbi : builtins_exact sc = true.
  Let cd := get_class sc c.
  Let fs := cfields cd.
  Let nc := length (classes sc).
  Let ne := length (enums sc).

  Variables (cur : list (option nat)) (i : nat) (f : fdesc).
  Hypothesis Hf : nth_error fs i = Some f.
  Hypothesis Hnd : nodup_z (map fnum fs) = true.
  Hypothesis Hwf : wf_field sc (cngroups cd) f = true.
  Let sel := group_selects cur f i.

  Variables (rawP : list pv) (unk : list byte) (curP : list (option nat)).
  Hypothesis Hfresh : nth i rawP PPlaceholder = fresh_of f.
  Hypothesis Hlen : (i < length rawP)%nat.
  Hypothesis Hsib : forall g, fgroup f = Some g -> sibs_clear fs rawP g i.

  (* the shape of every slot lemma *)
  Definition slot_goal (x : pv) : Prop :=
    exists here, enc_slot sc cur i f x = Ok here /\ (here = [] -> slot_default sc f x) /\
      (small here -> (length here <= fuel')%nat ->
       feeds fuel' sc cd (Obj c rawP true unk curP) here
             (Obj c (set_nth i (norm_slot sc (norm_obj sc) f sel x) rawP) true unk (cur_sel sel f i curP))).

  Lemma slot_skipped x :
    enc_slot sc cur i f x = Ok [] -> slot_default sc f x ->
    norm_slot sc (norm_obj sc) f sel x = fresh_of f -> cur_sel sel f i curP = curP ->
    slot_goal x.
  Proof.
    intros He Hd Hn Hc. exists []. split; [exact He|]. split; [auto|]. intros _ _.
    rewrite Hn, Hc, <- Hfresh, set_nth_same by exact Hlen. apply feeds_nil.
  Qed.

  (* ---- nothing is written ---- *)
  Lemma slot_unselected x : sel = Some false -> x = PPlaceholder -> slot_goal x.
  Proof.
    intros Hs ->. apply slot_skipped.
    - unfold enc_slot. fold sel. rewrite Hs. reflexivity.
    - left. reflexivity.
    - unfold norm_slot. fold sel. rewrite Hs. reflexivity.
    - unfold cur_sel. rewrite Hs. reflexivity.
  Qed.

  Lemma slot_none : sel <> Some false -> (exists p, fhint f = HOptional p) -> slot_goal PNone.
  Proof.
    intros Hs (p & Hh). destruct (wf_optional _ _ _ _ Hwf Hh) as (_ & Hg & _).
    assert (Hsel : sel = None) by (unfold sel, group_selects; rewrite Hg; reflexivity).
    apply slot_skipped.
    - unfold enc_slot. fold sel. rewrite Hsel. reflexivity.
    - right. left. reflexivity.
    - unfold norm_slot. rewrite Hsel. reflexivity.
    - unfold cur_sel. rewrite Hsel. reflexivity.
  Qed.

  (* ---- PLACEHOLDER ---- *)
  Lemma sel_none_group : sel = None -> fgroup f = None.
  Proof. unfold sel, group_selects. destruct (fgroup f); [discriminate|reflexivity]. Qed.

  Lemma group_none_sel : fgroup f = None -> sel = None.
  Proof. unfold sel, group_selects. intros ->. reflexivity. Qed.

  Lemma default_msg_bytes t c' se :
    t = TMessage ->
    serialize_with (msg_bytes (fun _ => Ok [])) (fnum f) t (PMsg (new sc c')) se None
    = if se then serialize_with (msg_bytes (fun _ => Ok [])) (fnum f) TMessage (PMsg (new sc c')) true None else Ok [].
  Proof. intros ->. destruct se; reflexivity. Qed.

  Lemma enc_placeholder_unselected : sel = None -> enc_slot sc cur i f PPlaceholder = Ok [].
  Proof.
    intros Hs. pose proof (sel_none_group Hs) as Hg. unfold enc_slot. fold sel. rewrite Hs.
    destruct (fhint f) as [p|p|p|pk pv'] eqn:Hh; unfold default_of; rewrite Hh; try reflexivity.
    - destruct (wf_plain _ _ _ _ Hwf Hh) as (Hfo & Hfw & _ & _ & Hfit).
      destruct p; unfold emit_field; cbn [is_default]; rewrite ?Hh, ?Hg, ?Hfo; try reflexivity.
      (* a fresh sub-message: not written whatever is_default says *)
      rewrite new_unfold. cbn [osow is_some orb negb].
      assert (Ht : fty f = TMessage) by (destruct (fty f); try discriminate Hfit; reflexivity).
      match goal with |- (if ?b then _ else _) = _ => destruct b end; [reflexivity|].
      rewrite Hfw, Ht. reflexivity.
    - destruct (wf_list _ _ _ _ Hwf Hh) as (Hfo & _). unfold emit_field. cbn [is_default]. rewrite Hh, Hg, Hfo. reflexivity.
    - destruct (wf_dict _ _ _ _ _ Hwf Hh) as (Hfo & _). unfold emit_field. cbn [is_default]. rewrite Hh, Hg, Hfo. reflexivity.
  Qed.

  Lemma slot_placeholder_unselected : sel = None -> slot_goal PPlaceholder.
  Proof.
    intros Hs. apply slot_skipped.
    - apply enc_placeholder_unselected. exact Hs.
    - left. reflexivity.
    - unfold norm_slot. rewrite Hs. reflexivity.
    - unfold cur_sel. rewrite Hs. reflexivity.
  Qed.

  (* the selected member of a oneof that still holds PLACEHOLDER: its default value is written *)
  Lemma default_elem p :
    fhint f = HPlain p -> pyty_fits nc ne (fty f) p = true ->
    elem_enc (msg_bytes (fun _ => Ok [])) fuel' sc (fty f) p None (default_of sc f)
             (match default_of sc f with PMsg o => PMsg (raise_sow o) | d => d end) True.
  Proof.
    intros Hh Hfit. unfold default_of. rewrite Hh. pose proof (pyty_fits_scalar _ _ _ _ Hfit) as Ht.
    destruct p.
    1-6: (eapply elem_enc_mono; [intros _; exact I|];
          match goal with |- elem_enc _ _ _ ?t ?p None ?d ?d _ =>
            replace d with (norm_scalar t d) at 2 by (destruct t; try discriminate Hfit; reflexivity);
            apply elem_scalar; [exact Ht | destruct t; try discriminate Hfit; reflexivity]
          end).
    - rewrite Ht.
      apply (elem_len (msg_bytes (fun _ => Ok [])) fuel' sc TMessage (PyMsg c0) None (PMsg (new sc c0))
                      (PMsg (raise_sow (new sc c0))) []); try reflexivity; auto.
      intros _ Hl f0. unfold post_len. cbn [ptype_eqb ptype_tag Z.eqb].
      destruct fuel' as [|fuel'']; [cbn in Hl; lia|]. rewrite parse_empty. cbn [bind]. rewrite new_unfold. reflexivity.
    - rewrite Ht. eapply elem_enc_mono; [intros _; exact I|].
      apply (elem_datetime (fun _ => Ok []) fuel' sc Hbi 0). unfold dt_min_us, dt_max_us. lia.
    - rewrite Ht. eapply elem_enc_mono; [intros _; exact I|].
      apply (elem_timedelta (fun _ => Ok []) fuel' sc Hbi 0). lia.
  Qed.

  Lemma slot_placeholder_selected : sel = Some true -> slot_goal PPlaceholder.
  Proof.
    intros Hs.
    pose proof (group_selects_shape cur f i) as Hsh. fold sel in Hsh. rewrite Hs in Hsh. destruct Hsh as (g & Hg & _).
    assert (Hh : exists p, fhint f = HPlain p).
    { destruct (fhint f) as [p|p|p|pk pv'] eqn:Hh; [eauto| | |].
      - destruct (wf_optional _ _ _ _ Hwf Hh) as (_ & Hg' & _). congruence.
      - destruct (wf_list _ _ _ _ Hwf Hh) as (_ & _ & _ & Hg' & _). congruence.
      - destruct (wf_dict _ _ _ _ _ Hwf Hh) as (_ & _ & Hg' & _). congruence. }
    destruct Hh as (p & Hh). destruct (wf_plain _ _ _ _ Hwf Hh) as (Hfo & Hfw & _ & Hmap & Hfit).
    set (v' := match default_of sc f with PMsg o => PMsg (raise_sow o) | d0 => d0 end).
    set (d := default_of sc f).
    assert (Hfr : nth i rawP PPlaceholder = PPlaceholder \/ nth i rawP PPlaceholder = PNone).
    { rewrite Hfresh. unfold fresh_of. rewrite Hfo. auto. }
    assert (Hnl : forall l, default_of sc f <> PList l) by (intros l; unfold default_of; rewrite Hh; destruct p; discriminate).
    assert (Hel : elem_enc (msg_bytes (fun _ => Ok [])) fuel' sc (fty f) (hint_elem (fhint f)) (fwraps f) d v' True)
      by (unfold v', d; rewrite Hh, Hfw; cbn [hint_elem]; apply default_elem; assumption).
    assert (Hmk : marked sc v' = v').
    { unfold v', default_of. rewrite Hh. destruct p; try reflexivity.
      rewrite new_unfold. cbn [raise_sow]. unfold marked.
      match goal with |- (if ?b then _ else _) = _ => destruct b end; reflexivity. }
    destruct (feeds_singular (msg_bytes (fun _ => Ok [])) fuel' sc c rawP unk curP i f d v' True Hf Hnd
                (wf_field_num _ _ _ Hwf) Hmap Hnl Hfr Hsib Hel Hmk true) as (here & Eh & _ & Hse & Hfeed).
    exists here. split.
    - unfold enc_slot. fold sel. rewrite Hs.
      unfold d, default_of in Eh. unfold default_of. rewrite Hh in Eh |- *.
      destruct p; unfold emit_field; rewrite Hg; cbn [is_some orb negb]; rewrite andb_false_r, ?orb_true_r; exact Eh.
    - pose proof (Hse eq_refl) as Hne. split; [congruence|]. intros Hsm Hl. specialize (Hfeed Hsm Hl).
      destruct here as [|h0 here']; [congruence|]. cbn [is_nil] in Hfeed.
      assert (Hn : norm_slot sc (norm_obj sc) f sel PPlaceholder = v').
      { unfold norm_slot. rewrite Hs. reflexivity. }
      rewrite Hn. unfold cur_sel. rewrite Hs. exact Hfeed.
  Qed.
End Slot2.
