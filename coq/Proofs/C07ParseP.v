(* C07: parsing bytes that hold records of several members of one group selects the member of
   the LAST such record (in byte order, whatever is interleaved) and hides the others. *)
From Coq Require Import ZArith List Bool Lia Arith.
From BP Require Import Base.Prelude Model.Types Model.Varint Model.Object Model.Eq Model.Encode Model.Decode.
From BP Require Import Model.History Model.C07Ops Model.C07Step Model.C07Wire Model.WellFormed.
From BP Require Import Proofs.C07InvP Proofs.C07LoadP Proofs.C07WireP Proofs.C07HistP.
Import ListNotations.

(* what a record (number, wire type) does to the selections of class cd *)
Definition sel_rec (cd : cdesc) (cur : list (option nat)) (r : Z * Z) : list (option nat) :=
  match field_by_number cd (fst r) with
  | Some (i, f) => if wire_type_fits f (snd r) then upd_sel f i cur else cur
  | None => cur
  end.

Lemma fold_sel_record cd ps : forall cur,
  fold_left (sel_record cd) ps cur = fold_left (sel_rec cd) (map (fun p => (pnum p, pwt p)) ps) cur.
Proof. induction ps as [|p ps IH]; intros cur; cbn [fold_left map]; [reflexivity | apply IH]. Qed.

(* the selections after parse() as a fold over the records the schema-less reader sees *)
Theorem parse_records sc o bs rs o' :
  Inv sc o -> records bs = Some rs -> parse_into sc o bs = Ok o' ->
  ocur o' = fold_left (sel_rec (get_class sc (ocls o))) rs (ocur o).
Proof.
  intros H R E. apply InvS_of_Inv in H.
  destruct (parse_into_selections sc o bs o' H E) as (ps & Hfr & Hcur).
  rewrite Hcur, fold_sel_record. f_equal. eapply frames_records; eauto.
Qed.

Lemma sel_rec_length cd cur r : length (sel_rec cd cur r) = length cur.
Proof.
  unfold sel_rec. destruct (field_by_number cd (fst r)) as [[i f]|]; [|reflexivity].
  destruct (wire_type_fits f (snd r)); [apply upd_sel_length | reflexivity].
Qed.

Lemma fold_sel_rec_length cd rs : forall cur, length (fold_left (sel_rec cd) rs cur) = length cur.
Proof. induction rs as [|r rs IH]; intros cur; cbn [fold_left]; [reflexivity|]. rewrite IH. apply sel_rec_length. Qed.

(* does record r select a member of group g? *)
Definition hits (cd : cdesc) (g : nat) (r : Z * Z) : Prop :=
  exists i f, field_by_number cd (fst r) = Some (i, f) /\ wire_type_fits f (snd r) = true /\ fgroup f = Some g.

Lemma sel_rec_miss cd g cur r : ~ hits cd g r -> nth g (sel_rec cd cur r) None = nth g cur None.
Proof.
  intros Hm. unfold sel_rec. destruct (field_by_number cd (fst r)) as [[i f]|] eqn:Ef; [|reflexivity].
  destruct (wire_type_fits f (snd r)) eqn:Ew; [|reflexivity].
  unfold upd_sel. destruct (fgroup f) as [g'|] eqn:Eg; [|reflexivity].
  apply nth_set_nth_neq. intros ->. apply Hm. exists i, f. auto.
Qed.

Lemma fold_sel_rec_miss cd g rs : forall cur,
  (forall r, In r rs -> ~ hits cd g r) ->
  nth g (fold_left (sel_rec cd) rs cur) None = nth g cur None.
Proof.
  induction rs as [|r rs IH]; intros cur Hm; cbn [fold_left]; [reflexivity|].
  rewrite IH by (intros r' Hr'; apply Hm; right; exact Hr').
  apply sel_rec_miss. apply Hm. left. reflexivity.
Qed.

Theorem parse_last sc o bs o' rs1 num wt rs2 i f g :
  Inv sc o ->
  records bs = Some (rs1 ++ (num, wt) :: rs2) ->
  field_by_number (get_class sc (ocls o)) num = Some (i, f) -> wire_type_fits f wt = true ->
  fgroup f = Some g -> (g < cngroups (get_class sc (ocls o)))%nat ->
  (forall r, In r rs2 -> ~ hits (get_class sc (ocls o)) g r) ->
  parse_into sc o bs = Ok o' ->
  which_one_of o' g = Some i /\
  (exists v, read sc o' i = Ok v) /\
  (forall j, j <> i -> member sc (ocls o) g j -> read sc o' j = Err EAttribute) /\
  Inv sc o'.
Proof.
  intros H R Hfb Hfit Hg Hl Hmiss E.
  pose proof (parse_records sc o bs _ o' H R E) as Hcur.
  pose proof (InvS_of_Inv _ _ H) as HS.
  destruct (InvS_parse_into sc o bs o' HS E) as (HS' & Hcls).
  pose proof (Inv_of_InvS _ _ HS') as HI'.
  assert (Hsel : which_one_of o' g = Some i).
  { unfold which_one_of. rewrite Hcur, fold_left_app. cbn [fold_left].
    rewrite fold_sel_rec_miss by exact Hmiss.
    set (cur1 := fold_left _ rs1 (ocur o)).
    assert (Hl1 : length cur1 = length (ocur o)) by apply fold_sel_rec_length.
    clearbody cur1. unfold sel_rec. cbn [fst snd]. rewrite Hfb, Hfit. unfold upd_sel. rewrite Hg.
    apply nth_set_nth_eq. rewrite Hl1. destruct HS as (_ & Hc & _). rewrite Hc. exact Hl. }
  split; [exact Hsel|].
  destruct HI' as (_ & _ & HI). specialize (HI g). rewrite Hcls in HI. specialize (HI Hl). rewrite Hsel in HI.
  destruct HI as (_ & Hrd & Hoth). split; [exact Hrd|]. split; [exact Hoth|].
  apply Inv_of_InvS. exact HS'.
Qed.

(* a group none of whose members occurs in the input keeps its selection *)
Theorem parse_untouched sc o bs o' rs g :
  Inv sc o -> records bs = Some rs ->
  (forall r, In r rs -> ~ hits (get_class sc (ocls o)) g r) ->
  parse_into sc o bs = Ok o' ->
  which_one_of o' g = which_one_of o g.
Proof.
  intros H R Hmiss E. unfold which_one_of. rewrite (parse_records sc o bs rs o' H R E).
  apply fold_sel_rec_miss. exact Hmiss.
Qed.

(* ---- well-formed schemas: a field number names its field ---- *)
Lemma fbn_go_nomatch num fs : forall j acc,
  (forall x, In x fs -> fnum x <> num) ->
  (fix go (i : nat) (fs : list fdesc) (acc : option (nat * fdesc)) : option (nat * fdesc) :=
     match fs with
     | [] => acc
     | f :: fs' => go (S i) fs' (if fnum f =? num then Some (i, f) else acc)
     end) j fs acc = acc.
Proof.
  induction fs as [|f0 fs IH]; intros j acc Hno; [reflexivity|].
  rewrite IH by (intros x Hx; apply Hno; right; exact Hx).
  destruct (fnum f0 =? num) eqn:E; [|reflexivity].
  apply Z.eqb_eq in E. exfalso. apply (Hno f0); [left; reflexivity | exact E].
Qed.

Lemma nodup_z_tail x l : nodup_z (x :: l) = true -> (forall y, In y l -> y <> x) /\ nodup_z l = true.
Proof.
  cbn [nodup_z]. intros H. apply andb_prop in H. destruct H as [Hn Hd]. split; [|exact Hd].
  intros y Hy ->. apply negb_true_iff in Hn.
  assert (existsb (Z.eqb x) l = true); [|congruence].
  apply existsb_exists. exists x. split; [exact Hy | apply Z.eqb_refl].
Qed.

Lemma field_by_number_nodup cd i f :
  nodup_z (map fnum (cfields cd)) = true -> nth_error (cfields cd) i = Some f ->
  field_by_number cd (fnum f) = Some (i, f).
Proof.
  unfold field_by_number. generalize (@None (nat * fdesc)) as acc.
  assert (G : forall fs j acc i, nodup_z (map fnum fs) = true -> nth_error fs i = Some f ->
    (fix go (i : nat) (fs : list fdesc) (acc : option (nat * fdesc)) : option (nat * fdesc) :=
       match fs with
       | [] => acc
       | f0 :: fs' => go (S i) fs' (if fnum f0 =? fnum f then Some (i, f0) else acc)
       end) j fs acc = Some ((j + i)%nat, f)).
  { clear. induction fs as [|f0 fs IH]; intros j acc i Hd Hi; [destruct i; discriminate|].
    cbn [map] in Hd. apply nodup_z_tail in Hd. destruct Hd as (Hne & Hd).
    destruct i as [|i]; cbn [nth_error] in Hi.
    - injection Hi as ->. rewrite Z.eqb_refl, Nat.add_0_r. apply fbn_go_nomatch.
      intros x Hx. apply Hne. apply in_map. exact Hx.
    - replace (j + S i)%nat with (S j + i)%nat by lia. apply IH; auto. }
  intros acc Hd Hi. apply (G (cfields cd) 0%nat acc i Hd Hi).
Qed.

Lemma wf_nodup sc c : wf_schema sc = true -> nodup_z (map fnum (cfields (get_class sc c))) = true.
Proof.
  intros Hwf. unfold wf_schema in Hwf. apply andb_prop in Hwf. destruct Hwf as [_ Hall].
  unfold get_class. destruct (nth_error (classes sc) c) as [cd|] eqn:Ec.
  - rewrite (nth_error_nth _ _ _ Ec). rewrite forallb_forall in Hall.
    specialize (Hall cd (nth_error_In _ _ Ec)). unfold wf_class in Hall.
    apply andb_prop in Hall. tauto.
  - rewrite nth_overflow by (apply nth_error_None; exact Ec). reflexivity.
Qed.

(* the statement of the property for well-formed schemas: records are named by field, "belongs to member f" is
   "carries f's number with the wire type of f's proto type" *)
Theorem parse_last_wf sc o bs o' rs1 wt rs2 i f g :
  wf_schema sc = true -> Inv sc o ->
  nth_error (cfs sc o) i = Some f -> fgroup f = Some g -> wire_type_fits f wt = true ->
  records bs = Some (rs1 ++ (fnum f, wt) :: rs2) ->
  (forall r, In r rs2 -> ~ hits (get_class sc (ocls o)) g r) ->
  parse_into sc o bs = Ok o' ->
  which_one_of o' g = Some i /\
  (exists v, read sc o' i = Ok v) /\
  (forall j, j <> i -> member sc (ocls o) g j -> read sc o' j = Err EAttribute) /\
  Inv sc o'.
Proof.
  intros Hwf H Hf Hg Hfit R Hmiss E.
  eapply parse_last; eauto.
  - apply field_by_number_nodup; [apply wf_nodup; exact Hwf | exact Hf].
  - eapply wf_group_bound; eauto.
Qed.
