(* C12 — invariants that hold for every configuration (cancellation included):
   W counts exactly the receivers inside get(); every pending future is in its deque;
   relations between the flags closed / flushed / drained and the sentinels. *)
From BP Require Import Base.Prelude Model.Channel Proofs.ChannelP1.
From Coq Require Import Arith Lia.
Local Open Scope nat_scope.

Lemma filter_flush_repeat_put : forall n, filter is_flush (repeat IPut n) = [].
Proof. induction n; cbn; auto. Qed.
Lemma filter_flush_repeat_flush : forall n, length (filter is_flush (repeat IPutFlush n)) = n.
Proof. induction n; cbn; auto. Qed.

(* turn every [sumf f (upd L i x)] of the goal into a fresh variable constrained by [sumf_upd] *)
Ltac sumf_norm :=
  rewrite ?sumf_app;
  repeat match goal with
  | H : nth_error ?L ?i = Some ?a |- context [sumf ?f (upd ?L ?i ?x)] =>
      let K := fresh "K" in
      pose proof (sumf_upd f L i x a H) as K;
      let v := fresh "v" in set (v := sumf f (upd L i x)) in *; clearbody v
  | H : nth_error ?L ?i = Some ?a, K0 : context [sumf ?f (upd ?L ?i ?x)] |- _ =>
      let K := fresh "K" in
      pose proof (sumf_upd f L i x a H) as K;
      let v := fresh "v" in set (v := sumf f (upd L i x)) in *; clearbody v
  end.

Ltac meas_simpl :=
  unfold in_get, is_st, nflush, pending_flush, flush_task in *;
  cbn [st prog mc nsent tmo set_st set_prog set_mc finished sumf] in *;
  repeat match goal with
         | E : st ?T = _, K : context [st ?T] |- _ => lazymatch K with E => fail | _ => rewrite E in K end
         | E : st ?T = _ |- context [st ?T] => rewrite E
         | E : prog ?T = _, K : context [prog ?T] |- _ => lazymatch K with E => fail | _ => rewrite E in K end
         | E : prog ?T = _ |- context [prog ?T] => rewrite E
         end;
  rewrite ?filter_app, ?app_length, ?filter_flush_repeat_put, ?filter_flush_repeat_flush in *;
  cbn [status_eqb b2n filter is_flush length app] in *.

Definition is_iflush (o : op) : bool := match o with IFlush => true | _ => false end.
Definition niflush (T : task) : nat := length (filter is_iflush (prog T)).

Lemma filter_repeat : forall (f : op -> bool) o n, filter f (repeat o n) = if f o then repeat o n else [].
Proof. induction n; cbn; [destruct (f o); auto|]. rewrite IHn. destruct (f o); auto. Qed.

Record inv1 (s : state) : Prop := {
  i_W : W s = sumf in_get (tasks s);
  i_cg : cover BlkGet (getters s) (tasks s);
  i_cp : cover BlkPut (putters s) (tasks s);
  i_fc : flushed s = true -> closed s = true;
  i_nf : flushed s = false -> sumf nflush (tasks s) = 0;
  i_hf : has_flush (q s) = true -> flushed s = true;
  i_np : closed s = true -> npre s <= length (sent s);
  i_dc : drained s = true -> closed s = true;
  i_if : closed s = false -> sumf niflush (tasks s) = 0
}.

Lemma has_flush_app : forall a b, has_flush (a ++ b) = has_flush a || has_flush b.
Proof. intros. unfold has_flush. apply existsb_app. Qed.

Lemma W_step : forall s t s', step s t = Some s' -> W s = sumf in_get (tasks s) -> W s' = sumf in_get (tasks s').
Proof.
  intros s t s' H I. step_inv H; simp_proj; try exact I.
  all: try wake_cases; sumf_norm; meas_simpl; try lia.
Qed.

Lemma wakeup_cover_other : forall b b' w l l' ts, is_fin b' = false -> w <> b ->
  cover b l ts -> cover b l (snd (wakeup b' w l' ts)).
Proof.
  intros b b' w l l' ts NF NE C. destruct (wakeup_effect b' w l' ts NF) as [[-> _]|(u & U & _ & _ & _ & ->)]; auto.
  apply cover_upd_other; auto.
Qed.

Lemma cover_remove_only : forall b l ts t T, cover b l ts -> nth_error ts t = Some T -> st T <> b ->
  cover b (remove1 t l) ts.
Proof.
  intros b l ts t T C HT N u U HU HS. apply in_remove1; [eapply C; eauto|]. intros ->. congruence.
Qed.

Ltac solve_cover :=
  repeat first
    [ assumption
    | apply cover_upd_blk
    | apply cover_upd_other; [|cbn [st set_prog set_mc set_st finished flush_task]; congruence]
    | apply cover_app_tasks; [|cbn [st set_prog set_mc set_st finished flush_task]; congruence]
    | apply wakeup_cover; [reflexivity|congruence|]
    | apply wakeup_cover_other; [reflexivity|congruence|]
    | eapply cover_remove_only; [|eassumption|congruence] ].

Lemma cover_step : forall s t s', step s t = Some s' ->
  cover BlkGet (getters s) (tasks s) /\ cover BlkPut (putters s) (tasks s) ->
  cover BlkGet (getters s') (tasks s') /\ cover BlkPut (putters s') (tasks s').
Proof.
  intros s t s' H [I1 I2]. step_inv H; simp_proj; (split; [clear I2|clear I1]); solve_cover.
Qed.

Ltac meas_simpl2 :=
  unfold niflush in *; meas_simpl;
  repeat match goal with
         | E : prog ?T = _, K : context [prog ?T] |- _ => lazymatch K with E => fail | _ => rewrite E in K end
         | E : prog ?T = _ |- context [prog ?T] => rewrite E
         end;
  rewrite ?filter_app, ?app_length, ?filter_repeat in *;
  cbn [filter is_flush is_iflush length app] in *; rewrite ?repeat_length in *.

Definition flags (s : state) : Prop :=
  (flushed s = true -> closed s = true) /\
  (flushed s = false -> sumf nflush (tasks s) = 0) /\
  (has_flush (q s) = true -> flushed s = true) /\
  (closed s = true -> npre s <= length (sent s)) /\
  (drained s = true -> closed s = true) /\
  (closed s = false -> sumf niflush (tasks s) = 0).

Lemma done_closed : forall s, done s = true -> closed s = true.
Proof. unfold done. intros s H. apply andb_true_iff in H. tauto. Qed.

Lemma flags_step : forall s t s', step s t = Some s' -> flags s -> flags s'.
Proof.
  intros s t s' H (F1 & F2 & F3 & F4 & F5 & F6). step_inv H; simp_proj; unfold flags; simp_proj.
  all: repeat match goal with E : q _ = _ |- _ => rewrite E in *; clear E end.
  all: cbn [has_flush existsb is_real negb orb] in *.
  all: repeat match goal with E : done _ = true |- _ => apply done_closed in E; simp_proj end.
  all: repeat split; try assumption; try congruence; intros HF; auto.
  all: rewrite ?app_length; try (destruct (closed s) eqn:EC; [specialize (F4 eq_refl)|]; cbn [length]; lia).
  all: try (fold (has_flush (q s)) in *; rewrite has_flush_app in HF; cbn [has_flush existsb is_real negb orb] in HF;
            try rewrite orb_false_r in HF; auto).
  all: try (specialize (F1 HF); congruence).
  all: try (specialize (F5 HF); congruence).
  all: try match goal with |- context [after_item ?o _] => destruct o; cbn [after_item fst snd] in * end.
  all: try (try specialize (F2 HF); try specialize (F6 HF); try wake_cases; sumf_norm; meas_simpl2; lia).
  all: try (destruct (flushed s) eqn:EF; auto; exfalso; specialize (F2 eq_refl);
            match goal with E : nth_error (tasks _) _ = Some _ |- _ => pose proof (sumf_nth nflush _ _ _ E) as KK end;
            meas_simpl2; lia).
  all: try (apply F3; unfold has_flush in HF; rewrite HF; apply orb_true_r).
  all: try (specialize (F3 eq_refl); congruence).
  all: try (destruct (closed s) eqn:EC; auto; exfalso; specialize (F6 eq_refl);
            match goal with E : nth_error (tasks _) _ = Some _ |- _ => pose proof (sumf_nth niflush _ _ _ E) as KK end;
            meas_simpl2; lia).
  all: specialize (F1 (F3 eq_refl)); congruence.
Qed.

(* ---------------------------------------------------------------- all of it, over Reach *)
Lemma init_tasks_forall : forall (P : task -> Prop) c,
  (forall pb, P (mkT (map compile (fst pb)) Ready false 0 (snd pb))) ->
  forall u U, nth_error (tasks (init c)) u = Some U -> P U.
Proof.
  intros P c H u U HU. cbn in HU. rewrite nth_error_map in HU. destruct (nth_error (c_progs c) u); [|discriminate].
  injection HU as <-. apply H.
Qed.

Lemma sumf_init_zero : forall f c, (forall pb, f (mkT (map compile (fst pb)) Ready false 0 (snd pb)) = 0) ->
  sumf f (tasks (init c)) = 0.
Proof. intros. apply no_blk_count. intros u U HU. eapply (init_tasks_forall (fun T => f T = 0)); eauto. Qed.

Lemma compile_not_flush : forall l, filter is_flush (map compile l) = [] /\ filter is_iflush (map compile l) = [].
Proof. induction l as [|o l [IH1 IH2]]; cbn; auto. destruct o; cbn; auto. Qed.

Theorem reach_inv1 : forall c s, Reach c s -> inv1 s.
Proof.
  induction 1 as [|s t s' R IH Hs].
  - constructor; cbn [W getters putters flushed closed q sent npre drained init length has_flush existsb]; try congruence; try lia.
    + symmetry. apply sumf_init_zero. reflexivity.
    + intros u U HU HS. exfalso. revert HS. eapply (init_tasks_forall (fun T => st T <> BlkGet)); eauto. cbn. congruence.
    + intros u U HU HS. exfalso. revert HS. eapply (init_tasks_forall (fun T => st T <> BlkPut)); eauto. cbn. congruence.
    + intros _. apply sumf_init_zero. intros pb. unfold nflush. cbn [prog]. rewrite (proj1 (compile_not_flush _)). reflexivity.
    + intros _. apply sumf_init_zero. intros pb. unfold niflush. cbn [prog]. rewrite (proj2 (compile_not_flush _)). reflexivity.
  - destruct IH. destruct (cover_step _ _ _ Hs (conj i_cg0 i_cp0)) as [C1 C2].
    destruct (flags_step s t s' Hs) as (F1 & F2 & F3 & F4 & F5 & F6).
    { unfold flags. repeat split; auto. }
    constructor; auto. eapply W_step; eauto.
Qed.
