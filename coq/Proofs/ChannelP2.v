(* C12 — invariants that hold for every configuration (cancellation included):
   W counts exactly the receivers inside get(); every pending future is in its deque;
   relations between the flags closed / flushed / drained and the sentinels. *)
From BP Require Import Base.Prelude Model.Channel Proofs.ChannelP1.
From Coq Require Import Arith Lia.
Local Open Scope nat_scope.

Lemma filter_flush_repeat_put : forall n, filter is_flush (repeat IPut n) = [].
Proof. induction n; cbn; auto. Qed.
Lemma filter_flush_repeat_flush : forall n, length (filter is_flush (repeat IPutFlush n)) = n.
Proof. induction n; cbn; auto. Qed.

(* turn every [sumf f (upd L i x)] of the goal into a fresh variable constrained by [sumf_upd] *)
Ltac sumf_norm :=
  rewrite ?sumf_app;
  repeat match goal with
  | H : nth_error ?L ?i = Some ?a |- context [sumf ?f (upd ?L ?i ?x)] =>
      let K := fresh "K" in
      pose proof (sumf_upd f L i x a H) as K;
      let v := fresh "v" in set (v := sumf f (upd L i x)) in *; clearbody v
  | H : nth_error ?L ?i = Some ?a, K0 : context [sumf ?f (upd ?L ?i ?x)] |- _ =>
      let K := fresh "K" in
      pose proof (sumf_upd f L i x a H) as K;
      let v := fresh "v" in set (v := sumf f (upd L i x)) in *; clearbody v
  end.

Ltac meas_simpl :=
  unfold in_get, is_st, nflush, pending_flush, flush_task in *;
  cbn [st prog mc nsent tmo set_st set_prog set_mc finished sumf] in *;
  repeat match goal with
         | E : st ?T = _, K : context [st ?T] |- _ => lazymatch K with E => fail | _ => rewrite E in K end
         | E : st ?T = _ |- context [st ?T] => rewrite E
         | E : prog ?T = _, K : context [prog ?T] |- _ => lazymatch K with E => fail | _ => rewrite E in K end
         | E : prog ?T = _ |- context [prog ?T] => rewrite E
         end;
  rewrite ?filter_app, ?app_length, ?filter_flush_repeat_put, ?filter_flush_repeat_flush in *;
  cbn [status_eqb b2n filter is_flush length app] in *.

Record inv1 (s : state) : Prop := {
  i_W : W s = sumf in_get (tasks s);
  i_cg : cover BlkGet (getters s) (tasks s);
  i_cp : cover BlkPut (putters s) (tasks s);
  i_fc : flushed s = true -> closed s = true;
  i_nf : flushed s = false -> sumf nflush (tasks s) = 0;
  i_hf : has_flush (q s) = true -> flushed s = true;
  i_np : closed s = true -> npre s <= length (sent s);
  i_dc : drained s = true -> closed s = true
}.

Lemma has_flush_app : forall a b, has_flush (a ++ b) = has_flush a || has_flush b.
Proof. intros. unfold has_flush. apply existsb_app. Qed.

Lemma W_step : forall s t s', step s t = Some s' -> W s = sumf in_get (tasks s) -> W s' = sumf in_get (tasks s').
Proof.
  intros s t s' H I. step_inv H; simp_proj; try exact I.
  all: try wake_cases; sumf_norm; meas_simpl; try lia.
  Show.
Qed.
