(* C05, message level: the loops of the specified reference parser (Spec/JsonMap.v acc_val) and printer (spec_val),
   named, with their unfolding equations; the JSON text path conv o text_rt on the shapes to_dict builds;
   what js_matches gives field by field. *)
From BP Require Import Base.Prelude Model.Types Model.Float Model.Object Model.WellFormed Model.TimeCore Spec.Time.
From BP Require Model.Json Model.Enum Model.Casing Spec.JsonMap.
From BP Require Import Proofs.BytesP Proofs.C04Def Proofs.C04ScalarP Proofs.C04ElemP Proofs.C04ObjP.
From BP Require Import Proofs.C05Casing Proofs.C05Leaf Proofs.C05Model Proofs.C05MsgDef.
From Coq Require Import Lia.

(* ====================================================================================== *)
(* the reference parser, loops named                                                       *)
(* ====================================================================================== *)
Section AccLoops.
Variable js : S.jschema.

Definition acc_list (k : S.jkind) : list S.json -> option (list S.aval) :=
  fix each (l : list S.json) : option (list S.aval) :=
    match l with
    | [] => Some []
    | x :: t => match S.acc_val js k x, each t with
                | Some a, Some t' => Some (a :: t')
                | _, _ => None
                end
    end.

Definition acc_entries (kk : S.skind) (k : S.jkind) : list (list byte * S.json) -> option (list (S.aval * S.aval)) :=
  fix each (es : list (list byte * S.json)) : option (list (S.aval * S.aval)) :=
    match es with
    | [] => Some []
    | (ks, x) :: t => match S.acc_key kk ks, S.acc_val js k x, each t with
                      | Some ka, Some a, Some t' => Some ((ka, a) :: t')
                      | _, _, _ => None
                      end
    end.

Definition acc_fieldval (fd : S.jfield) (v : S.json) : option S.afield :=
  match S.jf_card fd with
  | S.Implicit | S.Explicit => option_map S.FOne (S.acc_val js (S.jf_kind fd) v)
  | S.Repeated =>
      match v with
      | S.JArr l => option_map S.FRep (acc_list (S.jf_kind fd) l)
      | _ => None
      end
  | S.MapOf kk =>
      match v with
      | S.JObj es => option_map S.FMap (acc_entries kk (S.jf_kind fd) es)
      | _ => None
      end
  end.

Section Go.
Variable fds : list S.jfield.
Fixpoint acc_go (kvs : list (list byte * S.json)) (acc : list S.afield) (seen groups : list nat)
  {struct kvs} : option (list S.afield) :=
  match kvs with
  | [] => Some acc
  | (key, v) :: r =>
      match S.find_field fds key with
      | None => None
      | Some (i, fd) =>
          if S.mem_nat i seen then None
          else
            match v with
            | S.JNull => acc_go r acc (i :: seen) groups
            | _ =>
                let grp_clash := match S.jf_oneof fd with Some g => S.mem_nat g groups | None => false end in
                let groups' := match S.jf_oneof fd with Some g => g :: groups | None => groups end in
                if grp_clash then None
                else
                  match acc_fieldval fd v with
                  | Some f => acc_go r (S.set_nth_af i f acc) (i :: seen) groups'
                  | None => None
                  end
            end
      end
  end.
End Go.
End AccLoops.

Lemma acc_val_msg js c kvs :
  S.acc_val js (S.JMsg c) (S.JObj kvs) =
  option_map S.AMsg (acc_go js (S.jclass js c) kvs (map S.default_field (S.jclass js c)) [] []).
Proof. reflexivity. Qed.

Lemma acc_val_scalar js k j : S.acc_val js (S.JScalar k) j = S.acc_scalar k j.
Proof. destruct j; reflexivity. Qed.
Lemma acc_val_wrapper js k j : S.acc_val js (S.JWrapper k) j = S.acc_scalar k j.
Proof. destruct j; reflexivity. Qed.

(* one step of the loop on a member that is not null *)
Lemma acc_go_step js fds key v r acc seen groups i fd f :
  S.find_field fds key = Some (i, fd) -> S.mem_nat i seen = false -> v <> S.JNull ->
  match S.jf_oneof fd with Some g => S.mem_nat g groups | None => false end = false ->
  acc_fieldval js fd v = Some f ->
  acc_go js fds ((key, v) :: r) acc seen groups =
  acc_go js fds r (S.set_nth_af i f acc) (i :: seen)
         (match S.jf_oneof fd with Some g => g :: groups | None => groups end).
Proof.
  intros F M N G A. cbn [acc_go]. rewrite F, M.
  destruct v; try (exfalso; apply N; reflexivity); cbv zeta; rewrite G, A; reflexivity.
Qed.

(* ====================================================================================== *)
(* small facts about the spec's helpers                                                    *)
(* ====================================================================================== *)
Lemma find_field_by_at sel : forall pre fd post i0 key,
  sel fd = key -> ~ In key (map sel pre) ->
  S.find_field_by sel (pre ++ fd :: post) key i0 = Some ((i0 + length pre)%nat, fd).
Proof.
  induction pre as [|p pre IH]; intros fd post i0 key E N.
  - cbn [app S.find_field_by length]. rewrite E. rewrite (proj2 (bytes_eqb_eq key key) eq_refl).
    rewrite Nat.add_0_r. reflexivity.
  - cbn [app S.find_field_by length].
    destruct (bytes_eqb (sel p) key) eqn:B.
    + apply bytes_eqb_eq in B. exfalso. apply N. left. exact B.
    + rewrite IH; [f_equal; f_equal; lia|exact E|]. intros I. apply N. right. exact I.
Qed.

Lemma find_field_at pre fd post :
  NoDup (map S.jf_json (pre ++ fd :: post)) ->
  S.find_field (pre ++ fd :: post) (S.jf_json fd) = Some (length pre, fd).
Proof.
  intros N. unfold S.find_field. rewrite (find_field_by_at S.jf_json pre fd post O _ eq_refl).
  - reflexivity.
  - rewrite map_app in N. cbn [map] in N. apply NoDup_remove_2 in N. intros I. apply N. apply in_or_app. left. exact I.
Qed.

Lemma set_nth_af_app pre s rest v : S.set_nth_af (length pre) v (pre ++ s :: rest) = pre ++ v :: rest.
Proof. induction pre as [|a pre IH]; [reflexivity|]. cbn [length app S.set_nth_af]. rewrite IH. reflexivity. Qed.

Lemma mem_nat_false x l : (forall y, In y l -> y <> x) -> S.mem_nat x l = false.
Proof.
  intros H. unfold S.mem_nat. destruct (existsb (Nat.eqb x) l) eqn:E; [|reflexivity].
  apply existsb_exists in E as [y [I Y]]. apply Nat.eqb_eq in Y. subst y. exfalso. exact (H x I eq_refl).
Qed.
Lemma mem_nat_true x l : S.mem_nat x l = true -> In x l.
Proof.
  unfold S.mem_nat. intros E. apply existsb_exists in E as [y [I Y]]. apply Nat.eqb_eq in Y. subst y. exact I.
Qed.

Lemma nodup_bytes_NoDup l : nodup_bytes l = true -> NoDup l.
Proof.
  induction l as [|k r IH]; intros H; [constructor|]. cbn [nodup_bytes] in H. apply andb_prop in H as [H1 H2].
  constructor; [|apply IH, H2]. intros I.
  assert (E : existsb (bytes_eqb k) r = true)
    by (apply existsb_exists; exists k; split; [exact I|apply bytes_eqb_eq; reflexivity]).
  rewrite E in H1. discriminate H1.
Qed.

(* ---- all_some ---- *)
Lemma all_some_map {A B} (f : A -> option B) (g : A -> B) l :
  (forall x, In x l -> f x = Some (g x)) -> S.all_some (map f l) = Some (map g l).
Proof.
  induction l as [|x r IH]; intros H; [reflexivity|]. cbn [map S.all_some].
  rewrite (H x (or_introl eq_refl)), IH; [reflexivity|]. intros y Hy. apply H. right. exact Hy.
Qed.

Lemma all_some_ex {A B} (f : A -> option B) (P : A -> B -> Prop) l :
  (forall x, In x l -> exists y, f x = Some y /\ P x y) ->
  exists ys, S.all_some (map f l) = Some ys /\ Forall2 P l ys.
Proof.
  induction l as [|x r IH]; intros H; [exists []; split; [reflexivity|constructor]|].
  destruct (H x (or_introl eq_refl)) as (y & Fy & Py).
  destruct (IH (fun z Hz => H z (or_intror Hz))) as (ys & Fs & Ps).
  exists (y :: ys). cbn [map S.all_some]. rewrite Fy, Fs. split; [reflexivity|constructor; assumption].
Qed.

Lemma all_some_app {A} (a b : list (option A)) :
  S.all_some (a ++ b) = match S.all_some a, S.all_some b with Some x, Some y => Some (x ++ y) | _, _ => None end.
Proof.
  induction a as [|[x|] a IH]; cbn [app S.all_some].
  - destruct (S.all_some b); reflexivity.
  - rewrite IH. destruct (S.all_some a), (S.all_some b); reflexivity.
  - reflexivity.
Qed.

(* ====================================================================================== *)
(* the text path on what to_dict builds                                                    *)
(* ====================================================================================== *)
Definition ct (j : J.json) : option S.json := conv (J.text_rt j).

Lemma ct_str s : ct (J.JStr s) = Some (S.JStr s). Proof. reflexivity. Qed.

Lemma ct_list l : ct (J.JList l) = option_map S.JArr (S.all_some (map ct l)).
Proof. unfold ct. cbn [J.text_rt conv]. rewrite map_map. reflexivity. Qed.

(* an object whose keys are strings *)
Definition ct_item (kj : list byte * J.json) : option (list byte * S.json) :=
  match ct (snd kj) with Some x => Some (fst kj, x) | None => None end.
Lemma ct_obj items : ct (J.JObj (map jkey items)) = option_map S.JObj (S.all_some (map ct_item items)).
Proof.
  unfold ct. cbn [J.text_rt conv]. rewrite !map_map. apply f_equal. apply f_equal. apply map_ext.
  intros [k j]. reflexivity.
Qed.

(* a map: keys are Python values *)
Definition ct_entry (kx : J.json * J.json) : option (list byte * S.json) :=
  match ct (snd kx) with Some x => Some (J.key_text (fst kx), x) | None => None end.
Lemma key_text_idem k : J.key_text (J.JStr (J.key_text k)) = J.key_text k.
Proof. reflexivity. Qed.
Lemma ct_obj_entries d : ct (J.JObj d) = option_map S.JObj (S.all_some (map ct_entry d)).
Proof.
  unfold ct. cbn [J.text_rt conv]. rewrite !map_map. apply f_equal. apply f_equal. apply map_ext.
  intros [k j]. reflexivity.
Qed.

(* ====================================================================================== *)
(* what js_matches gives                                                                   *)
(* ====================================================================================== *)
Lemma skind_eqb_eq a b : skind_eqb a b = true -> a = b.
Proof. destruct a, b; cbv; intros H; try reflexivity; discriminate H. Qed.
Lemma jkind_eqb_eq a b : jkind_eqb a b = true -> a = b.
Proof.
  destruct a, b; cbn [jkind_eqb]; intros H; try discriminate H; try reflexivity;
    try (apply skind_eqb_eq in H; subst; reflexivity); apply Nat.eqb_eq in H; subst; reflexivity.
Qed.
Lemma jcard_eqb_eq a b : jcard_eqb a b = true -> a = b.
Proof.
  destruct a, b; cbn [jcard_eqb]; intros H; try discriminate H; try reflexivity.
  apply skind_eqb_eq in H. subst. reflexivity.
Qed.
Lemma opt_nat_eqb_eq a b : opt_nat_eqb a b = true -> a = b.
Proof.
  destruct a, b; cbn [opt_nat_eqb]; intros H; try discriminate H; try reflexivity.
  apply Nat.eqb_eq in H. subst. reflexivity.
Qed.

Record fmatch (off nj : nat) (f : fdesc) (jf : S.jfield) : Prop := mkFM {
  fm_key : J.key_of_field J.CAMEL f = S.jf_json jf;
  fm_kind : S.jf_kind jf = kind_of off f;
  fm_card : S.jf_card jf = card_of f;
  fm_oneof : S.jf_oneof jf = fgroup f;
  fm_msg : forall c, J.hint_elem f = PyMsg c -> (off <= c)%nat /\ (c - off < nj)%nat }.

Lemma field_matches_fmatch off nj f jf : field_matches off nj f jf = true -> fmatch off nj f jf.
Proof.
  unfold field_matches. intros H.
  apply andb_prop in H as [H Hm]. apply andb_prop in H as [H Ho]. apply andb_prop in H as [H Hc].
  apply andb_prop in H as [H Hk]. apply andb_prop in H as [H Hj]. apply andb_prop in H as [Hn Hs].
  apply bytes_eqb_eq in Hn. apply bytes_eqb_eq in Hj.
  constructor.
  - cbn [J.key_of_field]. rewrite Hn, Hj. apply protoc_json_name_agrees_thm, Hs.
  - apply jkind_eqb_eq, Hk.
  - apply jcard_eqb_eq, Hc.
  - apply opt_nat_eqb_eq, Ho.
  - intros c E. rewrite E in Hm. apply andb_prop in Hm as [A B].
    apply Nat.leb_le in A. apply Nat.ltb_lt in B. split; assumption.
Qed.

Lemma fields_match_Forall2 off nj : forall fs jfs, fields_match off nj fs jfs = true -> Forall2 (fmatch off nj) fs jfs.
Proof.
  induction fs as [|f fs IH]; intros [|jf jfs] H; try discriminate H; [constructor|].
  cbn [fields_match] in H. apply andb_prop in H as [H1 H2]. constructor; [apply field_matches_fmatch, H1|apply IH, H2].
Qed.

Lemma js_matches_class off sc js c :
  js_matches off sc js = true -> (c < length (S.jclasses js))%nat ->
  Forall2 (fmatch off (length (S.jclasses js))) (cfields (get_class sc (c + off))) (S.jclass js c) /\
  NoDup (map S.jf_json (S.jclass js c)).
Proof.
  intros M L. unfold js_matches in M. apply andb_prop in M as [_ M]. rewrite forallb_forall in M.
  specialize (M c). assert (I : In c (seq 0 (length (S.jclasses js)))) by (apply in_seq; lia).
  specialize (M I). unfold class_matches in M. apply andb_prop in M as [M1 M2].
  split; [apply fields_match_Forall2, M1|apply nodup_bytes_NoDup, M2].
Qed.

(* enums *)
Lemma members_eqb_eq a b : members_eqb a b = true -> a = b.
Proof.
  revert b. induction a as [|[n v] a IH]; intros [|[n' v'] b] H; try discriminate H; [reflexivity|].
  cbn [members_eqb] in H. apply andb_prop in H as [H1 H2]. unfold member_eqb in H1. cbn [fst snd] in H1.
  apply andb_prop in H1 as [A B]. apply bytes_eqb_eq in A. apply Z.eqb_eq in B. subst. f_equal. apply IH, H2.
Qed.

Lemma enums_match_nth : forall es jes e, enums_match es jes = true ->
  nth e jes [] = emembers (nth e es (mkE [])) /\ enum_ok (nth e jes []) = true.
Proof.
  induction es as [|x es IH]; intros [|y jes] e H; try discriminate H.
  - destruct e; split; reflexivity.
  - cbn [enums_match] in H. apply andb_prop in H as [H H3]. apply andb_prop in H as [H1 H2].
    apply members_eqb_eq in H1. destruct e as [|e]; cbn [nth].
    + split; [symmetry; exact H1|exact H2].
    + apply IH, H3.
Qed.

Lemma js_matches_enum off sc js e :
  js_matches off sc js = true ->
  S.jenum js e = emembers (nth e (enums sc) (mkE [])) /\ enum_ok (S.jenum js e) = true.
Proof.
  intros M. unfold js_matches in M. apply andb_prop in M as [M _]. unfold S.jenum. apply enums_match_nth, M.
Qed.
