(* C10, part 2: what one record read (load_varint, _read_exactly, _load_field incl. groups)
   does to the stream:
     acct : the bytes it consumed are a prefix of the stream, and ParsedField.raw grew by
            exactly those bytes  (byte accounting counts every parsed record)
     app  : a successful read does not depend on what follows the bytes it consumed
     inv  : ... and conversely, a read that stayed inside a prefix succeeds on that prefix alone
     fuel : the result does not depend on the fuel once it exceeds the stream length *)
From BP Require Import Base.Prelude Model.Types Model.Varint Model.Object Model.Decode.
From BP Require Import Spec.Varint Proofs.VarintP Proofs.C10GenP.
From BP Require Import gen.Tables.

Lemma Zlen_app {A} (a b : list A) : Zlength (a ++ b) = Zlength a + Zlength b.
Proof. unfold Zlength. rewrite app_length. lia. Qed.

Lemma Zlen_nonneg {A} (l : list A) : 0 <= Zlength l.
Proof. unfold Zlength. lia. Qed.

(* ---- lists ---- *)
Lemma app_split {A} (c : list A) : forall a b d,
  a ++ b = c ++ d -> (length b <= length d)%nat -> exists x, d = x ++ b /\ a = c ++ x.
Proof.
  induction c as [|h c IH]; intros a b d E L; cbn [app] in *.
  - exists a. split; [symmetry; exact E | reflexivity].
  - destruct a as [|h' a]; cbn [app] in E.
    + exfalso. subst b. cbn [length] in L. rewrite app_length in L. lia.
    + injection E as -> E. destruct (IH _ _ _ E L) as (x & -> & ->). exists x. split; reflexivity.
Qed.

(* ---- load_varint ---- *)
Lemma lv_sound s v r s' :
  load_varint s = Ok (v, r, s') -> s = r ++ s' /\ (1 <= length r)%nat /\ 0 <= v.
Proof.
  intros H. apply load_varint_sound in H. destruct H as (-> & Sh & Va & Le).
  split; [reflexivity|]. split; [apply shape_length_pos, Sh|]. subst v. apply varint_value_nonneg.
Qed.

Lemma lv_app s v r s' more :
  load_varint s = Ok (v, r, s') -> load_varint (s ++ more) = Ok (v, r, s' ++ more).
Proof.
  intros H. apply load_varint_sound in H. destruct H as (-> & R).
  rewrite <- app_assoc. apply load_varint_rep, R.
Qed.

Lemma lv_inv s more v r s2 :
  load_varint (s ++ more) = Ok (v, r, s2) -> (length more <= length s2)%nat ->
  exists s', s2 = s' ++ more /\ load_varint s = Ok (v, r, s').
Proof.
  intros H L. apply load_varint_sound in H. destruct H as (E & R).
  destruct (app_split _ _ _ _ E L) as (x & -> & ->). exists x. split; [reflexivity|].
  apply load_varint_rep, R.
Qed.

(* ---- _read_exactly ---- *)
Lemma re_sound s n d s' : read_exactly s n = Ok (d, s') -> s = d ++ s' /\ Zlength d = n /\ 0 <= n.
Proof.
  unfold read_exactly. destruct ((0 <=? n) && (n <=? Zlength s)) eqn:C; [|discriminate].
  intros H. injection H as <- <-. unfold Zlength in *. split; [symmetry; apply firstn_skipn|].
  rewrite firstn_length. lia.
Qed.

Lemma re_app s n d s' more : read_exactly s n = Ok (d, s') -> read_exactly (s ++ more) n = Ok (d, s' ++ more).
Proof.
  intros H. destruct (re_sound _ _ _ _ H) as (-> & Hn & H0). clear H. unfold read_exactly.
  rewrite <- app_assoc. unfold Zlength in *. rewrite !app_length.
  replace ((0 <=? n) && (n <=? Z.of_nat (length d + (length s' + length more)))) with true by lia.
  replace (Z.to_nat n) with (length d + 0)%nat by lia.
  rewrite firstn_app_2, skipn_app. cbn [firstn]. rewrite app_nil_r.
  replace (length d + 0 - length d)%nat with O by lia. rewrite skipn_all2 by lia. reflexivity.
Qed.

Lemma re_inv s more n d s2 :
  read_exactly (s ++ more) n = Ok (d, s2) -> (length more <= length s2)%nat ->
  exists s', s2 = s' ++ more /\ read_exactly s n = Ok (d, s').
Proof.
  intros H L. destruct (re_sound _ _ _ _ H) as (E & Hn & H0).
  destruct (app_split _ _ _ _ E L) as (x & -> & ->). exists x. split; [reflexivity|].
  clear H E L. unfold read_exactly, Zlength in *. rewrite app_length.
  replace ((0 <=? n) && (n <=? Z.of_nat (length d + length x))) with true by lia.
  replace (Z.to_nat n) with (length d + 0)%nat by lia.
  rewrite firstn_app_2, skipn_app. cbn [firstn]. rewrite app_nil_r.
  replace (length d + 0 - length d)%nat with O by lia. rewrite skipn_all2 by lia. reflexivity.
Qed.

(* ---- properties of a record reader ---- *)
Definition r_acct (lf : reader) : Prop := forall s nw raw p s',
  lf s nw raw = Ok (p, s') ->
  exists used, s = used ++ s' /\ praw p = raw ++ used /\ (length (pbytes p) <= length used)%nat.
Definition r_app (lf : reader) : Prop := forall s nw raw p s' more,
  lf s nw raw = Ok (p, s') -> lf (s ++ more) nw raw = Ok (p, s' ++ more).
Definition r_inv (lf : reader) : Prop := forall s more nw raw p s2,
  lf (s ++ more) nw raw = Ok (p, s2) -> (length more <= length s2)%nat ->
  exists s', s2 = s' ++ more /\ lf s nw raw = Ok (p, s').

(* the group loop, given the property for the reader of the nested records *)
Lemma group_acct lf num wt : r_acct lf -> forall n s raw p s',
  group_g lf num wt n s raw = Ok (p, s') ->
  exists used, s = used ++ s' /\ praw p = raw ++ used /\ pbytes p = [].
Proof.
  intros A. induction n as [|n IH]; intros s raw p s' H; [discriminate|].
  cbn [group_g] in H. destruct (load_varint s) as [[[inner r] s1]|] eqn:V; [|discriminate]. cbn [bind] in H.
  destruct (lv_sound _ _ _ _ V) as (-> & _ & _).
  destruct (Z.land inner 7 =? WIRE_END_GROUP).
  - destruct (Z.shiftr inner 3 =? num); [|discriminate]. injection H as <- <-.
    exists r. cbn [praw pbytes]. repeat split.
  - destruct (lf s1 inner (raw ++ r)) as [[p1 s2]|] eqn:F; [|discriminate]. cbn [bind] in H.
    destruct (A _ _ _ _ _ F) as (u1 & -> & R1 & _).
    destruct (IH _ _ _ _ H) as (u2 & -> & R2 & B). exists (r ++ u1 ++ u2).
    rewrite R2, R1, <- !app_assoc. repeat split. exact B.
Qed.

Lemma group_app lf num wt : r_app lf -> forall n s raw p s' more,
  group_g lf num wt n s raw = Ok (p, s') -> group_g lf num wt n (s ++ more) raw = Ok (p, s' ++ more).
Proof.
  intros A. induction n as [|n IH]; intros s raw p s' more H; [discriminate|].
  cbn [group_g] in *. destruct (load_varint s) as [[[inner r] s1]|] eqn:V; [|discriminate]. cbn [bind] in H.
  rewrite (lv_app _ _ _ _ more V). cbn [bind].
  destruct (Z.land inner 7 =? WIRE_END_GROUP).
  - destruct (Z.shiftr inner 3 =? num); [|discriminate]. injection H as <- <-. reflexivity.
  - destruct (lf s1 inner (raw ++ r)) as [[p1 s2]|] eqn:F; [|discriminate]. cbn [bind] in H.
    rewrite (A _ _ _ _ _ more F). cbn [bind]. apply IH, H.
Qed.

Lemma group_inv lf num wt : r_acct lf -> r_inv lf -> forall n s more raw p s2,
  group_g lf num wt n (s ++ more) raw = Ok (p, s2) -> (length more <= length s2)%nat ->
  exists s', s2 = s' ++ more /\ group_g lf num wt n s raw = Ok (p, s').
Proof.
  intros AC A. induction n as [|n IH]; intros s more raw p s2 H L; [discriminate|].
  cbn [group_g] in *.
  destruct (load_varint (s ++ more)) as [[[inner r] s1]|] eqn:V; [|discriminate]. cbn [bind] in H.
  destruct (Z.land inner 7 =? WIRE_END_GROUP) eqn:EG.
  - destruct (Z.shiftr inner 3 =? num) eqn:EN; [|discriminate]. injection H as <- <-.
    destruct (lv_inv _ _ _ _ _ V L) as (x & -> & V'). exists x. split; [reflexivity|].
    rewrite V'. cbn [bind]. rewrite EG, EN. reflexivity.
  - destruct (lf s1 inner (raw ++ r)) as [[p1 s3]|] eqn:F; [|discriminate]. cbn [bind] in H.
    (* the rest after the whole group is no shorter than [more]; so is every intermediate rest *)
    destruct (group_acct lf num wt AC _ _ _ _ _ H) as (u2 & E3 & _ & _).
    destruct (AC _ _ _ _ _ F) as (u1 & E1 & _ & _).
    assert (L3 : (length more <= length s3)%nat) by (subst s3; rewrite app_length; lia).
    assert (L1 : (length more <= length s1)%nat) by (subst s1; rewrite app_length; lia).
    destruct (lv_inv _ _ _ _ _ V L1) as (x1 & -> & V'). rewrite V'. cbn [bind]. rewrite EG.
    destruct (A _ _ _ _ _ _ F L3) as (x3 & -> & F'). rewrite F'. cbn [bind].
    apply IH; assumption.
Qed.

Lemma group_fuel lf1 lf2 num wt :
  r_acct lf1 ->
  forall n1 n2 s raw (b : nat),
  (forall s' nw raw', (length s' < length s)%nat -> lf1 s' nw raw' = lf2 s' nw raw') ->
  (length s < n1)%nat -> (length s < n2)%nat ->
  group_g lf1 num wt n1 s raw = group_g lf2 num wt n2 s raw.
Proof.
  intros AC. induction n1 as [|n1 IH]; intros n2 s raw b E L1 L2; [lia|].
  destruct n2 as [|n2]; [lia|]. cbn [group_g].
  destruct (load_varint s) as [[[inner r] s1]|] eqn:V; [|reflexivity]. cbn [bind].
  destruct (lv_sound _ _ _ _ V) as (Es & Lr & _).
  assert (Ls : length s = (length r + length s1)%nat) by (rewrite Es, app_length; reflexivity).
  destruct (Z.land inner 7 =? WIRE_END_GROUP); [reflexivity|].
  rewrite <- E by lia.
  destruct (lf1 s1 inner (raw ++ r)) as [[p1 s2]|] eqn:F; [|reflexivity]. cbn [bind].
  destruct (AC _ _ _ _ _ F) as (u1 & Es1 & _ & _).
  assert (Ls1 : length s1 = (length u1 + length s2)%nat) by (rewrite Es1, app_length; reflexivity).
  apply (IH n2 s2 (praw p1) b); try lia.
  intros s' nw raw' Ls'. apply E. lia.
Qed.

(* ---- _load_field ---- *)
Ltac lf_cases H :=
  rewrite load_field_unfold in H; unfold load_field_body in H;
  destruct (Z.shiftr _ 3 =? 0); [discriminate|].

Lemma load_field_acct fuel : r_acct (load_field fuel).
Proof.
  induction fuel as [|fuel IH]; intros s nw raw p s' H;
    rewrite load_field_unfold in H; unfold load_field_body in H;
    (destruct (Z.shiftr nw 3 =? 0); [discriminate|]);
    (destruct (Z.land nw 7 =? WIRE_VARINT);
     [destruct (load_varint s) as [[[v r] s1]|] eqn:V; [|discriminate]; cbn [bind] in H; injection H as <- <-;
      destruct (lv_sound _ _ _ _ V) as (-> & _ & _); exists r; cbn [praw pbytes length]; repeat split; lia|]);
    (destruct (Z.land nw 7 =? WIRE_FIXED_64);
     [destruct (read_exactly s 8) as [[d s1]|] eqn:V; [|discriminate]; cbn [bind] in H; injection H as <- <-;
      destruct (re_sound _ _ _ _ V) as (-> & _ & _); exists d; cbn [praw pbytes]; repeat split; lia|]);
    (destruct (Z.land nw 7 =? WIRE_LEN_DELIM);
     [destruct (load_varint s) as [[[len r] s1]|] eqn:V; [|discriminate]; cbn [bind] in H;
      destruct (read_exactly s1 len) as [[d s2]|] eqn:V2; [|discriminate]; cbn [bind] in H; injection H as <- <-;
      destruct (lv_sound _ _ _ _ V) as (-> & _ & _); destruct (re_sound _ _ _ _ V2) as (-> & _ & _);
      exists (r ++ d); cbn [praw pbytes]; rewrite <- !app_assoc, app_length; repeat split; lia|]);
    (destruct (Z.land nw 7 =? WIRE_FIXED_32);
     [destruct (read_exactly s 4) as [[d s1]|] eqn:V; [|discriminate]; cbn [bind] in H; injection H as <- <-;
      destruct (re_sound _ _ _ _ V) as (-> & _ & _); exists d; cbn [praw pbytes]; repeat split; lia|]);
    (destruct (Z.land nw 7 =? WIRE_START_GROUP); [|discriminate]).
  - discriminate.
  - destruct (group_acct _ _ _ IH _ _ _ _ _ H) as (u & -> & R & B). exists u. rewrite B. cbn [length].
    repeat split; [exact R | lia].
Qed.

Lemma load_field_app fuel : r_app (load_field fuel).
Proof.
  induction fuel as [|fuel IH]; intros s nw raw p s' more H;
    rewrite load_field_unfold in *; unfold load_field_body in *;
    (destruct (Z.shiftr nw 3 =? 0); [discriminate|]);
    (destruct (Z.land nw 7 =? WIRE_VARINT);
     [destruct (load_varint s) as [[[v r] s1]|] eqn:V; [|discriminate]; cbn [bind] in H; injection H as <- <-;
      rewrite (lv_app _ _ _ _ more V); reflexivity|]);
    (destruct (Z.land nw 7 =? WIRE_FIXED_64);
     [destruct (read_exactly s 8) as [[d s1]|] eqn:V; [|discriminate]; cbn [bind] in H; injection H as <- <-;
      rewrite (re_app _ _ _ _ more V); reflexivity|]);
    (destruct (Z.land nw 7 =? WIRE_LEN_DELIM);
     [destruct (load_varint s) as [[[len r] s1]|] eqn:V; [|discriminate]; cbn [bind] in H;
      destruct (read_exactly s1 len) as [[d s2]|] eqn:V2; [|discriminate]; cbn [bind] in H; injection H as <- <-;
      rewrite (lv_app _ _ _ _ more V); cbn [bind]; rewrite (re_app _ _ _ _ more V2); reflexivity|]);
    (destruct (Z.land nw 7 =? WIRE_FIXED_32);
     [destruct (read_exactly s 4) as [[d s1]|] eqn:V; [|discriminate]; cbn [bind] in H; injection H as <- <-;
      rewrite (re_app _ _ _ _ more V); reflexivity|]);
    (destruct (Z.land nw 7 =? WIRE_START_GROUP); [|discriminate]).
  - discriminate.
  - apply group_app; assumption.
Qed.

Lemma load_field_inv fuel : r_inv (load_field fuel).
Proof.
  induction fuel as [|fuel IH]; intros s more nw raw p s2 H L;
    rewrite load_field_unfold in *; unfold load_field_body in *;
    (destruct (Z.shiftr nw 3 =? 0); [discriminate|]);
    (destruct (Z.land nw 7 =? WIRE_VARINT);
     [destruct (load_varint (s ++ more)) as [[[v r] s1]|] eqn:V; [|discriminate]; cbn [bind] in H; injection H as <- <-;
      destruct (lv_inv _ _ _ _ _ V L) as (x & -> & V'); exists x; rewrite V'; split; reflexivity|]);
    (destruct (Z.land nw 7 =? WIRE_FIXED_64);
     [destruct (read_exactly (s ++ more) 8) as [[d s1]|] eqn:V; [|discriminate]; cbn [bind] in H; injection H as <- <-;
      destruct (re_inv _ _ _ _ _ V L) as (x & -> & V'); exists x; rewrite V'; split; reflexivity|]);
    (destruct (Z.land nw 7 =? WIRE_LEN_DELIM);
     [destruct (load_varint (s ++ more)) as [[[len r] s1]|] eqn:V; [|discriminate]; cbn [bind] in H;
      destruct (read_exactly s1 len) as [[d s3]|] eqn:V2; [|discriminate]; cbn [bind] in H; injection H as <- <-;
      destruct (re_sound _ _ _ _ V2) as (E1 & _ & _);
      assert (L1 : (length more <= length s1)%nat) by (subst s1; rewrite app_length; lia);
      destruct (lv_inv _ _ _ _ _ V L1) as (x1 & -> & V'); clear E1;
      destruct (re_inv _ _ _ _ _ V2 L) as (x & -> & V2'); exists x; rewrite V'; cbn [bind]; rewrite V2'; split; reflexivity|]);
    (destruct (Z.land nw 7 =? WIRE_FIXED_32);
     [destruct (read_exactly (s ++ more) 4) as [[d s1]|] eqn:V; [|discriminate]; cbn [bind] in H; injection H as <- <-;
      destruct (re_inv _ _ _ _ _ V L) as (x & -> & V'); exists x; rewrite V'; split; reflexivity|]);
    (destruct (Z.land nw 7 =? WIRE_START_GROUP); [|discriminate]).
  - discriminate.
  - apply group_inv; try assumption. apply load_field_acct.
Qed.

(* more fuel than stream bytes: the fuel is irrelevant *)
Lemma load_field_fuel : forall f1 f2 s nw raw,
  (length s < f1)%nat -> (length s < f2)%nat -> load_field f1 s nw raw = load_field f2 s nw raw.
Proof.
  induction f1 as [|f1 IH]; intros f2 s nw raw L1 L2; [lia|]. destruct f2 as [|f2]; [lia|].
  rewrite !load_field_unfold. unfold load_field_body.
  destruct (Z.shiftr nw 3 =? 0); [reflexivity|].
  destruct (Z.land nw 7 =? WIRE_VARINT); [reflexivity|].
  destruct (Z.land nw 7 =? WIRE_FIXED_64); [reflexivity|].
  destruct (Z.land nw 7 =? WIRE_LEN_DELIM); [reflexivity|].
  destruct (Z.land nw 7 =? WIRE_FIXED_32); [reflexivity|].
  destruct (Z.land nw 7 =? WIRE_START_GROUP); [|reflexivity].
  apply group_fuel; try lia; [apply load_field_acct | exact O |].
  intros s' nw' raw' Ls. apply IH; lia.
Qed.

(* a record occupies at least its tag: every iteration of load_fields makes progress *)
Lemma acct_lengths lf : r_acct lf -> forall s nw raw p s',
  lf s nw raw = Ok (p, s') -> (length s' <= length s)%nat /\ (length (pbytes p) <= length s)%nat /\
  Zlength (praw p) = Zlength raw + (Zlength s - Zlength s').
Proof.
  intros A s nw raw p s' H. destruct (A _ _ _ _ _ H) as (u & -> & R & B).
  rewrite R, !Zlen_app. unfold Zlength. rewrite !app_length. lia.
Qed.
