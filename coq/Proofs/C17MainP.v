(* C17: the property-level statements, assembled from the C17*P files. *)
From BP Require Import Base.Prelude Model.Types Model.Varint Model.Float Model.Object Model.Encode Model.Decode.
From BP Require Import Model.WellFormed Model.C17Typed Model.C17Wire Model.C17Step Spec.Varint.
From BP Require Import Proofs.C17FieldP Proofs.C17StepP Proofs.C17TotalP Proofs.C17TypedP Proofs.C17EncP.
From BP Require Import Proofs.C17FloatP Proofs.C17FrameP Proofs.VarintP.

Theorem welltyped_into sc o bs m :
  wf_schema sc = true -> has_builtins sc -> entries_agree sc = true ->
  well_typed sc o = true -> decoded_range sc o = true ->
  parse_into sc o bs = Ok m ->
  well_typed sc m = true /\ decoded_range sc m = true /\ ocls m = ocls o /\
  exists bs', enc_obj sc m = Ok bs'.
Proof.
  intros Hwf Hbi Hea Hw Hd H.
  destruct (parse_into_typed false sc Hwf Hbi Hea f32_reencodable_all o bs m Hw H) as [T1 C1].
  destruct (parse_into_typed true sc Hwf Hbi Hea f32_reencodable_all o bs m Hd H) as [T2 _].
  split; [exact T1|]. split; [exact T2|]. split; [exact C1|]. apply (enc_total sc Hwf m T2).
Qed.

Theorem welltyped sc c bs m :
  wf_schema sc = true -> has_builtins sc -> entries_agree sc = true ->
  parse sc c bs = Ok m ->
  well_typed sc m = true /\ decoded_range sc m = true /\ ocls m = c /\
  exists bs', enc_obj sc m = Ok bs'.
Proof.
  intros Hwf Hbi Hea H. unfold parse in H.
  apply (welltyped_into sc (new sc c) bs m Hwf Hbi Hea (new_typed false sc Hwf c) (new_typed true sc Hwf c) H).
Qed.

Theorem reencodable sc m : wf_schema sc = true -> decoded_range sc m = true -> exists bs, enc_obj sc m = Ok bs.
Proof. intros Hwf H. apply (enc_total sc Hwf m H). Qed.

Lemma firstn_split_proper {A} k (r : list A) :
  (0 < k < length r)%nat -> r = firstn k r ++ skipn k r /\ firstn k r <> [] /\ skipn k r <> [].
Proof.
  intros Hk. split; [symmetry; apply firstn_skipn|]. split.
  - intros E. apply (f_equal (@length A)) in E. rewrite firstn_length in E. cbn in E. lia.
  - intros E. apply (f_equal (@length A)) in E. rewrite skipn_length in E. cbn in E. lia.
Qed.

Theorem prefix_rejected sc c pre nw r k :
  wrecs pre -> wrec nw r -> (0 < k < length r)%nat ->
  exists e, parse sc c (pre ++ firstn k r) = Err e.
Proof.
  intros Wp Wr Hk. destruct (firstn_split_proper k r Hk) as (E & Hx & Hy).
  unfold parse. eapply parse_prefix_rejected; eassumption.
Qed.

Theorem prefix_rejected_into sc o pre nw r k :
  wrecs pre -> wrec nw r -> (0 < k < length r)%nat ->
  exists e, parse_into sc o (pre ++ firstn k r) = Err e.
Proof.
  intros Wp Wr Hk. destruct (firstn_split_proper k r Hk) as (E & Hx & Hy).
  eapply parse_prefix_rejected; eassumption.
Qed.

Theorem bad_tag_rejected sc c pre nw tag rest :
  wrecs pre -> VarintRep nw tag ->
  (tag_num nw = 0 \/ tag_wt nw = 4 \/ tag_wt nw = 6 \/ tag_wt nw = 7) ->
  exists e, parse sc c (pre ++ tag ++ rest) = Err e.
Proof. intros. unfold parse. eapply parse_bad_tag_rejected; eassumption. Qed.

(* inside a group: an end-group tag with another field number *)
Theorem group_end_mismatch_rejected sc c pre nw tag enw etag rest :
  wrecs pre -> VarintRep nw tag -> tag_num nw <> 0 -> tag_wt nw = 3 ->
  VarintRep enw etag -> tag_wt enw = 4 -> tag_num enw <> tag_num nw ->
  exists e, parse sc c (pre ++ tag ++ etag ++ rest) = Err e.
Proof.
  intros Wp Rt Hn Hw Re T4 Tn. unfold parse. apply parse_into_fails. intros pn fuel' cd.
  apply fails_after_records; [exact Wp|].
  intros n o read Hl Hf. destruct n as [|n]; [lia|]. cbn [loop_r].
  pose proof (VarintRep_nonempty _ _ Rt) as Ht.
  destruct (tag ++ etag ++ rest) as [|b s] eqn:Es; [destruct tag; [cbn in Ht; lia | discriminate]|].
  rewrite <- Es in *. rewrite (load_varint_rep _ _ _ Rt). cbn [bind].
  rewrite (group_end_mismatch fuel' (etag ++ rest) nw tag enw etag rest Hn Hw eq_refl Re T4 Tn).
  - cbn [bind]. eauto.
  - rewrite app_length in Hf. lia.
Qed.

Theorem mismatch_isolated sc o nw r i f :
  wrec nw r -> field_by_number (get_class sc (ocls o)) (tag_num nw) = Some (i, f) ->
  wire_type_fits f (tag_wt nw) = false ->
  parse_into sc o r = Ok (add_unknown (mark_on_wire o) r).
Proof. intros Wr Hf Hfit. apply (parse_foreign_record sc o nw r Wr). rewrite Hf, Hfit. reflexivity. Qed.

Theorem group_isolated sc o nw r :
  wrec nw r -> tag_wt nw = 3 -> parse_into sc o r = Ok (add_unknown (mark_on_wire o) r).
Proof.
  intros Wr Hw. apply (parse_foreign_record sc o nw r Wr). rewrite Hw.
  destruct (field_by_number _ _) as [[i f]|]; reflexivity.
Qed.

Theorem unknown_number_isolated sc o nw r :
  wrec nw r -> field_by_number (get_class sc (ocls o)) (tag_num nw) = None ->
  parse_into sc o r = Ok (add_unknown (mark_on_wire o) r).
Proof. intros Wr Hf. apply (parse_foreign_record sc o nw r Wr). rewrite Hf. reflexivity. Qed.
