(* C05, message level, ACCEPT direction, part 2 of the reader: the member loop of _from_dict_init on the canonical
   JSON object, the constructor call, and the object:
     Cls.from_dict(canonical JSON of a) = conc_obj a       for every well-formed abstract message a. *)
From BP Require Import Base.Prelude Model.Types Model.Float Model.Utf8 Model.Object Model.WellFormed Model.TimeCore Spec.Time.
From BP Require Model.Json Model.Enum Model.Casing Spec.JsonMap Model.Time.
From BP Require Import gen.Tables.
From BP Require Import Proofs.BytesP Proofs.C04Def Proofs.C04ScalarP Proofs.C04ElemP Proofs.C04FieldP Proofs.C04ObjP.
From BP Require Proofs.C04CurP.
From BP Require Import Proofs.C05Casing Proofs.C05Leaf Proofs.C05Model Proofs.C05MsgDef Proofs.C05MsgSpec Proofs.C05MsgLeaf
                       Proofs.C05MsgField.
From BP Require Import Proofs.C05AccDef Proofs.C05AccSpec Proofs.C05AccLeaf Proofs.C05AccField.
From Coq Require Import Lia.

Section Read.
  Variable sc : schema.
  Variable js : S.jschema.
  Variable off : nat.
  Hypothesis JM : js_matches off sc js = true.
  Hypothesis WF : wf_schema sc = true.
  Hypothesis KO : C04Def.keys_ok J.CAMEL sc = true.
  Let nj := length (S.jclasses js).
  Notation wfa := (wf_aval sc js off).
  Notation cel := (conc_elem sc js off).

  (* the keyword arguments the reader passes to the constructor *)
  Fixpoint kw_conc (i : nat) (fs : list fdesc) (fds : list S.jfield) (afs : list S.afield) {struct afs} : list (nat * pv) :=
    match fs, fds, afs with
    | f :: fs', fd :: fds', af :: afs' =>
        (if omitted fd af then [] else [(i, conc_field cel f fd af)]) ++ kw_conc (Datatypes.S i) fs' fds' afs'
    | _, _, _ => []
    end.

  Lemma kw_conc_ge i fs fds afs j : In j (map fst (kw_conc i fs fds afs)) -> (i <= j)%nat.
  Proof.
    revert i fs fds. induction afs as [|af afs IH]; intros i fs fds H.
    - destruct fs, fds; destruct H.
    - destruct fs as [|f fs]; [destruct H|]. destruct fds as [|fd fds]; [destruct H|].
      cbn [kw_conc] in H. rewrite map_app in H. apply in_app_or in H as [H|H].
      + destruct (omitted fd af); [destruct H|]. destruct H as [H|[]]. cbn in H. lia.
      + specialize (IH _ _ _ H). lia.
  Qed.
  Lemma kw_conc_nodup i fs fds afs : NoDup (map fst (kw_conc i fs fds afs)).
  Proof.
    revert i fs fds. induction afs as [|af afs IH]; intros i fs fds.
    - destruct fs, fds; constructor.
    - destruct fs as [|f fs]; [constructor|]. destruct fds as [|fd fds]; [constructor|].
      cbn [kw_conc]. rewrite map_app. destruct (omitted fd af); cbn [map app]; [apply IH|].
      constructor; [|apply IH]. intros I. apply kw_conc_ge in I. cbn [fst] in I. lia.
  Qed.

  (* values built by the reader never need their flag raised by the constructor *)
  Lemma mark_conc k a : (if fieldless sc (cel k a) then mark_sow (cel k a) else cel k a) = cel k a.
  Proof.
    destruct (fieldless sc (cel k a)) eqn:F; [|reflexivity].
    destruct a; try discriminate F. destruct k; try discriminate F. reflexivity.
  Qed.
  Lemma mark_conc_field f fd af : omitted fd af = false ->
    (if fieldless sc (conc_field cel f fd af) then mark_sow (conc_field cel f fd af) else conc_field cel f fd af)
    = conc_field cel f fd af.
  Proof.
    intros O. unfold conc_field. rewrite O. destruct af; try discriminate O; try reflexivity. apply mark_conc.
  Qed.

  Lemma fold_kw_conc : forall afs fs fds pre,
    length fs = length afs -> length fds = length afs ->
    fold_left (kw_step sc) (kw_conc (length pre) fs fds afs) (pre ++ map sentinel fs) =
    pre ++ conc_fields cel fs fds afs.
  Proof.
    induction afs as [|af afs IH]; intros fs fds pre L1 L2.
    - destruct fs; [|cbn in L1; discriminate L1]. destruct fds; [|cbn in L2; discriminate L2]. reflexivity.
    - destruct fs as [|f fs]; [cbn in L1; discriminate L1|]. destruct fds as [|fd fds]; [cbn in L2; discriminate L2|].
      cbn [length] in L1, L2. injection L1 as L1. injection L2 as L2.
      cbn [kw_conc conc_fields map]. rewrite fold_left_app.
      assert (Next : forall v, fold_left (kw_step sc) (kw_conc (Datatypes.S (length pre)) fs fds afs) (pre ++ v :: map sentinel fs)
                               = pre ++ v :: conc_fields cel fs fds afs).
      { intros v. specialize (IH fs fds (pre ++ [v]) L1 L2). rewrite app_length in IH. cbn [length] in IH.
        rewrite Nat.add_1_r in IH. rewrite <- !app_assoc in IH. exact IH. }
      destruct (omitted fd af) eqn:O.
      + cbn [fold_left]. unfold conc_field at 1. rewrite O. apply Next.
      + cbn [fold_left kw_step]. rewrite (mark_conc_field f fd af O). rewrite set_nth_app. apply Next.
  Qed.

  Lemma wf_afields_length rec : forall afs fs fds, wf_afields rec fs fds afs = true ->
    length fs = length afs /\ length fds = length afs.
  Proof.
    induction afs as [|af afs IH]; intros fs fds H.
    - destruct fs, fds; try discriminate H. split; reflexivity.
    - destruct fs as [|f fs], fds as [|fd fds]; try discriminate H.
      cbn [wf_afields] in H. apply andb_prop in H as [_ H]. destruct (IH _ _ H) as [A B]. cbn [length]. split; congruence.
  Qed.

  Lemma construct_conc c afs :
    wf_afields wfa (cfields (get_class sc (c + off))) (S.jclass js c) afs = true ->
    construct sc (c + off) (kw_conc O (cfields (get_class sc (c + off))) (S.jclass js c) afs) =
    post_init sc (c + off) (conc_fields cel (cfields (get_class sc (c + off))) (S.jclass js c) afs).
  Proof.
    intros W. destruct (wf_afields_length _ _ _ _ W) as [L1 L2].
    unfold construct. f_equal.
    change (fun (r : list pv) '(i, v) => set_nth i (if fieldless sc v then mark_sow v else v) r) with (kw_step sc).
    assert (E : oraw (new sc (c + off)) = map sentinel (cfields (get_class sc (c + off)))) by reflexivity.
    rewrite E. exact (fold_kw_conc afs _ _ [] L1 L2).
  Qed.

  Section Step.
    Variable n : nat.
    Hypothesis IHm : forall c afs, (aval_size (S.AMsg afs) < n)%nat -> wfa (S.JMsg c) (S.AMsg afs) = true ->
      exists j, S.spec_val js (S.JMsg c) (S.AMsg afs) = Some j /\
                J.from_dict_cls sc (c + off) (unconv j) = Ok (conc_obj sc js off c afs).

    Lemma fields_read cls ng : forall afs fs fds i,
      lookup_ok J.CAMEL (cfields (get_class sc cls)) i fs ->
      Forall2 (fmatch off nj) fs fds -> forallb (wf_field sc ng) fs = true ->
      wf_afields wfa fs fds afs = true -> (afields_size afs < n)%nat ->
      exists kvs, spec_fields js fds afs = Some kvs /\
                  fd_items sc cls (map uentry kvs) = Ok (kw_conc i fs fds afs).
    Proof.
      induction afs as [|af afs IH]; intros fs fds i L F2 W Wa Hs.
      - destruct fs, fds; try discriminate Wa. exists []. split; reflexivity.
      - destruct fs as [|f fs], fds as [|fd fds]; try discriminate Wa.
        cbn [wf_afields] in Wa. apply andb_prop in Wa as [Wa1 Wa2].
        cbn [forallb] in W. apply andb_prop in W as [W1 W2].
        inversion F2 as [|? ? ? ? Fm F2']; subst.
        rewrite afields_size_cons in Hs.
        destruct (IH fs fds (Datatypes.S i) (lookup_tail _ _ _ _ _ L) F2' W2 Wa2 ltac:(lia)) as (kvs & Sk & Rk).
        pose proof (field_read sc js off JM n IHm ng f fd af W1 Fm ltac:(lia) Wa1) as FR.
        cbn [spec_fields kw_conc]. rewrite Sk.
        destruct (omitted fd af).
        + rewrite FR. exists kvs. split; [reflexivity|exact Rk].
        + destruct FR as (j & Sj & Nn & Rd). rewrite Sj. exists ((S.jf_json fd, j) :: kvs). split; [reflexivity|].
          cbn [map uentry fst snd fd_items J.item_from_json].
          destruct (L O f eq_refl) as [nm [L1 L2]]. rewrite Nat.add_0_r in L2.
          destruct Fm as [Fk _ _ _ _]. rewrite <- Fk, L1, L2.
          destruct (unconv j) eqn:U; try (exfalso; apply Nn; reflexivity); rewrite Rd; cbn [bind]; rewrite Rk; reflexivity.
    Qed.
  End Step.

  Lemma msg_read_n : forall n c afs, (aval_size (S.AMsg afs) < n)%nat -> wfa (S.JMsg c) (S.AMsg afs) = true ->
    exists j, S.spec_val js (S.JMsg c) (S.AMsg afs) = Some j /\
              J.from_dict_cls sc (c + off) (unconv j) = Ok (conc_obj sc js off c afs).
  Proof.
    induction n as [|n IHn]; intros c afs Hs W; [lia|].
    rewrite wf_aval_msg in W. apply andb_prop in W as [W Wf]. apply andb_prop in W as [Wc Wg].
    apply Nat.ltb_lt in Wc.
    destruct (js_matches_class off sc js c JM Wc) as [F2 ND].
    destruct (keys_fields J.CAMEL sc (c + off) KO) as [L _].
    rewrite aval_size_msg in Hs.
    destruct (fields_read n IHn (c + off) (cngroups (get_class sc (c + off))) afs _ _ O L F2 (wf_fields sc (c + off) WF) Wf
                ltac:(lia)) as (kvs & Sk & Rk).
    rewrite spec_val_msg, Sk. cbn [option_map]. eexists. split; [reflexivity|].
    cbn [unconv]. change (map (fun kx : list byte * S.json => (J.JStr (fst kx), unconv (snd kx))) kvs) with (map uentry kvs).
    unfold J.from_dict_cls. rewrite from_dict_init_unfold, Rk. cbn [bind].
    rewrite kw_norm_nodup by apply kw_conc_nodup.
    unfold J.finish_cls. rewrite construct_conc by exact Wf. reflexivity.
  Qed.

  Theorem msg_read c afs : wfa (S.JMsg c) (S.AMsg afs) = true ->
    exists j, S.json_spec js c (S.AMsg afs) = Some j /\
              J.from_dict_cls sc (c + off) (unconv j) = Ok (conc_obj sc js off c afs).
  Proof. intros W. exact (msg_read_n (Datatypes.S (aval_size (S.AMsg afs))) c afs (Nat.lt_succ_diag_r _) W). Qed.
End Read.
