(* C09, corollaries stated in the property's own words: len() is a size (never negative), the delimited dump is
   size_varint(len) + len bytes long, a dump that returns wrote exactly bytes(m) after its prefix (converse direction of
   dump_delimited), and all of it after ANY history of operations (Model/C07Ops.v), not only for freshly built values. *)
From BP Require Import Base.Prelude Model.Types Model.Varint Model.Object Model.Encode Model.Decode Model.Len.
From BP Require Import Model.History Model.C07Ops.
From BP Require Import Proofs.VarintP Proofs.LenP.

Lemma len_ok_bytes_ok sc o n : len_obj sc o = Ok n -> exists bs, enc_obj sc o = Ok bs /\ n = Zlength bs.
Proof.
  intros H. destruct (enc_obj sc o) as [bs|e] eqn:E.
  - exists bs. split; [reflexivity|]. rewrite (len_of_bytes _ _ _ E) in H. congruence.
  - apply len_fails_iff_bytes_fails in E. congruence.
Qed.

Lemma len_nonneg sc o n : len_obj sc o = Ok n -> 0 <= n.
Proof. intros H. destruct (len_ok_bytes_ok _ _ _ H) as [bs [_ ->]]. apply Zlength_nonneg. Qed.

(* whatever dump returns is prefix ++ bytes(m): plain -> no prefix; delimited -> the varint of len(bytes(m)) *)
Lemma dump_ok_inv sc o d out : dump sc o d = Ok out ->
  exists bs, enc_obj sc o = Ok bs /\
    if d then exists p, encode_varint (Zlength bs) = Ok p /\ out = p ++ bs else out = bs.
Proof.
  intros H. destruct (enc_obj sc o) as [bs|e] eqn:E.
  - exists bs. split; [reflexivity|]. destruct d.
    + rewrite (dump_delimited _ _ _ E) in H. destruct (encode_varint (Zlength bs)) as [p|e]; cbn [bind] in H; [|discriminate].
      exists p. split; [reflexivity|]. congruence.
    + rewrite dump_plain, E in H. congruence.
  - rewrite (dump_fails_iff_bytes_fails _ _ d _ E) in H. discriminate.
Qed.

(* the size of a delimited dump: size_varint(len(m)) + len(m) *)
Lemma dump_delimited_size sc o out : dump sc o true = Ok out ->
  exists n k, len_obj sc o = Ok n /\ size_varint n = Ok k /\ Zlength out = k + n.
Proof.
  intros H. destruct (dump_ok_inv _ _ _ _ H) as [bs [E [p [Hp ->]]]].
  exists (Zlength bs), (Zlength p). split; [apply len_of_bytes; exact E|]. split.
  - pose proof (agree_varint (Zlength bs)) as A. unfold agree in A. rewrite Hp in A.
    destruct (size_varint (Zlength bs)); [congruence|contradiction].
  - apply Zlength_app.
Qed.

(* dump raises exactly when bytes() raises or (delimited only) the length does not fit a varint: never otherwise *)
Lemma dump_err_inv sc o d e : dump sc o d = Err e ->
  enc_obj sc o = Err e \/ (d = true /\ exists bs, enc_obj sc o = Ok bs /\ encode_varint (Zlength bs) = Err e).
Proof.
  intros H. destruct (enc_obj sc o) as [bs|e'] eqn:E.
  - right. destruct d.
    + split; [reflexivity|]. exists bs. split; [reflexivity|]. rewrite (dump_delimited _ _ _ E) in H.
      destruct (encode_varint (Zlength bs)); cbn [bind] in H; congruence.
    + rewrite dump_plain, E in H. discriminate.
  - left. rewrite (dump_fails_iff_bytes_fails _ _ d _ E) in H. congruence.
Qed.

(* a delimited dump of fewer than 2^64 bytes never raises on its own *)
Lemma dump_delimited_total sc o bs : enc_obj sc o = Ok bs -> Zlength bs < 2 ^ 64 -> exists out, dump sc o true = Ok out.
Proof. intros E L. destruct (dump_delimited_canonical _ _ _ E L) as [p [_ [D _]]]. eauto. Qed.

(* ---- after any history ---- *)
Lemma len_after_history sc c ops o : run7 sc (new sc c) ops = Ok o -> agree (enc_obj sc o) (len_obj sc o).
Proof. intros _. apply len_matches_bytes. Qed.

(* the observers themselves: len() and dump() leave the object as it is in the model — there is nothing to prove about a
   pure function; what C09 adds to C14 is that the VALUE of len() after a history is the size of what bytes() returns then *)
Lemma len_tracks_bytes_along sc o ops o' bs : run7 sc o ops = Ok o' -> enc_obj sc o' = Ok bs -> len_obj sc o' = Ok (Zlength bs).
Proof. intros _. apply len_of_bytes. Qed.
