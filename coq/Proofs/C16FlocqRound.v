(* C16, float clause, part 3: the model's [rne_shift M s] (shift right by s with round-to-nearest, ties to
   even, Model/Float.v) IS Flocq's ZnearestE applied to M / 2^s, and therefore rounding a positive
   number M * 2^ex into any format whose canonical exponent at that number is c = ex + s (s > 0) gives
   rne_shift M s * 2^c. *)
From Coq Require Import ZArith Reals List Bool Lia Lra ZifyBool.
From Flocq Require Import Core.
From BP Require Import Base.Prelude Model.Float Proofs.C01Float.
Open Scope Z_scope.

Lemma rne_shift_cases M s : 0 < s ->
  rne_shift M s =
  let q := M / 2 ^ s in let r := M mod 2 ^ s in let h := 2 ^ (s - 1) in
  if r <? h then q else if h <? r then q + 1 else if Z.odd q then q + 1 else q.
Proof.
  intros Hs. unfold rne_shift. replace (s <=? 0) with false by lia.
  rewrite shr by lia. rewrite !shl by lia. rewrite !Z.mul_1_l. rewrite land_mask by lia. reflexivity.
Qed.

Lemma rne_is_ZnearestE M s : 0 <= M -> 0 < s ->
  ZnearestE (IZR M * bpow radix2 (- s)) = rne_shift M s.
Proof.
  intros HM Hs. rewrite rne_shift_cases by exact Hs. cbv zeta.
  set (P := 2 ^ s). set (H2 := 2 ^ (s - 1)).
  assert (HP : P = 2 * H2).
  { unfold P, H2. replace s with (Z.succ (s - 1)) at 1 by lia. apply Z.pow_succ_r; lia. }
  assert (HH : 0 < H2) by (apply Z.pow_pos_nonneg; lia).
  set (q := M / P). set (r := M mod P).
  assert (HMqr : M = q * P + r) by (unfold q, r; rewrite Z.mul_comm; apply Z.div_mod; lia).
  assert (Hr : 0 <= r < P) by (apply Z.mod_pos_bound; lia).
  assert (HPR : (0 < IZR P)%R) by (apply IZR_lt; lia).
  set (t := (IZR r * / IZR P)%R).
  assert (HtP : (t * IZR P = IZR r)%R) by (unfold t; field; lra).
  assert (Hx : (IZR M * bpow radix2 (- s) = IZR q + t)%R).
  { rewrite bpow_opp, <- IZR_Zpower by lia. change (IZR (radix2 ^ s)) with (IZR P).
    rewrite HMqr, plus_IZR, mult_IZR. unfold t. field. lra. }
  rewrite Hx.
  assert (Hr0 : (0 <= IZR r)%R) by (apply IZR_le; lia).
  assert (Hr1 : (IZR r < IZR P)%R) by (apply IZR_lt; lia).
  assert (Ht : (0 <= t < 1)%R) by (split; nra).
  assert (Hcmp : Rcompare t (/ 2) = (r ?= H2)).
  { rewrite <- (Rcompare_mult_r (IZR P)) by exact HPR. rewrite HtP.
    replace (/ 2 * IZR P)%R with (IZR H2) by (rewrite HP, mult_IZR; field).
    apply Rcompare_IZR. }
  assert (Hfl : Zfloor (IZR q + t) = q) by (apply Zfloor_imp; rewrite plus_IZR; lra).
  unfold Znearest. rewrite Hfl.
  replace (IZR q + t - IZR q)%R with t by ring. rewrite Hcmp.
  assert (Hceil : (0 < t)%R -> Zceil (IZR q + t) = q + 1).
  { intros Hpos. apply Zceil_imp. replace (q + 1 - 1) with q by lia. rewrite plus_IZR. lra. }
  destruct (Z.compare_spec r H2) as [Heq | Hlt | Hgt].
  - replace (r <? H2) with false by lia. replace (H2 <? r) with false by lia.
    rewrite <- Z.negb_even. destruct (Z.even q); cbn [negb]; [reflexivity|].
    apply Hceil. apply Rcompare_Eq_inv in Hcmp. lra.
  - replace (r <? H2) with true by lia. reflexivity.
  - replace (r <? H2) with false by lia. replace (H2 <? r) with true by lia.
    apply Hceil. assert (0 < IZR r)%R by (apply IZR_lt; lia). nra.
Qed.

(* rounding M * 2^ex (M >= 0) to nearest even when the canonical exponent there is ex + s *)
Lemma round_NE_shift (fexp : Z -> Z) (M ex s : Z) :
  0 <= M -> 0 < s ->
  cexp radix2 fexp (F2R (Float radix2 M ex)) = ex + s ->
  round radix2 fexp ZnearestE (F2R (Float radix2 M ex)) = F2R (Float radix2 (rne_shift M s) (ex + s)).
Proof.
  intros HM Hs Hc. unfold round, scaled_mantissa. rewrite Hc.
  f_equal. f_equal.
  rewrite <- (rne_is_ZnearestE M s HM Hs). f_equal.
  unfold F2R. cbn [Fnum Fexp]. rewrite Rmult_assoc, <- bpow_plus. f_equal. f_equal. lia.
Qed.

(* the magnitude of M * 2^ex for a d-digit M *)
Lemma mag_F2R_digits (M ex d : Z) :
  2 ^ (d - 1) <= M < 2 ^ d -> 0 < M ->
  (mag radix2 (F2R (Float radix2 M ex)) : Z) = d + ex.
Proof.
  intros HM Hpos. rewrite mag_F2R_Zdigits by lia. f_equal.
  apply Zdigits_unique. rewrite Z.abs_eq by lia. exact HM.
Qed.

(* a rounded significand that fits below half a unit is 0 *)
Lemma rne_shift_small M s : 0 <= M -> 0 < s -> M < 2 ^ (s - 1) -> rne_shift M s = 0.
Proof.
  intros HM Hs Hlt. rewrite rne_shift_cases by exact Hs. cbv zeta.
  assert (HP : 2 ^ s = 2 * 2 ^ (s - 1)).
  { replace s with (Z.succ (s - 1)) at 1 by lia. apply Z.pow_succ_r; lia. }
  assert (0 < 2 ^ (s - 1)) by (apply Z.pow_pos_nonneg; lia).
  rewrite Z.mod_small by lia. rewrite Z.div_small by lia.
  replace (M <? 2 ^ (s - 1)) with true by lia. reflexivity.
Qed.
