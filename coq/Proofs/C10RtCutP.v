(* C10 round-trip layer, part 4: truncation, headline form.  A stream of messages meeting C01's side conditions, cut after
   ANY number k of bytes: the loads return exactly the decoded forms of the messages whose frames lie wholly before the
   cut (each == the written one), and then — if anything was cut off — raise a Python exception.  Never a shortened message.
   Composition of C10RtGenP.stream_cut_any (C10_truncate / C10_truncate_count with the bound per message) with part (1)
   and, for a reader older than the writer, with part (2). *)
From BP Require Import Base.Prelude Model.Types Model.Varint Model.Object Model.Eq Model.Encode Model.Len Model.Decode.
From BP Require Import Model.WellFormed Model.C01Def Model.C08Step Model.C10Stream Model.C10Rt.
From BP Require Import Spec.Varint Proofs.LenP Proofs.C10FieldP Proofs.C10FrameP Proofs.C10StreamP Proofs.C10RtGenP Proofs.C10RtP
     Proofs.C10RtOldP.
From BP Require Proofs.C08EvoDef.

Lemma firstn_map_app {A B} (f : A -> B) (a : list A) (x : A) (b : list A) :
  firstn (length a) (map f (a ++ x :: b)) = map f a.
Proof.
  rewrite map_app, firstn_app, map_length, Nat.sub_diag. cbn [firstn]. rewrite app_nil_r.
  rewrite <- (map_length f a). apply firstn_all.
Qed.

Lemma firstn_len_app {A} (a : list A) (x : A) (b : list A) : firstn (length a) (a ++ x :: b) = a.
Proof. rewrite firstn_app, Nat.sub_diag, firstn_all. cbn [firstn]. apply app_nil_r. Qed.

Lemma In_firstn {A} (x : A) : forall (j : nat) (l : list A), In x (firstn j l) -> In x l.
Proof.
  induction j as [|j IH]; intros l H; [destruct H|]. destruct l as [|y l]; [destruct H|].
  cbn [firstn] in H. destruct H as [->|H]; [left; reflexivity | right; apply IH; exact H].
Qed.

Lemma Forall_firstn {A} (P : A -> Prop) (j : nat) (l : list A) : Forall P l -> Forall P (firstn j l).
Proof. rewrite !Forall_forall. intros H x Hin. apply H. eapply In_firstn; exact Hin. Qed.

(* ---- a generic reader [scR] that parses every payload: ANY cut, also at / beyond the end ---- *)
Theorem stream_cut_total scW scR ms cs stream k l :
  Forall (fun m => msg_small scW m = true) ms ->
  dump_stream scW ms = Ok stream -> length cs = length ms ->
  parse_each scW scR cs ms = (l, true) ->
  exists r, loads scR cs (firstn k stream) = (firstn (whole_frames scW ms k) l, r) /\
            (if (k <? length stream)%nat
             then (exists e, r = Err e /\ e <> EFuel) /\ (whole_frames scW ms k < length ms)%nat
             else r = Ok [] /\ whole_frames scW ms k = length ms).
Proof.
  intros Hs D Hl PE. destruct (Nat.ltb_spec k (length stream)) as [Hk|Hk].
  - destruct (stream_cut_any scW scR ms cs stream k l Hs D Hl PE Hk)
      as (ms1 & m & ms2 & pre_s & F & e & -> & D1 & DF & Hr & Hw & EL & Hne).
    exists (Err e). rewrite Hw. split; [exact EL|]. split; [exists e; split; [reflexivity | exact Hne]|].
    rewrite app_length. cbn [length]. lia.
  - rewrite (firstn_beyond k stream Hk), (whole_frames_all scW ms stream k D Hk).
    pose proof (parse_each_length scW scR cs ms l Hl PE) as Hll.
    exists (Ok []). split; [|split; reflexivity].
    rewrite <- Hll, firstn_all. rewrite <- (app_nil_r stream). apply (loads_parse_each scW scR ms cs stream [] l Hs D Hl PE).
Qed.

(* ---- (3) same classes as the writer ---- *)
Theorem stream_truncate_decoded sc ms stream k :
  c01_schema_ok sc = true ->
  Forall (fun m => c01_value_ok sc m = true) ms -> Forall (fun m => msg_small sc m = true) ms ->
  dump_stream sc ms = Ok stream ->
  exists r,
    loads sc (map ocls ms) (firstn k stream) = (map (norm_obj sc) (firstn (whole_frames sc ms k) ms), r) /\
    (if (k <? length stream)%nat
     then (exists e, r = Err e /\ e <> EFuel) /\ (whole_frames sc ms k < length ms)%nat
     else r = Ok [] /\ whole_frames sc ms k = length ms) /\
    Forall (fun m => same_message sc m (norm_obj sc m)) (firstn (whole_frames sc ms k) ms).
Proof.
  intros Hs Hv Hsm D.
  assert (PE : parse_each sc sc (map ocls ms) ms = (map (norm_obj sc) ms, true)).
  { apply parse_each_map. rewrite Forall_forall in *. intros m Hin. apply rt_read; auto. }
  destruct (stream_cut_total sc sc ms (map ocls ms) stream k _ Hsm D (map_length _ _) PE) as (r & EL & Hr).
  exists r. rewrite <- firstn_map. split; [exact EL|]. split; [exact Hr|].
  apply Forall_firstn. rewrite Forall_forall in *. intros m Hin. apply rt_same; auto.
Qed.

Theorem stream_truncate_roundtrip sc ms stream k :
  c01_schema_ok sc = true ->
  Forall (fun m => c01_value_ok sc m = true /\ deep nan_free (PMsg m) = true) ms ->
  Forall (fun m => msg_small sc m = true) ms ->
  dump_stream sc ms = Ok stream ->
  exists r,
    loads sc (map ocls ms) (firstn k stream) = (map (norm_obj sc) (firstn (whole_frames sc ms k) ms), r) /\
    (if (k <? length stream)%nat
     then (exists e, r = Err e /\ e <> EFuel) /\ (whole_frames sc ms k < length ms)%nat
     else r = Ok [] /\ whole_frames sc ms k = length ms) /\
    Forall (fun m => obj_eq sc m (norm_obj sc m) = true /\ obj_eq sc (norm_obj sc m) m = true /\
                     enc_obj sc (norm_obj sc m) = enc_obj sc m /\
                     (forall g, which_one_of (norm_obj sc m) g = which_one_of m g))
           (firstn (whole_frames sc ms k) ms).
Proof.
  intros Hs Hv Hsm D.
  assert (Hv' : Forall (fun m => c01_value_ok sc m = true) ms).
  { rewrite Forall_forall in *. intros m Hin. exact (proj1 (Hv m Hin)). }
  destruct (stream_truncate_decoded sc ms stream k Hs Hv' Hsm D) as (r & EL & Hr & Hsame).
  exists r. split; [exact EL|]. split; [exact Hr|].
  rewrite Forall_forall in *. intros m Hin. destruct (Hsame m Hin) as (Heq & He & _ & _ & Hw & _).
  destruct (Heq (proj2 (Hv m (In_firstn _ _ _ Hin)))) as (E1 & E2). repeat split; assumption.
Qed.

(* what [whole_frames] counts: the cut byte lies in the frame of the message that follows the whole ones *)
Theorem whole_frames_spec sc ms stream k :
  Forall (fun m => msg_small sc m = true) ms ->
  dump_stream sc ms = Ok stream -> (k < length stream)%nat ->
  exists ms1 m ms2 pre_s F,
    ms = ms1 ++ m :: ms2 /\ dump_stream sc ms1 = Ok pre_s /\ dump sc m true = Ok F /\
    (length pre_s <= k < length pre_s + length F)%nat /\ whole_frames sc ms k = length ms1.
Proof. apply cut_position. Qed.

(* ---- (3) for a reader older than the writer ---- *)
Theorem stream_older_truncate sn masks ms stream k :
  c01_schema_ok sn = true -> C08EvoDef.masks_ok sn masks = true ->
  Forall (fun m => c01_value_ok sn m = true) ms -> Forall (fun m => msg_small sn m = true) ms ->
  dump_stream sn ms = Ok stream ->
  exists mos r,
    Forall2 (older_view sn masks) ms mos /\
    loads (drop_fields masks sn) (map ocls ms) (firstn k stream) = (firstn (whole_frames sn ms k) mos, r) /\
    (if (k <? length stream)%nat
     then (exists e, r = Err e /\ e <> EFuel) /\ (whole_frames sn ms k < length ms)%nat
     else r = Ok [] /\ whole_frames sn ms k = length ms).
Proof.
  intros Hs Hmk Hv Hsm D.
  destruct (older_all sn masks ms Hs Hmk Hv Hsm) as (mos & Hos).
  pose proof (parse_each_forall2 sn (drop_fields masks sn) ms mos (view_reads sn masks ms mos Hos)) as PE.
  destruct (stream_cut_total sn (drop_fields masks sn) ms (map ocls ms) stream k mos Hsm D (map_length _ _) PE) as (r & EL & Hr).
  exists mos, r. split; [exact Hos|]. split; [exact EL | exact Hr].
Qed.
