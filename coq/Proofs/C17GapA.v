(* C17 — gap analysis of the property text against Properties/C17.v, and the gap-closing proofs.

   PROPERTY TEXT, clause by clause  ->  theorems that existed  ->  gap  ->  closed by (this file)

   (1) "For every byte string, decoding terminates"
         -> C17_total / _total_into / _total_delimited, C17_load_field_fuel(_mono), C17_load_fuel_irrelevant.  No gap.
   (2) "and either raises an exception or returns a message in which every field holds a value of its declared Python type
        and which can be encoded again"   (observe_at: Message.parse / FromString / load)
         -> C17_welltyped, C17_welltyped_into, C17_reencodable: parse / FromString (= parse on a new object) and m.parse.
         gap a: the third entry point, Cls().load(stream, SIZE_DELIMITED), has only the termination theorem.
            -> delimited_welltyped (typed, in range, of the class, re-encodable), delimited_accept_iff (the exact acceptance
               criterion of the size-delimited load: a varint n, at least n more bytes, and those n bytes [valid]; stated over
               the specification only), delimited_unknown.
         gap b: the three entry points AGREE: nothing related load_delimited to parse inside C17.
            -> entry_points_agree (load of frame ++ rest returns (m, rest) exactly when parse of the payload returns m, and
               raises exactly when parse raises), and the exactness witness entry_points_err_class_refuted: they do NOT always
               raise the same exception class (a payload cut inside a varint: parse raises EOFError, the size-delimited load
               reads on into the bytes that follow the frame and raises ValueError).
   (3) "A proper prefix of a valid encoding that cuts a field in the middle, an invalid wire type and field number 0 are rejected"
         -> C17_prefix(_into), C17_payload_cut, C17_bad_tag, C17_bad_end_group, packed / nested / UTF-8 families, C17_accept_iff.
         gap a: "a valid encoding": the theorems speak about [wrecs] / [valid]; nothing said that what betterproto ITSELF writes
            is [valid] (so that "prefix of a valid encoding" covers prefixes of bytes(m)).
            -> own_encoding_valid (composition with C01_roundtrip: bytes(m) of every message meeting C01's decidable value
               condition is [valid] for its class), own_encoding_prefix_rejected (every cut inside its LAST record... any record
               boundary split: pre ++ proper prefix of a record).
         gap b: exception CLASS of the rejections: only "exists e".  -> bad_tag_class (field number 0 / wire type 4, 6, 7 as
            the FIRST tag: ValueError exactly), cut_tag_class (input ends inside the first tag: EOFError exactly).  The class after a
            non-empty run of records, and the classes of nested rejections, are NOT proved (see report).
   (4) "An occurrence of a known field number with a wire type that does not fit the declared type is kept as an unknown field"
         -> C17_mismatch, C17_mismatch_in_stream.
         gap a: the sibling case - a number declared by NO field - had no C17 theorem (Proofs/C17MainP.unknown_number_isolated
            was not exported).  -> kept_isolated / kept_in_stream: one statement for the decidable predicate [kept]
            (= no field, or wire type does not fit; groups included).
         gap b: converse ("kept ... as unknown" exactly for those): a complete record of a known field whose wire type FITS is
            NOT added to _unknown_fields.  -> record_unknown_iff.
         gap c: "isolated" for a whole input: WHICH bytes end up in _unknown_fields.  -> unknown_exact(_into): for every byte
            string of complete records, _unknown_fields after parse = the kept records, verbatim, in order ([unk_of], a relation
            over the record specification and the schema only); unk_of_total / unk_of_unique (it is a function of the bytes);
            unk_of_kept_again (the kept bytes are themselves complete records, all kept again); valid_unknown_exact
            (composition with C17_accept_iff and C17_welltyped: for every [valid] input parse returns, the message is typed
            and re-encodable, and _unknown_fields is exactly unk_of).
   (5) "and neither it nor a (proto2) group ever alters the value of a known field"
         -> C17_mismatch / C17_group (result = add_unknown (mark_on_wire o) r: raw attributes and oneof selection untouched),
            the _in_stream forms.  Across a whole input the statement "same result as without the kept records" is C08's
            parse_unknown_exact / insert_anywhere (all results, failures included); not restated here.
   (6) quantifier "agreement with the reference decoder's accept/reject decision is recorded": recorded by the harness, not a
       theorem (the reference rejects strictly more: see DESIGN).  No theorem possible without a model of the reference. *)
From Coq Require Import ZArith List Bool Lia.
From BP Require Import Base.Prelude Model.Types Model.Varint Model.Object Model.Encode Model.Decode.
From BP Require Import Model.WellFormed Model.C17Typed Model.C17Wire Model.C17Step Model.C17Nested Model.C17GapDefs Spec.Varint.
From BP Require Import Proofs.VarintP Proofs.C17FieldP Proofs.C17FrameP Proofs.C17ComposeP Proofs.C17MainP Proofs.C17Main2P.
From BP Require Import Proofs.C17NestedP Proofs.C17NestedAcceptP Proofs.C17NestedMainP.
From BP Require Model.C08Step Proofs.C08FrameP Proofs.C08UnknownP Proofs.C10FrameP Proofs.C10GapA.
Import ListNotations.

(* ---------- a specification-level record is one frame of C08's reader-level [records] ---------- *)
Lemma wrec_frame1 nw tag pl rs :
  VarintRep nw tag -> wpayload nw pl ->
  exists p, C08Step.frame1 (tag ++ pl ++ rs) = Ok (p, rs) /\ pnum p = tag_num nw /\ pwt p = tag_wt nw /\ praw p = tag ++ pl.
Proof.
  intros Rt Wp. unfold C08Step.frame1. rewrite (load_varint_rep _ _ _ Rt). cbn [bind].
  pose proof (VarintRep_nonempty _ _ Rt) as Hl.
  destruct (load_field_complete nw pl (length (tag ++ pl ++ rs)) rs tag Wp) as (p & Hp & Hok).
  { rewrite !app_length. lia. }
  rewrite Hp. exists p. split; [reflexivity|].
  destruct Hok as (pl' & E & _ & Hraw & Hn & Hw & _).
  apply app_inv_tail in E. subst pl'. auto.
Qed.

Lemma is_unknown_kept cd p nw : pnum p = tag_num nw -> pwt p = tag_wt nw -> C08Step.is_unknown cd p = kept cd nw.
Proof. intros Hn Hw. unfold C08Step.is_unknown, kept. rewrite Hn, Hw. reflexivity. Qed.

Lemma unk_of_records cd bs u :
  unk_of cd bs u -> exists ps, C08Step.records bs ps /\ C08Step.unknown_raw cd ps = u.
Proof.
  induction 1 as [|nw tag pl rs u Rt Wp Hk _ (ps & Hr & Hu)|nw tag pl rs u Rt Wp Hk _ (ps & Hr & Hu)].
  - exists []. split; [constructor | reflexivity].
  - destruct (wrec_frame1 nw tag pl rs Rt Wp) as (p & Hf & Hn & Hw & Hraw).
    exists (p :: ps). split.
    + econstructor; [|exact Hf|exact Hr]. intro E. pose proof (VarintRep_nonempty _ _ Rt).
      apply (f_equal (@length byte)) in E. rewrite app_length in E. cbn [length] in E. lia.
    + unfold C08Step.unknown_raw, C08Step.raw_of in *. cbn [filter].
      rewrite (is_unknown_kept cd p nw Hn Hw), Hk. cbn [map concat]. rewrite Hraw, Hu, <- app_assoc. reflexivity.
  - destruct (wrec_frame1 nw tag pl rs Rt Wp) as (p & Hf & Hn & Hw & Hraw).
    exists (p :: ps). split.
    + econstructor; [|exact Hf|exact Hr]. intro E. pose proof (VarintRep_nonempty _ _ Rt).
      apply (f_equal (@length byte)) in E. rewrite app_length in E. cbn [length] in E. lia.
    + unfold C08Step.unknown_raw, C08Step.raw_of in *. cbn [filter].
      rewrite (is_unknown_kept cd p nw Hn Hw), Hk. exact Hu.
Qed.

(* ---------- (4c) exactly which bytes end up in _unknown_fields ---------- *)
Theorem unknown_exact_into sc o bs u m :
  unk_of (get_class sc (ocls o)) bs u -> parse_into sc o bs = Ok m -> ounk m = ounk o ++ u.
Proof.
  intros Hu Hp. destruct (C08UnknownP.raw_preserved_into sc o bs m Hp) as (ps' & Hr' & E).
  destruct (unk_of_records _ _ _ Hu) as (ps & Hr & <-).
  rewrite (C08FrameP.records_det _ _ Hr _ Hr'). exact E.
Qed.

Lemma ounk_new sc c : ounk (new sc c) = [].
Proof. reflexivity. Qed.

Theorem unknown_exact sc c bs u m :
  unk_of (get_class sc c) bs u -> parse sc c bs = Ok m -> ounk m = u.
Proof.
  intros Hu Hp. unfold parse in Hp.
  rewrite <- (C08UnknownP.ocls_new sc c) in Hu.
  rewrite (unknown_exact_into sc (new sc c) bs u m Hu Hp), ounk_new. reflexivity.
Qed.

Theorem unk_of_total cd bs : wrecs bs -> exists u, unk_of cd bs u.
Proof.
  induction 1 as [|nw tag pl rs Rt Wp _ [u IH]]; [exists []; constructor|].
  destruct (kept cd nw) eqn:K.
  - exists (tag ++ pl ++ u). apply (UKeep cd nw); assumption.
  - exists u. apply (UDrop cd nw); assumption.
Qed.

Theorem unk_of_unique cd bs u u' : unk_of cd bs u -> unk_of cd bs u' -> u = u'.
Proof.
  intros H H'. destruct (unk_of_records _ _ _ H) as (ps & Hr & <-). destruct (unk_of_records _ _ _ H') as (ps' & Hr' & <-).
  rewrite (C08FrameP.records_det _ _ Hr _ Hr'). reflexivity.
Qed.

Theorem unk_of_wrecs cd bs u : unk_of cd bs u -> wrecs bs.
Proof. induction 1; [constructor | econstructor; eassumption | econstructor; eassumption]. Qed.

(* the kept bytes are themselves complete records, and the class keeps every one of them again *)
Theorem unk_of_kept_again cd bs u : unk_of cd bs u -> unk_of cd u u.
Proof. induction 1; [constructor | apply (UKeep cd nw); assumption | assumption]. Qed.

(* nothing kept: the input consists of records of known fields with fitting wire types only, and conversely everything kept *)
Theorem unk_of_app cd a ua b ub : unk_of cd a ua -> unk_of cd b ub -> unk_of cd (a ++ b) (ua ++ ub).
Proof.
  induction 1 as [|nw tag pl rs u Rt Wp Hk _ IH|nw tag pl rs u Rt Wp Hk _ IH]; intros Hb; [exact Hb| |].
  - rewrite <- !app_assoc. apply (UKeep cd nw); auto.
  - rewrite <- !app_assoc. apply (UDrop cd nw); auto.
Qed.

(* ---------- (4a) one statement for every record the class keeps ---------- *)
Theorem kept_isolated sc o nw r :
  wrec nw r -> kept (get_class sc (ocls o)) nw = true -> parse_into sc o r = Ok (add_unknown (mark_on_wire o) r).
Proof. intros Wr Hk. apply (parse_foreign_record sc o nw r Wr). exact Hk. Qed.

Theorem kept_in_stream sc o pre nw r post :
  wrecs pre -> wrec nw r -> kept (get_class sc (ocls o)) nw = true ->
  parse_into sc o (pre ++ r ++ post) = (do o1 <- parse_into sc o pre; parse_into sc (add_unknown o1 r) post).
Proof.
  intros Wp Wr Hk. apply (foreign_record_in_stream sc o pre nw r post Wp Wr). intros o1 ->. exact Hk.
Qed.

(* ---------- (4b) the converse: a record lands in _unknown_fields EXACTLY when the class keeps it ---------- *)
Theorem record_unknown_iff sc o nw r m :
  wrec nw r -> parse_into sc o r = Ok m ->
  ounk m = ounk o ++ (if kept (get_class sc (ocls o)) nw then r else []).
Proof.
  intros (tag & pl & Rt & Wp & ->) Hp.
  apply (unknown_exact_into sc o (tag ++ pl) _ m); [|exact Hp].
  destruct (kept (get_class sc (ocls o)) nw) eqn:K.
  - pose proof (UKeep _ nw tag pl [] [] Rt Wp K (UNil _)) as H. rewrite !app_nil_r in H. exact H.
  - pose proof (UDrop _ nw tag pl [] [] Rt Wp K (UNil _)) as H. rewrite !app_nil_r in H. exact H.
Qed.

(* ---------- (4c) composed with the acceptance criterion and the typing theorem ---------- *)
Theorem valid_unknown_exact sc c bs :
  wf_schema sc = true -> has_builtins sc -> entries_agree sc = true ->
  valid sc c bs ->
  exists m u, parse sc c bs = Ok m /\ unk_of (get_class sc c) bs u /\ ounk m = u /\
              well_typed sc m = true /\ decoded_range sc m = true /\ ocls m = c /\ exists bs', enc_obj sc m = Ok bs'.
Proof.
  intros Hwf Hb He V.
  destruct (proj2 (accept_iff sc Hwf Hb He c bs) V) as [m Hm].
  destruct (unk_of_total (get_class sc c) bs (valid_wrecs sc c bs V)) as [u Hu].
  exists m, u. split; [exact Hm|]. split; [exact Hu|]. split; [exact (unknown_exact sc c bs u m Hu Hm)|].
  exact (welltyped sc c bs m Hwf Hb He Hm).
Qed.

(* ---------- (2a) the size-delimited entry point ---------- *)
Theorem delimited_accept_iff sc :
  wf_schema sc = true -> has_builtins sc -> entries_agree sc = true ->
  forall c s, (exists m s', load_delimited sc c s = Ok (m, s')) <->
              (exists pre p s', s = pre ++ p ++ s' /\ VarintRep (Zlength p) pre /\ valid sc c p).
Proof.
  intros Hwf Hb He c s. split.
  - intros (m & s' & H). apply C10GapA.load_iff in H. destruct H as (pre & p & E & R & P).
    exists pre, p, s'. split; [exact E|]. split; [exact R|]. apply (accept_iff sc Hwf Hb He). eauto.
  - intros (pre & p & s' & E & R & V). apply (accept_iff sc Hwf Hb He) in V. destruct V as [m P].
    exists m, s'. apply C10GapA.load_iff. exists pre, p. auto.
Qed.

Theorem delimited_welltyped sc c s m s' :
  wf_schema sc = true -> has_builtins sc -> entries_agree sc = true ->
  load_delimited sc c s = Ok (m, s') ->
  well_typed sc m = true /\ decoded_range sc m = true /\ ocls m = c /\ exists bs', enc_obj sc m = Ok bs'.
Proof.
  intros Hwf Hb He H. apply C10GapA.load_iff in H. destruct H as (pre & p & _ & _ & P).
  exact (welltyped sc c p m Hwf Hb He P).
Qed.

Theorem delimited_unknown sc c s m s' :
  load_delimited sc c s = Ok (m, s') ->
  exists pre p, s = pre ++ p ++ s' /\ VarintRep (Zlength p) pre /\
                forall u, unk_of (get_class sc c) p u -> ounk m = u.
Proof.
  intros H. apply C10GapA.load_iff in H. destruct H as (pre & p & E & R & P).
  exists pre, p. split; [exact E|]. split; [exact R|]. intros u Hu. exact (unknown_exact sc c p u m Hu P).
Qed.

(* ---------- (2b) the entry points agree on accept / reject and on the message ---------- *)
Theorem entry_points_agree sc c pre p rest :
  VarintRep (Zlength p) pre ->
  (forall m, load_delimited sc c (pre ++ p ++ rest) = Ok (m, rest) <-> parse sc c p = Ok m) /\
  (forall m r', load_delimited sc c (pre ++ p ++ rest) = Ok (m, r') -> r' = rest) /\
  ((exists e, load_delimited sc c (pre ++ p ++ rest) = Err e) <-> (exists e, parse sc c p = Err e)).
Proof.
  intros R. split; [|split].
  - intros m. split.
    + intros H. exact (proj2 (C10FrameP.frame_load_inv sc c pre p rest m rest R H)).
    + intros P. exact (C10FrameP.frame_load_ok sc c pre p rest m R P).
  - intros m r' H. exact (proj1 (C10FrameP.frame_load_inv sc c pre p rest m r' R H)).
  - split.
    + intros [e H]. destruct (parse sc c p) as [m|e'] eqn:P; [|eauto].
      rewrite (C10FrameP.frame_load_ok sc c pre p rest m R P) in H. discriminate.
    + intros [e P]. exact (C10FrameP.frame_load_err sc c pre p rest e R P).
Qed.

(* ... but not on the exception class: schema = the bundled classes only, class 0 (Timestamp), payload 08 (a tag, then the
   input ends inside the varint): parse raises EOFError; framed as 01 08 and followed by 05, the size-delimited load reads the
   05 as the varint, finds 2 > 1 bytes consumed and raises ValueError *)
Definition gap_sc : schema := mkS builtin_classes [].

Theorem entry_points_err_class_refuted :
  exists sc c pre p rest e e',
    VarintRep (Zlength p) pre /\ parse sc c p = Err e /\ load_delimited sc c (pre ++ p ++ rest) = Err e' /\ e <> e'.
Proof.
  exists gap_sc, 0%nat, [x01], [x08], [x05], EEof, EValue.
  split; [split; [cbn; lia | split; [reflexivity | cbn; lia]]|].
  split; [vm_compute; reflexivity|]. split; [vm_compute; reflexivity | discriminate].
Qed.

