(* CLONE of Proofs/C01Dict.v with norm_obj replaced by normu_obj (Model/C14UDef.v: every message keeps its unknown
   bytes) and Good by GoodU; see Proofs/C14UMain.v for what changes. *)
(* C01 layer 4f — map fields: every entry is written as one record holding a two-field Entry message;
   the decoder parses the entry, reads key and value back and merges them into the dict, which stays
   in insertion order because a Python dict has each key once. *)
From Coq Require Import ZArith List Bool Lia ZifyBool.
From BP Require Import Base.Prelude Model.Types Model.Varint Model.Scalar Model.Float Model.Utf8.
From BP Require Import Model.Object Model.Eq Model.TimeCore Model.Encode Model.Decode Model.WellFormed Model.C01Def Model.C14UDef.
From BP Require Import Proofs.C14UUnfold.
From BP Require Import gen.Tables Proofs.BytesP Proofs.LenP Proofs.C01Scalar Proofs.C01Frame Proofs.C01Step Proofs.C01Apply
     Proofs.C01Elem Proofs.C01Field Proofs.C01Builtin Proofs.C01Unfold Proofs.C14UValue Proofs.C14USlot Proofs.C14USlot2.

Lemma dict_set_fresh sc acc k v :
  (forall kv, In kv acc -> pv_eq sc (fst kv) k = false) -> dict_set acc sc k v = acc ++ [(k, v)].
Proof.
  unfold dict_set. induction acc as [|[k' v'] acc IH]; intros H; [reflexivity|].
  pose proof (H (k', v') (or_introl eq_refl)) as Hk. cbn [fst] in Hk.
  cbn -[pv_eq]. rewrite Hk. f_equal. apply IH. intros kv Hin. apply H. right. exact Hin.
Qed.

Lemma dict_fix_forall (P : pv -> pv -> bool) d :
  (fix all (d : list (pv * pv)) : bool :=
     match d with [] => true | (k, y) :: d' => P k y && all d' end) d = true ->
  Forall (fun kv => P (fst kv) (snd kv) = true) d.
Proof.
  induction d as [|[k y] d IH]; intros H; [constructor|]. apply andb_true_iff in H as [H1 H2]. constructor; auto.
Qed.

Section Dict.
  Variables (sc : schema) (fuel' : nat) (c : nat).
  Hypothesis Hbi : builtins_exact sc = true.
  Let cd := get_class sc c.
  Let fs := cfields cd.
  Let nc := length (classes sc).
  Let ne := length (enums sc).

  Variables (cur : list (option nat)) (i : nat) (f : fdesc).
  Hypothesis Hf : nth_error fs i = Some f.
  Hypothesis Hnd : nodup_z (map fnum fs) = true.
  Hypothesis Hwf : wf_field sc (cngroups cd) f = true.
  Hypothesis Hent : entry_hints_ok sc f = true.
  Let sel := group_selects cur f i.

  Variables (rawP : list pv) (unk : list byte) (curP : list (option nat)).
  Hypothesis Hfresh : nth i rawP PPlaceholder = fresh_of f.
  Hypothesis Hlen : (i < length rawP)%nat.

  Variables (pk pv' : pyty).
  Hypothesis Hh : fhint f = HDict pk pv'.

  Let msgf := msg_bytes (enc_obj sc).

  (* everything wf_field / entry_class_ok / entry_hints_ok say about this field *)
  Lemma dict_facts :
    fopt f = false /\ fwraps f = None /\ fgroup f = None /\ fty f = TMap /\ sel = None /\
    default_of sc f = PDict [] /\ fresh_of f = PPlaceholder /\
    exists kt vt fk fv,
      fmap f = Some (kt, vt) /\ map_key_ok kt = true /\ ptype_eqb vt TMap = false /\
      pyty_fits nc ne kt pk = true /\ pyty_fits nc ne vt pv' = true /\
      cfields (get_class sc (fentry f)) = [fk; fv] /\
      fnum fk = 1 /\ fty fk = kt /\ fnum fv = 2 /\ fty fv = vt /\
      fgroup fk = None /\ fgroup fv = None /\ fopt fk = false /\ fopt fv = false /\
      fwraps fk = None /\ fwraps fv = None /\ fhint fk = HPlain pk /\ fhint fv = HPlain pv'.
  Proof.
    destruct (wf_dict _ _ _ _ _ Hwf Hh) as (Hfo & Hfw & Hg & Hty & kt & vt & Hm & Hk & Hv & Hfk & Hfv & Hec).
    split; [exact Hfo|]. split; [exact Hfw|]. split; [exact Hg|]. split; [exact Hty|].
    split; [apply (group_none_sel cur i f); exact Hg|].
    split; [unfold default_of; rewrite Hh; reflexivity|].
    split; [unfold fresh_of; rewrite Hfo; reflexivity|].
    exists kt, vt. unfold entry_class_ok in Hec. rewrite Hm, Hh in Hec.
    unfold entry_hints_ok in Hent. rewrite Hh in Hent.
    destruct (cfields (get_class sc (fentry f))) as [|fk [|fv [|? ?]]]; try discriminate Hec.
    exists fk, fv. split_andb Hec.
    repeat match goal with H : negb _ = true |- _ => apply negb_true in H end.
    repeat match goal with H : hint_eqb _ _ = true |- _ => apply hint_eqb_eq in H end.
    repeat match goal with H : ptype_eqb _ _ = true |- _ => apply ptype_eqb_eq in H end.
    repeat match goal with H : (_ =? _) = true |- _ => apply Z.eqb_eq in H end.
    repeat split; auto;
      match goal with
      | H : is_some' ?o = false |- ?o = None => destruct o; [discriminate H | reflexivity]
      end.
  Qed.

  Lemma key_scalar kt : map_key_ok kt = true -> tmem kt scalar_ptypes = true /\ ptype_eqb kt TMap = false /\
                                                 (forall v, norm_scalar kt v = v).
  Proof. destruct kt; intros H; try discriminate H; repeat split; intros v; destruct v; reflexivity. Qed.

  Lemma scalar_value_real t v : scalar_in_range t v = true -> norm_scalar t v <> PPlaceholder.
  Proof. destruct t, v; cbn; intros H; try discriminate H; discriminate. Qed.

  Lemma elem_value_real t p y : elem_in_range sc t p y = true -> norm_elem (normu_obj sc) t y <> PPlaceholder.
  Proof.
    destruct y; cbn [norm_elem]; intros H; try (destruct t; discriminate); try discriminate.
    destruct p; try discriminate H; destruct t; discriminate H.
  Qed.

  (* one entry: the two-field Entry message *)
  Lemma entry_parse kt vt k y :
    fmap f = Some (kt, vt) -> scalar_in_range kt k = true -> elem_in_range sc vt pv' y = true -> elemP (GoodU sc) y ->
    exists sk sv, serialize_with msgf 1 kt k false None = Ok sk /\ serialize_with msgf 2 vt y false None = Ok sv /\
      (small (sk ++ sv) -> forall fuel, (length (sk ++ sv) < fuel)%nat ->
         exists eo e0 e1, parse_new fuel sc (fentry f) (sk ++ sv) = Ok eo /\ getattr sc eo 0 = (e0, Ok k) /\
                          getattr sc eo 1 = (e1, Ok (norm_map_value sc (normu_obj sc) vt y))).
  Proof.
    intros Hm Hk Hy Gy.
    destruct dict_facts as (_ & _ & _ & _ & _ & _ & _ & kt' & vt' & fk & fv & Hm' & Hkok & Hvmap & Hfk & Hfv & Hcf &
                            Hn1 & Ht1 & Hn2 & Ht2 & Hg1 & Hg2 & Ho1 & Ho2 & Hw1 & Hw2 & Hh1 & Hh2).
    rewrite Hm in Hm'. injection Hm' as <- <-.
    destruct (key_scalar kt Hkok) as (Hks & Hkmap & Hkn).
    set (ec := fentry f) in *.
    assert (Hnd' : nodup_z (map fnum (cfields (get_class sc ec))) = true) by (rewrite Hcf; cbn [map]; rewrite Hn1, Hn2; reflexivity).
    assert (Hf0 : nth_error (cfields (get_class sc ec)) 0 = Some fk) by (rewrite Hcf; reflexivity).
    assert (Hf1 : nth_error (cfields (get_class sc ec)) 1 = Some fv) by (rewrite Hcf; reflexivity).
    assert (Hnum1 : 1 <= fnum fk < 2 ^ 29) by (rewrite Hn1; change (2 ^ 29) with 536870912; lia).
    assert (Hnum2 : 1 <= fnum fv < 2 ^ 29) by (rewrite Hn2; change (2 ^ 29) with 536870912; lia).
    assert (Hmap1 : ptype_eqb (fty fk) TMap = false) by (rewrite Ht1; exact Hkmap).
    assert (Hmap2 : ptype_eqb (fty fv) TMap = false) by (rewrite Ht2; exact Hvmap).
    assert (Hnl1 : forall l, default_of sc fk <> PList l) by (intros l; unfold default_of; rewrite Hh1; destruct pk; discriminate).
    assert (Hnl2 : forall l, default_of sc fv <> PList l) by (intros l; unfold default_of; rewrite Hh2; destruct pv'; discriminate).
    assert (Hel1 : forall fu, elem_enc msgf fu sc (fty fk) (hint_elem (fhint fk)) (fwraps fk) k k (scalar_empty k)).
    { intros fu. rewrite Ht1, Hh1, Hw1. cbn [hint_elem]. rewrite <- (Hkn k) at 2. apply elem_scalar; assumption. }
    assert (Hel2 : forall fu, elem_enc msgf fu sc (fty fv) (hint_elem (fhint fv)) (fwraps fv) y
                                       (norm_elem (normu_obj sc) vt y) (elem_empty sc y)).
    { intros fu. rewrite Ht2, Hh2, Hw2. cbn [hint_elem]. eapply elem_any; eauto. }
    assert (Hmk1 : marked sc k = k) by (destruct kt, k; try discriminate Hk; reflexivity).
    assert (Hmk2 : marked sc (norm_elem (normu_obj sc) vt y) = norm_elem (normu_obj sc) vt y).
    { destruct y; try (destruct vt; reflexivity); try (destruct pv'; try discriminate Hy; destruct vt; discriminate Hy).
      apply marked_norm_elem. reflexivity. }
    set (curE := repeat (@None nat) (cngroups (get_class sc ec))).
    (* the two records, at any fuel *)
    assert (Hrec1 : forall fu raw, (nth 0 raw PPlaceholder = PPlaceholder) ->
      exists sk, serialize_with msgf 1 kt k false None = Ok sk /\ (sk = [] -> scalar_empty k) /\
        (small sk -> (length sk <= fu)%nat ->
         feeds fu sc (get_class sc ec) (Obj ec raw true [] curE) sk
               (if is_nil sk then Obj ec raw true [] curE else Obj ec (set_nth 0 k raw) true [] curE))).
    { intros fu raw Hx.
      destruct (feeds_singular msgf fu sc ec raw [] curE 0%nat fk k k (scalar_empty k) Hf0 Hnd' Hnum1 Hmap1 Hnl1
                  (or_introl Hx) ltac:(intros g Hg; congruence) (Hel1 fu) Hmk1 false) as (sk & Es & He & _ & Hfe).
      rewrite Hn1, Ht1, Hw1 in Es. exists sk. split; [exact Es|]. split; [intros Hs; apply He; exact Hs|].
      unfold cur_after in Hfe. rewrite Hg1 in Hfe. exact Hfe. }
    assert (Hrec2 : forall fu raw, (nth 1 raw PPlaceholder = PPlaceholder) ->
      exists sv, serialize_with msgf 2 vt y false None = Ok sv /\ (sv = [] -> elem_empty sc y) /\
        (small sv -> (length sv <= fu)%nat ->
         feeds fu sc (get_class sc ec) (Obj ec raw true [] curE) sv
               (if is_nil sv then Obj ec raw true [] curE
                else Obj ec (set_nth 1 (norm_elem (normu_obj sc) vt y) raw) true [] curE))).
    { intros fu raw Hx.
      destruct (feeds_singular msgf fu sc ec raw [] curE 1%nat fv y _ (elem_empty sc y) Hf1 Hnd' Hnum2 Hmap2 Hnl2
                  (or_introl Hx) ltac:(intros g Hg; congruence) (Hel2 fu) Hmk2 false) as (sv & Es & He & _ & Hfe).
      rewrite Hn2, Ht2, Hw2 in Es. exists sv. split; [exact Es|]. split; [intros Hs; apply He; exact Hs|].
      unfold cur_after in Hfe. rewrite Hg2 in Hfe. exact Hfe. }
    destruct (Hrec1 0%nat [PPlaceholder; PPlaceholder] eq_refl) as (sk & Esk & Hek & _).
    destruct (Hrec2 0%nat [PPlaceholder; PPlaceholder] eq_refl) as (sv & Esv & Hev & _).
    exists sk, sv. split; [exact Esk|]. split; [exact Esv|].
    intros Hsm fuel Hfuel. destruct fuel as [|fu]; [lia|]. rewrite app_length in Hfuel.
    destruct (Hrec1 fu [PPlaceholder; PPlaceholder] eq_refl) as (sk' & Esk' & _ & F1).
    rewrite Esk in Esk'. injection Esk' as <-.
    specialize (F1 (small_app_l _ _ Hsm) ltac:(lia)).
    set (raw1 := if is_nil sk then [PPlaceholder; PPlaceholder] else set_nth 0 k [PPlaceholder; PPlaceholder]).
    assert (Hx1 : nth 1 raw1 PPlaceholder = PPlaceholder) by (unfold raw1; destruct (is_nil sk); reflexivity).
    destruct (Hrec2 fu raw1 Hx1) as (sv' & Esv' & _ & F2).
    rewrite Esv in Esv'. injection Esv' as <-.
    specialize (F2 (small_app_r _ _ Hsm) ltac:(lia)).
    set (raw2 := if is_nil sv then raw1 else set_nth 1 (norm_elem (normu_obj sc) vt y) raw1).
    assert (Hfeed : feeds fu sc (get_class sc ec) (Obj ec [PPlaceholder; PPlaceholder] true [] curE) (sk ++ sv)
                          (Obj ec raw2 true [] curE)).
    { apply (feeds_app fu sc (get_class sc ec) _ (Obj ec raw1 true [] curE) _ sk sv).
      - eapply feeds_eq; [exact F1|]. unfold raw1. destruct (is_nil sk); reflexivity.
      - eapply feeds_eq; [exact F2|]. unfold raw2. destruct (is_nil sv); reflexivity. }
    (* key and value read back from the entry *)
    assert (G0 : exists e0, getattr sc (Obj ec raw2 true [] curE) 0 = (e0, Ok k)).
    { unfold getattr. rewrite Hcf. cbn [nth_error]. unfold group_selects. rewrite Hg1.
      assert (Hn0 : nth 0 raw2 PPlaceholder = if is_nil sk then PPlaceholder else k)
        by (unfold raw2, raw1; destruct (is_nil sv), (is_nil sk); reflexivity).
      rewrite Hn0. destruct sk as [|s0 sk']; cbn [is_nil].
      - (* key not written: it is the default *)
        assert (Hd : default_of sc fk = k).
        { destruct (Hek eq_refl) as [-> | ->].
          - unfold default_of. rewrite Hh1. destruct kt; try discriminate Hk; destruct pk; try discriminate Hfk; reflexivity.
          - destruct kt; try discriminate Hk; discriminate Hkok. }
        rewrite Hd. eauto.
      - pose proof (scalar_value_real kt k Hk) as Hreal. rewrite Hkn in Hreal.
        destruct k; try congruence; eauto. }
    assert (G1 : exists e1, getattr sc (Obj ec raw2 true [] curE) 1 = (e1, Ok (norm_map_value sc (normu_obj sc) vt y))).
    { unfold getattr. rewrite Hcf. cbn [nth_error]. unfold group_selects. rewrite Hg2.
      assert (Hn1' : nth 1 raw2 PPlaceholder = if is_nil sv then PPlaceholder else norm_elem (normu_obj sc) vt y)
        by (unfold raw2, raw1; destruct (is_nil sv), (is_nil sk); reflexivity).
      rewrite Hn1'. destruct sv as [|s0 sv']; cbn [is_nil].
      - (* value not written: it reads as the default *)
        assert (Hd : default_of sc fv = norm_map_value sc (normu_obj sc) vt y).
        { pose proof (Hev eq_refl) as He. unfold default_of. rewrite Hh2.
          destruct y; cbn [elem_empty] in He; try contradiction.
          - destruct utf8; [|contradiction]. destruct vt, pv'; try discriminate Hfv; try discriminate Hy; reflexivity.
          - destruct b; [|contradiction]. destruct vt, pv'; try discriminate Hfv; try discriminate Hy; reflexivity.
          - subst us. destruct vt, pv'; try discriminate Hfv; try discriminate Hy; reflexivity.
          - subst us. destruct vt, pv'; try discriminate Hfv; try discriminate Hy; reflexivity.
          - destruct pv'; try (destruct vt; try discriminate Hfv; destruct o; discriminate Hy).
            rewrite elem_in_range_msg in Hy. apply andb_true_iff in Hy as [Hc _]. apply Nat.eqb_eq in Hc. subst c0.
            cbn [norm_map_value]. rewrite He. reflexivity. }
        rewrite Hd. eauto.
      - assert (Hv : norm_elem (normu_obj sc) vt y = norm_map_value sc (normu_obj sc) vt y).
        { destruct y; try reflexivity. cbn [norm_elem norm_map_value].
          destruct (enc_obj sc o) as [[|b0 bs0]|e] eqn:Eo; try reflexivity.
          (* an empty sub-message would not have been written *)
          exfalso.
          assert (Hvt : vt = TMessage) by (destruct pv'; try (destruct vt; try discriminate Hfv; destruct o; discriminate Hy);
                                            destruct vt; try discriminate Hfv; reflexivity).
          rewrite Hvt in Esv.
          destruct (ser_len2 msgf 2 TMessage (PMsg o) false None [] eq_refl ltac:(change (2 ^ 29) with 536870912; lia))
            as (bs & Es & _ & Hnil & _).
          { unfold preprocess_with. cbn [tmem existsb ptype_eqb ptype_tag Z.eqb orb FIXED_TYPES]. unfold msgf, msg_bytes. exact Eo. }
          rewrite Esv in Es. injection Es as <-. specialize (Hnil eq_refl eq_refl eq_refl). discriminate Hnil. }
        rewrite <- Hv. pose proof (elem_value_real vt pv' y Hy) as Hreal.
        destruct (norm_elem (normu_obj sc) vt y); try congruence; eauto. }
    destruct G0 as (e0 & G0). destruct G1 as (e1 & G1).
    exists (Obj ec raw2 true [] curE), e0, e1. split; [|split; assumption].
    unfold parse_new. rewrite new_unfold, Hcf. cbn [map]. rewrite Ho1, Ho2. fold curE.
    rewrite (feeds_load fu sc ec [PPlaceholder; PPlaceholder] false [] curE _ _ Hfeed). reflexivity.
  Qed.

  Definition entries_bytes (kt vt : ptype) : list (pv * pv) -> result (list byte) :=
    fix entries (kvs : list (pv * pv)) : result (list byte) :=
      match kvs with
      | [] => Ok []
      | (k, v') :: r =>
          do sk <- serialize_with msgf 1 kt k false None;
          do sv <- serialize_with msgf 2 vt v' false None;
          do e <- serialize_with msgf (fnum f) (fty f) (PBytes (sk ++ sv)) true None;
          do rest <- entries r;
          Ok (e ++ rest)
      end.

  Lemma entries_bytes_cons kt vt k v' r :
    entries_bytes kt vt ((k, v') :: r) =
    (do sk <- serialize_with msgf 1 kt k false None;
     do sv <- serialize_with msgf 2 vt v' false None;
     do e <- serialize_with msgf (fnum f) (fty f) (PBytes (sk ++ sv)) true None;
     do rest <- entries_bytes kt vt r;
     Ok (e ++ rest)).
  Proof. reflexivity. Qed.

  Definition norm_entry (vt : ptype) (kv : pv * pv) : pv * pv :=
    (fst kv, norm_map_value sc (normu_obj sc) vt (snd kv)).

  Lemma dict_entries kt vt d : forall acc rawQ,
    fmap f = Some (kt, vt) ->
    ((nth i rawQ PPlaceholder = PPlaceholder /\ acc = []) \/ nth i rawQ PPlaceholder = PDict acc) ->
    (i < length rawQ)%nat ->
    (forall kv kv2, In kv acc -> In kv2 d -> pv_eq sc (fst kv) (fst kv2) = false) ->
    keys_nodup sc d = true ->
    Forall (fun kv => scalar_in_range kt (fst kv) = true /\ elem_in_range sc vt pv' (snd kv) = true) d ->
    Forall (fun kv => elemP (GoodU sc) (snd kv)) d ->
    exists bs, entries_bytes kt vt d = Ok bs /\ (d <> [] -> bs <> []) /\
      (small bs -> (length bs <= fuel')%nat ->
       feeds fuel' sc cd (Obj c rawQ true unk curP) bs
             (Obj c (match d with
                     | [] => rawQ
                     | _ => set_nth i (PDict (acc ++ map (norm_entry vt) d)) rawQ
                     end) true unk curP)).
  Proof.
    destruct dict_facts as (Hfo & Hfw & Hg & Hty & Hsel & Hdef & _).
    induction d as [|[k y] d IH]; intros acc rawQ Hm Hslot HlenQ Hacc Hnod Hin HGs.
    { exists []. split; [reflexivity|]. split; [congruence|]. intros _ _. apply feeds_nil. }
    inversion Hin as [|? ? [Hk Hy] Hin']; subst. inversion HGs as [|? ? Gy HGs']; subst. cbn [fst snd] in *.
    cbn [keys_nodup] in Hnod. apply andb_true_iff in Hnod as [Hfreshk Hnod].
    destruct (entry_parse kt vt k y Hm Hk Hy Gy) as (sk & sv & Esk & Esv & Hparse).
    destruct (ser_len2 msgf (fnum f) (fty f) (PBytes (sk ++ sv)) true None (sk ++ sv)) as (e & Ee & _ & _ & Hne & Hrd).
    { rewrite Hty. reflexivity. } { apply (wf_field_num _ _ _ Hwf). } { rewrite Hty. reflexivity. }
    specialize (Hne (or_intror (or_introl eq_refl))).
    set (v' := norm_map_value sc (normu_obj sc) vt y).
    set (rawQ' := set_nth i (PDict (acc ++ [(k, v')])) rawQ).
    destruct (IH (acc ++ [(k, v')]) rawQ') as (b2 & E2 & Hne2 & F2); auto.
    { right. unfold rawQ'. apply nth_set_nth_same. exact HlenQ. }
    { unfold rawQ'. rewrite set_nth_length. exact HlenQ. }
    { intros kv kv2 Hi1 Hi2. apply in_app_or in Hi1 as [Hi1|[<-|[]]].
      - apply Hacc; [exact Hi1 | right; exact Hi2].
      - cbn [fst]. apply negb_true_iff in Hfreshk.
        destruct (pv_eq sc k (fst kv2)) eqn:E; [|reflexivity].
        assert (existsb (fun kv => pv_eq sc k (fst kv)) d = true) by (apply existsb_exists; exists kv2; auto). congruence. }
    rewrite entries_bytes_cons, Esk, Esv. cbn [bind]. rewrite Ee. cbn [bind]. rewrite E2. cbn [bind].
    exists (e ++ b2). split; [reflexivity|]. split; [intros _; apply app_nonempty_l; exact Hne|].
    intros Hsm Hl. rewrite app_length in Hl.
    destruct (Hrd Hne (small_app_l _ _ Hsm)) as (Rd & Hlp).
    assert (Hsp : small (sk ++ sv)).
    { pose proof (small_app_l _ _ Hsm) as H1. unfold small, Zlength in *. lia. }
    destruct (Hparse Hsp fuel' ltac:(lia)) as (eo & e0 & e1 & Pe & G0 & G1).
    eapply feeds_app.
    - eapply feeds_one; [exact Rd|].
      assert (Hn' : field_by_number (get_class sc c) (pnum (mkP (fnum f) 2 0 (sk ++ sv) e)) = Some (i, f))
        by (apply field_by_number_unique; assumption).
      assert (Hfit' : wire_type_fits f (pwt (mkP (fnum f) 2 0 (sk ++ sv) e)) = true).
      { unfold wire_type_fits. cbn [pwt]. rewrite Hty. reflexivity. }
      assert (Hval : decode_value fuel' sc f (mkP (fnum f) 2 0 (sk ++ sv) e) = Ok (PMsg eo)).
      { unfold decode_value. cbn [pwt pbytes]. rewrite Hty. cbn [tmem existsb ptype_eqb ptype_tag Z.eqb orb andb PACKED_TYPES].
        change (2 =? WIRE_LEN_DELIM) with true. change (2 =? WIRE_VARINT) with false.
        change (2 =? WIRE_FIXED_32) with false. change (2 =? WIRE_FIXED_64) with false. cbv iota. cbn [andb orb].
        rewrite Pe. reflexivity. }
      assert (Hmapt : ptype_eqb (fty f) TMap = true) by (rewrite Hty; reflexivity).
      exact (step_map fuel' sc c rawQ unk curP i f _ eo e0 e1 k v' acc Hf Hn' Hfit' Hval Hmapt Hg Hdef Hslot G0 G1).
    - rewrite dict_set_fresh.
      2:{ intros kv Hi. apply (Hacc kv (k, y) Hi). left. reflexivity. }
      fold rawQ'. specialize (F2 (small_app_r _ _ Hsm) ltac:(lia)).
      eapply feeds_eq; [exact F2|].
      destruct d as [|kv2 d]; [reflexivity|].
      unfold rawQ'. rewrite set_nth_twice. cbn [map]. rewrite <- app_assoc. reflexivity.
  Qed.

  (* the whole map slot *)
  Lemma slot_dict d :
    slot_in_range sc f (PDict d) = true -> keys_nodup sc d = true ->
    Forall (fun kv => elemP (GoodU sc) (snd kv)) d ->
    slot_goal sc fuel' c cur i f rawP unk curP (PDict d).
  Proof.
    intros Hr Hnod HG.
    destruct dict_facts as (Hfo & Hfw & Hg & Hty & Hsel & Hdef & Hfr & kt & vt & fk & fv & Hm & _).
    assert (Hin : Forall (fun kv => scalar_in_range kt (fst kv) = true /\ elem_in_range sc vt pv' (snd kv) = true) d).
    { unfold slot_in_range in Hr. rewrite Hh, Hm in Hr.
      apply (dict_fix_forall (fun k y => scalar_in_range kt k && elem_in_range sc vt pv' y)) in Hr.
      eapply Forall_impl; [|exact Hr]. intros kv H. apply andb_true_iff in H. exact H. }
    assert (Hemit : enc_slot sc cur i f (PDict d) = emit_field (enc_obj sc) sc f None (PDict d))
      by (unfold enc_slot; fold sel; rewrite Hsel; reflexivity).
    destruct d as [|kv0 d'].
    { apply slot_skipped; auto.
      - rewrite Hemit. unfold emit_field. cbn [is_default]. rewrite Hh, Hg, Hfo. reflexivity.
      - right. right. cbn [is_default]. rewrite Hh. reflexivity.
      - unfold norm_slot. fold sel. rewrite Hsel. reflexivity.
      - unfold cur_sel. fold sel. rewrite Hsel. reflexivity. }
    set (d := kv0 :: d') in *.
    assert (Hnorm : norm_slot sc (normu_obj sc) f sel (PDict d) = PDict (map (norm_entry vt) d))
      by (unfold norm_slot; rewrite Hsel, Hm; reflexivity).
    assert (Hcur : cur_sel sel f i curP = curP) by (unfold cur_sel; rewrite Hsel; reflexivity).
    assert (Hemit2 : emit_field (enc_obj sc) sc f None (PDict d) = entries_bytes kt vt d).
    { unfold emit_field. cbn [is_default]. rewrite Hh. cbn [andb]. rewrite Hm. reflexivity. }
    unfold slot_goal. fold sel. rewrite Hnorm, Hcur, Hemit, Hemit2.
    destruct (dict_entries kt vt d [] rawP Hm) as (bs & Eb & Hne & Hfeed); auto.
    { left. split; [rewrite Hfresh; exact Hfr | reflexivity]. }
    { intros kv kv2 []. }
    exists bs. split; [exact Eb|]. split; [intros Hb; exfalso; apply Hne; [discriminate | exact Hb]|].
    exact Hfeed.
  Qed.
End Dict.
