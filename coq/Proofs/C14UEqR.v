(* CLONE of Proofs/C14PickleEq.v with norm_obj replaced by normu_obj (Model/C14UDef.v: every message keeps its unknown
   bytes), Good by GoodU, c01_value_ok by c14u_value_ok. *)
(* C14 / pickle, part 1 - the OTHER operand order of the C01 equality: the decoded message, as the LEFT operand of
   Message.__eq__, compares equal to the original: obj_eq (normu_obj m) m = true (C01Eq.v proves obj_eq m (normu_obj m);
   Message.__eq__ is not symmetric in general - dict comparison walks the left operand and looks keys up in the right
   one - so this is a proof of its own, mirroring C01Eq.v slot by slot). *)
From Coq Require Import ZArith List Bool Lia ZifyBool.
From BP Require Import Base.Prelude Model.Types Model.Varint Model.Scalar Model.Float Model.Utf8.
From BP Require Import Model.Object Model.Eq Model.TimeCore Model.Encode Model.Decode Model.WellFormed Model.C01Def Model.C14UDef.
From BP Require Import Proofs.C14UUnfold.
From BP Require Import gen.Tables Proofs.BytesP Proofs.LenP Proofs.C01Scalar Proofs.C01Frame Proofs.C01Step Proofs.C01Apply
     Proofs.C01Elem Proofs.C01Field Proofs.C01Builtin Proofs.C01Unfold Proofs.C14UValue Proofs.C14USlot Proofs.C14USlot2
     Proofs.C14UDict Proofs.C14UMsg Proofs.C14UMain Proofs.C14UStable Proofs.C14UEq.

(* a scalar's decoded form and the scalar: equal, or both NaN *)
Lemma scalar_eq_norm_r sc t v :
  scalar_in_range t v = true ->
  pv_eq sc (norm_scalar t v) v = true \/ (pv_is_nan (norm_scalar t v) = true /\ pv_is_nan v = true).
Proof.
  intros Hr. destruct v as [| |z|b|bits|s|b|us|us|l|d|o]; try (destruct t; discriminate Hr).
  - left. replace (norm_scalar t (PInt z)) with (PInt z) by (destruct t; reflexivity). cbn. apply Z.eqb_refl.
  - left. replace (norm_scalar t (PBool b)) with (PBool b) by (destruct t; reflexivity). cbn. destruct b; reflexivity.
  - destruct (f64_is_nan bits) eqn:En.
    + right. split; [|exact En]. destruct t; try discriminate Hr; cbn [norm_scalar pv_is_nan]; [|exact En].
      destruct (f32_facts bits Hr) as (w & _ & _ & Hn & _ & [Hw | [_ N2]]); rewrite Hn; [rewrite Hw; exact En | exact N2].
    + left. destruct t; try discriminate Hr; cbn [norm_scalar pv_eq]; [|apply f64_eq_refl; exact En].
      destruct (f32_facts bits Hr) as (w & _ & _ & Hn & _ & [Hw | [N1 _]]); [|congruence].
      rewrite Hn, Hw. apply f64_eq_refl. exact En.
  - left. replace (norm_scalar t (PStr s)) with (PStr s) by (destruct t; reflexivity). cbn. apply bytes_eqb_refl.
  - left. replace (norm_scalar t (PBytes b)) with (PBytes b) by (destruct t; reflexivity). cbn. apply bytes_eqb_refl.
Qed.

Section EqProofR.
  Variable sc : schema.
  Hypothesis Hsc : c01_schema_ok sc = true.

  Definition EqOkR (o : obj) : Prop := obj_eq sc (normu_obj sc o) o = true.

  Lemma elem_eq_norm_r t p y :
    elem_in_range sc t p y = true -> elemP EqOkR y ->
    pv_eq sc (norm_elem (normu_obj sc) t y) y = true \/
    (pv_is_nan (norm_elem (normu_obj sc) t y) = true /\ pv_is_nan y = true).
  Proof.
    intros Hr HE. destruct y as [| |z|b|bits|s|b|us|us|l|d|o].
    1,2,10,11: (destruct p; try discriminate Hr; destruct t; discriminate Hr).
    1,2,3,4,5: (cbn [norm_elem]; apply scalar_eq_norm_r;
                destruct p; try discriminate Hr; try exact Hr; destruct t; discriminate Hr).
    - left. cbn [norm_elem]. replace (norm_scalar t (PDatetime us)) with (PDatetime us) by (destruct t; reflexivity).
      cbn. apply Z.eqb_refl.
    - left. cbn [norm_elem]. replace (norm_scalar t (PTimedelta us)) with (PTimedelta us) by (destruct t; reflexivity).
      cbn. apply Z.eqb_refl.
    - left. cbn [norm_elem]. rewrite pv_eq_msg. exact HE.
  Qed.

  (* the decoded form of a non-NaN element is not a NaN either *)
  Lemma norm_elem_not_nan t p y :
    elem_in_range sc t p y = true -> pv_is_nan y = false -> pv_is_nan (norm_elem (normu_obj sc) t y) = false.
  Proof.
    intros Hr Hn. destruct y as [| |z|b|bits|s|b|us|us|l|d|o]; try (destruct t; reflexivity); try reflexivity.
    cbn [norm_elem]. cbn [pv_is_nan] in Hn.
    assert (Hr' : scalar_in_range t (PFloat bits) = true)
      by (destruct p; try discriminate Hr; try exact Hr; destruct t; discriminate Hr).
    destruct t; try discriminate Hr'; cbn [norm_scalar pv_is_nan]; [|exact Hn].
    destruct (f32_facts bits Hr') as (w & _ & _ & Hw & _ & [Hx | [N1 _]]); [|congruence].
    rewrite Hw, Hx. exact Hn.
  Qed.

  Lemma list_eq_norm_r t p l :
    Forall (fun y => elem_in_range sc t p y = true) l -> Forall (elemP EqOkR) l ->
    forallb (fun y => negb (pv_is_nan y)) l = true ->
    list_eq sc (map (norm_elem (normu_obj sc) t) l) l = true.
  Proof.
    induction l as [|y l IH]; intros Hin HE Hn; [reflexivity|].
    inversion Hin as [|? ? Hy Hin']; subst. inversion HE as [|? ? Ey HE']; subst.
    cbn [forallb] in Hn. apply andb_true_iff in Hn as [Hny Hn]. apply negb_true_iff in Hny.
    cbn [map list_eq]. rewrite (IH Hin' HE' Hn), andb_true_r.
    destruct (elem_eq_norm_r t p y Hy Ey) as [H | [_ H]]; [exact H | congruence].
  Qed.

  (* ---- maps ---- *)
  Lemma new_is_eq_r o :
    obj_default sc o = true -> in_range sc o = true ->
    obj_eq sc (new sc (ocls o)) o = true.
  Proof.
    destruct o as [c raw sow unk cur]. cbn [ocls]. intros Hd Hr.
    rewrite new_unfold, obj_eq_unfold, Nat.eqb_refl. cbn [andb].
    unfold obj_default in Hd. cbn [ocls is_default msg_field fhint] in Hd. rewrite Nat.eqb_refl in Hd. cbn [andb] in Hd.
    rewrite in_range_unfold in Hr. apply andb_true_iff in Hr as [_ Hsl].
    destruct (schema_class_facts sc c Hsc) as (Hwf & _).
    revert Hd Hsl Hwf. generalize (cfields (get_class sc c)) as fs. clear.
    induction raw as [|x raw IH]; intros [|f fs] Hd Hsl Hwf; try reflexivity.
    apply andb_true_iff in Hd as [Hd1 Hd2]. cbn [slots_in_range] in Hsl. apply andb_true_iff in Hsl as [Hs1 Hs2].
    cbn [forallb] in Hwf. apply andb_true_iff in Hwf as [Hw1 Hw2].
    cbn [map eq_slots]. rewrite (IH fs Hd2 Hs2 Hw2), andb_true_r.
    destruct (fopt f) eqn:Hfo.
    - assert (Hh : exists p, fhint f = HOptional p).
      { destruct (fhint f) as [p|p|p|pk pv'] eqn:Hh; eauto.
        - destruct (wf_plain _ _ _ _ Hw1 Hh) as (H & _). congruence.
        - destruct (wf_list _ _ _ _ Hw1 Hh) as (H & _). congruence.
        - destruct (wf_dict _ _ _ _ _ Hw1 Hh) as (H & _). congruence. }
      destruct Hh as (p & Hh).
      destruct x; unfold slot_eq; cbn [is_default]; rewrite ?Hh; try reflexivity;
        cbn [is_default] in Hd1; rewrite Hh in Hd1; discriminate Hd1.
    - destruct x; unfold slot_eq; try reflexivity; exact Hd1.
  Qed.

  Lemma map_value_eq_norm_r vt pv' y :
    elem_in_range sc vt pv' y = true -> elemP (GoodU sc) y -> elemP EqOkR y -> pv_is_nan y = false ->
    pv_eq sc (norm_map_value sc (normu_obj sc) vt y) y = true.
  Proof.
    intros Hr HG HE Hn. destruct y as [| |z|b|bits|s|b|us|us|l|d|o].
    1,2,10,11: (destruct pv'; try discriminate Hr; destruct vt; discriminate Hr).
    1,2,3,4,5,6,7:
      (cbn [norm_map_value];
       match goal with |- pv_eq sc _ ?Y = true =>
         destruct (elem_eq_norm_r vt pv' Y Hr I) as [H | [_ H]]; [cbn [norm_elem] in H; exact H | congruence]
       end).
    cbn [norm_map_value elemP] in *.
    destruct HG as (bs & Eb & Hdef & _).
    destruct (enc_obj sc o) as [[|b0 bs0]|e] eqn:Eo; try (rewrite pv_eq_msg; exact HE).
    rewrite pv_eq_msg. injection Eb as <-. apply new_is_eq_r; [apply Hdef; reflexivity|].
    eapply elem_in_range_obj; eauto.
  Qed.

  (* every entry of the decoded dict is found, under its own key, in the original dict *)
  Lemma dict_all_norm_r kt vt pv' rest : forall pre,
    map_key_ok kt = true ->
    keys_nodup sc (pre ++ rest) = true ->
    Forall (fun kv => scalar_in_range kt (fst kv) = true) (pre ++ rest) ->
    Forall (fun kv => elem_in_range sc vt pv' (snd kv) = true) rest ->
    Forall (fun kv => elemP (GoodU sc) (snd kv)) rest -> Forall (fun kv => elemP EqOkR (snd kv)) rest ->
    forallb (fun kv => negb (pv_is_nan (snd kv))) rest = true ->
    dict_all sc (pre ++ rest) (map (fun kv => (fst kv, norm_map_value sc (normu_obj sc) vt (snd kv))) rest) = true.
  Proof.
    induction rest as [|[k u] rest IH]; intros pre Hk Hnd Hkeys Hin HG HE Hn; [reflexivity|].
    inversion Hin as [|? ? Hu Hin']; subst. inversion HG as [|? ? Gu HG']; subst. inversion HE as [|? ? Eu HE']; subst.
    cbn [forallb snd] in Hn. apply andb_true_iff in Hn as [Hnu Hn]. apply negb_true_iff in Hnu. cbn [snd] in *.
    cbn [map dict_all fst snd]. apply andb_true_iff. split.
    - destruct (keys_nodup_app sc pre k u rest Hnd) as (Hpre & _).
      assert (Hkk : scalar_in_range kt k = true).
      { rewrite Forall_forall in Hkeys. apply (Hkeys (k, u)). apply in_or_app. right. left. reflexivity. }
      rewrite dict_find_skip.
      + cbn [dict_find]. rewrite (key_eq_refl sc kt k Hkk Hk). apply (map_value_eq_norm_r vt pv' u Hu Gu Eu Hnu).
      + intros [k0 v0] Hin0. cbn [fst].
        rewrite (key_eq_sym sc kt k k0 Hkk); [apply (Hpre (k0, v0) Hin0) | | exact Hk].
        rewrite Forall_forall in Hkeys. apply (Hkeys (k0, v0)). apply in_or_app. left. exact Hin0.
    - replace (pre ++ (k, u) :: rest) with ((pre ++ [(k, u)]) ++ rest) by (rewrite <- app_assoc; reflexivity).
      apply IH; auto; rewrite <- app_assoc; assumption.
  Qed.

  (* ---- one slot ---- *)
  Lemma wrapper_default_eq_r vt x :
    scalar_in_range vt x = true -> tmem vt wrapper_types = true ->
    is_default (mkS [] []) (wrapper_field vt) x = true ->
    pv_eq sc (default_of sc (wrapper_field vt)) x = true.
  Proof.
    intros Hr Hw Hd. destruct vt; try discriminate Hw; destruct x; try discriminate Hr; cbn in Hd |- *;
      try exact Hd; try (destruct b; [discriminate Hd | reflexivity]);
      try (apply Z.eqb_eq in Hd; subst; reflexivity).
    all: try (destruct utf8; [reflexivity|discriminate Hd]).
    all: try (destruct b; [reflexivity|discriminate Hd]).
    all: fold (f64_is_zero bits) in Hd; unfold f64_eq; rewrite (zero_not_nan sc bits Hd); cbn; rewrite Hd; reflexivity.
  Qed.

  Section SlotEqR.
    Variables (c : nat) (cur : list (option nat)) (i : nat) (f : fdesc).
    Hypothesis Hwf : wf_field sc (cngroups (get_class sc c)) f = true.
    Let sel := group_selects cur f i.

    Lemma eq_singular_r x p :
      (fhint f = HPlain p \/ fhint f = HOptional p) -> is_singular x = true -> slot_in_range sc f x = true ->
      elemP EqOkR x -> sel <> Some false ->
      slot_eq sc f (norm_slot sc (normu_obj sc) f sel x) x = true.
    Proof.
      intros Hh Hx Hr HE Hne. unfold sel. rewrite (norm_slot_sing sc cur i f x Hx Hne).
      destruct (is_default sc f x && negb (forced_of cur i f x)) eqn:Hd.
      { apply andb_true_iff in Hd as [Hd Hnf]. apply negb_true_iff in Hnf.
        assert (Hfo : fopt f = false) by (unfold forced_of in Hnf; destruct (is_some (fgroup f)), (fopt f); try discriminate Hnf; reflexivity).
        unfold fresh_of. rewrite Hfo. destruct x; try discriminate Hx; exact Hd. }
      assert (Hshape : forall v', v' <> PPlaceholder ->
                (pv_eq sc v' x = true \/ (pv_is_nan v' = true /\ pv_is_nan x = true)) -> slot_eq sc f v' x = true).
      { intros v' Hv' Hor. unfold slot_eq. destruct x; try discriminate Hx; destruct v'; try congruence;
          (destruct Hor as [-> | [-> ->]]; [reflexivity | apply orb_true_r]). }
      destruct Hh as [Hh|Hh].
      - destruct (wf_plain _ _ _ _ Hwf Hh) as (_ & Hfw & _). rewrite Hfw.
        assert (Hr' : elem_in_range sc (fty f) p x = true)
          by (unfold slot_in_range in Hr; rewrite Hh in Hr; destruct x; try discriminate Hx; exact Hr).
        apply Hshape; [|apply (elem_eq_norm_r (fty f) p x Hr' HE)].
        destruct x; try discriminate Hx; cbn [norm_elem]; try discriminate; destruct (fty f); discriminate.
      - destruct (wf_optional _ _ _ _ Hwf Hh) as (_ & Hg & [(w & vt & Hfw & Hfo & Hty & Hwc & Hvt & Hfit) | (Hfw & Hfo & Hmap & Hfit)]);
          rewrite Hfw.
        + assert (Hp : match p with PyMsg _ | PyDatetime | PyTimedelta => False | _ => True end).
          { destruct w; try discriminate Hvt; injection Hvt as <-; destruct p; try discriminate Hfit; exact I. }
          assert (Hr' : scalar_in_range w x = true).
          { unfold slot_in_range in Hr. rewrite Hh, Hfw in Hr.
            rewrite <- (scalar_elem_in_range sc w p x Hp). destruct x; try discriminate Hx; exact Hr. }
          assert (Hw : vt = w /\ tmem vt wrapper_types = true)
            by (destruct w; try discriminate Hvt; injection Hvt as <-; split; reflexivity).
          destruct Hw as (-> & Hwt).
          apply Hshape.
          * unfold norm_wrapped. rewrite Hvt. destruct (is_default (mkS [] []) (wrapper_field w) x); [apply wrapper_default_real; exact Hvt|].
            apply norm_scalar_real. exact Hr'.
          * unfold norm_wrapped. rewrite Hvt. fold (wrapper_field w).
            destruct (is_default (mkS [] []) (wrapper_field w) x) eqn:Ed.
            -- left. apply wrapper_default_eq_r; assumption.
            -- apply scalar_eq_norm_r. exact Hr'.
        + assert (Hr' : elem_in_range sc (fty f) p x = true)
            by (unfold slot_in_range in Hr; rewrite Hh, Hfw in Hr; destruct x; try discriminate Hx; exact Hr).
          apply Hshape; [|apply (elem_eq_norm_r (fty f) p x Hr' HE)].
          destruct x; try discriminate Hx; cbn [norm_elem]; try discriminate; destruct (fty f); discriminate.
    Qed.

    Lemma slot_eq_norm_r x :
      slot_in_range sc f x = true -> (sel = Some false -> x = PPlaceholder) ->
      (forall l, x = PList l -> forallb (fun y => negb (pv_is_nan y)) l = true) ->
      (forall d, x = PDict d -> forallb (fun kv => negb (pv_is_nan (snd kv))) d = true /\ keys_nodup sc d = true) ->
      subP (GoodU sc) x -> subP EqOkR x ->
      slot_eq sc f (norm_slot sc (normu_obj sc) f sel x) x = true.
    Proof.
      intros Hr Hclean Hnl Hnd HG HE.
      destruct (is_singular x) eqn:Hx.
      { destruct (sel) as [[|]|] eqn:Hsel.
        2:{ rewrite (Hclean eq_refl) in Hx. discriminate. }
        all: destruct (singular_hint sc f x Hx Hr) as (p & Hp).
        all: assert (HE' : elemP EqOkR x) by (destruct x; try discriminate Hx; try exact I; exact HE).
        all: rewrite <- Hsel; apply (eq_singular_r x p Hp Hx Hr HE'); rewrite Hsel; discriminate. }
      destruct sel as [[|]|] eqn:Hsel.
      2:{ rewrite (Hclean eq_refl). unfold norm_slot.
          pose proof (group_selects_shape cur f i) as Hsh. fold sel in Hsh. rewrite Hsel in Hsh. destruct Hsh as (g & Hg & _).
          rewrite (group_member_not_opt _ _ _ _ Hwf Hg). reflexivity. }
      all: destruct x as [| |z|b|bits|s|b|us|us|l|d|o]; try discriminate Hx.
      - (* placeholder, selected *)
        pose proof (group_selects_shape cur f i) as Hsh. fold sel in Hsh. rewrite Hsel in Hsh. destruct Hsh as (g & Hg & _).
        destruct (fhint f) as [p|p|p|pk pv'] eqn:Hh.
        + assert (Hn : norm_slot sc (normu_obj sc) f (Some true) PPlaceholder
                       = match default_of sc f with PMsg o => PMsg (raise_sow o) | d => d end) by reflexivity.
          rewrite Hn. pose proof (default_is_default sc Hsc c f p Hwf Hh) as Hd.
          unfold slot_eq. destruct (match default_of sc f with PMsg o => PMsg (raise_sow o) | d => d end); try exact Hd; reflexivity.
        + destruct (wf_optional _ _ _ _ Hwf Hh) as (_ & Hg' & _). congruence.
        + destruct (wf_list _ _ _ _ Hwf Hh) as (_ & _ & _ & Hg' & _). congruence.
        + destruct (wf_dict _ _ _ _ _ Hwf Hh) as (_ & _ & Hg' & _). congruence.
      - exfalso. pose proof (group_selects_shape cur f i) as Hsh. fold sel in Hsh. rewrite Hsel in Hsh. destruct Hsh as (g & Hg & _).
        unfold slot_in_range in Hr. destruct (fhint f) as [p|p|p|pk pv'] eqn:Hh; try discriminate Hr.
        destruct (wf_optional _ _ _ _ Hwf Hh) as (_ & Hg' & _). congruence.
      - exfalso. pose proof (group_selects_shape cur f i) as Hsh. fold sel in Hsh. rewrite Hsel in Hsh. destruct Hsh as (g & Hg & _).
        unfold slot_in_range in Hr. destruct (fhint f) as [p|p|p|pk pv'] eqn:Hh; rewrite ?elem_in_range_list in Hr; try discriminate Hr.
        destruct (wf_list _ _ _ _ Hwf Hh) as (_ & _ & _ & Hg' & _). congruence.
      - exfalso. pose proof (group_selects_shape cur f i) as Hsh. fold sel in Hsh. rewrite Hsel in Hsh. destruct Hsh as (g & Hg & _).
        unfold slot_in_range in Hr. destruct (fhint f) as [p|p|p|pk pv'] eqn:Hh; rewrite ?elem_in_range_dict in Hr; try discriminate Hr.
        destruct (wf_dict _ _ _ _ _ Hwf Hh) as (_ & _ & Hg' & _). congruence.
      - (* placeholder, no group *)
        assert (Hn : norm_slot sc (normu_obj sc) f None PPlaceholder = fresh_of f) by reflexivity.
        rewrite Hn. unfold fresh_of. destruct (fopt f) eqn:Hfo; [|reflexivity].
        unfold slot_eq. cbn [is_default]. destruct (fhint f) as [q|q|q|qk qv] eqn:Hg; try reflexivity.
        + destruct (wf_plain _ _ _ _ Hwf Hg) as (H & _). congruence.
        + destruct (wf_list _ _ _ _ Hwf Hg) as (H & _). congruence.
        + destruct (wf_dict _ _ _ _ _ Hwf Hg) as (H & _). congruence.
      - (* None *)
        assert (Hn : norm_slot sc (normu_obj sc) f None PNone = fresh_of f) by reflexivity.
        rewrite Hn. unfold fresh_of. destruct (fopt f); [reflexivity|].
        unfold slot_eq. cbn [is_default]. unfold slot_in_range in Hr. destruct (fhint f); try discriminate Hr. reflexivity.
      - assert (Hh : exists p, fhint f = HList p).
        { unfold slot_in_range in Hr. destruct (fhint f) as [p|p|p|pk pv'] eqn:Hh; eauto;
            rewrite ?elem_in_range_list in Hr; discriminate Hr. }
        destruct Hh as (p & Hh). destruct (wf_list _ _ _ _ Hwf Hh) as (Hfo & _).
        assert (Hin : Forall (fun y => elem_in_range sc (fty f) p y = true) l).
        { unfold slot_in_range in Hr. rewrite Hh in Hr. apply all_fix_forall in Hr. exact Hr. }
        destruct l as [|y l'].
        + assert (Hn : norm_slot sc (normu_obj sc) f None (PList []) = fresh_of f) by reflexivity.
          rewrite Hn. unfold fresh_of. rewrite Hfo. unfold slot_eq. cbn [is_default]. rewrite Hh. reflexivity.
        + assert (Hn : norm_slot sc (normu_obj sc) f None (PList (y :: l'))
                       = PList (map (norm_elem (normu_obj sc) (fty f)) (y :: l'))) by reflexivity.
          rewrite Hn. unfold slot_eq. rewrite pv_eq_list.
          rewrite (list_eq_norm_r (fty f) p (y :: l') Hin HE (Hnl _ eq_refl)). reflexivity.
      - assert (Hh : exists pk pv', fhint f = HDict pk pv').
        { unfold slot_in_range in Hr. destruct (fhint f) as [p|p|p|pk pv'] eqn:Hh; eauto;
            rewrite ?elem_in_range_dict in Hr; discriminate Hr. }
        destruct Hh as (pk & pv' & Hh).
        destruct (wf_dict _ _ _ _ _ Hwf Hh) as (Hfo & _ & _ & _ & kt & vt & Hm & Hk & _).
        assert (Hin : Forall (fun kv => scalar_in_range kt (fst kv) && elem_in_range sc vt pv' (snd kv) = true) d).
        { unfold slot_in_range in Hr. rewrite Hh, Hm in Hr.
          apply (dict_fix_forall (fun k y => scalar_in_range kt k && elem_in_range sc vt pv' y)) in Hr. exact Hr. }
        destruct d as [|kv0 d'].
        + assert (Hn : norm_slot sc (normu_obj sc) f None (PDict []) = fresh_of f) by reflexivity.
          rewrite Hn. unfold fresh_of. rewrite Hfo. unfold slot_eq. cbn [is_default]. rewrite Hh. reflexivity.
        + assert (Hn : norm_slot sc (normu_obj sc) f None (PDict (kv0 :: d'))
                       = PDict (map (fun kv => (fst kv, norm_map_value sc (normu_obj sc) vt (snd kv))) (kv0 :: d')))
            by (unfold norm_slot; rewrite Hm; reflexivity).
          rewrite Hn. unfold slot_eq. rewrite pv_eq_dict. rewrite map_length, Nat.eqb_refl. cbn [andb].
          destruct (Hnd _ eq_refl) as (Hnan & Hkn).
          apply orb_true_iff. left.
          apply (dict_all_norm_r kt vt pv' (kv0 :: d') [] Hk Hkn).
          * eapply Forall_impl; [|exact Hin]. intros kv H. apply andb_true_iff in H as [H _]. exact H.
          * eapply Forall_impl; [|exact Hin]. intros kv H. apply andb_true_iff in H as [_ H]. exact H.
          * exact HG.
          * exact HE.
          * exact Hnan.
    Qed.
  End SlotEqR.

  (* the walk over the field list *)
  Lemma eq_slots_norm_r c cur : forall raw fs i,
    forallb (wf_field sc (cngroups (get_class sc c))) fs = true ->
    slots_in_range sc raw fs = true -> clean_slots sc cur i raw fs = true ->
    forallb (fun x => match x with PDict d => keys_nodup sc d | _ => true end) raw = true ->
    forallb (fun x => match x with
                      | PList l => forallb (fun y => negb (pv_is_nan y)) l
                      | PDict d => forallb (fun kv => negb (pv_is_nan (snd kv))) d
                      | _ => true
                      end) raw = true ->
    Forall (subP (GoodU sc)) raw -> Forall (subP EqOkR) raw ->
    eq_slots sc (normu_slots sc cur i raw fs) raw fs = true.
  Proof.
    induction raw as [|x raw IH]; intros [|f fs] i Hwf Hr Hc Hk Hn HG HE; try reflexivity.
    cbn [forallb] in Hwf, Hk, Hn. apply andb_true_iff in Hwf as [Hw1 Hw2].
    apply andb_true_iff in Hk as [Hk1 Hk2]. apply andb_true_iff in Hn as [Hn1 Hn2].
    cbn [slots_in_range] in Hr. apply andb_true_iff in Hr as [Hr1 Hr2].
    cbn [clean_slots] in Hc. apply andb_true_iff in Hc as [Hc1 Hc2].
    inversion HG as [|? ? G1 G2]; subst. inversion HE as [|? ? E1 E2]; subst.
    rewrite normu_slots_cons. cbn [eq_slots]. rewrite (IH fs (S i)) by assumption. rewrite andb_true_r.
    apply (slot_eq_norm_r c cur i f Hw1 x Hr1); auto.
    - intros Hs. rewrite Hs in Hc1. destruct x; try discriminate Hc1; reflexivity.
    - intros l ->. exact Hn1.
    - intros d ->. split; assumption.
  Qed.

  Definition EqIfR (o : obj) : Prop := deep nan_free (PMsg o) = true -> EqOkR o.

  Lemma sub_eq_lift_r x : deep nan_free x = true -> subP EqIfR x -> subP EqOkR x.
  Proof.
    intros Hd HP. destruct x as [| |z|b|bits|s|b|us|us|l|d|o]; try exact I.
    - cbn [subP] in *. rewrite deep_plist in Hd. induction l as [|y l IH]; [constructor|].
      inversion HP as [|? ? Py HP']; subst. rewrite deep_list_cons in Hd. apply andb_true_iff in Hd as [Hd1 Hd2].
      constructor; [|apply IH; assumption]. destruct y; try exact I. cbn [elemP] in *. apply Py. exact Hd1.
    - cbn [subP] in *. rewrite deep_pdict in Hd. induction d as [|[k y] d IH]; [constructor|].
      inversion HP as [|? ? Py HP']; subst. cbn [deep_dict] in Hd. apply andb_true_iff in Hd as [Hd1 Hd2].
      constructor; [|apply IH; assumption]. cbn [snd] in *. destruct y; try exact I. cbn [elemP] in *. apply Py. exact Hd1.
    - cbn [subP] in *. apply HP. exact Hd.
  Qed.

  Lemma eq_step_r c raw sow unk cur :
    value_ok sc (Obj c raw sow unk cur) ->
    Forall (subP (fun o => value_ok sc o -> EqIfR o)) raw ->
    EqIfR (Obj c raw sow unk cur).
  Proof.
    intros Hv HP Hnan. pose proof Hv as (Hr & Hd).
    rewrite in_range_unfold in Hr. rewrite deep_msg in Hd. rewrite deep_msg in Hnan.
    apply andb_true_iff in Hr as [Hr Hsl]. apply andb_true_iff in Hr as [Hr Hcl]. apply andb_true_iff in Hr as [_ Hlen].
    apply andb_true_iff in Hd as [Hloc Hdl]. unfold local_ok in Hloc.
    apply andb_true_iff in Hloc as [Hloc Hku]. apply andb_true_iff in Hloc as [Hloc Hnu]. apply andb_true_iff in Hloc as [Hoc Hco].
    apply andb_true_iff in Hnan as [Hnf Hnl].
    rewrite oneof_clean_unfold in Hoc.
    destruct (schema_class_facts sc c Hsc) as (Hwf & Hnd & Hent).
    unfold EqOkR. rewrite normu_obj_unfold, obj_eq_unfold, Nat.eqb_refl. cbn [andb].
    assert (HG : Forall (subP (GoodU sc)) raw).
    { apply (value_ok_slots sc (GoodU sc) c raw sow unk cur Hv).
      apply Forall_forall. intros x _. apply subP_forall. intros o Ho. apply (all_good sc Hsc o Ho). }
    assert (HE : Forall (subP EqOkR) raw).
    { pose proof (value_ok_slots sc EqIfR c raw sow unk cur Hv HP) as H.
      apply Forall_forall. intros x Hx. apply In_nth_error in Hx as (k & Hk).
      apply sub_eq_lift_r; [eapply deep_list_nth; eauto | eapply Forall_nth_error; eauto]. }
    apply (eq_slots_norm_r c cur raw _ 0 Hwf Hsl Hoc); auto.
  Qed.

  Theorem all_eq_r : forall o, value_ok sc o -> deep nan_free (PMsg o) = true -> obj_eq sc (normu_obj sc o) o = true.
  Proof.
    apply (obj_nested_ind (fun o => value_ok sc o -> EqIfR o)).
    intros c raw s u g HP Hv. apply eq_step_r; assumption.
  Qed.
End EqProofR.

Lemma c14u_decoded_equal_r sc m :
  c01_schema_ok sc = true -> c14u_value_ok sc m = true -> deep nan_free (PMsg m) = true ->
  obj_eq sc (normu_obj sc m) m = true.
Proof. intros Hs Hv Hn. apply c14u_value_ok_spec in Hv. exact (all_eq_r sc Hs m Hv Hn). Qed.
