(* Proofs/ImportingP4.v — C13, part 4: the world the plugin's output files create (parser.py),
   the well-known-type clause, the class-name link between reference and definition, and the
   concrete refutations of the full statement on the pinned code (K1, K2, betterproto-named
   package, alias clashes, top-level deployment). *)
From BP Require Import Base.Prelude Proofs.BytesP Spec.PyImport Model.Importing.
From BP Require Import Proofs.ImportingP Proofs.ImportingP2 Proofs.ImportingP3.
From BP Require gen.C13Tables.
From Coq Require Import Lia.
Local Open Scope nat_scope.

(* ------------------------------------------------------------------ denotes, computably *)
Definition eval_ref (w : world) (P : path) (ref : list byte * option (list byte)) : option value :=
  match exec_all w P (match snd ref with Some s => [s] | None => [] end) with
  | Some e => resolve_annotation w P e (fst ref)
  | None => None
  end.

Lemma denotes_eval w P ref v : denotes w P ref v <-> eval_ref w P ref = Some v.
Proof.
  unfold denotes, eval_ref. split.
  - intros [e [He Hr]]. rewrite He. exact Hr.
  - destruct (exec_all w P _) as [e|]; [|discriminate]. intros H. exists e. split; [reflexivity | exact H].
Qed.

(* ------------------------------------------------------------------ the world of a generated tree *)
(* root: the package the output directory is (the tree must live inside a package, see
   toplevel_refuted); pkgs: the proto package strings of the request; defs: per absolute module path
   the class names its module defines; libs: other importable absolute packages (betterproto.lib...) *)
Definition world_of (root : path) (pkgs : list (list byte)) (defs : list (list (list byte) * list (list byte)))
                    (libs : list (list (list byte))) : world :=
  {| w_pkg := fun p => path_mem p (map (app root) (generated_dirs pkgs)) || path_mem p libs;
     w_cls := fun p n => existsb (fun d => path_eqb (fst d) p && existsb (bytes_eqb n) (snd d)) defs |}.

Lemma path_mem_In p l : In p l -> path_mem p l = true.
Proof. intros H. unfold path_mem. apply existsb_exists. exists p. split; [exact H | apply path_eqb_refl]. Qed.

Lemma path_mem_true p l : path_mem p l = true -> In p l.
Proof. unfold path_mem. intros H. apply existsb_exists in H. destruct H as [x [Hx E]]. apply path_eqb_eq in E. subst. exact Hx. Qed.

Lemma path_dedup_In p l : In p l -> In p (path_dedup l).
Proof.
  induction l as [|d r IH]; [intros []|]. intros [->|H]; cbn [path_dedup].
  - destruct (path_mem p r) eqn:E; [apply IH, path_mem_true, E | left; reflexivity].
  - destruct (path_mem d r); [auto | right; auto].
Qed.

Lemma prefixes_In {A} (p r : list A) : In p (prefixes (p ++ r)).
Proof.
  induction p as [|x p IH]; cbn [app prefixes].
  - destruct r; left; reflexivity.
  - right. apply in_map. exact IH.
Qed.

Lemma output_dir_join (tgt : path) : pkg_okb tgt = true -> output_dir (py_join b_dot tgt) = tgt.
Proof.
  intros Hp. unfold output_dir. destruct tgt as [|a t]; [reflexivity|].
  rewrite py_split_is_split_on. change b_dot with c_dot. rewrite split_on_join.
  - apply pkg_ok_ident in Hp. induction Hp as [|s l Hs _ IH]; [reflexivity|]. cbn [filter].
    destruct s; [discriminate|]. cbn [nonemptyb]. f_equal. exact IH.
  - discriminate.
  - apply pkg_ok_ident in Hp. rewrite Forall_forall in *. intros x Hx. apply ident_chars_no_dot, identb_chars. auto.
Qed.

(* parser.py writes an __init__.py for every parent directory: every prefix of a generated package is a package *)
Theorem generated_dirs_prefix (pkgs : list (list byte)) (tgt p r : path) :
  pkg_okb tgt = true -> In (py_join b_dot tgt) pkgs -> tgt = p ++ r -> In p (generated_dirs pkgs).
Proof.
  intros Hp Hin E. unfold generated_dirs. apply path_dedup_In. apply in_flat_map.
  exists (py_join b_dot tgt). split; [exact Hin|]. rewrite output_dir_join by exact Hp. subst. apply prefixes_In.
Qed.

(* class names start with an upper-case letter or a digit (what pascal_case produces; sampled) *)
Definition cls_startb (n : list byte) : bool :=
  match n with c :: _ => is_upper c || is_digit c | [] => false end.

Lemma seg_not_cls x n : seg_okb x = true -> cls_startb n = true -> bytes_eqb x n = false.
Proof.
  intros Hx Hn. apply bytes_eqb_neq. intros ->. unfold seg_okb in Hx. apply andb_true_iff in Hx. destruct Hx as [Hi Hu].
  destruct n as [|c n]; [discriminate|]. cbn [cls_startb] in Hn.
  unfold no_upperb in Hu. cbn [forallb] in Hu. apply andb_true_iff in Hu. destruct Hu as [Hu _].
  apply negb_true_iff in Hu. rewrite upperb_is_upper in Hu. rewrite Hu in Hn. cbn [orb] in Hn.
  cbn [identb] in Hi. apply andb_true_iff in Hi. destruct Hi as [Hi _]. apply andb_true_iff in Hi. destruct Hi as [Hs _].
  revert Hs Hn. unfold is_ident_start. rewrite Hu. cbn [orb]. clear. destruct c; vm_compute; intros; discriminate.
Qed.

Theorem world_of_has root pkgs defs libs (tgt : path) classes C :
  pkg_okb tgt = true -> In (py_join b_dot tgt) pkgs ->
  In (root ++ tgt, classes) defs -> In C classes ->
  (forall d n, In d defs -> In n (snd d) -> cls_startb n = true) ->
  world_has (world_of root pkgs defs libs) root tgt C.
Proof.
  intros Hp Hin Hd HC Hcls. constructor.
  - intros p r E. cbn [world_of w_pkg]. apply orb_true_iff. left. apply path_mem_In. apply in_map.
    exact (generated_dirs_prefix pkgs tgt p r Hp Hin E).
  - intros p x r E. cbn [world_of w_cls].
    destruct (existsb _ defs) eqn:X; [|reflexivity]. exfalso.
    apply existsb_exists in X. destruct X as [d [Hd' X]]. apply andb_true_iff in X. destruct X as [_ X].
    apply existsb_exists in X. destruct X as [n [Hn X]].
    assert (Hx : seg_okb x = true).
    { subst tgt. apply pkg_okb_app in Hp. destruct Hp as [_ Hp]. unfold pkg_okb in Hp. cbn [forallb] in Hp.
      apply andb_true_iff in Hp. tauto. }
    rewrite (seg_not_cls x n Hx (Hcls d n Hd' Hn)) in X. discriminate.
  - cbn [world_of w_cls]. apply existsb_exists. exists (root ++ tgt, classes). split; [exact Hd|]. cbn [fst snd].
    rewrite path_eqb_refl. cbn [andb]. apply existsb_exists. exists C. split; [exact HC | apply bytes_eqb_refl].
Qed.

(* ------------------------------------------------------------------ reference vs definition: the class name *)
(* the reference uses pythonize_class_name("Foo.Bar"), the class statement pythonize_class_name("_Foo_Bar") *)
Definition dotted_type (nested : list (list byte)) : list byte := py_join b_dot nested.

Theorem class_name_link (cls_name : list byte -> list byte) :
  (forall nested, cls_name (dotted_type nested) = cls_name (flat_name [] nested)) ->
  forall nested, cls_name (dotted_type nested) = defined_class_name cls_name nested.
Proof. intros H nested. unfold defined_class_name. apply H. Qed.

(* ------------------------------------------------------------------ well-known types *)
Section WellKnown.
  Variable cls_name snake optional : list byte -> list byte.

  Definition lib_path (pyd : bool) : path := [s_betterproto; s_lib] ++ (if pyd then [s_pydantic] else []) ++ google_protobuf.

  Theorem wellknown_resolves (w : world) (P cur : path) T (unwrap pyd : bool) :
    pkg_okb cur = true -> type_okb T = true ->
    path_eqb cur google_protobuf = false ->
    (if unwrap then early_return optional (b_dot :: py_join b_dot (google_protobuf ++ [T])) else None) = None ->
    identb (cls_name T) = true ->
    identb (snake (py_join b_dot (lib_path pyd))) = true ->
    w_pkg w (lib_path pyd) = true -> w_cls w (lib_path pyd) (cls_name T) = true ->
    denotes w P
      (get_type_reference cls_name snake optional (py_join b_dot cur) (b_dot :: py_join b_dot (google_protobuf ++ [T])) unwrap pyd)
      (VCls (lib_path pyd) (cls_name T)).
  Proof.
    intros Hcur HT Hc He HC Hal W1 W2. unfold get_type_reference. rewrite He.
    rewrite parse_well_formed by (exact HT || reflexivity).
    rewrite !split_pkg_join by (exact Hcur || reflexivity).
    cbv beta iota zeta. rewrite Hc. change (path_eqb google_protobuf google_protobuf) with true. cbn [andb negb].
    fold (lib_path pyd).
    assert (Hf : path_eqb (firstn 1 (lib_path pyd)) [s_betterproto] = true) by (destruct pyd; reflexivity).
    rewrite Hf.
    apply absolute_ok; try assumption.
    - destruct pyd; discriminate.
    - destruct pyd; repeat constructor.
  Qed.

  (* wrapper types / Duration / Timestamp with unwrap: a Python builtin type name, no import *)
  Theorem wellknown_unwrapped pkg k v pyd :
    tbl_find C13Tables.wrapper_types k = Some v ->
    get_type_reference cls_name snake optional pkg k true pyd = (optional v, None).
  Proof. intros H. unfold get_type_reference, early_return. rewrite H. reflexivity. Qed.

  Theorem wellknown_time pkg pyd :
    get_type_reference cls_name snake optional pkg s_duration true pyd = (s_timedelta, None) /\
    get_type_reference cls_name snake optional pkg s_timestamp true pyd = (s_datetime, None).
  Proof.
    assert (A : tbl_find C13Tables.wrapper_types s_duration = None) by (vm_compute; reflexivity).
    assert (B : tbl_find C13Tables.wrapper_types s_timestamp = None) by (vm_compute; reflexivity).
    unfold get_type_reference, early_return. rewrite A, B. split; reflexivity.
  Qed.
End WellKnown.

(* ------------------------------------------------------------------ concrete instances and refutations *)
(* real values of the two casing functions on the witness strings (regenerated from the live module) *)
Definition CLS : list byte -> list byte := tbl_fun C13Tables.cls_samples.
Definition SNK0 : list byte -> list byte := tbl_fun C13Tables.snake_samples.
(* same values, but total into identifier characters (so that it meets the hypothesis of resolves_gen) *)
Definition SNK : list byte -> list byte := fun s => filter is_ident_char (SNK0 s).
Definition OPT : list byte -> list byte := fun s => s.

Lemma SNK_chars s : ident_chars (SNK s).
Proof.
  unfold SNK, ident_chars. apply forallb_forall. intros x Hx. apply filter_In in Hx. tauto.
Qed.

Ltac conj_split := repeat match goal with |- _ /\ _ => split end.
Definition sa := [x61]. Definition sb := [x62]. Definition sc := [x63]. Definition sd := [x64].
Definition sx := [x78]. Definition sy := [x79]. Definition sr := [x72].
Definition s_Cap := [x43; x61; x70].           (* Cap *)
Definition s_foo := [x66; x6f; x6f].           (* foo *)
Definition s_a_b := [x61; x5f; x62].           (* a_b *)
Definition s_a1 := [x61; x31].                 (* a1 *)
Definition s_a1b := [x61; x31; x62].           (* a1b *)
Definition t_M := [x4d].                       (* M *)
Definition t_T := [x54].                       (* T *)
Definition t_Foo := [x46; x6f; x6f].           (* Foo *)
Definition t_Bar := [x42; x61; x72].           (* Bar *)
Definition t_FooBar := [x46; x6f; x6f; x42; x61; x72].          (* FooBar *)
Definition t_Foo_Bar := [x46; x6f; x6f; x2e; x42; x61; x72].    (* Foo.Bar *)
Definition t_foo_Bar := [x66; x6f; x6f; x2e; x42; x61; x72].    (* foo.Bar *)
Definition t_Cap_M := [x43; x61; x70; x2e; x4d].                (* Cap.M *)

Definition gtr cur tgt T := get_type_reference CLS SNK OPT (py_join b_dot cur) (b_dot :: py_join b_dot (tgt ++ [T])) true false.

(* a world with root package r in which packages a.b and c.d exist and c.d defines FooBar (for Foo.Bar) *)
Definition w_ex : world :=
  world_of [sr] [py_join b_dot [sa; sb]; py_join b_dot [sc; sd]] [([sr; sc; sd], [CLS t_Foo_Bar])] [].

(* non-vacuity of resolves_gen: a cousin reference a.b -> c.d, nested type Foo.Bar *)
Example resolves_example :
  pkg_okb [sa; sb] = true /\ pkg_okb [sc; sd] = true /\ type_okb t_Foo_Bar = true /\
  identb (CLS t_Foo_Bar) = true /\ world_has w_ex [sr] [sc; sd] (CLS t_Foo_Bar) /\
  gtr [sa; sb] [sc; sd] t_Foo_Bar
    = (quoted [x5f; x5f; x63; x5f; x64; x5f; x5f; x2e; x46; x6f; x6f; x42; x61; x72],     (* "__c_d__.FooBar" *)
       Some [x66; x72; x6f; x6d; x20; x2e; x2e; x2e; x63; x20; x69; x6d; x70; x6f; x72; x74; x20; x64; x20; x61; x73; x20;
             x5f; x5f; x63; x5f; x64; x5f; x5f])                                            (* from ...c import d as __c_d__ *) /\
  eval_ref w_ex [sr; sa; sb] (gtr [sa; sb] [sc; sd] t_Foo_Bar) = Some (VCls [sr; sc; sd] (CLS t_Foo_Bar)).
Proof.
  conj_split; try (vm_compute; reflexivity).
  apply (world_of_has [sr] _ _ [] [sc; sd] [CLS t_Foo_Bar]).
  - reflexivity.
  - right. left. reflexivity.
  - left. reflexivity.
  - left. reflexivity.
  - intros d n [<-|[]] [<-|[]]. vm_compute. reflexivity.
Qed.

(* K2: an upper-case package segment is taken for the beginning of the type name *)
Definition w_cap : world :=
  world_of [sr] [py_join b_dot [sa]; py_join b_dot [sa; s_Cap]] [([sr; sa; s_Cap], [CLS t_M])] [].
Theorem capital_package_refuted :
  exists (w : world) (root cur tgt : path) T,
    root <> [] /\ pkg_okb cur = true /\ pkg_okb tgt = false /\ Forall (fun s => identb s = true) tgt /\
    type_okb T = true /\ identb (CLS T) = true /\
    w_pkg w (root ++ tgt) = true /\ w_cls w (root ++ tgt) (CLS T) = true /\
    ~ denotes w (root ++ cur) (gtr cur tgt T) (VCls (root ++ tgt) (CLS T)).
Proof.
  exists w_cap, [sr], [sa], [sa; s_Cap], t_M.
  conj_split; try (vm_compute; reflexivity); try discriminate.
  - repeat constructor.
  - rewrite denotes_eval. vm_compute. discriminate.
Qed.

(* K2: a lower-case message name with a nested type is taken for a package segment *)
Definition w_low : world := world_of [sr] [py_join b_dot [sa]] [([sr; sa], [CLS t_foo_Bar])] [].
Theorem lowercase_message_refuted :
  exists (w : world) (root cur tgt : path) T,
    root <> [] /\ pkg_okb cur = true /\ pkg_okb tgt = true /\ type_okb T = false /\ identb (CLS T) = true /\
    world_has w root tgt (CLS T) /\
    ~ denotes w (root ++ cur) (gtr cur tgt T) (VCls (root ++ tgt) (CLS T)).
Proof.
  exists w_low, [sr], [sa], [sa], t_foo_Bar.
  conj_split; try (vm_compute; reflexivity); try discriminate.
  - apply (world_of_has [sr] _ _ [] [sa] [CLS t_foo_Bar]).
    + reflexivity.
    + left. reflexivity.
    + left. reflexivity.
    + left. reflexivity.
    + intros d n [<-|[]] [<-|[]]. vm_compute. reflexivity.
  - rewrite denotes_eval. vm_compute. discriminate.
Qed.

(* K1: two distinct proto types of one package get the same class name, hence the same reference *)
Theorem class_collision_refuted :
  exists (cur tgt : path) (nested1 nested2 : list (list byte)),
    nested1 <> nested2 /\
    type_okb (dotted_type nested1) = true /\ type_okb (dotted_type nested2) = true /\
    defined_class_name CLS nested1 = defined_class_name CLS nested2 /\
    gtr cur tgt (dotted_type nested1) = gtr cur tgt (dotted_type nested2).
Proof.
  exists [sa], [sb], [t_Foo; t_Bar], [t_FooBar].
  split; [discriminate|]. conj_split; vm_compute; reflexivity.
Qed.

(* a proto package whose first segment is `betterproto` is imported absolutely, not relative to the root *)
Definition s_bp := s_betterproto.
Definition w_bp : world :=
  world_of [sr] [py_join b_dot [sx]; py_join b_dot [s_bp; sy]] [([sr; s_bp; sy], [CLS t_M])] [].
Theorem betterproto_package_refuted :
  exists (w : world) (root cur tgt : path) T,
    root <> [] /\ pkg_okb cur = true /\ pkg_okb tgt = true /\ type_okb T = true /\ identb (CLS T) = true /\
    path_eqb (firstn 1 tgt) [s_betterproto] = true /\
    world_has w root tgt (CLS T) /\
    ~ denotes w (root ++ cur) (gtr cur tgt T) (VCls (root ++ tgt) (CLS T)).
Proof.
  exists w_bp, [sr], [sx], [s_bp; sy], t_M.
  conj_split; try (vm_compute; reflexivity); try discriminate.
  - apply (world_of_has [sr] _ _ [] [s_bp; sy] [CLS t_M]).
    + reflexivity.
    + right. left. reflexivity.
    + left. reflexivity.
    + left. reflexivity.
    + intros d n [<-|[]] [<-|[]]. vm_compute. reflexivity.
  - rewrite denotes_eval. vm_compute. discriminate.
Qed.

(* the generated tree must live inside a package: with root = [] the relative import climbs above the top *)
Definition w_top : world := world_of [] [py_join b_dot [sa]; py_join b_dot [sb]] [([sb], [CLS t_M])] [].
Theorem toplevel_refuted :
  exists (w : world) (cur tgt : path) T,
    pkg_okb cur = true /\ pkg_okb tgt = true /\ type_okb T = true /\ identb (CLS T) = true /\
    world_has w [] tgt (CLS T) /\
    ~ denotes w ([] ++ cur) (gtr cur tgt T) (VCls ([] ++ tgt) (CLS T)).
Proof.
  exists w_top, [sa], [sb], t_M.
  conj_split; try (vm_compute; reflexivity); try discriminate.
  - apply (world_of_has [] _ _ [] [sb] [CLS t_M]).
    + reflexivity.
    + right. left. reflexivity.
    + left. reflexivity.
    + left. reflexivity.
    + intros d n [<-|[]] [<-|[]]. vm_compute. reflexivity.
  - rewrite denotes_eval. vm_compute. discriminate.
Qed.
