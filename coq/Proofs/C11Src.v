(* C11 source-translation tie: the mechanical translation of ServiceStub.__init__ / ServiceStub.__resolve_request_kwargs
   (coq/gen/C11Src.v, regenerated from the current source text by harness/gen_c11_src.py) is equal to the hand-written
   model Model/Grpc.v (resolve1 / resolve_kwargs), for every type V of opaque objects, every reading `truthy` of bool() on
   them, every instance and all 2^3 None / set combinations of the call-level arguments.
   Built only by the non-alarming stage `source_tie_stage` of harness/props/c11.py: a behaviour-preserving rewrite of the
   Python functions may make these scripts fail while C11 still holds.  The scripts go through case analysis + computation
   only, so they survive rewrites that keep the result convertible (e.g. `x if x is not None else self.x`, an `if` statement). *)
From Coq Require Import ZArith List Bool.
From BP Require Import Base.Prelude Model.Grpc Model.C16SrcLib Model.C11SrcLib Model.C11SrcGlue gen.C11Src Proofs.GrpcP.
Import ListNotations.
Local Open Scope Z_scope.

Notation src_init := src_ServiceStub___init__.
Notation src_init_defaults := src_ServiceStub___init___defaults.
Notation src_resolve := src_ServiceStub___resolve_request_kwargs.

(* ------------------------------------------------------------------------- __init__ *)
Lemma init_stores (V : Type) (truthy : V -> bool) ch t d m :
  src_init V truthy ch t d m = Ok (src_ServiceStub_mk ch t d m).
Proof. reflexivity. Qed.

Lemma init_fields (V : Type) (truthy : V -> bool) ch t d m :
  exists self, src_init V truthy ch t d m = Ok self /\
    ServiceStub_channel self = ch /\ ServiceStub_timeout self = t /\
    ServiceStub_deadline self = d /\ ServiceStub_metadata self = m.
Proof. eexists. split; [apply init_stores|]. repeat split. Qed.

Lemma init_defaults (V : Type) (truthy : V -> bool) ch :
  src_init_defaults V truthy ch = Ok (src_ServiceStub_mk ch None None None).
Proof. reflexivity. Qed.

(* ------------------------------------------------------------------------- the resolver *)
(* the dict the model's per-field function describes *)
Definition model_dict {V : Type} (self : src_ServiceStub_obj V) (ct cd cm : option V) : list (list byte * option V) :=
  [(key_timeout, resolve1 (ServiceStub_timeout self) ct);
   (key_deadline, resolve1 (ServiceStub_deadline self) cd);
   (key_metadata, resolve1 (ServiceStub_metadata self) cm)].

Lemma resolve_eq_model (V : Type) (truthy : V -> bool) self ct cd cm :
  src_resolve V truthy self ct cd cm = Ok (model_dict self ct cd cm).
Proof. destruct self, ct, cd, cm; reflexivity. Qed.

Lemma resolve_truthy_irrelevant (V : Type) (t1 t2 : V -> bool) self ct cd cm :
  src_resolve V t1 self ct cd cm = src_resolve V t2 self ct cd cm.
Proof. rewrite !resolve_eq_model. reflexivity. Qed.

Lemma resolve_eight (V : Type) (truthy : V -> bool) st sd sm ch (x y z : V) :
  let self := src_ServiceStub_mk ch st sd sm in
  let D a b c := Ok [(key_timeout, a); (key_deadline, b); (key_metadata, c)] in
  src_resolve V truthy self None None None = D st sd sm /\
  src_resolve V truthy self (Some x) None None = D (Some x) sd sm /\
  src_resolve V truthy self None (Some y) None = D st (Some y) sm /\
  src_resolve V truthy self None None (Some z) = D st sd (Some z) /\
  src_resolve V truthy self (Some x) (Some y) None = D (Some x) (Some y) sm /\
  src_resolve V truthy self (Some x) None (Some z) = D (Some x) sd (Some z) /\
  src_resolve V truthy self None (Some y) (Some z) = D st (Some y) (Some z) /\
  src_resolve V truthy self (Some x) (Some y) (Some z) = D (Some x) (Some y) (Some z).
Proof. cbv zeta. rewrite !resolve_eq_model. repeat split. Qed.

(* set but falsy: whatever bool() says of the call-level objects, they are what the dict carries *)
Lemma resolve_falsy (V : Type) (truthy : V -> bool) (f1 f2 f3 : V) self :
  truthy f1 = false -> truthy f2 = false -> truthy f3 = false ->
  (exists d, src_resolve V truthy self (Some f1) (Some f2) (Some f3) = Ok d /\
     py_dict_get d key_timeout = Some (Some f1) /\ py_dict_get d key_deadline = Some (Some f2) /\
     py_dict_get d key_metadata = Some (Some f3)) /\
  (exists d, src_resolve V truthy self None None None = Ok d /\
     py_dict_get d key_timeout = Some (ServiceStub_timeout self) /\ py_dict_get d key_deadline = Some (ServiceStub_deadline self) /\
     py_dict_get d key_metadata = Some (ServiceStub_metadata self)).
Proof.
  intros _ _ _. split; eexists; (split; [apply resolve_eq_model|]); repeat split.
Qed.

(* ------------------------------------------------------------------------- composition with the model's record *)
(* ServiceStub(ch, timeout=, deadline=, metadata=) from [skw]; then  channel.request(..., **self.__resolve_request_kwargs(t, d, m))
   with the call-level [ckw]: what the three keyword-only arguments of channel.request receive (kw_of_dict: Model/C11SrcGlue.v) *)
Definition src_stub_call_kw (truthy : Z -> bool) (ch : Z) (skw ckw : kw) : result (option kw) :=
  bind (src_init Z truthy ch (k_timeout skw) (k_deadline skw) (k_metadata skw)) (fun self =>
  bind (src_resolve Z truthy self (k_timeout ckw) (k_deadline ckw) (k_metadata ckw)) (fun d =>
  Ok (kw_of_dict d))).

Lemma kw_of_model_dict (self : src_ServiceStub_obj Z) ct cd cm :
  kw_of_dict (model_dict self ct cd cm) =
  Some (Kw (resolve1 (ServiceStub_timeout self) ct) (resolve1 (ServiceStub_deadline self) cd) (resolve1 (ServiceStub_metadata self) cm)).
Proof. reflexivity. Qed.

Lemma stub_call_kw_model truthy ch skw ckw :
  src_stub_call_kw truthy ch skw ckw = Ok (Some (resolve_kwargs skw ckw)).
Proof.
  unfold src_stub_call_kw. rewrite init_stores. cbn [bind]. rewrite resolve_eq_model. cbn [bind].
  rewrite kw_of_model_dict. destruct skw, ckw. reflexivity.
Qed.

Lemma stub_call_kw_spec truthy ch st sd sm ct cd cm :
  src_stub_call_kw truthy ch (Kw st sd sm) (Kw ct cd cm) =
  Ok (Some (Kw (match ct with Some x => Some x | None => st end)
               (match cd with Some x => Some x | None => sd end)
               (match cm with Some x => Some x | None => sm end))).
Proof. rewrite stub_call_kw_model, resolve_kwargs_spec. reflexivity. Qed.

Lemma stub_call_kw_passed svc im skw py a ckw o truthy ch :
  call svc im skw py a ckw = Some o -> src_stub_call_kw truthy ch skw ckw = Ok (Some (ri_kw (ob_req o))).
Proof. intros H. rewrite (call_kwargs _ _ _ _ _ _ _ H). apply stub_call_kw_model. Qed.

(* ------------------------------------------------------------------------- the other reading, for contrast *)
(* what the translator emits for the TRUTHINESS reading of the resolver (seeded change C11-3 / C11-7:
      "timeout": timeout or self.timeout, ...   -> py_or_opt; the translator's self-test checks this rendering).
   It is a different function: with bool() = "non-zero", a call-level 0 loses against the stub-level 11. *)
Definition resolve_truthiness_reading (V : Type) (truthy : V -> bool) (self : src_ServiceStub_obj V) (ct cd cm : option V)
  : result (list (list byte * option V)) :=
  Ok [(key_timeout, py_or_opt truthy ct (ServiceStub_timeout self));
      (key_deadline, py_or_opt truthy cd (ServiceStub_deadline self));
      (key_metadata, py_or_opt truthy cm (ServiceStub_metadata self))].

Lemma truthiness_reading_differs :
  exists (truthy : Z -> bool) self ct cd cm,
    truthy 0 = false /\
    resolve_truthiness_reading Z truthy self ct cd cm <> src_resolve Z truthy self ct cd cm /\
    bind (resolve_truthiness_reading Z truthy self ct cd cm) (fun d => Ok (kw_of_dict d))
      = Ok (Some (Kw (Some 11) (Some 21) (Some 31))) /\
    bind (src_resolve Z truthy self ct cd cm) (fun d => Ok (kw_of_dict d))
      = Ok (Some (Kw (Some 0) (Some 21) (Some 0))).
Proof.
  exists py_truthy_int, (src_ServiceStub_mk 7 (Some 11) (Some 21) (Some 31)), (Some 0), None, (Some 0).
  split; [reflexivity|]. split; [|split; vm_compute; reflexivity].
  rewrite resolve_eq_model. vm_compute. intros H. discriminate H.
Qed.

(* ... and the two readings agree as soon as no call-level object is falsy (boolean side condition per argument) *)
Definition none_or_truthy {V : Type} (truthy : V -> bool) (x : option V) : bool := py_is_none x || py_truthy_opt truthy x.

Lemma truthiness_reading_agrees_on_truthy (V : Type) (truthy : V -> bool) self ct cd cm :
  none_or_truthy truthy ct = true -> none_or_truthy truthy cd = true -> none_or_truthy truthy cm = true ->
  resolve_truthiness_reading V truthy self ct cd cm = src_resolve V truthy self ct cd cm.
Proof.
  intros Ht Hd Hm. rewrite resolve_eq_model. unfold resolve_truthiness_reading, model_dict, py_or_opt, resolve1.
  destruct ct as [x|], cd as [y|], cm as [z|]; cbn [none_or_truthy py_is_none py_truthy_opt is_none orb] in *;
    rewrite ?Ht, ?Hd, ?Hm; reflexivity.
Qed.

(* ------------------------------------------------------------------------- the attribute names, and what the model does not see *)
Definition key_channel : list byte := [x63; x68; x61; x6e; x6e; x65; x6c].

Lemma attr_names : src_ServiceStub_attr_names = [key_channel; key_timeout; key_deadline; key_metadata].
Proof. reflexivity. Qed.

(* A service whose only RPC has the Python name `timeout` (rpc Timeout / rpc timeout).  Model/Grpc.v looks a stub method up in
   the CLASS body only ([stub_class]), so its [call] reaches the handler; on the real object `stub.timeout` is the instance
   attribute stored by __init__ (None, or the float given) and the call raises TypeError before anything is sent.  The
   harness never generates these four names (harness/c11_protogen.py RESERVED_PY), so the sampled correspondence does not
   see the difference.  Stated about the MODEL only; the behaviour of the code is in the report, not in Coq. *)
Definition shadow_svc : service :=
  Service [] [x53] [Method [x54; x69; x6d; x65; x6f; x75; x74] key_timeout false false t_In t_Out].

Lemma shadowed_method_model_witness :
  names_distinct shadow_svc /\ pynames_distinct shadow_svc /\
  existsb (bytes_eqb key_timeout) src_ServiceStub_attr_names = true /\
  option_map (fun o => (ob_trace o, ob_res o)) (call shadow_svc im_one kw0 key_timeout (ArgOne a_msg) kw0)
    = Some ([(key_timeout, InOne (Some a_msg))], CRes [o_msg] CDone).
Proof.
  split; [repeat constructor; intros []|]. split; [repeat constructor; intros []|].
  split; vm_compute; reflexivity.
Qed.
