(* C05, message level, ACCEPT direction: the object the reader builds, part 2: one element and one field of it are
   in range, satisfy the value-side conditions of C05_emit, and denote the abstract value they were read from. *)
From BP Require Import Base.Prelude Model.Types Model.Float Model.Utf8 Model.Object Model.Eq Model.WellFormed Model.TimeCore Spec.Time.
From BP Require Model.Json Model.Enum Model.Casing Spec.JsonMap Model.Time.
From BP Require Import gen.Tables.
From BP Require Import Proofs.BytesP Proofs.C04Def Proofs.C04ScalarP Proofs.C04ElemP Proofs.C04FieldP Proofs.C04ObjP Proofs.C04CurP.
From BP Require Import Proofs.C05Casing Proofs.C05Leaf Proofs.C05Model Proofs.C05MsgDef Proofs.C05MsgSpec Proofs.C05MsgLeaf
                       Proofs.C05MsgElem Proofs.C05MsgField.
From BP Require Import Proofs.C05AccDef Proofs.C05AccSpec Proofs.C05AccLeaf Proofs.C05AccField Proofs.C05AccRead Proofs.C05AccCur.
From Coq Require Import Lia ZifyBool.
Ltac Zify.zify_post_hook ::= Z.to_euclidean_division_equations.

Lemma pv_good5_leaf sc a : pv_good5 sc (conc_leaf a) = true.
Proof. destruct a; reflexivity. Qed.

Lemma time_nonzero s n : wf_time s n = true -> (s =? 0) && (n =? 0) = false -> s * 1000000 + n / 1000 <> 0.
Proof. unfold wf_time. intros W Z. lia. Qed.
Lemma dur_nonzero s n : wf_dur s n = true -> (s =? 0) && (n =? 0) = false -> s * 1000000 + Z.quot n 1000 <> 0.
Proof.
  unfold wf_dur, S.dur_in_range. intros W Z.
  assert (Q : n = 1000 * Z.quot n 1000) by (pose proof (Z.quot_rem' n 1000); lia).
  set (q := Z.quot n 1000) in *. clearbody q. lia.
Qed.

Section Elem.
  Variable sc : schema.
  Variable js : S.jschema.
  Variable off : nat.
  Hypothesis JM : js_matches off sc js = true.
  Let nj := length (S.jclasses js).
  Let nc := length (classes sc).
  Let ne := length (enums sc).
  Notation wfa := (wf_aval sc js off).
  Notation cel := (conc_elem sc js off).

  Definition obj_ok (c : nat) (afs : list S.afield) : Prop :=
    in_range sc (conc_obj sc js off c afs) = true /\ pv_good5 sc (PMsg (conc_obj sc js off c afs)) = true /\
    abs_obj sc (conc_obj sc js off c afs) = S.AMsg afs.

  Variable n : nat.
  Hypothesis IHm : forall c afs, (aval_size (S.AMsg afs) < n)%nat -> wfa (S.JMsg c) (S.AMsg afs) = true -> obj_ok c afs.

  Lemma elem_ok t p v :
    (aval_size v < n)%nat -> pyty_fits nc ne t p = true ->
    (forall c, p = PyMsg c -> (off <= c)%nat /\ (c - off < nj)%nat) ->
    wfa (kind_of_elem off t p) v = true ->
    let x := cel (kind_of_elem off t p) v in
    elem_in_range sc t p x = true /\ pv_good5 sc x = true /\ nan_canonical x = true /\ abs_elem sc p x = v /\
    x <> PPlaceholder /\ x <> PNone.
  Proof.
    intros Hs Hp Hm W x. subst x.
    destruct (scalar_py p) eqn:Sp.
    - pose proof (fits_scalar _ _ _ _ Sp Hp) as Ht. rewrite (elem_scalar _ _ _ _ Sp).
      destruct (skind_of t) as [k|] eqn:K.
      + assert (Kd : kind_of_elem off t p = S.JScalar k).
        { unfold kind_of_elem, sk. rewrite K. destruct t; try discriminate K; destruct p; try discriminate Hp; reflexivity. }
        rewrite Kd in *.
        assert (Lf : match v with S.AMsg _ | S.ATime _ _ | S.ADur _ _ | S.AEnum _ => False | _ => True end)
          by (destruct v; try discriminate W; exact I).
        assert (Wl : wf_leaf k v = true) by (destruct v; try contradiction Lf; exact W).
        destruct (scalar_read sc js off t k p v K Hp Wl) as (j & _ & _ & R & N & A).
        rewrite (conc_elem_leaf sc js off (S.JScalar k) v) by (destruct v; try contradiction Lf; exact I).
        repeat split; try assumption; try apply pv_good5_leaf; destruct v; try contradiction Lf; discriminate.
      + destruct t; try discriminate K; try discriminate Ht. destruct p; try discriminate Hp.
        cbn [kind_of_elem] in *. destruct v; try discriminate W. cbn [wf_aval] in W.
        cbn [conc_elem scalar_in_range abs_elem nan_canonical]. unfold int_in. repeat split; try reflexivity; try discriminate. lia.
    - pose proof (fits_message _ _ _ _ Sp Hp) as ->.
      destruct p; try discriminate Sp; cbn [kind_of_elem] in *.
      + destruct (Hm _ eq_refl) as [M1 M2].
        destruct v as [| | | | | | | |afs]; try discriminate W.
        destruct (IHm (c - off) afs Hs W) as (R & G & A).
        rewrite conc_elem_msg, abs_elem_msg.
        assert (Ec : ocls (conc_obj sc js off (c - off) afs) = c) by (cbn; lia).
        repeat split; try assumption; try discriminate.
        unfold in_range in R. rewrite Ec in R. exact R.
      + destruct v; try discriminate W. cbn [wf_aval] in W. destruct (time_read s n0 W) as (_ & R & T).
        cbn [conc_elem elem_in_range abs_elem nan_canonical]. rewrite T. repeat split; try assumption; try reflexivity; discriminate.
      + destruct v; try discriminate W. cbn [wf_aval] in W. destruct (dur_read s n0 W) as (_ & R & T).
        cbn [conc_elem elem_in_range abs_elem nan_canonical]. rewrite T. repeat split; try assumption; try reflexivity; discriminate.
  Qed.

  (* the default of an implicit-presence field, read back from the abstract side *)
  Lemma default_val_abs t p v :
    scalar_py p = true -> pyty_fits nc ne t p = true -> wfa (kind_of_elem off t p) v = true ->
    S.is_default_val v = true -> v = abs_default p.
  Proof.
    intros Sp Hp W D.
    destruct p; try discriminate Sp; destruct t; try discriminate Hp; cbn [kind_of_elem sk skind_of] in W;
      destruct v; try discriminate W; cbn [S.is_default_val] in D; cbn [abs_default];
      try (apply Z.eqb_eq in D; subst; reflexivity);
      try (destruct b; [discriminate D|reflexivity]);
      try (destruct s; [reflexivity|discriminate D]);
      try (destruct b; [reflexivity|discriminate D]).
  Qed.
End Elem.
