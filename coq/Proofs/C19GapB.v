(* C19 gap closing, part B: the boolean (harness-evaluable) forms of the class-level statements of C19GapA.v, and the
   relation between the two protoc rules. *)
From Coq Require Import List Bool Lia.
From BP Require Import Base.Prelude Model.Casing Model.C19GapDefs.
From BP Require Import Proofs.BytesP Proofs.CasingP Proofs.CasingP2 Proofs.CasingP3 Proofs.CasingX3 Proofs.C19GapA.
From BP Require Spec.JsonMap.
Import ListNotations.

Lemma opt_is_iff o x : opt_is o x = true <-> o = Some x.
Proof.
  unfold opt_is. destruct o as [y|]; [|split; intros H; discriminate H].
  rewrite str_eqb_eq. split; [intros ->; reflexivity|intros H; injection H as ->; reflexivity].
Qed.

(* keys_back is the decision procedure of "the three keys of the field named s address that field" *)
Lemma keys_back_iff names s :
  keys_back names s = true <->
  (let fs := fields_of names in let F := pythonize_field_name s in
   field_for_key fs (camel_key F) = Some F /\ field_for_key fs (snake_key F) = Some F /\ field_for_key fs s = Some F).
Proof.
  unfold keys_back. cbv zeta. rewrite !andb_true_iff, !opt_is_iff. tauto.
Qed.

Lemma distinct_by_inj k l : distinct_by k l = true -> forall s t, In s l -> In t l -> k s = k t -> s = t.
Proof.
  induction l as [|x r IH]; [intros _ s t []|]. cbn [distinct_by]. intros H. apply andb_true_iff in H. destruct H as [Hx Hr].
  apply negb_true_iff in Hx.
  assert (N : forall t, In t r -> k x <> k t).
  { intros t It E. assert (mem_bytes (k x) (map k r) = true) as M by (apply mem_bytes_in; rewrite E; apply in_map; exact It).
    rewrite M in Hx. discriminate Hx. }
  intros s t [<-|Is] [<-|It] E.
  - reflexivity.
  - exfalso. exact (N t It E).
  - exfalso. exact (N s Is (eq_sym E)).
  - exact (IH Hr s t Is It E).
Qed.

Lemma legacy_rule_hyps names : legacy_rule_ok names = true ->
  (forall s, In s names -> ident_chars s = true) /\
  (forall s t, In s names -> In t names -> legacy_key s = legacy_key t -> s = t).
Proof.
  unfold legacy_rule_ok. intros H. apply andb_true_iff in H. destruct H as [P D]. split.
  - intros s Hs. rewrite forallb_forall in P. apply is_identifier_ident_chars. exact (P s Hs).
  - exact (distinct_by_inj legacy_key names D).
Qed.

(* the headline in boolean form: a class that satisfies the proto3 rule of protoc <= 21 loses no key *)
Lemma legacy_rule_keys_back names : legacy_rule_ok names = true -> forallb (keys_back names) names = true.
Proof.
  intros H. destruct (legacy_rule_hyps names H) as [I U]. apply forallb_forall. intros s Hs.
  apply keys_back_iff. exact (legacy_class_keys_back names I U s Hs).
Qed.

(* ... and no two of its fields share an attribute *)
Lemma legacy_rule_attrs_distinct names : legacy_rule_ok names = true ->
  forall s t, In s names -> In t names ->
    (pythonize_field_name s = pythonize_field_name t \/ camel_key (pythonize_field_name s) = camel_key (pythonize_field_name t)
     \/ snake_key (pythonize_field_name s) = snake_key (pythonize_field_name t)) -> s = t.
Proof.
  intros H s t Hs Ht. destruct (legacy_rule_hyps names H) as [I U].
  destruct (field_names_distinct_legacy names I U s t Hs Ht) as (A & B & C). intros [E|[E|E]]; auto.
Qed.

(* ---- the two protoc rules: ToLowercaseWithoutUnderscores(s) = lower (ToJsonName s), so the legacy rule implies the
   rule of protoc >= 22 (a class accepted under the old rule is accepted under the new one; not conversely:
   C19_json_rule_collision_refuted) ---- *)
Lemma is_us_b_is_us c : JsonMap.is_us_b c = is_us c.
Proof. destruct c; reflexivity. Qed.

Lemma to_lower_ascii_upper c : to_lower (JsonMap.ascii_upper c) = to_lower c.
Proof. destruct c; reflexivity. Qed.

Lemma lower_to_json_name l : forall cap, lower (JsonMap.to_json_name cap l) = legacy_key l.
Proof.
  unfold legacy_key. induction l as [|c r IH]; intros cap; [reflexivity|]. cbn [JsonMap.to_json_name filter].
  rewrite is_us_b_is_us. unfold not_us at 1. destruct (is_us c); cbn [negb]; [apply IH|].
  cbn [lower map]. change (map to_lower ?x) with (lower x). rewrite IH.
  destruct cap; [rewrite to_lower_ascii_upper|]; reflexivity.
Qed.

Lemma legacy_key_json_name s : legacy_key s = lower (JsonMap.protoc_json_name s).
Proof. symmetry. apply lower_to_json_name. Qed.

Lemma distinct_by_weaken (k k' : list byte -> list byte) (h : list byte -> list byte) :
  (forall x, k x = h (k' x)) -> forall l, distinct_by k l = true -> distinct_by k' l = true.
Proof.
  intros E. induction l as [|x r IH]; [reflexivity|]. cbn [distinct_by]. intros H. apply andb_true_iff in H. destruct H as [Hx Hr].
  rewrite (IH Hr), andb_true_r. apply negb_true_iff. apply negb_true_iff in Hx.
  destruct (mem_bytes (k' x) (map k' r)) eqn:M; [|reflexivity]. exfalso.
  apply mem_bytes_in in M. apply in_map_iff in M. destruct M as (t & Et & It).
  assert (mem_bytes (k x) (map k r) = true) as M'.
  { apply mem_bytes_in. rewrite (E x), <- Et, <- (E t). apply in_map. exact It. }
  rewrite M' in Hx. discriminate Hx.
Qed.

Lemma legacy_rule_implies_json_rule names : legacy_rule_ok names = true -> json_rule_ok names = true.
Proof.
  unfold legacy_rule_ok, json_rule_ok. intros H. apply andb_true_iff in H. destruct H as [P D]. rewrite P. cbn [andb].
  exact (distinct_by_weaken legacy_key JsonMap.protoc_json_name lower legacy_key_json_name names D).
Qed.
