(* C01 layer 3c — elements: one value of each kind, written by _serialize_single under any field number,
   is framed as one record whose decoded value ([decode_value]) is the normalised value.
   Scalars here; Timestamp / Duration / wrappers / nested messages / map entries in C01Nested.v. *)
From Coq Require Import ZArith List Bool Lia ZifyBool.
From BP Require Import Base.Prelude Model.Types Model.Varint Model.Scalar Model.Float Model.Utf8.
From BP Require Import Model.Object Model.Eq Model.TimeCore Model.Encode Model.Decode Model.WellFormed Model.C01Def.
From BP Require Import gen.Tables Proofs.BytesP Proofs.VarintP Proofs.LenP Proofs.C01Scalar Proofs.C01Frame Proofs.C01Step.
Ltac Zify.zify_post_hook ::= Z.to_euclidean_division_equations.

(* no Python object reaches 2^64 bytes; the length prefix of such a payload would not be read back *)
Definition small (bs : list byte) : Prop := Zlength bs < 2 ^ 64.

Lemma small_app_l a b : small (a ++ b) -> small a.
Proof. unfold small. rewrite Zlength_app. pose proof (Zlength_nonneg b). lia. Qed.
Lemma small_app_r a b : small (a ++ b) -> small b.
Proof. unfold small. rewrite Zlength_app. pose proof (Zlength_nonneg a). lia. Qed.

(* length-delimited _serialize_single without the size hypothesis up front *)
Lemma ser_len2 msg num t v se w val :
  tmem t WIRE_LEN_DELIM_TYPES = true -> 1 <= num < 2 ^ 29 ->
  preprocess_with msg t w v = Ok val ->
  exists bs, serialize_with msg num t v se w = Ok bs /\
             (bs = [] -> val = [] /\ se = false /\ w = None) /\
             (val = [] -> se = false -> w = None -> bs = []) /\
             (val <> [] \/ se = true \/ w <> None -> bs <> []) /\
             (bs <> [] -> small bs -> reads bs (mkP num 2 0 val bs) /\ (length val < length bs)%nat).
Proof.
  intros Ht Hn Hp. unfold serialize_with. rewrite Hp. cbn [bind].
  assert (Hv0 : tmem t WIRE_VARINT_TYPES = false) by (destruct t; try reflexivity; vm_compute in Ht; discriminate).
  assert (Hv1 : tmem t WIRE_FIXED_32_TYPES = false) by (destruct t; try reflexivity; vm_compute in Ht; discriminate).
  assert (Hv2 : tmem t WIRE_FIXED_64_TYPES = false) by (destruct t; try reflexivity; vm_compute in Ht; discriminate).
  rewrite Hv0, Hv1, Hv2, Ht.
  destruct (negb (Zlength val =? 0) || se || match w with Some _ => true | None => false end) eqn:Hc.
  - destruct (tag_fields num 2 Hn ltac:(lia)) as (Hr & _).
    destruct (varint_rt_nonneg _ Hr) as (key & E & Nk & _). rewrite E. cbn [bind].
    pose proof (Zlength_nonneg val) as H0.
    destruct (encode_nonneg_canonical (Zlength val) H0) as (n & E' & _). rewrite E'. cbn [bind].
    eexists. split; [reflexivity|].
    split; [intros Habs; destruct key; [congruence|discriminate]|].
    split.
    { intros -> -> ->. cbn in Hc. discriminate. }
    split; [intros _; destruct key; [congruence|discriminate]|].
    intros _ Hs. split.
    + apply reads_len; auto. apply small_app_r in Hs. apply small_app_r in Hs. exact Hs.
    + rewrite !app_length. destruct key; [congruence|]. cbn [length]. lia.
  - exists []. split; [reflexivity|].
    apply orb_false_iff in Hc as [Hc Hw]. apply orb_false_iff in Hc as [Hc Hse].
    apply negb_false_iff in Hc. rewrite Zlength_zero_iff in Hc.
    split; [intros _; destruct val; [|discriminate]; destruct w; [discriminate|]; auto|].
    split; [reflexivity|].
    split; [|congruence].
    intros [H|[H|H]]; [destruct val; congruence | congruence | destruct w; [discriminate|congruence]].
Qed.

(* [v], as an element of type (t, ety, wraps), is written as at most one record, which decodes to [v'];
   it is written as nothing only without serialize_empty, and then [Empty] holds of it *)
Definition elem_enc (msg : option ptype -> pv -> result (list byte)) (fuel' : nat) (sc : schema)
           (t : ptype) (ety : pyty) (wraps : option ptype) (v v' : pv) (Empty : Prop) : Prop :=
  forall num se, 1 <= num < 2 ^ 29 ->
  exists bs, serialize_with msg num t v se wraps = Ok bs /\
    (bs = [] -> se = false /\ Empty) /\
    (se = true -> bs <> []) /\
    (bs <> [] -> small bs -> (length bs <= fuel')%nat ->
       exists p, reads bs p /\ pnum p = num /\
         forall f, fty f = t -> hint_elem (fhint f) = ety -> fwraps f = wraps ->
                   wire_type_fits f (pwt p) = true /\ decode_value fuel' sc f p = Ok v').

Lemma reads_nonempty bs p : reads bs p -> bs <> [].
Proof. intros (H & _). exact H. Qed.

Section Scalars.
  Variables (msg : option ptype -> pv -> result (list byte)) (fuel' : nat) (sc : schema).

  Lemma elem_varint t ety v :
    tmem t WIRE_VARINT_TYPES = true -> scalar_in_range t v = true ->
    elem_enc msg fuel' sc t ety None v v False.
  Proof.
    intros Ht Hr num se Hn.
    destruct (scalar_varint_rt msg t v Ht Hr) as (val & n & Pv & Nv & Lv & Post).
    destruct (ser_varint msg num t v se None val n Ht Hn Pv Lv) as (bs & Es & Rd).
    exists bs. split; [exact Es|]. pose proof (reads_nonempty _ _ Rd) as Hne.
    split; [congruence|]. split; [auto|]. intros _ _ _.
    eexists. split; [exact Rd|]. split; [reflexivity|].
    intros f Hft _ _. cbn [pwt pint]. unfold wire_type_fits, decode_value. cbn [pwt pint].
    change (0 =? WIRE_VARINT) with true. change (0 =? WIRE_LEN_DELIM) with false. cbv iota. cbn [andb].
    rewrite Hft, Ht, Post. auto.
  Qed.

  Lemma preprocess_fixed t v : tmem t FIXED_TYPES = true -> preprocess_with msg t None v = pack_value t v.
  Proof.
    intros Hf. unfold preprocess_with.
    replace (tmem t [TEnum; TBool; TInt32; TInt64; TUInt32; TUInt64]) with false
      by (destruct t; try reflexivity; vm_compute in Hf; discriminate).
    replace (tmem t [TSInt32; TSInt64]) with false by (destruct t; try reflexivity; vm_compute in Hf; discriminate).
    rewrite Hf. reflexivity.
  Qed.

  Lemma elem_fixed t ety v :
    tmem t FIXED_TYPES = true -> scalar_in_range t v = true ->
    elem_enc msg fuel' sc t ety None v (norm_scalar t v) False.
  Proof.
    intros Ht Hr num se Hn.
    destruct (scalar_fixed_rt t v Ht Hr) as (val & Pv & Lv & Uv).
    rewrite <- preprocess_fixed in Pv by exact Ht. unfold fixed_size in Lv.
    destruct (tmem t WIRE_FIXED_32_TYPES) eqn:H32.
    - destruct (ser_fixed32 msg num t v se None val H32 Hn Pv Lv) as (bs & Es & Rd).
      exists bs. split; [exact Es|]. pose proof (reads_nonempty _ _ Rd) as Hne.
      split; [congruence|]. split; [auto|]. intros _ _ _.
      eexists. split; [exact Rd|]. split; [reflexivity|].
      intros f Hft _ _. unfold wire_type_fits, decode_value. cbn [pwt pbytes].
      change (5 =? WIRE_VARINT) with false. change (5 =? WIRE_LEN_DELIM) with false.
      change (5 =? WIRE_FIXED_32) with true. cbv iota. cbn [andb orb].
      rewrite Hft, H32, Uv. auto.
    - assert (H64 : tmem t WIRE_FIXED_64_TYPES = true)
        by (destruct t; try reflexivity; vm_compute in Ht; vm_compute in H32; discriminate).
      destruct (ser_fixed64 msg num t v se None val H64 Hn Pv Lv) as (bs & Es & Rd).
      exists bs. split; [exact Es|]. pose proof (reads_nonempty _ _ Rd) as Hne.
      split; [congruence|]. split; [auto|]. intros _ _ _.
      eexists. split; [exact Rd|]. split; [reflexivity|].
      intros f Hft _ _. unfold wire_type_fits, decode_value. cbn [pwt pbytes].
      change (1 =? WIRE_VARINT) with false. change (1 =? WIRE_LEN_DELIM) with false.
      change (1 =? WIRE_FIXED_32) with false. change (1 =? WIRE_FIXED_64) with true. cbv iota. cbn [andb orb].
      rewrite Hft, H64, Uv. auto.
  Qed.

  (* a length-delimited record of a non-packed, non-map field goes to post_len *)
  Lemma decode_len f num val bs :
    tmem (fty f) WIRE_LEN_DELIM_TYPES = true -> ptype_eqb (fty f) TMap = false ->
    wire_type_fits f (pwt (mkP num 2 0 val bs)) = true /\
    decode_value fuel' sc f (mkP num 2 0 val bs)
    = post_len fuel' sc f (fty f) (hint_elem (fhint f)) (fwraps f) val.
  Proof.
    intros Ht Hm. unfold wire_type_fits, decode_value. cbn [pwt pbytes].
    change (2 =? WIRE_VARINT) with false. change (2 =? WIRE_LEN_DELIM) with true.
    change (2 =? WIRE_FIXED_32) with false. change (2 =? WIRE_FIXED_64) with false. cbv iota. cbn [andb orb].
    rewrite Ht, Hm. cbn [orb].
    replace (tmem (fty f) PACKED_TYPES) with false; [auto|].
    destruct (fty f); try reflexivity; vm_compute in Ht; discriminate.
  Qed.

  (* the common shape of the length-delimited kinds *)
  Lemma elem_len t ety wraps v v' val (Empty : Prop) :
    tmem t WIRE_LEN_DELIM_TYPES = true -> ptype_eqb t TMap = false ->
    preprocess_with msg t wraps v = Ok val ->
    (val = [] -> wraps = None -> Empty) ->
    (small val -> (length val < fuel')%nat -> forall f, post_len fuel' sc f t ety wraps val = Ok v') ->
    elem_enc msg fuel' sc t ety wraps v v' Empty.
  Proof.
    intros Ht Hm Hp Hemp Hpost num se Hn.
    destruct (ser_len2 msg num t v se wraps val Ht Hn Hp) as (bs & Es & He & _ & Hne & Hr).
    exists bs. split; [exact Es|].
    split; [intros Hb; destruct (He Hb) as (Hv & Hse & Hw); auto|].
    split; [intros Hse; apply Hne; auto|].
    intros Hb Hs Hl. destruct (Hr Hb Hs) as (Rd & Hlen).
    eexists. split; [exact Rd|]. split; [reflexivity|].
    intros f Hft Hety Hfw. subst t ety wraps.
    destruct (decode_len f num val bs Ht Hm) as (Hfit & Hdec). split; [exact Hfit|].
    rewrite Hdec. apply Hpost; [|lia].
    destruct Rd as (_ & _ & _). unfold small in *. unfold Zlength in *. lia.
  Qed.

  Lemma elem_string ety s :
    utf8_valid s = true -> elem_enc msg fuel' sc TString ety None (PStr s) (PStr s) (s = []).
  Proof.
    intros Hu. apply (elem_len TString ety None (PStr s) (PStr s) s); try reflexivity; auto.
    intros _ _ f. unfold post_len. cbn [ptype_eqb ptype_tag Z.eqb]. rewrite Hu. reflexivity.
  Qed.

  Lemma elem_bytes ety b : elem_enc msg fuel' sc TBytes ety None (PBytes b) (PBytes b) (b = []).
  Proof.
    apply (elem_len TBytes ety None (PBytes b) (PBytes b) b); try reflexivity; auto.
  Qed.

  (* every scalar kind at once *)
  Definition scalar_empty (v : pv) : Prop := v = PStr [] \/ v = PBytes [].

  Lemma elem_scalar t ety v :
    tmem t scalar_ptypes = true -> scalar_in_range t v = true ->
    elem_enc msg fuel' sc t ety None v (norm_scalar t v) (scalar_empty v).
  Proof.
    intros Ht Hr.
    assert (Hmono : forall (E1 E2 : Prop) v', (E1 -> E2) -> elem_enc msg fuel' sc t ety None v v' E1 ->
                                              elem_enc msg fuel' sc t ety None v v' E2).
    { intros E1 E2 v' HE H num se Hn. destruct (H num se Hn) as (bs & A & B & C & D).
      exists bs. split; [exact A|]. split; [intros Hb; destruct (B Hb); auto|]. auto. }
    destruct (tmem t WIRE_VARINT_TYPES) eqn:Hv.
    { assert (norm_scalar t v = v) as -> by (destruct t; try reflexivity; vm_compute in Hv; discriminate).
      apply (Hmono False); [tauto|]. apply elem_varint; assumption. }
    destruct (tmem t FIXED_TYPES) eqn:Hf.
    { apply (Hmono False); [tauto|]. apply elem_fixed; assumption. }
    destruct t; try (vm_compute in Ht; discriminate); try (vm_compute in Hv; discriminate);
      try (vm_compute in Hf; discriminate); destruct v; try discriminate Hr; cbn [norm_scalar].
    - apply (Hmono (utf8 = [])); [intros ->; left; reflexivity|]. apply elem_string. exact Hr.
    - apply (Hmono (b = [])); [intros ->; right; reflexivity|]. apply elem_bytes.
  Qed.
End Scalars.
