(* C08 — gap analysis of the property text against Properties/C08.v, and the first group of gap-closing proofs.

   PROPERTY TEXT, clause by clause  ->  theorems that existed  ->  gap  ->  closed by (GapA = this file, GapB = C08GapB.v)

   (1) "Fields present on the wire but absent from the receiving schema"
         -> is_unknown / unknown_nw are DEFINITIONS (field_by_number = None, or the type does not fit); no theorem said that
            this is the property's notion ("number absent from the schema").
         gap: characterisation.  -> GapA unknown_iff: a record is kept verbatim EXACTLY when no field of the class carries its
            number, or the field that does cannot arrive with its wire type (under unique numbers); fbn_none_iff (no side
            condition): field_by_number = None iff the number is declared by no field.
   (2) "(any field number, any of the varint / fixed32 / fixed64 / length-delimited wire types, any position)"
         -> C08_raw_preserved(_spec), C08_known_undisturbed(_conv,_spec): all records, all positions, Ok-results only.
         gap a: the wire-type / number quantifier is implicit in [records].  -> GapA undeclared_unknown_all_wire_types.
         gap b: "any position" is stated through known_raw / unknown_raw of a record list; no theorem speaks about INSERTING a
            well-formed unknown sequence between two byte strings.  -> GapA insert_anywhere (specification-level unknown
            sequence u, any split point a | b; full equation, failures included) and interleaving_irrelevant (two inputs with
            the same known and the same unknown subsequences parse alike, whatever the interleaving).
   (3) "do not disturb the decoding of known fields"
         -> C08_known_undisturbed / _conv: when parse returns.  gap: nothing about inputs on which parse RAISES (an unknown
            record could change which exception is raised, or turn one into another).
         -> GapA parse_unknown_exact: parse bs = rmap (attach unknown bytes) (parse (known part)) as an EQUATION of results:
            same exception kind, for every byte string of complete records (needs fuel irrelevance for failing runs, taken
            from C17's load_fuel_irrelevant).  unknown_err_iff is the error half on its own.
         -> GapB accept_unknown_irrelevant: composition with C17_accept_iff: bs is [valid] iff its known part is.
   (4) "and are re-emitted byte-for-byte when the message is encoded again"
         -> C08_reemit (bytes(m) = body ++ ounk m) and C08_raw_preserved, never composed.
         gap a: composition.  -> GapA reemit_parse(_spec): bytes(Cls().parse(bs)) = bytes(known state) ++ the unknown records of
            bs, verbatim and in order.
         gap b: C09 composition (len counts the unknown bytes).  -> GapA len_unknown, len_parse.
         gap c: "again" = every later cycle.  -> GapB evolution_cycle: the newer / older / newer / older ... chain is 2-periodic
            (b1 -> b2 -> b1), so nothing degrades on repeated passes.  (older -> older directly: see the report; not proved.)
   (5) "Consequently data written with a newer schema, passed through a reader/writer using an older schema, and read again with
        the newer schema is unchanged."
         -> C08_evolution (unconditional in the schema / mask / value conditions), C08_older_reader_total, C08_split_free_canonical.
         gap a: its value hypothesis c01_value_ok is sampled by the harness, not derived.  -> GapB evolution_reachable(_parse):
            discharged for every object a public-API history (run7) produces, under the operation-level conditions of C01.
         gap b: c01_value_ok excludes messages that carry unknown bytes, while the quantifier says "for all well-formed unknown-field
            byte sequences interleaved at any position among known fields" TOGETHER with evolution.  -> GapB
            evolution_with_unknown: bytes(m) with any records unknown to the NEWER class interleaved anywhere at the top level
            still go through the older reader/writer losslessly, and the extra records come back verbatim, in order.
            (unknown records inside nested messages of m: not covered, see report.)
         gap c: "unchanged" / "lossless" as injectivity.  -> GapB evolution_injective: what the older writer emits determines bytes(m).
         gap d: the older reader's length accounting (C09).  -> GapB older_len.
   (6) quantifier "older schema obtained by deleting any subset of fields": C08_evolution has it (masks at every depth); masks_ok is
       exact by the two _refuted witnesses of Properties/C08.v.  No gap.
   (7) quantifier "all values": c01_value_ok; exactness of its components is C01's business (C01_*_refuted), reachability see (5a). *)
From Coq Require Import ZArith List Bool Lia.
From BP Require Import Base.Prelude Model.Types Model.Varint Model.Scalar Model.Float Model.Utf8.
From BP Require Import Model.Object Model.Eq Model.TimeCore Model.Encode Model.Decode Model.Len Model.WellFormed Model.C08Step.
From BP Require Import Spec.Varint Spec.C08Wire.
From BP Require Import gen.Tables Proofs.C08FrameP Proofs.C08StepP Proofs.C08UnknownP Proofs.C08WireP Proofs.C08EvolutionP.
From BP Require Proofs.LenP Proofs.LenP2 Proofs.C17Main2P.
Import ListNotations.

(* ---------- fuel irrelevance of one step, failing runs included ---------- *)
Lemma parse_new_irrel f1 f2 sc c' bs :
  (length bs < f1)%nat -> (length bs < f2)%nat -> parse_new f1 sc c' bs = parse_new f2 sc c' bs.
Proof.
  intros H1 H2. unfold parse_new.
  rewrite (C17Main2P.load_fuel_irrelevant sc f1 f2 (new sc c') bs None H1 H2). reflexivity.
Qed.

Lemma post_len_irrel f1 f2 sc f t ety w bs :
  (length bs < f1)%nat -> (length bs < f2)%nat -> post_len f1 sc f t ety w bs = post_len f2 sc f t ety w bs.
Proof.
  intros H1 H2. unfold post_len.
  destruct (ptype_eqb t TString); [reflexivity|].
  destruct (ptype_eqb t TMessage); [|reflexivity].
  destruct ety; destruct w as [w|]; try reflexivity;
    try (destruct (wrapper_cls w)); try reflexivity;
    match goal with
    | |- context [parse_new f1 sc ?c ?b] => rewrite (parse_new_irrel f1 f2 sc c b H1 H2); reflexivity
    end.
Qed.

Lemma decode_value_irrel f1 f2 sc f p :
  (length (pbytes p) < f1)%nat -> (length (pbytes p) < f2)%nat -> decode_value f1 sc f p = decode_value f2 sc f p.
Proof.
  intros H1 H2. unfold decode_value.
  destruct ((pwt p =? WIRE_LEN_DELIM) && tmem (fty f) PACKED_TYPES); [reflexivity|].
  destruct (pwt p =? WIRE_VARINT); [reflexivity|].
  destruct ((pwt p =? WIRE_FIXED_32) || (pwt p =? WIRE_FIXED_64)); [reflexivity|].
  destruct (ptype_eqb (fty f) TMap).
  - rewrite (parse_new_irrel f1 f2 sc _ _ H1 H2). reflexivity.
  - apply post_len_irrel; assumption.
Qed.

Lemma step_irrel f1 f2 sc cd o p :
  (length (pbytes p) < f1)%nat -> (length (pbytes p) < f2)%nat -> step f1 sc cd o p = step f2 sc cd o p.
Proof.
  intros H1 H2. rewrite !step_eq.
  destruct (field_by_number cd (pnum p)) as [[i f]|]; [|reflexivity].
  destruct (negb (wire_type_fits f (pwt p))); [reflexivity|].
  rewrite (decode_value_irrel f1 f2 sc f p H1 H2). reflexivity.
Qed.

Lemma fold_irrel f1 f2 sc cd : forall ps o,
  (forall p, In p ps -> (length (pbytes p) < f1)%nat /\ (length (pbytes p) < f2)%nat) ->
  fold_steps f1 sc cd o ps = fold_steps f2 sc cd o ps.
Proof.
  induction ps as [|p ps IH]; intros o H; [reflexivity|].
  cbn [fold_steps]. destruct (H p (or_introl eq_refl)) as [A B].
  rewrite (step_irrel f1 f2 sc cd o p A B).
  destruct (step f2 sc cd o p) as [o1|]; cbn [bind]; [|reflexivity].
  apply IH. intros q Hq. apply H. right. exact Hq.
Qed.

(* Cls().parse(bs) on a byte string of complete records IS the fold, as an equation of results *)
Lemma parse_records_eq sc c bs ps :
  records bs ps -> parse sc c bs = fold_steps (length bs) sc (get_class sc c) (touch (new sc c)) ps.
Proof.
  intros Hrec. unfold parse, parse_into. rewrite load_run, ocls_new.
  rewrite (run_of_records _ _ _ _ _ Hrec) by lia.
  destruct (fold_steps (length bs) sc (get_class sc c) (touch (new sc c)) ps); reflexivity.
Qed.

Lemma rmap_rmap {A B C} (g : B -> C) (h : A -> B) (r : result A) : rmap g (rmap h r) = rmap (fun a => g (h a)) r.
Proof. destruct r; reflexivity. Qed.

Lemma rmap_ext {A B} (g h : A -> B) (r : result A) : (forall a, g a = h a) -> rmap g r = rmap h r.
Proof. intros E. destruct r; cbn [rmap]; [rewrite E|]; reflexivity. Qed.

(* (3) THE FULL EQUATION: unknown records do not disturb the result of parse AT ALL — not the object, not whether it raises,
   not which exception it raises.  For every schema, class and byte string of complete records. *)
Theorem parse_unknown_exact sc c bs ps :
  records bs ps ->
  parse sc c bs = rmap (fun m' => set_unk m' (unknown_raw (get_class sc c) ps))
                       (parse sc c (known_raw (get_class sc c) ps)).
Proof.
  intros Hrec. set (cd := get_class sc c).
  pose proof (records_filter (known cd) _ _ Hrec) as HrK.
  rewrite (parse_records_eq sc c bs ps Hrec).
  rewrite known_raw_eq. rewrite (parse_records_eq sc c _ _ HrK). fold cd.
  rewrite <- (touch_new_unk sc c) at 1. rewrite fold_split. cbn [app]. rewrite touch_new_unk.
  f_equal. apply fold_irrel. intros p Hp. split.
  - apply filter_In in Hp as [Hp _]. apply (records_length _ _ Hrec p Hp).
  - apply (records_length _ _ HrK p Hp).
Qed.

(* the error half on its own: parse raises e on bs iff it raises e on the known part of bs *)
Theorem unknown_err_iff sc c bs ps e :
  records bs ps -> (parse sc c bs = Err e <-> parse sc c (known_raw (get_class sc c) ps) = Err e).
Proof.
  intros Hrec. rewrite (parse_unknown_exact sc c bs ps Hrec).
  destruct (parse sc c (known_raw (get_class sc c) ps)); cbn [rmap]; split; congruence.
Qed.

(* ---------- bookkeeping: known / unknown parts of concatenations ---------- *)
Lemma raw_of_app a b : raw_of (a ++ b) = raw_of a ++ raw_of b.
Proof. unfold raw_of. rewrite map_app, concat_app. reflexivity. Qed.

Lemma unknown_raw_app cd a b : unknown_raw cd (a ++ b) = unknown_raw cd a ++ unknown_raw cd b.
Proof. unfold unknown_raw. rewrite filter_app. apply raw_of_app. Qed.

Lemma known_raw_app cd a b : known_raw cd (a ++ b) = known_raw cd a ++ known_raw cd b.
Proof. unfold known_raw. rewrite filter_app. apply raw_of_app. Qed.

Lemma all_unknown_raw cd ps :
  (forall p, In p ps -> is_unknown cd p = true) -> unknown_raw cd ps = raw_of ps /\ known_raw cd ps = [].
Proof.
  intros H. unfold unknown_raw, known_raw, raw_of. induction ps as [|p ps IH]; [split; reflexivity|].
  cbn [filter]. rewrite (H p (or_introl eq_refl)). cbn [negb map concat].
  destruct IH as [I1 I2]; [intros q Hq; apply H; right; exact Hq|]. rewrite I1. split; [reflexivity | exact I2].
Qed.

(* a specification-level sequence of records all of which the class does not know *)
Lemma spec_unknown_seq cd u rs :
  wire_records u rs -> forallb (t_unknown cd) rs = true ->
  exists pu, records u pu /\ unknown_raw cd pu = u /\ known_raw cd pu = [].
Proof.
  intros Hw Hall. destruct (wire_records_sound _ _ Hw) as (pu & Hrec & Hmap). exists pu. split; [exact Hrec|].
  assert (Hu : forall p, In p pu -> is_unknown cd p = true).
  { intros p Hp. rewrite forallb_forall in Hall. specialize (Hall (triple p)).
    change (t_unknown cd (triple p)) with (is_unknown cd p) in Hall. apply Hall. rewrite <- Hmap. apply in_map. exact Hp. }
  destruct (all_unknown_raw cd pu Hu) as [E1 E2]. split; [|exact E2]. rewrite E1. symmetry. apply records_raw. exact Hrec.
Qed.

(* (2b) ANY POSITION: a well-formed sequence u of records unknown to the class (specification-level grammar: any numbers, any of the
   wire types, padded tags, groups), inserted between ANY two byte strings of complete records, changes the result of parse by
   exactly this: u appears in _unknown_fields between the unknown bytes of what precedes and of what follows.  Failures included. *)
Theorem insert_anywhere sc c a pa b pb u rs :
  records a pa -> records b pb -> wire_records u rs -> forallb (t_unknown (get_class sc c)) rs = true ->
  parse sc c (a ++ u ++ b) =
  rmap (fun m => set_unk m (unknown_raw (get_class sc c) pa ++ u ++ unknown_raw (get_class sc c) pb)) (parse sc c (a ++ b)).
Proof.
  intros Ha Hb Hw Hall. set (cd := get_class sc c) in *.
  destruct (spec_unknown_seq cd u rs Hw Hall) as (pu & Hu & EU & EK).
  pose proof (records_app _ _ _ _ Ha (records_app _ _ _ _ Hu Hb)) as H1.
  pose proof (records_app _ _ _ _ Ha Hb) as H2.
  rewrite (parse_unknown_exact sc c _ _ H1), (parse_unknown_exact sc c _ _ H2). fold cd.
  rewrite !known_raw_app, !unknown_raw_app, EU, EK. cbn [app].
  rewrite rmap_rmap. apply rmap_ext. intros m. symmetry. apply set_unk_set_unk.
Qed.

(* two inputs with the same known subsequence and the same unknown subsequence parse alike, however they are interleaved *)
Theorem interleaving_irrelevant sc c bs ps bs' ps' :
  records bs ps -> records bs' ps' ->
  known_raw (get_class sc c) ps = known_raw (get_class sc c) ps' ->
  unknown_raw (get_class sc c) ps = unknown_raw (get_class sc c) ps' ->
  parse sc c bs = parse sc c bs'.
Proof.
  intros H H' EK EU. rewrite (parse_unknown_exact sc c bs ps H), (parse_unknown_exact sc c bs' ps' H'), EK, EU. reflexivity.
Qed.

(* ---------- (1) what "unknown" means ---------- *)
Lemma fbn_go_none_inv num : forall fs i0 acc,
  fbn_go num i0 fs acc = None -> acc = None /\ forall f, In f fs -> fnum f <> num.
Proof.
  induction fs as [|f0 fs IH]; intros i0 acc H; cbn [fbn_go] in H; [split; [exact H | intros f []]|].
  apply IH in H as [Hacc Hall].
  destruct (fnum f0 =? num) eqn:E; [discriminate|]. split; [exact Hacc|].
  intros f [<-|Hin]; [apply Z.eqb_neq; exact E | apply Hall; exact Hin].
Qed.

(* field_by_number finds nothing exactly when no field of the class declares the number (no side condition) *)
Theorem fbn_none_iff cd num :
  field_by_number cd num = None <-> forall f, In f (cfields cd) -> fnum f <> num.
Proof.
  rewrite field_by_number_eq. split.
  - intros H. apply fbn_go_none_inv in H as [_ H]. exact H.
  - intros H. apply fbn_go_none. exact H.
Qed.

(* (1) a record (number, wire type) is kept verbatim by the class EXACTLY when the number is absent from the schema or the one
   field that carries it cannot arrive with that wire type — under unique field numbers *)
Theorem unknown_iff cd num wt :
  nodup_z (map fnum (cfields cd)) = true ->
  (unknown_nw cd num wt = true <->
   (forall f, In f (cfields cd) -> fnum f <> num) \/
   (exists f, In f (cfields cd) /\ fnum f = num /\ wire_type_fits f wt = false)).
Proof.
  intros Hnd. unfold unknown_nw. destruct (field_by_number cd num) as [[i f]|] eqn:E.
  - apply fbn_some in E as E'. destruct E' as [Hn Hnum]. apply nth_error_In in Hn. split.
    + intros H. right. exists f. apply negb_true_iff in H. repeat split; assumption.
    + intros [H|(f' & Hin & Hnum' & Hw)]; [exfalso; exact (H f Hn Hnum)|].
      destruct (fbn_in cd f' Hnd Hin) as [i' Hi']. rewrite Hnum', E in Hi'. injection Hi' as _ <-. rewrite Hw. reflexivity.
  - split; [intros _; left; apply fbn_none_iff; exact E | reflexivity].
Qed.

(* (2a) any field number that the schema does not declare, with ANY wire type, is unknown; and the four payload-carrying wire types
   plus groups are all there is ([records] / wire_records admit nothing else) *)
Theorem undeclared_unknown_all_wire_types cd num :
  (forall f, In f (cfields cd) -> fnum f <> num) -> forall wt, unknown_nw cd num wt = true.
Proof. intros H wt. unfold unknown_nw. apply fbn_none_iff in H. rewrite H. reflexivity. Qed.

(* ---------- (4) re-emission, composed ---------- *)
Theorem reemit_parse sc c bs m b2 :
  parse sc c bs = Ok m -> enc_obj sc m = Ok b2 ->
  exists ps body, records bs ps /\ enc_obj sc (clear_unk m) = Ok body /\
                  b2 = body ++ unknown_raw (get_class sc c) ps /\
                  parse sc c (known_raw (get_class sc c) ps) = Ok (clear_unk m).
Proof.
  intros Hp He. destruct (known_undisturbed sc c bs m Hp) as (ps & Hrec & Hk & _).
  apply raw_preserved in Hp as (ps' & Hrec' & _ & Hu). rewrite (records_det _ _ Hrec' _ Hrec) in Hu.
  apply reemit in He as (body & Hb & ->). exists ps, body. rewrite Hu. repeat split; assumption.
Qed.

Theorem reemit_parse_spec sc c bs rs m b2 :
  wire_records bs rs -> parse sc c bs = Ok m -> enc_obj sc m = Ok b2 ->
  exists body, enc_obj sc (clear_unk m) = Ok body /\ b2 = body ++ spec_unknown_raw (get_class sc c) rs.
Proof.
  intros Hw Hp He. rewrite <- (raw_preserved_spec sc c bs rs m Hw Hp).
  apply reemit in He as (body & Hb & ->). exists body. split; [exact Hb | reflexivity].
Qed.

(* the converse direction of re-emission: the encoder can only fail in the known part — if the known state encodes, the message
   with ANY unknown bytes attached encodes *)
Theorem reemit_total sc m body u :
  enc_obj sc (clear_unk m) = Ok body -> enc_obj sc (set_unk m u) = Ok (body ++ u).
Proof.
  intros H. apply reemit. exists body. destruct m as [c raw sow unk cur]. cbn [set_unk clear_unk ounk] in *. split; [exact H | reflexivity].
Qed.

(* ---------- (4b) len(m) counts the unknown bytes exactly (composition with C09) ---------- *)
Lemma Zlength_app {A} (a b : list A) : Zlength (a ++ b) = Zlength a + Zlength b.
Proof. unfold Zlength. rewrite app_length. lia. Qed.

Theorem len_unknown sc m n :
  len_obj sc m = Ok n <-> exists k, len_obj sc (clear_unk m) = Ok k /\ n = k + Zlength (ounk m).
Proof.
  split.
  - intros H. destruct (LenP2.len_ok_bytes_ok sc m n H) as (bs & He & ->).
    apply reemit in He as (body & Hb & ->). exists (Zlength body). split; [apply LenP.len_of_bytes; exact Hb | apply Zlength_app].
  - intros (k & Hk & ->). destruct (LenP2.len_ok_bytes_ok sc _ k Hk) as (body & Hb & ->).
    rewrite <- Zlength_app. apply LenP.len_of_bytes. apply reemit. exists body. split; [exact Hb | reflexivity].
Qed.

Theorem len_parse sc c bs m k :
  parse sc c bs = Ok m -> len_obj sc (clear_unk m) = Ok k ->
  exists ps, records bs ps /\ len_obj sc m = Ok (k + Zlength (unknown_raw (get_class sc c) ps)).
Proof.
  intros Hp Hk. apply raw_preserved in Hp as (ps & Hrec & _ & Hu). exists ps. split; [exact Hrec|].
  rewrite <- Hu. apply len_unknown. exists k. split; [exact Hk | reflexivity].
Qed.
