(* C04, bottom layer: every scalar JSON form is read back as the value it was written from.
     int <-> decimal text, base64, float specials, enum names / numbers, Duration strings,
     map keys (dict path and text path).  All lemmas closed. *)
From BP Require Import Base.Prelude Model.Types Model.Float Model.Object Model.Eq Model.WellFormed Model.Json.
From BP Require Import Spec.Time.
From BP Require Model.Time Model.Enum.
From BP Require Import gen.Tables Proofs.BytesP Proofs.C04Def.
From BP Require Proofs.TimeP Proofs.EnumP.
From Coq Require Import Lia ZifyBool.
Ltac Zify.zify_post_hook ::= Z.to_euclidean_division_equations.

(* ---------------------------------------------------------------------------------- *)
(* int text                                                                            *)
(* ---------------------------------------------------------------------------------- *)
Lemma dec_head_digit n : 0 <= n -> exists d ds, dec n = d :: ds /\ is_digit d = true.
Proof.
  intros Hn. pose proof (TimeP.dec_digits n Hn) as F. pose proof (TimeP.dec_nonempty n) as N.
  destruct (dec n) as [|d ds]; [congruence|]. inversion F; subst. eauto.
Qed.

Lemma span_digits_all ds : Forall (fun b => is_digit b = true) ds -> span_digits ds = (ds, []).
Proof.
  intros F. rewrite <- (app_nil_r ds) at 1. apply TimeP.span_digits_app; [exact F|exact I].
Qed.

Lemma parse_int_str z : parse_int (str_of_Z z) = Some z.
Proof.
  unfold parse_int, str_of_Z. destruct (z <? 0) eqn:E.
  - change (Byte.eqb cMINUS cMINUS) with true. cbv iota beta.
    rewrite span_digits_all by (apply TimeP.dec_digits; lia).
    rewrite TimeP.is_nil_dec. cbn [is_nil andb negb]. rewrite TimeP.dval_dec by lia. f_equal. lia.
  - destruct (dec_head_digit z ltac:(lia)) as [d [ds [Hd Hdig]]].
    pose proof (TimeP.dec_digits z ltac:(lia)) as F. pose proof (TimeP.dval_dec z ltac:(lia)) as V.
    rewrite Hd in *.
    rewrite (TimeP.digit_not d cMINUS Hdig eq_refl), (TimeP.digit_not d cPLUS Hdig eq_refl).
    rewrite span_digits_all by exact F. cbn [is_nil andb negb]. rewrite V. reflexivity.
Qed.

(* ---------------------------------------------------------------------------------- *)
(* base64                                                                              *)
(* ---------------------------------------------------------------------------------- *)
Ltac small_cases i Hi :=
  rewrite <- (Z2Nat.id i) by lia;
  let n := fresh "n" in
  assert (Z.to_nat i < 64)%nat as Hn by lia; set (n := Z.to_nat i) in *; clearbody n;
  do 64 (destruct n as [|n]; [vm_compute; reflexivity|]); lia.

Lemma b64_index_char i : 0 <= i < 64 -> b64_index (b64_char i) = Some i.
Proof. intros Hi. small_cases i Hi. Qed.
Lemma b64_char_not_pad i : 0 <= i < 64 -> Byte.eqb (b64_char i) cEQ = false.
Proof. intros Hi. small_cases i Hi. Qed.
Lemma b64_char_ascii i : 0 <= i < 64 -> (Z_of_byte (b64_char i) <? 128) = true.
Proof. intros Hi. small_cases i Hi. Qed.

Lemma b64_go_char i r qp pads left : 0 <= i < 64 ->
  b64_go (b64_char i :: r) qp pads left =
    if qp =? 0 then b64_go r 1 0 i
    else if qp =? 1 then do t <- b64_go r 2 0 (i mod 16); Ok (byte_of_Z (left * 4 + i / 16) :: t)
    else if qp =? 2 then do t <- b64_go r 3 0 (i mod 4); Ok (byte_of_Z (left * 16 + i / 4) :: t)
    else do t <- b64_go r 0 0 0; Ok (byte_of_Z (left * 64 + i) :: t).
Proof.
  intros Hi. cbn [b64_go]. rewrite (b64_char_not_pad i Hi), (b64_index_char i Hi). reflexivity.
Qed.

Lemma list_ind3 {A} (P : list A -> Prop) :
  P [] -> (forall a, P [a]) -> (forall a b, P [a; b]) ->
  (forall a b c r, P r -> P (a :: b :: c :: r)) -> forall l, P l.
Proof.
  intros H0 H1 H2 H3. fix IH 1. intros [|a [|b [|c r]]]; [exact H0|apply H1|apply H2|apply H3, IH].
Qed.

Lemma byte_of_Z_eq a x : x = Z_of_byte a -> byte_of_Z x = a.
Proof. intros ->. apply byte_of_Z_of_byte. Qed.

Lemma b64_go_encode bs : b64_go (b64encode bs) 0 0 0 = Ok bs.
Proof.
  induction bs as [|a|a b|a b c r IH] using list_ind3.
  - reflexivity.
  - pose proof (Z_of_byte_range a) as Ra. cbn [b64encode]. remember (Z_of_byte a) as na eqn:Ea.
    rewrite b64_go_char by lia. cbn [Z.eqb]. rewrite b64_go_char by lia.
    change (1 =? 0) with false. change (1 =? 1) with true. cbv iota.
    cbn [b64_go]. change (Byte.eqb cEQ cEQ) with true. cbn. 
    f_equal. f_equal. apply byte_of_Z_eq. lia.
  - pose proof (Z_of_byte_range a) as Ra. pose proof (Z_of_byte_range b) as Rb. cbn [b64encode].
    remember (Z_of_byte a) as na eqn:Ea. remember (Z_of_byte b) as nb eqn:Eb.
    rewrite b64_go_char by lia. cbn [Z.eqb]. rewrite b64_go_char by lia.
    change (1 =? 0) with false. change (1 =? 1) with true. cbv iota.
    rewrite b64_go_char by lia.
    change (2 =? 0) with false. change (2 =? 1) with false. change (2 =? 2) with true. cbv iota.
    cbn [b64_go]. change (Byte.eqb cEQ cEQ) with true. cbn.
    f_equal. f_equal; [apply byte_of_Z_eq; lia|]. f_equal. apply byte_of_Z_eq. lia.
  - pose proof (Z_of_byte_range a) as Ra. pose proof (Z_of_byte_range b) as Rb. pose proof (Z_of_byte_range c) as Rc.
    cbn [b64encode].
    remember (Z_of_byte a) as na eqn:Ea. remember (Z_of_byte b) as nb eqn:Eb. remember (Z_of_byte c) as nc eqn:Ec.
    rewrite b64_go_char by lia. cbn [Z.eqb]. rewrite b64_go_char by lia.
    change (1 =? 0) with false. change (1 =? 1) with true. cbv iota.
    rewrite b64_go_char by lia.
    change (2 =? 0) with false. change (2 =? 1) with false. change (2 =? 2) with true. cbv iota.
    rewrite b64_go_char by lia.
    change (3 =? 0) with false. change (3 =? 1) with false. change (3 =? 2) with false. cbv iota.
    rewrite IH. cbn [bind].
    f_equal. f_equal; [apply byte_of_Z_eq; lia|]. f_equal; [apply byte_of_Z_eq; lia|]. f_equal. apply byte_of_Z_eq. lia.
Qed.

Lemma b64encode_ascii bs : forallb (fun c => Z_of_byte c <? 128) (b64encode bs) = true.
Proof.
  induction bs as [|a|a b|a b c r IH] using list_ind3.
  - reflexivity.
  - pose proof (Z_of_byte_range a). cbn [b64encode forallb]. rewrite !b64_char_ascii by lia. reflexivity.
  - pose proof (Z_of_byte_range a). pose proof (Z_of_byte_range b). cbn [b64encode forallb].
    rewrite !b64_char_ascii by lia. reflexivity.
  - pose proof (Z_of_byte_range a). pose proof (Z_of_byte_range b). pose proof (Z_of_byte_range c).
    cbn [b64encode forallb]. rewrite !b64_char_ascii by lia. rewrite IH. reflexivity.
Qed.

Theorem b64_roundtrip bs : b64decode (b64encode bs) = Ok bs.
Proof. unfold b64decode. rewrite b64encode_ascii. apply b64_go_encode. Qed.

(* ---------------------------------------------------------------------------------- *)
(* floats                                                                              *)
(* ---------------------------------------------------------------------------------- *)
Lemma parse_dump_float b : nan_canonical (PFloat b) = true -> parse_float (dump_float b) = Ok (PFloat b).
Proof.
  unfold nan_canonical, dump_float. intros H.
  destruct (b =? f64_pos_inf) eqn:E1. { apply Z.eqb_eq in E1. subst. reflexivity. }
  destruct (b =? f64_neg_inf) eqn:E2. { apply Z.eqb_eq in E2. subst. reflexivity. }
  destruct (f64_is_nan b) eqn:E3.
  - cbn [negb orb] in H. apply Z.eqb_eq in H. subst. reflexivity.
  - reflexivity.
Qed.

(* the text path leaves the float forms alone *)
Lemma text_dump_float b : text_rt (dump_float b) = dump_float b.
Proof.
  unfold dump_float. destruct (b =? f64_pos_inf); [reflexivity|]. destruct (b =? f64_neg_inf); [reflexivity|].
  destruct (f64_is_nan b) eqn:E; [reflexivity|]. cbn [text_rt]. rewrite E. reflexivity.
Qed.

(* ---------------------------------------------------------------------------------- *)
(* enums                                                                               *)
(* ---------------------------------------------------------------------------------- *)
Lemma enum_roundtrip sc e z : enum_from_json sc e (dump_enum sc e z) = Ok (PInt z).
Proof.
  unfold dump_enum, enum_from_json, enum_cls.
  set (body := emembers (nth e (enums sc) (mkE []))).
  pose proof (EnumP.json_roundtrip body z) as [R _]. cbv zeta in R.
  pose proof (EnumP.try_value_number body z) as [N _].
  unfold Enum.to_json_el in *.
  destruct (fst (Enum.try_value (Enum.class_of body) z)) as [n|] eqn:E.
  - cbn [Enum.from_json_el] in R. rewrite R. cbn [bind]. rewrite N. reflexivity.
  - rewrite N. reflexivity.
Qed.

Lemma text_dump_enum sc e z : text_rt (dump_enum sc e z) = dump_enum sc e z.
Proof. unfold dump_enum. destruct (Enum.to_json_el (enum_cls sc e) z); reflexivity. Qed.

(* ---------------------------------------------------------------------------------- *)
(* one scalar of proto type t                                                          *)
(* ---------------------------------------------------------------------------------- *)
Definition tr (b : bool) (j : json) : json := if b then text_rt j else j.
Definition trk (b : bool) (k : json) : json := if b then JStr (key_text k) else k.

Lemma tr_str b s : tr b (JStr s) = JStr s. Proof. destruct b; reflexivity. Qed.
Lemma tr_int b z : tr b (JInt z) = JInt z. Proof. destruct b; reflexivity. Qed.
Lemma tr_bool b x : tr b (JBool x) = JBool x. Proof. destruct b; reflexivity. Qed.
Lemma tr_list b l : tr b (JList l) = JList (map (tr b) l).
Proof. destruct b; cbn [tr text_rt]; [reflexivity|]. rewrite map_id. reflexivity. Qed.
Lemma tr_obj b d : tr b (JObj d) = JObj (map (fun kx => (trk b (fst kx), tr b (snd kx))) d).
Proof.
  destruct b; cbn [tr trk text_rt].
  - f_equal. apply map_ext. intros [k x]. reflexivity.
  - f_equal. rewrite <- (map_id d) at 1. apply map_ext. intros [k x]. reflexivity.
Qed.
Lemma tr_dump_float b x : tr b (dump_float x) = dump_float x.
Proof. destruct b; [apply text_dump_float|reflexivity]. Qed.
Lemma tr_dump_enum b sc e z : tr b (dump_enum sc e z) = dump_enum sc e z.
Proof. destruct b; [apply text_dump_enum|reflexivity]. Qed.

(* decide the table lookups for a concrete proto type (order-insensitive: by computation) *)
Ltac eval_tables :=
  repeat match goal with
         | |- context [tmem ?t ?l] => let v := eval vm_compute in (tmem t l) in change (tmem t l) with v
         | |- context [ptype_eqb ?a ?b] => let v := eval vm_compute in (ptype_eqb a b) in change (ptype_eqb a b) with v
         end; cbv iota.

(* the value classes a scalar field may hold: WellFormed.scalar_in_range, by cases *)
Lemma scalar_roundtrip sc b t p v :
  tmem t scalar_ptypes = true ->
  pyty_fits (length (classes sc)) (length (enums sc)) t p = true ->
  scalar_in_range t v = true -> nan_canonical v = true ->
  scalar_from_json sc t p (tr b (scalar_to_json sc t p v)) = Ok v.
Proof.
  intros Ht Hp Hr Hn. unfold scalar_from_json, scalar_to_json.
  destruct t; try discriminate Ht; eval_tables;
    destruct v; try discriminate Hr; destruct p; try discriminate Hp;
    cbn [raw_json py_of_json];
    rewrite ?tr_str, ?tr_int, ?tr_bool, ?tr_dump_float, ?tr_dump_enum;
    cbn [int_of_json py_of_json];
    rewrite ?parse_int_str, ?b64_roundtrip, ?enum_roundtrip; cbn [bind];
    try reflexivity; try (apply parse_dump_float; exact Hn).
Qed.

(* ---------------------------------------------------------------------------------- *)
(* Duration strings                                                                    *)
(* ---------------------------------------------------------------------------------- *)
Lemma duration_roundtrip us :
  (- 315576000000000000 <=? us) && (us <=? 315576000000000000) = true ->
  Model.Time.parse_duration (Model.Time.delta_to_json us) = Ok us.
Proof.
  intros H. apply TimeP.parse_duration_delta_to_json_range. unfold in_dur_range, DUR_MAX_S. lia.
Qed.

(* ---------------------------------------------------------------------------------- *)
(* map keys                                                                            *)
(* ---------------------------------------------------------------------------------- *)
Lemma key_roundtrip b kt k :
  map_key_ok kt = true -> scalar_in_range kt k = true ->
  key_from_json kt (trk b (raw_json k)) = Ok k.
Proof.
  intros Hk Hr. unfold key_from_json, trk.
  destruct kt; try discriminate Hk; destruct k; try discriminate Hr; destruct b;
    cbn [raw_json key_text py_of_json ptype_eqb ptype_tag Z.eqb]; rewrite ?parse_int_str; try reflexivity.
  destruct b0; reflexivity.
Qed.
