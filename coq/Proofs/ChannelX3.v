(* C12 extension (3) — stability of done(): the exact one-step picture (only a cancelled getter leaving get() or a
   completed put can turn done() back to false), the state condition under which done() stays true for ever, and the
   configuration class (atomic sends, no cancellation) for which that condition holds whenever done() is true. *)
From BP Require Import Base.Prelude Model.Channel Model.C12X.
From BP Require Import Proofs.ChannelP1 Proofs.ChannelP2 Proofs.ChannelP3 Proofs.ChannelP4 Proofs.ChannelP5 Proofs.ChannelP6 Proofs.ChannelP7.
From BP Require Import Proofs.ChannelX2.
From Coq Require Import Arith Lia.
Local Open Scope nat_scope.

Definition noputT (T : task) : Prop := existsb is_put_op (prog T) = false.

Lemma noput_tail : forall T o l x, noputT T -> prog T = o :: l -> prog x = l -> noputT x.
Proof. unfold noputT. intros T o l x H E Ex. rewrite E in H. cbn in H. apply orb_false_iff in H as [_ H]. rewrite Ex. exact H. Qed.
Lemma noput_same : forall T x, noputT T -> prog x = prog T -> noputT x.
Proof. unfold noputT. intros T x H E. rewrite E. exact H. Qed.
Lemma noput_nil : forall x, prog x = [] -> noputT x.
Proof. unfold noputT. intros x E. rewrite E. reflexivity. Qed.
Lemma noput_head : forall T l, noputT T -> prog T = IPut :: l -> False.
Proof. unfold noputT. intros T l H E. rewrite E in H. cbn in H. discriminate. Qed.

Ltac noput_contra :=
  match goal with
  | A : alltasks noputT (tasks ?s), E : nth_error (tasks ?s) _ = Some ?T, E2 : prog ?T = IPut :: _ |- _ =>
      exfalso; exact (noput_head _ _ (A _ _ E) E2)
  end.

Lemma noput_step : forall s t s', step s t = Some s' -> closed s = true ->
  alltasks noputT (tasks s) -> alltasks noputT (tasks s').
Proof.
  intros s t s' H CL A. step_inv H; simp_proj; try congruence.
  all: try noput_contra.
  all: match goal with E : nth_error (tasks _) _ = Some ?T |- _ => pose proof (A _ _ E) as HS end.
  all: try apply alltasks_app1; repeat (apply alltasks_upd);
       try (apply alltasks_wakeup; [reflexivity|intros ? ?; eapply noput_same; eauto|]); try exact A.
  all: try (apply noput_nil; reflexivity).
  all: try (eapply noput_tail; [exact HS|eassumption|reflexivity]).
  all: try (eapply noput_same; [exact HS|cbn; congruence]).
  all: try match goal with |- context [after_item ?o _] => destruct o; cbn [after_item fst snd] in * end.
  all: try (eapply noput_tail; [exact HS|eassumption|reflexivity]).
  all: try (eapply noput_same; [exact HS|cbn; congruence]).
  all: try reflexivity.
  all: try (match goal with E : nth_error (upd (tasks _) _ ?x) _ = Some ?U |- _ =>
         assert (HX : noputT x) by (eapply noput_tail; [exact HS|eassumption|reflexivity]);
         eapply noput_same; [exact (alltasks_upd noputT _ _ x A HX _ _ E)|reflexivity] end).
  all: unfold noputT in *; cbn [prog set_prog]; rewrite existsb_app, (existsb_repeat_false is_put_op IPutFlush) by reflexivity;
       match goal with E2 : prog _ = _ |- _ => rewrite E2 in HS end; exact HS.
Qed.

Ltac norm_b :=
  repeat match goal with
         | H : _ && _ = true |- _ => apply andb_true_iff in H; destruct H
         | H : Nat.leb _ _ = true |- _ => apply Nat.leb_le in H
         end.

Lemma fit_step : forall s t s', step s t = Some s' ->
  nocancel_state s -> alltasks shapeP (tasks s) -> alltasks noputT (tasks s) ->
  W s = sumf in_get (tasks s) -> (flushed s = false -> sumf nflush (tasks s) = 0) ->
  closed s = true -> length (q s) + sumf nflush (tasks s) <= W s ->
  length (q s') + sumf nflush (tasks s') <= W s'.
Proof.
  intros s t s' H N SH A HW NFl CL I. step_inv H; simp_proj; try exact I.
  all: try nocancel_contra.
  all: try noput_contra.
  all: try congruence.
  all: norm_tests; norm_done.
  all: repeat match goal with E : q _ = _ |- _ => rewrite E in *; clear E end.
  all: cbn [length] in *; try (exfalso; lia).
  all: shape_facts.
  all: try match goal with |- context [after_item ?o _] => destruct o; cbn [after_item fst snd] in * end.
  all: try match goal with E : nth_error (tasks _) _ = Some _ |- _ => pose proof (sumf_nth in_get _ _ _ E) as KG end.
  all: try wake_cases; sumf_norm; meas_simpl; rewrite ?app_length; cbn [length] in *.
  all: try lia.
  all: try (specialize (NFl ltac:(assumption)); lia).
  all: repeat match goal with E : _ \/ _ |- _ => destruct E end; try congruence; try lia.
Qed.

(* ---- configurations whose sends are atomic ---- *)
Definition op_atomic (o : op) : bool := match o with IPut | ISendFrom _ _ => false | _ => true end.
Definition atomT (T : task) : Prop := forallb op_atomic (prog T) = true.

Lemma atom_tail : forall T o l x, atomT T -> prog T = o :: l -> prog x = l -> atomT x.
Proof. unfold atomT. intros T o l x H E Ex. rewrite E in H. cbn in H. apply andb_true_iff in H as [_ H]. rewrite Ex. exact H. Qed.
Lemma atom_same : forall T x, atomT T -> prog x = prog T -> atomT x.
Proof. unfold atomT. intros T x H E. rewrite E. exact H. Qed.
Lemma atom_nil : forall x, prog x = [] -> atomT x.
Proof. unfold atomT. intros x E. rewrite E. reflexivity. Qed.
Lemma atom_head : forall T o l, atomT T -> prog T = o :: l -> op_atomic o = true.
Proof. unfold atomT. intros T o l H E. rewrite E in H. cbn in H. apply andb_true_iff in H as [H _]. exact H. Qed.
Lemma forallb_repeat_true : forall (f : op -> bool) o n, f o = true -> forallb f (repeat o n) = true.
Proof. induction n; intros; cbn; auto. rewrite H. auto. Qed.

Lemma atom_step : forall s t s', step s t = Some s' -> maxsize s = 0 ->
  alltasks atomT (tasks s) -> alltasks atomT (tasks s').
Proof.
  intros s t s' H M A. step_inv H; simp_proj.
  all: norm_tests; try (exfalso; lia).
  all: match goal with E : nth_error (tasks _) _ = Some ?T |- _ => pose proof (A _ _ E) as HS end.
  all: try (match goal with E2 : prog _ = _ :: _ |- _ => pose proof (atom_head _ _ _ HS E2) as HH; cbn in HH end; try discriminate).
  all: try apply alltasks_app1; repeat (apply alltasks_upd);
       try (apply alltasks_wakeup; [reflexivity|intros ? ?; eapply atom_same; eauto|]); try exact A.
  all: try (apply atom_nil; reflexivity).
  all: try (eapply atom_tail; [exact HS|eassumption|reflexivity]).
  all: try (eapply atom_same; [exact HS|cbn; congruence]).
  all: try match goal with |- context [after_item ?o _] => destruct o; cbn [after_item fst snd] in * end.
  all: try (eapply atom_tail; [exact HS|eassumption|reflexivity]).
  all: try (eapply atom_same; [exact HS|cbn; congruence]).
  all: try reflexivity.
  all: try (match goal with E : nth_error (upd (tasks _) _ ?x) _ = Some ?U |- _ =>
         assert (HX : atomT x) by (eapply atom_tail; [exact HS|eassumption|reflexivity]);
         eapply atom_same; [exact (alltasks_upd atomT _ _ x A HX _ _ E)|reflexivity] end).
  all: unfold atomT in *; cbn [prog set_prog]; rewrite forallb_app, (forallb_repeat_true op_atomic IPutFlush) by reflexivity;
       match goal with E2 : prog _ = _ |- _ => rewrite E2 in HS end; exact HS.
Qed.

Lemma atom_noput : forall T, atomT T -> noputT T.
Proof.
  unfold atomT, noputT. intros T H. induction (prog T) as [|o p IH]; cbn in *; auto.
  apply andb_true_iff in H as [Ho Hp]. rewrite IH by auto. destruct o; cbn in *; auto; discriminate.
Qed.

Definition invK (s : state) : Prop :=
  sumf nflush (tasks s) > 0 -> length (q s) + sumf nflush (tasks s) <= W s.

Lemma K_step : forall s t s', step s t = Some s' ->
  nocancel_state s -> alltasks shapeP (tasks s) -> alltasks noputT (tasks s) ->
  W s = sumf in_get (tasks s) -> (flushed s = false -> sumf nflush (tasks s) = 0) -> (flushed s = true -> closed s = true) ->
  invK s -> invK s'.
Proof.
  intros s t s' H N SH A HW NFl FC I.
  assert (HFl : (flushed s = true /\ closed s = true) \/ (flushed s = false /\ sumf nflush (tasks s) = 0))
    by (destruct (flushed s); [left; auto | right; auto]).
  clear FC NFl. step_inv H; simp_proj; unfold invK in *; simp_proj; try exact I.
  all: try nocancel_contra.
  all: try noput_contra.
  all: destruct HFl as [[HF1 HF2]|[HF1 HF2]]; try discriminate; try congruence.
  all: norm_tests; norm_done.
  all: repeat match goal with E : q _ = _ |- _ => rewrite E in *; clear E end.
  all: cbn [length] in *.
  all: shape_facts.
  all: try match goal with |- context [after_item ?o _] => destruct o; cbn [after_item fst snd] in * end.
  all: try match goal with E : nth_error (tasks _) _ = Some _ |- _ => pose proof (sumf_nth in_get _ _ _ E) as KG end.
  all: try wake_cases; sumf_norm; meas_simpl; rewrite ?app_length; cbn [length] in *.
  all: try lia.
  all: repeat match goal with E : _ \/ _ |- _ => destruct E end; try congruence; try lia.
Qed.

(* ---------------------------------------------------------------- the settled condition is stable *)
Lemma no_cancel_pending_iff : forall s, no_cancel_pending s = true <-> nocancel_state s.
Proof. intros. unfold no_cancel_pending, nocancel_state. tauto. Qed.

Lemma senders_idle_iff : forall s, senders_idle s = true <-> alltasks noputT (tasks s).
Proof.
  intros s. unfold senders_idle, alltasks, noputT. rewrite forallb_forall. split.
  - intros H u U HU. specialize (H U (nth_error_In _ _ HU)). apply negb_true_iff in H. exact H.
  - intros H U HI. apply In_nth_error in HI as [u HU]. apply negb_true_iff. eapply H; eauto.
Qed.

Lemma settled_split : forall s, done_settled s = true <->
  (closed s = true /\ length (q s) <= W s) /\ alltasks noputT (tasks s) /\
  length (q s) + sumf nflush (tasks s) <= W s /\ nocancel_state s.
Proof.
  intros s. unfold done_settled, sentinels_fit, done. rewrite !andb_true_iff, !Nat.leb_le, senders_idle_iff, no_cancel_pending_iff.
  tauto.
Qed.

Theorem done_settled_step : forall c s t s', Reach c s -> done_settled s = true -> step s t = Some s' ->
  done_settled s' = true /\ done s' = true.
Proof.
  intros c s t s' R D H. apply settled_split in D as ((CL & DQ) & A & F & N).
  destruct (reach_gen _ _ R) as [I1 _ _ IS _ _ _].
  pose proof (fit_step s t s' H N IS A (i_W _ I1) (i_nf _ I1) CL F) as F'.
  pose proof (noput_step s t s' H CL A) as A'. pose proof (nocancel_step s t s' H N) as N'.
  pose proof (closed_stable s t s' H CL) as CL'.
  assert (DQ' : length (q s') <= W s') by lia.
  split; [apply settled_split; tauto|]. unfold done. rewrite CL'. apply Nat.leb_le in DQ'. rewrite DQ'. reflexivity.
Qed.

Theorem done_settled_run : forall c sch s s', Reach c s -> done_settled s = true -> exec s sch = Some s' ->
  done_settled s' = true /\ done s' = true.
Proof.
  induction sch as [|t r IH]; intros s s' R D H; cbn [exec] in H.
  - injection H as <-. split; auto. apply settled_split in D as ((CL & DQ) & _). unfold done. rewrite CL.
    apply Nat.leb_le in DQ. rewrite DQ. reflexivity.
  - destruct (step s t) as [s1|] eqn:E; [|discriminate].
    destruct (done_settled_step c s t s1 R D E) as [D1 _]. eapply IH; [econstructor; eauto|exact D1|exact H].
Qed.

(* ---------------------------------------------------------------- configuration-level corollary *)
Lemma compile_atomic : forall p, forallb uop_atomic p = true -> forallb op_atomic (map compile p) = true.
Proof. induction p as [|o p IH]; cbn; auto. intros H. apply andb_true_iff in H as [Ho Hp]. rewrite IH by auto. destruct o; cbn in *; auto. Qed.

Lemma reach_atomic : forall c s, Reach c s -> cfg_atomic_send c = true -> alltasks atomT (tasks s).
Proof.
  intros c s R HC. unfold cfg_atomic_send in HC. apply andb_true_iff in HC as [HM HP]. apply Nat.eqb_eq in HM.
  induction R as [|s t s' R IH Hs].
  - intros u U HU. cbn in HU. rewrite nth_error_map in HU. destruct (nth_error (c_progs c) u) as [pb|] eqn:E; [|discriminate].
    injection HU as <-. unfold atomT. cbn [prog]. apply compile_atomic. rewrite forallb_forall in HP.
    apply HP. eapply nth_error_In; eauto.
  - eapply atom_step; eauto. rewrite (reach_maxsize c); auto.
Qed.

Lemma alltasks_impl : forall (P Q : task -> Prop) ts, (forall T, P T -> Q T) -> alltasks P ts -> alltasks Q ts.
Proof. intros P Q ts H A u U HU. apply H. eapply A; eauto. Qed.

Lemma reach_K : forall c s, Reach c s -> cfg_nocancel c = true -> cfg_atomic_send c = true -> invK s.
Proof.
  intros c s R NC AT. induction R as [|s t s' R IH Hs].
  - intros HP. exfalso. rewrite sumf_init_zero in HP; [lia|]. intros pb. unfold nflush. cbn [prog].
    rewrite (proj1 (compile_not_flush _)). reflexivity.
  - destruct (reach_gen _ _ R) as [I1 _ _ IS _ _ _]. destruct (reach_nc _ _ R NC) as [JN _ _ _ _ _].
    eapply K_step; eauto; try apply I1.
    eapply alltasks_impl; [apply atom_noput|]. eapply reach_atomic; eauto.
Qed.

(* unbounded buffer, no send_from, no cancellation: done() is monotone *)
Theorem done_stable_atomic : forall c s t s', Reach c s -> cfg_nocancel c = true -> cfg_atomic_send c = true ->
  done s = true -> step s t = Some s' -> done s' = true.
Proof.
  intros c s t s' R NC AT D H.
  assert (DS : done_settled s = true).
  { apply settled_split. apply done_true in D as [CL DQ]. destruct (reach_nc _ _ R NC) as [JN _ _ _ _ _].
    split; [auto|]. split; [eapply alltasks_impl; [apply atom_noput|]; eapply reach_atomic; eauto|]. split; [|exact JN].
    pose proof (reach_K _ _ R NC AT) as K. unfold invK in K.
    destruct (Nat.eq_0_gt_0_cases (sumf nflush (tasks s))) as [Z|P]; [lia|auto]. }
  eapply done_settled_step; eauto.
Qed.

(* ---------------------------------------------------------------- one step, any configuration (cancellation included) *)
Theorem done_step_cases : forall c s t s' T, Reach c s -> done s = true -> step s t = Some s' ->
  nth_error (tasks s) t = Some T ->
  done s' = true \/ cancelled_in_get_b T = true \/ at_put T = true.
Proof.
  intros c s t s' T R D H HT. pose proof (i_W _ (reach_inv1 _ _ R)) as HW.
  apply done_true in D as [CL DQ].
  step_inv H; simp_proj.
  all: injection HT as <-.
  all: unfold cancelled_in_get_b, at_put;
       repeat match goal with
              | E1 : st ?T = _ |- context [st ?T] => rewrite E1
              | E1 : mc ?T = _ |- context [mc ?T] => rewrite E1
              | E1 : prog ?T = _ |- context [prog ?T] => rewrite E1
              end.
  all: try (right; left; reflexivity).
  all: try (right; right; reflexivity).
  all: try congruence.
  all: left; unfold done; simp_proj.
  all: norm_done.
  all: try congruence; try (exfalso; lia).
  all: repeat match goal with E : q _ = _ |- _ => rewrite E in *; clear E end.
  all: try match goal with E : nth_error (tasks _) _ = Some _ |- _ => pose proof (sumf_nth in_get _ _ _ E) as KG end.
  all: meas_simpl; cbn [length] in *.
  all: try match goal with E : closed _ = true |- _ => rewrite E end; cbn [andb]; apply Nat.leb_le; try lia.
Qed.

