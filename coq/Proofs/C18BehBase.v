(* C18 behavioural part, layer 0: the schema under pydantic_dataclasses, what wf_schema says about oneof members,
   inversion of the state correspondence [vrel], the canonical corresponding state [pyd_pv], and the agreement of
   Message.__eq__-with-the-default ([is_default]) on messages without a selection. *)
From Coq Require Import ZArith List Bool Lia Arith.
From BP Require Import Base.Prelude Model.Types Model.Object Model.Eq Model.Encode Model.Decode Model.Json Model.WellFormed.
From BP Require Import Model.C18Beh Proofs.C01Unfold Proofs.C06EncP Proofs.C14Ind.
Import ListNotations.

(* ---------------- the schema ---------------- *)
Lemma pyd_get_class sc c : get_class (pyd_schema sc) c = pyd_class (get_class sc c).
Proof. unfold get_class, pyd_schema. cbn [classes]. change empty_class with (pyd_class empty_class). apply map_nth. Qed.

Lemma pyd_cfields sc c : cfields (get_class (pyd_schema sc) c) = map pyd_field (cfields (get_class sc c)).
Proof. rewrite pyd_get_class. reflexivity. Qed.

Lemma pyd_cngroups sc c : cngroups (get_class (pyd_schema sc) c) = cngroups (get_class sc c).
Proof. rewrite pyd_get_class. reflexivity. Qed.

Lemma pyd_field_group f : fgroup (pyd_field f) = fgroup f.
Proof. unfold pyd_field. destruct (fgroup f) eqn:E; [cbn [fgroup]|]; auto. Qed.
Lemma pyd_field_num f : fnum (pyd_field f) = fnum f.
Proof. unfold pyd_field. destruct (fgroup f); reflexivity. Qed.
Lemma pyd_field_ty f : fty (pyd_field f) = fty f.
Proof. unfold pyd_field. destruct (fgroup f); reflexivity. Qed.
Lemma pyd_field_map f : fmap (pyd_field f) = fmap f.
Proof. unfold pyd_field. destruct (fgroup f); reflexivity. Qed.
Lemma pyd_field_wraps f : fwraps (pyd_field f) = fwraps f.
Proof. unfold pyd_field. destruct (fgroup f); reflexivity. Qed.
Lemma pyd_field_name f : fname (pyd_field f) = fname f.
Proof. unfold pyd_field. destruct (fgroup f); reflexivity. Qed.
Lemma pyd_field_entry f : fentry (pyd_field f) = fentry f.
Proof. unfold pyd_field. destruct (fgroup f); reflexivity. Qed.
Lemma pyd_field_none f : fgroup f = None -> pyd_field f = f.
Proof. unfold pyd_field. intros ->. reflexivity. Qed.
Lemma pyd_group_selects cur f i : group_selects cur (pyd_field f) i = group_selects cur f i.
Proof. unfold group_selects. rewrite pyd_field_group. reflexivity. Qed.

(* what a well-formed schema says about a oneof member: plain hint, no optional / wraps / map *)
Definition mem_ok (f : fdesc) : Prop :=
  forall g, fgroup f = Some g -> exists p, fhint f = HPlain p /\ fopt f = false /\ fwraps f = None /\ fmap f = None.

Lemma wf_mem_ok sc ng f : wf_field sc ng f = true -> mem_ok f.
Proof.
  intros W g Hg. destruct (fhint f) as [p|p|p|k v] eqn:Eh.
  - destruct (wf_plain _ _ _ _ W Eh) as (A & B & C & _). eauto.
  - destruct (wf_optional _ _ _ _ W Eh) as (_ & A & _). congruence.
  - destruct (wf_list _ _ _ _ W Eh) as (_ & _ & _ & A & _). congruence.
  - destruct (wf_dict _ _ _ _ _ W Eh) as (_ & _ & A & _). congruence.
Qed.

Lemma wf_class_mem_ok sc c : wf_schema sc = true -> Forall mem_ok (cfields (get_class sc c)).
Proof. intros W. apply Forall_forall. intros f I. eapply wf_mem_ok, wf_field_of; eauto. Qed.

Lemma pyd_field_member f g : mem_ok f -> fgroup f = Some g ->
  exists p, fhint f = HPlain p /\ fhint (pyd_field f) = HOptional p /\ fopt (pyd_field f) = true /\ fopt f = false /\
            fwraps f = None /\ fmap f = None.
Proof.
  intros M Hg. destruct (M g Hg) as (p & Hh & Ho & Hw & Hm). exists p. unfold pyd_field. rewrite Hg. cbn [fhint fopt].
  rewrite Hh. repeat split; auto.
Qed.

(* ---------------- inversion of the correspondence ---------------- *)
Lemma vrel_scalar sc a b : scalar_pv a = true -> vrel sc a b -> b = a.
Proof. destruct a; cbn [scalar_pv vrel]; intros H R; try discriminate; exact R. Qed.

Lemma vrel_ph sc a b : vrel sc a b -> (is_ph b = is_ph a).
Proof.
  destruct a; cbn [vrel]; intros R; try (subst b; reflexivity).
  - destruct R as (lb & -> & _). reflexivity.
  - destruct R as (db & -> & _). reflexivity.
  - destruct o. destruct R as (rb & -> & _). reflexivity.
Qed.

Lemma vrel_msg sc c ra sow unk cur b :
  vrel sc (PMsg (Obj c ra sow unk cur)) b ->
  exists rb, b = PMsg (Obj c rb sow unk cur) /\ raw_rel (vrel sc) cur O ra rb (cfields (get_class sc c)).
Proof. cbn [vrel]. auto. Qed.

Lemma raw_rel_length r cur : forall ra i rb fs, raw_rel r cur i ra rb fs -> length rb = length ra.
Proof.
  induction ra as [|x ra IH]; intros i [|y rb] fs H; cbn [raw_rel] in H; try contradiction; [reflexivity|].
  destruct fs as [|f fs]; destruct H as [_ H]; cbn [length]; f_equal; eapply IH; eauto.
Qed.

Lemma list_rel_length {A B} (r : A -> B -> Prop) : forall la lb, list_rel r la lb -> length lb = length la.
Proof.
  induction la as [|x la IH]; intros [|y lb] H; cbn [list_rel] in H; try contradiction; [reflexivity|].
  destruct H as [_ H]. cbn [length]. f_equal. auto.
Qed.

(* ---------------- default values correspond ---------------- *)
Lemma nth_all_none cur g : forallb opt_is_none cur = true -> nth g cur (@None nat) = None.
Proof.
  revert g. induction cur as [|a cur IH]; intros [|g] H; cbn [nth]; auto; cbn [forallb] in H; apply andb_true_iff in H as [H1 H2].
  - destruct a; [discriminate|reflexivity].
  - auto.
Qed.

Lemma forallb_repeat_none n : forallb (@opt_is_none nat) (repeat None n) = true.
Proof. induction n; cbn [repeat forallb opt_is_none]; auto. Qed.

Lemma group_selects_nosel cur f i g : forallb opt_is_none cur = true -> fgroup f = Some g -> group_selects cur f i = Some false.
Proof. intros H Hg. unfold group_selects. rewrite Hg, nth_all_none by exact H. reflexivity. Qed.

Lemma group_selects_none cur f i : fgroup f = None -> group_selects cur f i = None.
Proof. intros Hg. unfold group_selects. rewrite Hg. reflexivity. Qed.

Lemma new_rel sc c : Forall mem_ok (cfields (get_class sc c)) -> vrel sc (PMsg (new sc c)) (PMsg (new (pyd_schema sc) c)).
Proof.
  intros M. unfold new. rewrite pyd_cfields, pyd_cngroups. cbn [vrel]. eexists. split; [reflexivity|].
  set (cur := repeat None (cngroups (get_class sc c))).
  assert (Hc : forallb opt_is_none cur = true) by apply forallb_repeat_none.
  generalize 0%nat as i. induction M as [|f fs Hf M IH]; intros i; cbn [map raw_rel]; [exact I|]. split; [|apply IH].
  destruct (fgroup f) as [g|] eqn:Eg.
  - rewrite (group_selects_nosel _ _ _ _ Hc Eg). destruct (pyd_field_member _ _ Hf Eg) as (p & _ & _ & -> & -> & _).
    cbn [slot_rel unsel_ok]. auto.
  - rewrite (group_selects_none _ _ _ Eg), (pyd_field_none _ Eg). cbn [slot_rel]. destruct (fopt f); reflexivity.
Qed.

Lemma default_rel sc f : (forall c, Forall mem_ok (cfields (get_class sc c))) ->
  vrel sc (default_of sc f) (default_of (pyd_schema sc) f).
Proof.
  intros M. unfold default_of. destruct (fhint f) as [t|t|t|k v]; try (cbn [vrel list_rel]; eauto; fail).
  - destruct t; try reflexivity. apply new_rel, M.
  - cbn [vrel]. exists []. split; reflexivity.
  - cbn [vrel]. exists []. split; reflexivity.
Qed.

Lemma nosel_new sc c : nosel (PMsg (new sc c)) = true.
Proof.
  unfold new. cbn [nosel]. rewrite forallb_repeat_none. cbn [andb].
  induction (cfields (get_class sc c)) as [|f fs IH]; cbn [map forallb]; [reflexivity|]. rewrite IH.
  destruct (fopt f); reflexivity.
Qed.

Lemma nosel_default sc f : nosel (default_of sc f) = true.
Proof. unfold default_of. destruct (fhint f) as [t|t|t|k v]; try reflexivity. destruct t; try reflexivity. apply nosel_new. Qed.

(* ---------------- `value == default`: agreement on messages that hold no selection ---------------- *)
Section IsDefault.
  Variable sc : schema.
  Hypothesis M : forall c, Forall mem_ok (cfields (get_class sc c)).
  Let sc' := pyd_schema sc.

  Lemma is_default_rel : forall v v' f, vrel sc v v' -> nosel v = true -> is_default sc' f v' = is_default sc f v.
  Proof.
    induction v using pv_induction; intros v' f R N; cbn [vrel] in R; try (subst v'; reflexivity).
    - destruct R as (lb & -> & R). pose proof (list_rel_length _ _ _ R) as L.
      cbn [is_default]. destruct (fhint f) as [t|t|t|k w]; try reflexivity; try (destruct t; reflexivity).
      destruct l, lb; cbn [length] in L; try discriminate; reflexivity.
    - destruct R as (db & -> & R). pose proof (list_rel_length _ _ _ R) as L.
      cbn [is_default]. destruct (fhint f) as [t|t|t|k w]; try reflexivity; try (destruct t; reflexivity).
      destruct d, db; cbn [length] in L; try discriminate; reflexivity.
    - destruct R as (rb & -> & R). cbn [is_default]. destruct (fhint f) as [t|t|t|k w]; try reflexivity.
      destruct t; try reflexivity. f_equal. cbn [nosel] in N. apply andb_true_iff in N as [Nc Nr].
      unfold sc'. rewrite pyd_cfields. pose proof (M c) as Mc. revert Nr Mc R.
      generalize 0%nat as i. revert rb. generalize (cfields (get_class sc c)) as fs.
      induction H as [|x raw Hx Hraw IH]; intros fs rb i Nr Mf R.
      + destruct rb; [reflexivity | contradiction].
      + destruct rb as [|y rb]; [contradiction|]. cbn [raw_rel] in R. destruct fs as [|f0 fs]; [reflexivity|].
        destruct R as [Rs R]. cbn [map]. cbn [forallb] in Nr. apply andb_true_iff in Nr as [Nx Nr].
        inversion Mf as [|? ? Mf0 Mfs]; subst. rewrite (IH fs rb (S i) Nr Mfs R). f_equal.
        destruct (fgroup f0) as [g|] eqn:Eg.
        * rewrite (group_selects_nosel _ _ _ _ Nc Eg) in Rs. cbn [slot_rel] in Rs. destruct Rs as [-> Hy].
          destruct (pyd_field_member _ _ Mf0 Eg) as (p & _ & Hh & _).
          destruct y; try discriminate; [reflexivity|]. cbn [is_default]. rewrite Hh. reflexivity.
        * rewrite (group_selects_none _ _ _ Eg) in Rs. cbn [slot_rel] in Rs. rewrite (pyd_field_none _ Eg).
          pose proof (vrel_ph _ _ _ Rs) as Hp. destruct x; cbn [is_ph] in Hp;
            try (destruct y; try discriminate Hp; try reflexivity; apply Hx; assumption).
  Qed.
End IsDefault.

(* ---------------- the canonical corresponding state ---------------- *)
Lemma pyd_ok_rel sc : forall v, pyd_ok sc v = true -> vrel sc v (pyd_pv sc v).
Proof.
  induction v using pv_induction; intros K; cbn [pyd_ok] in K; cbn [vrel pyd_pv]; try reflexivity.
  - eexists. split; [reflexivity|]. induction H as [|x l Hx Hl IH]; cbn [map list_rel]; [exact I|].
    cbn [forallb] in K. apply andb_true_iff in K as [K1 K2]. split; auto.
  - eexists. split; [reflexivity|]. induction H as [|[k x] d [_ Hx] Hd IH]; cbn [map list_rel]; [exact I|].
    cbn [forallb] in K. apply andb_true_iff in K as [K1 K2]. apply andb_true_iff in K1 as [K0 K1]. cbn [snd] in Hx.
    repeat split; auto.
  - eexists. split; [reflexivity|]. apply andb_true_iff in K as [_ K]. revert K. generalize 0%nat as i.
    generalize (cfields (get_class sc c)) as fs.
    induction H as [|x raw Hx Hraw IH]; intros fs i K; cbn [pyd_raw raw_rel]; [exact I|].
    destruct fs as [|f fs].
    + split; [reflexivity|]. clear K Hx IH. revert i. induction raw as [|z raw IHr]; intros i; cbn [pyd_raw raw_rel]; auto.
      inversion Hraw; subst. split; [reflexivity|]. apply IHr. assumption.
    + cbn [ok_raw] in K. apply andb_true_iff in K as [K1 K2]. split; [|apply IH; exact K2].
      destruct (group_selects cur f i) as [[|]|]; cbn [slot_rel].
      * apply andb_true_iff in K1 as [Ka Kb]. split; [destruct x; try discriminate; congruence | auto].
      * destruct x; try discriminate. split; reflexivity.
      * auto.
Qed.

Lemma pyd_obj_rel sc o : pyd_ok_obj sc o = true -> orel sc o (pyd_obj sc o).
Proof.
  intros K. unfold orel, pyd_obj. pose proof (pyd_ok_rel sc (PMsg o) K) as R. destruct o as [c ra s u g].
  cbn [pyd_pv] in *. exact R.
Qed.

Lemma pyd_obj_cls sc o : ocls (pyd_obj sc o) = ocls o.
Proof. destruct o. reflexivity. Qed.
