(* C01 layer 3b — what one record does to the object ([step]), for the three shapes of field:
   singular (setattr, with the oneof sibling reset and _group_current update), repeated (append /
   extend) and map (entry merge).  Stated for an object whose other slots are arbitrary: a decoded
   record only touches its own slot (and, for a oneof member, its group). *)
From Coq Require Import ZArith List Bool Lia ZifyBool.
From BP Require Import Base.Prelude Model.Types Model.Varint Model.Scalar Model.Float Model.Utf8.
From BP Require Import Model.Object Model.Eq Model.TimeCore Model.Encode Model.Decode Model.WellFormed Model.C01Def.
From BP Require Import gen.Tables Proofs.C01Frame Proofs.C01Step.

(* ---------- set_nth ---------- *)
Lemma set_nth_twice {A} i (x y : A) l : set_nth i y (set_nth i x l) = set_nth i y l.
Proof. revert i; induction l as [|a l IH]; intros [|i]; cbn; try reflexivity. f_equal. apply IH. Qed.

Lemma nth_set_nth_same {A} i (x d : A) l : (i < length l)%nat -> nth i (set_nth i x l) d = x.
Proof. revert i; induction l as [|a l IH]; intros [|i] H; cbn in *; try lia; [reflexivity|]. apply IH. lia. Qed.

Lemma nth_set_nth_other {A} i j (x d : A) l : i <> j -> nth j (set_nth i x l) d = nth j l d.
Proof.
  revert i j; induction l as [|a l IH]; intros [|i] [|j] H; cbn; try reflexivity; try congruence.
  apply IH. congruence.
Qed.

Lemma set_nth_length {A} i (x : A) l : length (set_nth i x l) = length l.
Proof. revert i; induction l as [|a l IH]; intros [|i]; cbn; try reflexivity. f_equal. apply IH. Qed.

Lemma set_nth_same {A} i (d : A) l : (i < length l)%nat -> set_nth i (nth i l d) l = l.
Proof. revert i; induction l as [|a l IH]; intros [|i] H; cbn in *; try lia; [reflexivity|]. f_equal. apply IH. lia. Qed.

(* ---------- __setattr__ ---------- *)
Definition reset_sibs (g i : nat) : nat -> list fdesc -> list pv -> list pv :=
  fix go (j : nat) (fs : list fdesc) (raw : list pv) : list pv :=
    match fs, raw with
    | f' :: fs', x :: raw' =>
        (if opt_nat_eqb (fgroup f') (Some g) && negb (Nat.eqb j i) then PPlaceholder else x)
        :: go (S j) fs' raw'
    | _, _ => raw
    end.

Definition marked (sc : schema) (v : pv) : pv := if fieldless sc v then mark_sow v else v.

Lemma setattr_unfold sc c raw sow unk cur i v :
  setattr sc (Obj c raw sow unk cur) i v =
  match nth_error (cfields (get_class sc c)) i with
  | None => Obj c raw sow unk cur
  | Some f =>
      match fgroup f with
      | None => Obj c (set_nth i (marked sc v) raw) true unk cur
      | Some g => Obj c (set_nth i (marked sc v) (reset_sibs g i 0 (cfields (get_class sc c)) raw)) true unk
                      (set_nth g (Some i) cur)
      end
  end.
Proof. reflexivity. Qed.

(* every other member of group g holds PLACEHOLDER *)
Definition sibs_clear (fs : list fdesc) (raw : list pv) (g i : nat) : Prop :=
  forall k f', nth_error fs k = Some f' -> fgroup f' = Some g -> k <> i -> nth k raw PPlaceholder = PPlaceholder.

Lemma opt_nat_eqb_eq a b : opt_nat_eqb a b = true <-> a = b.
Proof.
  destruct a, b; cbn; split; intros H; try congruence; try reflexivity.
  - apply Nat.eqb_eq in H. congruence.
  - injection H as ->. apply Nat.eqb_refl.
Qed.

Lemma reset_sibs_id g i fs : forall j raw,
  (forall k f', nth_error fs k = Some f' -> fgroup f' = Some g -> (j + k)%nat <> i ->
                nth k raw PPlaceholder = PPlaceholder) ->
  reset_sibs g i j fs raw = raw.
Proof.
  induction fs as [|f fs IH]; intros j raw H; [destruct raw; reflexivity|].
  destruct raw as [|x raw]; [reflexivity|]. cbn [reset_sibs]. fold (reset_sibs g i).
  f_equal.
  - destruct (opt_nat_eqb (fgroup f) (Some g) && negb (Nat.eqb j i)) eqn:E; [|reflexivity].
    apply andb_true_iff in E as [E1 E2]. apply opt_nat_eqb_eq in E1. apply negb_true_iff, Nat.eqb_neq in E2.
    symmetry. apply (H 0%nat f); [reflexivity | exact E1 | lia].
  - apply IH. intros k f' Hk Hg Hne. apply (H (S k) f'); [exact Hk | exact Hg | lia].
Qed.

Lemma reset_sibs_clear g i fs raw : sibs_clear fs raw g i -> reset_sibs g i 0 fs raw = raw.
Proof. intros H. apply reset_sibs_id. intros k f' Hk Hg Hne. apply (H k f' Hk Hg). lia. Qed.

Lemma sibs_clear_set fs raw g i x : sibs_clear fs raw g i -> sibs_clear fs (set_nth i x raw) g i.
Proof. intros H k f' Hk Hg Hne. rewrite nth_set_nth_other by congruence. apply (H k f' Hk Hg Hne). Qed.

Definition cur_after (f : fdesc) (i : nat) (cur : list (option nat)) : list (option nat) :=
  match fgroup f with Some g => set_nth g (Some i) cur | None => cur end.

(* setattr on a slot whose group siblings are clear: only slot i (and the group's selection) changes *)
Lemma setattr_clear sc c raw sow unk cur i f v :
  nth_error (cfields (get_class sc c)) i = Some f ->
  (forall g, fgroup f = Some g -> sibs_clear (cfields (get_class sc c)) raw g i) ->
  setattr sc (Obj c raw sow unk cur) i v = Obj c (set_nth i (marked sc v) raw) true unk (cur_after f i cur).
Proof.
  intros Hf Hs. rewrite setattr_unfold, Hf. unfold cur_after.
  destruct (fgroup f) as [g|]; [|reflexivity]. rewrite reset_sibs_clear by (apply Hs; reflexivity). reflexivity.
Qed.

Lemma cur_after_twice f i cur : cur_after f i (cur_after f i cur) = cur_after f i cur.
Proof. unfold cur_after. destruct (fgroup f); [apply set_nth_twice|reflexivity]. Qed.

Section Apply.
  Variables (fuel' : nat) (sc : schema) (c : nat).
  Let cd := get_class sc c.
  Let fs := cfields cd.

  (* ---- singular field: the record's value replaces the slot ---- *)
  Lemma step_singular raw unk cur i f p value :
    nth_error fs i = Some f ->
    field_by_number cd (pnum p) = Some (i, f) ->
    wire_type_fits f (pwt p) = true ->
    decode_value fuel' sc f p = Ok value ->
    ptype_eqb (fty f) TMap = false ->
    (nth i raw PPlaceholder = PPlaceholder \/ nth i raw PPlaceholder = PNone) ->
    (forall l, default_of sc f <> PList l) ->
    (forall g, fgroup f = Some g -> sibs_clear fs raw g i) ->
    step fuel' sc cd (Obj c raw true unk cur) p
    = Ok (Obj c (set_nth i (marked sc value) raw) true unk (cur_after f i cur)).
  Proof.
    intros Hf Hn Hfit Hdec Hmap Hfresh Hnl Hs.
    unfold step, step_k. rewrite Hn, Hfit. cbn [negb]. rewrite Hdec. cbn [bind].
    unfold getattr. fold cd. fold fs. rewrite Hf.
    destruct (group_selects cur f i) as [[|]|] eqn:Hsel.
    1,3: destruct Hfresh as [Hx|Hx]; rewrite Hx.
    1,3: (rewrite Hmap;
          destruct (default_of sc f) eqn:Hd; try (exfalso; eapply Hnl; eauto; fail);
          (rewrite setattr_clear with (f := f) by (auto; intros g Hg; apply sibs_clear_set; auto));
          rewrite set_nth_twice; reflexivity).
    1,2: rewrite Hmap; rewrite setattr_clear with (f := f) by auto; reflexivity.
    (* AttributeError: current = default; setattr(self, name, current); ...; setattr(self, name, value) *)
    rewrite (setattr_clear sc c raw true unk cur i f (default_of sc f) Hf Hs).
    rewrite Hmap.
    destruct (default_of sc f) eqn:Hd; try (exfalso; eapply Hnl; eauto; fail);
      (rewrite setattr_clear with (f := f) by (auto; intros g Hg; apply sibs_clear_set; auto));
      rewrite set_nth_twice, cur_after_twice; reflexivity.
  Qed.

  Lemma group_selects_none cur f i : fgroup f = None -> group_selects cur f i = None.
  Proof. unfold group_selects. intros ->. reflexivity. Qed.

  (* ---- repeated field: the record's value (one element, or a packed run) is appended ---- *)
  Lemma step_list raw unk cur i f p value l :
    nth_error fs i = Some f ->
    field_by_number cd (pnum p) = Some (i, f) ->
    wire_type_fits f (pwt p) = true ->
    decode_value fuel' sc f p = Ok value ->
    ptype_eqb (fty f) TMap = false ->
    fgroup f = None -> default_of sc f = PList [] ->
    ((nth i raw PPlaceholder = PPlaceholder /\ l = []) \/ nth i raw PPlaceholder = PList l) ->
    step fuel' sc cd (Obj c raw true unk cur) p
    = Ok (Obj c (set_nth i (PList (match value with PList vs => l ++ vs | _ => l ++ [value] end)) raw) true unk cur).
  Proof.
    intros Hf Hn Hfit Hdec Hmap Hg Hd Hslot.
    unfold step, step_k. rewrite Hn, Hfit. cbn [negb]. rewrite Hdec. cbn [bind].
    unfold getattr. fold cd. fold fs. rewrite Hf, (group_selects_none cur f i Hg).
    destruct Hslot as [[Hx ->]|Hx]; rewrite Hx.
    - rewrite Hd, Hmap. rewrite set_nth_twice. reflexivity.
    - rewrite Hmap. reflexivity.
  Qed.

  (* ---- map field: the entry message's key and value are merged into the dict ---- *)
  Lemma step_map raw unk cur i f p e e0 e1 k v d :
    nth_error fs i = Some f ->
    field_by_number cd (pnum p) = Some (i, f) ->
    wire_type_fits f (pwt p) = true ->
    decode_value fuel' sc f p = Ok (PMsg e) ->
    ptype_eqb (fty f) TMap = true ->
    fgroup f = None -> default_of sc f = PDict [] ->
    ((nth i raw PPlaceholder = PPlaceholder /\ d = []) \/ nth i raw PPlaceholder = PDict d) ->
    getattr sc e 0 = (e0, Ok k) -> getattr sc e 1 = (e1, Ok v) ->
    step fuel' sc cd (Obj c raw true unk cur) p
    = Ok (Obj c (set_nth i (PDict (dict_set d sc k v)) raw) true unk cur).
  Proof.
    intros Hf Hn Hfit Hdec Hmap Hg Hd Hslot Hk Hv.
    unfold step, step_k. rewrite Hn, Hfit. cbn [negb]. rewrite Hdec. cbn [bind].
    unfold getattr at 1. fold cd. fold fs. rewrite Hf, (group_selects_none cur f i Hg).
    destruct Hslot as [[Hx ->]|Hx]; rewrite Hx.
    - rewrite Hd, Hmap, Hk, Hv. rewrite set_nth_twice. reflexivity.
    - rewrite Hmap, Hk, Hv. reflexivity.
  Qed.
End Apply.
