(* C09 source-translation tie, part "preprocess": the Gallina obtained MECHANICALLY from the current Python source of
   _preprocess_single / _len_preprocessed_single (coq/gen/C09Src.v, Section SrcPre, written by harness/gen_c09_src.py) is
   extensionally equal to the hand-written model (Model/Encode.v preprocess_with, Model/Len.v len_preprocessed_with), for
   every proto type, wraps, value and every interpretation [msg] of bytes(value) in the delegated TYPE_MESSAGE arm.
   Fuel: the write side calls the translated encode_varint (a fuelled loop, gen/C16Src.v); the equality holds for EVERY
   fuel above an explicit bound computed from the value, so the out-of-fuel arm is unreachable there.
   Built only by the "source tie" stage of harness/props/c09.py (see Proofs/C09Src.v). *)
From BP Require Import Base.Prelude Model.Types Model.Varint Model.Scalar Model.Float.
From BP Require Import Model.Object Model.Eq Model.TimeCore Model.Encode Model.Len gen.Tables.
From BP Require Import Model.C16SrcLib Model.C09SrcLib gen.C16Src gen.C09Src.
From BP Require Import Proofs.VarintP Proofs.ScalarP Proofs.C16Src Proofs.LenP.
From Coq Require Import ZifyBool ZifyN.

Lemma src_c09_preprocess_present : src_c09_preprocess_translated = true.
Proof. reflexivity. Qed.

Lemma src_pre_tables_are_model : src_FIXED_TYPES = FIXED_TYPES.
Proof. reflexivity. Qed.

Ltac src_pre_consts :=
  unfold src_FIXED_TYPES,
    src_TYPE_ENUM, src_TYPE_BOOL, src_TYPE_INT32, src_TYPE_INT64, src_TYPE_UINT32, src_TYPE_UINT64, src_TYPE_SINT32,
    src_TYPE_SINT64, src_TYPE_FLOAT, src_TYPE_DOUBLE, src_TYPE_FIXED32, src_TYPE_SFIXED32, src_TYPE_FIXED64,
    src_TYPE_SFIXED64, src_TYPE_STRING, src_TYPE_MESSAGE, FIXED_TYPES.

Lemma bind_ok_id {A} (r : result A) : bind r (fun x => Ok x) = r.
Proof. destruct r; reflexivity. Qed.

(* the coercion of a dynamic value to int is the model's int_like *)
Lemma py_int_arg_is_int_like v :
  py_int_arg v = match int_like v with Some z => Ok z | None => Err EType end.
Proof. destruct v; reflexivity. Qed.

(* ---------- fuel ---------- *)
(* enough for the varint(s) of the value itself (plain and zig-zag) *)
Definition src_fuel_value (v : pv) : nat :=
  match int_like v with
  | Some z => Nat.max (src_fuel_encode z) (src_fuel_encode (zigzag z))
  | None => O
  end.


(* ---------- _preprocess_single ---------- *)
Theorem src_preprocess_is_model msg fuel t w v :
  (src_fuel_value v <= fuel)%nat ->
  src__preprocess_single msg fuel t w v = preprocess_with msg t w v.
Proof.
  intros Hf. unfold src__preprocess_single, preprocess_with. src_pre_consts.
  unfold src_fuel_value in Hf. rewrite !py_int_arg_is_int_like.
  destruct (tmem t [TEnum; TBool; TInt32; TInt64; TUInt32; TUInt64]).
  { destruct (int_like v) as [z|]; cbn [bind]; [|reflexivity].
    rewrite src_encode_is_model by lia. cbv zeta. apply bind_ok_id. }
  destruct (tmem t [TSInt32; TSInt64]).
  { destruct (int_like v) as [z|]; cbn [bind]; [|reflexivity].
    fold (zigzag z). rewrite src_encode_is_model by lia. cbv zeta. apply bind_ok_id. }
  destruct (tmem t [TFloat; TDouble; TFixed32; TSFixed32; TFixed64; TSFixed64]).
  { unfold py_struct_pack_fmt. apply bind_ok_id. }
  destruct (ptype_eqb t TString).
  { destruct v; reflexivity. }
  destruct (ptype_eqb t TMessage).
  { reflexivity. }
  destruct v; reflexivity.
Qed.

(* ---------- _len_preprocessed_single ---------- *)
Theorem src_len_preprocessed_is_model msg t w v :
  src__len_preprocessed_single msg t w v = len_preprocessed_with msg t w v.
Proof.
  unfold src__len_preprocessed_single, len_preprocessed_with. src_pre_consts.
  rewrite !py_int_arg_is_int_like.
  destruct (tmem t [TEnum; TBool; TInt32; TInt64; TUInt32; TUInt64]).
  { destruct (int_like v) as [z|]; cbn [bind]; [|reflexivity].
    rewrite src_size_is_model. cbv zeta. apply bind_ok_id. }
  destruct (tmem t [TSInt32; TSInt64]).
  { destruct (int_like v) as [z|]; cbn [bind]; [|reflexivity].
    fold (zigzag z). rewrite src_size_is_model. cbv zeta. apply bind_ok_id. }
  destruct (tmem t [TFloat; TDouble; TFixed32; TSFixed32; TFixed64; TSFixed64]).
  { reflexivity. }
  destruct (ptype_eqb t TString).
  { destruct v; reflexivity. }
  destruct (ptype_eqb t TMessage).
  { reflexivity. }
  destruct v; reflexivity.
Qed.

Theorem src_preprocess_agree msg fuel t w v :
  (src_fuel_value v <= fuel)%nat ->
  agree (src__preprocess_single msg fuel t w v) (src__len_preprocessed_single msg t w v).
Proof.
  intros Hf. rewrite src_preprocess_is_model by exact Hf. rewrite src_len_preprocessed_is_model.
  apply agree_preprocess.
Qed.

Definition int64_or_not_int (v : pv) : Prop :=
  match int_like v with Some z => - 2 ^ 63 <= z < 2 ^ 63 | None => True end.

Lemma src_fuel_value_in_range v : int64_or_not_int v -> (src_fuel_value v <= 66)%nat.
Proof.
  unfold int64_or_not_int, src_fuel_value. destruct (int_like v) as [z|]; [|lia].
  intros Hz. pose proof (zigzag_range 64 z ltac:(lia) ltac:(change (64 - 1) with 63; lia)) as Hzz.
  pose proof (src_fuel_encode_in_range z ltac:(lia)).
  pose proof (src_fuel_encode_in_range (zigzag z) ltac:(lia)). lia.
Qed.

Lemma pack_value_no_fuel t v : pack_value t v <> Err EFuel.
Proof.
  unfold pack_value, pack_int.
  destruct (pack_fmt t) as [f|]; [|discriminate].
  destruct f; cbn [fmt_int_range]; destruct v; cbn [int_like]; try discriminate;
    repeat match goal with |- context [if ?c then _ else _] => destruct c end;
    try discriminate;
    match goal with |- context [d2f ?b] => destruct (d2f b); discriminate end.
Qed.

Definition msg_no_fuel (msg : option ptype -> pv -> result (list byte)) : Prop :=
  forall w v, msg w v <> Err EFuel.

Lemma preprocess_no_fuel msg t w v : msg_no_fuel msg -> preprocess_with msg t w v <> Err EFuel.
Proof.
  intros Hm. unfold preprocess_with.
  destruct (tmem t [TEnum; TBool; TInt32; TInt64; TUInt32; TUInt64]).
  { destruct (int_like v); [apply encode_no_fuel_error | discriminate]. }
  destruct (tmem t [TSInt32; TSInt64]).
  { destruct (int_like v); [apply encode_no_fuel_error | discriminate]. }
  destruct (tmem t FIXED_TYPES). { apply pack_value_no_fuel. }
  destruct (ptype_eqb t TString). { destruct v; discriminate. }
  destruct (ptype_eqb t TMessage). { destruct v, w; try apply Hm; discriminate. }
  destruct v; discriminate.
Qed.

Theorem src_preprocess_fuel_ok msg fuel t w v :
  msg_no_fuel msg -> (src_fuel_value v <= fuel)%nat -> src__preprocess_single msg fuel t w v <> Err EFuel.
Proof. intros Hm Hf. rewrite src_preprocess_is_model by exact Hf. apply preprocess_no_fuel, Hm. Qed.

