(* C18 behavioural part: the refutation witnesses (each replayed against the real plugin output, see the header of
   Properties/C18.v) and the concrete facts the non-vacuity Examples use.  All by computation. *)
From Coq Require Import ZArith List Bool.
From BP Require Import Base.Prelude Model.Types Model.Object Model.Eq Model.Encode Model.Decode Model.Json Model.WellFormed.
From BP Require Import Model.History Model.C07Ops Model.C18Beh Model.C18BehEx.
From BP Require Import Proofs.C07InvP Proofs.C07HistP Proofs.C18BehBase.
Import ListNotations.

(* witness 1: o = Outer(); o.q.n.a = 0 - reachable through the public API, satisfies C07's invariant and the domain of
   the correspondence, only the flag condition fails: the plain class writes nothing, the pydantic class writes q *)
Lemma bytes_flag_refuted :
  exists sc c ops o,
    wf_schema sc = true /\ run7 sc (new sc c) ops = Ok o /\ Inv sc o /\ pyd_ok_obj sc o = true /\ sow_ok_obj o = false /\
    enc_obj sc o = Ok [] /\ enc_obj (pyd_schema sc) (pyd_obj sc o) = Ok [x2a; x04; x0a; x02; x08; x00].
Proof.
  exists ex18, 14%nat, ex_ops_nested.
  destruct (run7 ex18 (new ex18 14) ex_ops_nested) as [o|e] eqn:E; [|vm_compute in E; discriminate E].
  exists o. split; [vm_compute; reflexivity|]. split; [reflexivity|]. split; [eapply inv_reachable; exact E|].
  vm_compute in E. injection E as <-. vm_compute. repeat split.
Qed.

(* witness 2: i = Inner(); i.a = PLACEHOLDER - the selected member holds PLACEHOLDER: the plain class materialises
   the zero value (bytes 08 00, {"a": 0}), the pydantic class materialises None (no bytes, {"a": null}) *)
Lemma selected_placeholder_refuted :
  exists sc c ops o,
    wf_schema sc = true /\ run7 sc (new sc c) ops = Ok o /\ Inv sc o /\ pyd_ok_obj sc o = false /\ sow_ok_obj o = true /\
    enc_obj sc o = Ok [x08; x00] /\ enc_obj (pyd_schema sc) (pyd_obj sc o) = Ok [] /\
    to_json CAMEL false sc o = Ok (JObj [(JStr [x61], JInt 0)]) /\
    to_json CAMEL false (pyd_schema sc) (pyd_obj sc o) = Ok (JObj [(JStr [x61], JNull)]).
Proof.
  exists ex18, 12%nat, ex_ops_ph.
  destruct (run7 ex18 (new ex18 12) ex_ops_ph) as [o|e] eqn:E; [|vm_compute in E; discriminate E].
  exists o. split; [vm_compute; reflexivity|]. split; [reflexivity|]. split; [eapply inv_reachable; exact E|].
  vm_compute in E. injection E as <-. vm_compute. repeat split.
Qed.

(* the schema the pydantic option produces is outside wf_schema (an Optional hint inside a group), and flipping only the
   metadata bit - without the Optional annotation - is outside it as well *)
Lemma pyd_schema_not_wf : wf_schema ex18 = true /\ wf_schema (pyd_schema ex18) = false /\ wf_schema (opt_only_schema ex18) = false.
Proof. vm_compute. repeat split. Qed.

(* the example value: in the domain of every theorem, and the pydantic constructor's state corresponds to it *)
Lemma ex_outer_ok :
  wf_schema ex18 = true /\ pyd_ok_obj ex18 ex_outer = true /\ sow_ok_obj ex_outer = true /\ in_range ex18 ex_outer = true /\
  pyd_obj ex18 ex_outer = ex_outer_pyd /\
  enc_obj ex18 ex_outer = Ok [x08; x00; x18; x05; x22; x05; x0a; x01; x6b; x10; x07; x2a; x04; x0a; x02; x08; x00;
                              x32; x02; x08; x00; x3a; x02; x08; x00] /\
  dumpsable (to_dict CAMEL true ex18 ex_outer) = true.
Proof. vm_compute. repeat split. Qed.

(* parse: the decoder of the pydantic class leaves PLACEHOLDER in the siblings it resets (not None): the states
   correspond, they are not the canonical ones *)
Lemma ex_parse :
  parse ex18 12 [x08; x00] = Ok ex_inner_a0 /\ parse (pyd_schema ex18) 12 [x08; x00] = Ok ex_inner_a0 /\
  pyd_obj ex18 ex_inner_a0 = ex_inner_a0_pyd /\
  new (pyd_schema ex18) 12 = Obj 12 [PNone; PNone; PNone] false [] [None].
Proof. vm_compute. repeat split. Qed.

(* equal FieldMetadata, different annotation: a packed record is a list for one class and unknown bytes for the other;
   the value 0 in the attribute is skipped by one and written by the other *)
Lemma metadata_alone_refuted :
  same_meta (get_class ex_one 11) (get_class ex_rep 11) /\ wf_schema ex_one = true /\ wf_schema ex_rep = true /\
  parse ex_one 11 [x0a; x01; x05] = Ok (Obj 11 [PPlaceholder] true [x0a; x01; x05] []) /\
  parse ex_rep 11 [x0a; x01; x05] = Ok (Obj 11 [PList [PInt 5]] true [] []) /\
  enc_obj ex_one (Obj 11 [PInt 0] true [] []) = Ok [] /\ enc_obj ex_rep (Obj 11 [PInt 0] true [] []) = Ok [x08; x00] /\
  default_of ex_one (mkF (nm x76) 1 TInt32 None None None false (HPlain PyInt) 0) = PInt 0 /\
  default_of ex_rep (mkF (nm x76) 1 TInt32 None None None false (HList PyInt) 0) = PList [].
Proof. vm_compute. repeat split. Qed.
