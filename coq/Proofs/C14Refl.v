(* C14, part 8: when is Message.__eq__ reflexive in the model (needed to turn "the copy compares like the
   original" into "the copy is equal to the original"): no NaN inside a container, dict keys pairwise unequal. *)
From BP Require Import Base.Prelude Model.Types Model.Float Model.Object Model.Eq Model.Encode Model.History Model.C14Ops.
From BP Require Import Proofs.BytesP Proofs.C14Ind Proofs.C14Mat Proofs.C14Eq.
From Coq Require Import Lia.

Lemma f64_eq_refl b : f64_is_nan b = false -> f64_eq b b = true.
Proof.
  intros H. unfold f64_eq. rewrite H. cbn [orb]. destruct (f64_is_zero b); cbn [andb]; [reflexivity | apply Z.eqb_refl].
Qed.

Lemma dict_find_skip sc k u pre y :
  (forall kv, In kv pre -> pv_eq sc k (fst kv) = false) -> dict_find sc k u (pre ++ y) = dict_find sc k u y.
Proof.
  induction pre as [|[k' v] pre IH]; intros H; [reflexivity|]. cbn [app dict_find].
  pose proof (H (k', v) (or_introl eq_refl)) as Hk. cbn [fst] in Hk. rewrite Hk. apply IH. intros kv Hin. apply H. right. exact Hin.
Qed.

Definition dict_ok_go (sc : schema) :=
  fix go (d : list (pv * pv)) : bool :=
    match d with
    | [] => true
    | (k, y) :: d' =>
        negb (pv_is_nan k) && eq_refl_ok sc k && negb (pv_is_nan y) && eq_refl_ok sc y &&
        negb (existsb (fun kv => pv_eq sc k (fst kv) || pv_eq sc (fst kv) k) d') && go d'
    end.

Lemma eq_refl_ok_dict sc d : eq_refl_ok sc (PDict d) = dict_ok_go sc d.
Proof. reflexivity. Qed.

Definition PR (sc : schema) (v : pv) : Prop :=
  eq_refl_ok sc v = true -> pv_is_nan v = false -> pv_eq sc v v = true.

Lemma dict_refl sc : forall x pre,
  Forall (fun kv => PR sc (fst kv) /\ PR sc (snd kv)) x ->
  dict_ok_go sc x = true ->
  (forall kv kv', In kv pre -> In kv' x -> pv_eq sc (fst kv') (fst kv) = false) ->
  dict_eq_go sc (pre ++ x) x = true.
Proof.
  induction x as [|[k u] x IH]; intros pre Hf Hok Hpre; [reflexivity|].
  inversion Hf as [|? ? [Hk Hu] Hf']; subst. cbn [fst snd] in *.
  cbn [dict_ok_go] in Hok.
  apply andb_true_iff in Hok as [Hok Hgo]. apply andb_true_iff in Hok as [Hok Hnd].
  apply andb_true_iff in Hok as [Hok Huo]. apply andb_true_iff in Hok as [Hok Hun].
  apply andb_true_iff in Hok as [Hkn Hko].
  apply negb_true_iff in Hkn, Hun, Hnd.
  cbn [dict_eq_go]. rewrite dict_find_skip.
  2: { intros kv Hin. apply (Hpre kv (k, u) Hin). left. reflexivity. }
  cbn [dict_find]. rewrite (Hk Hko Hkn), (Hu Huo Hun). cbn [andb].
  replace (pre ++ (k, u) :: x) with ((pre ++ [(k, u)]) ++ x) by (rewrite <- app_assoc; reflexivity).
  apply IH; [exact Hf' | exact Hgo|].
  intros kv kv' Hin Hin'. apply in_app_or in Hin as [Hin|Hin].
  - apply (Hpre kv kv' Hin). right. exact Hin'.
  - destruct Hin as [<-|[]]. cbn [fst].
    assert (Hx : existsb (fun kv => pv_eq sc k (fst kv) || pv_eq sc (fst kv) k) x = false) by exact Hnd.
    destruct (pv_eq sc (fst kv') k) eqn:E; [|reflexivity].
    exfalso. assert (Ht : existsb (fun kv => pv_eq sc k (fst kv) || pv_eq sc (fst kv) k) x = true).
    { apply existsb_exists. exists kv'. split; [exact Hin'|]. rewrite E. apply orb_true_r. }
    rewrite Ht in Hx. discriminate Hx.
Qed.

Lemma pv_eq_refl sc : forall v, PR sc v.
Proof.
  induction v using pv_induction; unfold PR; intros Hok Hnan;
    try (cbn [pv_eq]; first [reflexivity | apply Z.eqb_refl | apply bytes_eqb_refl]).
  - cbn [pv_eq]. destruct b; reflexivity.
  - cbn [pv_eq]. apply f64_eq_refl. exact Hnan.
  - (* list *)
    rewrite pv_eq_list. cbn [eq_refl_ok] in Hok. clear Hnan.
    induction H as [|x l Hx Hl IH]; [reflexivity|]. cbn [forallb] in Hok.
    apply andb_true_iff in Hok as [H1 H2]. apply andb_true_iff in H1 as [Hn Ho]. apply negb_true_iff in Hn.
    cbn [list_eq_go]. rewrite (Hx Ho Hn), (IH H2). reflexivity.
  - (* dict *)
    rewrite pv_eq_dict, Nat.eqb_refl. cbn [andb]. rewrite eq_refl_ok_dict in Hok.
    apply (dict_refl sc d [] H Hok). intros kv kv' [].
  - (* message *)
    rewrite pv_eq_msg, Nat.eqb_refl. cbn [andb]. cbn [eq_refl_ok] in Hok. clear Hnan.
    generalize (cfields (get_class sc c)) as fs.
    induction H as [|x r Hx Hr IH]; intros fs; [reflexivity|]. cbn [forallb] in Hok.
    apply andb_true_iff in Hok as [H1 H2]. destruct fs as [|f fs]; [reflexivity|]. cbn [eq_go].
    rewrite (IH H2), andb_true_r.
    destruct (pv_is_nan x) eqn:En.
    + destruct x; try discriminate En. cbn [fcmp]. rewrite En. apply orb_true_r.
    + specialize (Hx H1 En). destruct x; try reflexivity; cbn [fcmp]; rewrite Hx; reflexivity.
Qed.

Theorem obj_eq_refl sc o : eq_refl_ok sc (PMsg o) = true -> obj_eq sc o o = true.
Proof. intros H. unfold obj_eq. apply (pv_eq_refl sc (PMsg o) H). reflexivity. Qed.
