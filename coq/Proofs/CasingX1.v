(* Lemmas about Model/Casing.v (C19), part X1: the first word the scanner emits from a state that already
   holds part of a word, and NECESSITY of key_safe: when key_safe fails, the camelCase key does not map
   back through the casing functions alone.  For every byte string (no bound, no alphabet). *)
From BP Require Import Base.Prelude Model.Casing Proofs.BytesP Proofs.CasingP Proofs.CasingP2 Proofs.CasingP3 Proofs.CasingP4.

(* ---------------------------------------------------------------- first word from a non-empty state *)
Lemma first_SD l : forall x, exists t rest, scan (SD x) l = (x ++ t) :: rest.
Proof.
  induction l as [|c r IH]; intros x.
  - exists [], []. cbn [scan flush]. rewrite app_nil_r. reflexivity.
  - cbn [scan step]. destruct (classify c) eqn:E.
    + exists [], (scan (SU [] c) r). rewrite app_nil_r. reflexivity.
    + exists [], (scan (SL [c]) r). rewrite app_nil_r. reflexivity.
    + destruct (IH (x ++ [c])) as (t & rest & Q). exists (c :: t), rest. cbn [app]. rewrite Q, <- app_assoc. reflexivity.
    + exists [], (scan S0 r). rewrite app_nil_r. reflexivity.
Qed.

Lemma first_SL l : forall x, exists t rest, scan (SL x) l = (x ++ t) :: rest.
Proof.
  induction l as [|c r IH]; intros x.
  - exists [], []. cbn [scan flush]. rewrite app_nil_r. reflexivity.
  - cbn [scan step]. destruct (classify c) eqn:E.
    + exists [], (scan (SU [] c) r). rewrite app_nil_r. reflexivity.
    + destruct (IH (x ++ [c])) as (t & rest & Q). exists (c :: t), rest. cbn [app]. rewrite Q, <- app_assoc. reflexivity.
    + destruct (first_SD r (x ++ [c])) as (t & rest & Q). exists (c :: t), rest. cbn [app]. rewrite Q, <- app_assoc. reflexivity.
    + exists [], (scan S0 r). rewrite app_nil_r. reflexivity.
Qed.

(* the text does not begin with a lower-case letter *)
Definition not_lower_head (l : list byte) : Prop :=
  match l with c :: _ => is_lower_b c = false | [] => True end.

(* an upper-case run keeps growing (or is completed as it stands) unless a lower-case letter follows at once *)
Lemma first_SU l : forall pre u, not_lower_head l ->
  exists t rest, scan (SU pre u) l = (pre ++ [u] ++ t) :: rest.
Proof.
  induction l as [|c r IH]; intros pre u H.
  - exists [], []. reflexivity.
  - cbn [not_lower_head] in H. unfold is_lower_b in H. cbn [scan step]. destruct (classify c) eqn:E.
    + (* Upper *) cbn [app]. destruct r as [|c2 r2].
      * exists [c], []. cbn [scan flush]. rewrite <- app_assoc. reflexivity.
      * destruct (is_lower_b c2) eqn:L.
        -- unfold is_lower_b in L. cbn [scan step]. destruct (classify c2) eqn:E2; try discriminate L.
           destruct (pre ++ [u]) as [|p0 pt] eqn:P; [exfalso; exact (app_ne_nil_r pre u P)|].
           exists [], (scan (SL [c; c2]) r2). cbn [app]. rewrite <- P. reflexivity.
        -- destruct (IH (pre ++ [u]) c L) as (t & rest & Q). exists (c :: t), rest. rewrite Q, <- !app_assoc. reflexivity.
    + discriminate H.
    + destruct (first_SD r (pre ++ [u; c])) as (t & rest & Q). exists (c :: t), rest. cbn [app]. rewrite Q, <- !app_assoc. reflexivity.
    + exists [], (scan S0 r). reflexivity.
Qed.

Lemma capcat_not_lower_head r : Forall lword r -> not_lower_head (capcat r).
Proof.
  intros H. destruct r as [|w r']; [exact I|]. inversion H as [|? ? Hw Hr]; subst.
  destruct (cap_head_not_lower w Hw) as (x & t & E & N). unfold capcat. cbn [map concat]. rewrite E. exact N.
Qed.

Lemma digit_not_lower c : is_digit_b c = true -> is_lower_b c = false.
Proof. unfold is_digit_b, is_lower_b. destruct (classify c); try discriminate; reflexivity. Qed.

Lemma is_digit_class c : is_digit_b c = true -> classify c = Digit.
Proof. unfold is_digit_b. destruct (classify c); try discriminate; reflexivity. Qed.

(* a word "letter digits*" (no lower-case second character): its capitalised form *)
Lemma lword_letter_digits w : lword w -> starts_digit w = false -> second_lower w = false ->
  exists c d, w = c :: d /\ digs d /\ capitalize w = to_upper c :: d /\ classify (to_upper c) = Upper.
Proof.
  intros Hw Sd Sl. destruct (lword_split w Hw Sd) as (c & l & d & -> & Ec & Hl & Hd).
  destruct l as [|c2 l'].
  - exists c, d. destruct (capitalize_lword c [] d Ec eq_refl Hd) as [C U]. cbn [app] in *. repeat split; assumption.
  - exfalso. cbn [app second_lower] in Sl. unfold lows in Hl. cbn [forallb] in Hl. apply andb_true_iff in Hl.
    rewrite (proj1 Hl) in Sl. discriminate Sl.
Qed.

(* a one-letter word still in the buffer, followed by a capitalised "letter digits*" word: the two fuse *)
Lemma single_then_nolower u w l : lword w -> starts_digit w = false -> second_lower w = false -> not_lower_head l ->
  exists U d t rest, capitalize w = U :: d /\ classify U = Upper /\
                     scan (SU [] u) (capitalize w ++ l) = ([u; U] ++ t) :: rest.
Proof.
  intros Hw Sd Sl Hl. destruct (lword_letter_digits w Hw Sd Sl) as (c & d & -> & Hd & C & EU).
  rewrite C. set (U := to_upper c) in *. exists U, d.
  cbn [app scan]. rewrite step_SU_upper by exact EU. cbn [app].
  destruct d as [|c2 d'].
  - cbn [app]. destruct (first_SU l [u] U Hl) as (t & rest & Q). exists t, rest. repeat split; auto.
  - unfold digs in Hd. cbn [forallb] in Hd. apply andb_true_iff in Hd. destruct Hd as [Hc2 Hd].
    cbn [app scan]. rewrite step_SU_digit by (apply is_digit_class; exact Hc2). cbn [app].
    destruct (first_SD (d' ++ l) [u; U; c2]) as (t & rest & Q). exists (c2 :: t), rest. repeat split; auto.
Qed.

(* ---------------------------------------------------------------- key_safe is necessary *)
(* the head clause of key_safe_from fails: the word in the buffer grows *)
Lemma key_bad_head w b s p l : lword w -> chain_st b s -> flush s = [p] ->
  negb (starts_digit w) && (negb b || second_lower w) = false -> not_lower_head l ->
  exists t rest, scan s (capitalize w ++ l) = (p ++ t) :: rest /\ t <> [].
Proof.
  intros Hw Hs Fp K Hl. destruct (starts_digit w) eqn:Sd.
  - (* a word of digits extends whatever is in the buffer *)
    pose proof (lword_digit_start w Hw Sd) as Hd. pose proof (lword_ne w Hw) as N.
    rewrite (capitalize_digs w Hd). destruct w as [|c d']; [contradiction N; reflexivity|].
    unfold digs in Hd. cbn [forallb] in Hd. apply andb_true_iff in Hd. destruct Hd as [Hc Hd].
    pose proof (is_digit_class c Hc) as E.
    destruct b; cbn [chain_st] in Hs.
    + destruct Hs as (u & ->). cbn [flush app] in Fp. injection Fp as <-.
      cbn [app scan]. rewrite step_SU_digit by exact E. cbn [app].
      destruct (first_SD (d' ++ l) [u; c]) as (t & rest & Q). exists (c :: t), rest. split; [exact Q|discriminate].
    + destruct Hs as [->|(w0 & [->| ->])]; cbn [flush] in Fp; try discriminate Fp; injection Fp as <-;
        cbn [app scan step]; rewrite E; cbn [app];
        destruct (first_SD (d' ++ l) (w0 ++ [c])) as (t & rest & Q); exists (c :: t), rest;
        (split; [rewrite Q, <- app_assoc; reflexivity|discriminate]).
  - cbn [negb andb] in K. destruct b; cbn [negb orb] in K; [|discriminate K].
    destruct Hs as (u & ->). cbn [flush app] in Fp. injection Fp as <-.
    destruct (single_then_nolower u w l Hw Sd K Hl) as (U & d & t & rest & _ & _ & Q).
    exists (U :: t), rest. split; [exact Q|discriminate].
Qed.

Definition lens (ws : list (list byte)) : list nat := map (@length byte) ws.

Lemma lens_lower ws : lens (map lower ws) = lens ws.
Proof. unfold lens. rewrite map_map. apply map_ext. intros a. apply map_length. Qed.

Lemma capitalize_length w : length (capitalize w) = length w.
Proof. destruct w as [|c r]; [reflexivity|]. cbn [capitalize length]. unfold lower. rewrite map_length. reflexivity. Qed.

Lemma lens_capitalize ws : lens (map capitalize ws) = lens ws.
Proof. unfold lens. rewrite map_map. apply map_ext. intros a. apply capitalize_length. Qed.

Lemma key_unsafe_scan r : forall b s p, Forall lword r -> key_safe_from b r = false -> chain_st b s -> flush s = [p] ->
  lens (scan s (capcat r)) <> lens (p :: r).
Proof.
  induction r as [|w r' IH]; intros b s p H K Hs Fp; [discriminate K|].
  inversion H as [|? ? Hw Hr]; subst. cbn [key_safe_from] in K.
  destruct (negb (starts_digit w) && (negb b || second_lower w)) eqn:K1.
  - cbn [andb] in K. apply andb_true_iff in K1. destruct K1 as [K1 K2].
    assert (starts_digit w = false) as Sd by (destruct (starts_digit w); [discriminate K1|reflexivity]).
    destruct (run_cap w b s Hw Sd K2 Hs) as (s' & R & C & F).
    unfold capcat. cbn [map concat]. rewrite scan_app, R. cbn [fst snd]. rewrite Fp. cbn [app lens map].
    intros E. injection E as E. apply (IH (single w) s' (capitalize w) Hr K C F).
    unfold capcat, lens. cbn [map]. rewrite capitalize_length. f_equal. exact E.
  - destruct (key_bad_head w b s p (capcat r') Hw Hs Fp K1 (capcat_not_lower_head r' Hr)) as (t & rest & Q & N).
    unfold capcat in *. cbn [map concat]. rewrite Q. cbn [lens map]. intros E. injection E as E _.
    rewrite app_length in E. destruct t; [contradiction N; reflexivity|]. cbn [length] in E. lia.
Qed.

Lemma words_camel_unsafe w r : Forall lword (w :: r) -> key_safe_from false r = false ->
  lens (words (w ++ capcat r)) <> lens (w :: r).
Proof.
  intros H K. inversion H as [|? ? Hw Hr]; subst. unfold words.
  destruct (run_S0_lword w Hw) as (s' & R & P). rewrite scan_app, R. cbn [fst snd app].
  apply (key_unsafe_scan r false s' w Hr K); [right; exists w; exact P|apply pend_flush; exact P].
Qed.

(* two strings have the same safe_snake_case iff they have the same lower-cased words *)
Lemma safe_snake_eq_words a b : safe_snake_case a = safe_snake_case b <-> map lower (words a) = map lower (words b).
Proof.
  split.
  - intros E. apply (f_equal words) in E. rewrite !words_safe_snake in E. exact E.
  - intros E. unfold safe_snake_case, snake_case. rewrite E. reflexivity.
Qed.

(* the camelCase key of the generated field name, as a function of the lower-cased words *)
Lemma camel_key_safe_snake s :
  camel_key (safe_snake_case s) =
  match map lower (words s) with [] => [] | w :: r => w ++ capcat r end.
Proof.
  rewrite camel_key_is_camel_case. unfold camel_case, pascal_case. rewrite words_safe_snake.
  pose proof (words_lwords s) as H. destruct (map lower (words s)) as [|w r]; [reflexivity|].
  inversion H as [|? ? Hw Hr]; subst. apply camel_shape. exact Hw.
Qed.

Lemma key_unsafe_not_back s : key_safe s = false ->
  safe_snake_case (camel_key (safe_snake_case s)) <> safe_snake_case s.
Proof.
  unfold key_safe. intros K E. apply safe_snake_eq_words in E.
  rewrite camel_key_safe_snake in E. pose proof (words_lwords s) as H.
  destruct (map lower (words s)) as [|w r] eqn:EW; [discriminate K|]. cbn [key_safe_ws] in K.
  apply (words_camel_unsafe w r H K). rewrite <- E. rewrite lens_lower. reflexivity.
Qed.

(* the exact statement: key_safe decides whether the camelCase key maps back through the casing functions *)
Lemma key_safe_iff s : key_safe s = true <->
  safe_snake_case (camel_key (safe_snake_case s)) = safe_snake_case s.
Proof.
  split; [apply camel_key_back|]. intros E. destruct (key_safe s) eqn:K; [reflexivity|].
  exfalso. exact (key_unsafe_not_back s K E).
Qed.

Lemma key_safe_iff_camel_case s : key_safe s = true <->
  safe_snake_case (camel_case (safe_snake_case s)) = safe_snake_case s.
Proof. rewrite <- camel_key_is_camel_case. apply key_safe_iff. Qed.

Lemma key_safe_decides s :
  key_safe s = str_eqb (safe_snake_case (camel_key (safe_snake_case s))) (safe_snake_case s).
Proof.
  destruct (key_safe s) eqn:K; symmetry.
  - apply str_eqb_eq, key_safe_iff, K.
  - destruct (str_eqb _ _) eqn:Q; [|reflexivity]. apply str_eqb_eq in Q. exfalso. exact (key_unsafe_not_back s K Q).
Qed.

(* the lookup of the pinned from_dict (safe_snake_case of the key only): finds the field exactly when key_safe *)
Lemma field_for_key_pinned_iff fs s : In (safe_snake_case s) fs ->
  (field_for_key_pinned fs (camel_key (safe_snake_case s)) = Some (safe_snake_case s) <-> key_safe s = true).
Proof.
  intros I. split; [|apply field_for_key_pinned_back; exact I].
  unfold field_for_key_pinned. destruct (mem_bytes _ fs); [|discriminate]. intros E. injection E as E.
  apply key_safe_iff. exact E.
Qed.

(* ... and never finds ANOTHER field's name by accident only if that other field exists: with the one field alone
   the key is dropped *)
Lemma field_for_key_pinned_lost s : key_safe s = false ->
  field_for_key_pinned [safe_snake_case s] (camel_key (safe_snake_case s)) = None.
Proof.
  intros K. unfold field_for_key_pinned. cbn [mem_bytes existsb]. rewrite orb_false_r.
  destruct (str_eqb _ _) eqn:Q; [|reflexivity]. apply str_eqb_eq in Q. exfalso. exact (key_unsafe_not_back s K Q).
Qed.
