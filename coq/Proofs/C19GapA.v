(* C19 — gap analysis of the property text against Properties/C19.v, and the gap-closing proofs.

   PROPERTY TEXT, clause by clause  ->  theorems that existed  ->  gap  ->  closed by (all in this file)

   (1) "Every legal proto identifier maps to a Python field, method ... name that is a valid identifier and not a keyword"
         -> C19_field_ident / C19_method_ident: for EVERY byte string, no hypothesis.  No gap for one name.
         gap a (the MAPPING of a class, not of one name): nothing said that two different proto fields of one message get two
            different Python attributes, nor which protoc rule guarantees it.  -> field_names_distinct_legacy (the proto3 rule
            of protoc <= 21, "unique after lower-casing and removing underscores", makes the attribute names, the camelCase
            keys and the snake_case keys pairwise distinct); json_rule_collision_refuted: under the rule protoc >= 22 enforces
            (default JSON names distinct, case-sensitively; libprotoc 35.1 of the sandbox accepts FooBar + foo_bar in one proto3
            message) two fields DO get the same attribute, and the real plugin emits the attribute twice (see report).
   (2) "... or class name that is a valid identifier and not a keyword"
         -> C19_class_name_ok_iff (exact, all strings), K11 witnesses.
         gap: class_name_ok is stated on the scanner's words; for a PROTO IDENTIFIER (what protoc hands over) it was not reduced
            to something one can read off the name.  -> class_name_ok_proto_ident: for strings over A-Z a-z 0-9 _ it is "the first
            character that is not _ exists and is a letter, and snake_case s is not none / true / false";
            class_ident_letter_start: a proto identifier that starts with a letter gives an identifier; it is a keyword iff
            snake_case s is one of the three.
   (3) "enum member names" (anchor pythonize_enum_member_name): C19_enum_member_ident has the hypothesis ident_chars, only sampled.
         -> enum_member_ident_proto: discharged for every proto identifier.
         gap "idempotent" for enum members: no statement.  -> enum_member_idem_refuted (COLOR_COLOR_RED -> COLOR_RED -> RED)
            and enum_member_idem under the exact decidable condition "the enum prefix does not occur in the result".
   (4) "and the mapping is idempotent"
         -> C19_snake_idem (all strings), C19_pascal_stable_iff (exact).  No gap for fields / methods / classes.
   (5) "For every field name protoc accepts, the key to_dict emits for that field (in either casing)"
         -> keys are camel_key F / snake_key F of the ATTRIBUTE F; nothing related them to the PROTO name.
         gap: the sanitising decoration ("from_", "_1") could leak into the JSON.  -> keys_of_proto_name: camel_key F = camel_case s
            and snake_key F = snake_case s for every string s; keyword_field_key: a lower-case keyword k becomes attribute k_
            whose keys are both k itself.
   (6) "as well as the original proto field name, is mapped by from_dict back to the same field"
         -> C19_one_field_roundtrip (ONE field, no hypothesis); C19_from_dict_generated_keys_back (many fields, two emitted keys,
            hypothesis "camelCase keys pairwise distinct" only sampled; original proto name NOT covered for many fields).
         gap a: the exact condition for a whole class.  -> class_keys_back_iff: all three keys of all fields map back IFF the
            camelCase keys are pairwise distinct and no sibling's camelCase key is another field's proto name.
         gap b: discharge for what protoc accepts.  -> legacy_class_keys_back: under the proto3 rule of protoc <= 21 all three keys
            of every field map back, no further hypothesis (the note "original proto name maps back only if no sibling's key
            equals it" is discharged there); json_rule_keys_refuted: under the protoc >= 22 rule it fails (FooBar + foo_bar).
   (7) "the same field" (uniqueness) / "no field is silently dropped"
         -> field_for_key is a function; C19_from_dict_only_fields.
         gap: to_dict itself must not merge two fields into one key.  -> snake_keys_distinct (generated names: ALWAYS distinct
            snake_case keys, no hypothesis), camel keys distinct iff (existing C19_from_dict_camel_back_iff), and under the legacy
            rule by field_names_distinct_legacy; from_dict_key_iff: which keys address a field, exactly.
   (8) quantifier "all Python keywords/builtins/soft keywords": the theorems hold for all strings; keyword_field_key covers kwlist.
   Not closed: composition with C04's from_dict of VALUES (C04's schema addresses fields by key position, not by name);
   camel_case idempotence (not a name mapping); K10 / K11 stay open findings. *)
From Coq Require Import List Bool Lia.
From BP Require Import Base.Prelude Model.Casing Model.C19GapDefs.
From BP Require Import Proofs.BytesP Proofs.CasingP Proofs.CasingP2 Proofs.CasingP3 Proofs.CasingP4 Proofs.CasingX1 Proofs.CasingX2 Proofs.CasingX3.
From BP Require gen.Tables Spec.JsonMap.
Import ListNotations.

(* ---------------------------------------------------------------- the words of s, concatenated, are its alphanumerics *)
Definition stw (s : st) : list byte :=
  match s with S0 => [] | SU pre u => pre ++ [u] | SL w | SD w => w end.

Lemma concat_scan l : forall s, concat (scan s l) = stw s ++ filter is_alnum_b l.
Proof.
  induction l as [|c r IH]; intros s.
  - cbn [scan filter]. rewrite app_nil_r. destruct s; cbn [flush concat stw]; rewrite ?app_nil_r; reflexivity.
  - cbn [scan filter]. unfold step, is_alnum_b.
    destruct s as [|pre u|w|w]; destruct (classify c) eqn:C; try destruct pre as [|p0 pre];
      cbn [app concat]; rewrite ?concat_app, ?IH; cbn [concat stw app]; rewrite <- ?app_assoc; cbn [app];
      rewrite ?app_nil_r; reflexivity.
Qed.

Lemma concat_words s : concat (words s) = filter is_alnum_b s.
Proof. exact (concat_scan s S0). Qed.

Lemma lower_concat ws : lower (concat ws) = concat (map lower ws).
Proof. induction ws as [|w r IH]; [reflexivity|]. cbn [concat map]. rewrite lower_app, IH. reflexivity. Qed.

Lemma lower_lowercase_first x : lower (lowercase_first x) = lower x.
Proof. destruct x as [|c r]; [reflexivity|]. cbn [lowercase_first lower map]. rewrite to_lower_idem. reflexivity. Qed.

Lemma lower_camel_key s : lower (camel_key (safe_snake_case s)) = alnum_key s.
Proof.
  rewrite camel_key_is_camel_case. unfold camel_case, pascal_case, alnum_key.
  rewrite lower_lowercase_first, lower_concat, words_safe_snake, map_lower_capitalize, map_lower_idem, <- lower_concat, concat_words.
  reflexivity.
Qed.

Lemma alnum_not_us c : ident_char c = true -> is_alnum_b c = not_us c.
Proof.
  unfold ident_char, is_alnum_b, not_us. destruct (is_us c) eqn:U.
  - apply is_us_eq in U. subst c. reflexivity.
  - destruct (classify c); cbn [negb]; intros H; try reflexivity. discriminate H.
Qed.

Lemma filter_alnum_ident s : ident_chars s = true -> filter is_alnum_b s = filter not_us s.
Proof.
  unfold ident_chars. induction s as [|c r IH]; [reflexivity|]. cbn [forallb filter]. intros H.
  apply andb_true_iff in H. destruct H as [Hc Hr]. rewrite (alnum_not_us c Hc), (IH Hr). reflexivity.
Qed.

Lemma alnum_key_legacy s : ident_chars s = true -> alnum_key s = legacy_key s.
Proof. intros H. unfold alnum_key, legacy_key. rewrite (filter_alnum_ident s H). reflexivity. Qed.

Lemma filter_not_us_all x : forallb (fun c => negb (is_us c)) x = true -> filter not_us x = x.
Proof.
  induction x as [|c r IH]; [reflexivity|]. cbn [forallb filter]. intros H. apply andb_true_iff in H. destruct H as [Hc Hr].
  unfold not_us at 1. rewrite Hc, (IH Hr). reflexivity.
Qed.

(* ---------------------------------------------------------------- (5) the keys are the casings of the PROTO name *)
Lemma keys_of_proto_name s :
  camel_key (pythonize_field_name s) = camel_case s /\ snake_key (pythonize_field_name s) = snake_case s.
Proof.
  unfold pythonize_field_name. split.
  - rewrite camel_key_is_camel_case. unfold camel_case, pascal_case. rewrite words_safe_snake, map_capitalize_lower. reflexivity.
  - rewrite snake_key_is_snake_case. unfold safe_snake_case. rewrite snake_sanitize, snake_snake. reflexivity.
Qed.

Lemma keyword_field_key k : is_keyword k = true -> snake_case k = k ->
  pythonize_field_name k = k ++ [us] /\ snake_key (pythonize_field_name k) = k /\
  field_for_key [pythonize_field_name k] k = Some (pythonize_field_name k).
Proof.
  intros K S. split; [|split].
  - unfold pythonize_field_name, safe_snake_case, sanitize_name. rewrite S, K. reflexivity.
  - rewrite (proj2 (keys_of_proto_name k)). exact S.
  - apply field_for_key_back; [left; reflexivity| |right; reflexivity].
    intros g [<-|[]] _. reflexivity.
Qed.

(* ---------------------------------------------------------------- (7) to_dict never merges two generated fields (snake casing) *)
Lemma snake_keys_distinct f g : safe_snake_case f = f -> safe_snake_case g = g -> snake_key f = snake_key g -> f = g.
Proof.
  intros Ff Fg E. rewrite !snake_key_is_snake_case in E.
  transitivity (safe_snake_case f); [symmetry; exact Ff|]. transitivity (safe_snake_case g); [|exact Fg].
  unfold safe_snake_case. rewrite E. reflexivity.
Qed.

(* ---------------------------------------------------------------- (1a) the legacy proto3 rule separates everything *)
Lemma camel_key_legacy s t : ident_chars s = true -> ident_chars t = true ->
  camel_key (safe_snake_case s) = camel_key (safe_snake_case t) -> legacy_key s = legacy_key t.
Proof.
  intros Hs Ht E. rewrite <- (alnum_key_legacy s Hs), <- (alnum_key_legacy t Ht), <- !lower_camel_key, E. reflexivity.
Qed.

Lemma field_names_distinct_legacy names :
  (forall s, In s names -> ident_chars s = true) ->
  (forall s t, In s names -> In t names -> legacy_key s = legacy_key t -> s = t) ->
  forall s t, In s names -> In t names ->
    (pythonize_field_name s = pythonize_field_name t -> s = t) /\
    (camel_key (pythonize_field_name s) = camel_key (pythonize_field_name t) -> s = t) /\
    (snake_key (pythonize_field_name s) = snake_key (pythonize_field_name t) -> s = t).
Proof.
  intros I U s t Hs Ht. unfold pythonize_field_name.
  assert (C : camel_key (safe_snake_case s) = camel_key (safe_snake_case t) -> s = t).
  { intros E. apply (U s t Hs Ht). apply camel_key_legacy; auto. }
  split; [|split].
  - intros E. apply C. rewrite E. reflexivity.
  - exact C.
  - intros E. apply C. f_equal. apply snake_keys_distinct; [apply safe_snake_idem|apply safe_snake_idem|exact E].
Qed.

(* ---------------------------------------------------------------- (6b) ... and all three keys of every field map back *)
Lemma legacy_class_keys_back names :
  (forall s, In s names -> ident_chars s = true) ->
  (forall s t, In s names -> In t names -> legacy_key s = legacy_key t -> s = t) ->
  forall s, In s names ->
    let fs := fields_of names in let F := pythonize_field_name s in
    field_for_key fs (camel_key F) = Some F /\ field_for_key fs (snake_key F) = Some F /\ field_for_key fs s = Some F.
Proof.
  intros I U s Hs fs F. unfold pythonize_field_name in F.
  assert (InF : In F fs) by (apply in_map; exact Hs).
  assert (G : forall f, In f fs -> safe_snake_case f = f).
  { intros f Hf. apply in_map_iff in Hf. destruct Hf as (t & <- & _). apply safe_snake_idem. }
  assert (D : forall f g, In f fs -> In g fs -> camel_key f = camel_key g -> f = g).
  { intros f g Hf Hg E. apply in_map_iff in Hf. destruct Hf as (t & <- & Ht). apply in_map_iff in Hg. destruct Hg as (t' & <- & Ht').
    unfold pythonize_field_name in *. f_equal. apply (U t t' Ht Ht'). apply camel_key_legacy; auto. }
  destruct (field_for_key_generated fs G D F InF) as [A B]. split; [exact A|split; [exact B|]].
  apply field_for_key_back; [exact InF| |right; reflexivity].
  intros g Hg E. apply in_map_iff in Hg. destruct Hg as (t & <- & Ht). unfold pythonize_field_name in *.
  unfold F. f_equal. apply (U t s Ht Hs).
  rewrite <- (alnum_key_legacy t (I t Ht)), <- lower_camel_key, E.
  unfold legacy_key. rewrite filter_not_us_all; [reflexivity|]. rewrite <- E. apply no_us_camel_key_generated.
Qed.

(* ---------------------------------------------------------------- (6a) the exact condition for a class *)
Lemma assoc_last_some fs k g : In g fs -> camel_key g = k -> assoc_last k (key_table fs) <> None.
Proof. intros Ig E N. exact (assoc_last_none fs k N g Ig E). Qed.

Lemma class_keys_back_iff names :
  let fs := fields_of names in
  (forall s, In s names -> let F := pythonize_field_name s in
      field_for_key fs (camel_key F) = Some F /\ field_for_key fs (snake_key F) = Some F /\ field_for_key fs s = Some F)
  <->
  ((forall f g, In f fs -> In g fs -> camel_key f = camel_key g -> f = g) /\
   (forall s t, In s names -> In t names -> camel_key (pythonize_field_name t) = s ->
      pythonize_field_name t = pythonize_field_name s)).
Proof.
  intros fs. split.
  - intros H.
    assert (D : forall f g, In f fs -> In g fs -> camel_key f = camel_key g -> f = g).
    { apply (proj1 (field_for_key_camel_iff fs)). intros f Hf. apply in_map_iff in Hf. destruct Hf as (t & <- & Ht).
      exact (proj1 (H t Ht)). }
    split; [exact D|]. intros s t Hs Ht E.
    pose proof (proj2 (proj2 (H s Hs))) as Q. unfold field_for_key in Q.
    assert (It : In (pythonize_field_name t) fs) by (apply in_map; exact Ht).
    destruct (assoc_last s (key_table fs)) as [g|] eqn:A.
    + destruct (assoc_last_sound fs s g A) as [Ig Cg].
      assert (g = pythonize_field_name t) as -> by (apply D; [exact Ig|exact It|rewrite Cg, E; reflexivity]).
      destruct (mem_bytes (pythonize_field_name t) fs); [|discriminate Q]. injection Q as Q. exact Q.
    + exfalso. exact (assoc_last_some fs s _ It E A).
  - intros [D O] s Hs F.
    assert (InF : In F fs) by (apply in_map; exact Hs).
    assert (G : forall f, In f fs -> safe_snake_case f = f).
    { intros f Hf. apply in_map_iff in Hf. destruct Hf as (t & <- & _). apply safe_snake_idem. }
    destruct (field_for_key_generated fs G D F InF) as [A B]. split; [exact A|split; [exact B|]].
    apply field_for_key_back; [exact InF| |right; reflexivity].
    intros g Hg E. apply in_map_iff in Hg. destruct Hg as (t & <- & Ht). exact (O s t Hs Ht E).
Qed.

(* which keys address field f, exactly *)
Lemma from_dict_key_iff fs k f :
  field_for_key fs k = Some f <->
  In f fs /\ (assoc_last k (key_table fs) = Some f \/
              ((forall g, In g fs -> camel_key g <> k) /\ safe_snake_case k = f)).
Proof.
  unfold field_for_key. destruct (assoc_last k (key_table fs)) as [g|] eqn:A.
  - split.
    + intros H. destruct (mem_bytes g fs) eqn:M; [|discriminate H]. injection H as <-.
      split; [apply mem_bytes_in; exact M|left; reflexivity].
    + intros [I [E|[N _]]].
      * injection E as ->. apply mem_bytes_in in I. rewrite I. reflexivity.
      * exfalso. destruct (assoc_last_sound fs k g A) as [Ig Cg]. exact (N g Ig Cg).
  - split.
    + intros H. destruct (mem_bytes (safe_snake_case k) fs) eqn:M; [|discriminate H]. injection H as <-.
      split; [apply mem_bytes_in; exact M|right; split; [exact (assoc_last_none fs k A)|reflexivity]].
    + intros [I [E|[_ <-]]]; [discriminate E|]. apply mem_bytes_in in I. rewrite I. reflexivity.
Qed.

(* ---------------------------------------------------------------- the rule protoc >= 22 enforces is NOT enough *)
Definition n_FooBar : list byte := [x46; x6f; x6f; x42; x61; x72].
Definition n_foo_bar : list byte := [x66; x6f; x6f; x5f; x62; x61; x72].

Lemma json_rule_collision_refuted :
  exists names s t, json_rule_ok names = true /\ In s names /\ In t names /\ s <> t /\
    pythonize_field_name s = pythonize_field_name t /\ legacy_rule_ok names = false.
Proof.
  exists [n_FooBar; n_foo_bar], n_FooBar, n_foo_bar. vm_compute.
  repeat split; try reflexivity; auto; discriminate.
Qed.

(* ---------------------------------------------------------------- (2) class names of proto identifiers *)
Lemma first_word_ident s : ident_chars s = true ->
  match words s with [] => false | w :: _ => negb (starts_digit w) end = first_is_letter s.
Proof.
  unfold ident_chars, first_is_letter. induction s as [|c r IH]; [reflexivity|]. cbn [forallb]. intros H.
  apply andb_true_iff in H. destruct H as [Hc Hr]. cbn [lstrip_us]. destruct (is_us c) eqn:U.
  - apply is_us_eq in U. subst c. rewrite words_us_cons. exact (IH Hr).
  - pose proof (concat_words (c :: r)) as CW. cbn [filter] in CW. rewrite (alnum_not_us c Hc) in CW. unfold not_us in CW.
    rewrite U in CW. cbn [negb] in CW.
    pose proof (words_lwords (c :: r)) as L. destruct (words (c :: r)) as [|w ws]; [discriminate CW|].
    inversion L as [|? ? Lw _]; subst. apply lword_ne in Lw. destruct w as [|c0 w']; [exfalso; apply Lw; reflexivity|].
    cbn [concat app] in CW. injection CW as -> _. reflexivity.
Qed.

Lemma class_name_ok_proto_ident s : ident_chars s = true -> class_name_ok s = class_name_ok_ident s.
Proof. intros H. unfold class_name_ok, class_name_ok_ident. rewrite (first_word_ident s H). reflexivity. Qed.

Definition starts_letter (s : list byte) : bool :=
  match s with c :: _ => match classify c with Upper | Lower => true | _ => false end | [] => false end.

Lemma class_ident_letter_start s : ident_chars s = true -> starts_letter s = true ->
  ((is_identifier (pythonize_class_name s) = true /\ is_keyword (pythonize_class_name s) = false) <->
   mem_bytes (snake_case s) (map lower capital_keywords) = false).
Proof.
  intros I L.
  assert (FL : first_is_letter s = true).
  { unfold first_is_letter. destruct s as [|c r]; [discriminate L|]. cbn [starts_letter] in L. cbn [lstrip_us].
    destruct (is_us c) eqn:U; [apply is_us_eq in U; subst c; discriminate L|]. unfold is_digit_b.
    destruct (classify c); try discriminate L; reflexivity. }
  rewrite <- class_name_ok_iff, (class_name_ok_proto_ident s I). unfold class_name_ok_ident. rewrite FL. cbn [andb].
  destruct (mem_bytes (snake_case s) (map lower capital_keywords)); cbn [negb]; split; intros X; (reflexivity || discriminate X).
Qed.

(* ---------------------------------------------------------------- (3) enum members *)
Lemma enum_member_ident_proto name enum_name : proto_ident name = true ->
  is_identifier (pythonize_enum_member_name name enum_name) = true /\
  is_keyword (pythonize_enum_member_name name enum_name) = false.
Proof. intros H. apply enum_member_ok. apply is_identifier_ident_chars. exact H. Qed.

Lemma enum_member_idem name enum_name : ident_chars name = true ->
  after_first (upper (snake_case enum_name)) (pythonize_enum_member_name name enum_name) = None ->
  pythonize_enum_member_name (pythonize_enum_member_name name enum_name) enum_name = pythonize_enum_member_name name enum_name.
Proof.
  intros I N. unfold pythonize_enum_member_name at 1. rewrite N. apply enum_member_sanitize_fixed. exact I.
Qed.

Definition n_COLOR_COLOR_RED : list byte := [x43; x4f; x4c; x4f; x52; x5f; x43; x4f; x4c; x4f; x52; x5f; x52; x45; x44].
Definition n_Color : list byte := [x43; x6f; x6c; x6f; x72].

Lemma enum_member_idem_refuted : exists name enum_name, proto_ident name = true /\ proto_ident enum_name = true /\
  after_first (upper (snake_case enum_name)) (pythonize_enum_member_name name enum_name) <> None /\
  pythonize_enum_member_name (pythonize_enum_member_name name enum_name) enum_name <> pythonize_enum_member_name name enum_name.
Proof. exists n_COLOR_COLOR_RED, n_Color. vm_compute. repeat split; discriminate. Qed.
