(* Proofs/GrpcConvSeqP.v — the helpers that send first and receive afterwards (_unary_unary, _unary_stream,
   _stream_unary; cm_seq = true): for a request source that does not wait for responses and a handler that
   terminates on the whole request stream, one maximal schedule (sender to the end, handler to the end,
   caller to the end) and, by confluence, every maximal schedule ends with the handler's transcript. *)
From Coq Require Import List Bool Lia Arith.
From BP Require Import Base.Prelude Model.Grpc Model.GrpcConv Proofs.GrpcConvP.
Import ListNotations.

Section Seq.
  Variables SS HS : Type.
  Variable src_step : SS -> src_act SS.
  Variable hdl_step : HS -> hdl_act HS.
  Variable it : bool.
  Variable chk : bool.
  Variable sm_single : bool.

  Notation state := (state SS HS).
  Notation step := (step SS HS src_step hdl_step (CMode true it chk) sm_single).
  Notation run := (run SS HS src_step hdl_step (CMode true it chk) sm_single).
  Notation stuckb := (stuckb SS HS src_step hdl_step (CMode true it chk) sm_single).
  Notation SrcPlain := (SrcPlain SS src_step).
  Notation HdlRuns := (HdlRuns HS hdl_step sm_single).

  Ltac one T :=
    eapply steps_S with (t := T);
    [cbn; unfold GrpcConv.chk_fail; cbn; rewrite ?andb_false_r;
     repeat match goal with H : _ = _ |- _ => rewrite H end; cbn; reflexivity|].

  Lemma kahn_seq : kahn_mode (CMode true it chk) = true.
  Proof. unfold kahn_mode. cbn. apply orb_true_r. Qed.

  Lemma plain_run ss rs : SrcPlain ss rs ->
    forall rq ib hs rd b e hd q rcv cw ce,
    exists ss', steps step (S (length rs)) (St ss false rq ib hs rd b e hd q rcv cw ce)
                      (St ss' true (rq ++ rs) ib hs rd b e hd q rcv cw ce).
  Proof.
    induction 1 as [ss He | ss r ss' rs He Hr IH]; intros rq ib hs rd b e hd q rcv cw ce.
    - exists ss. rewrite app_nil_r. one TSender. apply steps_0.
    - destruct (IH (rq ++ [r]) ib hs rd b e hd q rcv cw ce) as [ss2 Hs].
      exists ss2. rewrite <- app_assoc in Hs. cbn [app length] in *.
      one TSender. exact Hs.
  Qed.

  Lemma hdl_run rq hs sent t : HdlRuns rq hs sent t ->
    forall ss ib rd e q rcv cw ce,
    exists n hs' rq' sent' e',
      steps step n (St ss true rq ib hs rd sent e None q rcv cw ce)
            (St ss true rq' ib hs' (rd ++ fst (fst t)) sent' e' (Some (snd t)) (q ++ snd (fst t)) rcv cw ce).
  Proof.
    induction 1 as [rq hs sent y hs' rd0 em st He Hsent Hr IH
                   | rq hs y hs' He Hsingle
                   | r rq hs sent k rd0 em st He Hr IH
                   | hs sent k t He Hr IH
                   | rq hs sent st He]; intros ss ib rd e q rcv cw ce; cbn [fst snd].
    - destruct (IH ss ib rd e (q ++ [y]) rcv cw ce) as [n [hs2 [rq2 [sent2 [e2 Hs]]]]].
      exists (S n), hs2, rq2, sent2, e2. cbn [fst snd] in Hs. rewrite <- app_assoc in Hs. cbn [app] in Hs.
      one THandler. exact Hs.
    - exists 1%nat, hs', rq, true, e. rewrite !app_nil_r. subst sm_single.
      one THandler. apply steps_0.
    - destruct (IH ss ib (rd ++ [r]) e q rcv cw ce) as [n [hs2 [rq2 [sent2 [e2 Hs]]]]].
      exists (S n), hs2, rq2, sent2, e2. cbn [fst snd] in Hs. rewrite <- app_assoc in Hs. cbn [app] in Hs.
      one THandler. exact Hs.
    - destruct (IH ss ib rd true q rcv cw ce) as [n [hs2 [rq2 [sent2 [e2 Hs]]]]].
      exists (S n), hs2, rq2, sent2, e2. one THandler. exact Hs.
    - exists 1%nat, hs, rq, sent, e. rewrite !app_nil_r.
      one THandler. apply steps_0.
  Qed.

  (* the caller, once sending has finished and the handler is done *)
  Lemma caller_iter_run em : it = true ->
    forall ss rq ib hs rd b e st rcv,
    steps step (S (length em)) (St ss true rq ib hs rd b e (Some st) em rcv false None)
          (St ss true rq (ib ++ em) hs rd b e (Some st) [] (rcv ++ em) false (Some (end_of st))).
  Proof.
    intros ->. induction em as [|y em IH]; intros ss rq ib hs rd b e st rcv.
    - rewrite !app_nil_r. one TCaller. apply steps_0.
    - cbn [length]. one TCaller.
      replace (ib ++ y :: em) with ((ib ++ [y]) ++ em) by (rewrite <- app_assoc; reflexivity).
      replace (rcv ++ y :: em) with ((rcv ++ [y]) ++ em) by (rewrite <- app_assoc; reflexivity).
      apply IH.
  Qed.

  Lemma caller_single_run em st : it = false ->
    forall ss rq ib hs rd b e,
    exists n ib' q',
    steps step n (St ss true rq ib hs rd b e (Some st) em [] false None)
          (St ss true rq ib' hs rd b e (Some st) q' (fst (single_result em st))
              (match em with [] => false | _ => true end) (Some (snd (single_result em st)))).
  Proof.
    intros ->. intros ss rq ib hs rd b e.
    destruct em as [|y em]; [|destruct st as [x|]].
    - exists 1%nat, ib, []. one TCaller. destruct st; cbn; apply steps_0.
    - exists 2%nat, (ib ++ [y]), em. one TCaller. one TCaller. apply steps_0.
    - exists 2%nat, (ib ++ [y]), em. one TCaller. one TCaller. apply steps_0.
  Qed.

  Definition seq_result (em : list msg) (st : option Z) : list msg * cend :=
    if it then (em, end_of st) else single_result em st.

  Theorem seq_canonical ss hs rs rd em st :
    SrcPlain ss rs -> HdlRuns rs hs false (rd, em, st) ->
    exists n f, steps step n (init ss hs) f /\ stuck step f /\
                s_hread f = rd /\ s_recv f = fst (seq_result em st) /\ s_cend f = Some (snd (seq_result em st)).
  Proof.
    intros Hsrc Hh. unfold init.
    destruct (plain_run ss rs Hsrc [] [] hs [] false false None [] [] false None) as [ss1 H1].
    cbn [app] in H1.
    destruct (hdl_run rs hs false _ Hh ss1 [] [] false [] [] false None) as [n2 [hs2 [rq2 [sent2 [e2 H2]]]]].
    cbn [fst snd app] in H2.
    destruct (Bool.bool_dec it true) as [Eit|Eit].
    - assert (Hres : seq_result em st = (em, end_of st)) by (unfold seq_result; rewrite Eit; reflexivity).
      rewrite Hres.
      pose proof (caller_iter_run em Eit ss1 rq2 [] hs2 rd sent2 e2 st []) as H3. cbn [app] in H3.
      eexists. eexists. split; [eapply steps_app; [exact H1 | eapply steps_app; [exact H2 | exact H3]]|].
      split; [intros []; cbn; reflexivity|]. cbn. repeat split; reflexivity.
    - apply Bool.not_true_is_false in Eit.
      assert (Hres : seq_result em st = single_result em st) by (unfold seq_result; rewrite Eit; reflexivity).
      rewrite Hres.
      destruct (caller_single_run em st Eit ss1 rq2 [] hs2 rd sent2 e2) as [n3 [ib3 [q3 H3]]].
      eexists. eexists. split; [eapply steps_app; [exact H1 | eapply steps_app; [exact H2 | exact H3]]|].
      split; [intros []; cbn; reflexivity|]. cbn. repeat split; reflexivity.
  Qed.

  (* every maximal schedule of a send-first helper ends with the handler's transcript; none is longer than N *)
  Theorem seq_complete ss hs rs rd em st :
    SrcPlain ss rs -> HdlRuns rs hs false (rd, em, st) ->
    exists N fin,
      stuckb fin = true /\
      observe fin = Observed rd (fst (seq_result em st)) (Some (snd (seq_result em st))) /\
      forall sch s', run sch (init ss hs) = Some s' ->
        (length sch <= N)%nat /\
        (exists rest, run rest s' = Some fin /\ (length sch + length rest = N)%nat) /\
        (stuckb s' = true -> s' = fin).
  Proof.
    intros Hsrc Hh.
    destruct (seq_canonical ss hs rs rd em st Hsrc Hh) as [n [f [Hs [Hf [A [B C]]]]]].
    destruct (steps_run _ _ _ _ _ _ _ _ _ Hs) as [sch0 [Hl0 Hr0]].
    pose proof (proj2 (stuckb_stuck _ _ _ _ _ _ f) Hf) as Hfb.
    exists n, f. split; [exact Hfb|]. split; [unfold observe; rewrite A, B, C; reflexivity|].
    intros sch s' Hr.
    destruct (conv_bounded _ _ _ _ (CMode true it chk) _ sch0 sch _ f s' kahn_seq Hr0 Hfb Hr) as [Hle [rest [Hrest Hlr]]].
    rewrite Hl0 in *. split; [exact Hle|]. split; [exists rest; split; [exact Hrest | lia]|].
    intros Hsb.
    destruct (conv_confluent _ _ _ _ (CMode true it chk) _ sch0 sch _ f s' kahn_seq Hr0 Hfb Hr Hsb) as [E _]. symmetry. exact E.
  Qed.
End Seq.
