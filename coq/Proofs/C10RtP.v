(* C10 round-trip layer, part 2: the premise of C10_stream_rt_eq discharged by the binary round trip C01.
   A stream of any number of messages of mixed classes, written with dump(SIZE_DELIMITED) and read with the writers'
   classes, comes back as exactly the decoded forms [norm_obj sc m], the stream consumed exactly; each returned message
   == the written one in both operand orders, with the same bytes and the same which_one_of. *)
From BP Require Import Base.Prelude Model.Types Model.Varint Model.Object Model.Eq Model.Encode Model.Len Model.Decode.
From BP Require Import Model.WellFormed Model.C01Def Model.C10Stream Model.C10Rt.
From BP Require Import Spec.Varint Proofs.LenP Proofs.C10FieldP Proofs.C10FrameP Proofs.C10StreamP Proofs.C10RtGenP.
From BP Require Proofs.C01Main Proofs.C01Stable Proofs.C01Eq Proofs.C01Obs Proofs.C01Final Proofs.C08EvoSym.

Lemma dump_of_enc_eq sc a b : enc_obj sc a = enc_obj sc b -> dump sc a true = dump sc b true.
Proof.
  intros H. destruct (enc_obj sc b) as [bs|e] eqn:E.
  - rewrite (dump_delimited _ _ _ H), (dump_delimited _ _ _ E). reflexivity.
  - rewrite (dump_fails_iff_bytes_fails _ _ true _ H), (dump_fails_iff_bytes_fails _ _ true _ E). reflexivity.
Qed.

Lemma norm_obj_cls sc m : ocls (norm_obj sc m) = ocls m.
Proof. destruct m. reflexivity. Qed.

(* ---- one message: C01 in the form the stream lemmas consume ---- *)
Lemma rt_read sc m :
  c01_schema_ok sc = true -> c01_value_ok sc m = true -> msg_small sc m = true ->
  exists bs, enc_obj sc m = Ok bs /\ parse sc (ocls m) bs = Ok (norm_obj sc m).
Proof.
  intros Hs Hv Hsm. destruct (C01Main.c01_decode_is_norm sc m Hs Hv) as (bs & E & P).
  apply msg_small_spec in Hsm as (bs' & E' & L). rewrite E in E'. injection E' as <-.
  exists bs. split; [exact E | exact (P L)].
Qed.

Lemma rt_same sc m :
  c01_schema_ok sc = true -> c01_value_ok sc m = true -> same_message sc m (norm_obj sc m).
Proof.
  intros Hs Hv. pose proof (C01Stable.c01_reencode_stable sc m Hs Hv) as St. unfold same_message.
  split; [intros Hn; split; [apply C01Eq.c01_decoded_equal | apply C08EvoSym.c01_decoded_equal_sym]; assumption|].
  split; [exact St|]. split; [apply dump_of_enc_eq; exact St|]. split; [apply norm_obj_cls|].
  split; [intros g; apply C01Final.c01_which_one_of|].
  intros Hw. apply C01Obs.c01_observers_agree; assumption.
Qed.

Lemma norm_small sc m :
  c01_schema_ok sc = true -> c01_value_ok sc m = true -> msg_small sc m = true -> msg_small sc (norm_obj sc m) = true.
Proof. intros Hs Hv H. unfold msg_small in *. rewrite (C01Stable.c01_reencode_stable sc m Hs Hv). exact H. Qed.

(* re-writing what was read gives the same stream *)
Lemma dump_stream_norm sc : forall ms stream,
  c01_schema_ok sc = true -> Forall (fun m => c01_value_ok sc m = true) ms ->
  dump_stream sc ms = Ok stream -> dump_stream sc (map (norm_obj sc) ms) = Ok stream.
Proof.
  induction ms as [|m ms IH]; intros stream Hs Hv D; [exact D|].
  inversion Hv as [|? ? Hm Hms]; subst.
  destruct (dump_stream_cons _ _ _ _ D) as (F & S' & DF & DS & ->).
  cbn [map dump_stream]. destruct (rt_same sc m Hs Hm) as (_ & _ & Dd & _). rewrite Dd, DF, (IH S' Hs Hms DS). reflexivity.
Qed.

(* ---- (1) the stream round trip, without the NaN condition: what comes back is norm_obj of what was written ---- *)
Theorem stream_decoded sc ms rest :
  c01_schema_ok sc = true ->
  Forall (fun m => c01_value_ok sc m = true) ms -> Forall (fun m => msg_small sc m = true) ms ->
  exists stream,
    dump_stream sc ms = Ok stream /\
    loads sc (map ocls ms) (stream ++ rest) = (map (norm_obj sc) ms, Ok rest) /\
    Forall (fun m => same_message sc m (norm_obj sc m)) ms /\
    dump_stream sc (map (norm_obj sc) ms) = Ok stream.
Proof.
  intros Hs Hv Hsm. destruct (dump_stream_small sc ms Hsm) as (stream & D). exists stream.
  split; [exact D|]. split.
  - apply (loads_parse_each sc sc ms (map ocls ms) stream rest _ Hsm D (map_length _ _)).
    apply parse_each_map. rewrite Forall_forall in *. intros m Hin. apply rt_read; auto.
  - split; [|exact (dump_stream_norm sc ms stream Hs Hv D)].
    rewrite Forall_forall in *. intros m Hin. apply rt_same; auto.
Qed.

(* ---- (1) the headline: each returned message == the written one, both operand orders ---- *)
Theorem stream_roundtrip_c01 sc ms rest :
  c01_schema_ok sc = true ->
  Forall (fun m => c01_value_ok sc m = true /\ deep nan_free (PMsg m) = true) ms ->
  Forall (fun m => msg_small sc m = true) ms ->
  exists stream,
    dump_stream sc ms = Ok stream /\
    loads sc (map ocls ms) (stream ++ rest) = (map (norm_obj sc) ms, Ok rest) /\
    Forall (fun m => obj_eq sc m (norm_obj sc m) = true /\ obj_eq sc (norm_obj sc m) m = true /\
                     enc_obj sc (norm_obj sc m) = enc_obj sc m /\
                     (forall g, which_one_of (norm_obj sc m) g = which_one_of m g)) ms /\
    dump_stream sc (map (norm_obj sc) ms) = Ok stream.
Proof.
  intros Hs Hv Hsm.
  assert (Hv' : Forall (fun m => c01_value_ok sc m = true) ms).
  { rewrite Forall_forall in *. intros m Hin. exact (proj1 (Hv m Hin)). }
  destruct (stream_decoded sc ms rest Hs Hv' Hsm) as (stream & D & L & Hsame & D2).
  exists stream. split; [exact D|]. split; [exact L|]. split; [|exact D2].
  rewrite Forall_forall in *. intros m Hin. destruct (Hsame m Hin) as (Heq & He & _ & _ & Hw & _).
  destruct (Heq (proj2 (Hv m Hin))) as (E1 & E2). repeat split; assumption.
Qed.

(* the same under a bound on the whole stream (the hypothesis the older C10 theorems use) *)
Lemma small_of_stream sc : forall ms stream,
  dump_stream sc ms = Ok stream -> Zlength stream < 2 ^ 64 -> Forall (fun m => msg_small sc m = true) ms.
Proof.
  induction ms as [|m ms IH]; intros stream D L; [constructor|].
  destruct (dump_stream_cons _ _ _ _ D) as (F & S' & DF & DS & ->).
  rewrite Zlen_app in L. pose proof (Zlen_nonneg F). pose proof (Zlen_nonneg S').
  constructor; [|apply (IH S' DS); lia].
  destruct (dump_is_frame _ _ _ DF ltac:(lia)) as (pre & p & E & _ & _ & ->).
  rewrite Zlen_app in *. pose proof (Zlen_nonneg pre). apply msg_small_spec. exists p. split; [exact E | lia].
Qed.

(* ---- K7 at stream level: the NaN condition of the == conclusions cannot be dropped.  An empty message and a message with
        a NaN inside a repeated double: everything else holds (exact frames, norm_obj, same stream again), == does not ---- *)
Definition k7_sc : schema :=
  mkS (builtin_classes ++ [mkC [mkF [x72] 1 TDouble None None None false (HList PyFloat) 0] 0; mkC [] 0]) [].
Definition k7_ms : list obj :=
  [Obj 12 [] false [] []; Obj 11 [PList [PFloat 4607182418800017408; PFloat 9221120237041090560]] true [] []].

Lemma stream_eq_nan_refuted :
  exists sc ms stream,
    c01_schema_ok sc = true /\ forallb (fun m => c01_value_ok sc m && msg_small sc m) ms = true /\
    dump_stream sc ms = Ok stream /\
    loads sc (map ocls ms) stream = (map (norm_obj sc) ms, Ok []) /\
    dump_stream sc (map (norm_obj sc) ms) = Ok stream /\
    forallb (fun m => obj_eq sc m (norm_obj sc m)) ms = false /\ forallb (fun m => obj_eq sc (norm_obj sc m) m) ms = false.
Proof.
  exists k7_sc, k7_ms. eexists. split; [vm_compute; reflexivity|]. split; [vm_compute; reflexivity|].
  split; [vm_compute; reflexivity|]. split; [vm_compute; reflexivity|]. split; [vm_compute; reflexivity|].
  split; vm_compute; reflexivity.
Qed.
