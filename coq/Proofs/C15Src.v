(* C15 source-translation tie, part "convert": the Gallina obtained MECHANICALLY from the current Python source of
   datetime_default_gen / DATETIME_ZERO / _Timestamp.from_datetime / to_datetime / _Duration.from_timedelta / to_timedelta
   (coq/gen/C15Src.v, written by harness/gen_c15_src.py) is extensionally equal to the hand-written model (Model/Time.v).
   There are no loops in these functions, hence no fuel.
   This file is built only by the "source tie" stage of harness/props/c15.py: a harmless rewrite of the Python functions may
   change gen/C15Src.v so that these scripts no longer apply, which is reported as "tie did not hold", never as a violation. *)
From BP Require Import Base.Prelude Model.Time Spec.Time Model.C16SrcLib Model.C15SrcLib gen.C15Src Proofs.TimeP.
From Coq Require Import ZifyBool ZifyN.
Ltac Zify.zify_post_hook ::= Z.to_euclidean_division_equations.

(* the generator translated the part (when it rejects it, it leaves no definition and this flag false) *)
Lemma src_convert_present : src_c15_convert_translated = true.
Proof. reflexivity. Qed.

(* ---------- module level ---------- *)
Lemma src_default_gen_is_model : src_datetime_default_gen = Ok DATETIME_ZERO.
Proof. vm_compute. reflexivity. Qed.

Lemma src_DATETIME_ZERO_is_model : src_DATETIME_ZERO = Ok DATETIME_ZERO.
Proof. exact src_default_gen_is_model. Qed.

(* timedelta(microseconds=1) *)
Lemma td_us1 : py_timedelta_s_us 0 1 = Ok 1.
Proof. vm_compute. reflexivity. Qed.

(* ---------- _Timestamp ---------- *)
Theorem src_from_datetime_is_model dt : src_from_datetime dt = Ok (from_datetime dt).
Proof.
  unfold src_from_datetime. rewrite src_DATETIME_ZERO_is_model. cbn [bind].
  unfold from_datetime, py_divmod, py_msg2, py_pow, py_dt_sub, py_td_days, py_td_seconds, py_td_microseconds.
  cbv beta iota zeta. reflexivity.
Qed.

Theorem src_to_datetime_is_model s n : src_to_datetime s n = to_datetime s n.
Proof.
  unfold src_to_datetime, to_datetime, py_timedelta_s_us, py_floordiv, py_dt_add.
  destruct (timedelta_new s (n / 1000)) as [o|k]; cbn [bind]; [|reflexivity].
  cbv zeta. rewrite src_DATETIME_ZERO_is_model. cbn [bind].
  destruct (dt_add DATETIME_ZERO o) as [r|k]; reflexivity.
Qed.

(* ---------- _Duration ---------- *)
Theorem src_from_timedelta_is_model d : src_from_timedelta d = Ok (from_timedelta d).
Proof.
  unfold src_from_timedelta. rewrite td_us1. cbn [bind].
  unfold py_td_floordiv_td. change (1 =? 0) with false. cbv iota. cbn [bind]. cbv zeta.
  rewrite Z.div_1_r.
  unfold from_timedelta, py_divmod, py_msg2, py_pow. cbv beta iota zeta.
  rewrite Z.gtb_ltb.
  destruct ((d / 10 ^ 6 <? 0) && (0 <? d mod 10 ^ 6)); reflexivity.
Qed.

Theorem src_to_timedelta_is_model s n : src_to_timedelta s n = to_timedelta s n.
Proof.
  unfold src_to_timedelta, to_timedelta, py_timedelta_s_us, py_floordiv, py_abs. cbv zeta.
  rewrite Z.geb_leb.
  destruct (timedelta_new s (if 0 <=? n then Z.abs n / 1000 else - (Z.abs n / 1000))) as [o|k]; reflexivity.
Qed.

(* ---------- the statements of Properties/C15.v over the translated functions ---------- *)
Theorem src_ts_exact dt : src_from_datetime dt = Ok (ts_of_us (instant dt)).
Proof. rewrite src_from_datetime_is_model, from_datetime_is_spec. reflexivity. Qed.

Theorem src_ts_tz a b : instant a = instant b -> src_from_datetime a = src_from_datetime b.
Proof. intros H. rewrite !src_ts_exact, H. reflexivity. Qed.

Theorem src_ts_roundtrip dt : in_ts_range (instant dt) ->
  bind (src_from_datetime dt) (fun '(s, n) => src_to_datetime s n) = Ok (mkdt (instant dt) 0).
Proof.
  intros H. rewrite src_from_datetime_is_model. cbn [bind].
  pose proof (to_from_datetime dt H) as R. destruct (from_datetime dt) as [s n].
  rewrite src_to_datetime_is_model. exact R.
Qed.

Theorem src_ts_decode s n : in_ts_range (ts_to_us s n) -> src_to_datetime s n = Ok (mkdt (ts_to_us s n) 0).
Proof. intros H. rewrite src_to_datetime_is_model. apply to_datetime_is_spec, H. Qed.

Theorem src_ts_decode_overflow s n :
  0 <= n < 1000000000 -> ~ in_ts_range (ts_to_us s n) -> src_to_datetime s n = Err EOverflow.
Proof. intros Hn H. rewrite src_to_datetime_is_model. apply to_datetime_out_of_range; assumption. Qed.

Theorem src_dur_exact d : src_from_timedelta d = Ok (dur_of_us d).
Proof. rewrite src_from_timedelta_is_model, from_timedelta_is_spec. reflexivity. Qed.

Theorem src_dur_roundtrip d : Z.abs (td_days d) <= 999999999 ->
  bind (src_from_timedelta d) (fun '(s, n) => src_to_timedelta s n) = Ok d.
Proof.
  intros H. rewrite src_from_timedelta_is_model. cbn [bind].
  pose proof (to_from_timedelta d H) as R. destruct (from_timedelta d) as [s n].
  rewrite src_to_timedelta_is_model. exact R.
Qed.

Theorem src_dur_roundtrip_range d : in_dur_range d ->
  bind (src_from_timedelta d) (fun '(s, n) => src_to_timedelta s n) = Ok d.
Proof. intros H. apply src_dur_roundtrip, dur_range_days, H. Qed.

Theorem src_dur_decode s n : Z.abs (td_days (dur_to_us s n)) <= 999999999 -> src_to_timedelta s n = Ok (dur_to_us s n).
Proof. intros H. rewrite src_to_timedelta_is_model. apply to_timedelta_is_spec, H. Qed.

(* beyond timedelta's range the constructor raises, never a wrong value *)
Theorem src_dur_decode_overflow s n : Z.abs (td_days (dur_to_us s n)) > 999999999 -> src_to_timedelta s n = Err EOverflow.
Proof.
  intros H. rewrite src_to_timedelta_is_model. unfold to_timedelta, timedelta_new. cbv zeta.
  rewrite abs_div_quot. fold (dur_to_us s n).
  replace (Z.abs (td_days (dur_to_us s n)) >? 999999999) with true by lia. reflexivity.
Qed.
