(* Proofs about Model/Enum.v (C20).

   Specification side (independent of the tables the code builds):
     [first_name ms v]  the name of the first declaration  NAME = v  in the member list
     [canon ms v]       the canonical member for number v: (first declared name, v) — and
                        (None, v) when the enum does not define v (the open value)
   The theorems say the class tables built by EnumType.__new__ answer every lookup with
   [canon], for every class body. *)
From BP Require Import Base.Prelude Model.Varint Model.Scalar Model.Enum Spec.Varint.
From BP Require Import Proofs.BytesP Proofs.VarintP Proofs.ScalarP.
From Coq Require Import Lia ZifyBool.

(* ------------------------------------------------------------------ specification *)
Definition first_name (ms : defn) (v : Z) : option name :=
  match find (fun nv => snd nv =? v) ms with
  | Some nv => Some (fst nv)
  | None => None
  end.

Definition canon (ms : defn) (v : Z) : member := (first_name ms v, v).

Definition int32 (v : Z) : Prop := - 2 ^ 31 <= v < 2 ^ 31.

(* first occurrences, in order *)
Definition dedup (l : list Z) : list Z :=
  fold_left (fun acc v => if existsb (Z.eqb v) acc then acc else acc ++ [v]) l [].

Lemma first_name_Some ms v n :
  first_name ms v = Some n <->
  exists l1 l2, ms = l1 ++ (n, v) :: l2 /\ ~ In v (map snd l1).
Proof.
  unfold first_name. induction ms as [|[n' v'] ms IH]; cbn [find fst snd].
  - split; [discriminate|]. intros (l1 & l2 & E & _). destruct l1; discriminate.
  - destruct (Z.eqb_spec v' v) as [->|Hne].
    + split.
      * intros [= <-]. exists [], ms. split; [reflexivity|]. cbn. tauto.
      * intros (l1 & l2 & E & Hn). destruct l1 as [|[a b] l1]; cbn in E.
        -- injection E as -> _. reflexivity.
        -- injection E as -> -> _. exfalso. apply Hn. cbn. auto.
    + rewrite IH. split.
      * intros (l1 & l2 & -> & Hn). exists ((n', v') :: l1), l2. split; [reflexivity|].
        cbn. intros [H|H]; [congruence|tauto].
      * intros (l1 & l2 & E & Hn). destruct l1 as [|[a b] l1]; cbn in E.
        -- injection E as _ E2. congruence.
        -- injection E as -> -> ->. exists l1, l2. split; [reflexivity|].
           intros H. apply Hn. cbn. auto.
Qed.

Lemma first_name_None ms v : first_name ms v = None <-> ~ In v (map snd ms).
Proof.
  unfold first_name. induction ms as [|[n' v'] ms IH]; cbn [find fst snd map In].
  - tauto.
  - destruct (Z.eqb_spec v' v) as [->|Hne].
    + split; [discriminate|]. intros H. exfalso. apply H. auto.
    + rewrite IH. split; [intros H [H'|H']; [congruence|tauto] | tauto].
Qed.

Lemma first_name_defined ms n v : In (n, v) ms -> exists n0, first_name ms v = Some n0.
Proof.
  intros Hin. destruct (first_name ms v) as [n0|] eqn:E; [eauto|].
  apply first_name_None in E. exfalso. apply E. apply in_map_iff. exists (n, v). auto.
Qed.

Lemma first_name_app a b v :
  first_name (a ++ b) v = match first_name a v with Some n => Some n | None => first_name b v end.
Proof.
  unfold first_name. induction a as [|[n' v'] a IH]; cbn [app find fst snd]; [reflexivity|].
  destruct (v' =? v); [reflexivity|exact IH].
Qed.

Lemma first_name_in ms v n0 : first_name ms v = Some n0 -> In (n0, v) ms.
Proof.
  intros H. apply first_name_Some in H. destruct H as (l1 & l2 & -> & _).
  apply in_or_app. right. left. reflexivity.
Qed.

(* ------------------------------------------------------------------ dicts *)
Lemma beq_refl k : bytes_eqb k k = true.
Proof. apply bytes_eqb_eq. reflexivity. Qed.

Lemma beq_false a b : a <> b -> bytes_eqb a b = false.
Proof.
  intros H. destruct (bytes_eqb a b) eqn:E; [|reflexivity]. apply bytes_eqb_eq in E. contradiction.
Qed.

Lemma zget_zset {V} k k' (x : V) d :
  zget k (zset k' x d) = if k =? k' then Some x else zget k d.
Proof.
  induction d as [|[a b] d IH]; cbn [zset zget].
  - destruct (k =? k'); reflexivity.
  - destruct (Z.eqb_spec k' a) as [->|Hne]; cbn [zget].
    + destruct (k =? a); reflexivity.
    + destruct (Z.eqb_spec k a) as [->|Hka].
      * replace (a =? k') with false by lia. reflexivity.
      * exact IH.
Qed.

Lemma zget_None {V} k (d : list (Z * V)) : zget k d = None <-> ~ In k (map fst d).
Proof.
  induction d as [|[a b] d IH]; cbn [zget map fst In]; [tauto|].
  destruct (Z.eqb_spec k a) as [->|Hne].
  - split; [discriminate|]. intros H. exfalso. auto.
  - rewrite IH. split; [intros H [H'|H']; [congruence|tauto]|tauto].
Qed.

Lemma zset_fresh {V} k (x : V) d : zget k d = None -> zset k x d = d ++ [(k, x)].
Proof.
  induction d as [|[a b] d IH]; cbn [zget zset app]; [reflexivity|].
  destruct (k =? a); [discriminate|]. intros H. rewrite IH by exact H. reflexivity.
Qed.

Lemma nget_nset {V} k k' (x : V) d :
  nget k (nset k' x d) = if bytes_eqb k k' then Some x else nget k d.
Proof.
  induction d as [|[a b] d IH]; cbn [nset nget].
  - destruct (bytes_eqb k k'); reflexivity.
  - destruct (bytes_eqb k' a) eqn:E1; cbn [nget].
    + apply bytes_eqb_eq in E1. subst a. destruct (bytes_eqb k k'); reflexivity.
    + destruct (bytes_eqb k a) eqn:E2.
      * apply bytes_eqb_eq in E2. subst a.
        destruct (bytes_eqb k k') eqn:E3; [|reflexivity].
        apply bytes_eqb_eq in E3. subst k'. rewrite beq_refl in E1. discriminate.
      * exact IH.
Qed.

Lemma nget_None {V} k (d : list (name * V)) : nget k d = None <-> ~ In k (map fst d).
Proof.
  induction d as [|[a b] d IH]; cbn [nget map fst In]; [tauto|].
  destruct (bytes_eqb k a) eqn:E.
  - apply bytes_eqb_eq in E. subst a. split; [discriminate|]. intros H. exfalso. auto.
  - rewrite IH. split; [|tauto]. intros H [H'|H']; [|tauto].
    subst a. rewrite beq_refl in E. discriminate.
Qed.

Lemma nset_fresh {V} k (x : V) d : nget k d = None -> nset k x d = d ++ [(k, x)].
Proof.
  induction d as [|[a b] d IH]; cbn [nget nset app]; [reflexivity|].
  destruct (bytes_eqb k a); [discriminate|]. intros H. rewrite IH by exact H. reflexivity.
Qed.

Lemma nset_keys {V} k (x : V) d :
  map fst (nset k x d) = if nmem k d then map fst d else map fst d ++ [k].
Proof.
  unfold nmem. induction d as [|[a b] d IH]; cbn [nset nget map fst app]; [reflexivity|].
  destruct (bytes_eqb k a) eqn:E; cbn [map fst]; [reflexivity|].
  rewrite IH. destruct (nget k d); reflexivity.
Qed.

(* lookup in a table computed pointwise from a list with distinct names *)
Lemma nget_map_in {V} (g : name * Z -> V) ms n v :
  NoDup (map fst ms) -> In (n, v) ms ->
  nget n (map (fun nv => (fst nv, g nv)) ms) = Some (g (n, v)).
Proof.
  induction ms as [|[a b] ms IH]; cbn [map fst In nget]; [tauto|].
  intros Hnd [Heq|Hin].
  - injection Heq as -> ->. rewrite beq_refl. reflexivity.
  - inversion Hnd as [|? ? Hna Hnd']; subst.
    rewrite beq_false.
    + apply IH; assumption.
    + intros ->. apply Hna. apply in_map_iff. exists (a, v). auto.
Qed.

Lemma nget_map_notin {V} (g : name * Z -> V) (ms : defn) n :
  ~ In n (map fst ms) -> nget n (map (fun nv => (fst nv, g nv)) ms) = None.
Proof.
  intros H. apply nget_None. rewrite map_map. cbn [fst]. exact H.
Qed.

(* ------------------------------------------------------------------ the namespace of a class body *)
Lemma nodup_snoc {A} (l : list A) x : NoDup l -> ~ In x l -> NoDup (l ++ [x]).
Proof.
  intros Hl Hx. induction l as [|a l IH]; cbn [app].
  - constructor; [tauto|constructor].
  - inversion Hl as [|? ? Ha Hl']; subst. constructor.
    + intros H. apply in_app_or in H. destruct H as [H|[H|[]]]; [tauto|]. subst. apply Hx. left. reflexivity.
    + apply IH; [assumption|]. intros H. apply Hx. right. exact H.
Qed.

Lemma ns_fold_nodup (a : defn) : forall acc,
  NoDup (map fst acc) -> NoDup (map fst (fold_left (fun d nv => nset (fst nv) (snd nv) d) a acc)).
Proof.
  induction a as [|[n v] a IH]; cbn [fold_left fst snd]; intros acc H; [exact H|].
  apply IH. rewrite nset_keys. unfold nmem. destruct (nget n acc) eqn:E; [exact H|].
  apply nodup_snoc; [exact H|]. apply nget_None. exact E.
Qed.

Lemma ns_of_nodup a : NoDup (map fst (ns_of a)).
Proof. apply ns_fold_nodup. constructor. Qed.

Lemma ns_fold_id (a : defn) : forall acc,
  NoDup (map fst (acc ++ a)) -> fold_left (fun d nv => nset (fst nv) (snd nv) d) a acc = acc ++ a.
Proof.
  induction a as [|[n v] a IH]; cbn [fold_left fst snd]; intros acc H.
  - rewrite app_nil_r. reflexivity.
  - assert (Hf : nget n acc = None).
    { apply nget_None. intros Hin. rewrite map_app in H. cbn [map fst] in H.
      apply NoDup_remove_2 in H. apply H. apply in_or_app. left. exact Hin. }
    rewrite nset_fresh by exact Hf. rewrite IH; rewrite <- app_assoc; cbn [app]; [reflexivity|exact H].
Qed.

(* a body that never re-assigns a name is its own namespace *)
Lemma ns_of_id a : NoDup (map fst a) -> ns_of a = a.
Proof. intros H. unfold ns_of. rewrite ns_fold_id; [reflexivity|exact H]. Qed.

(* re-assignment: the last value wins *)
Lemma ns_of_snoc_get a n v n' :
  nget n' (ns_of (a ++ [(n, v)])) = if bytes_eqb n' n then Some v else nget n' (ns_of a).
Proof. unfold ns_of. rewrite fold_left_app. cbn [fold_left fst snd]. apply nget_nset. Qed.

Lemma filter_keys_nodup (p : name * Z -> bool) (l : defn) :
  NoDup (map fst l) -> NoDup (map fst (filter p l)).
Proof.
  induction l as [|x l IH]; cbn [filter map]; intros H; [constructor|].
  inversion H as [|? ? Hx Hl]; subst. destruct (p x); cbn [map]; [|apply IH; exact Hl].
  constructor; [|apply IH; exact Hl]. intros Hin. apply Hx.
  apply in_map_iff in Hin. destruct Hin as (y & Ey & Hy). apply filter_In in Hy.
  apply in_map_iff. exists y. tauto.
Qed.

Lemma members_of_nodup a : NoDup (map fst (members_of a)).
Proof. apply filter_keys_nodup, ns_of_nodup. Qed.

Lemma members_of_id a :
  NoDup (map fst a) -> forallb (fun nv => negb (starts_dunder (fst nv))) a = true -> members_of a = a.
Proof.
  intros Hn Hd. unfold members_of. rewrite ns_of_id by exact Hn.
  induction a as [|x a IH]; cbn [filter forallb] in *; [reflexivity|].
  apply andb_prop in Hd. destruct Hd as [Hx Ha]. rewrite Hx. f_equal. apply IH; [|exact Ha].
  inversion Hn; assumption.
Qed.

Lemma members_of_no_dunder a n v : In (n, v) (members_of a) -> starts_dunder n = false.
Proof.
  unfold members_of. intros H. apply filter_In in H. destruct H as [_ H]. cbn [fst] in H.
  destruct (starts_dunder n); [discriminate|reflexivity].
Qed.

(* ------------------------------------------------------------------ the tables EnumType.__new__ builds *)
Lemma build_snoc ms x : build (ms ++ [x]) = build_step (build ms) x.
Proof. unfold build. rewrite fold_left_app. reflexivity. Qed.

(* _value_map_ answers with the first declared name — for every member list *)
Lemma vmap_get ms : forall v,
  zget v (vmap (build ms)) = match first_name ms v with Some n => Some (Some n, v) | None => None end.
Proof.
  induction ms as [|[n x] ms IH] using rev_ind; intros v; [reflexivity|].
  rewrite build_snoc, first_name_app. unfold build_step.
  destruct (zget x (vmap (build ms))) as [m|] eqn:Ex; cbn [vmap].
  - rewrite IH. destruct (first_name ms v) as [n0|] eqn:Ef; [reflexivity|].
    unfold first_name. cbn [find snd]. destruct (Z.eqb_spec x v) as [->|Hne]; [|reflexivity].
    rewrite IH, Ef in Ex. discriminate.
  - rewrite zget_zset. destruct (Z.eqb_spec v x) as [->|Hne].
    + rewrite IH in Ex. destruct (first_name ms x); [discriminate|].
      unfold first_name, enum_new. cbn [find snd fst]. rewrite Z.eqb_refl. reflexivity.
    + rewrite IH. destruct (first_name ms v); [reflexivity|].
      unfold first_name. cbn [find snd]. replace (x =? v) with false by lia. reflexivity.
Qed.

Lemma try_value_canon ms v : try_value (build ms) v = canon ms v.
Proof.
  unfold try_value, canon, enum_new. rewrite vmap_get. destruct (first_name ms v); reflexivity.
Qed.

Lemma call_canon ms v :
  call (build ms) v = match first_name ms v with Some n => Ok (Some n, v) | None => Err EValue end.
Proof. unfold call. rewrite vmap_get. destruct (first_name ms v); reflexivity. Qed.

Lemma canon_app_defined ms x v : In v (map snd ms) -> canon (ms ++ x) v = canon ms v.
Proof.
  intros H. unfold canon. rewrite first_name_app.
  destruct (first_name ms v) eqn:E; [reflexivity|]. apply first_name_None in E. contradiction.
Qed.

(* _member_map_ in closed form, for member lists with distinct names *)
Lemma mmap_closed ms :
  NoDup (map fst ms) ->
  mmap (build ms) = map (fun nv => (fst nv, canon ms (snd nv))) ms.
Proof.
  induction ms as [|[n x] ms IH] using rev_ind; intros Hnd; [reflexivity|].
  rewrite map_app in Hnd. cbn [map fst] in Hnd.
  assert (Hnd' : NoDup (map fst ms)) by (apply NoDup_remove_1 in Hnd; rewrite app_nil_r in Hnd; exact Hnd).
  assert (Hfresh : ~ In n (map fst ms)) by (apply NoDup_remove_2 in Hnd; rewrite app_nil_r in Hnd; exact Hnd).
  specialize (IH Hnd').
  assert (Hm : mmap (build (ms ++ [(n, x)])) = nset n (canon (ms ++ [(n, x)]) x) (mmap (build ms))).
  { rewrite build_snoc. unfold build_step. unfold canon. rewrite first_name_app.
    rewrite vmap_get. destruct (first_name ms x) as [n0|]; cbn [mmap]; [reflexivity|].
    unfold first_name, enum_new. cbn [find snd fst]. rewrite Z.eqb_refl. reflexivity. }
  rewrite Hm, nset_fresh.
  - rewrite IH, map_app. cbn [map fst snd]. f_equal.
    apply map_ext_in. intros [a b] Hin. cbn [fst snd]. f_equal. symmetry.
    apply canon_app_defined. apply in_map_iff. exists (a, b). auto.
  - apply nget_None. rewrite IH, map_map. cbn [fst]. exact Hfresh.
Qed.

(* dedup *)
Lemma dedup_snoc l x :
  dedup (l ++ [x]) = if existsb (Z.eqb x) (dedup l) then dedup l else dedup l ++ [x].
Proof. unfold dedup. rewrite fold_left_app. reflexivity. Qed.

Lemma existsb_eqb_in x l : existsb (Z.eqb x) l = true <-> In x l.
Proof.
  rewrite existsb_exists. split.
  - intros (y & Hy & E). apply Z.eqb_eq in E. subst. exact Hy.
  - intros H. exists x. split; [exact H|apply Z.eqb_refl].
Qed.

Lemma dedup_in l : forall v, In v (dedup l) <-> In v l.
Proof.
  induction l as [|x l IH] using rev_ind; intros v; [reflexivity|].
  rewrite dedup_snoc. destruct (existsb (Z.eqb x) (dedup l)) eqn:E.
  - apply existsb_eqb_in in E. rewrite IH in E. rewrite IH, in_app_iff. cbn [In].
    split; [tauto|]. intros [H|[H|[]]]; [exact H|subst; exact E].
  - rewrite !in_app_iff, IH. reflexivity.
Qed.

Lemma dedup_nodup l : NoDup (dedup l).
Proof.
  induction l as [|x l IH] using rev_ind; [constructor|].
  rewrite dedup_snoc. destruct (existsb (Z.eqb x) (dedup l)) eqn:E; [exact IH|].
  apply nodup_snoc; [exact IH|]. intros H. apply existsb_eqb_in in H. congruence.
Qed.

(* _value_map_ in closed form: one entry per distinct number, in order of first declaration *)
Lemma vmap_closed ms :
  vmap (build ms) = map (fun v => (v, canon ms v)) (dedup (map snd ms)).
Proof.
  induction ms as [|[n x] ms IH] using rev_ind; [reflexivity|].
  rewrite build_snoc, (map_app snd). cbn [map snd]. rewrite dedup_snoc. unfold build_step.
  assert (Hex : existsb (Z.eqb x) (dedup (map snd ms)) = true <-> first_name ms x <> None).
  { rewrite existsb_eqb_in, dedup_in. split.
    - intros H E. apply first_name_None in E. contradiction.
    - intros H. destruct (in_dec Z.eq_dec x (map snd ms)) as [Hi|Hi]; [exact Hi|].
      apply first_name_None in Hi. contradiction. }
  assert (Hext : map (fun v => (v, canon (ms ++ [(n, x)]) v)) (dedup (map snd ms))
                 = map (fun v => (v, canon ms v)) (dedup (map snd ms))).
  { apply map_ext_in. intros v Hv. f_equal. apply canon_app_defined. apply dedup_in. exact Hv. }
  rewrite vmap_get. destruct (first_name ms x) as [n0|] eqn:Ef; cbn [vmap].
  - destruct (existsb (Z.eqb x) (dedup (map snd ms))) eqn:E.
    + rewrite Hext. exact IH.
    + exfalso. destruct Hex as [_ Hex].
      assert (Hc : false = true) by (apply Hex; discriminate). discriminate Hc.
  - destruct (existsb (Z.eqb x) (dedup (map snd ms))) eqn:E.
    + exfalso. destruct Hex as [Hex _]. apply Hex; reflexivity.
    + rewrite zset_fresh.
      * rewrite map_app, Hext, IH. cbn [map]. f_equal. f_equal. f_equal.
        unfold canon, enum_new. rewrite first_name_app, Ef.
        unfold first_name. cbn [find snd fst]. rewrite Z.eqb_refl. reflexivity.
      * rewrite vmap_get, Ef. reflexivity.
Qed.

(* ================================================================== property-level statements
   [c] below is always  class_of body  with  ms := members_of body  (the names the class
   body leaves in its namespace, dunder names removed). *)

Lemma in_numbers (ms : defn) n v : In (n, v) ms -> In v (map snd ms).
Proof. intros H. apply in_map_iff. exists (n, v). auto. Qed.

Lemma in_names (ms : defn) n v : In (n, v) ms -> In n (map fst ms).
Proof. intros H. apply in_map_iff. exists (n, v). auto. Qed.

Lemma in_table_canon ms v : first_name ms v <> None -> in_table (build ms) (canon ms v) = true.
Proof.
  intros H. unfold in_table, canon. cbn [snd]. rewrite vmap_get.
  destruct (first_name ms v) as [n0|]; [|contradiction].
  unfold member_eqb. cbn [fst snd]. rewrite beq_refl, Z.eqb_refl. reflexivity.
Qed.

(* ---- lookup by number ---- *)
Theorem by_number body n v :
  In (n, v) (members_of body) ->
  exists n0 l1 l2,
    members_of body = l1 ++ (n0, v) :: l2 /\ ~ In v (map snd l1) /\
    call (class_of body) v = Ok (Some n0, v) /\
    try_value (class_of body) v = (Some n0, v) /\
    in_table (class_of body) (Some n0, v) = true.
Proof.
  intros Hin. unfold class_of. set (ms := members_of body) in *.
  destruct (first_name_defined ms n v Hin) as (n0 & Ef).
  destruct (proj1 (first_name_Some ms v n0) Ef) as (l1 & l2 & E & Hn).
  exists n0, l1, l2. split; [exact E|]. split; [exact Hn|].
  rewrite call_canon, try_value_canon. unfold canon. rewrite Ef.
  split; [reflexivity|]. split; [reflexivity|].
  change (Some n0, v) with (first_name ms v, v) at 1 || idtac.
  pose proof (in_table_canon ms v) as Ht. unfold canon in Ht. rewrite Ef in Ht. apply Ht. discriminate.
Qed.

(* ---- lookup by name: every way of naming a member gives the object lookup by number gives ---- *)
Theorem by_name body n v :
  In (n, v) (members_of body) ->
  let c := class_of body in
  getitem c n = call c v /\ from_string c n = call c v /\ getattr_cls c n = call c v /\
  call c v = Ok (canon (members_of body) v) /\ snd (canon (members_of body) v) = v.
Proof.
  intros Hin c. subst c. unfold class_of. set (ms := members_of body) in *.
  assert (Hnd : NoDup (map fst ms)) by apply members_of_nodup.
  assert (Hg : nget n (mmap (build ms)) = Some (canon ms v)).
  { rewrite mmap_closed by exact Hnd.
    exact (nget_map_in (fun nv => canon ms (snd nv)) ms n v Hnd Hin). }
  assert (Hc : call (build ms) v = Ok (canon ms v)).
  { rewrite call_canon. unfold canon. destruct (first_name_defined ms n v Hin) as (n0 & ->). reflexivity. }
  unfold getitem, from_string, getattr_cls. rewrite Hg, Hc. repeat split; reflexivity.
Qed.

(* ---- the open set: a number the enum does not define ---- *)
Theorem open_value body v :
  ~ In v (map snd (members_of body)) ->
  let c := class_of body in
  call c v = Err EValue /\ try_value c v = (None, v) /\ eq_int (try_value c v) v = true /\
  contains c (AMem (try_value c v)) = false /\ in_table c (try_value c v) = false.
Proof.
  intros Hn c. subst c. unfold class_of. set (ms := members_of body) in *.
  apply first_name_None in Hn. rewrite call_canon, try_value_canon. unfold canon. rewrite Hn.
  repeat split; try reflexivity.
  - unfold eq_int. cbn [snd]. apply Z.eqb_refl.
  - unfold in_table. cbn [snd]. rewrite vmap_get, Hn. reflexivity.
Qed.

(* every value, defined or not, keeps its number and compares equal to that integer *)
Theorem try_value_number body v :
  snd (try_value (class_of body) v) = v /\ eq_int (try_value (class_of body) v) v = true.
Proof.
  unfold class_of. rewrite try_value_canon. unfold canon, eq_int. cbn [snd]. split; [reflexivity|apply Z.eqb_refl].
Qed.

Theorem undefined_name body n :
  ~ In n (map fst (members_of body)) ->
  let c := class_of body in
  getitem c n = Err EKey /\ from_string c n = Err EValue /\ getattr_cls c n = Err EAttribute.
Proof.
  intros Hn c. subst c. unfold class_of. set (ms := members_of body) in *.
  assert (Hg : nget n (mmap (build ms)) = None).
  { rewrite mmap_closed by apply members_of_nodup. apply nget_map_notin. exact Hn. }
  unfold getitem, from_string, getattr_cls. rewrite Hg. repeat split; reflexivity.
Qed.

(* the enum default is the value for number 0 *)
Theorem default_is_zero body :
  enum_default (class_of body) = canon (members_of body) 0 /\ snd (enum_default (class_of body)) = 0.
Proof. unfold enum_default, class_of. rewrite try_value_canon. split; reflexivity. Qed.

(* ---- iteration, len, contains, and their consistency with _value_map_ ---- *)
Theorem iteration body :
  let c := class_of body in let ms := members_of body in
  iter c = map (fun nv => canon ms (snd nv)) ms /\
  len c = Zlength ms /\
  reversed c = rev (iter c).
Proof.
  intros c ms. subst c ms. unfold class_of. set (ms := members_of body).
  unfold iter, len, reversed, Zlength. rewrite mmap_closed by apply members_of_nodup.
  rewrite map_map, map_length. cbn [snd]. repeat split; reflexivity.
Qed.

Theorem iteration_consistent body :
  let c := class_of body in
  (forall m, In m (iter c) -> call c (snd m) = Ok m /\ contains c (AMem m) = true /\ in_table c m = true) /\
  (forall v m, zget v (vmap c) = Some m -> In m (iter c) /\ snd m = v) /\
  NoDup (map fst (vmap c)) /\
  (forall v, In v (map fst (vmap c)) <-> In v (map snd (members_of body))).
Proof.
  intros c. subst c. unfold class_of. set (ms := members_of body).
  assert (Hnd : NoDup (map fst ms)) by apply members_of_nodup.
  assert (Hit : iter (build ms) = map (fun nv => canon ms (snd nv)) ms).
  { unfold iter. rewrite mmap_closed by exact Hnd. rewrite map_map. reflexivity. }
  split; [|split; [|split]].
  - intros m Hm. rewrite Hit in Hm. apply in_map_iff in Hm. destruct Hm as ([n v] & <- & Hin). cbn [snd].
    destruct (first_name_defined ms n v Hin) as (n0 & Ef).
    unfold canon at 1. cbn [snd]. rewrite call_canon. unfold canon. rewrite Ef.
    split; [reflexivity|]. split.
    + unfold contains, nmem. rewrite mmap_closed by exact Hnd.
      rewrite (nget_map_in (fun nv => canon ms (snd nv)) ms n0 v Hnd (first_name_in ms v n0 Ef)). reflexivity.
    + pose proof (in_table_canon ms v) as Ht. unfold canon in Ht. rewrite Ef in Ht. apply Ht. discriminate.
  - intros v m Hz. rewrite vmap_get in Hz. destruct (first_name ms v) as [n0|] eqn:Ef; [|discriminate].
    injection Hz as <-. split; [|reflexivity]. rewrite Hit. apply in_map_iff.
    exists (n0, v). cbn [snd]. unfold canon. rewrite Ef. split; [reflexivity|apply first_name_in; exact Ef].
  - rewrite vmap_closed, map_map. cbn [fst]. rewrite map_id. apply dedup_nodup.
  - intros v. rewrite vmap_closed, map_map. cbn [fst]. rewrite map_id. apply dedup_in.
Qed.

(* a nameless value is never `in` the class; neither is a plain int or a foreign member *)
Theorem contains_only_members c v z m :
  contains c (AMem (None, v)) = false /\ contains c (AInt z) = false /\ contains c (AForeign m) = false.
Proof. repeat split; reflexivity. Qed.

(* ---- immutability over all histories ---- *)
Theorem mutators_rejected c n x m key :
  cls_setattr c n x = Err EAttribute /\ cls_delattr c n = Err EAttribute /\
  mem_setattr m key x = Err EAttribute /\ mem_delattr m key = Err EAttribute.
Proof. repeat split; reflexivity. Qed.

Lemma step_state cn c o : fst (step cn c o) = c.
Proof. destruct o; reflexivity. Qed.

Lemma step_mutator cn c o : is_mutator o = true -> snd (step cn c o) = CE EAttribute.
Proof. destruct o; cbn [is_mutator]; intros H; try discriminate; reflexivity. Qed.

(* after any history the tables are the ones the class was created with, and every outcome is
   the one the same operation gives on the fresh class: no operation has an effect *)
Theorem immutable_histories cn c ops :
  fst (run cn c ops) = c /\
  snd (run cn c ops) = map (fun o => snd (step cn c o)) ops.
Proof.
  induction ops as [|o ops IH]; cbn [run map]; [split; reflexivity|].
  pose proof (step_state cn c o) as Hs. destruct (step cn c o) as [c1 out] eqn:E. cbn [fst] in Hs. subst c1.
  destruct (run cn c ops) as [c2 outs]. cbn [fst snd] in *. destruct IH as [-> ->]. split; reflexivity.
Qed.

Theorem mutations_in_histories cn c ops :
  Forall2 (fun o out => is_mutator o = true -> out = CE EAttribute) ops (snd (run cn c ops)).
Proof.
  rewrite (proj2 (immutable_histories cn c ops)).
  induction ops as [|o ops IH]; cbn [map]; constructor; [apply step_mutator|exact IH].
Qed.

(* ---- copy / deepcopy / pickle ---- *)
Theorem copy_identity c m :
  copy m = m /\ deepcopy m = m /\
  in_table c (copy m) = in_table c m /\ in_table c (deepcopy m) = in_table c m.
Proof. repeat split; reflexivity. Qed.

Theorem pickle_preserves m :
  pickle_roundtrip m = m /\ fst (pickle_roundtrip m) = fst m /\ snd (pickle_roundtrip m) = snd m.
Proof. destruct m as [n v]. repeat split; reflexivity. Qed.

(* ---- binary codec, scalar level ---- *)
Lemma sign_recover_32_range raw : int32 (sign_recover 32 raw).
Proof.
  unfold int32, sign_recover. rewrite !Z.shiftl_1_l.
  replace (2 ^ 32 - 1) with (Z.ones 32) by reflexivity.
  rewrite Z.land_ones by lia.
  assert (H : 0 <= raw mod 2 ^ 32 < 2 ^ 32) by (apply Z.mod_pos_bound; lia).
  change (32 - 1) with 31.
  rewrite (lxor_signbit (raw mod 2 ^ 32) 31) by (change (31 + 1) with 32; lia).
  destruct (Z.ltb_spec (raw mod 2 ^ 32) (2 ^ 31)); lia.
Qed.

Lemma encode_length_pos v bs : - 2 ^ 63 <= v < 2 ^ 64 -> encode_varint v = Ok bs -> (1 <= length bs)%nat.
Proof.
  intros Hv E. destruct (encode_in_range v Hv) as (bs' & E' & (Sh & _) & _).
  rewrite E in E'. injection E' as <-. apply shape_length_pos. exact Sh.
Qed.

(* what the decoder of the patched tree does with the varint the encoder writes *)
Theorem scalar_roundtrip body v :
  int32 v ->
  let c := class_of body in
  exists bs,
    enum_pre (try_value c v) = Ok bs /\
    enum_len (try_value c v) = Ok (Zlength bs) /\
    (forall rest, load_varint (bs ++ rest) = Ok (v mod 2 ^ 64, bs, rest)) /\
    enum_post c (v mod 2 ^ 64) = try_value c v /\
    snd (enum_post c (v mod 2 ^ 64)) = v.
Proof.
  intros Hv c. subst c. unfold int32 in Hv.
  assert (Hr : - 2 ^ 63 <= v < 2 ^ 64) by lia.
  destruct (encode_size_agree v Hr) as (bs & E & Hs).
  exists bs. unfold enum_pre, enum_len. rewrite (proj1 (try_value_number body v)).
  split; [exact E|]. split; [exact Hs|]. split.
  - intros rest. destruct (encode_load_inverse v rest Hr) as (bs' & E' & L).
    rewrite E in E'. injection E' as <-. exact L.
  - unfold enum_post. rewrite (sign_recover_correct 32 v) by lia.
    split; [reflexivity|]. apply try_value_number.
Qed.

(* whatever varint arrives, the decoded number is an int32 (as in the reference implementations),
   and it depends only on the low 32 bits *)
Theorem decoded_number_is_int32 body raw :
  int32 (snd (enum_post (class_of body) raw)).
Proof. unfold enum_post. rewrite (proj1 (try_value_number body _)). apply sign_recover_32_range. Qed.

(* the pinned decoder is right on non-negative numbers only *)
Theorem scalar_roundtrip_pinned_partial body v :
  0 <= v < 2 ^ 31 -> enum_post_pinned (class_of body) (v mod 2 ^ 64) = try_value (class_of body) v.
Proof. intros Hv. unfold enum_post_pinned. rewrite Z.mod_small by lia. reflexivity. Qed.

Theorem scalar_roundtrip_pinned_refuted :
  exists body v, int32 v /\
    enum_post_pinned (class_of body) (v mod 2 ^ 64) <> try_value (class_of body) v /\
    snd (enum_post_pinned (class_of body) (v mod 2 ^ 64)) = 2 ^ 64 - 1.
Proof.
  exists [([x4e; x45; x47], -1)], (-1). split; [unfold int32; lia|].
  split; [vm_compute; discriminate|vm_compute; reflexivity].
Qed.

(* ---- packed repeated field: the list level ---- *)
Lemma Zlength_app {A} (a b : list A) : Zlength (a ++ b) = Zlength a + Zlength b.
Proof. unfold Zlength. rewrite app_length. lia. Qed.

Lemma unpack_go_roundtrip (post : Z -> member) (g : Z -> member) :
  (forall v, int32 v -> post (v mod 2 ^ 64) = g v) ->
  forall vs buf pre fuel,
    Forall int32 vs -> enum_pack vs = Ok buf -> (length buf <= fuel)%nat ->
    enum_unpack_go post fuel (pre ++ buf) (Zlength pre) = Ok (map g vs).
Proof.
  intros Hpost. induction vs as [|v vs IH]; intros buf pre fuel Hall Hp Hf.
  - cbn [enum_pack] in Hp. injection Hp as <-. rewrite app_nil_r.
    destruct fuel; cbn [enum_unpack_go]; rewrite Z.ltb_irrefl; reflexivity.
  - cbn [enum_pack] in Hp. inversion Hall as [|? ? Hv Hall']; subst.
    assert (Hr : - 2 ^ 63 <= v < 2 ^ 64) by (unfold int32 in Hv; lia).
    destruct (encode_varint v) as [a|] eqn:Ea; cbn [bind] in Hp; [|discriminate].
    destruct (enum_pack vs) as [b|] eqn:Eb; cbn [bind] in Hp; [|discriminate].
    injection Hp as <-.
    pose proof (encode_length_pos v a Hr Ea) as Hla.
    rewrite app_length in Hf.
    destruct fuel as [|f]; [lia|]. cbn [enum_unpack_go].
    replace (Zlength pre <? Zlength (pre ++ a ++ b)) with true
      by (rewrite !Zlength_app; unfold Zlength; lia).
    destruct (encode_decode_inverse v pre b Hr) as (a' & Ea' & Hd).
    rewrite Ea in Ea'. injection Ea' as <-. rewrite Hd. cbn [bind].
    replace (pre ++ a ++ b) with ((pre ++ a) ++ b) by (rewrite app_assoc; reflexivity).
    rewrite <- Zlength_app. rewrite (IH b (pre ++ a) f Hall' eq_refl) by lia.
    cbn [bind map]. unfold wrap64. rewrite (Hpost v Hv). reflexivity.
Qed.

Theorem packed_roundtrip body vs :
  Forall int32 vs ->
  exists buf, enum_pack vs = Ok buf /\
              enum_unpack (class_of body) buf = Ok (map (try_value (class_of body)) vs).
Proof.
  intros Hall.
  assert (Hex : exists buf, enum_pack vs = Ok buf).
  { induction Hall as [|v vs Hv _ (b & Eb)]; [exists []; reflexivity|].
    destruct (encode_in_range v) as (a & Ea & _); [unfold int32 in Hv; lia|].
    exists (a ++ b). cbn [enum_pack]. rewrite Ea, Eb. reflexivity. }
  destruct Hex as (buf & Eb). exists buf. split; [exact Eb|].
  unfold enum_unpack.
  apply (unpack_go_roundtrip (enum_post (class_of body)) (try_value (class_of body))) with (pre := []);
    [|exact Hall|exact Eb|lia].
  intros v Hv. destruct (scalar_roundtrip body v Hv) as (_ & _ & _ & _ & H & _). exact H.
Qed.

Theorem packed_roundtrip_pinned_refuted :
  exists body vs buf, Forall int32 vs /\ enum_pack vs = Ok buf /\
    enum_unpack_pinned (class_of body) buf <> Ok (map (try_value (class_of body)) vs).
Proof.
  exists [([x4e; x45; x47], -1)], [0; -1].
  eexists. split; [repeat constructor; unfold int32; lia|].
  split; [vm_compute; reflexivity|vm_compute; discriminate].
Qed.

(* ---- dict / JSON codec, element level ---- *)
Theorem json_roundtrip body v :
  let c := class_of body in
  from_json_el c (to_json_el c v) = Ok (try_value c v) /\
  (In v (map snd (members_of body)) ->
     exists n0, to_json_el c v = JName n0 /\ first_name (members_of body) v = Some n0) /\
  (~ In v (map snd (members_of body)) -> to_json_el c v = JNum v).
Proof.
  intros c. subst c. unfold class_of. set (ms := members_of body).
  unfold to_json_el. rewrite try_value_canon. unfold canon. cbn [fst].
  destruct (first_name ms v) as [n0|] eqn:Ef.
  - split; [|split].
    + cbn [from_json_el]. unfold from_string. rewrite mmap_closed by apply members_of_nodup.
      rewrite (nget_map_in (fun nv => canon ms (snd nv)) ms n0 v (members_of_nodup body) (first_name_in ms v n0 Ef)).
      cbn [snd]. unfold canon. rewrite Ef. reflexivity.
    + intros _. exists n0. split; reflexivity.
    + intros Hn. apply first_name_None in Hn. congruence.
  - split; [|split].
    + cbn [from_json_el]. rewrite try_value_canon. unfold canon. rewrite Ef. reflexivity.
    + intros Hin. apply first_name_None in Ef. contradiction.
    + intros _. reflexivity.
Qed.

Theorem json_list_roundtrip body vs :
  from_json_list (class_of body) (to_json_list (class_of body) vs) = Ok (map (try_value (class_of body)) vs).
Proof.
  induction vs as [|v vs IH]; [reflexivity|].
  unfold to_json_list in *. cbn [map from_json_list].
  rewrite (proj1 (json_roundtrip body v)). cbn [bind]. rewrite IH. reflexivity.
Qed.

(* a name in JSON is accepted for every declared name (aliases too) and gives the canonical member *)
Theorem json_accepts_alias body n v :
  In (n, v) (members_of body) ->
  from_json_el (class_of body) (JName n) = Ok (try_value (class_of body) v).
Proof.
  intros Hin. cbn [from_json_el]. destruct (by_name body n v Hin) as (_ & -> & _ & Hc & _).
  rewrite Hc. unfold class_of. rewrite try_value_canon. reflexivity.
Qed.

(* the pinned to_dict agrees on defined numbers and raises on every other one *)
Theorem json_pinned_partial body v :
  In v (map snd (members_of body)) ->
  to_json_el_pinned (class_of body) v = Ok (to_json_el (class_of body) v).
Proof.
  intros Hin. unfold to_json_el_pinned, to_json_el, class_of.
  rewrite call_canon, try_value_canon. unfold canon. cbn [fst].
  destruct (first_name (members_of body) v) as [n0|] eqn:Ef; [reflexivity|].
  apply first_name_None in Ef. contradiction.
Qed.

Theorem json_pinned_refuted :
  exists body v, int32 v /\ to_json_el_pinned (class_of body) v = Err EValue.
Proof.
  exists [([x5a], 0); ([x52], 1)], 5. split; [unfold int32; lia|vm_compute; reflexivity].
Qed.

Theorem json_pinned_rejects_every_open_value body v :
  ~ In v (map snd (members_of body)) -> to_json_el_pinned (class_of body) v = Err EValue.
Proof.
  intros Hn. unfold to_json_el_pinned, class_of. rewrite call_canon.
  apply first_name_None in Hn. rewrite Hn. reflexivity.
Qed.

(* ---- interoperability at the scalar level ---- *)
(* the decoder looks at the low 32 bits only *)
Lemma sign_recover_32_congr raw v :
  int32 v -> raw mod 2 ^ 32 = v mod 2 ^ 32 -> sign_recover 32 raw = v.
Proof.
  unfold int32. intros Hv Hm. unfold sign_recover. rewrite !Z.shiftl_1_l.
  replace (2 ^ 32 - 1) with (Z.ones 32) by reflexivity.
  rewrite Z.land_ones by lia. rewrite Hm.
  assert (H : 0 <= v mod 2 ^ 32 < 2 ^ 32) by (apply Z.mod_pos_bound; lia).
  change (32 - 1) with 31.
  rewrite (lxor_signbit (v mod 2 ^ 32) 31) by (change (31 + 1) with 32; lia).
  destruct (Z.ltb_spec v 0) as [Hneg|Hpos].
  - assert (E : v mod 2 ^ 32 = v + 2 ^ 32) by (symmetry; apply Z.mod_unique with (-1); lia).
    rewrite E. destruct (Z.ltb_spec (v + 2 ^ 32) (2 ^ 31)); lia.
  - rewrite Z.mod_small by lia. destruct (Z.ltb_spec v (2 ^ 31)); lia.
Qed.

(* every legal encoding of a number congruent to v modulo 2^32 — minimal or padded, the ten-byte
   sign-extended form, or the five-byte form some encoders write for negative enum numbers — is read as v *)
Theorem any_encoding_decodes body v raw bs rest :
  int32 v -> raw mod 2 ^ 32 = v mod 2 ^ 32 -> VarintRep raw bs ->
  load_varint (bs ++ rest) = Ok (raw, bs, rest) /\
  enum_post (class_of body) raw = try_value (class_of body) v.
Proof.
  intros Hv Hm Hr. split; [apply load_varint_rep; exact Hr|].
  unfold enum_post. rewrite (sign_recover_32_congr raw v Hv Hm). reflexivity.
Qed.

Theorem decode_defined_is_canonical body n v :
  In (n, v) (members_of body) -> int32 v ->
  in_table (class_of body) (enum_post (class_of body) (v mod 2 ^ 64)) = true /\
  call (class_of body) v = Ok (enum_post (class_of body) (v mod 2 ^ 64)).
Proof.
  intros Hin Hv. destruct (scalar_roundtrip body v Hv) as (_ & _ & _ & _ & -> & _).
  destruct (by_number body n v Hin) as (n0 & _ & _ & _ & _ & Hc & -> & Ht). split; [exact Ht|exact Hc].
Qed.
