(* C04 (include_default_values generic, wfx schemas), object level (B), part 2: replacing a value by its normal form
   gnorm_pv changes neither what the encoder emits for it nor how == compares it (given the same for the nested
   messages).  Mirrors C04EncP. *)
From BP Require Import Base.Prelude Model.Types Model.Varint Model.Scalar Model.Float Model.Utf8 Model.Object Model.Eq Model.TimeCore.
From BP Require Import Model.Encode Model.WellFormed Model.Json Model.C04RepWrap.
From BP Require Import gen.Tables Proofs.BytesP Proofs.C04Def Proofs.C04ScalarP Proofs.C04ElemP Proofs.C04FieldP Proofs.C04ObjP Proofs.C04CurP
  Proofs.C04EncP Proofs.C04InclDef Proofs.C04InclBaseP Proofs.C04InclFieldP Proofs.C04InclObjP.
From Coq Require Import Lia ZifyBool.

(* the two halves of the property for one object: == always, the bytes when every plain sub-message below it is present *)
Definition rt_okG (incl : bool) (sc : schema) (o : obj) : Prop :=
  obj_eq sc (gnorm_obj incl sc o) o = true /\
  (pv_presG incl sc (PMsg o) = true -> enc_obj sc (gnorm_obj incl sc o) = enc_obj sc o).

Section Elem.
  Variable sc : schema.
  Variable incl : bool.
  Variable n : nat.
  Hypothesis IHo : forall o', (pv_size (PMsg o') < n)%nat -> in_rangex sc o' = true -> pv_goodG incl sc (PMsg o') = true -> rt_okG incl sc o'.

  Let nc := length (classes sc).
  Let ne := length (enums sc).
  Let msgf := msg_bytes (enc_obj sc).

  Lemma gnorm_elem_id t p y : (scalar_py p = true \/ p = PyDatetime \/ p = PyTimedelta) ->
    elem_in_rangex sc t p y = true -> gnorm_pv incl sc y = y.
  Proof.
    intros [Sp|[->| ->]] Hr.
    - rewrite (elem_scalarx _ _ _ _ Sp) in Hr. exact (gnorm_scalar incl sc t y Hr).
    - destruct y; try discriminate Hr; reflexivity.
    - destruct y; try discriminate Hr; reflexivity.
  Qed.

  (* the encoder *)
  Lemma elem_gnorm_enc t p y :
    (pv_size y < n)%nat -> pyty_fits nc ne t p = true ->
    elem_in_rangex sc t p y = true -> pv_goodG incl sc y = true -> pv_presG incl sc y = true ->
    preprocess_with msgf t None (gnorm_pv incl sc y) = preprocess_with msgf t None y.
  Proof.
    intros Hs Hp Hr Hg Hpr. destruct (py_cases p) as [K|[c ->]].
    - rewrite (gnorm_elem_id t p y K Hr). reflexivity.
    - assert (t = TMessage) as -> by (destruct t; try discriminate Hp; reflexivity).
      destruct y as [| | | | | | | | | | |o]; try discriminate Hr.
      destruct (in_range_objx sc c o Hr) as [_ Ho]. destruct (IHo o Hs Ho Hg) as [_ E].
      rewrite gnorm_pv_msg. unfold preprocess_with. eval_tables. unfold msgf, msg_bytes. exact (E Hpr).
  Qed.

  (* == *)
  Lemma elem_gnorm_eq t p y :
    (pv_size y < n)%nat -> pyty_fits nc ne t p = true ->
    elem_in_rangex sc t p y = true -> pv_goodG incl sc y = true -> not_nan y = true ->
    pv_eq sc (gnorm_pv incl sc y) y = true.
  Proof.
    intros Hs Hp Hr Hg Hn. destruct (py_cases p) as [K|[c ->]].
    - rewrite (gnorm_elem_id t p y K Hr). destruct K as [Sp|[->| ->]].
      + rewrite (elem_scalarx _ _ _ _ Sp) in Hr. exact (pv_eq_refl_scalar sc t y Hr Hn).
      + destruct y; try discriminate Hr. cbn [pv_eq]. apply Z.eqb_refl.
      + destruct y; try discriminate Hr. cbn [pv_eq]. apply Z.eqb_refl.
    - assert (t = TMessage) as -> by (destruct t; try discriminate Hp; reflexivity).
      destruct y as [| | | | | | | | | | |o]; try discriminate Hr.
      destruct (in_range_objx sc c o Hr) as [_ Ho]. destruct (IHo o Hs Ho Hg) as [E _].
      rewrite gnorm_pv_msg. exact E.
  Qed.

  Lemma list_gnorm_eq t p l :
    (forall y, In y l -> (pv_size y < n)%nat) -> pyty_fits nc ne t p = true ->
    (forall y, In y l -> elem_in_rangex sc t p y = true) -> (forall y, In y l -> pv_goodG incl sc y = true) ->
    (forall y, In y l -> not_nan y = true) ->
    pv_eq sc (PList (map (gnorm_pv incl sc) l)) (PList l) = true.
  Proof.
    intros Hs Hp Hr Hg Hn. induction l as [|y l IH]; [reflexivity|].
    cbn [map pv_eq].
    rewrite (elem_gnorm_eq t p y (Hs y (or_introl eq_refl)) Hp (Hr y (or_introl eq_refl)) (Hg y (or_introl eq_refl)) (Hn y (or_introl eq_refl))).
    cbn [andb]. apply IH; intros z Hz; [apply Hs|apply Hr|apply Hg|apply Hn]; right; exact Hz.
  Qed.

  Lemma dict_gnorm_eq kt vt p d :
    map_key_ok kt = true -> pyty_fits nc ne vt p = true ->
    keys_distinct sc (map fst d) = true ->
    (forall k y, In (k, y) d -> (pv_size y < n)%nat /\ scalar_in_range kt k = true /\ elem_in_rangex sc vt p y = true
                                /\ pv_goodG incl sc y = true /\ not_nan y = true) ->
    pv_eq sc (PDict (map (fun kx => (fst kx, gnorm_pv incl sc (snd kx))) d)) (PDict d) = true.
  Proof.
    intros Hkt Hp Hd H. cbn [pv_eq]. rewrite map_length, Nat.eqb_refl. cbn [andb].
    assert (G : forall sub, (forall k y, In (k, y) sub -> In (k, y) d) ->
      (fix go (x : list (pv * pv)) : bool :=
         match x with
         | [] => true
         | (k, u) :: x' =>
             (fix find (y : list (pv * pv)) : bool :=
                match y with
                | [] => false
                | (k', v) :: y' => if pv_eq sc k k' then pv_eq sc u v else find y'
                end) d && go x'
         end) (map (fun kx => (fst kx, gnorm_pv incl sc (snd kx))) sub) = true).
    { induction sub as [|[k y] sub IH]; intros Hsub; [reflexivity|]. cbn [map fst snd].
      rewrite IH by (intros k' y' I; apply Hsub; right; exact I). rewrite andb_true_r.
      pose proof (Hsub k y (or_introl eq_refl)) as I. destruct (H k y I) as [Hs [Hk [Hr [Hg Hn]]]].
      destruct (in_split _ _ I) as [pre [post E]].
      change ((fix find (y0 : list (pv * pv)) : bool :=
                 match y0 with
                 | [] => false
                 | (k', v) :: y' => if pv_eq sc k k' then pv_eq sc (gnorm_pv incl sc y) v else find y'
                 end) d) with (dfind sc k (gnorm_pv incl sc y) d).
      rewrite E. rewrite (dfind_at sc kt k (gnorm_pv incl sc y) y pre post Hk Hkt (keys_distinct_split sc d pre k y post Hd E)).
      exact (elem_gnorm_eq vt p y Hs Hp Hr Hg Hn). }
    apply G. auto.
  Qed.
End Elem.
