(* C06, from_dict, part 2: from the state of an object (raw attribute of a field, _group_current) to what the
   property observes (bytes(m), Message.is_set, `m.f is not None`, which_one_of, serialized_on_wire(m.f)),
   independent of how the state was reached; and the state the constructor builds from keyword arguments. *)
From BP Require Import Base.Prelude Model.Types Model.Varint Model.Object Model.Eq Model.Encode Model.Decode.
From BP Require Import Model.WellFormed Model.Json Model.C06Obs Model.C06Dict.
From BP Require Import gen.Tables Spec.Varint Spec.C06Wire.
From BP Require Import Proofs.C04ObjP.
From BP Require Import Proofs.C06SpecP Proofs.C06LoopP Proofs.C06EncP Proofs.C06StoreP Proofs.C06DecP Proofs.C06PresP Proofs.C06WaysP Proofs.C06FinalP.
From BP Require Import Proofs.C06DictKwP.
From Coq Require Import Lia.

(* ---- self._serialized_on_wire = True changes nothing else ---- *)
Lemma set_sow_fields o : ocls (set_sow o) = ocls o /\ oraw (set_sow o) = oraw o /\ ocur (set_sow o) = ocur o /\
                         ounk (set_sow o) = ounk o /\ osow (set_sow o) = true.
Proof. destruct o. repeat split. Qed.

Lemma set_sow_raw_at o i : raw_at (set_sow o) i = raw_at o i.
Proof. destruct o. reflexivity. Qed.

Lemma set_sow_enc sc o : enc_obj sc (set_sow o) = enc_obj sc o.
Proof. destruct o. reflexivity. Qed.

Lemma shape_ok_spec sc o :
  shape_ok sc o = true <->
  length (oraw o) = length (fields_of sc o) /\ length (ocur o) = cngroups (get_class sc (ocls o)).
Proof.
  unfold shape_ok, fields_of. rewrite andb_true_iff, !Nat.eqb_eq. tauto.
Qed.

(* ---- a field that holds a value ---- *)
Lemma state_emitted sc o i f :
  wf_schema sc = true ->
  nth_error (fields_of sc o) i = Some f -> length (oraw o) = length (fields_of sc o) ->
  explicit_field f -> is_value (raw_at o i) -> singular_value (raw_at o i) ->
  (forall g, fgroup f = Some g -> nth g (ocur o) None = Some i) ->
  emitted_in sc o i f /\ is_set sc o i = true /\ value_not_none sc o i = true.
Proof.
  intros W Hf Hl He Hv Hs Hsel.
  pose proof (wf_field_of sc (ocls o) f W (nth_error_In _ _ Hf)) as Wf.
  split; [|split].
  - eapply emit_explicit_state; try eassumption.
    + eapply explicit_field_singular; eassumption.
    + destruct He as [Ho|(g & G)]; [left; exact Ho|right].
      unfold group_selects. rewrite G, (Hsel g G). cbn. rewrite Nat.eqb_refl. reflexivity.
  - unfold is_set, field_at. unfold fields_of in Hf. rewrite Hf. destruct Hv as [A B].
    destruct (raw_at o i); try reflexivity; congruence.
  - destruct Hv as [A B]. unfold value_not_none, read. destruct o as [c raw sow unk cur].
    unfold fields_of, raw_at in *. cbn [ocls oraw ocur] in *. unfold getattr. rewrite Hf.
    assert (G : group_selects cur f i <> Some false).
    { unfold group_selects. destruct (fgroup f) as [g|] eqn:G; [|discriminate].
      rewrite (Hsel g eq_refl). cbn. rewrite Nat.eqb_refl. discriminate. }
    destruct (group_selects cur f i) as [[|]|]; try congruence;
      destruct (nth i raw PPlaceholder); cbn [snd]; try reflexivity; congruence.
Qed.

(* ---- a field that was left alone: the dataclass default, not selected ---- *)
Lemma state_unset sc o i f :
  wf_schema sc = true ->
  nth_error (fields_of sc o) i = Some f -> explicit_field f ->
  raw_at o i = sentinel_of f ->
  (forall g, fgroup f = Some g -> nth g (ocur o) None <> Some i) ->
  here sc (ocur o) i (raw_at o i) f = Ok [] /\ is_set sc o i = false /\
  (optional_like f -> value_not_none sc o i = false).
Proof.
  intros W Hf He Hr Hsel.
  pose proof (wf_field_of sc (ocls o) f W (nth_error_In _ _ Hf)) as Wf.
  split; [|split].
  - rewrite Hr. unfold here, group_selects, sentinel_of.
    destruct (fgroup f) as [g|] eqn:G.
    + specialize (Hsel g eq_refl).
      destruct (opt_nat_eqb (nth g (ocur o) None) (Some i)) eqn:E; [|reflexivity].
      apply opt_nat_eqb_eq in E. contradiction.
    + destruct He as [Ho|(g & G')]; [|congruence].
      destruct (optional_like_hint _ _ _ Wf Ho) as (t & Ht).
      destruct (fopt f); [reflexivity|]. unfold default_of. rewrite Ht. reflexivity.
  - unfold is_set, field_at. unfold fields_of in Hf. rewrite Hf, Hr. unfold sentinel_of.
    destruct (fopt f); reflexivity.
  - intros Ho. pose proof Ho as (G & _). destruct (optional_like_hint _ _ _ Wf Ho) as (t & Ht).
    unfold value_not_none. unfold sentinel_of in Hr. destruct (fopt f).
    + rewrite (value_read sc o i f PNone Hf G Hr) by discriminate. reflexivity.
    + rewrite (placeholder_read sc o i f Hf G Hr). unfold default_of. rewrite Ht. reflexivity.
Qed.

(* an unselected oneof member contributes nothing, whatever its raw attribute *)
Lemma state_unselected sc o i f g :
  fgroup f = Some g -> nth g (ocur o) None <> Some i ->
  here sc (ocur o) i (raw_at o i) f = Ok [].
Proof.
  intros G Hsel. unfold here, group_selects. rewrite G.
  destruct (opt_nat_eqb (nth g (ocur o) None) (Some i)) eqn:E; [|reflexivity].
  apply opt_nat_eqb_eq in E. contradiction.
Qed.

(* ---- a plain sub-message field ---- *)
Lemma here_placeholder_plain sc cur i f :
  wf_schema sc = true -> fgroup f = None -> fopt f = false -> here sc cur i PPlaceholder f = Ok [].
Proof.
  intros W G Ho. pose proof (here_fresh sc O i f (wf_opt_hinted sc W)) as H.
  unfold sentinel_of in H. rewrite Ho in H. unfold here, group_selects in *. rewrite G in *. exact H.
Qed.

Lemma state_child_given sc o i f ch :
  wf_schema sc = true ->
  nth_error (fields_of sc o) i = Some f -> length (oraw o) = length (fields_of sc o) ->
  plain_msg_field f -> raw_at o i = PMsg ch -> osow ch = true ->
  child_on_wire o i = true /\
  forall all, enc_obj sc o = Ok all ->
    exists pre h post, all = pre ++ h ++ post /\ here sc (ocur o) i (raw_at o i) f = Ok h /\
                       starts_with_tag (fnum f) 2 h.
Proof.
  intros W Hf Hl Hp Hr Hs. split; [unfold child_on_wire; rewrite Hr; exact Hs|].
  intros all Hall. destruct o as [c raw sow unk cur]. unfold fields_of, raw_at in *. cbn [ocls oraw ocur] in *.
  assert (Hx : nth_error raw i = Some (PMsg ch)).
  { rewrite <- Hr. apply nth_error_of_nth. rewrite Hl. eapply nth_error_lt. exact Hf. }
  destruct (submessage sc c raw sow unk cur i f ch all W Hf Hx Hp Hall) as (pre & h & post & E & Hh & A & _).
  exists pre, h, post. rewrite Hr. auto.
Qed.

Lemma state_child_absent sc o i f :
  wf_schema sc = true -> plain_msg_field f -> raw_at o i = PPlaceholder ->
  child_on_wire o i = false /\ here sc (ocur o) i (raw_at o i) f = Ok [].
Proof.
  intros W (G & Ho & _ & _) Hr. split; [unfold child_on_wire; rewrite Hr; reflexivity|].
  rewrite Hr. apply here_placeholder_plain; assumption.
Qed.

(* ---- marked (the flag of a field-less message value is raised on assignment) keeps what matters ---- *)
Lemma marked_msg_flag sc ch : exists ch', marked sc (PMsg ch) = PMsg ch' /\ (osow ch = true -> osow ch' = true).
Proof.
  unfold marked. destruct (fieldless sc (PMsg ch)).
  - destruct ch as [c r s u g]. cbn [mark_sow]. eexists. split; [reflexivity|]. reflexivity.
  - eexists. split; [reflexivity|]. exact (fun H => H).
Qed.

Lemma marked_scalar sc x : (forall o, x <> PMsg o) -> marked sc x = x.
Proof. intros H. unfold marked. destruct x; try reflexivity. exfalso. eapply H. reflexivity. Qed.

(* ---- Cls(kwargs): the raw attributes ---- *)
Lemma fold_kw_nth sc : forall kw r i, (i < length r)%nat ->
  nth i (fold_left (kw_step sc) kw r) PPlaceholder =
  match kw_get i kw with Some x => marked sc x | None => nth i r PPlaceholder end.
Proof.
  induction kw as [|[k x] kw IH]; intros r i Hi; [reflexivity|].
  cbn [fold_left kw_step kw_get]. fold (marked sc x).
  rewrite IH by (rewrite set_nth_length; exact Hi).
  destruct (kw_get i kw); [reflexivity|].
  destruct (Nat.eqb_spec k i) as [->|Ne].
  - apply nth_set_nth_eq. exact Hi.
  - apply nth_set_nth_neq. exact Ne.
Qed.

Lemma construct_raw_at sc c kw i f :
  nth_error (cfields (get_class sc c)) i = Some f ->
  raw_at (construct sc c kw) i = match kw_get i kw with Some x => marked sc x | None => sentinel_of f end.
Proof.
  intros Hf. unfold construct, post_init, raw_at. cbn [oraw].
  change (fun (r : list pv) '(i, v) => set_nth i (if fieldless sc v then mark_sow v else v) r) with (kw_step sc).
  rewrite fold_kw_nth.
  - destruct (kw_get i kw); [reflexivity|]. unfold new. cbn [oraw].
    apply nth_error_nth. rewrite nth_error_map, Hf. reflexivity.
  - unfold new. cbn [oraw]. rewrite map_length. eapply nth_error_lt. exact Hf.
Qed.

(* ---- Cls(kwargs): _group_current ---- *)
Lemma cur_loop_length : forall fs raw j cur, length (cur_loop j fs raw cur) = length cur.
Proof.
  induction fs as [|f fs IH]; intros raw j cur; [reflexivity|]. destruct raw as [|v raw]; [reflexivity|].
  rewrite cur_loop_cons, IH. destruct (fgroup f); [|reflexivity]. destruct (is_sentinel f v); [reflexivity|].
  apply set_nth_length.
Qed.

(* the member a group ends up selecting holds a non-sentinel *)
Lemma cur_loop_sel g : forall fs raw j cur k,
  nth g (cur_loop j fs raw cur) None = Some k ->
  nth g cur None = Some k \/
  exists f x, (j <= k)%nat /\ nth_error fs (k - j) = Some f /\ nth_error raw (k - j) = Some x /\
              fgroup f = Some g /\ is_sentinel f x = false.
Proof.
  induction fs as [|f fs IH]; intros raw j cur k H; [left; exact H|].
  destruct raw as [|v raw]; [left; exact H|]. rewrite cur_loop_cons in H.
  destruct (IH _ _ _ _ H) as [H0|(f' & x & Le & Hf & Hx & G & Sx)].
  - destruct (fgroup f) as [g'|] eqn:G; [|left; exact H0].
    destruct (is_sentinel f v) eqn:Sv; [left; exact H0|].
    destruct (Nat.eq_dec g' g) as [->|Ne].
    + destruct (lt_dec g (length cur)) as [Lt|Ge].
      * rewrite nth_set_nth_eq in H0 by exact Lt. injection H0 as <-.
        right. exists f, v. rewrite Nat.sub_diag. repeat split; auto.
      * left. rewrite <- H0. symmetry.
        clear - Ge. revert g Ge. induction cur as [|a cur IHc]; intros g Ge; [destruct g; reflexivity|].
        destruct g; [cbn in Ge; lia|]. cbn [set_nth nth]. apply IHc. cbn in Ge. lia.
    + left. rewrite nth_set_nth_neq in H0 by exact Ne. exact H0.
  - right. exists f', x. replace (k - j)%nat with (Datatypes.S (k - Datatypes.S j)) by lia. cbn [nth_error]. repeat split; auto. lia.
Qed.

Lemma construct_shape sc c kw :
  ocls (construct sc c kw) = c /\
  length (oraw (construct sc c kw)) = length (cfields (get_class sc c)) /\
  length (ocur (construct sc c kw)) = cngroups (get_class sc c) /\
  ounk (construct sc c kw) = [].
Proof.
  split; [reflexivity|]. split; [apply construct_raw_length|]. split; [|reflexivity].
  destruct (construct_facts sc c kw) as [_ E]. rewrite E, cur_loop_length. apply repeat_length.
Qed.

(* which_one_of after the constructor: the selected member holds a non-sentinel; a member holding a non-sentinel
   after which every member of its group holds a sentinel is the selected one; none if all hold sentinels *)
Lemma construct_selected sc c kw g k :
  which_one_of (construct sc c kw) g = Some k ->
  exists f, nth_error (cfields (get_class sc c)) k = Some f /\ fgroup f = Some g /\
            is_sentinel f (raw_at (construct sc c kw) k) = false.
Proof.
  unfold which_one_of. destruct (construct_facts sc c kw) as [_ E]. rewrite E. intros H.
  destruct (cur_loop_sel g _ _ _ _ _ H) as [H0|(f & x & _ & Hf & Hx & G & S)].
  - rewrite nth_repeat_none in H0. discriminate.
  - rewrite Nat.sub_0_r in Hf, Hx. exists f. split; [exact Hf|]. split; [exact G|].
    unfold raw_at. rewrite (nth_error_nth _ _ _ Hx). exact S.
Qed.

Lemma construct_none_selected sc c kw g :
  (forall k f, nth_error (cfields (get_class sc c)) k = Some f -> fgroup f = Some g ->
               is_sentinel f (raw_at (construct sc c kw) k) = true) ->
  which_one_of (construct sc c kw) g = None.
Proof.
  intros H. unfold which_one_of. destruct (construct_facts sc c kw) as [_ E]. rewrite E.
  rewrite cur_loop_keep; [apply nth_repeat_none|].
  intros k f x Hk Hx G. specialize (H k f Hk G). unfold raw_at in H. rewrite (nth_error_nth _ _ _ Hx) in H. exact H.
Qed.
