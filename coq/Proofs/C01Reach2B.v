(* C01 over reachable objects, part 8: one clean record, the loop of Message.load, m.parse(bytes) keep [VGood] and
   [SGood]; the histories with OParse discharged. *)
From Coq Require Import ZArith List Bool Lia Arith.
From BP Require Import Base.Prelude Model.Types Model.Varint Model.Object Model.Eq Model.Encode Model.Decode Model.WellFormed.
From BP Require Import Model.History Model.C07Ops Model.C01Def Model.C01Reach Model.C01Parse.
From BP Require Import Proofs.C01Unfold Proofs.C01Msg Proofs.C01Main Proofs.C01Final Proofs.C07InvP Proofs.C07ObsP Proofs.C07HistP Proofs.C07ValP Proofs.C07LoadP.
From BP Require Import Proofs.C01ReachBase Proofs.C01ReachNew Proofs.C01ReachOps Proofs.C01ReachObs Proofs.C01ReachSow
     Proofs.C01ReachSow2 Proofs.C01ReachFinal Proofs.C01Reach2A.
From BP Require Proofs.C01Step.
Import ListNotations.

Lemma slot_ok_hlist_inv sc f p x :
  fhint f = HList p -> slot_ok sc f x = true -> x = PPlaceholder \/ exists l, x = PList l.
Proof.
  intros Hh. unfold slot_ok, field_in_range. rewrite Hh.
  destruct x; intros H; try (right; eauto; fail); try (left; reflexivity);
    apply andb_true_iff in H as [H _]; apply andb_true_iff in H as [H _]; discriminate H.
Qed.

Lemma slot_ok_hdict_inv sc f pk p x :
  fhint f = HDict pk p -> slot_ok sc f x = true -> x = PPlaceholder \/ exists d, x = PDict d.
Proof.
  intros Hh. unfold slot_ok, field_in_range. rewrite Hh.
  destruct x; intros H; try (right; eauto; fail); try (left; reflexivity);
    apply andb_true_iff in H as [H _]; apply andb_true_iff in H as [H _]; discriminate H.
Qed.

Lemma sow_slot_list sc cur i f l : sow_slot sc cur i f (PList l) = true.
Proof. reflexivity. Qed.
Lemma sow_slot_dict sc cur i f d : sow_slot sc cur i f (PDict d) = true.
Proof. reflexivity. Qed.

Lemma finish_setattr sc o i f value :
  wf_schema sc = true -> VGood sc o -> nth_error (cfs sc o) i = Some f ->
  val_ok sc f value = true -> flagged value = true ->
  VGood sc (setattr sc o i value) /\ (SGoodX sc i o -> SGood sc (setattr sc o i value)) /\
  ocls (setattr sc o i value) = ocls o.
Proof.
  intros Hwf HV Hf Hv Hfl. split; [|split; [|apply setattr_cls]].
  - apply vgood_setattr; auto. intros f0 Hf0. assert (f0 = f) by congruence. subst f0.
    unfold val_ok in Hv. apply andb_true_iff in Hv as [_ Hv]. exact Hv.
  - intros HX. eapply sgood_setattr_x; eauto.
Qed.

(* ---------- one record ---------- *)
Lemma step_good fuel' sc c raw sow unk cur p o1 :
  wf_schema sc = true -> VGood sc (Obj c raw sow unk cur) ->
  rec_ok fuel' sc (get_class sc c) p = true ->
  step fuel' sc (get_class sc c) (Obj c raw sow unk cur) p = Ok o1 ->
  VGood sc o1 /\ (SGood sc (Obj c raw sow unk cur) -> SGood sc o1) /\ ocls o1 = c.
Proof.
  intros Hwf HV Hrec E. unfold step, step_k in E. unfold rec_ok in Hrec.
  destruct (field_by_number (get_class sc c) (pnum p)) as [[i f]|] eqn:Hfb; [|discriminate].
  apply andb_true_iff in Hrec as [Hfit Hdec]. rewrite Hfit in E. cbn [negb] in E.
  destruct (field_by_number_some _ _ _ _ Hfb) as (Hf & _).
  destruct (decode_value fuel' sc f p) as [value|] eqn:Ev; cbn [bind] in E; [|discriminate].
  pose proof (wf_field_of sc c i f Hwf Hf) as Hwff.
  destruct (mid_state sc c raw sow unk cur i f Hwf HV Hf) as (o1' & current & Hm & HV1 & Hc1 & Hcur & Hnp & Hsel & HX).
  rewrite Hm in E. clear Hm. destruct o1' as [c1 raw1 sow1 unk1 cur1]. cbn [ocls] in Hc1. subst c1. cbn [ocur] in Hsel.
  unfold dec_ok in Hdec.
  destruct (fhint f) as [t|t|t|pk t] eqn:Hh.
  - (* plain *)
    destruct (wf_plain _ _ _ _ Hwff Hh) as (_ & _ & _ & Hnm & _). rewrite Hnm in E.
    apply andb_true_iff in Hdec as [Hv Hfl].
    destruct (finish_setattr sc (Obj c raw1 sow1 unk1 cur1) i f value Hwf HV1 Hf Hv Hfl) as (F1 & F2 & F3).
    assert (Hfin : Ok (setattr sc (Obj c raw1 sow1 unk1 cur1) i value) = Ok o1 ->
                   VGood sc o1 /\ (SGood sc (Obj c raw sow unk cur) -> SGood sc o1) /\ ocls o1 = c).
    { intros E'. injection E' as <-. split; [exact F1|]. split; [intros HS; apply F2, HX, HS | exact F3]. }
    destruct current; try (apply Hfin; exact E).
    exfalso. destruct (slot_ok_list_inv sc f l Hcur) as (p0 & Hh0 & _). congruence.
  - (* optional / wrapper *)
    assert (Hnm : ptype_eqb (fty f) TMap = false).
    { destruct (wf_optional _ _ _ _ Hwff Hh) as (_ & _ & [(w & vt & _ & _ & Ht & _) | (_ & _ & Ht & _)]);
        [rewrite Ht; reflexivity | exact Ht]. }
    rewrite Hnm in E.
    apply andb_true_iff in Hdec as [Hv Hfl].
    destruct (finish_setattr sc (Obj c raw1 sow1 unk1 cur1) i f value Hwf HV1 Hf Hv Hfl) as (F1 & F2 & F3).
    assert (Hfin : Ok (setattr sc (Obj c raw1 sow1 unk1 cur1) i value) = Ok o1 ->
                   VGood sc o1 /\ (SGood sc (Obj c raw sow unk cur) -> SGood sc o1) /\ ocls o1 = c).
    { intros E'. injection E' as <-. split; [exact F1|]. split; [intros HS; apply F2, HX, HS | exact F3]. }
    destruct current; try (apply Hfin; exact E).
    exfalso. destruct (slot_ok_list_inv sc f l Hcur) as (p0 & Hh0 & _). congruence.
  - (* repeated: append *)
    destruct (wf_list _ _ _ _ Hwff Hh) as (_ & _ & _ & Hg & Hnm & _). rewrite Hnm in E.
    destruct (slot_ok_hlist_inv sc f t current Hh Hcur) as [->|(l & ->)]; [contradiction Hnp; reflexivity|].
    destruct (slot_ok_list_inv sc f l Hcur) as (p0 & Hh0 & Ha & Hd).
    assert (p0 = t) by congruence. subst p0.
    assert (Hvs : exists vs, (match value with PList vs => l ++ vs | _ => l ++ [value] end) = l ++ vs /\
                             all_in sc (fty f) t vs = true /\ deep_list (clean_ok sc) vs = true).
    { assert (Hone : elem_ok sc (fty f) t value = true ->
                     all_in sc (fty f) t [value] = true /\ deep_list (clean_ok sc) [value] = true).
      { intros H1. unfold elem_ok in H1. apply andb_true_iff in H1 as [Ha1 Hb1].
        rewrite all_in_cons, deep_list_cons, Ha1, Hb1. split; reflexivity. }
      destruct value as [| |?|?|?|?|?|?|?|vs|?|?]; try (eexists; split; [reflexivity | apply Hone; exact Hdec]; fail).
      exists vs. split; [reflexivity|]. apply elem_ok_all. exact Hdec. }
    destruct Hvs as (vs & Evs & Hva & Hvd). rewrite Evs in E. injection E as <-.
    split; [|split; [|reflexivity]].
    + eapply vgood_set_slot; eauto.
      * eapply slot_ok_list_intro; eauto; [apply all_in_app | apply deep_list_app]; assumption.
      * intros Hc. exfalso. apply (Hsel Hg). exact Hc.
    + intros HS. eapply sgoodx_set_slot; [apply HX; exact HS | exact Hf | apply sow_slot_list].
  - (* map: dict_set *)
    destruct (wf_dict _ _ _ _ _ Hwff Hh) as (_ & _ & Hg & Hty & kt & vt & Hmp & _).
    replace (ptype_eqb (fty f) TMap) with true in E by (rewrite Hty; reflexivity).
    rewrite Hmp in Hdec.
    destruct value as [| | | | | | | | | | |e]; try discriminate E.
    destruct (slot_ok_hdict_inv sc f pk t current Hh Hcur) as [->|(d & ->)]; [contradiction Hnp; reflexivity|].
    destruct (slot_ok_dict_inv sc f d Hcur) as (pk0 & p0 & kt0 & vt0 & Hh0 & Hm0 & Ha & Hd & Hk).
    assert (p0 = t) by congruence. assert (kt0 = kt) by congruence. assert (vt0 = vt) by congruence. subst p0 kt0 vt0.
    unfold read in Hdec.
    destruct (getattr sc e 0) as [e0 [k0|]] eqn:G0; try discriminate E.
    destruct (getattr sc e 1) as [e1 [v0|]] eqn:G1; try discriminate E.
    cbn [snd] in Hdec. apply andb_true_iff in Hdec as [Hkr Hvr]. unfold elem_ok in Hvr. apply andb_true_iff in Hvr as [Hvr Hvd].
    injection E as <-. rewrite dict_set_go.
    split; [|split; [|reflexivity]].
    + eapply vgood_set_slot; eauto.
      * eapply slot_ok_dict_intro; eauto; [apply all_kv_ds | apply deep_dict_ds | apply keys_nodup_ds]; assumption.
      * intros Hc. exfalso. apply (Hsel Hg). exact Hc.
    + intros HS. eapply sgoodx_set_slot; [apply HX; exact HS | exact Hf | apply sow_slot_dict].
Qed.

(* ---------- the loop ---------- *)
Lemma loop_good fuel' sc c : wf_schema sc = true -> forall n o s o' s',
  VGood sc o -> ocls o = c -> clean_loop fuel' sc (get_class sc c) n s = true ->
  loop fuel' sc None (get_class sc c) n o s 0 = Ok (o', s') ->
  VGood sc o' /\ (SGood sc o -> SGood sc o') /\ ocls o' = c.
Proof.
  intros Hwf. induction n as [|n IH]; intros o s o' s' HV Hc Hcl E; [discriminate|].
  cbn [loop] in E. cbn [clean_loop] in Hcl. destruct s as [|b s].
  - injection E as <- <-. tauto.
  - destruct (load_varint (b :: s)) as [[[nw r] s1]|] eqn:Ev; cbn [bind] in E; [|discriminate].
    destruct (load_field fuel' s1 nw r) as [[p s2]|] eqn:Ef; cbn [bind] in E; [|discriminate].
    apply andb_true_iff in Hcl as [Hrec Hcl].
    rewrite C01Step.step_k_bind in E.
    destruct (step fuel' sc (get_class sc c) o p) as [o1|] eqn:Es; cbn [bind] in E; [|discriminate].
    destruct o as [c0 raw sow unk cur]. cbn [ocls] in Hc. subst c0.
    destruct (step_good fuel' sc c raw sow unk cur p o1 Hwf HV Hrec Es) as (HV1 & HS1 & Hc1).
    destruct (IH o1 s2 o' s' HV1 Hc1 Hcl E) as (HV2 & HS2 & Hc2).
    split; [exact HV2|]. split; [intros HS; apply HS2, HS1, HS | exact Hc2].
Qed.

(* ---------- m.parse(bytes) ---------- *)
Lemma parse_into_good sc o bs o' :
  wf_schema sc = true -> VGood sc o -> clean_bytes sc (ocls o) bs = true -> parse_into sc o bs = Ok o' ->
  VGood sc o' /\ (SGood sc o -> SGood sc o') /\ ocls o' = ocls o.
Proof.
  unfold parse_into, clean_bytes. intros Hwf HV Hcl E.
  destruct (load _ sc o bs None) as [[o1 s1]|] eqn:El; cbn [bind] in E; [|discriminate].
  injection E as <-. destruct o as [c raw sow unk cur]. rewrite C01Step.load_unfold in El. cbn [ocls] in *.
  apply (loop_good (length bs) sc c Hwf _ (Obj c raw true unk cur) bs o1 s1) in El; auto.
Qed.

(* ---------- one operation, OParse discharged ---------- *)
Lemma op_value_ok_p_other sc o p : op_static p = true -> op_value_ok_p sc o p = op_value_ok sc o p.
Proof. destruct p as [[]| | |]; try reflexivity. discriminate. Qed.

Lemma op_sow_ok_p_other sc o p : op_static p = true -> op_sow_ok_p sc o p = op_sow_ok sc o p.
Proof. destruct p as [[]| | |]; try reflexivity. discriminate. Qed.

Lemma step7_good_p sc o p o' x :
  c01_schema_ok sc = true -> VGood sc o -> op_value_ok_p sc o p = true -> step7 sc o p = Ok (o', x) ->
  VGood sc o' /\ (op_sow_ok_p sc o p = true -> SGood sc o -> SGood sc o').
Proof.
  intros Hs HV Hok E. pose proof (schema_wf sc Hs) as Hwf.
  destruct (op_static p) eqn:Hst.
  - rewrite op_value_ok_p_other in Hok by exact Hst. split.
    + eapply step7_vgood; eauto.
    + rewrite op_sow_ok_p_other by exact Hst. intros Hfl HS. eapply step7_sgood; eauto.
  - destruct p as [[path i v|path i|bs| | | | | |d|other|]|kw|kw|kw]; try discriminate Hst.
    cbn [op_value_ok_p] in Hok. cbn [step7 History.step] in E.
    destruct (parse_into sc o bs) as [o1|] eqn:Ep; cbn [bind] in E; [|discriminate]. injection E as <- _.
    destruct (parse_into_good sc o bs o1 Hwf HV Hok Ep) as (H1 & H2 & _). split; [exact H1|]. intros _. exact H2.
Qed.

(* ---------- histories ---------- *)
Lemma run7_vgood_p sc : c01_schema_ok sc = true -> forall ops o o',
  VGood sc o -> hist_ok op_value_ok_p sc o ops = true -> run7 sc o ops = Ok o' -> VGood sc o'.
Proof.
  intros Hs. induction ops as [|p ops IH]; intros o o' H Hh E; cbn [run7 hist_ok] in *.
  - injection E as <-. exact H.
  - apply andb_true_iff in Hh as [Hp Hr].
    destruct (step7 sc o p) as [[o1 x]|] eqn:Es; cbn [bind] in E; [|discriminate].
    apply (IH o1 o' (proj1 (step7_good_p sc o p o1 x Hs H Hp Es)) Hr E).
Qed.

Lemma run7_rgood_p sc : c01_schema_ok sc = true -> forall ops o o',
  VGood sc o -> SGood sc o -> hist_ok op_reach_ok_p sc o ops = true -> run7 sc o ops = Ok o' -> VGood sc o' /\ SGood sc o'.
Proof.
  intros Hs. induction ops as [|p ops IH]; intros o o' H HS Hh E; cbn [run7 hist_ok] in *.
  - injection E as <-. split; assumption.
  - apply andb_true_iff in Hh as [Hp Hr]. unfold op_reach_ok_p in Hp. apply andb_true_iff in Hp as [Hp1 Hp2].
    destruct (step7 sc o p) as [[o1 x]|] eqn:Es; cbn [bind] in E; [|discriminate].
    destruct (step7_good_p sc o p o1 x Hs H Hp1 Es) as (G1 & G2).
    apply (IH o1 o' G1 (G2 Hp2 HS) Hr E).
Qed.

(* the old conditions imply nothing about parse, the new ones extend them: a history without parse is judged alike *)
Lemma hist_ok_static sc : forall ops o, forallb op_static ops = true ->
  hist_ok op_reach_ok_p sc o ops = hist_ok op_reach_ok sc o ops.
Proof.
  induction ops as [|p ops IH]; intros o H; cbn [hist_ok forallb] in *; [reflexivity|].
  apply andb_true_iff in H as [Hp Hr].
  assert (Hp' : op_reach_ok_p sc o p = op_reach_ok sc o p).
  { unfold op_reach_ok_p, op_reach_ok. rewrite op_value_ok_p_other, op_sow_ok_p_other by exact Hp. reflexivity. }
  rewrite Hp'. destruct (step7 sc o p) as [[o1 x]|]; [rewrite (IH o1 Hr)|]; reflexivity.
Qed.

(* ---------- the theorems ---------- *)
Theorem c01_parse_keeps sc o bs o' :
  c01_schema_ok sc = true -> c01_value_ok sc o = true -> clean_bytes sc (ocls o) bs = true ->
  parse_into sc o bs = Ok o' ->
  c01_value_ok sc o' = true /\ (sow_ok sc o = true -> sow_ok sc o' = true) /\ ocls o' = ocls o.
Proof.
  intros Hs Hv Hcl E. pose proof (schema_wf sc Hs) as Hwf.
  destruct (parse_into_good sc o bs o' Hwf (proj1 (vgood_iff sc o) Hv) Hcl E) as (H1 & H2 & H3).
  split; [apply vgood_iff; exact H1|]. split; [|exact H3].
  intros Hw. apply sgood_iff. apply H2. apply sgood_iff. exact Hw.
Qed.

Theorem c01_reachable_value_ok_parse sc c ops o :
  c01_schema_ok sc = true -> hist_ok op_value_ok_p sc (new sc c) ops = true ->
  run7 sc (new sc c) ops = Ok o -> c01_value_ok sc o = true.
Proof.
  intros Hs Hh E. pose proof (schema_wf sc Hs) as Hwf. apply vgood_iff.
  apply (run7_vgood_p sc Hs ops (new sc c) o (vgood_new sc c Hwf) Hh E).
Qed.

Theorem c01_reachable_sow_ok_parse sc c ops o :
  c01_schema_ok sc = true -> hist_ok op_reach_ok_p sc (new sc c) ops = true ->
  run7 sc (new sc c) ops = Ok o -> c01_value_ok sc o = true /\ sow_ok sc o = true.
Proof.
  intros Hs Hh E. pose proof (schema_wf sc Hs) as Hwf.
  destruct (run7_rgood_p sc Hs ops (new sc c) o (vgood_new sc c Hwf) (sgood_new sc c) Hh E) as (HV & HS).
  split; [apply vgood_iff; exact HV | apply sgood_iff; exact HS].
Qed.

Theorem c01_run_keeps_parse sc ops o o' :
  c01_schema_ok sc = true -> c01_value_ok sc o = true -> sow_ok sc o = true ->
  hist_ok op_reach_ok_p sc o ops = true -> run7 sc o ops = Ok o' -> c01_value_ok sc o' = true /\ sow_ok sc o' = true.
Proof.
  intros Hs Hv Hw Hh E.
  destruct (run7_rgood_p sc Hs ops o o' (proj1 (vgood_iff sc o) Hv) (proj1 (sgood_iff sc o) Hw) Hh E) as (HV & HS).
  split; [apply vgood_iff; exact HV | apply sgood_iff; exact HS].
Qed.

Theorem c01_roundtrip_reachable_parse sc c ops m :
  c01_schema_ok sc = true -> hist_ok op_reach_ok_p sc (new sc c) ops = true -> run7 sc (new sc c) ops = Ok m ->
  exists bs, enc_obj sc m = Ok bs /\
    (Zlength bs < 2 ^ 64 ->
     exists m', parse sc (ocls m) bs = Ok m' /\ m' = norm_obj sc m /\
       (deep nan_free (PMsg m) = true -> obj_eq sc m m' = true) /\
       (forall g, which_one_of m' g = which_one_of m g) /\
       obs_top sc m m' = true /\
       enc_obj sc m' = Ok bs).
Proof.
  intros Hs Hh E. destruct (c01_reachable_sow_ok_parse sc c ops m Hs Hh E) as (Hv & Hw).
  destruct (c01_roundtrip sc m Hs Hv) as (bs & Eb & Hrest). exists bs. split; [exact Eb|]. intros Hsm.
  destruct (Hrest Hsm) as (m' & Hp & Hn & Heq & Hwo & Hobs & Hst). exists m'. repeat split; auto.
Qed.
