(* The six clauses of Model/C01ReachCv.v together ARE op_reach_ok_p (Model/C01Parse.v), per operation and per history:
   counting clause verdicts in the check is counting the hypothesis of C01_roundtrip_reachable_parse, nothing else. *)
From Coq Require Import List Bool Btauto.
From BP Require Import Base.Prelude Model.Types Model.Object Model.History Model.C07Ops Model.C01Def Model.C01Reach Model.C01Parse
     Model.C01ReachCv.

Definition all_clauses (sc : schema) (o : obj) (p : op7) : bool := forallb (fun cl => cl sc o p) clauses.

Lemma op_reach_ok_p_clauses : forall sc o p, op_reach_ok_p sc o p = all_clauses sc o p.
Proof.
  intros sc o p. unfold all_clauses, clauses, op_reach_ok_p, op_value_ok_p, op_sow_ok_p, op_value_ok, op_sow_ok.
  destruct p as [q|kw|kw|kw]; [destruct q|..];
    cbn [forallb cl_vals cl_groups cl_pickle cl_parse cl_kwflags cl_setflags]; btauto.
Qed.

Lemma hist_ok_ext : forall (P Q : schema -> obj -> op7 -> bool) sc,
  (forall o p, P sc o p = Q sc o p) -> forall ops o, hist_ok P sc o ops = hist_ok Q sc o ops.
Proof.
  intros P Q sc H ops. induction ops as [|p r IH]; intros o; cbn [hist_ok]; [reflexivity|].
  rewrite H. destruct (step7 sc o p) as [[o' x]|e]; [rewrite IH|]; reflexivity.
Qed.

Lemma hist_ok_and : forall (P Q : schema -> obj -> op7 -> bool) sc ops o,
  hist_ok (fun sc o p => P sc o p && Q sc o p) sc o ops = hist_ok P sc o ops && hist_ok Q sc o ops.
Proof.
  intros P Q sc ops. induction ops as [|p r IH]; intros o; cbn [hist_ok]; [reflexivity|].
  destruct (step7 sc o p) as [[o' x]|e].
  - rewrite IH. destruct (P sc o p), (Q sc o p), (hist_ok P sc o' r), (hist_ok Q sc o' r); reflexivity.
  - destruct (P sc o p), (Q sc o p); reflexivity.
Qed.

Lemma hist_ok_true : forall sc ops o, hist_ok (fun _ _ _ => true) sc o ops = true.
Proof.
  intros sc ops. induction ops as [|p r IH]; intros o; cbn [hist_ok]; [reflexivity|].
  destruct (step7 sc o p) as [[o' x]|e]; [apply IH|reflexivity].
Qed.

Lemma hist_ok_forallb : forall (cls : list (schema -> obj -> op7 -> bool)) sc ops o,
  hist_ok (fun sc o p => forallb (fun cl => cl sc o p) cls) sc o ops = forallb (fun cl => hist_ok cl sc o ops) cls.
Proof.
  intros cls sc ops. induction cls as [|cl r IH]; intros o; cbn [forallb].
  - apply hist_ok_true.
  - rewrite <- IH. apply (hist_ok_and cl (fun sc o p => forallb (fun cl => cl sc o p) r)).
Qed.

(* a history satisfies the hypothesis of C01_roundtrip_reachable_parse iff it satisfies each of the six clauses *)
Lemma hist_reach_ok_p_clauses : forall sc ops o,
  hist_ok op_reach_ok_p sc o ops = forallb (fun cl => hist_ok cl sc o ops) clauses.
Proof.
  intros sc ops o. rewrite <- hist_ok_forallb. apply hist_ok_ext. intros o' p. apply op_reach_ok_p_clauses.
Qed.
