(* C04, object level (B), part 5: the head of each loop, the loops, and the theorem:
   for every good object m, norm_obj m == m and bytes(norm_obj m) = bytes(m). *)
From BP Require Import Base.Prelude Model.Types Model.Varint Model.Scalar Model.Float Model.Utf8 Model.Object Model.Eq Model.TimeCore.
From BP Require Import Model.Encode Model.WellFormed Model.Json.
From BP Require Import gen.Tables Proofs.BytesP Proofs.C04Def Proofs.C04ScalarP Proofs.C04ElemP Proofs.C04FieldP Proofs.C04ObjP
  Proofs.C04CurP Proofs.C04EncP Proofs.C04RtP Proofs.C04RtP2.
From Coq Require Import Lia ZifyBool.

Definition norm_field_sel (sc : schema) (sel : option bool) (f : fdesc) (x : pv) : pv :=
  match sel with
  | Some false => sentinel f
  | _ =>
      match x with
      | PPlaceholder => sentinel f
      | _ => if emitted sc f sel x then norm_pv sc x else sentinel f
      end
  end.

Lemma norm_field_is_sel sc cur i f x : norm_field sc cur i f x = norm_field_sel sc (group_selects cur f i) f x.
Proof. unfold norm_field, norm_field_sel. destruct (group_selects cur f i) as [[|]|]; reflexivity. Qed.

Definition dict_cond (sc : schema) (x : pv) : bool :=
  match x with PDict d => keys_distinct sc (map fst d) | _ => true end.

Lemma enc_head_value sc sel f x : sel <> Some false -> x <> PPlaceholder -> x <> PNone ->
  enc_head_sel sc sel f x = emit_field (enc_obj sc) sc f sel x.
Proof. intros Hs Hx Hn. unfold enc_head_sel. destruct sel as [[|]|]; try congruence; destruct x; congruence. Qed.

Lemma norm_not_none sc x : x <> PNone -> norm_pv sc x <> PNone.
Proof. destruct x as [| | | | | | | | | | |[c r s u g]]; cbn [norm_pv]; congruence. Qed.

Lemma none_needs_optional sc f : value_ok sc f PNone = true -> exists p, fhint f = HOptional p.
Proof. unfold value_ok. destruct (fhint f); try discriminate. eauto. Qed.

Lemma none_not_emitted sc ng f : wf_field sc ng f = true -> value_ok sc f PNone = true -> emitted sc f None PNone = false.
Proof.
  intros W Hv. destruct (none_needs_optional sc f Hv) as [p Hp].
  unfold emitted, field_to_json, emit. rewrite Hp. cbn [orb].
  unfold wf_field in W. rewrite Hp in W. apply andb_prop in W as [_ Wh].
  destruct (fwraps f) as [w|].
  - apply andb_prop in Wh as [_ Wrest]. apply andb_prop in Wrest as [Wrest _]. apply andb_prop in Wrest as [Wrest _].
    apply andb_prop in Wrest as [_ Wt]. apply ptype_eqb_eq in Wt. rewrite Wt. reflexivity.
  - apply andb_prop in Wh as [_ Wrest]. apply andb_prop in Wrest as [Wrest _]. apply andb_prop in Wrest as [_ Wt].
    destruct (ptype_eqb (fty f) TMessage); [reflexivity|]. rewrite (negb_true _ Wt).
    cbn [is_default]. rewrite Hp. reflexivity.
Qed.

Section Heads.
  Variable sc : schema.
  Variable n : nat.
  Hypothesis WS : wf_schema sc = true.
  Hypothesis IHo : forall o', (pv_size (PMsg o') < n)%nat -> in_range sc o' = true -> pv_good sc (PMsg o') = true -> rt_ok sc o'.

  Let nc := length (classes sc).
  Let ne := length (enums sc).

  Definition sel_ok (f : fdesc) (sel : option bool) (x : pv) : Prop :=
    (fgroup f = None -> sel = None) /\ (forall g, fgroup f = Some g -> exists s, sel = Some s) /\
    (forall s, sel = Some s -> s = match x with PPlaceholder => false | _ => true end).

  Lemma head_enc ng f sel x :
    wf_field sc ng f = true -> sel_ok f sel x -> (pv_size x < n)%nat ->
    value_ok sc f x = true -> pv_good sc x = true -> lazy_cond sc sel f x = true ->
    enc_head_sel sc sel f (norm_field_sel sc sel f x) = enc_head_sel sc sel f x.
  Proof.
    intros W [Hs1 [Hs2 Hs3]] Hs Hv Hg Hl.
    destruct sel as [[|]|].
    - (* the selected member of a oneof *)
      pose proof (Hs3 true eq_refl) as Hx.
      assert (Hxp : x <> PPlaceholder) by (intros ->; discriminate Hx).
      destruct (fgroup f) as [g|] eqn:G; [|specialize (Hs1 eq_refl); discriminate Hs1].
      destruct (group_field_plain sc ng f g W G) as [_ [Hop [p Hp]]].
      assert (Hxn : x <> PNone) by (intros ->; unfold value_ok in Hv; rewrite Hp in Hv; discriminate Hv).
      pose proof (selected_emitted sc ng f g x W G Hxp Hv) as He.
      unfold norm_field_sel. rewrite (not_ph x _ _ Hxp), He.
      rewrite (enc_head_value sc (Some true) f (norm_pv sc x)) by (first [discriminate | apply norm_not_ph; assumption | apply norm_not_none; assumption]).
      rewrite (enc_head_value sc (Some true) f x) by (first [discriminate | assumption]).
      apply (emit_norm sc n WS IHo ng); try assumption. intros E. rewrite E in G. discriminate G.
    - reflexivity.
    - destruct (pv_eq_dec_ph x) as [->|Hxp].
      + (* PLACEHOLDER *)
        unfold norm_field_sel, sentinel. destruct (fopt f) eqn:O; [|reflexivity].
        destruct (opt_is_optional sc ng f W O) as [p Hp]. unfold enc_head_sel, default_of. rewrite Hp. reflexivity.
      + unfold norm_field_sel. rewrite (not_ph x _ _ Hxp).
        assert (Gn : fgroup f = None).
        { destruct (fgroup f) as [g|] eqn:G; [|reflexivity]. destruct (Hs2 g eq_refl) as [s E]. discriminate E. }
        destruct (emitted sc f None x) eqn:He.
        * assert (Hxn : x <> PNone) by (intros ->; rewrite (none_not_emitted sc ng f W Hv) in He; discriminate He).
          rewrite (enc_head_value sc None f (norm_pv sc x)) by (first [discriminate | apply norm_not_ph; assumption | apply norm_not_none; assumption]).
          rewrite (enc_head_value sc None f x) by (first [discriminate | assumption]).
          apply (emit_norm sc n WS IHo ng); assumption.
        * destruct (pv_eq_dec_none x) as [->|Hxn].
          -- (* None *)
             destruct (none_needs_optional sc f Hv) as [p Hp].
             unfold sentinel. destruct (fopt f); [reflexivity|]. unfold enc_head_sel, default_of. rewrite Hp. reflexivity.
          -- destruct (not_emitted_facts sc ng f None x W Hs1 Hs2 ltac:(discriminate) Hxp Hxn Hv Hl He) as [D [O [_ [_ Sw]]]].
             unfold sentinel. rewrite O.
             rewrite (enc_head_value sc None f x) by (first [discriminate | assumption]).
             unfold enc_head_sel. rewrite (default_emission_empty sc ng f WS W Gn O).
             unfold emit_field. rewrite D, Gn, O. cbn [is_some orb].
             replace (match x with PMsg o => osow o | _ => false end) with false by (destruct x; try reflexivity; symmetry; exact Sw).
             reflexivity.
  Qed.

  Lemma value_norm_eq ng f x :
    wf_field sc ng f = true -> (pv_size x < n)%nat -> x <> PPlaceholder -> x <> PNone ->
    value_ok sc f x = true -> pv_good sc x = true -> field_nan_ok x = true -> dict_cond sc x = true ->
    pv_eq sc (norm_pv sc x) x || (pv_is_nan (norm_pv sc x) && pv_is_nan x) = true.
  Proof.
    intros W Hs Hx Hxn Hv Hg Hn Hd.
    assert (Single : forall t p, pyty_fits nc ne t p = true -> elem_in_range sc t p x = true ->
                       pv_eq sc (norm_pv sc x) x || (pv_is_nan (norm_pv sc x) && pv_is_nan x) = true).
    { intros t p Hp Hr. destruct (not_nan x) eqn:N.
      - rewrite (elem_norm_eq sc n IHo t p x Hs Hp Hr Hg N). reflexivity.
      - destruct x; try discriminate N. cbn [norm_pv pv_is_nan]. cbn in N. apply negb_false_iff in N. rewrite N. apply orb_true_r. }
    destruct f as [name num t mp grp wr op hint ent].
    unfold wf_field in W. cbn [fnum fgroup fhint fopt fwraps fmap fty] in W. fold nc ne in W. apply andb_prop in W as [_ Wh].
    unfold value_ok in Hv. cbn [fhint fty fwraps fmap] in Hv.
    destruct hint as [p|p|p|pk p].
    - apply andb_true5 in Wh as [_ [_ [_ [_ Wp]]]]. apply (Single t p Wp). destruct x; try congruence; exact Hv.
    - destruct wr as [w|].
      + apply andb_prop in Wh as [_ Wrest]. apply andb_prop in Wrest as [_ Wfit].
        destruct (wrapper_value_type w) as [vt|] eqn:Ev; [|discriminate Wfit].
        pose proof (wrapper_same w vt Ev) as Evt. subst vt.
        apply (Single w p Wfit). destruct x; try congruence; exact Hv.
      + apply andb_prop in Wh as [_ Wrest]. apply andb_prop in Wrest as [_ Wp].
        apply (Single t p Wp). destruct x; try congruence; exact Hv.
    - apply andb_prop in Wh as [_ Wp].
      destruct x as [| | | | | | | | |l| |]; try discriminate Hv; try congruence.
      cbv beta iota in Hv. rewrite all_list_forallb in Hv. rewrite forallb_forall in Hv.
      unfold pv_good in Hg. cbn [pv_all] in Hg. rewrite forallb_forall in Hg.
      cbn [field_nan_ok] in Hn. rewrite forallb_forall in Hn.
      cbn [norm_pv].
      assert (Sz : forall y, In y l -> (pv_size y < n)%nat)
        by (intros y Hy; rewrite size_list in Hs; pose proof (in_sum_size y l Hy); lia).
      rewrite (list_norm_eq sc n IHo t p l Sz Wp Hv Hg Hn). reflexivity.
    - apply andb_prop in Wh as [Wh _]. apply andb_prop in Wh as [_ Wmap].
      destruct mp as [[kt vt]|]; [|discriminate Wmap].
      apply andb_prop in Wmap as [Wmap Wv]. apply andb_prop in Wmap as [Wmap _]. apply andb_prop in Wmap as [Wkey _].
      destruct x as [| | | | | | | | | |d|]; try discriminate Hv; try congruence.
      cbv beta iota in Hv. rewrite all_dict_forallb in Hv. rewrite forallb_forall in Hv.
      unfold pv_good in Hg. cbn [pv_all] in Hg. rewrite forallb_forall in Hg.
      cbn [field_nan_ok] in Hn. rewrite forallb_forall in Hn.
      cbn [norm_pv]. cbn [dict_cond] in Hd. rewrite (dict_norm_eq sc n IHo kt vt p d Wkey Wv Hd); [reflexivity|].
      intros k y Hy. specialize (Hv _ Hy). cbn [fst snd] in Hv. apply andb_prop in Hv as [Hk Hy'].
      split; [rewrite size_dict in Hs; pose proof (in_sum_size_d k y d Hy); lia|].
      split; [exact Hk|]. split; [exact Hy'|]. split; [exact (Hg _ Hy)|exact (Hn _ Hy)].
  Qed.

  Lemma head_eq ng f sel x :
    wf_field sc ng f = true -> sel_ok f sel x -> (pv_size x < n)%nat ->
    value_ok sc f x = true -> pv_good sc x = true -> lazy_cond sc sel f x = true ->
    field_nan_ok x = true -> dict_cond sc x = true ->
    eq_head sc f (norm_field_sel sc sel f x) x = true.
  Proof.
    intros W [Hs1 [Hs2 Hs3]] Hs Hv Hg Hl Hn Hd.
    destruct (pv_eq_dec_ph x) as [->|Hxp].
    - (* PLACEHOLDER on the right *)
      assert (E : norm_field_sel sc sel f PPlaceholder = sentinel f) by (unfold norm_field_sel; destruct sel as [[|]|]; reflexivity).
      rewrite E. unfold sentinel. destruct (fopt f) eqn:O; [|reflexivity].
      destruct (opt_is_optional sc ng f W O) as [p Hp]. unfold eq_head. cbn [is_default]. rewrite Hp. reflexivity.
    - assert (Hsel : sel <> Some false) by (intros ->; specialize (Hs3 false eq_refl); destruct x; congruence).
      assert (E : norm_field_sel sc sel f x = if emitted sc f sel x then norm_pv sc x else sentinel f)
        by (unfold norm_field_sel; destruct sel as [[|]|]; try congruence; apply not_ph; exact Hxp).
      rewrite E. clear E.
      destruct (pv_eq_dec_none x) as [->|Hxn].
      + destruct (none_needs_optional sc f Hv) as [p Hp].
        assert (Gn : fgroup f = None).
        { destruct (fgroup f) as [g|] eqn:G; [|reflexivity]. destruct (group_field_plain sc ng f g W G) as [_ [_ [q Hq]]]. congruence. }
        rewrite (Hs1 Gn). rewrite (none_not_emitted sc ng f W Hv). unfold sentinel.
        destruct (fopt f); [reflexivity|]. unfold eq_head. cbn [is_default]. rewrite Hp. reflexivity.
      + destruct (emitted sc f sel x) eqn:He.
        * pose proof (value_norm_eq ng f x W Hs Hxp Hxn Hv Hg Hn Hd) as V.
          pose proof (norm_not_ph sc x Hxp) as N1.
          unfold eq_head. destruct (norm_pv sc x) eqn:En; try congruence; destruct x; try congruence; exact V.
        * destruct (not_emitted_facts sc ng f sel x W Hs1 Hs2 Hsel Hxp Hxn Hv Hl He) as [D [O _]].
          unfold sentinel. rewrite O. unfold eq_head. destruct x; try congruence; exact D.
  Qed.
End Heads.
