(* C17_welltyped, decoder half: Message.load keeps every raw attribute a value of its declared
   type (and, in the strict reading, inside the ranges the decoder produces).  The invariant is
   [typed_obj strict sc]; both readings are proved at once. *)
From BP Require Import Base.Prelude Model.Types Model.Varint Model.Scalar Model.Float Model.Utf8.
From BP Require Import Model.Object Model.Eq Model.TimeCore Model.Decode Model.WellFormed.
From BP Require Import Model.C17Typed Model.C17Step Model.C17Wire.
From BP Require Import Spec.Varint Proofs.BytesP Proofs.VarintP Proofs.ScalarP.
From BP Require Import Proofs.C17FieldP Proofs.C17StepP Proofs.C17TypedAuxP.
From BP Require Import gen.Tables.
From Coq Require Import ZifyBool.
Ltac Zify.zify_post_hook ::= Z.to_euclidean_division_equations.

Ltac split_and := repeat match goal with H : _ && _ = true |- _ => apply andb_true_iff in H as [? ?] end.

Lemma nth_error_seq n : forall a g x, nth_error (seq a n) g = Some x -> x = (a + g)%nat.
Proof.
  induction n as [|n IH]; intros a g x H; [destruct g; discriminate|].
  destruct g as [|g]; cbn in H; [injection H as <-; lia|]. apply IH in H. lia.
Qed.

Section Typed.
  Variable strict : bool.
  Variable sc : schema.
  Hypothesis Hwf : wf_schema sc = true.
  Hypothesis Hbi : has_builtins sc.
  Hypothesis Hea : entries_agree sc = true.
  (* struct.pack("<f", struct.unpack("<f", w)) does not overflow (Proofs/C17FloatP.v) *)
  Hypothesis Hf32 : forall w, 0 <= w < 2 ^ 32 -> f32_reencodable w = true.

  Notation tv := (typed_val strict sc).
  Notation ta := (typed_attr strict sc).
  Notation tobj := (typed_obj strict sc).
  Notation nc := (length (classes sc)).
  Notation ne := (length (enums sc)).

  (* ---------- shapes ---------- *)
  Lemma tv_msg t c o : tv t (PyMsg c) (PMsg o) = Nat.eqb c (ocls o) && tobj o.
  Proof. destruct o as [c' raw sow unk cur]. cbn [typed_val typed_obj ocls]. rewrite andb_assoc. reflexivity. Qed.

  Lemma tv_not_sentinel t p v : tv t p v = true -> v <> PPlaceholder /\ v <> PNone.
  Proof. destruct p, v; cbn [typed_val]; try discriminate; split; discriminate. Qed.

  Lemma ta_plain f p v : fhint f = HPlain p -> tv (fty f) p v = true -> ta v f = true.
  Proof.
    intros Hh Hv. destruct (tv_not_sentinel _ _ _ Hv) as [N1 N2].
    unfold typed_attr. rewrite Hh. destruct v; try congruence; exact Hv.
  Qed.

  Lemma ta_optional f p v : fhint f = HOptional p -> tv (opt_elem_type f) p v = true -> ta v f = true.
  Proof.
    intros Hh Hv. destruct (tv_not_sentinel _ _ _ Hv) as [N1 N2].
    unfold typed_attr. rewrite Hh. destruct v; try congruence; exact Hv.
  Qed.

  Lemma ta_list f p l : fhint f = HList p -> forallb (tv (fty f) p) l = true -> ta (PList l) f = true.
  Proof. intros Hh Hv. unfold typed_attr. rewrite Hh. exact Hv. Qed.

  Lemma ta_list_inv f l : ta (PList l) f = true -> exists p, fhint f = HList p /\ forallb (tv (fty f) p) l = true.
  Proof.
    unfold typed_attr. destruct (fhint f) as [p|p|p|k v] eqn:Hh; intros H.
    - destruct p; discriminate.
    - destruct p; discriminate.
    - eauto.
    - discriminate.
  Qed.

  Lemma ta_dict f pk pv' kt vt d :
    fhint f = HDict pk pv' -> fmap f = Some (kt, vt) ->
    forallb (fun kv : pv * pv => let (k, y) := kv in tv kt pk k && tv vt pv' y) d = true ->
    ta (PDict d) f = true.
  Proof. intros Hh Hm Hv. unfold typed_attr. rewrite Hh, Hm. exact Hv. Qed.

  Lemma ta_mark_sow v f : ta (mark_sow v) f = ta v f.
  Proof. destruct v; try reflexivity. destruct o as [c raw sow unk cur]. reflexivity. Qed.

  (* ---------- fresh objects and defaults ---------- *)
  Lemma cur_ok_repeat cd : cur_ok cd (repeat None (cngroups cd)) = true.
  Proof.
    unfold cur_ok. rewrite repeat_length, Nat.eqb_refl. cbn [andb].
    generalize 0%nat. induction (cngroups cd) as [|n IH]; intros a; cbn; [reflexivity|]. apply IH.
  Qed.

  Lemma wf_fopt f ng : wf_field sc ng f = true -> fopt f = true -> exists p, fhint f = HOptional p.
  Proof.
    unfold wf_field. intros H Ho. destruct (fhint f) as [p|p|p|k v]; eauto; rewrite Ho in H; cbn in H;
      repeat rewrite ?andb_false_r, ?andb_false_l in H; discriminate.
  Qed.

  Lemma new_typed c : tobj (new sc c) = true.
  Proof.
    unfold new. cbn [typed_obj]. rewrite cur_ok_repeat. cbn [andb].
    rewrite forallb2_map_l. apply forallb_forall. intros f Hin.
    pose proof (wf_fields_of sc c Hwf) as Hw. rewrite forallb_forall in Hw. specialize (Hw f Hin).
    destruct (fopt f) eqn:Ho; [|reflexivity].
    destruct (wf_fopt _ _ Hw Ho) as [p Hp]. unfold typed_attr. rewrite Hp. reflexivity.
  Qed.

  Lemma new_cls c : ocls (new sc c) = c.
  Proof. reflexivity. Qed.

  Lemma int_ok_zero t p : pyty_fits nc ne t p = true -> (p = PyInt \/ exists e, p = PyEnum e) -> int_ok strict t 0 = true.
  Proof.
    intros Hf Hp. unfold int_ok. destruct strict; [|reflexivity]. cbn [negb orb].
    destruct Hp as [-> | [e ->]]; destruct t; cbn in Hf; try discriminate; reflexivity.
  Qed.

  Lemma default_typed f ng : wf_field sc ng f = true -> ta (default_of sc f) f = true.
  Proof.
    intros Hw. unfold default_of. unfold wf_field in Hw.
    destruct (fhint f) as [p|p|p|k v] eqn:Hh.
    - (* plain *)
      assert (Hp : pyty_fits nc ne (fty f) p = true).
      { split_and. assumption. }
      apply (ta_plain f p); [exact Hh|].
      destruct p.
      + cbn [typed_val]. eapply int_ok_zero; eauto.
      + cbn [typed_val]. unfold float_ok. destruct strict; [|reflexivity]. cbn [negb orb].
        destruct (fty f); cbn in Hp; try discriminate; reflexivity.
      + reflexivity.
      + reflexivity.
      + reflexivity.
      + cbn [typed_val]. eapply int_ok_zero; eauto.
      + rewrite tv_msg, new_typed, new_cls, Nat.eqb_refl. reflexivity.
      + cbn [typed_val]. unfold datetime_ok. destruct strict; reflexivity.
      + cbn [typed_val]. unfold timedelta_ok. destruct strict; reflexivity.
    - unfold typed_attr. rewrite Hh. reflexivity.
    - apply (ta_list f p); [exact Hh | reflexivity].
    - destruct (fmap f) as [[kt vt]|] eqn:Hm.
      + eapply ta_dict; eauto.
      + repeat rewrite ?andb_false_r, ?andb_false_l in Hw. discriminate.
  Qed.

  (* ---------- getattr / setattr / set_raw ---------- *)
  Lemma set_raw_typed o i f v :
    tobj o = true -> nth_error (cfields (get_class sc (ocls o))) i = Some f -> ta v f = true ->
    tobj (set_raw o i v) = true /\ ocls (set_raw o i v) = ocls o.
  Proof.
    destruct o as [c raw sow unk cur]. cbn [typed_obj set_raw ocls]. intros H Hn Hv.
    apply andb_true_iff in H as [Hc Hr]. rewrite Hc. cbn [andb].
    split; [|reflexivity]. eapply forallb2_set_nth; eassumption.
  Qed.

  Lemma getattr_typed o i o' v :
    tobj o = true -> getattr sc o i = (o', Ok v) ->
    tobj o' = true /\ ocls o' = ocls o /\
    exists f, nth_error (cfields (get_class sc (ocls o))) i = Some f /\ ta v f = true /\ v <> PPlaceholder.
  Proof.
    destruct o as [c raw sow unk cur]. intros Ht H. unfold getattr in H. cbn [ocls].
    destruct (nth_error (cfields (get_class sc c)) i) as [f|] eqn:Hn; [|discriminate].
    assert (Hdef : nth i raw PPlaceholder = PPlaceholder ->
                   (Obj c (set_nth i (default_of sc f) raw) sow unk cur, Ok (default_of sc f)) = (o', Ok v) ->
                   tobj o' = true /\ ocls o' = c /\
                   exists f0, Some f = Some f0 /\ ta v f0 = true /\ v <> PPlaceholder).
    { intros _ E. injection E as <- <-.
      pose proof (default_typed f _ (wf_field_of sc c i f Hwf Hn)) as Hd.
      destruct (set_raw_typed (Obj c raw sow unk cur) i f (default_of sc f) Ht Hn Hd) as [T1 T2].
      cbn [set_raw] in T1, T2. split; [exact T1|]. split; [reflexivity|].
      exists f. split; [reflexivity|]. split; [exact Hd|].
      unfold default_of. destruct (fhint f) as [[]| | |]; discriminate. }
    assert (Hval : nth i raw PPlaceholder <> PPlaceholder ->
                   (Obj c raw sow unk cur, Ok (nth i raw PPlaceholder)) = (o', Ok v) ->
                   tobj o' = true /\ ocls o' = c /\
                   exists f0, Some f = Some f0 /\ ta v f0 = true /\ v <> PPlaceholder).
    { intros Hne E. injection E as <- <-. split; [exact Ht|]. split; [reflexivity|].
      exists f. split; [reflexivity|]. split; [|exact Hne].
      cbn [typed_obj] in Ht. apply andb_true_iff in Ht as [_ Hr].
      eapply forallb2_nth; eassumption. }
    destruct (group_selects cur f i) as [[|]|]; try discriminate;
      (destruct (nth i raw PPlaceholder) eqn:Ev;
       [ apply Hdef; [reflexivity | exact H]
       | apply Hval; [discriminate | exact H] .. ]).
  Qed.

  Lemma cur_ok_set cd cur g i f :
    cur_ok cd cur = true -> nth_error (cfields cd) i = Some f -> fgroup f = Some g ->
    cur_ok cd (set_nth g (Some i) cur) = true.
  Proof.
    unfold cur_ok. intros H Hn Hg. apply andb_true_iff in H as [Hl H].
    rewrite set_nth_length, Hl. cbn [andb].
    apply forallb2_set_nth_r; [exact H|]. intros x Hx.
    rewrite Hn, Hg. apply nth_error_seq in Hx. cbn in Hx.
    subst x. cbn. apply Nat.eqb_refl.
  Qed.

  Lemma setattr_typed o i f v :
    tobj o = true -> nth_error (cfields (get_class sc (ocls o))) i = Some f -> ta v f = true ->
    tobj (setattr sc o i v) = true /\ ocls (setattr sc o i v) = ocls o.
  Proof.
    destruct o as [c raw sow unk cur]. cbn [ocls]. intros Ht Hn Hv. unfold setattr. rewrite Hn.
    set (v' := if fieldless sc v then mark_sow v else v).
    assert (Hv' : ta v' f = true) by (unfold v'; destruct (fieldless sc v); [rewrite ta_mark_sow|]; exact Hv).
    cbn [typed_obj] in Ht. apply andb_true_iff in Ht as [Hc Hr].
    destruct (fgroup f) as [g|] eqn:Hg.
    - cbn [typed_obj ocls]. split; [|reflexivity].
      rewrite (cur_ok_set _ _ _ _ _ Hc Hn Hg). cbn [andb].
      eapply forallb2_set_nth; [|exact Hn|exact Hv'].
      clear Hn Hv Hv'. generalize 0%nat as j. revert Hr. generalize (cfields (get_class sc c)) as fs.
      revert raw. induction raw as [|x raw IH]; intros [|f0 fs] Hr j; cbn in Hr; try discriminate; [reflexivity|].
      apply andb_true_iff in Hr as [H0 Hr]. cbn [forallb2].
      rewrite (IH fs Hr (S j)). rewrite andb_true_r. destruct (_ && _); [reflexivity | exact H0].
    - cbn [typed_obj ocls]. rewrite Hc. cbn [andb]. split; [|reflexivity].
      eapply forallb2_set_nth; eassumption.
  Qed.

  Lemma dict_set_typed (P : pv -> bool) (Q : pv -> bool) d k v :
    forallb (fun kv : pv * pv => let (k, y) := kv in P k && Q y) d = true ->
    P k = true -> Q v = true ->
    forallb (fun kv : pv * pv => let (k, y) := kv in P k && Q y) (dict_set d sc k v) = true.
  Proof.
    intros Hd Hk Hv. unfold dict_set. induction d as [|[k' v'] d IH]; cbn [forallb] in *.
    - rewrite Hk, Hv. reflexivity.
    - apply andb_true_iff in Hd as [H0 Hd]. apply andb_true_iff in H0 as [Hk' Hv'].
      destruct (pv_eq sc k' k); cbn [forallb].
      + rewrite Hk', Hv, Hd. reflexivity.
      + rewrite Hk', Hv'. cbn [andb]. apply IH, Hd.
  Qed.

  (* ---------- scalar values ---------- *)
  Lemma int_ok_intro t z : (let '(lo, hi) := int_range t in lo <= z < hi) -> int_ok strict t z = true.
  Proof. unfold int_ok. destruct (int_range t) as [lo hi]. intros H. destruct strict; cbn; [lia | reflexivity]. Qed.

  Lemma postprocess_varint_typed t p v :
    tmem t WIRE_VARINT_TYPES = true -> pyty_fits nc ne t p = true -> 0 <= v < 2 ^ 70 ->
    tv t p (postprocess_varint t v) = true.
  Proof.
    intros Ht Hp Hv.
    pose proof (sign_recover_range 32 v ltac:(lia)) as R32.
    pose proof (sign_recover_range 64 v ltac:(lia)) as R64.
    pose proof (unzigzag_range v 69 ltac:(lia) ltac:(exact Hv)) as RZ.
    change (2 ^ (32 - 1)) with (2 ^ 31) in R32. change (2 ^ (64 - 1)) with (2 ^ 63) in R64.
    destruct t; try discriminate Ht; destruct p; try discriminate Hp;
      unfold postprocess_varint; cbn [ptype_eqb ptype_tag Z.eqb Pos.eqb tmem existsb orb typed_val];
      try reflexivity; apply int_ok_intro; cbn [int_range]; lia.
  Qed.

  Lemma unpack_value_typed t p bs x :
    unpack_value t bs = Ok x -> pyty_fits nc ne t p = true -> tv t p x = true.
  Proof.
    intros H Hp. unfold unpack_value in H.
    destruct t; cbn [pack_fmt] in H; try discriminate H; destruct p; try discriminate Hp.
    - (* float *)
      destruct (Nat.eqb (length bs) 4) eqn:El; [|discriminate]. injection H as <-. apply Nat.eqb_eq in El.
      cbn [typed_val]. unfold float_ok. destruct strict; [|reflexivity]. cbn [negb orb ptype_eqb ptype_tag Z.eqb Pos.eqb].
      pose proof (le_value_range bs) as Hr. rewrite El in Hr. change (256 ^ Z.of_nat 4) with (2 ^ 32) in Hr.
      pose proof (Hf32 _ Hr) as Hf. unfold f32_reencodable in Hf. exact Hf.
    - (* double *)
      destruct (Nat.eqb (length bs) 8) eqn:El; [|discriminate]. injection H as <-. apply Nat.eqb_eq in El.
      cbn [typed_val]. unfold float_ok. destruct strict; [|reflexivity]. cbn [negb orb ptype_eqb ptype_tag Z.eqb Pos.eqb].
      pose proof (le_value_range bs) as Hr. rewrite El in Hr. change (256 ^ Z.of_nat 8) with (2 ^ 64) in Hr. lia.
    - destruct (unpack_int FmtI bs) as [z|] eqn:Eu; cbn [bind] in H; [|discriminate]. injection H as <-.
      cbn [typed_val]. apply int_ok_intro. cbn [int_range].
      apply (unpack_int_range FmtI bs z 0 (2 ^ 32) 4%nat eq_refl Eu).
    - destruct (unpack_int Fmti bs) as [z|] eqn:Eu; cbn [bind] in H; [|discriminate]. injection H as <-.
      cbn [typed_val]. apply int_ok_intro. cbn [int_range].
      apply (unpack_int_range Fmti bs z (- 2 ^ 31) (2 ^ 31) 4%nat eq_refl Eu).
    - destruct (unpack_int FmtQ bs) as [z|] eqn:Eu; cbn [bind] in H; [|discriminate]. injection H as <-.
      cbn [typed_val]. apply int_ok_intro. cbn [int_range].
      apply (unpack_int_range FmtQ bs z 0 (2 ^ 64) 8%nat eq_refl Eu).
    - destruct (unpack_int Fmtq bs) as [z|] eqn:Eu; cbn [bind] in H; [|discriminate]. injection H as <-.
      cbn [typed_val]. apply int_ok_intro. cbn [int_range].
      apply (unpack_int_range Fmtq bs z (- 2 ^ 63) (2 ^ 63) 8%nat eq_refl Eu).
  Qed.

  Lemma unpack_packed_typed n : forall t p buf l,
    unpack_packed n t buf = Ok l -> tmem t PACKED_TYPES = true -> pyty_fits nc ne t p = true ->
    forallb (tv t p) l = true.
  Proof.
    induction n as [|n IH]; intros t p buf l H Ht Hp; [discriminate|]. cbn [unpack_packed] in H.
    destruct buf as [|b buf']; [injection H as <-; reflexivity|]. set (buf := b :: buf') in *.
    destruct (tmem t [TFloat; TFixed32; TSFixed32]) eqn:E32.
    { destruct (unpack_value t (firstn 4 buf)) as [x|] eqn:Ex; cbn [bind] in H; [|discriminate].
      destruct (unpack_packed n t (skipn 4 buf)) as [r|] eqn:Er; cbn [bind] in H; [|discriminate].
      injection H as <-. cbn [forallb]. rewrite (unpack_value_typed _ _ _ _ Ex Hp). cbn [andb]. eapply IH; eassumption. }
    destruct (tmem t [TDouble; TFixed64; TSFixed64]) eqn:E64.
    { destruct (unpack_value t (firstn 8 buf)) as [x|] eqn:Ex; cbn [bind] in H; [|discriminate].
      destruct (unpack_packed n t (skipn 8 buf)) as [r|] eqn:Er; cbn [bind] in H; [|discriminate].
      injection H as <-. cbn [forallb]. rewrite (unpack_value_typed _ _ _ _ Ex Hp). cbn [andb]. eapply IH; eassumption. }
    destruct (load_varint buf) as [[[v r0] rest]|] eqn:Ev; cbn [bind] in H; [|discriminate].
    destruct (unpack_packed n t rest) as [r|] eqn:Er; cbn [bind] in H; [|discriminate].
    injection H as <-. cbn [forallb]. apply load_varint_inv in Ev as (_ & Rv & _).
    rewrite postprocess_varint_typed; [cbn [andb]; eapply IH; eassumption | | exact Hp | eapply VarintRep_range, Rv].
    destruct t; try discriminate Ht; try discriminate E32; try discriminate E64; reflexivity.
  Qed.

  (* ---------- builtin classes ---------- *)
  Lemma wrapper_class_fields w wc vt :
    wrapper_cls w = Some wc -> wrapper_value_type w = Some vt ->
    cfields (get_class sc wc) = [plain_field value_name 1 vt].
  Proof.
    destruct Hbi as [user E]. unfold get_class. rewrite E. intros Hc Hv.
    destruct w; cbn in Hc; try discriminate Hc; injection Hc as <-; cbn in Hv; injection Hv as <-; reflexivity.
  Qed.

  Lemma wrapper_pyty w vt p :
    wrapper_value_type w = Some vt -> pyty_fits nc ne vt p = true -> p = plain_pyty vt.
  Proof.
    intros Hv Hp. destruct w; cbn in Hv; try discriminate Hv; injection Hv as <-;
      destruct p; cbn in Hp; try discriminate Hp; reflexivity.
  Qed.

  (* ---------- one decoded value against its field ---------- *)
  Definition value_fits (f : fdesc) (value : pv) : bool :=
    match fhint f with
    | HPlain p' => tv (fty f) p' value
    | HOptional p' => tv (opt_elem_type f) p' value
    | HList p' => tv (fty f) p' value || match value with PList l => forallb (tv (fty f) p') l | _ => false end
    | HDict _ _ => match value with PMsg e => Nat.eqb (ocls e) (fentry f) && tobj e | _ => false end
    end.

  Lemma fits_cases f wt :
    wire_type_fits f wt = true ->
    (wt = 0 /\ tmem (fty f) WIRE_VARINT_TYPES = true) \/
    (wt = 5 /\ tmem (fty f) WIRE_FIXED_32_TYPES = true) \/
    (wt = 1 /\ tmem (fty f) WIRE_FIXED_64_TYPES = true) \/
    (wt = 2 /\ (tmem (fty f) WIRE_LEN_DELIM_TYPES ||
                 (tmem (fty f) PACKED_TYPES && match fhint f with HList _ => true | _ => false end)) = true).
  Proof.
    unfold wire_type_fits, WIRE_VARINT, WIRE_FIXED_32, WIRE_FIXED_64, WIRE_LEN_DELIM.
    destruct (wt =? 0) eqn:E0; [intros H; left; split; [lia | exact H]|].
    destruct (wt =? 5) eqn:E5; [intros H; right; left; split; [lia | exact H]|].
    destruct (wt =? 1) eqn:E1; [intros H; right; right; left; split; [lia | exact H]|].
    destruct (wt =? 2) eqn:E2; [intros H; right; right; right; split; [lia | exact H]|].
    discriminate.
  Qed.

  Section Decode.
    Variable pn : nat -> list byte -> result obj.
    Hypothesis Hpn : forall c' bs m, pn c' bs = Ok m -> ocls m = c' /\ tobj m = true.

    Lemma decode_elem_typed f p value :
      fwraps f = None -> ptype_eqb (fty f) TMap = false ->
      pyty_fits nc ne (fty f) (hint_elem (fhint f)) = true ->
      wire_type_fits f (pwt p) = true -> (pwt p = 0 -> 0 <= pint p < 2 ^ 70) ->
      decode_value sc pn f p = Ok value ->
      tv (fty f) (hint_elem (fhint f)) value = true \/
      (exists l p', value = PList l /\ fhint f = HList p' /\ forallb (tv (fty f) p') l = true).
    Proof.
      intros Hw Hm Hp Hfit Hint Hd.
      unfold decode_value, WIRE_VARINT, WIRE_FIXED_32, WIRE_FIXED_64, WIRE_LEN_DELIM in Hd.
      remember (hint_elem (fhint f)) as pe eqn:Epe in *.
      destruct (fits_cases _ _ Hfit) as [[E T]|[[E T]|[[E T]|[E T]]]]; rewrite E in Hd; cbn [Z.eqb Pos.eqb andb orb] in Hd.
      - injection Hd as <-. left. apply postprocess_varint_typed; auto.
      - left. eapply unpack_value_typed; eassumption.
      - left. eapply unpack_value_typed; eassumption.
      - destruct (tmem (fty f) PACKED_TYPES) eqn:Ek.
        + (* packed run *)
          assert (Hl : tmem (fty f) WIRE_LEN_DELIM_TYPES = false) by (destruct (fty f); try discriminate Ek; reflexivity).
          rewrite Hl in T. cbn [orb andb] in T.
          destruct (fhint f) as [|?|p'|] eqn:Hh; try discriminate T.
          destruct (unpack_packed _ _ _) as [l|] eqn:Eu; cbn [bind] in Hd; [|discriminate]. injection Hd as <-.
          right. exists l, p'. split; [reflexivity|]. split; [reflexivity|]. cbn [hint_elem] in Epe. subst pe.
          eapply unpack_packed_typed; eauto.
        + cbn [andb orb] in T. rewrite orb_false_r in T. rewrite Hm in Hd. unfold post_len_r in Hd. rewrite Hw in Hd.
          left. destruct (fty f) eqn:Et; try discriminate T; try discriminate Hm;
            cbn [ptype_eqb ptype_tag Z.eqb Pos.eqb] in Hd.
          * (* string *)
            destruct (utf8_valid (pbytes p)) eqn:Eu; [|discriminate]. injection Hd as <-.
            destruct pe; try discriminate Hp. exact Eu.
          * (* bytes *)
            injection Hd as <-. destruct pe; try discriminate Hp. reflexivity.
          * (* message *)
            destruct pe as [| | | | | |c'| |]; try discriminate Hp.
            -- destruct (pn c' (pbytes p)) as [m|] eqn:Em; cbn [bind] in Hd; [|discriminate]. injection Hd as <-.
               destruct (Hpn _ _ _ Em) as [Hc Ht]. destruct m as [c0 raw sow unk cur]. cbn [mark_sow].
               rewrite tv_msg. cbn [ocls] in *. subst c0. rewrite Nat.eqb_refl. exact Ht.
            -- destruct (pn timestamp_cls (pbytes p)) as [m|]; cbn [bind] in Hd; [|discriminate].
               destruct (snd (getattr sc m 0)) as [[]|]; try discriminate Hd.
               destruct (snd (getattr sc m 1)) as [[]|]; try discriminate Hd.
               unfold us_of_ts in Hd. destruct (_ && _) eqn:Er; cbn [bind] in Hd; [|discriminate]. injection Hd as <-.
               cbn [typed_val]. unfold datetime_ok. destruct strict; [|reflexivity]. cbn [negb orb]. lia.
            -- destruct (pn duration_cls (pbytes p)) as [m|]; cbn [bind] in Hd; [|discriminate].
               destruct (snd (getattr sc m 0)) as [[]|]; try discriminate Hd.
               destruct (snd (getattr sc m 1)) as [[]|]; try discriminate Hd.
               unfold us_of_dur in Hd. destruct (td_ok _) eqn:Er; cbn [bind] in Hd; [|discriminate]. injection Hd as <-.
               cbn [typed_val]. unfold timedelta_ok. rewrite Er. destruct strict; reflexivity.
    Qed.

    Lemma decode_value_typed f ng p value :
      wf_field sc ng f = true ->
      wire_type_fits f (pwt p) = true -> (pwt p = 0 -> 0 <= pint p < 2 ^ 70) ->
      decode_value sc pn f p = Ok value -> value_fits f value = true.
    Proof.
      intros Hw Hfit Hint Hd. unfold value_fits. unfold wf_field in Hw.
      destruct (fhint f) as [p'|p'|p'|pk pv'] eqn:Hh.
      - (* plain *)
        split_and.
        assert (fwraps f = None) by (destruct (fwraps f); [discriminate | reflexivity]).
        assert (ptype_eqb (fty f) TMap = false) by (destruct (ptype_eqb (fty f) TMap); [discriminate | reflexivity]).
        destruct (decode_elem_typed f p value) as [Hv|(l & p'' & _ & Hl & _)]; auto; try (rewrite Hh; assumption).
        + rewrite Hh in Hv. exact Hv.
        + congruence.
      - (* optional: proto3 optional or wrapper *)
        destruct (fwraps f) as [w|] eqn:Ew.
        + split_and.
          destruct (wrapper_cls w) as [wc|] eqn:Ewc; [|discriminate].
          destruct (wrapper_value_type w) as [vt|] eqn:Evt; [|discriminate].
          assert (Et : fty f = TMessage) by (apply ptype_eqb_eq; assumption).
          unfold opt_elem_type. rewrite Ew, Evt.
          destruct (fits_cases _ _ Hfit) as [[E T]|[[E T]|[[E T]|[E T]]]]; rewrite Et in T; try discriminate T.
          unfold decode_value, WIRE_VARINT, WIRE_FIXED_32, WIRE_FIXED_64, WIRE_LEN_DELIM in Hd.
          rewrite E, Et in Hd. cbn [Z.eqb Pos.eqb andb orb tmem existsb ptype_eqb ptype_tag PACKED_TYPES] in Hd.
          unfold post_len_r in Hd. rewrite Ew, Hh in Hd.
          cbn [ptype_eqb ptype_tag Z.eqb Pos.eqb hint_elem] in Hd.
          assert (Hp' : p' = plain_pyty vt) by (eapply wrapper_pyty; eassumption).
          assert (Hd' : (do m <- pn wc (pbytes p); snd (getattr sc m 0)) = Ok value).
          { rewrite Ewc in Hd. destruct p'; try exact Hd;
              destruct w; cbn in Evt; try discriminate Evt; injection Evt as <-; cbn in Hp'; discriminate Hp'. }
          clear Hd. destruct (pn wc (pbytes p)) as [m|] eqn:Em; cbn [bind] in Hd'; [|discriminate].
          destruct (Hpn _ _ _ Em) as [Hc Ht].
          destruct (getattr sc m 0) as [o' r] eqn:Eg. cbn [snd] in Hd'. subst r.
          destruct (getattr_typed _ _ _ _ Ht Eg) as (_ & _ & f0 & Hn & Hta & Hne).
          rewrite Hc, (wrapper_class_fields _ _ _ Ewc Evt) in Hn. cbn in Hn. injection Hn as <-.
          unfold typed_attr in Hta. cbn [plain_field fhint fty] in Hta. subst p'.
          destruct value; try congruence; try exact Hta; discriminate Hta.
        + split_and.
          assert (ptype_eqb (fty f) TMap = false) by (destruct (ptype_eqb (fty f) TMap); [discriminate | reflexivity]).
          unfold opt_elem_type. rewrite Ew.
          destruct (decode_elem_typed f p value) as [Hv|(l & p'' & _ & Hl & _)]; auto; try (rewrite Hh; assumption).
          * rewrite Hh in Hv. exact Hv.
          * congruence.
      - (* repeated *)
        split_and.
        assert (fwraps f = None) by (destruct (fwraps f); [discriminate | reflexivity]).
        assert (ptype_eqb (fty f) TMap = false) by (destruct (ptype_eqb (fty f) TMap); [discriminate | reflexivity]).
        destruct (decode_elem_typed f p value) as [Hv|(l & p'' & -> & Hl & Hall)]; auto; try (rewrite Hh; assumption).
        + rewrite Hh in Hv. cbn [hint_elem] in Hv. rewrite Hv. reflexivity.
        + rewrite Hh in Hl. injection Hl as <-. rewrite Hall. apply orb_true_r.
      - (* map *)
        split_and.
        assert (Et : fty f = TMap) by (apply ptype_eqb_eq; assumption).
        destruct (fits_cases _ _ Hfit) as [[E T]|[[E T]|[[E T]|[E T]]]]; rewrite Et in T; try discriminate T.
        unfold decode_value, WIRE_VARINT, WIRE_FIXED_32, WIRE_FIXED_64, WIRE_LEN_DELIM in Hd.
        rewrite E, Et in Hd. cbn [Z.eqb Pos.eqb andb orb tmem existsb ptype_eqb ptype_tag PACKED_TYPES] in Hd.
        destruct (pn (fentry f) (pbytes p)) as [e|] eqn:Em; cbn [bind] in Hd; [|discriminate]. injection Hd as <-.
        destruct (Hpn _ _ _ Em) as [Hc Ht]. rewrite Hc, Nat.eqb_refl, Ht. reflexivity.
    Qed.

    Lemma fetch_current_typed o i f o1 current :
      tobj o = true -> nth_error (cfields (get_class sc (ocls o))) i = Some f ->
      fetch_current sc o i f = (o1, current) ->
      tobj o1 = true /\ ocls o1 = ocls o /\ ta current f = true /\ current <> PPlaceholder.
    Proof.
      intros Ht Hn H. unfold fetch_current in H.
      destruct (getattr sc o i) as [o' [v|e]] eqn:Eg.
      - injection H as <- <-. destruct (getattr_typed _ _ _ _ Ht Eg) as (T1 & T2 & f0 & Hn0 & Hta & Hne).
        rewrite Hn in Hn0. injection Hn0 as <-. tauto.
      - injection H as <- <-.
        pose proof (default_typed f _ (wf_field_of sc _ i f Hwf Hn)) as Hd.
        destruct (setattr_typed o i f _ Ht Hn Hd) as [T1 T2].
        split; [exact T1|]. split; [exact T2|]. split; [exact Hd|].
        unfold default_of. destruct (fhint f) as [[]| | |]; discriminate.
    Qed.

    Lemma forallb_app' {A} (P : A -> bool) l1 l2 : forallb P l1 = true -> forallb P l2 = true -> forallb P (l1 ++ l2) = true.
    Proof. intros H1 H2. rewrite forallb_app, H1, H2. reflexivity. Qed.

    Lemma store_value_typed o i f value o' :
      tobj o = true -> nth_error (cfields (get_class sc (ocls o))) i = Some f ->
      value_fits f value = true -> store_value sc o i f value = Ok o' ->
      tobj o' = true /\ ocls o' = ocls o.
    Proof.
      intros Ht Hn Hv H. unfold store_value in H.
      destruct (fetch_current sc o i f) as [o1 current] eqn:Ef.
      destruct (fetch_current_typed _ _ _ _ _ Ht Hn Ef) as (T1 & T2 & Hc & Hne).
      pose proof (wf_field_of sc _ i f Hwf Hn) as Hw.
      pose proof (entries_agree_of sc _ i f Hea Hn) as Hag.
      rewrite <- T2 in Hn.
      unfold value_fits in Hv. unfold wf_field in Hw. unfold entry_hints_agree in Hag.
      destruct (ptype_eqb (fty f) TMap) eqn:Em.
      - (* map entry *)
        destruct (fhint f) as [p'|p'|p'|pk pv'] eqn:Hh; split_and;
          try (match goal with Hx : negb true = true |- _ => discriminate Hx end).
        { destruct (fwraps f) as [w|]; split_and.
          - assert (fty f = TMessage) by (apply ptype_eqb_eq; assumption).
            apply ptype_eqb_eq in Em. congruence.
          - match goal with Hx : negb true = true |- _ => discriminate Hx end. }
        destruct value as [| | | | | | | | | | |e]; try discriminate Hv. apply andb_true_iff in Hv as [Hce Hte].
        apply Nat.eqb_eq in Hce.
        destruct (fmap f) as [[kt vt]|] eqn:Hm; [|discriminate].
        unfold typed_attr in Hc. rewrite Hh, Hm in Hc.
        destruct current as [| | | | | | | | | |d|]; try discriminate Hc; try congruence.
        unfold entry_class_ok in *. rewrite Hm, Hh in *.
        destruct (cfields (get_class sc (fentry f))) as [|fk [|fv [|]]] eqn:Ecf; try discriminate.
        destruct (fhint fk) as [k'| | |] eqn:Hk; try discriminate.
        destruct (fhint fv) as [v'| | |] eqn:Hv'; try discriminate.
        split_and.
        repeat match goal with Hx : pyty_eqb _ _ = true |- _ => apply pyty_eqb_eq in Hx end. subst k' v'.
        repeat match goal with Hx : ptype_eqb _ _ = true |- _ => apply ptype_eqb_eq in Hx end.
        destruct (getattr sc e 0) as [e0 [k|]] eqn:Eg0; [|discriminate].
        destruct (getattr sc e 1) as [e1 [v|]] eqn:Eg1; [|discriminate].
        injection H as <-.
        destruct (getattr_typed _ _ _ _ Hte Eg0) as (_ & _ & f0 & Hn0 & Hta0 & Hne0).
        destruct (getattr_typed _ _ _ _ Hte Eg1) as (_ & _ & f1 & Hn1 & Hta1 & Hne1).
        rewrite Hce, Ecf in Hn0, Hn1. cbn in Hn0, Hn1. injection Hn0 as <-. injection Hn1 as <-.
        unfold typed_attr in Hta0, Hta1. rewrite Hk in Hta0. rewrite Hv' in Hta1.
        assert (Hk0 : tv kt pk k = true).
        { match goal with Hx : fty fk = _ |- _ => rewrite Hx in Hta0 end.
          destruct k; try exact Hta0; [exfalso; apply Hne0; reflexivity | discriminate Hta0]. }
        assert (Hv0 : tv vt pv' v = true).
        { match goal with Hx : fty fv = _ |- _ => rewrite Hx in Hta1 end.
          destruct v; try exact Hta1; [exfalso; apply Hne1; reflexivity | discriminate Hta1]. }
        rewrite <- T2. apply (set_raw_typed o1 i f); [exact T1 | exact Hn|].
        eapply ta_dict; [exact Hh | exact Hm|].
        apply (dict_set_typed (tv kt pk) (tv vt pv')); assumption.
      - destruct current as [| | | | | | | | |l| |] eqn:Ec.
        10:{ (* list: append *)
          injection H as <-. destruct (ta_list_inv _ _ Hc) as (p' & Hh & Hl).
          rewrite Hh in Hv. rewrite <- T2. apply (set_raw_typed o1 i f); [exact T1 | exact Hn|].
          apply (ta_list f p'); [exact Hh|].
          destruct value; try (apply forallb_app'; [exact Hl|]; cbn [forallb];
                               rewrite orb_false_r in Hv; rewrite Hv; reflexivity).
          cbn [typed_val] in Hv. destruct p'; cbn [orb] in Hv; apply forallb_app'; assumption. }
        all: injection H as <-; rewrite <- T2; apply (setattr_typed o1 i f); [exact T1 | exact Hn|].
        all: destruct (fhint f) as [p'|p'|p'|pk pv'] eqn:Hh.
        all: try (eapply ta_plain; eassumption).
        all: try (eapply ta_optional; eassumption).
        all: try (unfold typed_attr in Hc; try rewrite Hh in Hc;
             first [discriminate Hc | exfalso; apply Hne; reflexivity]).
        all: split_and; match goal with Hx : false = true |- _ => discriminate Hx end.
    Qed.

    Lemma add_unknown_typed o bs : tobj (add_unknown o bs) = tobj o /\ ocls (add_unknown o bs) = ocls o.
    Proof. destruct o; split; reflexivity. Qed.

    Lemma apply_field_typed o p o' :
      tobj o = true -> (pwt p = 0 -> 0 <= pint p < 2 ^ 70) ->
      apply_field sc pn (get_class sc (ocls o)) o p = Ok o' ->
      tobj o' = true /\ ocls o' = ocls o.
    Proof.
      intros Ht Hint H. unfold apply_field in H.
      destruct (field_by_number (get_class sc (ocls o)) (pnum p)) as [[i f]|] eqn:Ef.
      2:{ injection H as <-. destruct (add_unknown_typed o (praw p)) as [-> ->]. tauto. }
      destruct (wire_type_fits f (pwt p)) eqn:Efit; cbn [negb] in H.
      2:{ injection H as <-. destruct (add_unknown_typed o (praw p)) as [-> ->]. tauto. }
      apply field_by_number_nth in Ef as [Hn _].
      destruct (decode_value sc pn f p) as [value|] eqn:Ed; cbn [bind] in H; [|discriminate].
      eapply store_value_typed; try eassumption.
      eapply decode_value_typed; try eassumption. eapply wf_field_of; eassumption.
    Qed.

    Lemma loop_r_typed fuel' size c : forall n o s read o' s',
      tobj o = true -> ocls o = c ->
      loop_r sc pn (load_field fuel') size (get_class sc c) n o s read = Ok (o', s') ->
      tobj o' = true /\ ocls o' = c.
    Proof.
      induction n as [|n IH]; intros o s read o' s' Ht Hc H; [discriminate|]. cbn [loop_r] in H.
      destruct s as [|b s0].
      { destruct size as [sz|]; [destruct (read <? sz); [discriminate|]|]; injection H as <- <-; tauto. }
      destruct (load_varint (b :: s0)) as [[[nw r] s1]|]; cbn [bind] in H; [|discriminate].
      destruct (load_field fuel' s1 nw r) as [[p s2]|] eqn:Ef; cbn [bind] in H; [|discriminate].
      destruct (account size read p) as [read'|]; cbn [bind] in H; [|discriminate].
      destruct (apply_field sc pn (get_class sc c) o p) as [o1|] eqn:Ea; cbn [bind] in H; [|discriminate].
      rewrite <- Hc in Ea. apply apply_field_typed in Ea; [|exact Ht|].
      - destruct Ea as [T1 T2]. destruct (finished size read').
        + injection H as <- <-. split; [exact T1 | congruence].
        + eapply IH; [exact T1 | congruence | exact H].
      - apply load_field_sound in Ef. destruct Ef as (pl & _ & _ & _ & _ & Hw & _ & _ & Hv & _).
        intros E0. rewrite Hw in E0. eapply VarintRep_range, Hv, E0.
    Qed.
  End Decode.

  Lemma mark_on_wire_typed o : tobj (mark_on_wire o) = tobj o /\ ocls (mark_on_wire o) = ocls o.
  Proof. destruct o; split; reflexivity. Qed.

  Theorem load_r_typed fuel : forall o s size o' s',
    tobj o = true -> load_r fuel sc o s size = Ok (o', s') -> tobj o' = true /\ ocls o' = ocls o.
  Proof.
    induction fuel as [|fuel IH]; intros o s size o' s' Ht H; [discriminate|]. cbn [load_r] in H.
    destruct (read_size size s) as [[size' s1]|]; cbn [bind] in H; [|discriminate].
    destruct (mark_on_wire_typed o) as [M1 M2].
    assert (G : forall o' s', loop_r sc (fun c' bs => do (o', _) <- load_r fuel sc (new sc c') bs None; Ok o')
                     (load_field fuel) size' (get_class sc (ocls (mark_on_wire o))) (S (length s1))
                     (mark_on_wire o) s1 0 = Ok (o', s') -> tobj o' = true /\ ocls o' = ocls o).
    { intros o2 s2 HL. rewrite <- M2. eapply loop_r_typed; [| |reflexivity|exact HL].
      - intros c' bs m Hm. cbv beta in Hm.
        destruct (load_r fuel sc (new sc c') bs None) as [[m' rest]|] eqn:El; cbn [bind] in Hm; [|discriminate Hm].
        injection Hm as <-. destruct (IH _ _ _ _ _ (new_typed c') El) as [T1 T2]. split; [exact T2 | exact T1].
      - rewrite M1. exact Ht. }
    destruct size' as [[| |]|]; try exact (G _ _ H).
    injection H as <- <-. rewrite M1, M2. tauto.
  Qed.

  Theorem parse_typed c bs m : parse sc c bs = Ok m -> tobj m = true /\ ocls m = c.
  Proof.
    rewrite parse_eq. unfold parse_r. intros H.
    destruct (load_r _ sc (new sc c) bs None) as [[m' rest]|] eqn:El; cbn [bind] in H; [|discriminate].
    injection H as <-. apply (load_r_typed _ _ _ _ _ _ (new_typed c) El).
  Qed.

  Theorem parse_into_typed o bs m : tobj o = true -> parse_into sc o bs = Ok m -> tobj m = true /\ ocls m = ocls o.
  Proof.
    rewrite parse_into_eq. intros Ht H.
    destruct (load_r _ sc o bs None) as [[m' rest]|] eqn:El; cbn [bind] in H; [|discriminate].
    injection H as <-. apply (load_r_typed _ _ _ _ _ _ Ht El).
  Qed.
End Typed.
