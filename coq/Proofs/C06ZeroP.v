(* C06: an explicit-presence scalar field set to the ZERO value of its type contributes exactly one complete
   record of the grammar: tag(number, wire type) followed by the zero payload. *)
From BP Require Import Base.Prelude Model.Types Model.Varint Model.Scalar Model.Float.
From BP Require Import Model.Object Model.Eq Model.TimeCore Model.Encode Model.WellFormed Model.C06Obs.
From BP Require Import gen.Tables Spec.Varint Spec.C06Wire Spec.C06Zero Proofs.BytesP Proofs.VarintP Proofs.C06EncP.

Ltac close_tables :=
  repeat match goal with
         | |- context [tmem ?t ?l] => let b := eval vm_compute in (tmem t l) in change (tmem t l) with b
         | |- context [ptype_eqb ?a ?b] => let r := eval vm_compute in (ptype_eqb a b) in change (ptype_eqb a b) with r
         end.

Lemma serialize_zero msg num t x wt after rb :
  0 <= num -> zero_record t x = Some (wt, after, rb) ->
  serialize_with msg num t x true None = (do key <- encode_varint (num * 8 + wt); Ok (key ++ after)).
Proof.
  intros Hn H. destruct t, x; cbn in H; try discriminate.
  all: try (destruct z; try discriminate).
  all: try (destruct b; try discriminate).
  all: try (destruct utf8; try discriminate).
  all: try (destruct bits; try discriminate).
  all: injection H as <- <- <-.
  all: unfold serialize_with, preprocess_with; close_tables; cbv beta iota.
  all: match goal with |- (do value <- ?V; _) = _ => let r := eval vm_compute in V in change V with r end; cbn [bind].
  all: rewrite ?tag_value by lia. all: rewrite ?shiftl_3.
  all: rewrite ?Z.add_0_r.
  all: try reflexivity.
  all: change (Zlength (@nil byte)) with 0; change (0 =? 0) with true; cbn [negb orb].
  all: change (encode_varint 0) with (Ok (A:=list byte) [x00]).
  all: destruct (encode_varint (num * 8 + 2)); cbn [bind]; [rewrite app_nil_r|]; reflexivity.
Qed.

Lemma zero_after_record num wt after rb t x key :
  1 <= num < 2 ^ 29 -> zero_record t x = Some (wt, after, rb) ->
  encode_varint (num * 8 + wt) = Ok key ->
  is_record (mkR num wt 0 rb) (key ++ after) /\ wt = base_wire_type t.
Proof.
  intros Hn H E.
  assert (V0 : VarintRep 0 [x00]) by (repeat split; cbn; lia).
  destruct t, x; cbn in H; try discriminate.
  all: try (destruct z; try discriminate).
  all: try (destruct b; try discriminate).
  all: try (destruct utf8; try discriminate).
  all: try (destruct bits; try discriminate).
  all: injection H as <- <- <-; (split; [|reflexivity]).
  all: match goal with Hn' : 1 <= ?n < _, E' : encode_varint (?n * 8 + ?w) = Ok ?k |- _ =>
         pose proof (encode_tag n w k Hn' ltac:(lia) E') as Rk end.
  all: try (apply IR_varint; [lia|exact Rk|exact V0]).
  all: try (apply IR_fixed32; [lia|exact Rk|reflexivity]).
  all: try (apply IR_fixed64; [lia|exact Rk|reflexivity]).
  all: change (key ++ [x00]) with (key ++ [x00] ++ []); apply IR_len; [lia|exact Rk|exact V0].
Qed.

(* the contribution of an explicit-presence scalar field that holds the zero of its type is exactly one record *)
Theorem explicit_zero_record sc cur i x f h wt after rb :
  1 <= fnum f < 2 ^ 29 -> fwraps f = None ->
  (fgroup f = None /\ fopt f = true) \/ group_selects cur f i = Some true ->
  zero_record (fty f) x = Some (wt, after, rb) ->
  here sc cur i x f = Ok h ->
  is_record (mkR (fnum f) wt 0 rb) h /\ wt = base_wire_type (fty f).
Proof.
  intros Hn Hw Hk Hz H.
  assert (Hx : x <> PNone /\ x <> PPlaceholder /\ (forall l, x <> PList l) /\ (forall d, x <> PDict d) /\ (forall o, x <> PMsg o)).
  { destruct (fty f), x; cbn in Hz; try discriminate; repeat split; intros; discriminate. }
  destruct Hx as (X1 & X2 & X3 & X4 & X5).
  assert (E : exists sel, emit_field (enc_obj sc) sc f sel x = Ok h /\ is_some (fgroup f) || fopt f = true).
  { unfold here in H. destruct Hk as [[G O]|Hs].
    - unfold group_selects in H. rewrite G in H. exists None. split; [destruct x; try exact H; congruence|].
      rewrite O. apply orb_true_r.
    - rewrite Hs in H. exists (Some true). split; [destruct x; try exact H; congruence|].
      unfold group_selects in Hs. destruct (fgroup f); [reflexivity|discriminate]. }
  destruct E as (sel & E & Hsel). unfold emit_field in E. rewrite Hsel in E. cbn [orb negb] in E.
  rewrite andb_false_r in E. rewrite orb_true_r in E.
  assert (S : serialize_with (msg_bytes (enc_obj sc)) (fnum f) (fty f) x true (fwraps f) = Ok h).
  { destruct x; try exact E; exfalso; [eapply X3|eapply X4]; reflexivity. }
  rewrite Hw in S. rewrite (serialize_zero (msg_bytes (enc_obj sc)) (fnum f) (fty f) x wt after rb ltac:(lia) Hz) in S.
  destruct (encode_varint (fnum f * 8 + wt)) as [key|] eqn:Ek; cbn [bind] in S; [|discriminate].
  injection S as <-. eapply zero_after_record; eassumption.
Qed.
