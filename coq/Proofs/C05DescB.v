(* C05, descriptor side, part B (fields): the runtime field descriptor [tr_field] builds for a field of the class table
   of D and the JSON field [jfield_of_desc] reads off the descriptor agree: attribute name = safe_snake_case(proto name),
   kind (scalars by descriptor.proto's type number, wrappers / Timestamp / Duration by name, messages / enums by position),
   cardinality, oneof id; references to messages stay inside the JSON classes. *)
From BP Require Import Base.Prelude Model.Types Spec.Descriptor Model.Object Model.WellFormed.
From BP Require Import Model.C03Bridge Model.C05Desc Proofs.PluginP.
From BP Require Import Proofs.C03BridgeA Proofs.C03BridgeB Proofs.C03BridgeC Proofs.C03BridgeD Proofs.C03BridgeE Proofs.C05DescA.
From BP Require Model.Json Model.Casing.
From BP Require Import Proofs.C05Casing Proofs.C05MsgDef.
From Coq Require Import Lia.

(* ---- reflexivity of the boolean equalities ---- *)
Lemma skind_eqb_refl k : skind_eqb k k = true.
Proof. unfold skind_eqb. apply Z.eqb_refl. Qed.
Lemma jkind_eqb_refl k : jkind_eqb k k = true.
Proof. destruct k; cbn [jkind_eqb]; auto using skind_eqb_refl, Nat.eqb_refl. Qed.
Lemma jcard_eqb_refl c : jcard_eqb c c = true.
Proof. destruct c; cbn [jcard_eqb]; auto using skind_eqb_refl. Qed.
Lemma opt_nat_eqb_refl' o : opt_nat_eqb o o = true.
Proof. destruct o; cbn [opt_nat_eqb]; auto using Nat.eqb_refl. Qed.

(* ---- finite facts about the kind tables ---- *)
Lemma scalar_kind_facts t kn py : scalar_kind t = Some (kn, py) ->
  exists k q, skind_of_dtype t = Some k /\ pyty_of [] py = Some q /\ kind_of_elem NB (ptype_or_bad kn) q = JM.JScalar k
    /\ explicit_py q = false /\ sk (ptype_or_bad kn) = k /\ (forall c, q <> PyMsg c) /\ (t =? T_MESSAGE) = false.
Proof.
  unfold scalar_kind. intros H.
  repeat match type of H with
         | context [if ?a =? ?c then _ else _] =>
             destruct (Z.eqb_spec a c) as [-> | _];
             [cbv in H; injection H as <- <-; do 2 eexists; repeat split; try reflexivity; intros cc; discriminate|]
         end.
  discriminate.
Qed.

Lemma scalar_kind_none t : scalar_kind t = None -> skind_of_dtype t = None.
Proof.
  intros H. unfold skind_of_dtype.
  repeat match goal with
         | |- context [if ?a =? ?cc then _ else _] =>
             destruct (Z.eqb_spec a cc) as [E | _]; [exfalso; rewrite E in H; cbv in H; discriminate|]
         end.
  reflexivity.
Qed.

Lemma wrapper_skinds_agree tn :
  lookup tn wrapper_skinds = option_map (fun kv => sk (ptype_or_bad (fst kv))) (lookup tn wkt_wrappers).
Proof. apply lookups_agree. repeat (constructor; [vm_compute; reflexivity|]). constructor. Qed.

Lemma wrapper_values_leaf :
  Forall (fun e => exists q, pyty_of [] (snd (snd e)) = Some q /\ forall c, q <> PyMsg c) wkt_wrappers.
Proof. repeat (constructor; [eexists; split; [reflexivity | intros c; discriminate]|]). constructor. Qed.

Lemma wrapper_value_leaf R tn wk py : lookup tn wkt_wrappers = Some (wk, py) -> forall c, pyty_or_bad R py <> PyMsg c.
Proof.
  intros H. apply lookup_some_in in H. pose proof wrapper_values_leaf as W. rewrite Forall_forall in W.
  destruct (W _ H) as (q & Eq & Hq). cbn [snd] in Eq. unfold pyty_or_bad. rewrite (pyty_of_closed R py q Eq). exact Hq.
Qed.

Lemma message_kind_names : sk (ptype_or_bad s_message) = JM.KInt32 /\ sk (ptype_or_bad s_enum) = JM.KInt32.
Proof. split; vm_compute; reflexivity. Qed.

Lemma hint_of_leaf R vt : match vt with PyOptional _ | PyList _ | PyDict _ _ => False | _ => True end ->
  hint_of R vt = HPlain (pyty_or_bad R vt).
Proof. destruct vt; intros H; try contradiction; reflexivity. Qed.

Section Fields.
  Variable class_name : str -> str.
  Variable enum_member_name : str -> str -> str.
  Variable D : descriptor.
  Variable t : class_table.
  Let field_name := Casing.safe_snake_case.
  Hypothesis Ht : class_table_of field_name class_name enum_member_name D = Some t.
  Hypothesis Hcn : class_nodup class_name D = true.
  Hypothesis Hwf : protoc_wf D = true.
  Hypothesis Hbr : bridge_ok D = true.

  Let R := class_rows t.
  Let nj := length (gen_msgs D).

  (* the type of one value of a field: the runtime's kind is the descriptor's *)
  Lemma value_kind pkg' p' m' y kn vt :
    field_wf D pkg' p' m' y = true -> vref_ok D y = true ->
    kind_name (fd_type y) = Some kn -> spec_value_type class_name D y = Some vt ->
    sk (ptype_or_bad kn) = match skind_of_dtype (fd_type y) with Some s => s | None => JM.KInt32 end
    /\ ((is_wrapper_name (fd_type_name y) = false /\ spec_wraps y = None
         /\ match vt with PyOptional _ | PyList _ | PyDict _ _ => False | _ => True end
         /\ kind_of_elem NB (ptype_or_bad kn) (pyty_or_bad R vt) = desc_kind D y
         /\ explicit_py (pyty_or_bad R vt) = (fd_type y =? T_MESSAGE)
         /\ (forall c, pyty_or_bad R vt = PyMsg c -> (NB <= c /\ c - NB < nj)%nat))
        \/ (exists wk py, lookup (fd_type_name y) wkt_wrappers = Some (wk, py) /\ vt = PyOptional py
              /\ spec_wraps y = Some wk /\ JM.JWrapper (sk (ptype_or_bad wk)) = desc_kind D y
              /\ (fd_type y =? T_MESSAGE) = true)).
  Proof.
    intros Hfw Hr Hk Hv. unfold field_wf in Hfw. apply andb_prop in Hfw as [Hfw _]. apply andb_prop in Hfw as [Hty _].
    unfold vref_ok in Hr. unfold kind_name in Hk. unfold spec_value_type in Hv. unfold spec_wraps, desc_kind.
    destruct (scalar_kind (fd_type y)) as [[kn' py]|] eqn:Es.
    - injection Hk as <-. injection Hv as <-.
      assert (Etn : fd_type_name y = []) by (destruct (fd_type_name y); [reflexivity | discriminate]).
      destruct (scalar_kind_facts _ _ _ Es) as (k & q & Ek & Eq & Ekind & Eex & Esk & Hnm & Em).
      rewrite Ek, Em. split; [exact Esk|]. left. rewrite Etn. unfold pyty_or_bad. rewrite (pyty_of_closed R py q Eq).
      split; [reflexivity|]. split; [reflexivity|]. split; [exact (proj2 (scalar_kind_leaf _ _ _ Es))|].
      split; [exact Ekind|]. split; [exact Eex|]. intros c Ec. exfalso. exact (Hnm c Ec).
    - rewrite (scalar_kind_none _ Es).
      destruct ((fd_type y =? T_MESSAGE) || (fd_type y =? T_ENUM)) eqn:Ec; [|discriminate].
      rewrite wrapper_skinds_agree.
      destruct (lookup (fd_type_name y) wkt_wrappers) as [[wk py]|] eqn:El; cbn [option_map fst].
      + (* a wrapper *)
        assert (Ew : is_wkt_name (fd_type_name y) = true) by (unfold is_wkt_name, is_wrapper_name; now rewrite El).
        rewrite Ew in Hr. rewrite Hr in Hk. injection Hk as <-. injection Hv as <-.
        split; [exact (proj1 message_kind_names)|]. right. exists wk, py. rewrite Hr. repeat split; reflexivity.
      + assert (Enw : is_wrapper_name (fd_type_name y) = false) by (unfold is_wrapper_name; now rewrite El).
        destruct (str_eqb (fd_type_name y) wkt_duration) eqn:Ed;
          [|destruct (str_eqb (fd_type_name y) wkt_timestamp) eqn:Ets].
        * assert (Ew : is_wkt_name (fd_type_name y) = true) by (unfold is_wkt_name; rewrite Ed; now rewrite orb_true_r).
          rewrite Ew in Hr. rewrite Hr in Hk. injection Hk as <-. injection Hv as <-.
          split; [exact (proj1 message_kind_names)|]. left. rewrite Hr.
          split; [assumption|]. split; [reflexivity|]. split; [exact I|]. split; [reflexivity|]. split; [reflexivity|].
          intros c Hc. discriminate Hc.
        * assert (Ew : is_wkt_name (fd_type_name y) = true) by (unfold is_wkt_name; rewrite Ets; now rewrite orb_true_r).
          rewrite Ew in Hr. rewrite Hr in Hk. injection Hk as <-. injection Hv as <-.
          split; [exact (proj1 message_kind_names)|]. left. rewrite Hr.
          split; [assumption|]. split; [reflexivity|]. split; [exact I|]. split; [reflexivity|]. split; [reflexivity|].
          intros c Hc. discriminate Hc.
        * assert (Ew : is_wkt_name (fd_type_name y) = false) by (unfold is_wkt_name; now rewrite Enw, Ed, Ets).
          rewrite Ew in Hr.
          destruct (resolve D (fd_type_name y)) as [[spkg sp sm | spkg sp se]|] eqn:Er; [| |discriminate].
          -- apply resolve_some in Er as [Hin _]. injection Hv as <-. rewrite Hty in Hk. injection Hk as <-.
             apply andb_prop in Hr as [Hr1 Hr2]. apply negb_true_iff in Hr1, Hr2. apply str_eqb_neq in Hr1.
             destruct (msg_ref_index field_name class_name enum_member_name D t Ht Hcn spkg sp sm Hin Hr1 Hr2)
               as (i & Hi & Hidx & Hlt).
             fold R in Hi. cbn [sym_pkg sym_path].
             split; [exact (proj1 message_kind_names)|]. left. rewrite Hty. unfold pyty_or_bad. rewrite Hi, Hidx.
             cbn [kind_of_elem explicit_py or0].
             replace (NB + i - NB)%nat with i by lia.
             split; [assumption|]. split; [reflexivity|]. split; [exact I|]. split; [reflexivity|]. split; [reflexivity|].
             intros c Hc. injection Hc as <-. unfold nj. pose proof (eq_refl : NB = 11%nat) as HNB. rewrite HNB. lia.
          -- apply resolve_some in Er as [Hin _]. injection Hv as <-.
             assert (Em : (fd_type y =? T_MESSAGE) = false).
             { apply Z.eqb_eq in Hty. rewrite Hty. reflexivity. }
             rewrite Em, Hty in Hk. injection Hk as <-.
             apply negb_true_iff in Hr. apply str_eqb_neq in Hr.
             destruct (enum_ref_index field_name class_name enum_member_name D t Ht Hcn spkg sp se Hin Hr) as (j & Hj & Hidx).
             fold R in Hj. cbn [sym_pkg sym_path].
             split; [exact (proj2 message_kind_names)|]. left. rewrite Em. unfold pyty_or_bad. rewrite Hj, Hidx.
             cbn [kind_of_elem explicit_py or0].
             split; [assumption|]. split; [reflexivity|]. split; [exact I|]. split; [reflexivity|]. split; [reflexivity|].
          intros c Hc. discriminate Hc.
  Qed.

  (* the oneof group the table records is the descriptor's *)
  Lemma spec_field_group pkg p m x pf :
    spec_field field_name class_name D pkg p m x = Some pf -> pf_group pf = desc_group pkg p m x.
  Proof.
    unfold spec_field, desc_group. intros Hs.
    destruct (spec_map_entry pkg p m x) as [e|].
    - destruct (field_numbered 1 e) as [k|], (field_numbered 2 e) as [v|]; try discriminate.
      destruct (kind_name (fd_type k)), (kind_name (fd_type v)), (spec_value_type class_name D k),
        (spec_value_type class_name D v); try discriminate. now injection Hs as <-.
    - destruct (kind_name (fd_type x)), (spec_value_type class_name D x), (spec_group m x); try discriminate.
      now injection Hs as <-.
  Qed.

  Lemma group_names_desc pkg p m fs :
    Forall2 (fun x pf => spec_field field_name class_name D pkg p m x = Some pf) (md_fields m) fs ->
    group_names fs = desc_group_names pkg p m.
  Proof.
    intros F. unfold group_names, desc_group_names. f_equal. revert F. generalize (md_fields m).
    intros xs F. induction F as [|x pf xs fs Hs _ IH]; [reflexivity|]. cbn [flat_map].
    now rewrite (spec_field_group _ _ _ _ _ Hs), IH.
  Qed.

  (* what field_matches asks of one field, as equations *)
  Definition field_facts (pkg : str) (p : list str) (m : msg_d) (x : field_d) (f' : fdesc) : Prop :=
    fname f' = Casing.safe_snake_case (fd_name x)
    /\ kind_of NB f' = desc_kind D (value_field pkg p m x)
    /\ card_of f' = desc_card pkg p m x
    /\ fgroup f' = desc_oneof pkg p m x
    /\ (forall c, Json.hint_elem f' = PyMsg c -> (NB <= c /\ c - NB < nj)%nat).

  Lemma tr_field_facts f p m x pf k :
    In f D -> fl_package f <> google_protobuf -> In (p, m) (file_msgs f) -> md_map_entry m = false ->
    In x (md_fields m) -> spec_field field_name class_name D (fl_package f) p m x = Some pf ->
    field_facts (fl_package f) p m x (tr_field R (desc_group_names (fl_package f) p m) k pf).
  Proof.
    intros Hf Hne Hm Hme Hx Hs. set (gs := desc_group_names (fl_package f) p m).
    pose proof (bridge_msg D Hbr f p m Hf Hne Hm Hme) as B. unfold msg_bridge_ok in B. cbn [fst snd] in B.
    apply andb_prop in B as [_ B]. rewrite forallb_forall in B. specialize (B x Hx). apply andb_prop in B as [_ B].
    destruct (wf_msg_parts D _ _ _ (wf_msg D Hwf f p m Hf Hm)) as (_ & Hfw & _).
    pose proof (spec_field_group _ _ _ _ _ Hs) as Hgrp.
    unfold field_facts, value_field, desc_card, desc_oneof. unfold desc_group in Hgrp |- *. unfold spec_field in Hs.
    destruct (spec_map_entry (fl_package f) p m x) as [e|] eqn:Hsp.
    - (* a map *)
      destruct (field_numbered 1 e) as [kf|] eqn:Ek; [|discriminate].
      destruct (field_numbered 2 e) as [vf|] eqn:Ev; [|discriminate].
      unfold map_kv_ok in B. apply andb_prop in B as [B Hvw]. apply andb_prop in B as [Hkk Hvr].
      apply negb_true_iff in Hvw.
      assert (He : In e (md_nested m)).
      { unfold spec_map_entry in Hsp. destruct (fd_type x =? T_MESSAGE); [|discriminate]. now apply find_some in Hsp as [He _]. }
      pose proof (nested_in_file f p m e Hm He) as Hein.
      destruct (wf_msg_parts D _ _ _ (wf_msg D Hwf f _ e Hf Hein)) as (_ & Hefw & _).
      assert (Hkin : In kf (md_fields e)) by (unfold field_numbered in Ek; now apply find_some in Ek as [H _]).
      assert (Hvin : In vf (md_fields e)) by (unfold field_numbered in Ev; now apply find_some in Ev as [H _]).
      destruct (kind_name (fd_type kf)) as [kn|] eqn:Ekn; [|discriminate].
      destruct (kind_name (fd_type vf)) as [vn|] eqn:Evn; [|discriminate].
      destruct (spec_value_type class_name D kf) as [kt|] eqn:Ekt; [|discriminate].
      destruct (spec_value_type class_name D vf) as [vt|] eqn:Evt; [|discriminate].
      injection Hs as <-.
      destruct (key_kind_scalar _ Hkk) as (kn' & py' & Esk).
      assert (Hkr : vref_ok D kf = true) by (unfold vref_ok; now rewrite Esk).
      destruct (value_kind _ _ _ kf kn kt (Hefw kf Hkin) Hkr Ekn Ekt) as (Hksk & _).
      destruct (value_kind _ _ _ vf vn vt (Hefw vf Hvin) Hvr Evn Evt) as (_ & [(_ & _ & _ & Hvk & _ & Hvb) | (wk & py & El & _)]).
      2:{ exfalso. unfold is_wrapper_name in Hvw. rewrite El in Hvw. discriminate. }
      unfold tr_field, kind_of, card_of, elem_ptype, Json.hint_elem, key_skind.
      cbn [pf_name pf_number pf_proto_type pf_map_types pf_group pf_wraps pf_optional pf_hint
           fname fnum fty fmap fgroup fwraps fopt fhint hint_of].
      rewrite Ek, Hksk. repeat split; try reflexivity; try exact Hvk; try (apply Hvb; assumption).
    - (* not a map *)
      destruct (kind_name (fd_type x)) as [kn|] eqn:Ekn; [|discriminate].
      destruct (spec_value_type class_name D x) as [vt|] eqn:Evt; [|discriminate].
      destruct (spec_group m x) as [grp|] eqn:Eg; [|discriminate].
      injection Hs as <-. clear Hgrp. cbn [option_map].
      unfold plain_ok in B. apply andb_prop in B as [B Hrep]. apply andb_prop in B as [Hr Hwr].
      (* membership in a real oneof *)
      assert (Hgs : is_some' (match grp with Some g => index_of g gs | None => None end) = real_oneof x).
      { pose proof Eg as Eg'. unfold spec_group in Eg'. unfold real_oneof.
        destruct (fd_oneof_index x) as [i|]; [|injection Eg' as <-; reflexivity].
        destruct (fd_proto3_optional x); [injection Eg' as <-; reflexivity|].
        destruct ((0 <=? i) && (i <? Zlength (md_oneofs m))); [|discriminate]. injection Eg' as <-.
        assert (Hin : In (nth (Z.to_nat i) (md_oneofs m) []) gs).
        { unfold gs, desc_group_names. apply in_dedup. apply in_flat_map. exists x. split; [assumption|].
          unfold desc_group. rewrite Hsp, Eg. now left. }
        destruct (index_of_in _ gs Hin) as (j & -> & _). reflexivity. }
      destruct (value_kind _ _ _ x kn vt (Hfw x Hx) Hr Ekn Evt)
        as (_ & [(Hnw & Hsw & Hleaf & Hkind & Hex & Hb) | (wk & py & El & -> & Hsw & Hkind & Etm)]).
      + (* scalar / enum / message / Timestamp / Duration *)
        assert (Hel : Json.hint_elem (tr_field R gs k
                  (mkPyField (field_name (fd_name x)) (fd_number x) kn None grp (spec_wraps x) (fd_proto3_optional x)
                     (if fd_label x =? L_REPEATED then PyList vt
                      else if fd_proto3_optional x then match vt with PyOptional _ => vt | _ => PyOptional vt end
                      else vt))) = pyty_or_bad R vt).
        { unfold Json.hint_elem, tr_field. cbn [pf_hint fhint].
          destruct (fd_label x =? L_REPEATED); [reflexivity|].
          destruct (fd_proto3_optional x); [destruct vt; try contradiction; reflexivity|].
          now rewrite (hint_of_leaf R vt Hleaf). }
        split; [reflexivity|]. split; [|split; [|split]].
        * unfold kind_of, elem_ptype. rewrite Hel. unfold tr_field at 1 2 3. cbn [pf_wraps pf_map_types fwraps fmap fty pf_proto_type].
          rewrite Hsw. exact Hkind.
        * unfold card_of, tr_field. cbn [pf_hint fhint pf_group fgroup].
          destruct (fd_label x =? L_REPEATED); [reflexivity|].
          destruct (fd_proto3_optional x) eqn:Eo; [destruct vt; try contradiction; reflexivity|].
          rewrite (hint_of_leaf R vt Hleaf), Hgs, Hex. cbn [orb]. reflexivity.
        * reflexivity.
        * intros c Hc. rewrite Hel in Hc. now apply Hb.
      + (* a wrapper: singular, outside every oneof, not proto3-optional *)
        assert (Hw : is_wrapper_name (fd_type_name x) = true) by (unfold is_wrapper_name; now rewrite El).
        rewrite Hw in Hwr. cbn [negb orb] in Hwr. apply andb_prop in Hwr as [Hwr H3]. apply andb_prop in Hwr as [H1 H2].
        apply negb_true_iff in H1, H2, H3. rewrite H3 in Hgs.
        unfold tr_field, kind_of, card_of, Json.hint_elem.
        cbn [pf_name pf_number pf_proto_type pf_map_types pf_group pf_wraps pf_optional pf_hint
             fname fnum fty fmap fgroup fwraps fopt fhint].
        rewrite H1, H2, Hsw, Etm. cbn [hint_of orb]. rewrite orb_true_r.
        split; [reflexivity|]. split; [exact Hkind|]. split; [reflexivity|]. split; [reflexivity|].
        intros c Hc. exfalso. exact (wrapper_value_leaf R _ _ _ El c Hc).
  Qed.

  Lemma facts_match pkg p m x f' :
    field_facts pkg p m x f' -> json_name_safe (fd_name x) = true ->
    field_matches NB nj f' (jfield_of_desc D pkg p m x) = true.
  Proof.
    intros (Hn & Hk & Hc & Hg & Hb) Hsafe. unfold field_matches, jfield_of_desc.
    cbn [JM.jf_name JM.jf_json JM.jf_kind JM.jf_card JM.jf_oneof].
    rewrite Hn, Hsafe, Hk, Hc, Hg, jkind_eqb_refl, jcard_eqb_refl, opt_nat_eqb_refl'.
    change bytes_eqb with str_eqb. rewrite !str_eqb_refl. cbn [andb].
    destruct (Json.hint_elem f') as [| | | | | e | c | |] eqn:Eh; try reflexivity.
    destruct (Hb c eq_refl) as [H1 H2]. apply andb_true_intro. split; [now apply Nat.leb_le | now apply Nat.ltb_lt].
  Qed.

  Lemma fields_match_tr (jf : field_d -> JM.jfield) gs xs fs :
    Forall2 (fun x pf => forall k, field_matches NB nj (tr_field R gs k pf) (jf x) = true) xs fs ->
    forall k, fields_match NB nj (tr_fields R gs k fs) (map jf xs) = true.
  Proof.
    induction 1 as [|x pf xs fs H _ IH]; intros k; [reflexivity|]. cbn [tr_fields map fields_match].
    now rewrite H, IH.
  Qed.

  (* one class *)
  Theorem class_matches_tr f p m fs k :
    In f D -> fl_package f <> google_protobuf -> In (p, m) (file_msgs f) -> md_map_entry m = false ->
    Forall2 (fun x pf => spec_field field_name class_name D (fl_package f) p m x = Some pf) (md_fields m) fs ->
    msg_json_names_ok m = true ->
    class_matches NB nj (cfields (tr_class R k fs)) (jclass_of_desc D (fl_package f, (p, m))) = true.
  Proof.
    intros Hf Hne Hm Hme F Hnames. unfold msg_json_names_ok in Hnames. apply andb_prop in Hnames as [Hsafe Hnd].
    rewrite forallb_forall in Hsafe.
    unfold class_matches, tr_class, jclass_of_desc. cbn [cfields fst snd]. apply andb_true_intro. split.
    - rewrite (group_names_desc _ _ _ _ F). apply fields_match_tr.
      eapply Forall2_impl; [|exact (Forall2_with_in_r _ _ _ F)]. cbn beta. intros x pf (Hs & Hx & _) k'.
      apply facts_match; [|now apply Hsafe]. now apply (tr_field_facts f p m x pf k').
    - rewrite map_map. cbn [JM.jf_json jfield_of_desc]. exact Hnd.
  Qed.
End Fields.
