(* C07: the oneof invariant and its preservation by the object-level operations of
   Model/Object.v and Model/History.v (constructor, getattr, setattr, copy, deepcopy,
   observers, nested assignment / read).  The decoder is in C07LoadP.v. *)
From Coq Require Import ZArith List Bool Lia Arith.
From BP Require Import Base.Prelude Model.Types Model.Object Model.Eq Model.Encode Model.Decode.
From BP Require Import Model.History Model.C07Ops.
Import ListNotations.

(* ------------------------------------------------------------------------------------ *)
(* list helpers *)
Lemma length_set_nth {A} (i : nat) (x : A) l : length (set_nth i x l) = length l.
Proof. revert i; induction l as [|y l IH]; intros [|i]; cbn [set_nth length]; auto. Qed.

Lemma nth_set_nth_eq {A} (i : nat) (x d : A) l : (i < length l)%nat -> nth i (set_nth i x l) d = x.
Proof.
  revert i; induction l as [|y l IH]; intros [|i] H; cbn [set_nth nth length] in *; try lia; auto.
  apply IH; lia.
Qed.

Lemma nth_set_nth_neq {A} (i j : nat) (x d : A) l : i <> j -> nth i (set_nth j x l) d = nth i l d.
Proof.
  revert i j; induction l as [|y l IH]; intros [|i] [|j] H; cbn [set_nth nth]; auto; try lia.
Qed.

Lemma set_nth_oob {A} (i : nat) (x : A) l : (length l <= i)%nat -> set_nth i x l = l.
Proof.
  revert i; induction l as [|y l IH]; intros [|i] H; cbn [set_nth length] in *; auto; try lia.
  f_equal. apply IH. lia.
Qed.

Lemma nth_repeat_none {A} (n g : nat) : nth g (repeat (@None A) n) None = None.
Proof. revert g; induction n as [|n IH]; intros [|g]; cbn [repeat nth]; auto. Qed.

Lemma nth_map_error {A B} (F : A -> B) l i x d : nth_error l i = Some x -> nth i (map F l) d = F x.
Proof.
  revert i; induction l as [|y l IH]; intros [|i] H; cbn [nth_error map nth] in *; try discriminate.
  - injection H as ->. reflexivity.
  - auto.
Qed.

Lemma nth_error_lt {A} (l : list A) i x : nth_error l i = Some x -> (i < length l)%nat.
Proof. intros H. apply nth_error_Some. congruence. Qed.

Lemma opt_nat_eqb_refl a : opt_nat_eqb a a = true.
Proof. destruct a; cbn [opt_nat_eqb]; auto using Nat.eqb_refl. Qed.

Lemma opt_nat_eqb_eq a b : opt_nat_eqb a b = true <-> a = b.
Proof.
  destruct a, b; cbn [opt_nat_eqb]; split; intros H; try discriminate; auto.
  - apply Nat.eqb_eq in H. congruence.
  - injection H as ->. apply Nat.eqb_refl.
Qed.

(* ------------------------------------------------------------------------------------ *)
(* the invariant *)

Definition cfs (sc : schema) (o : obj) : list fdesc := cfields (get_class sc (ocls o)).

(* field index i is a member of group g of class c *)
Definition member (sc : schema) (c : nat) (g i : nat) : Prop :=
  exists f, nth_error (cfields (get_class sc c)) i = Some f /\ fgroup f = Some g.

(* The invariant of C07, in observable terms: _group_current has one entry per group (and the raw
   attributes one per field); for every group g
     which_one_of = None    every member of g raises AttributeError when read and its raw attribute is
                            the sentinel (PLACEHOLDER; None for a proto3-optional field)
     which_one_of = Some i  i is a member of g, reading it succeeds, reading any OTHER member raises *)
Definition Inv (sc : schema) (o : obj) : Prop :=
  length (oraw o) = length (cfs sc o) /\
  length (ocur o) = cngroups (get_class sc (ocls o)) /\
  forall g, (g < cngroups (get_class sc (ocls o)))%nat ->
    match which_one_of o g with
    | None =>
        forall i f, nth_error (cfs sc o) i = Some f -> fgroup f = Some g ->
          read sc o i = Err EAttribute /\ is_sentinel f (nth i (oraw o) PPlaceholder) = true
    | Some i =>
        member sc (ocls o) g i /\
        (exists v, read sc o i = Ok v) /\
        forall j, j <> i -> member sc (ocls o) g j -> read sc o j = Err EAttribute
    end.

(* the part of it that is state (the observable part follows from how __getattribute__ reads
   _group_current) *)
Definition InvS (sc : schema) (o : obj) : Prop :=
  length (oraw o) = length (cfs sc o) /\
  length (ocur o) = cngroups (get_class sc (ocls o)) /\
  (forall g i, nth g (ocur o) None = Some i -> member sc (ocls o) g i) /\
  (forall g i f, (g < length (ocur o))%nat -> nth g (ocur o) None = None ->
      nth_error (cfs sc o) i = Some f -> fgroup f = Some g ->
      is_sentinel f (nth i (oraw o) PPlaceholder) = true).

Lemma read_member sc c raw sow unk cur i f g :
  nth_error (cfields (get_class sc c)) i = Some f -> fgroup f = Some g ->
  read sc (Obj c raw sow unk cur) i =
    if opt_nat_eqb (nth g cur None) (Some i)
    then Ok (match nth i raw PPlaceholder with PPlaceholder => default_of sc f | v => v end)
    else Err EAttribute.
Proof.
  intros Hf Hg. unfold read, getattr. rewrite Hf. unfold group_selects. rewrite Hg.
  destruct (opt_nat_eqb (nth g cur None) (Some i)); [|reflexivity].
  destruct (nth i raw PPlaceholder); reflexivity.
Qed.

Lemma Inv_of_InvS sc o : InvS sc o -> Inv sc o.
Proof.
  destruct o as [c raw sow unk cur]. unfold InvS, Inv, cfs, which_one_of. cbn [oraw ocur ocls].
  intros (Hr & Hc & Hs & Hn). split; [exact Hr|]. split; [exact Hc|]. intros g Hg.
  destruct (nth g cur None) as [i|] eqn:E.
  - pose proof (Hs g i E) as Hm. split; [exact Hm|]. destruct Hm as (f & Hf & Hfg). split.
    + rewrite (read_member _ _ _ _ _ _ _ _ _ Hf Hfg), E. cbn [opt_nat_eqb]. rewrite Nat.eqb_refl. eauto.
    + intros j Hj (f' & Hf' & Hfg'). rewrite (read_member _ _ _ _ _ _ _ _ _ Hf' Hfg'), E. cbn [opt_nat_eqb].
      destruct (Nat.eqb i j) eqn:Eij; [apply Nat.eqb_eq in Eij; congruence | reflexivity].
  - intros i f Hf Hfg. split.
    + rewrite (read_member _ _ _ _ _ _ _ _ _ Hf Hfg), E. reflexivity.
    + apply (Hn g i f); auto. lia.
Qed.

Lemma InvS_of_Inv sc o : Inv sc o -> InvS sc o.
Proof.
  destruct o as [c raw sow unk cur]. unfold InvS, Inv, cfs, which_one_of. cbn [oraw ocur ocls].
  intros (Hr & Hc & H). split; [exact Hr|]. split; [exact Hc|]. split.
  - intros g i E. destruct (Nat.lt_ge_cases g (length cur)) as [Hl|Hl].
    + specialize (H g ltac:(lia)). rewrite E in H. tauto.
    + rewrite nth_overflow in E by lia. discriminate.
  - intros g i f Hl E Hf Hfg. specialize (H g ltac:(lia)). rewrite E in H. apply (H i f Hf Hfg).
Qed.

(* ------------------------------------------------------------------------------------ *)
(* a change of raw attributes that leaves the unreadable members alone preserves the invariant *)
Lemma InvS_raw_change sc c raw raw' sow sow' unk unk' cur :
  InvS sc (Obj c raw sow unk cur) ->
  length raw' = length raw ->
  (forall k f, nth_error (cfields (get_class sc c)) k = Some f -> group_selects cur f k = Some false ->
               nth k raw' PPlaceholder = nth k raw PPlaceholder) ->
  InvS sc (Obj c raw' sow' unk' cur).
Proof.
  unfold InvS, cfs. cbn [oraw ocur ocls]. intros (Hr & Hc & Hs & Hn) Hl Hk.
  repeat split; auto; try congruence.
  intros g i f Hg E Hf Hfg. rewrite (Hk i f Hf); [eauto|].
  unfold group_selects. rewrite Hfg, E. reflexivity.
Qed.

Lemma InvS_flags sc c raw sow sow' unk unk' cur :
  InvS sc (Obj c raw sow unk cur) -> InvS sc (Obj c raw sow' unk' cur).
Proof. intros H. eapply InvS_raw_change; eauto. Qed.

(* ------------------------------------------------------------------------------------ *)
(* Cls() *)
Lemma InvS_new sc c : InvS sc (new sc c).
Proof.
  unfold InvS, new, cfs. cbn [oraw ocur ocls]. repeat split.
  - apply map_length.
  - apply repeat_length.
  - intros g i E. rewrite nth_repeat_none in E. discriminate.
  - intros g i f _ _ Hf _. rewrite (nth_map_error _ _ _ _ _ Hf). unfold is_sentinel.
    destruct (fopt f) eqn:Eo; rewrite ?Eo; reflexivity.
Qed.

(* ------------------------------------------------------------------------------------ *)
(* __post_init__: the selection is derived from the raw attributes *)
Fixpoint pi_go (j : nat) (fs : list fdesc) (raw : list pv) (cur : list (option nat)) : list (option nat) :=
  match fs, raw with
  | f :: fs', v :: raw' =>
      let cur' := match fgroup f with
                  | Some g => if is_sentinel f v then cur else set_nth g (Some j) cur
                  | None => cur
                  end in
      pi_go (S j) fs' raw' cur'
  | _, _ => cur
  end.

Lemma post_init_cur sc c raw :
  ocur (post_init sc c raw) =
  pi_go 0 (cfields (get_class sc c)) raw (repeat None (cngroups (get_class sc c))).
Proof. reflexivity. Qed.

Lemma post_init_shape sc c raw :
  ocls (post_init sc c raw) = c /\ oraw (post_init sc c raw) = raw /\ ounk (post_init sc c raw) = [].
Proof. repeat split. Qed.

Lemma pi_go_length fs : forall j raw cur, length (pi_go j fs raw cur) = length cur.
Proof.
  induction fs as [|f fs IH]; intros j raw cur; [reflexivity|].
  destruct raw as [|v raw]; [reflexivity|]. cbn [pi_go]. rewrite IH.
  destruct (fgroup f); [|reflexivity]. destruct (is_sentinel f v); [reflexivity|]. apply length_set_nth.
Qed.

(* a selection found at the end was there before or was made for a member of the group *)
Lemma pi_go_some fs : forall j raw cur g i,
  nth g (pi_go j fs raw cur) None = Some i ->
  nth g cur None = Some i \/
  exists k f, nth_error fs k = Some f /\ i = (j + k)%nat /\ fgroup f = Some g /\ (k < length raw)%nat.
Proof.
  induction fs as [|f fs IH]; intros j raw cur g i H; [left; exact H|].
  destruct raw as [|v raw]; [left; exact H|]. cbn [pi_go] in H.
  apply IH in H. destruct H as [H | (k & f' & Hk & -> & Hg & Hl)].
  - destruct (fgroup f) as [g'|] eqn:Eg; [|left; exact H].
    destruct (is_sentinel f v); [left; exact H|].
    destruct (Nat.eq_dec g g') as [->|Hne].
    + destruct (Nat.lt_ge_cases g' (length cur)) as [Hl|Hl].
      * rewrite nth_set_nth_eq in H by exact Hl. injection H as <-.
        right. exists 0%nat, f. cbn [nth_error length]. repeat split; auto; lia.
      * rewrite set_nth_oob in H by exact Hl. left; exact H.
    + rewrite nth_set_nth_neq in H by exact Hne. left; exact H.
  - right. exists (S k), f'. cbn [nth_error length]. repeat split; auto; lia.
Qed.

(* once selected, a group stays selected *)
Lemma pi_go_keeps fs : forall j raw cur g,
  nth g cur None <> None -> nth g (pi_go j fs raw cur) None <> None.
Proof.
  induction fs as [|f fs IH]; intros j raw cur g H; [exact H|].
  destruct raw as [|v raw]; [exact H|]. cbn [pi_go]. apply IH.
  destruct (fgroup f) as [g'|]; [|exact H]. destruct (is_sentinel f v); [exact H|].
  destruct (Nat.eq_dec g g') as [->|Hne].
  - destruct (Nat.lt_ge_cases g' (length cur)) as [Hl|Hl].
    + rewrite nth_set_nth_eq by exact Hl. discriminate.
    + rewrite set_nth_oob by exact Hl. exact H.
  - rewrite nth_set_nth_neq by exact Hne. exact H.
Qed.

(* a group that ends unselected had only sentinels *)
Lemma pi_go_none fs : forall j raw cur g,
  (g < length cur)%nat -> nth g (pi_go j fs raw cur) None = None ->
  forall k f, nth_error fs k = Some f -> (k < length raw)%nat -> fgroup f = Some g ->
              is_sentinel f (nth k raw PPlaceholder) = true.
Proof.
  induction fs as [|f fs IH]; intros j raw cur g Hg H k f' Hk Hl Hfg; [destruct k; discriminate|].
  destruct raw as [|v raw]; [cbn [length] in Hl; lia|]. cbn [pi_go] in H.
  destruct k as [|k]; cbn [nth_error nth length] in *.
  - injection Hk as ->. rewrite Hfg in H.
    destruct (is_sentinel f' v) eqn:Es; [reflexivity|]. exfalso.
    revert H. apply pi_go_keeps. rewrite nth_set_nth_eq by exact Hg. discriminate.
  - assert (Hg' : (g < length (match fgroup f with
                               | Some g0 => if is_sentinel f v then cur else set_nth g0 (Some j) cur
                               | None => cur end))%nat).
    { destruct (fgroup f); [|exact Hg]. destruct (is_sentinel f v); [exact Hg|]. rewrite length_set_nth. exact Hg. }
    apply (IH (S j) raw _ g Hg' H k f' Hk); [lia | exact Hfg].
Qed.

Lemma InvS_post_init sc c raw :
  length raw = length (cfields (get_class sc c)) -> InvS sc (post_init sc c raw).
Proof.
  intros Hl. unfold InvS, cfs. destruct (post_init_shape sc c raw) as (Ec & Er & _).
  rewrite Ec, Er, post_init_cur, pi_go_length, repeat_length. repeat split; auto.
  - intros g i H. apply pi_go_some in H. destruct H as [H | (k & f & Hk & -> & Hg & _)].
    + rewrite nth_repeat_none in H. discriminate.
    + exists f. auto.
  - intros g i f Hg H Hf Hfg.
    eapply pi_go_none; eauto.
    + rewrite repeat_length. exact Hg.
    + rewrite Hl. eapply nth_error_lt; eauto.
Qed.

(* Cls(kwargs) *)
Lemma construct_raw_length sc c kw :
  length (fold_left (fun r '(i, v) => set_nth i (if fieldless sc v then mark_sow v else v) r) kw (oraw (new sc c)))
  = length (cfields (get_class sc c)).
Proof.
  assert (H : forall r, length (fold_left (fun r '(i, v) => set_nth i (if fieldless sc v then mark_sow v else v) r) kw r) = length r).
  { induction kw as [|[i v] kw IH]; intros r; cbn [fold_left]; [reflexivity|]. rewrite IH. apply length_set_nth. }
  rewrite H. unfold new. cbn [oraw]. apply map_length.
Qed.

Lemma InvS_construct sc c kw : InvS sc (construct sc c kw).
Proof. unfold construct. apply InvS_post_init. apply construct_raw_length. Qed.

(* ------------------------------------------------------------------------------------ *)
(* __setattr__ *)
Definition reset_go (g i : nat) : nat -> list fdesc -> list pv -> list pv :=
  fix go (j : nat) (fs : list fdesc) (raw : list pv) : list pv :=
    match fs, raw with
    | f' :: fs', x :: raw' =>
        (if opt_nat_eqb (fgroup f') (Some g) && negb (Nat.eqb j i) then PPlaceholder else x)
        :: go (S j) fs' raw'
    | _, _ => raw
    end.

Lemma setattr_unfold sc c raw sow unk cur i v :
  setattr sc (Obj c raw sow unk cur) i v =
  let fs := cfields (get_class sc c) in
  let v := if fieldless sc v then mark_sow v else v in
  match nth_error fs i with
  | None => Obj c raw sow unk cur
  | Some f =>
      match fgroup f with
      | None => Obj c (set_nth i v raw) true unk cur
      | Some g => Obj c (set_nth i v (reset_go g i 0 fs raw)) true unk (set_nth g (Some i) cur)
      end
  end.
Proof. reflexivity. Qed.

Lemma reset_go_length g i fs : forall j raw, length (reset_go g i j fs raw) = length raw.
Proof.
  induction fs as [|f fs IH]; intros j raw; [reflexivity|].
  destruct raw as [|x raw]; [reflexivity|]. cbn [reset_go length]. fold (reset_go g i). rewrite IH. reflexivity.
Qed.

(* a member of another group (or an ungrouped field) keeps its raw value *)
Lemma reset_go_other g i fs : forall j raw k f,
  nth_error fs k = Some f -> fgroup f <> Some g ->
  nth k (reset_go g i j fs raw) PPlaceholder = nth k raw PPlaceholder.
Proof.
  induction fs as [|f0 fs IH]; intros j raw k f Hk Hg; [destruct k; discriminate|].
  destruct raw as [|x raw]; [reflexivity|]. cbn [reset_go].
  destruct k as [|k]; cbn [nth_error nth] in *.
  - injection Hk as ->. destruct (opt_nat_eqb (fgroup f) (Some g)) eqn:E; [|reflexivity].
    apply opt_nat_eqb_eq in E. contradiction.
  - eapply IH; eauto.
Qed.

(* every sibling of the assigned member is PLACEHOLDER afterwards *)
Lemma reset_go_sibling g i fs : forall j raw k f,
  nth_error fs k = Some f -> fgroup f = Some g -> (j + k)%nat <> i -> (k < length raw)%nat ->
  nth k (reset_go g i j fs raw) PPlaceholder = PPlaceholder.
Proof.
  induction fs as [|f0 fs IH]; intros j raw k f Hk Hg Hne Hl; [destruct k; discriminate|].
  destruct raw as [|x raw]; [cbn [length] in Hl; lia|]. cbn [reset_go].
  destruct k as [|k]; cbn [nth_error nth length] in *.
  - injection Hk as ->. rewrite Hg, opt_nat_eqb_refl. cbn [andb].
    destruct (Nat.eqb j i) eqn:E; [apply Nat.eqb_eq in E; lia | reflexivity].
  - eapply IH; eauto; lia.
Qed.

Lemma setattr_shape sc o i v : ocls (setattr sc o i v) = ocls o /\ ounk (setattr sc o i v) = ounk o.
Proof.
  destruct o as [c raw sow unk cur]. rewrite setattr_unfold. cbn zeta.
  destruct (nth_error _ i) as [f|]; [|auto]. destruct (fgroup f); auto.
Qed.

Lemma InvS_setattr sc o i v : InvS sc o -> InvS sc (setattr sc o i v).
Proof.
  destruct o as [c raw sow unk cur]. intros H. rewrite setattr_unfold. cbn zeta.
  set (v' := if fieldless sc v then mark_sow v else v). clearbody v'.
  destruct (nth_error (cfields (get_class sc c)) i) as [f|] eqn:Hf; [|exact H].
  destruct (fgroup f) as [g|] eqn:Hg.
  - (* a member of group g *)
    destruct H as (Hr & Hc & Hs & Hn). unfold InvS, cfs in *. cbn [oraw ocur ocls] in *.
    rewrite !length_set_nth, reset_go_length. repeat split; auto.
    + intros g' i' E. destruct (Nat.eq_dec g' g) as [->|Hne].
      * destruct (Nat.lt_ge_cases g (length cur)) as [Hl|Hl].
        -- rewrite nth_set_nth_eq in E by exact Hl. injection E as <-. exists f. auto.
        -- rewrite set_nth_oob in E by exact Hl. auto.
      * rewrite nth_set_nth_neq in E by exact Hne. auto.
    + intros g' k f' Hg' E Hk Hkg.
      assert (Hne : g' <> g).
      { intros ->. rewrite nth_set_nth_eq in E by exact Hg'. discriminate. }
      rewrite nth_set_nth_neq in E by exact Hne.
      assert (Hki : k <> i) by (intros ->; congruence).
      rewrite nth_set_nth_neq by exact Hki.
      rewrite (reset_go_other g i _ 0 raw k f' Hk) by congruence. eauto.
  - (* not in a group *)
    eapply InvS_raw_change; [exact H | apply length_set_nth |].
    intros k f' Hk Hsel. apply nth_set_nth_neq. intros ->.
    rewrite Hf in Hk. injection Hk as <-. unfold group_selects in Hsel. rewrite Hg in Hsel. discriminate.
Qed.

(* "assigning a member always makes it the selected one": for ANY value *)
Lemma setattr_selects sc o i v f g :
  nth_error (cfs sc o) i = Some f -> fgroup f = Some g -> (g < length (ocur o))%nat ->
  which_one_of (setattr sc o i v) g = Some i.
Proof.
  destruct o as [c raw sow unk cur]. unfold cfs. cbn [ocls ocur]. intros Hf Hg Hl.
  rewrite setattr_unfold. cbn zeta. rewrite Hf, Hg. unfold which_one_of. cbn [ocur].
  apply nth_set_nth_eq. exact Hl.
Qed.

(* ... the other groups keep their selection *)
Lemma setattr_other_group sc o i v g :
  (forall f, nth_error (cfs sc o) i = Some f -> fgroup f <> Some g) ->
  which_one_of (setattr sc o i v) g = which_one_of o g.
Proof.
  destruct o as [c raw sow unk cur]. unfold cfs. cbn [ocls]. intros H.
  rewrite setattr_unfold. cbn zeta. destruct (nth_error _ i) as [f|]; [|reflexivity].
  specialize (H f eq_refl). destruct (fgroup f) as [g'|]; [|reflexivity].
  unfold which_one_of. cbn [ocur]. apply nth_set_nth_neq. congruence.
Qed.

(* ... and its siblings are reset: raw attribute PLACEHOLDER *)
Lemma setattr_resets sc o i v f g k f' :
  length (oraw o) = length (cfs sc o) ->
  nth_error (cfs sc o) i = Some f -> fgroup f = Some g ->
  nth_error (cfs sc o) k = Some f' -> fgroup f' = Some g -> k <> i ->
  nth k (oraw (setattr sc o i v)) PPlaceholder = PPlaceholder.
Proof.
  destruct o as [c raw sow unk cur]. unfold cfs. cbn [ocls oraw]. intros Hr Hf Hg Hk Hkg Hne.
  rewrite setattr_unfold. cbn zeta. rewrite Hf, Hg. cbn [oraw].
  rewrite nth_set_nth_neq by exact Hne.
  eapply reset_go_sibling; eauto. rewrite Hr. eapply nth_error_lt; eauto.
Qed.

(* the assigned value is what is read back (a PLACEHOLDER reads as the default) *)
Lemma setattr_reads_back sc o i v f g :
  length (oraw o) = length (cfs sc o) ->
  nth_error (cfs sc o) i = Some f -> fgroup f = Some g -> (g < length (ocur o))%nat ->
  read sc (setattr sc o i v) i =
    Ok (match (if fieldless sc v then mark_sow v else v) with PPlaceholder => default_of sc f | x => x end).
Proof.
  destruct o as [c raw sow unk cur]. unfold cfs. cbn [ocls oraw ocur]. intros Hr Hf Hg Hl.
  rewrite setattr_unfold. cbn zeta. rewrite Hf, Hg.
  rewrite (read_member _ _ _ _ _ _ _ _ _ Hf Hg).
  rewrite nth_set_nth_eq by exact Hl. cbn [opt_nat_eqb]. rewrite Nat.eqb_refl.
  rewrite nth_set_nth_eq; [reflexivity|]. rewrite reset_go_length, Hr. eapply nth_error_lt; eauto.
Qed.

(* ------------------------------------------------------------------------------------ *)
(* __getattribute__ (lazy default written back) *)
Lemma getattr_cases sc c raw sow unk cur i :
  (exists e, getattr sc (Obj c raw sow unk cur) i = (Obj c raw sow unk cur, Err e)) \/
  (exists f v raw', getattr sc (Obj c raw sow unk cur) i = (Obj c raw' sow unk cur, Ok v) /\
     nth_error (cfields (get_class sc c)) i = Some f /\ group_selects cur f i <> Some false /\
     (raw' = raw \/ raw' = set_nth i v raw)).
Proof.
  unfold getattr. destruct (nth_error _ i) as [f|] eqn:Hf; [|left; eauto].
  destruct (group_selects cur f i) as [[|]|] eqn:Hs; try (left; eauto; fail).
  all: destruct (nth i raw PPlaceholder) eqn:En;
    right; eexists f, _, _; (split; [reflexivity|]); (split; [reflexivity|]); (split; [congruence|]); auto.
Qed.

Lemma InvS_set_readable sc c raw sow sow' unk unk' cur i f x :
  InvS sc (Obj c raw sow unk cur) ->
  nth_error (cfields (get_class sc c)) i = Some f -> group_selects cur f i <> Some false ->
  InvS sc (Obj c (set_nth i x raw) sow' unk' cur).
Proof.
  intros H Hf Hs. eapply InvS_raw_change; [exact H | apply length_set_nth |].
  intros k f' Hk Hsel. apply nth_set_nth_neq. intros ->. congruence.
Qed.

Lemma InvS_getattr sc o i : InvS sc o -> InvS sc (fst (getattr sc o i)).
Proof.
  destruct o as [c raw sow unk cur]. intros H.
  destruct (getattr_cases sc c raw sow unk cur i) as [(e & ->) | (f & v & raw' & -> & Hf & Hs & [->| ->])];
    cbn [fst]; auto.
  eapply InvS_set_readable; eauto.
Qed.

(* ------------------------------------------------------------------------------------ *)
(* m.<path>.<i> = v   and   m.<path>.<i> *)
Lemma InvS_set_in sc path : forall o i v o', InvS sc o -> set_in sc o path i v = Ok o' -> InvS sc o'.
Proof.
  induction path as [|j path IH]; intros o i v o' H E; cbn [set_in] in E.
  - injection E as <-. apply InvS_setattr. exact H.
  - destruct o as [c raw sow unk cur].
    destruct (getattr_cases sc c raw sow unk cur j) as [(e & Eg) | (f & w & raw' & Eg & Hf & Hs & Hraw)];
      rewrite Eg in E; [discriminate|].
    destruct w; try discriminate.
    destruct (set_in sc o path i v) as [child'|] eqn:Ec; cbn [bind] in E; [|discriminate].
    injection E as <-.
    assert (H1 : InvS sc (Obj c raw' sow unk cur)).
    { destruct Hraw as [->| ->]; [exact H | eapply InvS_set_readable; eauto]. }
    eapply InvS_set_readable; eauto.
Qed.

Lemma InvS_get_in sc path : forall o i, InvS sc o -> InvS sc (fst (get_in sc o path i)).
Proof.
  induction path as [|j path IH]; intros o i H; cbn [get_in].
  - apply InvS_getattr. exact H.
  - destruct o as [c raw sow unk cur].
    destruct (getattr_cases sc c raw sow unk cur j) as [(e & Eg) | (f & w & raw' & Eg & Hf & Hs & Hraw)];
      rewrite Eg; [exact H|].
    assert (H1 : InvS sc (Obj c raw' sow unk cur)).
    { destruct Hraw as [->| ->]; [exact H | eapply InvS_set_readable; eauto]. }
    destruct w; try exact H1.
    destruct (get_in sc o path i) as [child' r]. cbn [fst].
    eapply InvS_set_readable; eauto.
Qed.

(* ------------------------------------------------------------------------------------ *)
(* copy / deepcopy: raw values and _group_current are carried over *)
Fixpoint ov_go (raw fresh : list pv) : list pv :=
  match raw, fresh with
  | x :: raw', y :: fresh' => (match x with PPlaceholder => y | _ => x end) :: ov_go raw' fresh'
  | _, _ => fresh
  end.

Lemma overlay_unfold sc c raw : overlay sc c raw = ov_go raw (oraw (new sc c)).
Proof. reflexivity. Qed.

Lemma ov_go_length raw : forall fresh, length (ov_go raw fresh) = length fresh.
Proof.
  induction raw as [|x raw IH]; intros [|y fresh]; cbn [ov_go length]; auto.
Qed.

Lemma ov_go_nth raw : forall fresh k, (k < length raw)%nat -> (k < length fresh)%nat ->
  nth k (ov_go raw fresh) PPlaceholder =
  match nth k raw PPlaceholder with PPlaceholder => nth k fresh PPlaceholder | x => x end.
Proof.
  induction raw as [|x raw IH]; intros [|y fresh] [|k] H1 H2; cbn [ov_go nth length] in *; try lia.
  - destruct x; reflexivity.
  - apply IH; lia.
Qed.

Lemma InvS_overlay sc c raw raw0 sow sow' unk unk' cur :
  InvS sc (Obj c raw0 sow unk cur) ->
  length raw = length raw0 ->
  (forall k f, nth_error (cfields (get_class sc c)) k = Some f ->
               is_sentinel f (nth k raw0 PPlaceholder) = true -> nth k raw PPlaceholder = nth k raw0 PPlaceholder) ->
  InvS sc (Obj c (overlay sc c raw) sow' unk' cur).
Proof.
  unfold InvS, cfs. cbn [oraw ocur ocls]. intros (Hr & Hc & Hs & Hn) Hl Hk.
  rewrite overlay_unfold, ov_go_length. unfold new. cbn [oraw]. rewrite map_length.
  repeat split; auto.
  intros g i f Hg E Hf Hfg. specialize (Hn g i f Hg E Hf Hfg).
  pose proof (nth_error_lt _ _ _ Hf) as Hi.
  rewrite ov_go_nth by (rewrite ?map_length; lia).
  rewrite (Hk i f Hf Hn), (nth_map_error _ _ _ _ _ Hf).
  destruct (nth i raw0 PPlaceholder) eqn:En; try exact Hn.
  unfold is_sentinel. destruct (fopt f) eqn:Eo; rewrite ?Eo; reflexivity.
Qed.

Lemma InvS_copy sc o : InvS sc o -> InvS sc (copy sc o).
Proof.
  destruct o as [c raw sow unk cur]. intros H. unfold copy. eapply InvS_overlay; eauto.
Qed.

Lemma deepcopy_sentinel sc f x : is_sentinel f x = true -> deepcopy_pv sc x = x.
Proof. destruct x; cbn [is_sentinel]; try discriminate; reflexivity. Qed.

Lemma deepcopy_unfold sc c raw sow unk cur :
  deepcopy sc (Obj c raw sow unk cur) = Obj c (overlay sc c (map (deepcopy_pv sc) raw)) sow unk cur.
Proof. reflexivity. Qed.

Lemma InvS_deepcopy sc o : InvS sc o -> InvS sc (deepcopy sc o).
Proof.
  destruct o as [c raw sow unk cur]. intros H. rewrite deepcopy_unfold.
  eapply InvS_overlay; [exact H | apply map_length |].
  intros k f Hf Hsen.
  destruct (Nat.lt_ge_cases k (length raw)) as [Hl|Hl].
  - rewrite (nth_indep _ PPlaceholder (deepcopy_pv sc PPlaceholder)) by (rewrite map_length; exact Hl).
    rewrite map_nth. eapply deepcopy_sentinel; eauto.
  - rewrite !nth_overflow; auto. rewrite map_length. exact Hl.
Qed.

Lemma copy_keeps_selection sc o g : which_one_of (copy sc o) g = which_one_of o g.
Proof. destruct o. reflexivity. Qed.

Lemma deepcopy_keeps_selection sc o g : which_one_of (deepcopy sc o) g = which_one_of o g.
Proof. destruct o. reflexivity. Qed.

(* ------------------------------------------------------------------------------------ *)
(* observers bytes() / len() / dump(): lazy defaults written back into readable attributes only *)
Lemma InvS_touch sc o : InvS sc o -> InvS sc (touch sc o).
Proof.
  destruct o as [c raw sow unk cur]. intros H. unfold touch. cbn [touch_pv].
  set (fs := cfields (get_class sc c)).
  match goal with |- InvS sc (Obj c (?G 0%nat raw fs) sow unk cur) => set (go := G) end.
  assert (Hgo : forall raw i fs0,
     length (go i raw fs0) = length raw /\
     forall k f, nth_error fs0 k = Some f -> group_selects cur f (i + k) = Some false ->
                 nth k (go i raw fs0) PPlaceholder = nth k raw PPlaceholder).
  { clear. induction raw as [|x raw IH]; intros i fs0.
    - split; [reflexivity|]. intros k f _ _. reflexivity.
    - destruct fs0 as [|f0 fs0].
      + split; [reflexivity|]. intros k f Hk. destruct k; discriminate.
      + destruct (IH (S i) fs0) as (IHl & IHn). split.
        * cbn [go length]. fold go. rewrite IHl. reflexivity.
        * intros k f Hk Hs. destruct k as [|k]; cbn [nth_error] in Hk.
          -- injection Hk as ->. rewrite Nat.add_0_r in Hs. cbn [go nth]. rewrite Hs. reflexivity.
          -- cbn [go nth]. fold go. apply (IHn k f Hk). rewrite <- Hs. f_equal. lia. }
  destruct (Hgo raw 0%nat fs) as (Hl & Hn).
  eapply InvS_raw_change; [exact H | exact Hl |].
  intros k f Hk Hs. apply (Hn k f Hk). exact Hs.
Qed.

Lemma touch_keeps_selection sc o g : which_one_of (touch sc o) g = which_one_of o g.
Proof. destruct o. reflexivity. Qed.

(* ------------------------------------------------------------------------------------ *)
(* from_dict at the kwargs level *)
Lemma InvS_setattrs sc kw : forall o, InvS sc o -> InvS sc (setattrs sc o kw).
Proof.
  unfold setattrs. induction kw as [|[i v] kw IH]; intros o H; cbn [fold_left]; [exact H|].
  apply IH. apply InvS_setattr. exact H.
Qed.

Lemma InvS_set_sow sc o : InvS sc o -> InvS sc (set_sow o).
Proof. destruct o as [c raw sow unk cur]. apply InvS_flags. Qed.

Lemma InvS_from_dict_cls sc c kw : InvS sc (from_dict_cls sc c kw).
Proof. apply InvS_set_sow, InvS_construct. Qed.

Lemma InvS_from_dict_inst sc o kw : InvS sc o -> InvS sc (from_dict_inst sc o kw).
Proof. intros H. apply InvS_setattrs, InvS_set_sow, H. Qed.
