(* C05, descriptor side — witnesses and non-vacuity (all by vm_compute), with the REAL naming functions of the plugin
   (Model/Casing.v: safe_snake_case, pascal_case, pythonize_enum_member_name).  The descriptors are the FileDescriptorSets
   protoc emits for the quoted .proto text; stage T5 of harness/props/c05.py re-derives them from the text on every run and
   replays the two refutation witnesses against the real plugin and google.protobuf.json_format. *)
From BP Require Import Base.Prelude Model.Types Spec.Descriptor Model.Object Model.WellFormed.
From BP Require Import Model.C03Bridge Model.C03Chain Model.C05Desc.
From BP Require Import Model.Plugin Proofs.PluginP Proofs.PluginWitP Proofs.C03BridgeWit.
From BP Require Model.Casing Model.Json.
From BP Require Import Proofs.C05MsgDef Proofs.C05AccDef Proofs.C05Model.
From Coq Require Import String.
Open Scope list_scope.
Open Scope Z_scope.

Definition real_table (D : descriptor) : class_table :=
  match class_table_of Casing.safe_snake_case Casing.pascal_case Casing.pythonize_enum_member_name D with
  | Some t => t
  | None => []
  end.

(* the descriptor-level premises of C05_generated_js_matches / _emit / _accept, real naming *)
Definition real_premises (D : descriptor) : bool :=
  protoc_wf D && names_ok Casing.safe_snake_case Casing.pascal_case Casing.pythonize_enum_member_name D && bridge_ok D
  && gen_keys_ok Json.CAMEL Casing.safe_snake_case D.

(* ---- D_ok (Proofs/PluginWitP.v): every premise holds with the real naming, the generated schema is S_ok ---- *)
Lemma D_ok_real :
  real_premises D_ok = true /\ json_names_ok Casing.pythonize_enum_member_name D_ok = true
  /\ real_table D_ok = T_ok /\ schema_of_table (real_table D_ok) = S_ok.
Proof. vm_compute. repeat split; reflexivity. Qed.

Definition JS_ok : JM.jschema := Eval vm_compute in jschema_of_descriptor D_ok.
Lemma JS_ok_eq : JS_ok = jschema_of_descriptor D_ok.
Proof. vm_compute. reflexivity. Qed.

(* the reference-side schema of D_ok: two JSON classes (Outer: 8 fields, Outer.Inner: 2 fields), two enums with their proto
   value names; Outer's fields by_name (json byName, map<string, message 1>), a / c (oneof 0), od (explicit double),
   rs (repeated message 1), ts (Timestamp), bv (BoolValue wrapper), colors (map<int64, enum 0>) *)
Lemma JS_ok_shape :
  map (fun c => List.length c) (JM.jclasses JS_ok) = [8; 2]%nat /\ List.length (JM.jenums JS_ok) = 2%nat
  /\ map (fun f => (JM.jf_json f, JM.jf_kind f, JM.jf_card f, JM.jf_oneof f)) (JM.jclass JS_ok 0) =
     [(b "byName", JM.JMsg 1, JM.MapOf JM.KString, None); (b "a", JM.JScalar JM.KInt32, JM.Explicit, Some 0%nat);
      (b "c", JM.JEnum 0, JM.Explicit, Some 0%nat); (b "od", JM.JScalar JM.KDouble, JM.Explicit, None);
      (b "rs", JM.JMsg 1, JM.Repeated, None); (b "ts", JM.JTimestamp, JM.Explicit, None);
      (b "bv", JM.JWrapper JM.KBool, JM.Explicit, None); (b "colors", JM.JEnum 0, JM.MapOf JM.KInt64, None)]
  /\ map (fun f => (JM.jf_name f, JM.jf_kind f, JM.jf_card f)) (JM.jclass JS_ok 1) =
     [(b "back", JM.JMsg 0, JM.Explicit); (b "k", JM.JEnum 1, JM.Implicit)].
Proof. vm_compute. repeat split; reflexivity. Qed.

(* the conclusions of the theorems evaluated on the value ok_outer of the generated class Outer (Proofs/C03BridgeWit.v) *)
Lemma D_ok_json_instance :
  js_matches NB S_ok JS_ok = true /\ emit_good S_ok ok_outer = true /\ ocls ok_outer = (0 + NB)%nat
  /\ model_emit_accepts S_ok JS_ok 0 ok_outer = Some (abs_obj S_ok ok_outer)
  /\ wf_aval S_ok JS_ok NB (JM.JMsg 0) (abs_obj S_ok ok_outer) = true
  /\ model_reads_canonical S_ok JS_ok 0 (0 + NB) (abs_obj S_ok ok_outer) = Some (abs_obj S_ok ok_outer)
  /\ match S.json_spec JS_ok 0 (abs_obj S_ok ok_outer) with Some (S.JObj d) => List.length d = 7%nat | _ => False end.
Proof. vm_compute. repeat split; reflexivity. Qed.

(* ---- K3 at the level of descriptors.  D_k3json:
syntax = "proto3";
package kj;
message M { int32 HTTPStatus = 1; int32 a1b = 2; }
*)
Definition D_k3json : descriptor :=
  [(mkFile (b "D_k3json.proto") (b "kj")
     [(mkMsg (b "M") [(mkField (b "HTTPStatus") 1 1 5 (b "") None false); (mkField (b "a1b") 2 1 5 (b "") None false)]
        [] [] [] false)] [])].
Definition S_k3json : schema := Eval vm_compute in schema_of_table (real_table D_k3json).
Definition JS_k3json : JM.jschema := Eval vm_compute in jschema_of_descriptor D_k3json.
(* M(http_status=7) *)
Definition o_k3json : obj := Obj 11 [PInt 7; PInt 0] true [] [].

(* every other premise holds (also gen_keys_ok), json_names_ok fails whatever the enum naming, js_matches is false, and the
   conclusions of C05_emit / C05_accept fail: betterproto writes {"httpStatus": 7}, which the reference parser rejects (the
   canonical form is {"HTTPStatus": 7}); from_dict does read the canonical form (fallback through safe_snake_case), but what
   it re-emits is rejected again *)
Lemma json_names_needed :
  real_premises D_k3json = true
  /\ json_names_ok Casing.pythonize_enum_member_name D_k3json = false /\ json_names_ok (fun n _ => n) D_k3json = false
  /\ S_k3json = schema_of_table (real_table D_k3json) /\ JS_k3json = jschema_of_descriptor D_k3json
  /\ js_matches NB S_k3json JS_k3json = false
  /\ emit_good S_k3json o_k3json = true
  /\ Json.to_dict Json.CAMEL false S_k3json o_k3json = Json.JObj [(Json.JStr (b "httpStatus"), Json.JInt 7)]
  /\ model_emit_accepts S_k3json JS_k3json 0 o_k3json = None
  /\ abs_obj S_k3json o_k3json = S.AMsg [S.FOne (S.AInt 7); S.FOne (S.AInt 0)]
  /\ wf_aval S_k3json JS_k3json NB (JM.JMsg 0) (abs_obj S_k3json o_k3json) = true
  /\ S.json_spec JS_k3json 0 (abs_obj S_k3json o_k3json) = Some (S.JObj [(b "HTTPStatus", S.JNum 7)])
  /\ Json.from_dict_cls S_k3json 11 (unconv (S.JObj [(b "HTTPStatus", S.JNum 7)])) = Ok (Obj 11 [PInt 7; PPlaceholder] true [] [])
  /\ model_reads_canonical S_k3json JS_k3json 0 (0 + NB) (abs_obj S_k3json o_k3json) = None.
Proof. vm_compute. repeat split; reflexivity. Qed.

(* ---- enum value names: the plugin strips the enum's own name.  D_enum_prefix:
syntax = "proto3";
package ke;
enum Color { COLOR_UNSPECIFIED = 0; COLOR_RED = 1; }
message M { Color c = 1; }
*)
Definition D_enum_prefix : descriptor :=
  [(mkFile (b "D_enum_prefix.proto") (b "ke")
     [(mkMsg (b "M") [(mkField (b "c") 1 1 14 (b ".ke.Color") None false)] [] [] [] false)]
     [(mkEnum (b "Color") [(b "COLOR_UNSPECIFIED", 0); (b "COLOR_RED", 1)])])].
Definition S_enum_prefix : schema := Eval vm_compute in schema_of_table (real_table D_enum_prefix).
Definition JS_enum_prefix : JM.jschema := Eval vm_compute in jschema_of_descriptor D_enum_prefix.
(* M(c=Color.RED) *)
Definition o_enum_prefix : obj := Obj 11 [PInt 1] true [] [].

(* every other premise holds; json_names_ok holds for a plugin that would leave the value names alone and fails for the
   real pythonize_enum_member_name (members UNSPECIFIED / RED); betterproto writes {"c": "RED"}, which the reference parser
   rejects (canonical: {"c": "COLOR_RED"}), and from_dict raises ValueError on the canonical form *)
Lemma enum_prefix_refuted :
  real_premises D_enum_prefix = true
  /\ json_names_ok (fun n _ => n) D_enum_prefix = true /\ json_names_ok Casing.pythonize_enum_member_name D_enum_prefix = false
  /\ S_enum_prefix = schema_of_table (real_table D_enum_prefix) /\ JS_enum_prefix = jschema_of_descriptor D_enum_prefix
  /\ map emembers (enums S_enum_prefix) = [[(b "UNSPECIFIED", 0); (b "RED", 1)]]
  /\ JM.jenums JS_enum_prefix = [[(b "COLOR_UNSPECIFIED", 0); (b "COLOR_RED", 1)]]
  /\ js_matches NB S_enum_prefix JS_enum_prefix = false
  /\ emit_good S_enum_prefix o_enum_prefix = true
  /\ Json.to_dict Json.CAMEL false S_enum_prefix o_enum_prefix = Json.JObj [(Json.JStr (b "c"), Json.JStr (b "RED"))]
  /\ model_emit_accepts S_enum_prefix JS_enum_prefix 0 o_enum_prefix = None
  /\ abs_obj S_enum_prefix o_enum_prefix = S.AMsg [S.FOne (S.AEnum 1)]
  /\ wf_aval S_enum_prefix JS_enum_prefix NB (JM.JMsg 0) (abs_obj S_enum_prefix o_enum_prefix) = true
  /\ S.json_spec JS_enum_prefix 0 (abs_obj S_enum_prefix o_enum_prefix) = Some (S.JObj [(b "c", S.JStr (b "COLOR_RED"))])
  /\ Json.from_dict_cls S_enum_prefix 11 (unconv (S.JObj [(b "c", S.JStr (b "COLOR_RED"))])) = Err EValue
  /\ model_reads_canonical S_enum_prefix JS_enum_prefix 0 (0 + NB) (abs_obj S_enum_prefix o_enum_prefix) = None.
Proof. vm_compute. repeat split; reflexivity. Qed.
