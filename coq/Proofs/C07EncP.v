(* C07: what bytes(m) looks like to a reader that knows no schema.  Every chunk Message.dump emits for
   a field is a sequence of records carrying that field's number (whatever the value: scalars, nested
   messages, repeated, packed, maps, ill-typed and out-of-range values included, as long as bytes(m)
   does not raise); an unselected oneof member emits nothing; the selected member emits exactly one
   record, also when it holds its default value. *)
From Coq Require Import ZArith List Bool Lia Arith.
From BP Require Import Base.Prelude Model.Types Model.Varint Model.Scalar Model.Float Model.Object Model.Eq.
From BP Require Import Model.TimeCore Model.Encode Model.WellFormed.
From BP Require Import Spec.Varint Proofs.BytesP Proofs.VarintP Model.C07Wire Proofs.C07WireP.
From BP Require Import gen.Tables.
Import ListNotations.
Ltac Zify.zify_post_hook ::= Z.to_euclidean_division_equations.

(* evaluate membership tests of a concrete proto type in the regenerated tables *)
Ltac evalt :=
  repeat match goal with
         | |- context [tmem ?t ?l] =>
             let b := eval vm_compute in (tmem t l) in
             match b with true => idtac | false => idtac end; change (tmem t l) with b
         | |- context [ptype_eqb ?a ?b] =>
             let r := eval vm_compute in (ptype_eqb a b) in
             match r with true => idtac | false => idtac end; change (ptype_eqb a b) with r
         end.
Ltac evalt_in H :=
  repeat match type of H with
         | context [tmem ?t ?l] =>
             let b := eval vm_compute in (tmem t l) in
             match b with true => idtac | false => idtac end; change (tmem t l) with b in H
         | context [ptype_eqb ?a ?b] =>
             let r := eval vm_compute in (ptype_eqb a b) in
             match r with true => idtac | false => idtac end; change (ptype_eqb a b) with r in H
         end.

(* ---- varints written by encode_varint ---- *)
Lemma encode_varint_shape z bs :
  encode_varint z = Ok bs -> varint_shape bs /\ (0 <= z -> varint_value bs = z).
Proof.
  unfold encode_varint. destruct (z <? - 2 ^ 63) eqn:E1; [discriminate|].
  intros H. injection H as <-.
  set (v := if z <? 0 then z + 2 ^ 64 else z).
  assert (Hv : 0 <= v) by (subst v; destruct (z <? 0) eqn:E2; lia).
  pose proof (enc_go_spec (enc_fuel v) v (conj Hv (enc_fuel_enough v Hv))) as HH. cbn zeta in HH.
  destruct HH as (Sh & Va & _). split; [exact Sh|].
  intros Hz. subst v. replace (z <? 0) with false in * by lia. exact Va.
Qed.

Lemma key_varint num wt kb :
  1 <= num -> 0 <= wt < 8 -> encode_varint (Z.lor (Z.shiftl num 3) wt) = Ok kb ->
  varint_shape kb /\ varint_value kb = wt + num * 8.
Proof.
  intros Hn Hw E. rewrite Z.lor_comm, lor_shiftl_add in E by lia. change (2 ^ 3) with 8 in E.
  apply encode_varint_shape in E. destruct E as (Sh & Va). split; [exact Sh | apply Va; lia].
Qed.

Lemma one_record num wt kb payload :
  1 <= num -> 0 <= wt < 8 -> varint_shape kb -> varint_value kb = wt + num * 8 -> Payload wt payload ->
  Recs (kb ++ payload) [(num, wt)].
Proof.
  intros Hn Hw Sh Va P.
  assert (E1 : varint_value kb / 8 = num) by lia. assert (E2 : varint_value kb mod 8 = wt) by lia.
  pose proof (Recs_cons kb payload [] [] Sh ltac:(lia) ltac:(rewrite E2; exact P) Recs_nil) as R.
  rewrite E1, E2, app_nil_r in R. exact R.
Qed.

(* ---- _preprocess_single, by wire class of the proto type ---- *)
Lemma pack_value_length t v bs : pack_value t v = Ok bs ->
  match pack_fmt t with Some f => length bs = fmt_size f | None => False end.
Proof.
  unfold pack_value. destruct (pack_fmt t) as [f|]; [|discriminate].
  destruct f; cbn [fmt_size].
  - destruct v; try discriminate. intros H; injection H as <-. first [reflexivity | apply le_bytes_length].
  - destruct v; try discriminate. destruct (d2f bits); [|discriminate]. intros H; injection H as <-. first [reflexivity | apply le_bytes_length].
  - destruct (int_like v); [|discriminate]. unfold pack_int. cbn [fmt_int_range].
    destruct (_ && _); [|discriminate]. intros H; injection H as <-. first [reflexivity | apply le_bytes_length].
  - destruct (int_like v); [|discriminate]. unfold pack_int. cbn [fmt_int_range].
    destruct (_ && _); [|discriminate]. intros H; injection H as <-. first [reflexivity | apply le_bytes_length].
  - destruct (int_like v); [|discriminate]. unfold pack_int. cbn [fmt_int_range].
    destruct (_ && _); [|discriminate]. intros H; injection H as <-. first [reflexivity | apply le_bytes_length].
  - destruct (int_like v); [|discriminate]. unfold pack_int. cbn [fmt_int_range].
    destruct (_ && _); [|discriminate]. intros H; injection H as <-. first [reflexivity | apply le_bytes_length].
Qed.

Lemma preprocess_varint msg t w v value :
  tmem t WIRE_VARINT_TYPES = true -> preprocess_with msg t w v = Ok value -> varint_shape value.
Proof.
  intros Ht E. destruct t; vm_compute in Ht; try discriminate; clear Ht;
    unfold preprocess_with in E; evalt_in E; cbv iota in E;
    (destruct (int_like v); [|discriminate]); apply encode_varint_shape in E; tauto.
Qed.

Lemma preprocess_fixed32 msg t w v value :
  tmem t WIRE_FIXED_32_TYPES = true -> preprocess_with msg t w v = Ok value -> length value = 4%nat.
Proof.
  intros Ht E. destruct t; vm_compute in Ht; try discriminate; clear Ht;
    unfold preprocess_with in E; evalt_in E; cbv iota in E;
    apply pack_value_length in E; exact E.
Qed.

Lemma preprocess_fixed64 msg t w v value :
  tmem t WIRE_FIXED_64_TYPES = true -> preprocess_with msg t w v = Ok value -> length value = 8%nat.
Proof.
  intros Ht E. destruct t; vm_compute in Ht; try discriminate; clear Ht;
    unfold preprocess_with in E; evalt_in E; cbv iota in E;
    apply pack_value_length in E; exact E.
Qed.

(* ---- _serialize_single: nothing, or exactly one record of this field number ---- *)
Lemma serialize_recs msg num t v se wraps chunk :
  1 <= num -> serialize_with msg num t v se wraps = Ok chunk ->
  (chunk = [] /\ se = false) \/ exists wt, Recs chunk [(num, wt)].
Proof.
  intros Hn E. unfold serialize_with in E.
  destruct (preprocess_with msg t wraps v) as [value|] eqn:Ep; cbn [bind] in E; [|discriminate].
  destruct (tmem t WIRE_VARINT_TYPES) eqn:E0.
  { destruct (encode_varint (Z.shiftl num 3)) as [key|] eqn:Ek; cbn [bind] in E; [|discriminate].
    injection E as <-. right. exists 0.
    rewrite <- (Z.lor_0_r (Z.shiftl num 3)) in Ek. apply key_varint in Ek; try lia.
    destruct Ek as (Sh & Va). apply one_record; auto; try lia.
    apply P_varint. eapply preprocess_varint; eauto. }
  destruct (tmem t WIRE_FIXED_32_TYPES) eqn:E1.
  { destruct (encode_varint _) as [key|] eqn:Ek; cbn [bind] in E; [|discriminate].
    injection E as <-. right. exists 5. apply key_varint in Ek; try lia.
    destruct Ek as (Sh & Va). apply one_record; auto; try lia.
    apply P_fixed32. eapply preprocess_fixed32; eauto. }
  destruct (tmem t WIRE_FIXED_64_TYPES) eqn:E2.
  { destruct (encode_varint _) as [key|] eqn:Ek; cbn [bind] in E; [|discriminate].
    injection E as <-. right. exists 1. apply key_varint in Ek; try lia.
    destruct Ek as (Sh & Va). apply one_record; auto; try lia.
    apply P_fixed64. eapply preprocess_fixed64; eauto. }
  destruct (tmem t WIRE_LEN_DELIM_TYPES) eqn:E3; [|discriminate].
  destruct (negb (Zlength value =? 0) || se || match wraps with Some _ => true | None => false end) eqn:Ec.
  - destruct (encode_varint (Z.lor _ 2)) as [key|] eqn:Ek; cbn [bind] in E; [|discriminate].
    destruct (encode_varint (Zlength value)) as [n|] eqn:En; cbn [bind] in E; [|discriminate].
    injection E as <-. right. exists 2. apply key_varint in Ek; try lia.
    destruct Ek as (Sh & Va). apply one_record; auto; try lia.
    apply encode_varint_shape in En. destruct En as (Shn & Van).
    apply P_len; [exact Shn | apply Van; unfold Zlength; lia].
  - injection E as <-. left. split; [reflexivity|].
    destruct se; [|reflexivity]. rewrite orb_true_r in Ec. discriminate.
Qed.

Lemma Recs_nonempty chunk r : Recs chunk [r] -> chunk <> [].
Proof.
  intros H. inversion H as [|tagb payload rest rs Sh _ _ _]; subst.
  destruct tagb; [cbn in Sh; tauto | discriminate].
Qed.

Definition AllNum (num : Z) (chunk : list byte) : Prop :=
  exists rs, Recs chunk rs /\ Forall (fun r => fst r = num) rs.

Lemma AllNum_nil num : AllNum num [].
Proof. exists []. split; [constructor | constructor]. Qed.

Lemma AllNum_one num wt chunk : Recs chunk [(num, wt)] -> AllNum num chunk.
Proof. intros H. exists [(num, wt)]. split; [exact H|]. repeat constructor. Qed.

Lemma AllNum_app num a b : AllNum num a -> AllNum num b -> AllNum num (a ++ b).
Proof.
  intros (ra & Ha & Fa) (rb & Hb & Fb). exists (ra ++ rb). split; [apply Recs_app; auto|].
  apply Forall_app. auto.
Qed.

Lemma serialize_allnum msg num t v se wraps chunk :
  1 <= num -> serialize_with msg num t v se wraps = Ok chunk -> AllNum num chunk.
Proof.
  intros Hn E. destruct (serialize_recs _ _ _ _ _ _ _ Hn E) as [(-> & _) | (wt & R)];
    [apply AllNum_nil | eapply AllNum_one; eauto].
Qed.

(* ---- the loop body of Message.dump for one field ---- *)
Lemma emit_field_allnum enc sc f sel v chunk :
  1 <= fnum f -> emit_field enc sc f sel v = Ok chunk -> AllNum (fnum f) chunk.
Proof.
  intros Hn E. unfold emit_field in E.
  destruct (is_default sc f v && negb _); [injection E as <-; apply AllNum_nil|].
  destruct v; try (eapply serialize_allnum; eauto; fail).
  - (* list *)
    destruct (tmem (fty f) PACKED_TYPES).
    + destruct (concat_map _ l) as [buf|]; cbn [bind] in E; [|discriminate]. eapply serialize_allnum; eauto.
    + revert chunk E. induction l as [|item l IH]; intros chunk E; cbn [concat_map] in E.
      * injection E as <-. apply AllNum_nil.
      * destruct (serialize_with _ (fnum f) (fty f) item true (fwraps f)) as [r|] eqn:Es; cbn [bind] in E; [|discriminate].
        match type of E with (do b <- ?X; _) = _ => destruct X as [b|] eqn:Er end; cbn [bind] in E; [|discriminate].
        injection E as <-. apply AllNum_app; [|apply IH; reflexivity].
        destruct (serialize_recs _ _ _ _ _ _ _ Hn Es) as [(_ & Hse) | (wt & R)]; [discriminate|].
        pose proof (Recs_nonempty _ _ R) as Hne. destruct r; [contradiction|]. eapply AllNum_one; eauto.
  - (* dict *)
    destruct (fmap f) as [[kt vt]|]; [|discriminate].
    revert chunk E. induction l as [|[k v'] l IH]; intros chunk E.
    + injection E as <-. apply AllNum_nil.
    + destruct (serialize_with _ 1 kt k false None) as [sk|]; cbn [bind] in E; [|discriminate].
      destruct (serialize_with _ 2 vt v' false None) as [sv|]; cbn [bind] in E; [|discriminate].
      destruct (serialize_with _ (fnum f) (fty f) (PBytes (sk ++ sv)) true None) as [e|] eqn:Es; cbn [bind] in E; [|discriminate].
      match type of E with (do rest <- ?X; _) = _ => destruct X as [rest|] eqn:Er end; cbn [bind] in E; [|discriminate].
      injection E as <-. apply AllNum_app; [eapply serialize_allnum; eauto | apply IH; reflexivity].
Qed.

(* a value a oneof member can hold: not None, not a container *)
Definition member_value_ok (v : pv) : bool :=
  match v with PNone | PList _ | PDict _ | PPlaceholder => false | _ => true end.

(* the selected member of a group: exactly one record, whatever the value (its default included) *)
Lemma emit_field_selected enc sc f v chunk :
  1 <= fnum f -> fgroup f <> None -> member_value_ok v = true ->
  emit_field enc sc f (Some true) v = Ok chunk -> exists wt, Recs chunk [(fnum f, wt)].
Proof.
  intros Hn Hg Hv E. unfold emit_field in E.
  assert (Hsg : is_some (fgroup f) = true) by (destruct (fgroup f); [reflexivity | contradiction]).
  rewrite Hsg in E. cbn [orb negb] in E. rewrite andb_false_r in E.
  destruct v; try discriminate;
    (rewrite orb_true_r in E;
     destruct (serialize_recs _ _ _ _ _ _ _ Hn E) as [(_ & Hse) | R]; [discriminate | exact R]).
Qed.

Lemma field_chunk enc sc f sel v chunk :
  1 <= fnum f -> emit_field enc sc f sel v = Ok chunk ->
  exists rs, records chunk = Some rs /\ Forall (fun r => fst r = fnum f) rs.
Proof.
  intros Hn E. destruct (emit_field_allnum enc sc f sel v chunk Hn E) as (rs & R & F).
  exists rs. split; [apply Recs_records; exact R | exact F].
Qed.
