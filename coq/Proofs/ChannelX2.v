(* C12 extension (2) — termination: a measure on states that strictly decreases with every step, hence every
   schedule is finite, bounded by [bound c] computed from the configuration; nothing can move exactly in the
   quiescent states, so every maximal run ends quiescent. *)
From BP Require Import Base.Prelude Model.Channel Model.C12X.
From BP Require Import Proofs.ChannelP1 Proofs.ChannelP2 Proofs.ChannelP3 Proofs.ChannelP4 Proofs.ChannelP5 Proofs.ChannelP7.
From Coq Require Import Arith Lia.
Local Open Scope nat_scope.

Lemma progw_app : forall a b, progw (a ++ b) = progw a + progw b.
Proof. induction a; intros; cbn [app progw]; auto. rewrite IHa. lia. Qed.
Lemma progw_repeat : forall o n, progw (repeat o n) = n * opw o.
Proof. induction n; cbn [repeat progw]; auto. rewrite IHn. lia. Qed.
Lemma existsb_repeat_false : forall (f : op -> bool) o n, f o = false -> existsb f (repeat o n) = false.
Proof. induction n; intros; cbn; auto. rewrite H. auto. Qed.
Lemma b2n_le1 : forall b, b2n b <= 1.
Proof. destruct b; cbn; lia. Qed.

Ltac tw_simpl :=
  unfold taskw, can_get, flush_task in *;
  cbn [st prog mc nsent tmo set_st set_prog set_mc finished sumf] in *;
  repeat match goal with
         | E : st ?T = _, K : context [st ?T] |- _ => lazymatch K with E => fail | _ => rewrite E in K end
         | E : st ?T = _ |- context [st ?T] => rewrite E
         | E : prog ?T = _, K : context [prog ?T] |- _ => lazymatch K with E => fail | _ => rewrite E in K end
         | E : prog ?T = _ |- context [prog ?T] => rewrite E
         end;
  rewrite ?progw_app, ?progw_repeat, ?existsb_app, ?(existsb_repeat_false is_recv_op IPut), ?(existsb_repeat_false is_recv_op IPutFlush) in * by reflexivity;
  cbn [stw progw opw existsb is_recv_op orb b2n app] in *;
  unfold w_put, w_close in *.

Ltac b2n_gen :=
  repeat match goal with
         | |- context [b2n ?e] => let H := fresh "B" in pose proof (b2n_le1 e) as H; let v := fresh "bv" in set (v := b2n e) in *; clearbody v
         | K : context [b2n ?e] |- _ => let H := fresh "B" in pose proof (b2n_le1 e) as H; let v := fresh "bv" in set (v := b2n e) in *; clearbody v
         end.

Lemma measure_step : forall s t s', step s t = Some s' -> W s <= sumf can_get (tasks s) -> measure s' < measure s.
Proof.
  intros s t s' H HW. step_inv H; simp_proj; unfold measure, flush_debt in *; simp_proj.
  all: repeat match goal with E : q _ = _ |- _ => rewrite E in *; clear E end.
  all: try match goal with |- context [after_item ?o _] => destruct o; cbn [after_item fst snd] in * end.
  all: try wake_cases; sumf_norm; tw_simpl; rewrite ?app_length; cbn [length] in *.
  all: destruct (flushed s) eqn:EF; try discriminate; b2n_gen; try lia.
Qed.

Lemma sumf_le : forall (f g : task -> nat) l, (forall u U, nth_error l u = Some U -> f U <= g U) -> sumf f l <= sumf g l.
Proof.
  induction l as [|a l IH]; intros H; cbn [sumf]; [lia|].
  pose proof (H 0 a eq_refl). assert (sumf f l <= sumf g l) by (apply IH; intros u U HU; apply (H (S u)); exact HU). lia.
Qed.

Lemma in_get_can_get : forall T, stat_ok T -> in_get T <= can_get T.
Proof.
  intros T H. unfold stat_ok, in_get, can_get in *.
  destruct (st T); try lia; destruct (prog T) as [|o p]; try contradiction; destruct o; try contradiction; cbn; lia.
Qed.

(* _waiting_receivers never exceeds the number of tasks that can be inside get() *)
Lemma reach_W_can_get : forall c s, Reach c s -> W s <= sumf can_get (tasks s).
Proof.
  intros c s R. destruct (reach_gen _ _ R) as [I1 _ _ _ IT _ _]. rewrite (i_W _ I1).
  apply sumf_le. intros u U HU. apply in_get_can_get. eapply IT; eauto.
Qed.

Theorem measure_decreases : forall c s t s', Reach c s -> step s t = Some s' -> measure s' < measure s.
Proof. intros c s t s' R H. eapply measure_step; eauto. eapply reach_W_can_get; eauto. Qed.

Lemma exec_reach : forall c sch s s', Reach c s -> exec s sch = Some s' -> Reach c s'.
Proof.
  induction sch as [|t r IH]; intros s s' R H; cbn [exec] in H.
  - injection H as <-. exact R.
  - destruct (step s t) as [s1|] eqn:E; [|discriminate]. eapply IH; [|exact H]. econstructor; eauto.
Qed.

Lemma exec_measure : forall c sch s s', Reach c s -> exec s sch = Some s' -> length sch + measure s' <= measure s.
Proof.
  induction sch as [|t r IH]; intros s s' R H; cbn [exec] in H.
  - injection H as <-. cbn. lia.
  - destruct (step s t) as [s1|] eqn:E; [|discriminate].
    pose proof (measure_decreases _ _ _ _ R E). assert (R1 : Reach c s1) by (econstructor; eauto).
    specialize (IH _ _ R1 H). cbn [length]. lia.
Qed.

Lemma reach_measure_bound : forall c s, Reach c s -> measure s <= bound c.
Proof.
  induction 1 as [|s t s' R IH Hs]; [unfold bound; lia|].
  pose proof (measure_decreases _ _ _ _ R Hs). lia.
Qed.

(* every run from a reachable state has at most [bound c] steps (indeed at most [measure s]) *)
Theorem run_bounded : forall c s sch s', Reach c s -> exec s sch = Some s' ->
  length sch + measure s' <= measure s /\ measure s <= bound c /\ length sch <= bound c.
Proof.
  intros c s sch s' R H. pose proof (exec_measure _ _ _ _ R H). pose proof (reach_measure_bound _ _ R). lia.
Qed.

(* ---------------------------------------------------------------- nothing can move <-> quiescent *)
Lemma runnable_steps : forall s t T, alltasks stat_ok (tasks s) -> nth_error (tasks s) t = Some T -> runnable T = true ->
  exists s', step s t = Some s'.
Proof.
  intros s t T A HT HR. pose proof (A _ _ HT) as SO. unfold step, step_b. rewrite HT. unfold runnable, stat_ok in *.
  destruct (st T) eqn:ES; try discriminate.
  - destruct (mc T); [eexists; reflexivity|]. destruct (step_ready s t T) as [s1 b]. eexists; reflexivity.
  - destruct (prog T) as [|o p]; [contradiction|]. destruct o; try contradiction; destruct (mc T);
      try (eexists; reflexivity); destruct (do_get s t T _ p) as [s1 b]; eexists; reflexivity.
  - eexists; reflexivity.
  - destruct (prog T) as [|o p]; [contradiction|]. destruct o; try contradiction; destruct (mc T);
      try (eexists; reflexivity); destruct (do_put s t T _ _ p) as [s1 b]; eexists; reflexivity.
  - eexists; reflexivity.
Qed.

Lemma not_runnable_none : forall s t T, nth_error (tasks s) t = Some T -> runnable T = false -> step s t = None.
Proof.
  intros s t T HT HR. unfold step, step_b. rewrite HT. unfold runnable in HR. destruct (st T); try discriminate; reflexivity.
Qed.

Lemma quiescent_stuck : forall s, quiescent s = true -> stuck s.
Proof.
  intros s Q t. destruct (nth_error (tasks s) t) as [T|] eqn:HT.
  - eapply not_runnable_none; eauto. unfold quiescent in Q. rewrite forallb_forall in Q.
    specialize (Q T (nth_error_In _ _ HT)). apply negb_true_iff in Q. exact Q.
  - unfold step, step_b. rewrite HT. reflexivity.
Qed.

Lemma quiescent_false : forall s, quiescent s = false -> exists t T, nth_error (tasks s) t = Some T /\ runnable T = true.
Proof.
  intros s Q. unfold quiescent in Q.
  assert (HX : exists T, In T (tasks s) /\ runnable T = true).
  { induction (tasks s) as [|a l IH]; cbn in Q; [discriminate|].
    destruct (runnable a) eqn:ER; cbn in Q.
    - exists a. split; [left; reflexivity|exact ER].
    - destruct (IH Q) as (T & HI & HT). exists T. split; [right; exact HI|exact HT]. }
  destruct HX as (T & HI & HT). apply In_nth_error in HI as [t Ht]. eauto.
Qed.

(* progress: in a reachable state that is not quiescent some task can move *)
Theorem progress : forall c s, Reach c s -> quiescent s = false -> exists t s', step s t = Some s'.
Proof.
  intros c s R Q. destruct (reach_gen _ _ R) as [_ _ _ _ IT _ _].
  destruct (quiescent_false _ Q) as (t & T & HT & HR). destruct (runnable_steps s t T IT HT HR) as [s' H]. eauto.
Qed.

Theorem stuck_iff_quiescent : forall c s, Reach c s -> (stuck s <-> quiescent s = true).
Proof.
  intros c s R. split; [|apply quiescent_stuck].
  intros S. destruct (quiescent s) eqn:Q; auto. destruct (progress _ _ R Q) as (t & s' & H). rewrite (S t) in H. discriminate.
Qed.

(* every maximal run (one that cannot be extended) from a reachable state ends in a quiescent state after at most
   [bound c] steps *)
Theorem maximal_run_quiescent : forall c s sch s', Reach c s -> exec s sch = Some s' -> stuck s' ->
  quiescent s' = true /\ length sch <= bound c /\ Reach c s'.
Proof.
  intros c s sch s' R H S. assert (R' : Reach c s') by (eapply exec_reach; eauto).
  split; [apply (stuck_iff_quiescent c); auto|]. split; auto. destruct (run_bounded c s sch s' R H) as (_ & _ & L). exact L.
Qed.

(* there is no infinite run *)
Theorem no_infinite_run : forall c s (f : nat -> state), Reach c s -> f 0 = s ->
  (forall i, exists t, step (f i) t = Some (f (S i))) -> False.
Proof.
  intros c s f R F0 HS.
  assert (K : forall i, Reach c (f i) /\ i + measure (f i) <= measure s).
  { induction i as [|i [Ri Mi]].
    - rewrite F0. split; [exact R|lia].
    - destruct (HS i) as [t Ht]. pose proof (measure_decreases _ _ _ _ Ri Ht).
      split; [econstructor; eauto|lia]. }
  destruct (K (S (measure s))) as [_ M]. lia.
Qed.

(* any scheduler that picks a task able to move whenever the state is not quiescent reaches a quiescent state
   within [bound c] segments *)
Lemma drive_reach : forall c ch fuel s, Reach c s -> Reach c (drive ch fuel s).
Proof.
  induction fuel as [|f IH]; intros s R; cbn [drive]; auto.
  destruct (step s (ch s)) as [s1|] eqn:E; auto. apply IH. econstructor; eauto.
Qed.

Lemma drive_quiescent : forall c ch, (forall s, Reach c s -> quiescent s = false -> step s (ch s) <> None) ->
  forall fuel s, Reach c s -> measure s <= fuel -> quiescent (drive ch fuel s) = true.
Proof.
  intros c ch Fair. induction fuel as [|f IH]; intros s R M; cbn [drive].
  - destruct (quiescent s) eqn:Q; auto. destruct (progress _ _ R Q) as (t & s' & H).
    pose proof (measure_decreases _ _ _ _ R H). lia.
  - destruct (step s (ch s)) as [s1|] eqn:E.
    + apply IH; [econstructor; eauto|]. pose proof (measure_decreases _ _ _ _ R E). lia.
    + destruct (quiescent s) eqn:Q; auto. exfalso. apply (Fair s R Q). exact E.
Qed.

Theorem scheduler_terminates : forall c ch, (forall s, Reach c s -> quiescent s = false -> step s (ch s) <> None) ->
  forall s, Reach c s -> quiescent (drive ch (bound c) s) = true /\ Reach c (drive ch (bound c) s).
Proof.
  intros c ch Fair s R. split; [|apply drive_reach; auto].
  eapply drive_quiescent; eauto. apply reach_measure_bound; auto.
Qed.

(* the first-runnable scheduler is such a scheduler *)
Lemma first_runnable_spec : forall l i, forallb (fun T => negb (runnable T)) l = false ->
  exists T, nth_error l (first_runnable i l - i) = Some T /\ runnable T = true /\ i <= first_runnable i l.
Proof.
  induction l as [|a l IH]; intros i H; cbn in H; [discriminate|]. cbn [first_runnable].
  destruct (runnable a) eqn:ER; cbn in H.
  - exists a. rewrite Nat.sub_diag. cbn. auto.
  - destruct (IH (S i) H) as (T & HT & HR & HL). exists T.
    replace (first_runnable (S i) l - i) with (S (first_runnable (S i) l - S i)) by lia. cbn. split; auto. split; auto. lia.
Qed.

Lemma pick_first_fair : forall c s, Reach c s -> quiescent s = false -> step s (pick_first s) <> None.
Proof.
  intros c s R Q. destruct (reach_gen _ _ R) as [_ _ _ _ IT _ _]. unfold quiescent in Q.
  destruct (first_runnable_spec _ 0 Q) as (T & HT & HR & _). rewrite Nat.sub_0_r in HT.
  destruct (runnable_steps s _ T IT HT HR) as [s' H]. unfold pick_first. rewrite H. discriminate.
Qed.
