(* C12 — runs without cancellation, continued: drained (G) and the quiescence theorem. *)
From BP Require Import Base.Prelude Model.Channel Proofs.ChannelP1 Proofs.ChannelP2 Proofs.ChannelP3 Proofs.ChannelP4.
From Coq Require Import Arith Lia.
Local Open Scope nat_scope.

(* ---- G: once some receiver has seen the end, the woken getters cover what is left of the pre-close items ---- *)
Definition invG (s : state) : Prop :=
  drained s = true -> npre s <= length (recv s) + sumf (is_st WokeGet) (tasks s).

Lemma reals_length : forall a, length (reals a) <= length a.
Proof. unfold reals. induction a as [|x a IH]; cbn [filter length]; auto. destruct x; cbn [is_real length]; lia. Qed.

Lemma in_get_split : forall ts, sumf in_get ts =
  sumf (is_st BlkGet) ts + sumf (is_st WokeGet) ts + sumf (is_st CancGet) ts.
Proof.
  induction ts as [|a ts IH]; cbn [sumf]; auto. rewrite IH. unfold in_get, is_st. destruct (st a); cbn [status_eqb b2n]; lia.
Qed.

Lemma nocancel_no_cancget : forall ts, forallb task_nocancel ts = true -> sumf (is_st CancGet) ts = 0.
Proof.
  intros ts H. apply no_blk_count. intros u U HU. pose proof (forallb_nth _ _ _ _ H HU) as HN.
  unfold task_nocancel in HN. unfold is_st. destruct (st U); cbn in *; auto. rewrite andb_false_r in HN. discriminate.
Qed.

Lemma G_step : forall s t s', step s t = Some s' ->
  nocancel_state s -> hist_body s -> inv1 s -> invB s -> invF s -> invG s -> invG s'.
Proof.
  intros s t s' H N [HS HU] I1 IB IF I.
  pose proof (i_W _ I1) as HW. rewrite in_get_split, (nocancel_no_cancget _ N) in HW.
  pose proof (i_np _ I1) as NP. pose proof (i_dc _ I1) as DC.
  pose proof (reals_length (q s)) as RL.
  assert (LS : length (sent s) = length (recv s) + length (reals (q s)))
    by (rewrite HS, app_length; unfold received; rewrite map_length; reflexivity).
  clear HS I1.
  step_inv H; simp_proj; unfold invG, invB, invF in *; simp_proj; try exact I.
  all: try nocancel_contra.
  all: norm_tests; norm_done.
  all: repeat match goal with E : q _ = _ |- _ => rewrite E in *; clear E end.
  all: cbn [has_flush existsb is_real negb orb nf length reals filter] in *; rewrite ?app_length; cbn [length].
  all: try (exfalso; lia).
  all: try wake_cases; sumf_norm; meas_simpl.
  all: intros HD; try specialize (I HD); try specialize (DC HD); try specialize (NP DC); try specialize (IF eq_refl); try lia.
  all: specialize (NP ltac:(assumption)); lia.
Qed.

(* ---- a task's status agrees with the operation it is suspended in ---- *)
Definition stat_ok (T : task) : Prop :=
  match st T with
  | BlkGet | WokeGet | CancGet => match prog T with (IRecv | IRecvLoop | IIter _) :: _ => True | _ => False end
  | BlkPut | WokePut | CancPut => match prog T with (IPut | IPutFlush) :: _ => True | _ => False end
  | Fin _ => prog T = []
  | Ready => True
  end.

Lemma stat_wakeup_get : forall l ts, alltasks stat_ok ts -> alltasks stat_ok (snd (wakeup BlkGet WokeGet l ts)).
Proof.
  intros l ts A. destruct (wakeup_effect BlkGet WokeGet l ts eq_refl) as [[-> _]|(u & U & HU & HS & _ & ->)]; auto.
  apply alltasks_upd; auto. pose proof (A _ _ HU) as H. unfold stat_ok in *. rewrite HS in H. exact H.
Qed.
Lemma stat_wakeup_put : forall l ts, alltasks stat_ok ts -> alltasks stat_ok (snd (wakeup BlkPut WokePut l ts)).
Proof.
  intros l ts A. destruct (wakeup_effect BlkPut WokePut l ts eq_refl) as [[-> _]|(u & U & HU & HS & _ & ->)]; auto.
  apply alltasks_upd; auto. pose proof (A _ _ HU) as H. unfold stat_ok in *. rewrite HS in H. exact H.
Qed.

Lemma stat_step : forall s t s', step s t = Some s' -> alltasks stat_ok (tasks s) -> alltasks stat_ok (tasks s').
Proof.
  intros s t s' H A. step_inv H; simp_proj.
  all: try apply alltasks_app1; repeat (apply alltasks_upd);
       try apply stat_wakeup_get; try apply stat_wakeup_put; try exact A.
  all: try match goal with |- context [after_item ?o _] => destruct o; cbn [after_item fst snd] in * end.
  all: try (unfold stat_ok, finished, set_prog, set_st, set_mc, flush_task; cbn [st prog];
            repeat match goal with E1 : st ?T = _ |- context [st ?T] => rewrite E1 end; solve [exact I | reflexivity]).
  all: match goal with E : nth_error (upd (tasks _) _ ?x) _ = Some ?U, E0 : st ?T0 = Ready |- _ =>
         assert (HX : stat_ok x) by (unfold stat_ok, set_prog; cbn [st prog]; rewrite E0; exact I);
         pose proof (alltasks_upd stat_ok _ _ x A HX _ _ E) as HU1 end.
  all: unfold stat_ok, set_st, set_mc in *; cbn [st prog] in *;
       repeat match goal with E1 : st ?T = _ |- _ => rewrite E1 in * end; try exact HU1.
Qed.

(* ---------------------------------------------------------------- assembling the invariants over Reach *)
Record inv_gen (s : state) : Prop := {
  g_1 : inv1 s; g_B : invB s; g_D : invD s;
  g_S : alltasks shapeP (tasks s); g_T : alltasks stat_ok (tasks s);
  g_N : numbered s; g_H : hist_inv s
}.

Lemma init_user : forall l, forallb user_op (map compile l) = true.
Proof. induction l as [|o l IH]; cbn; auto. destruct o; cbn; auto. Qed.

Theorem reach_gen : forall c s, Reach c s -> inv_gen s.
Proof.
  induction 1 as [|s t s' R IH Hs].
  - constructor.
    + apply (reach_inv1 c). constructor.
    + intros HB. exfalso. rewrite sumf_init_zero in HB; [lia|reflexivity].
    + intros HB. exfalso. rewrite sumf_init_zero in HB; [lia|reflexivity].
    + intros u U HU. eapply (init_tasks_forall shapeP); eauto. intros pb. right. left. apply init_user.
    + intros u U HU. eapply (init_tasks_forall stat_ok); eauto. intros pb. exact I.
    + intros v. cbn [sent init filter]. unfold nso.
      destruct (nth_error (tasks (init c)) v) as [T|] eqn:E; [|reflexivity].
      replace (nsent T) with 0; [reflexivity|]. symmetry.
      eapply (init_tasks_forall (fun T => nsent T = 0)); eauto.
    + intros _. split; reflexivity.
  - destruct IH as [I1 IB ID IS IT IN IHh]. constructor.
    + apply (reach_inv1 c). econstructor; eauto.
    + eapply B_step; eauto. apply I1.
    + eapply D_step; eauto. apply I1.
    + eapply shape_step; eauto.
    + eapply stat_step; eauto.
    + eapply numbered_step; eauto.
    + eapply hist_step; eauto.
Qed.

Record inv_nc (s : state) : Prop := {
  n_N : nocancel_state s; n_H : hist_body s;
  n_C : invC s; n_E : invE s; n_F : invF s; n_G : invG s
}.

Lemma init_nocancel : forall c, cfg_nocancel c = true -> nocancel_state (init c).
Proof.
  intros c H. unfold nocancel_state. cbn [tasks init]. unfold cfg_nocancel in H.
  induction (c_progs c) as [|pb l IH]; cbn in *; auto.
  apply andb_true_iff in H as [H1 H2]. rewrite IH by auto. rewrite andb_true_r.
  unfold task_nocancel. cbn [mc prog st negb andb]. rewrite andb_true_r.
  clear - H1. induction (fst pb) as [|o p IHp]; cbn in *; auto.
  apply andb_true_iff in H1 as [Ho Hp]. rewrite IHp by auto. destruct o; cbn in *; auto.
Qed.

Theorem reach_nc : forall c s, Reach c s -> cfg_nocancel c = true -> inv_nc s.
Proof.
  intros c s R NC. induction R as [|s t s' R IH Hs].
  - constructor.
    + apply init_nocancel; auto.
    + split; reflexivity.
    + intros HF. discriminate HF.
    + intros HF. discriminate HF.
    + intros HF. discriminate HF.
    + intros HF. discriminate HF.
  - destruct IH as [JN JH JC JE JF JG]. pose proof (reach_gen _ _ R) as G. destruct G as [I1 IB ID IS IT IN IHh].
    pose proof I1 as I1'. destruct I1'.
    constructor.
    + eapply nocancel_step; eauto.
    + eapply hist_step_gen; eauto.
    + eapply C_step; eauto.
    + eapply E_step; eauto.
    + eapply F_step; eauto.
    + eapply G_step; eauto.
Qed.
