(* C08 evolution: the records of an encoding, field by field.
     records_split_recs     a chunk the schema-less reader (Model/C07Wire.v) accepts, followed by anything, is
                            framed by betterproto's own reader into the records of the chunk, then the rest
     known_chunks           the chunks Message.dump writes for the kept fields = the records (of all chunks)
                            selected by a predicate that agrees with "the field is kept" on field numbers
     split_free_canonical   encodings meet the side condition split_free of C08EvolutionP.evolution_bytes *)
From Coq Require Import ZArith List Bool Lia.
From BP Require Import Base.Prelude Model.Types Model.Varint Model.Scalar Model.Float Model.Utf8.
From BP Require Import Model.Object Model.Eq Model.TimeCore Model.Encode Model.Decode Model.WellFormed Model.C08Step.
From BP Require Import Spec.Varint.
From BP Require Import Proofs.C01Unfold.
From BP Require Import Proofs.C08FrameP Proofs.C08StepP Proofs.C08UnknownP Proofs.C08EvolutionP Proofs.C08EvoDef.
From BP Require Model.C07Wire Proofs.C07WireP Proofs.C07EncP Proofs.C07ObsP.
Import ListNotations.

(* ---------- (1) Recs chunk ++ anything, framed by frame1 ---------- *)
Lemma records_nil_inv ps : records [] ps -> ps = [].
Proof.
  intros H. remember (@nil byte) as s eqn:Es. destruct H as [|s p s' ps Hne Hf Hr]; [reflexivity|].
  congruence.
Qed.

Lemma records_split_recs : forall a ra, C07WireP.Recs a ra ->
  forall b ps, records (a ++ b) ps ->
  exists pa pb, ps = pa ++ pb /\ records a pa /\ records b pb /\ map (fun p => (pnum p, pwt p)) pa = ra.
Proof.
  induction 1 as [|tagb payload rest0 rs Sh Hn Hp Hr IH]; intros b ps Hrec.
  - exists [], ps. cbn [app] in *. split; [reflexivity|]. split; [constructor|]. split; [exact Hrec | reflexivity].
  - assert (Hne : tagb <> []) by (destruct tagb; [cbn in Sh; tauto | discriminate]).
    rewrite <- !app_assoc in Hrec.
    remember (tagb ++ payload ++ rest0 ++ b) as s eqn:Es.
    destruct Hrec as [|s p s' ps' Hsne Hf Hrec'].
    { destruct tagb; [congruence | discriminate]. }
    destruct (frame1_frame _ _ _ Hf) as (Eraw & _ & _ & Hext).
    unfold frame1 in Hf.
    destruct (load_varint s) as [[[nw r] s1]|] eqn:Hv; cbn [bind] in Hf; [|discriminate].
    apply C07WireP.load_varint_rd in Hv. destruct Hv as (Hv & Hnw).
    rewrite Es in Hv. rewrite C07WireP.rd_varint_shape in Hv by exact Sh.
    injection Hv as <- <-.
    pose proof (C07WireP.rd_payload_ok _ _ (rest0 ++ b) Hp) as Hpay.
    destruct (C07WireP.load_field_rd _ _ _ _ _ _ _ Hnw Hf Hpay) as (<- & Hpn & Hpw).
    assert (Ep : praw p = tagb ++ payload).
    { apply (app_inv_tail (rest0 ++ b)). rewrite <- Eraw, Es, <- app_assoc. reflexivity. }
    destruct (IH b ps' Hrec') as (pa' & pb & -> & Ra & Rb & Em).
    exists (p :: pa'), pb. split; [reflexivity|]. split; [|split; [exact Rb|]].
    + rewrite app_assoc, <- Ep. eapply records_cons; [| apply Hext | exact Ra].
      rewrite Ep. destruct tagb; [congruence | discriminate].
    + cbn [map]. rewrite Hpn, Hpw, Em. reflexivity.
Qed.

(* ---------- (2) the chunks of the kept fields ---------- *)
Lemma enc_slot_sel sc cur cur' i i' f x :
  group_selects cur' f i' = group_selects cur f i -> enc_slot sc cur' i' f x = enc_slot sc cur i f x.
Proof. intros E. unfold enc_slot. rewrite E. reflexivity. Qed.

Lemma filter_mask_nil {A} (l : list A) : filter_mask [] l = l.
Proof. destruct l; reflexivity. Qed.

Lemma sigma_nil k : sigma [] k = k.
Proof. destruct k; reflexivity. Qed.

Lemma kept_nil k : kept [] k = true.
Proof. unfold kept. destruct k; reflexivity. Qed.

Lemma filter_all {A} (P : A -> bool) l : (forall x, In x l -> P x = true) -> filter P l = l.
Proof.
  induction l as [|y l IH]; intros H; [reflexivity|]. cbn [filter].
  rewrite (H y (or_introl eq_refl)). f_equal. apply IH. intros x Hx. apply H. right. exact Hx.
Qed.

Lemma filter_none {A} (P : A -> bool) l : (forall x, In x l -> P x = false) -> filter P l = [].
Proof.
  induction l as [|y l IH]; intros H; [reflexivity|]. cbn [filter].
  rewrite (H y (or_introl eq_refl)). apply IH. intros x Hx. apply H. right. exact Hx.
Qed.

Lemma raw_of_app a b : raw_of (a ++ b) = raw_of a ++ raw_of b.
Proof. unfold raw_of. rewrite map_app, concat_app. reflexivity. Qed.

Lemma known_chunks_aux sn cur cur' (P : parsed -> bool) : forall raw mask fs i i' b ps,
  length raw = length fs ->
  (forall f, In f fs -> 1 <= fnum f) ->
  enc_slots sn cur i raw fs = Ok b -> records b ps ->
  (forall k f, nth_error fs k = Some f -> kept mask k = true ->
               group_selects cur' f (i' + sigma mask k) = group_selects cur f (i + k)) ->
  (forall k f p, nth_error fs k = Some f -> In p ps -> pnum p = fnum f -> P p = kept mask k) ->
  enc_slots sn cur' i' (filter_mask mask raw) (filter_mask mask fs) = Ok (raw_of (filter P ps)).
Proof.
  induction raw as [|x raw IH]; intros mask fs i i' b ps Hlen Hnum E Hrec Hsel HP.
  - destruct fs as [|f fs]; [|discriminate]. cbn in E. injection E as <-.
    apply records_nil_inv in Hrec. subst ps. destruct mask; reflexivity.
  - destruct fs as [|f fs]; [discriminate|]. cbn [length] in Hlen. injection Hlen as Hlen.
    rewrite enc_slots_cons in E.
    destruct (enc_slot sn cur i f x) as [here|] eqn:Eh; cbn [bind] in E; [|discriminate].
    destruct (enc_slots sn cur (S i) raw fs) as [rest|] eqn:Er; cbn [bind] in E; [|discriminate].
    injection E as <-.
    assert (Hnf : 1 <= fnum f) by (apply Hnum; left; reflexivity).
    destruct (C07ObsP.enc_here_allnum sn cur f i x here Hnf Eh) as (rh & Rh & Fh).
    destruct (records_split_recs _ _ Rh _ _ Hrec) as (pa & pb & -> & Ra & Rb & Em).
    assert (Hpa : forall p, In p pa -> pnum p = fnum f).
    { intros p Hp. rewrite Forall_forall in Fh.
      specialize (Fh (pnum p, pwt p)). cbn [fst] in Fh. apply Fh. rewrite <- Em.
      apply (in_map (fun p => (pnum p, pwt p))), Hp. }
    assert (HPa : forall p, In p pa -> P p = kept mask 0).
    { intros p Hp. apply (HP 0%nat f p); [reflexivity | apply in_or_app; left; exact Hp | apply Hpa, Hp]. }
    pose proof (records_raw _ _ Ra) as Ehere.
    rewrite filter_app, raw_of_app.
    assert (Hnum' : forall f0, In f0 fs -> 1 <= fnum f0) by (intros f0 H0; apply Hnum; right; exact H0).
    destruct mask as [|bm m].
    + (* nothing deleted from here on *)
      rewrite !filter_mask_nil.
      rewrite (filter_all P pa) by (intros p Hp; rewrite (HPa p Hp); apply kept_nil).
      rewrite enc_slots_cons.
      rewrite (enc_slot_sel sn cur cur' i i' f x).
      2:{ specialize (Hsel 0%nat f eq_refl (kept_nil 0)). cbn [sigma] in Hsel.
          rewrite !Nat.add_0_r in Hsel. exact Hsel. }
      rewrite Eh. cbn [bind].
      specialize (IH [] fs (S i) (S i') rest pb Hlen Hnum' Er Rb).
      rewrite !filter_mask_nil in IH. rewrite IH.
      * cbn [bind]. rewrite <- Ehere. reflexivity.
      * intros k f0 Hk _. specialize (Hsel (S k) f0 Hk (kept_nil _)).
        rewrite sigma_nil in *.
        replace (S i' + k)%nat with (i' + S k)%nat by lia.
        replace (S i + k)%nat with (i + S k)%nat by lia. exact Hsel.
      * intros k f0 p Hk Hp Hpn. rewrite kept_nil. rewrite <- (kept_nil (S k)).
        apply (HP (S k) f0 p); [exact Hk | apply in_or_app; right; exact Hp | exact Hpn].
    + cbn [filter_mask].
      assert (HselT : forall d, d = (if bm then 1 else 0)%nat ->
                forall k f0, nth_error fs k = Some f0 -> kept m k = true ->
                group_selects cur' f0 (d + i' + sigma m k) = group_selects cur f0 (S i + k)).
      { intros d -> k f0 Hk Hkept. specialize (Hsel (S k) f0 Hk Hkept). cbn [sigma] in Hsel.
        replace ((if bm then 1 else 0) + i' + sigma m k)%nat with (i' + ((if bm then 1 else 0) + sigma m k))%nat by lia.
        replace (S i + k)%nat with (i + S k)%nat by lia. exact Hsel. }
      assert (HPT : forall k f0 p, nth_error fs k = Some f0 -> In p pb -> pnum p = fnum f0 -> P p = kept m k).
      { intros k f0 p Hk Hp Hpn. change (kept m k) with (kept (bm :: m) (S k)).
        apply (HP (S k) f0 p); [exact Hk | apply in_or_app; right; exact Hp | exact Hpn]. }
      change (kept (bm :: m) 0) with bm in HPa.
      destruct bm.
      * rewrite (filter_all P pa) by exact HPa.
        rewrite enc_slots_cons.
        rewrite (enc_slot_sel sn cur cur' i i' f x).
        2:{ specialize (Hsel 0%nat f eq_refl eq_refl). cbn [sigma] in Hsel.
            rewrite !Nat.add_0_r in Hsel. exact Hsel. }
        rewrite Eh. cbn [bind].
        rewrite (IH m fs (S i) (S i') rest pb Hlen Hnum' Er Rb).
        -- cbn [bind]. rewrite <- Ehere. reflexivity.
        -- intros k f0 Hk Hkept. apply (HselT 1%nat eq_refl k f0 Hk Hkept).
        -- exact HPT.
      * rewrite (filter_none P pa) by exact HPa.
        rewrite (IH m fs (S i) i' rest pb Hlen Hnum' Er Rb).
        -- reflexivity.
        -- intros k f0 Hk Hkept. apply (HselT 0%nat eq_refl k f0 Hk Hkept).
        -- exact HPT.
Qed.

Lemma known_chunks sn : forall mask raw fs cur i cur' i' b ps (P : parsed -> bool),
  length raw = length fs ->
  (forall f, In f fs -> 1 <= fnum f) ->
  enc_slots sn cur i raw fs = Ok b -> records b ps ->
  (forall k f, nth_error fs k = Some f -> kept mask k = true ->
               group_selects cur' f (i' + sigma mask k) = group_selects cur f (i + k)) ->
  (forall k f p, nth_error fs k = Some f -> In p ps -> pnum p = fnum f -> P p = kept mask k) ->
  enc_slots sn cur' i' (filter_mask mask raw) (filter_mask mask fs) = Ok (raw_of (filter P ps)).
Proof.
  intros mask raw fs cur i cur' i' b ps P. apply known_chunks_aux.
Qed.

(* ---------- (3) encodings are split-free ---------- *)
Lemma selects_not_false cur f i g :
  fgroup f = Some g -> group_selects cur f i <> Some false -> nth g cur None = Some i.
Proof.
  unfold group_selects. intros -> H.
  destruct (nth g cur None) as [j|]; cbn [opt_nat_eqb] in H; [|congruence].
  destruct (Nat.eqb j i) eqn:E; [|congruence]. apply Nat.eqb_eq in E. congruence.
Qed.

Lemma split_free_canonical sn masks c raw sow cur b1 ps :
  nodup_z (map fnum (cfields (get_class sn c))) = true ->
  (forall f, In f (cfields (get_class sn c)) -> 1 <= fnum f) ->
  enc_obj sn (Obj c raw sow [] cur) = Ok b1 -> records b1 ps ->
  split_free (get_class sn c) (get_class (drop_fields masks sn) c) ps = true.
Proof.
  intros Hnd Hnum E Hrec.
  set (cdn := get_class sn c) in *. set (cdo := get_class (drop_fields masks sn) c).
  rewrite C07ObsP.enc_obj_unfold in E. fold cdn in E.
  destruct (C07ObsP.enc_fields sn cur 0 raw (cfields cdn)) as [body|] eqn:Ef; cbn [bind] in E; [|discriminate].
  injection E as <-.
  destruct (C07ObsP.enc_fields_recs sn cur raw 0%nat _ body Hnum Ef) as (rs & R & Hin & _).
  destruct (records_split_recs _ _ R _ _ Hrec) as (pa & pb & -> & _ & Rb & Em).
  apply records_nil_inv in Rb. subst pb. rewrite app_nil_r.
  (* every record carries the number of a field that is not an unselected member *)
  assert (Hseen : forall p, In p pa ->
            exists j f, nth_error (cfields cdn) j = Some f /\ fnum f = pnum p /\ group_selects cur f j <> Some false).
  { intros p Hp. destruct (Hin (pnum p)) as (j & f & Hj & _ & Hf & Hs).
    - unfold C07Wire.numbers. rewrite <- Em, map_map. cbn [fst].
      apply (in_map pnum), Hp.
    - exists j, f. cbn [Nat.add] in Hs. repeat split; assumption. }
  (* the field a record is decoded into is that field *)
  assert (Hfield : forall p fp, In p pa -> field_of cdn p = Some fp ->
            fnum fp = pnum p /\ wire_type_fits fp (pwt p) = true /\
            exists j, nth_error (cfields cdn) j = Some fp /\ group_selects cur fp j <> Some false).
  { intros p fp Hp Hfo. unfold field_of in Hfo.
    destruct (field_by_number cdn (pnum p)) as [[jp f']|] eqn:Fp; [|discriminate].
    destruct (wire_type_fits f' (pwt p)) eqn:Wp; [|discriminate]. injection Hfo as ->.
    destruct (fbn_some _ _ _ _ Fp) as (_ & Hfn).
    split; [exact Hfn|]. split; [exact Wp|].
    destruct (Hseen p Hp) as (j & f & Hj & Hf & Hs).
    destruct (fbn_in cdn f Hnd (nth_error_In _ _ Hj)) as (i0 & Hi0).
    rewrite Hf, Fp in Hi0. injection Hi0 as _ <-.
    exists j. split; assumption. }
  unfold split_free. apply forallb_forall. intros u Hu. apply forallb_forall. intros k Hk.
  destruct (field_of cdn u) as [fu|] eqn:Fu; [|reflexivity].
  destruct (field_of cdn k) as [fk|] eqn:Fk; [|reflexivity].
  destruct (is_unknown cdo u) eqn:Uu; [|reflexivity].
  destruct (is_unknown cdo k) eqn:Uk; [reflexivity|]. cbn [negb andb orb].
  unfold sep_b. destruct (fgroup fk) as [g|] eqn:Gk; [|reflexivity].
  destruct (opt_nat_eqb (fgroup fu) (Some g)) eqn:Gu; [|reflexivity]. exfalso.
  assert (Gu' : fgroup fu = Some g).
  { destruct (fgroup fu) as [g'|]; cbn [opt_nat_eqb] in Gu; [|discriminate].
    apply Nat.eqb_eq in Gu. congruence. }
  destruct (Hfield u fu Hu Fu) as (Nu & Wu & ju & Hju & Su).
  destruct (Hfield k fk Hk Fk) as (Nk & Wk & jk & Hjk & Sk).
  apply (selects_not_false _ _ _ _ Gu') in Su. apply (selects_not_false _ _ _ _ Gk) in Sk.
  assert (Ej : ju = jk) by congruence. subst jk.
  assert (Ef' : fu = fk) by congruence. subst fk.
  (* the older class decodes k into fu, hence u as well *)
  destruct (older_known_newer sn masks c Hnd k Uk) as (i' & i0 & f & Fo & Fn & _).
  fold cdn in Fn. fold cdo in Fo.
  destruct (fbn_some _ _ _ _ Fo) as (Ho & _).
  unfold field_of in Fk. rewrite Fn in Fk.
  destruct (wire_type_fits f (pwt k)); [|discriminate]. injection Fk as ->.
  unfold is_unknown in Uu. rewrite <- Nu, Nk, Fo, Wu in Uu. discriminate.
Qed.
