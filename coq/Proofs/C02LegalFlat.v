(* C02, encoder side: one singular slot given the fact about its element ([slot_singular2]); scalar elements;
   and the message types betterproto brings itself — Timestamp, Duration (two integer fields) and the wrappers
   (one scalar field): what msg_bytes writes for a datetime / timedelta / wrapped scalar is the encoding of a flat
   message object, so the general slot walk applies and the denotation is known exactly (needed by [exact_ok]). *)
From BP Require Import Base.Prelude Model.Types Model.Varint Model.Scalar Model.Float Model.Utf8.
From BP Require Import Model.Object Model.Eq Model.TimeCore Model.Encode Model.Decode Model.WellFormed Model.C01Def.
From BP Require Import Spec.Varint Spec.Wire.
From BP Require Import Proofs.BytesP Proofs.LenP Proofs.C02Abs Proofs.C02WireP Proofs.C02ListP Proofs.C02StepP Proofs.C02SimP.
From BP Require Import Proofs.C01Frame Proofs.C01Elem Proofs.C01Builtin Proofs.C01Unfold Proofs.C01Value Proofs.C01Slot Proofs.C01Main
     Proofs.C01Stable.
From BP Require Import Proofs.C02LegalSpec Proofs.C02LegalLeaf Proofs.C02LegalWalk.
From BP Require Import gen.Tables.
From Coq Require Import ZifyBool.
Ltac Zify.zify_post_hook ::= Z.to_euclidean_division_equations.

(* what _serialize_single writes for the value x as an element of field f: nothing (only without serialize_empty),
   or one legal record of f's number that is fine as an element of f *)
Definition elem_legal_with (msg : option ptype -> pv -> result (list byte)) (sc : schema) (f : fdesc) (x : pv) : Prop :=
  forall n' se bs, serialize_with msg (fnum f) (fty f) x se (fwraps f) = Ok bs ->
    (bs = [] /\ se = false) \/
    (bs <> [] /\ (lsmall bs -> (length bs <= n')%nat ->
       exists p, rec_ok bs (fnum f, p) /\ elem_fine (nested_sem n' sc) (nested_ok_of n' sc) f p = true)).
Definition elem_legal (sc : schema) (f : fdesc) (x : pv) : Prop := elem_legal_with (msg_bytes (enc_obj sc)) sc f x.

Lemma hint_not_map f p : fhint f = HPlain p \/ fhint f = HOptional p \/ fhint f = HList p -> card_of f <> MapOf.
Proof. unfold card_of. intros [-> | [-> | ->]]; try discriminate. destruct (fgroup f); [discriminate|]. destruct (fty f); discriminate. Qed.

Lemma nothing_legal sc n' f :
  exists rs : list record, wire_ok [] rs /\
     Forall (fun r => fst r = fnum f /\ rec_fine sc (nested_sem n' sc) (nested_ok_of n' sc) f (snd r) = true) rs /\
     (sing_msg f = true -> (length rs <= 1)%nat).
Proof. exists []. split; [constructor|]. split; [constructor|]. intros _. cbn. lia. Qed.

(* a slot for which dump calls _serialize_single once *)
Lemma slot_from_ser sc cur i f x p msg d se :
  fhint f = HPlain p \/ fhint f = HOptional p ->
  enc_slot sc cur i f x = serialize_with msg (fnum f) (fty f) d se (fwraps f) ->
  elem_legal_with msg sc f d -> slot_legal sc cur i f x.
Proof.
  intros Hh Eq He n' here E Hs Hl. rewrite Eq in E.
  destruct (He n' _ _ E) as [(-> & _) | (Hne & Hrec)]; [apply nothing_legal|].
  destruct (Hrec Hs Hl) as (pl & Rp & Fp).
  exists [(fnum f, pl)]. split; [apply wire_ok_one; exact Rp|]. split; [|intros _; cbn; lia].
  constructor; [|constructor]. split; [reflexivity|]. cbn [snd]. apply elem_rec_fine; [|exact Fp].
  apply (hint_not_map f p). tauto.
Qed.

Lemma slot_singular2 sc cur i f x p :
  is_singular x = true -> group_selects cur f i <> Some false ->
  fhint f = HPlain p \/ fhint f = HOptional p ->
  elem_legal sc f x -> slot_legal sc cur i f x.
Proof.
  intros Hx Hsel Hh He.
  pose proof (enc_slot_sing sc cur i f x Hx Hsel) as Eq.
  destruct (is_default sc f x && negb (forced_of cur i f x)).
  - apply slot_legal_nothing. exact Eq.
  - eapply slot_from_ser; eauto.
Qed.

Lemma elem_scalar2 msg sc f x :
  msg_class f = None -> fwraps f = None -> 1 <= fnum f < 2 ^ 29 -> tmem (fty f) scalar_ptypes = true ->
  scalar_in_range (fty f) x = true -> elem_legal_with msg sc f x.
Proof.
  intros Hm Hw Hn Ht Hr n' se bs E. rewrite Hw in E.
  destruct (scalar_leaf _ _ _ _ _ _ Hn Ht Hr E) as [H | (Hne & Hrec)]; [left; exact H|].
  right. split; [exact Hne|]. intros Hs _. destruct (Hrec Hs) as (p & Rp & Lp).
  exists p. split; [exact Rp|]. apply leaf_elem_fine; assumption.
Qed.

(* a plain scalar field (the fields of the bundled classes) *)
Lemma plain_field_slot sc cur i nm num t x :
  1 <= num < 2 ^ 29 -> tmem t scalar_ptypes = true -> scalar_in_range t x = true ->
  slot_legal sc cur i (plain_field nm num t) x.
Proof.
  intros Hn Ht Hr.
  assert (Hx : is_singular x = true) by (destruct t, x; try discriminate Hr; reflexivity).
  apply (slot_singular2 sc cur i _ x (plain_pyty t) Hx); [discriminate | left; reflexivity|].
  apply elem_scalar2; try assumption; try reflexivity.
  unfold msg_class. cbn [plain_field fty]. destruct t; try reflexivity; discriminate Ht.
Qed.

(* _serialize_single never calls bytes(value) for a scalar type *)
Lemma serialize_no_msg msg msg' num t v se : tmem t scalar_ptypes = true ->
  serialize_with msg num t v se None = serialize_with msg' num t v se None.
Proof. intros Ht. destruct t; try (vm_compute in Ht; discriminate); reflexivity. Qed.

Lemma unknown_of_nil : unknown_of [] = [].
Proof. reflexivity. Qed.

(* ------------------------------------------------------------------ Timestamp / Duration *)
Section Layout2.
  Variables (sc : schema) (c : nat) (n1 n2 : list byte).
  Hypothesis Hsc : c01_schema_ok sc = true.
  Hypothesis Hc : get_class sc c = class_of_layout [(n1, 1, TInt64); (n2, 2, TInt32)].

  Let flat (s n : Z) : obj := Obj c [PInt s; PInt n] true [] [].

  Lemma layout2_fields : cfields (get_class sc c) = [plain_field n1 1 TInt64; plain_field n2 2 TInt32].
  Proof. rewrite Hc. reflexivity. Qed.

  Lemma layout2_enc s n : enc_obj sc (flat s n) = layout_bytes [(n1, 1, TInt64); (n2, 2, TInt32)] [s; n].
  Proof.
    unfold flat. rewrite enc_obj_unfold, layout2_fields. unfold layout_bytes.
    cbn [combine concat_map enc_slots]. fold (@concat_map (list byte * Z * ptype * Z)). cbn [concat_map].
    rewrite (enc_slot_sing sc [] 0 (plain_field n1 1 TInt64) (PInt s) eq_refl) by discriminate.
    rewrite (enc_slot_sing sc [] 1 (plain_field n2 2 TInt32) (PInt n) eq_refl) by discriminate.
    unfold forced_of, group_selects. cbn [plain_field fgroup fopt Encode.is_some orb negb is_default fhint plain_pyty fnum fty fwraps].
    rewrite !andb_true_r.
    rewrite (serialize_no_msg (msg_bytes (enc_obj sc)) no_msg 1 TInt64 (PInt s) false eq_refl).
    rewrite (serialize_no_msg (msg_bytes (enc_obj sc)) no_msg 2 TInt32 (PInt n) false eq_refl).
    destruct (s =? 0), (n =? 0); cbn [bind]; try reflexivity;
      repeat match goal with |- context [bind ?r _] => destruct r; cbn [bind] end; rewrite ?app_nil_r; reflexivity.
  Qed.

  Lemma layout2_value_ok s n : - 2 ^ 63 <= s < 2 ^ 63 -> - 2 ^ 31 <= n < 2 ^ 31 -> value_ok sc (flat s n).
  Proof.
    intros Hs Hn. split.
    - unfold flat. rewrite in_range_unfold, layout2_fields, Hc. cbn. unfold int_in. lia.
    - unfold flat. rewrite deep_msg. unfold local_ok, oneof_clean, cur_ok, no_unknown, keys_unique. cbn [ocls ocur ounk oraw].
      rewrite layout2_fields. reflexivity.
  Qed.

  Lemma layout2_abs s n : abs_obj sc (norm_obj sc (flat s n)) = AMsg [AInt s; AInt n] [].
  Proof.
    unfold flat. rewrite norm_obj_unfold, layout2_fields. cbn [norm_slots].
    rewrite (norm_slot_sing sc [] 0 (plain_field n1 1 TInt64) (PInt s) eq_refl) by discriminate.
    rewrite (norm_slot_sing sc [] 1 (plain_field n2 2 TInt32) (PInt n) eq_refl) by discriminate.
    unfold forced_of, group_selects. cbn [plain_field fgroup fopt Encode.is_some orb negb is_default fhint plain_pyty fnum fty fwraps fresh_of].
    rewrite !andb_true_r. rewrite abs_obj_eq, layout2_fields, unknown_of_nil.
    destruct (Z.eqb_spec s 0) as [->|Hs]; destruct (Z.eqb_spec n 0) as [->|Hn]; reflexivity.
  Qed.

  Lemma layout2_legal s n val :
    - 2 ^ 63 <= s < 2 ^ 63 -> - 2 ^ 31 <= n < 2 ^ 31 ->
    layout_bytes [(n1, 1, TInt64); (n2, 2, TInt32)] [s; n] = Ok val -> lsmall val ->
    legal_at sc c val (AMsg [AInt s; AInt n] []).
  Proof.
    intros Hs Hn E Hsm. rewrite <- (layout2_abs s n).
    pose proof (layout2_enc s n) as He. pose proof (layout2_value_ok s n Hs Hn) as Hv. unfold flat in *.
    apply (good2_of_slots sc c [PInt s; PInt n] true [] [] Hsc Hv); [|rewrite He; exact E | exact Hsm].
    intros k x f Hx Hf. rewrite layout2_fields in Hf.
    destruct k as [|[|k]]; cbn in Hx, Hf; try (destruct k; discriminate).
    - injection Hx as <-. injection Hf as <-. apply plain_field_slot; [lia | reflexivity | cbn; unfold int_in; lia].
    - injection Hx as <-. injection Hf as <-. apply plain_field_slot; [lia | reflexivity | cbn; unfold int_in; lia].
  Qed.
End Layout2.

Lemma datetime_legal sc us val :
  c01_schema_ok sc = true -> dt_min_us <= us <= dt_max_us ->
  (let '(s, n) := ts_pair_of_us us in layout_bytes timestamp_fields [s; n]) = Ok val -> lsmall val ->
  exists s n, legal_at sc timestamp_cls val (AMsg [AInt s; AInt n] []) /\ ts_exact s n = true.
Proof.
  intros Hsc Hr E Hs. destruct (schema_parts sc Hsc) as (_ & Hbi).
  assert (Hc : get_class sc timestamp_cls = class_of_layout timestamp_fields)
    by (rewrite builtin_class; [reflexivity | exact Hbi | apply Nat.ltb_lt; reflexivity]).
  pose proof (ts_pair_rt us Hr) as Hp. destruct (ts_pair_of_us us) as [s n] eqn:Ep.
  destruct Hp as (Hs1 & Hn1 & Hus & _).
  exists s, n. split; [apply (layout2_legal sc timestamp_cls _ _ Hsc Hc s n val Hs1 Hn1 E Hs)|].
  unfold ts_exact. rewrite Hus, Ep, !Z.eqb_refl. reflexivity.
Qed.

Lemma timedelta_legal sc us val :
  c01_schema_ok sc = true -> - 315576000000000000 <= us <= 315576000000000000 ->
  (let '(s, n) := dur_pair_of_us us in layout_bytes duration_fields [s; n]) = Ok val -> lsmall val ->
  exists s n, legal_at sc duration_cls val (AMsg [AInt s; AInt n] []) /\ dur_exact s n = true.
Proof.
  intros Hsc Hr E Hs. destruct (schema_parts sc Hsc) as (_ & Hbi).
  assert (Hc : get_class sc duration_cls = class_of_layout duration_fields)
    by (rewrite builtin_class; [reflexivity | exact Hbi | apply Nat.ltb_lt; reflexivity]).
  pose proof (dur_pair_rt us Hr) as Hp. destruct (dur_pair_of_us us) as [s n] eqn:Ep.
  destruct Hp as (Hs1 & Hn1 & Hus & _).
  exists s, n. split; [apply (layout2_legal sc duration_cls _ _ Hsc Hc s n val Hs1 Hn1 E Hs)|].
  unfold dur_exact. rewrite Hus, Ep, !Z.eqb_refl. reflexivity.
Qed.

(* ------------------------------------------------------------------ wrappers *)
Lemma wrapper_legal sc w vt wc v val :
  c01_schema_ok sc = true -> wrapper_value_type w = Some vt -> wrapper_cls w = Some wc -> scalar_in_range w v = true ->
  wrapper_bytes w v = Ok val -> lsmall val ->
  exists a, legal_at sc wc val (AMsg [a] []) /\ is_plain a = true.
Proof.
  intros Hsc Hvt Hwc Hr E Hs. destruct (schema_parts sc Hsc) as (_ & Hbi).
  destruct (wrapper_class_at sc Hbi w vt wc Hvt Hwc) as (Hc & Hw & Hst). subst w.
  assert (Hfs : cfields (get_class sc wc) = [wrapper_field vt]) by (rewrite Hc; reflexivity).
  set (flat := Obj wc [v] true [] []).
  assert (Hx : is_singular v = true) by (destruct vt, v; try discriminate Hr; reflexivity).
  assert (Hnm : match v with PMsg _ => False | _ => True end) by (destruct vt, v; try discriminate Hr; exact I).
  assert (Hfo : forced_of [] 0 (wrapper_field vt) v = false) by (destruct v; try contradiction; reflexivity).
  assert (Hdf : is_default sc (wrapper_field vt) v = is_default (mkS [] []) (wrapper_field vt) v)
    by (destruct v; try contradiction; reflexivity).
  assert (Henc : enc_obj sc flat = wrapper_bytes vt v).
  { unfold flat. rewrite enc_obj_unfold, Hfs. cbn [enc_slots].
    rewrite (enc_slot_sing sc [] _ _ _ Hx) by discriminate. rewrite Hfo, Hdf. unfold wrapper_bytes. rewrite Hvt.
    fold (wrapper_field vt). rewrite andb_true_r.
    destruct (is_default (mkS [] []) (wrapper_field vt) v); cbn [bind]; [reflexivity|].
    cbn [wrapper_field plain_field fnum fty fwraps].
    rewrite (serialize_no_msg (msg_bytes (enc_obj sc)) no_msg 1 vt v false Hst).
    destruct (serialize_with no_msg 1 vt v false None); cbn [bind]; rewrite ?app_nil_r; reflexivity. }
  assert (Hv : value_ok sc flat).
  { split.
    - unfold flat. rewrite in_range_unfold, Hfs, Hc, Nat.eqb_refl. cbn [length Nat.eqb andb cngroups slots_in_range].
      unfold slot_in_range. cbn [wrapper_field plain_field fhint fty fwraps].
      destruct v; try contradiction; try (destruct vt; discriminate Hr);
        rewrite (scalar_elem_in_range sc vt (plain_pyty vt)) by (destruct vt; exact I); rewrite Hr; reflexivity.
    - unfold flat. rewrite deep_msg. unfold local_ok, oneof_clean, cur_ok, no_unknown, keys_unique. cbn [ocls ocur ounk oraw].
      rewrite Hfs. destruct v; try contradiction; try reflexivity; destruct vt; discriminate Hr. }
  assert (Habs : exists a, abs_obj sc (norm_obj sc flat) = AMsg [a] [] /\ is_plain a = true).
  { unfold flat. rewrite norm_obj_unfold, Hfs. cbn [norm_slots].
    rewrite (norm_slot_sing sc [] _ _ _ Hx) by discriminate. rewrite Hfo, andb_true_r.
    cbn [wrapper_field plain_field fwraps fty]. rewrite abs_obj_eq, Hfs, unknown_of_nil. cbn [imap2].
    eexists. split; [reflexivity|]. unfold abs_field, card_of. cbn [plain_field fhint fgroup fty fopt fresh_of].
    destruct (is_default sc _ v); destruct vt; try discriminate Hst; destruct v; try discriminate Hr; reflexivity. }
  destruct Habs as (a & Ha & Hp). exists a. split; [|exact Hp]. rewrite <- Ha.
  apply (good2_of_slots sc wc [v] true [] [] Hsc Hv); [|fold flat; rewrite Henc; exact E | exact Hs].
  intros k x f Hkx Hf. rewrite Hfs in Hf.
  destruct k as [|k]; cbn in Hkx, Hf; try (destruct k; discriminate).
  injection Hkx as <-. injection Hf as <-. apply plain_field_slot; [lia | exact Hst | exact Hr].
Qed.
