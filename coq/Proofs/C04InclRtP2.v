(* C04 (include_default_values generic, wfx schemas), object level (B), part 4: an emitted value and its normal form are
   encoded alike.  Mirrors C04RtP2; the plain sub-message case is where all_present is needed when include_default_values=True. *)
From BP Require Import Base.Prelude Model.Types Model.Varint Model.Scalar Model.Float Model.Utf8 Model.Object Model.Eq Model.TimeCore.
From BP Require Import Model.Encode Model.WellFormed Model.Json Model.C04RepWrap.
From BP Require Import gen.Tables Proofs.BytesP Proofs.C04Def Proofs.C04ScalarP Proofs.C04ElemP Proofs.C04FieldP Proofs.C04ObjP
  Proofs.C04CurP Proofs.C04EncP Proofs.C04RtP Proofs.C04RtP2 Proofs.C04InclDef Proofs.C04InclBaseP Proofs.C04InclFieldP Proofs.C04InclObjP
  Proofs.C04InclCurP Proofs.C04InclEncP Proofs.C04InclRtP.
From Coq Require Import Lia ZifyBool.

Lemma osow_gnorm incl sc o : osow (gnorm_obj incl sc o) = true.
Proof. destruct o as [c raw s u g]. reflexivity. Qed.

Section Field.
  Variable sc : schema.
  Variable incl : bool.
  Variable n : nat.
  Hypothesis IHo : forall o', (pv_size (PMsg o') < n)%nat -> in_rangex sc o' = true -> pv_goodG incl sc (PMsg o') = true -> rt_okG incl sc o'.

  Let nc := length (classes sc).
  Let ne := length (enums sc).

  Lemma emit_gnorm ng f sel x :
    wfx_field sc ng f = true -> (fgroup f = None -> sel = None) ->
    (pv_size x < n)%nat -> x <> PPlaceholder -> x <> PNone ->
    value_okx sc f x = true -> pv_goodG incl sc x = true -> emittedG sc incl f sel x = true ->
    (incl = true -> present_cond sel f x = true) -> pv_presG incl sc x = true ->
    emit_field (enc_obj sc) sc f sel (gnorm_pv incl sc x) = emit_field (enc_obj sc) sc f sel x.
  Proof.
    intros W Hsel Hs Hx Hxn Hv Hg He Hpr Hdp.
    unfold value_okx in Hv. unfold elem_ptype in Hv.
    destruct (wfx_kind sc ng f W) as [p Hh Ho Hw Hm Hp|p w Hh Hw Ho Hm Hgr Ht Hws Sp Hp|p Hh Hw Ho Hm Hgr Hp|p Hh Hw Ho Hm Hgr Hp
                                     |pk p kt vt Hh Hw Ho Hm Hgr Ht Hk Hp|p w Hh Hw Ho Hm Hgr Ht Hws Sp Hp];
      fold nc ne in Hp; rewrite ?Hh, ?Hw in Hv.
    - (* plain *)
      assert (Hr : elem_in_rangex sc (fty f) p x = true) by (destruct x; try congruence; exact Hv).
      destruct (py_cases p) as [K|[c ->]]; [rewrite (gnorm_elem_id sc incl (fty f) p x K Hr); reflexivity|].
      assert (Et : fty f = TMessage) by (destruct (fty f); try discriminate Hp; reflexivity).
      rewrite Et in *.
      destruct x as [| | | | | | | | | | |o]; try discriminate Hr.
      rewrite gnorm_pv_msg. unfold emit_field. rewrite Ho, Et, Hw. rewrite osow_gnorm.
      (* a plain sub-message outside a oneof is present *)
      assert (Hos : fgroup f = None -> osow o = true).
      { intros G. specialize (Hsel G). subst sel. destruct incl.
        - specialize (Hpr eq_refl). unfold present_cond in Hpr. rewrite Hh in Hpr. exact Hpr.
        - unfold emittedG, field_to_json, emit in He. rewrite Et, Hw, Hh, Ho in He.
          change (ptype_eqb TMessage TMessage) with true in He. cbv iota in He. cbn [orb] in He. rewrite !orb_false_r in He.
          destruct (osow o); [reflexivity|discriminate He]. }
      assert (Flag : is_some (fgroup f) || false || osow o || match sel with Some true => true | _ => false end = true).
      { destruct (fgroup f) as [g|]; [reflexivity|]. rewrite (Hos eq_refl). reflexivity. }
      assert (Flag2 : (osow o || false) || (is_some (fgroup f) || false) = true).
      { destruct (fgroup f) as [g|]; [rewrite !orb_true_r; reflexivity|]. rewrite (Hos eq_refl). reflexivity. }
      rewrite !orb_true_r. cbn [negb andb]. rewrite andb_false_r.
      replace (is_default sc f (PMsg o) && negb (is_some (fgroup f) || false || osow o || match sel with Some true => true | _ => false end))
        with false by (rewrite Flag; cbn [negb]; rewrite andb_false_r; reflexivity).
      cbn [orb]. rewrite Flag2.
      apply serialize_with_congr. rewrite <- gnorm_pv_msg.
      exact (elem_gnorm_enc sc incl n IHo TMessage (PyMsg c) (PMsg o) Hs Hp Hr Hg Hdp).
    - (* wrapper *)
      assert (Hr : elem_in_rangex sc w p x = true) by (destruct x; try congruence; exact Hv).
      rewrite (gnorm_elem_id sc incl w p x (or_introl Sp) Hr). reflexivity.
    - (* proto3 optional *)
      assert (Hr : elem_in_rangex sc (fty f) p x = true) by (destruct x; try congruence; exact Hv).
      destruct (py_cases p) as [K|[c ->]]; [rewrite (gnorm_elem_id sc incl (fty f) p x K Hr); reflexivity|].
      assert (Et : fty f = TMessage) by (destruct (fty f); try discriminate Hp; reflexivity).
      rewrite Et in *.
      destruct x as [| | | | | | | | | | |o]; try discriminate Hr.
      rewrite gnorm_pv_msg. unfold emit_field. rewrite Ho, Et, Hw, Hgr. cbn [is_some orb]. rewrite osow_gnorm.
      cbn [negb andb orb]. rewrite !andb_false_r, !orb_true_r.
      apply serialize_with_congr. rewrite <- gnorm_pv_msg.
      exact (elem_gnorm_enc sc incl n IHo TMessage (PyMsg c) (PMsg o) Hs Hp Hr Hg Hdp).
    - (* repeated *)
      destruct x as [| | | | | | | | |l| |]; try discriminate Hv; try congruence.
      rewrite forallb_forall in Hv.
      unfold pv_goodG in Hg. cbn [pv_all] in Hg. rewrite forallb_forall in Hg.
      cbn [gnorm_pv]. unfold emit_field. rewrite Ho, Hgr.
      rewrite (is_default_list sc f p l (gnorm_pv incl sc) Hh).
      match goal with |- (if ?c then _ else _) = _ => destruct c; [reflexivity|] end.
      assert (E : forall y, In y l -> preprocess_with (msg_bytes (enc_obj sc)) (fty f) None (gnorm_pv incl sc y)
                                      = preprocess_with (msg_bytes (enc_obj sc)) (fty f) None y).
      { intros y Hy. apply (elem_gnorm_enc sc incl n IHo (fty f) p y); [|exact Hp|exact (Hv y Hy)|exact (Hg y Hy)|exact (pv_presG_list incl sc l Hdp y Hy)].
        rewrite size_list in Hs. pose proof (in_sum_size y l Hy). lia. }
      destruct (tmem (fty f) PACKED_TYPES).
      + rewrite (concat_map_map _ (gnorm_pv incl sc) l E). reflexivity.
      + apply concat_map_map. intros y Hy.
        assert (E' : preprocess_with (msg_bytes (enc_obj sc)) (fty f) (fwraps f) (gnorm_pv incl sc y)
                     = preprocess_with (msg_bytes (enc_obj sc)) (fty f) (fwraps f) y) by (rewrite Hw; exact (E y Hy)).
        rewrite (serialize_with_congr _ (fnum f) (fty f) _ _ true (fwraps f) E'). reflexivity.
    - (* map *)
      rewrite Hm in Hv.
      destruct x as [| | | | | | | | | |d|]; try discriminate Hv; try congruence.
      rewrite forallb_forall in Hv.
      unfold pv_goodG in Hg. cbn [pv_all] in Hg. rewrite forallb_forall in Hg.
      cbn [gnorm_pv]. unfold emit_field. rewrite Ho, Hgr, Hm.
      match goal with |- context [is_default sc f (PDict (map ?h _))] => rewrite (is_default_dict sc f pk p d h Hh) end.
      match goal with |- (if ?c then _ else _) = _ => destruct c; [reflexivity|] end.
      assert (E : forall ky, In ky d -> preprocess_with (msg_bytes (enc_obj sc)) vt None (gnorm_pv incl sc (snd ky))
                                        = preprocess_with (msg_bytes (enc_obj sc)) vt None (snd ky)).
      { intros [k y] Hy. cbn [snd]. specialize (Hv _ Hy). cbn [fst snd] in Hv. apply andb_prop in Hv as [_ Hv].
        apply (elem_gnorm_enc sc incl n IHo vt p y); [|exact Hp|exact Hv|exact (Hg _ Hy)|exact (pv_presG_dict incl sc d Hdp k y Hy)].
        rewrite size_dict in Hs. pose proof (in_sum_size_d k y d Hy). lia. }
      clear Hv Hg Hs He Hx Hxn Hpr Hdp. induction d as [|[k y] d IH]; [reflexivity|].
      cbn [map fst snd].
      pose proof (E (k, y) (or_introl eq_refl)) as E0. cbn [snd] in E0.
      rewrite (serialize_with_congr _ 2 vt _ _ false None E0).
      rewrite IH; [reflexivity|]. intros ky Hky. apply E. right. exact Hky.
    - (* repeated wrapper: a list of scalars is its own normal form *)
      destruct x as [| | | | | | | | |l| |]; try discriminate Hv; try congruence.
      rewrite forallb_forall in Hv.
      assert (Hv' : forall y, In y l -> scalar_in_range w y = true)
        by (intros y Hy; rewrite <- (elem_scalarx sc _ p y Sp); apply Hv, Hy).
      cbn [gnorm_pv]. rewrite (gnorm_scalar_list incl sc w l Hv'). reflexivity.
  Qed.
End Field.
