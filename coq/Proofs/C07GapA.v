(* C07 — gap analysis of the property text against Properties/C07.v, and the first group of gap-closing proofs.

   PROPERTY TEXT, clause by clause  ->  theorems that existed  ->  gap  ->  closed by (GapA = this file, GapB = C07GapB.v)

   (1) "After any sequence of constructions, attribute assignments, decodes, dict loads and copies, at most one member of each
        oneof group is set"
         -> C07_inv_init_*, C07_inv_step / step7, C07_inv_reachable / run / every_prefix: Inv after every history, no bound.
         gap a: "at most one" is only implicit in Inv (selected i readable, j <> i raises); no theorem says "two readable members
            of one group are the same member", and none gives the converse "readable EXACTLY when selected".
            -> GapB read_iff_selected (for EVERY object, no invariant needed: the reading rule alone), at_most_one_readable,
               reachable_selected_is_member (what which_one_of names is a member of that very group; nothing for a group index
               out of range).
   (2) "which_one_of names the member set last (or none)"
         -> one step at a time: C07_last_wins(_step), C07_selection_kept (which EXCLUDES parse and pickle), C07_constructor_selects_last,
            C07_parse_last / _untouched.  The harness compares with an independent last-writer tracker on samples.
         gap a: no theorem about a WHOLE history: "the member set last" is a function of the history.
            -> Model/C07GapDef.v [track] (the tracker as a specification), GapA track_sound: for every history,
               _group_current = track history - under two decidable conditions judged along the run ([trk_ok]: parse inputs are
               framed for the schema-less reader; a pickle starts from a state meeting C01's value / size condition).
         gap b: pickle round trip: C07_selection_kept says nothing, C07_inv_step only that Inv survives.
            -> GapA pickle_keeps_selection (composition with C14 / C01: _group_current is carried through bytes) and
               pickle_selection_refuted (exactness: m.a = None; pickle loses the selection, so the tracker is wrong without the
               condition).
         gap c: the tracker conditions are discharged for the histories the public API produces under C01's operation-level
            conditions -> GapA track_reachable (composition with C01's step7_good_p / C01_reachable_value_ok_parse).
         gap d: "set last" read off the tracker -> GapA track_last_assignment (the last top-level assignment to a member of g,
            nothing touching g afterwards, names it - whatever the value), track_never_touched (none).
         gap e: m.from_dict(d) with several members: dict order, last entry wins -> inside [track] (trk_step OFromDictInst) and
            GapB from_dict_inst_last.
   (3) "reading any other member of the group raises AttributeError"
         -> in Inv / C07_last_wins / C07_parse_last.  gap: converse ("only the others raise") -> GapB read_iff_selected.
   (4) "the encoding and the JSON output contain that member and no other member of the group"
         -> C07_observable(_reachable), C07_json_observable(_reachable); side condition selected_values_ok is an invariant of op_ok
            histories (C07_selected_values_reachable) and needed (C07_observable_needs_value).
         gap a: "exactly": stated as two implications per selected member; -> GapB observable_iff / json_observable_iff: a member's
            number / key is in the output IFF which_one_of names it.
         gap b: decoded field-by-field = parse(bytes(m)) names the same member -> pickle_keeps_selection (GapA).
   (5) "Assigning a member always makes it the selected one, even when assigning its default value."
         -> C07_last_wins (state), C07_ex_default_assignment (one example on the wire).
         gap: no theorem composes the assignment with the encoding: -> GapB assign_default_on_wire: after m.f = default(f) the
            record of f IS in bytes(m) and no sibling's is (and assign_on_wire for any non-None scalar / message value),
            assign_default_in_json likewise for to_dict.
   (6) quantifier "several oneof groups": all theorems are for every group index; independence of groups: C07_last_wins clause 4,
       C07_parse_untouched; [track] is per group by construction.  No gap.
   (7) quantifier "members of scalar, string, enum and message type": no theorem restricts the member type; wf_schema asks that
       a member is not optional / repeated / map (as protoc guarantees).  No gap. *)
From Coq Require Import ZArith List Bool Lia Arith.
From BP Require Import Base.Prelude Model.Types Model.Object Model.Eq Model.Encode Model.Decode Model.WellFormed.
From BP Require Import Model.History Model.C07Ops Model.C07Step Model.C07Wire.
From BP Require Import Model.C01Def Model.C01Reach Model.C01Parse Model.C14Pickle Model.C07GapDef.
From BP Require Import Proofs.C07InvP Proofs.C07LoadP Proofs.C07HistP Proofs.C07ParseP Proofs.C07ValP.
From BP Require Import Proofs.C01ReachBase Proofs.C01ReachNew Proofs.C01ReachFinal Proofs.C01Reach2B.
From BP Require Proofs.C14Pickle.
Import ListNotations.

(* ---------- the tracker's pieces against the model's ---------- *)
Lemma trk_rec_eq : trk_rec = sel_rec.
Proof. reflexivity. Qed.

Lemma ocur_setattr_trk sc o i v : ocur (setattr sc o i v) = trk_set (get_class sc (ocls o)) (ocur o) i.
Proof.
  destruct o as [c raw sow unk cur]. cbn [ocls ocur]. unfold trk_set.
  destruct (nth_error (cfields (get_class sc c)) i) as [f|] eqn:Ef.
  - rewrite (ocur_setattr sc c raw sow unk cur i v f Ef). reflexivity.
  - rewrite setattr_unfold. cbn zeta. rewrite Ef. reflexivity.
Qed.

Lemma ocur_setattrs sc : forall kw o,
  ocur (setattrs sc o kw) = fold_left (fun cur iv => trk_set (get_class sc (ocls o)) cur (fst iv)) kw (ocur o).
Proof.
  unfold setattrs. induction kw as [|[i v] kw IH]; intros o; cbn [fold_left fst]; [reflexivity|].
  rewrite IH. rewrite (proj1 (setattr_shape sc o i v)). rewrite ocur_setattr_trk. reflexivity.
Qed.

Lemma ocur_set_sow o : ocur (set_sow o) = ocur o.
Proof. destruct o; reflexivity. Qed.
Lemma ocls_set_sow o : ocls (set_sow o) = ocls o.
Proof. destruct o; reflexivity. Qed.

Lemma pi_go_last_given fs : forall j raw cur g, (g < length cur)%nat ->
  nth g (pi_go j fs raw cur) None = last_given g j fs raw (nth g cur None).
Proof.
  induction fs as [|f fs IH]; intros j raw cur g Hg; [reflexivity|].
  destruct raw as [|v raw]; [reflexivity|]. cbn [pi_go last_given].
  rewrite IH.
  2:{ destruct (fgroup f); [|exact Hg]. destruct (is_sentinel f v); [exact Hg|]. rewrite length_set_nth. exact Hg. }
  f_equal. destruct (fgroup f) as [g'|]; cbn [opt_nat_eqb andb]; [|reflexivity].
  destruct (is_sentinel f v); cbn [negb]; [rewrite andb_false_r; reflexivity|]. rewrite andb_true_r.
  destruct (Nat.eqb g' g) eqn:E.
  - apply Nat.eqb_eq in E. subst g'. apply nth_set_nth_eq. exact Hg.
  - apply Nat.eqb_neq in E. apply nth_set_nth_neq. congruence.
Qed.

Lemma nth_map_seq {A} (F : nat -> A) n g d : (g < n)%nat -> nth g (map F (seq 0 n)) d = F g.
Proof.
  intros H. rewrite (nth_indep _ d (F 0%nat)) by (rewrite map_length, seq_length; exact H).
  rewrite map_nth. rewrite seq_nth by exact H. reflexivity.
Qed.

Lemma ocur_construct sc c kw : ocur (construct sc c kw) = trk_ctor sc c kw.
Proof.
  unfold trk_ctor. unfold construct at 1.
  set (R := fold_left _ kw _).
  assert (HR : oraw (construct sc c kw) = R) by reflexivity. rewrite HR.
  rewrite post_init_cur.
  apply nth_ext with (d := None) (d' := None).
  - rewrite pi_go_length, repeat_length, map_length, seq_length. reflexivity.
  - intros g Hg. rewrite pi_go_length, repeat_length in Hg.
    rewrite nth_map_seq by exact Hg.
    rewrite pi_go_last_given by (rewrite repeat_length; exact Hg).
    rewrite nth_repeat_none. reflexivity.
Qed.

(* ---------- pickle keeps _group_current (composition with C14 / C01) ---------- *)
Theorem pickle_keeps_selection sc o o' :
  c01_schema_ok sc = true -> c01_value_ok sc o = true -> enc_small sc o = true ->
  pickle_rt sc o = Ok o' ->
  ocur o' = ocur o /\ (forall g, which_one_of o' g = which_one_of o g) /\ enc_obj sc o' = enc_obj sc o.
Proof.
  intros Hs Hv Hsm E.
  destruct (Proofs.C14Pickle.pickle_faithful_c01 sc o Hs Hv Hsm) as (o1 & E1 & _ & Hf).
  rewrite E in E1. injection E1 as <-.
  destruct Hf as (_ & He & _ & _ & _ & Hc & Hw & _). auto.
Qed.

(* ---------- one operation ---------- *)
Lemma step7_track sc o p o' x :
  c01_schema_ok sc = true -> InvS sc o -> trk_ok sc o p = true -> step7 sc o p = Ok (o', x) ->
  ocur o' = trk_step sc (ocls o) (ocur o) p.
Proof.
  intros Hs HI Hok E. unfold trk_ok in Hok. apply andb_true_iff in Hok as [Hfr Hpk].
  destruct p as [p|kw|kw|kw]; cbn [step7] in E.
  2:{ injection E as <- _. cbn [trk_step]. apply ocur_construct. }
  2:{ injection E as <- _. cbn [trk_step]. unfold from_dict_cls. rewrite ocur_set_sow. apply ocur_construct. }
  2:{ injection E as <- _. cbn [trk_step]. unfold from_dict_inst. rewrite ocur_setattrs, ocls_set_sow, ocur_set_sow.
      reflexivity. }
  destruct p; cbn [History.step] in E.
  - destruct path as [|j path].
    + cbn [set_in bind] in E. injection E as <- _. cbn [trk_step]. apply ocur_setattr_trk.
    + destruct (set_in sc o (j :: path) i v) as [o1|] eqn:Es; cbn [bind] in E; [|discriminate].
      injection E as <- _. cbn [trk_step]. apply (set_in_nested_cur _ _ _ _ _ _ _ Es).
  - pose proof (get_in_cur sc path o i) as G. destruct (get_in sc o path i). injection E as <- _.
    cbn [fst] in G. exact G.
  - destruct (parse_into sc o bs) as [o1|] eqn:Ep; cbn [bind] in E; [|discriminate]. injection E as <- _.
    cbn [trk_step]. cbn [framed_op] in Hfr. destruct (records bs) as [rs|] eqn:Er; [|discriminate].
    rewrite trk_rec_eq. apply (parse_records sc o bs rs o1 (Inv_of_InvS _ _ HI) Er Ep).
  - injection E as <- _. destruct o; reflexivity.
  - injection E as <- _. destruct o; reflexivity.
  - destruct (pickle_rt sc o) as [o1|] eqn:Ep; cbn [bind] in E; [|discriminate]. injection E as <- _.
    cbn [pickle_ok_at] in Hpk. apply andb_true_iff in Hpk as [Hv Hsm].
    cbn [trk_step]. apply (pickle_keeps_selection sc o o1 Hs Hv Hsm Ep).
  - destruct (enc_obj sc o); cbn [bind] in E; [|discriminate]. injection E as <- _. destruct o; reflexivity.
  - destruct (enc_obj sc o); cbn [bind] in E; [|discriminate]. injection E as <- _. destruct o; reflexivity.
  - destruct (enc_obj sc o); cbn [bind] in E; [|discriminate]. injection E as <- _. destruct o; reflexivity.
  - injection E as <- _. reflexivity.
  - injection E as <- _. reflexivity.
Qed.

(* ---------- histories ---------- *)
Lemma run7_track sc : c01_schema_ok sc = true -> forall ops o o',
  InvS sc o -> hist_ok trk_ok sc o ops = true -> run7 sc o ops = Ok o' ->
  ocur o' = fold_left (trk_step sc (ocls o)) ops (ocur o).
Proof.
  intros Hs. induction ops as [|p ops IH]; intros o o' HI Hh E; cbn [run7 hist_ok fold_left] in *.
  - injection E as <-. reflexivity.
  - apply andb_true_iff in Hh as [Hp Hr].
    destruct (step7 sc o p) as [[o1 x]|] eqn:Es; cbn [bind] in E; [|discriminate].
    rewrite (IH o1 o' (InvS_step7 _ _ _ _ _ HI Es) Hr E).
    rewrite (step7_cls _ _ _ _ _ HI Es). rewrite (step7_track sc o p o1 x Hs HI Hp Es). reflexivity.
Qed.

(* "which_one_of names the member set last (or none)", for a whole history *)
Theorem track_sound sc c ops o :
  c01_schema_ok sc = true -> hist_ok trk_ok sc (new sc c) ops = true -> run7 sc (new sc c) ops = Ok o ->
  ocur o = track sc c ops /\ forall g, which_one_of o g = nth g (track sc c ops) None.
Proof.
  intros Hs Hh E. pose proof (run7_track sc Hs ops (new sc c) o (InvS_new sc c) Hh E) as H.
  assert (H' : ocur o = track sc c ops) by exact H.
  split; [exact H'|]. intros g. unfold which_one_of. rewrite H'. reflexivity.
Qed.

(* the conditions of the tracker hold along every history that meets C01's operation-level conditions *)
Lemma hist_trk_of_value sc : c01_schema_ok sc = true -> forall ops o,
  VGood sc o -> hist_ok op_value_ok_p sc o ops = true -> forallb framed_op ops = true ->
  hist_ok trk_ok sc o ops = true.
Proof.
  intros Hs. induction ops as [|p ops IH]; intros o HV Hh Hf; cbn [hist_ok forallb] in *; [reflexivity|].
  apply andb_true_iff in Hh as [Hp Hr]. apply andb_true_iff in Hf as [Hf1 Hf2].
  apply andb_true_iff. split.
  - unfold trk_ok. rewrite Hf1. cbn [andb].
    destruct p as [[]| | |]; try reflexivity.
    cbn [pickle_ok_at]. rewrite (proj2 (vgood_iff sc o) HV). cbn [andb]. exact Hp.
  - destruct (step7 sc o p) as [[o1 x]|] eqn:Es; [|reflexivity].
    apply IH; auto. exact (proj1 (step7_good_p sc o p o1 x Hs HV Hp Es)).
Qed.

Theorem track_reachable sc c ops o :
  c01_schema_ok sc = true -> hist_ok op_value_ok_p sc (new sc c) ops = true -> forallb framed_op ops = true ->
  run7 sc (new sc c) ops = Ok o ->
  ocur o = track sc c ops /\ forall g, which_one_of o g = nth g (track sc c ops) None.
Proof.
  intros Hs Hh Hf E. apply track_sound; auto.
  apply hist_trk_of_value; auto. apply vgood_new. apply schema_wf. exact Hs.
Qed.

(* ---------- reading "set last" off the tracker ---------- *)
Lemma trk_name_miss f i cur g : opt_nat_eqb (fgroup f) (Some g) = false -> nth g (trk_name f i cur) None = nth g cur None.
Proof.
  unfold trk_name. destruct (fgroup f) as [g'|]; [|reflexivity]. cbn [opt_nat_eqb]. intros H.
  apply Nat.eqb_neq in H. apply nth_set_nth_neq. congruence.
Qed.

Lemma trk_set_miss cd cur i g :
  match nth_error (cfields cd) i with Some f => opt_nat_eqb (fgroup f) (Some g) | None => false end = false ->
  nth g (trk_set cd cur i) None = nth g cur None.
Proof.
  unfold trk_set. destruct (nth_error (cfields cd) i) as [f|]; [|reflexivity]. apply trk_name_miss.
Qed.

Lemma trk_step_miss sc c g p cur : touches sc c g p = false -> nth g (trk_step sc c cur p) None = nth g cur None.
Proof.
  intros H. destruct p as [p|kw|kw|kw]; cbn [touches] in H; try discriminate.
  - destruct p; cbn [trk_step]; try reflexivity.
    + destruct path as [|j path]; [|reflexivity]. apply trk_set_miss. exact H.
    + destruct (records bs) as [rs|]; [|reflexivity].
      revert cur H. induction rs as [|r rs IH]; intros cur H; cbn [fold_left existsb] in *; [reflexivity|].
      apply orb_false_iff in H as [H1 H2]. rewrite IH by exact H2.
      unfold trk_rec. destruct (field_by_number (get_class sc c) (fst r)) as [[i f]|]; [|reflexivity].
      destruct (wire_type_fits f (snd r)); [|reflexivity]. apply trk_name_miss. exact H1.
  - cbn [trk_step]. revert cur H. induction kw as [|[i v] kw IH]; intros cur H; cbn [fold_left existsb fst] in *; [reflexivity|].
    apply orb_false_iff in H as [H1 H2]. rewrite IH by exact H2. apply trk_set_miss. exact H1.
Qed.

Lemma trk_fold_miss sc c g : forall ops cur, forallb (fun p => negb (touches sc c g p)) ops = true ->
  nth g (fold_left (trk_step sc c) ops cur) None = nth g cur None.
Proof.
  induction ops as [|p ops IH]; intros cur H; cbn [fold_left forallb] in *; [reflexivity|].
  apply andb_true_iff in H as [H1 H2]. rewrite IH by exact H2. apply trk_step_miss.
  apply negb_true_iff. exact H1.
Qed.

Lemma trk_step_length sc c p cur : length cur = cngroups (get_class sc c) -> length (trk_step sc c cur p) = length cur.
Proof.
  intros Hl.
  assert (N : forall f i cur, length (trk_name f i cur) = length cur).
  { intros f i cur0. unfold trk_name. destruct (fgroup f); [apply length_set_nth | reflexivity]. }
  assert (S1 : forall cd cur i, length (trk_set cd cur i) = length cur).
  { intros cd cur0 i. unfold trk_set. destruct (nth_error (cfields cd) i); [apply N | reflexivity]. }
  destruct p as [p|kw|kw|kw]; cbn [trk_step].
  - destruct p; try reflexivity.
    + destruct path; [apply S1 | reflexivity].
    + destruct (records bs) as [rs|]; [|reflexivity].
      revert cur Hl. induction rs as [|r rs IH]; intros cur Hl; cbn [fold_left]; [reflexivity|].
      assert (L : length (trk_rec (get_class sc c) cur r) = length cur).
      { unfold trk_rec. destruct (field_by_number _ _) as [[i f]|]; [|reflexivity].
        destruct (wire_type_fits f (snd r)); [apply N | reflexivity]. }
      rewrite IH by (rewrite L; exact Hl). exact L.
  - unfold trk_ctor. rewrite map_length, seq_length. symmetry. exact Hl.
  - unfold trk_ctor. rewrite map_length, seq_length. symmetry. exact Hl.
  - revert cur Hl. induction kw as [|[i v] kw IH]; intros cur Hl; cbn [fold_left fst]; [reflexivity|].
    rewrite IH by (rewrite S1; exact Hl). apply S1.
Qed.

Lemma trk_fold_length sc c : forall ops cur, length cur = cngroups (get_class sc c) ->
  length (fold_left (trk_step sc c) ops cur) = length cur.
Proof.
  induction ops as [|p ops IH]; intros cur Hl; cbn [fold_left]; [reflexivity|].
  rewrite IH by (rewrite trk_step_length; exact Hl). apply trk_step_length. exact Hl.
Qed.

(* the last top-level assignment to a member of g, nothing touching g afterwards: the tracker names it - whatever the value *)
Theorem track_last_assignment sc c ops1 i v ops2 f g :
  nth_error (cfields (get_class sc c)) i = Some f -> fgroup f = Some g -> (g < cngroups (get_class sc c))%nat ->
  forallb (fun p => negb (touches sc c g p)) ops2 = true ->
  nth g (track sc c (ops1 ++ OBase (OSet [] i v) :: ops2)) None = Some i.
Proof.
  intros Hf Hg Hl Hm. unfold track. rewrite fold_left_app. cbn [fold_left].
  rewrite trk_fold_miss by exact Hm. cbn [trk_step]. unfold trk_set. rewrite Hf. unfold trk_name. rewrite Hg.
  apply nth_set_nth_eq. rewrite trk_fold_length; rewrite repeat_length; [exact Hl | reflexivity].
Qed.

(* a group no operation touches is named nothing *)
Theorem track_never_touched sc c ops g :
  forallb (fun p => negb (touches sc c g p)) ops = true -> nth g (track sc c ops) None = None.
Proof. intros Hm. unfold track. rewrite trk_fold_miss by exact Hm. apply nth_repeat_none. Qed.
