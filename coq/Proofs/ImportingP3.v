(* Proofs/ImportingP3.v — C13, part 3: the dispatch of get_type_reference.
   resolves_gen: for every pair of package paths (any depth) and every well-formed type name the
   (annotation, import line) pair returned by the model denotes the class of the target package. *)
From BP Require Import Base.Prelude Proofs.BytesP Spec.PyImport Model.Importing Proofs.ImportingP Proofs.ImportingP2.
From BP Require gen.C13Tables.
From Coq Require Import Lia.
Local Open Scope nat_scope.

(* what the theorem needs of the world, for a target package tgt (relative to the root package the
   generated tree lives in) and the class name C:
   - every prefix of root.tgt is an importable package (parser.py writes an __init__.py into every
     parent directory; see generated_dirs_prefix below),
   - no module on the way defines a CLASS with the name of the next package segment (the attribute
     would shadow the sub-package in `from p import seg`),
   - the module of root.tgt defines C. *)
Record world_has (w : world) (root tgt : path) (C : name) : Prop := {
  wh_pkg : forall p r, tgt = p ++ r -> w_pkg w (root ++ p) = true;
  wh_nocls : forall p x r, tgt = p ++ x :: r -> w_cls w (root ++ p) x = false;
  wh_cls : w_cls w (root ++ tgt) C = true }.

Definition gp_str : list byte := Eval compute in py_join b_dot google_protobuf.

Lemma tbl_find_in t s v : tbl_find t s = Some v -> In (s, v) t.
Proof.
  induction t as [|[k x] t IH]; cbn [tbl_find]; [discriminate|].
  destruct (bytes_eqb k s) eqn:E.
  - intros H. injection H as ->. apply bytes_eqb_eq in E. subst. left. reflexivity.
  - intros H. right. auto.
Qed.

(* every key of WRAPPER_TYPES (as regenerated from the live module) is a google.protobuf name *)
Lemma wrapper_keys_google :
  forallb (fun kv => bytes_eqb (fst (parse_source_type_name (fst kv))) gp_str) C13Tables.wrapper_types = true.
Proof. vm_compute. reflexivity. Qed.

Section Main.
  Variable cls_name : list byte -> list byte.
  Variable snake : list byte -> list byte.
  Variable optional : list byte -> list byte.

  Lemma early_none (tgt : path) T :
    pkg_okb tgt = true -> type_okb T = true -> path_eqb tgt google_protobuf = false ->
    early_return optional (b_dot :: py_join b_dot (tgt ++ [T])) = None.
  Proof.
    intros Hp HT Hg.
    assert (K : forall k, fst (parse_source_type_name k) = gp_str -> k <> b_dot :: py_join b_dot (tgt ++ [T])).
    { intros k Hk ->. rewrite parse_well_formed in Hk by assumption. cbn [fst] in Hk.
      apply (f_equal split_pkg) in Hk. rewrite split_pkg_join in Hk by exact Hp.
      apply path_eqb_neq in Hg. apply Hg. rewrite Hk. reflexivity. }
    unfold early_return.
    destruct (tbl_find C13Tables.wrapper_types (b_dot :: py_join b_dot (tgt ++ [T]))) as [v|] eqn:E.
    - exfalso. apply tbl_find_in in E. pose proof wrapper_keys_google as A. rewrite forallb_forall in A.
      specialize (A _ E). cbn [fst] in A. apply bytes_eqb_eq in A. exact (K _ A eq_refl).
    - destruct (bytes_eqb (b_dot :: py_join b_dot (tgt ++ [T])) s_duration) eqn:E1.
      { exfalso. apply bytes_eqb_eq in E1. apply (K s_duration); [reflexivity | congruence]. }
      destruct (bytes_eqb (b_dot :: py_join b_dot (tgt ++ [T])) s_timestamp) eqn:E2.
      { exfalso. apply bytes_eqb_eq in E2. apply (K s_timestamp); [reflexivity | congruence]. }
      reflexivity.
  Qed.

  Hypothesis snake_chars : forall s, ident_chars (snake s).

  Section World.
    Variable w : world.
    Variable root : path.
    Hypothesis root_nonnil : root <> [].

    Lemma cousin_ok' (cur tgt ra rb : path) C :
      cur = common_prefix cur tgt ++ ra -> tgt = common_prefix cur tgt ++ rb ->
      ra <> [] -> rb <> [] -> Forall (fun s => identb s = true) tgt -> identb C = true ->
      world_has w root tgt C ->
      denotes w (root ++ cur) (reference_cousin snake cur tgt C) (VCls (root ++ tgt) C).
    Proof.
      intros Hc Ht Hra Hrb Hid HC [Wp Wn Wc].
      remember (common_prefix cur tgt) as sh eqn:Hsh.
      assert (Hcp : common_prefix (sh ++ ra) (sh ++ rb) = sh) by (rewrite <- Hc, <- Ht; symmetry; exact Hsh).
      clear Hsh. subst cur tgt.
      apply Forall_app in Hid. destruct Hid as [_ Hid].
      rewrite (app_assoc root sh rb).
      apply (cousin_ok w root root_nonnil snake snake_chars sh ra rb C Hcp Hra Hrb Hid HC).
      - intros p r E. rewrite <- app_assoc. apply (Wp (sh ++ p) r). rewrite E, app_assoc. reflexivity.
      - intros p x r E. rewrite <- app_assoc. apply (Wn (sh ++ p) x r). rewrite E, app_assoc. reflexivity.
      - rewrite <- app_assoc. exact Wc.
    Qed.

    Theorem resolves_gen (cur tgt : path) T (unwrap pyd : bool) :
      pkg_okb cur = true -> pkg_okb tgt = true -> type_okb T = true ->
      path_eqb (firstn 1 tgt) [s_betterproto] = false ->
      path_eqb tgt google_protobuf = false ->
      identb (cls_name T) = true ->
      world_has w root tgt (cls_name T) ->
      denotes w (root ++ cur)
        (get_type_reference cls_name snake optional (py_join b_dot cur) (b_dot :: py_join b_dot (tgt ++ [T])) unwrap pyd)
        (VCls (root ++ tgt) (cls_name T)).
    Proof.
      intros Hcur Htgt HT Hbp Hg HC W.
      unfold get_type_reference.
      assert ((if unwrap then early_return optional (b_dot :: py_join b_dot (tgt ++ [T])) else None) = None) as ->.
      { destruct unwrap; [apply early_none; assumption | reflexivity]. }
      rewrite parse_well_formed by assumption.
      rewrite !split_pkg_join by assumption.
      cbv beta iota zeta.
      rewrite Hg. cbn [andb]. rewrite Hbp.
      set (C := cls_name T) in *.
      pose proof (pkg_ok_ident _ Htgt) as Itgt.
      destruct W as [Wp Wn Wc].
      destruct (path_eqb tgt cur) eqn:E1.
      { (* same package *)
        apply path_eqb_eq in E1. subst tgt. apply sibling_ok; assumption. }
      apply path_eqb_neq in E1.
      destruct (path_eqb (firstn (length cur) tgt) cur) eqn:E2.
      { (* descendant *)
        apply path_eqb_eq in E2. apply firstn_eq_prefix in E2.
        remember (skipn (length cur) tgt) as rest eqn:Hr. clear Hr. subst tgt.
        apply Forall_app in Itgt. destruct Itgt as [_ Irest].
        rewrite (app_assoc root cur rest).
        apply (descendent_ok w root root_nonnil cur rest C).
        - intros ->. apply E1. apply app_nil_r.
        - exact Irest.
        - exact HC.
        - intros p r E. rewrite <- app_assoc. apply (Wp (cur ++ p) r). rewrite E, app_assoc. reflexivity.
        - intros p x r E. rewrite <- app_assoc. apply (Wn (cur ++ p) x r). rewrite E, app_assoc. reflexivity.
        - rewrite <- app_assoc. exact Wc. }
      destruct (path_eqb (firstn (length tgt) cur) tgt) eqn:E3.
      { (* ancestor *)
        apply path_eqb_eq in E3. apply firstn_eq_prefix in E3.
        remember (skipn (length tgt) cur) as rest eqn:Hr. clear Hr. subst cur.
        assert (Hrest : rest <> []) by (intros ->; apply E1; symmetry; apply app_nil_r).
        destruct (snoc_cases tgt) as [->|[ts [x ->]]].
        - (* the target is the root package *)
          cbn [app]. rewrite app_nil_r in *. apply (ancestor_root_ok w root root_nonnil rest C Hrest HC).
          + rewrite <- (app_nil_r root). apply (Wp [] []). reflexivity.
          + exact Wc.
        - apply Forall_app in Itgt. destruct Itgt as [_ Ix]. inversion Ix as [|? ? Ix' _]; subst.
          rewrite (app_assoc root ts [x]).
          apply (ancestor_ok w root root_nonnil ts x rest C Hrest Ix' HC).
          + apply (Wp ts [x]). reflexivity.
          + apply (Wn ts x []). reflexivity.
          + rewrite <- app_assoc. apply (Wp (ts ++ [x]) []). rewrite app_nil_r. reflexivity.
          + rewrite <- app_assoc. exact Wc. }
      (* cousin *)
      destruct (common_prefix_decomp cur tgt) as [ra [rb [Hc Ht]]].
      apply (cousin_ok' cur tgt ra rb C Hc Ht).
      - intros ->. rewrite app_nil_r in Hc. rewrite Ht in E2. rewrite <- Hc in E2.
        rewrite firstn_length_app in E2. rewrite path_eqb_refl in E2. discriminate.
      - intros ->. rewrite app_nil_r in Ht. rewrite Hc in E3. rewrite <- Ht in E3.
        rewrite firstn_length_app in E3. rewrite path_eqb_refl in E3. discriminate.
      - exact Itgt.
      - exact HC.
      - constructor; assumption.
    Qed.
  End World.
End Main.
