(* CLONE of Proofs/C14PicklePres.v with norm_obj replaced by normu_obj (Model/C14UDef.v: every message keeps its unknown
   bytes), Good by GoodU, c01_value_ok by c14u_value_ok. *)
(* C14 / pickle, part 4 - presence at EVERY path: for a value whose nested messages carry their flags (flags_ok, sow_ok
   at every depth), the unpickled message reports, at every message reachable by reading (through singular fields,
   list elements, map values, to any depth), the same serialized_on_wire / which_one_of / None-ness as the original -
   the top-level flag excepted, which is always raised (presence_below). *)
From Coq Require Import ZArith List Bool Lia ZifyBool.
From BP Require Import Base.Prelude Model.Types Model.Varint Model.Scalar Model.Float Model.Utf8.
From BP Require Import Model.Object Model.Eq Model.TimeCore Model.Encode Model.Decode Model.WellFormed Model.C01Def Model.C14UDef.
From BP Require Import Proofs.C14UUnfold.
From BP Require Import Model.History Model.C14Ops Model.C14Pickle.
From BP Require Import gen.Tables Proofs.C01Frame Proofs.C01Step Proofs.C01Apply Proofs.C01Elem Proofs.C01Field Proofs.C01Builtin
     Proofs.C01Unfold Proofs.C14UValue Proofs.C14USlot Proofs.C14USlot2 Proofs.C14UDict Proofs.C14UMsg Proofs.C14UMain Proofs.C14UStable
     Proofs.C14UObs.
From BP Require Import Proofs.C14Ind Proofs.C14Pickle.

Definition msg_of (v : pv) : option obj := match v with PMsg ch => Some ch | _ => None end.
Definition item_of (v : pv) (k : nat) : option obj :=
  match v with PList l => match nth_error l k with Some (PMsg ch) => Some ch | _ => None end | _ => None end.
Definition value_of (v : pv) (k : nat) : option obj :=
  match v with PDict d => match nth_error d k with Some (_, PMsg ch) => Some ch | _ => None end | _ => None end.
Definition leaf (v : pv) : bool := match v with PMsg _ | PList _ | PDict _ => false | _ => true end.

Lemma norm_scalar_leaf t v : leaf v = true -> leaf (norm_scalar t v) = true.
Proof. destruct t, v; cbn; auto. Qed.

(* a generic lift of a deep side condition to the nested messages of one slot *)
Lemma sub_deep_lift (D : obj -> bool) (R : obj -> Prop) x :
  deep D x = true -> subP (fun ch => deep D (PMsg ch) = true -> R ch) x -> subP R x.
Proof.
  intros Hd HP. destruct x as [| |z|b|bits|s|b|us|us|l|d|o]; try exact I.
  - cbn [subP] in *. rewrite deep_plist in Hd. induction l as [|y l IH]; [constructor|].
    inversion HP as [|? ? Py HP']; subst. rewrite deep_list_cons in Hd. apply andb_true_iff in Hd as [Hd1 Hd2].
    constructor; [|apply IH; assumption]. destruct y; try exact I. cbn [elemP] in *. apply Py. exact Hd1.
  - cbn [subP] in *. rewrite deep_pdict in Hd. induction d as [|[k y] d IH]; [constructor|].
    inversion HP as [|? ? Py HP']; subst. cbn [deep_dict] in Hd. apply andb_true_iff in Hd as [Hd1 Hd2].
    constructor; [|apply IH; assumption]. cbn [snd] in *. destruct y; try exact I. cbn [elemP] in *. apply Py. exact Hd1.
  - cbn [subP] in *. apply HP. exact Hd.
Qed.

Section Pres.
  Variable sc : schema.
  Hypothesis Hsc : c01_schema_ok sc = true.

  Section Slot.
    Variable PP : obj -> Prop.

    Definition crel (a b : option obj) : Prop :=
      match a, b with
      | None, None => True
      | Some ch, Some ch' => ch' = ch \/ (ch' = normu_obj sc ch /\ osow ch = true /\ PP ch)
      | _, _ => False
      end.

    Lemma crel_refl a : crel a a.
    Proof. destruct a; cbn; auto. Qed.

    Definition crel3 (a b : pv) : Prop :=
      crel (msg_of a) (msg_of b) /\ (forall k, crel (item_of a k) (item_of b k)) /\
      (forall k, crel (value_of a k) (value_of b k)).

    Lemma crel3_refl a : crel3 a a.
    Proof. repeat split; intros; apply crel_refl. Qed.

    Lemma crel3_leaf a b : leaf a = true -> leaf b = true -> crel3 a b.
    Proof. destruct a, b; cbn; intros; try discriminate; repeat split; intros; exact I. Qed.

    Lemma slot_child c cur i f x :
      wf_field sc (cngroups (get_class sc c)) f = true ->
      slot_in_range sc f x = true -> group_selects cur f i <> Some false ->
      sow_slot sc cur i f x = true -> slot_flags sc x = true -> subP PP x ->
      crel3 (rd sc f x) (rd sc f (norm_slot sc (normu_obj sc) f (group_selects cur f i) x)).
    Proof.
      intros Hwf Hr Hne Hs Hfl HP.
      destruct (is_singular x) eqn:Hx.
      { destruct (singular_hint sc f x Hx Hr) as (p & Hp).
        rewrite (norm_slot_sing sc cur i f x Hx Hne).
        assert (Hrx : rd sc f x = x) by (destruct x; try discriminate Hx; reflexivity). rewrite Hrx.
        destruct (is_default sc f x && negb (forced_of cur i f x)) eqn:Hd.
        - (* skipped: the slot stays PLACEHOLDER and reads as the default *)
          apply andb_true_iff in Hd as [Hd Hnf]. apply negb_true_iff in Hnf.
          assert (Hfo : fopt f = false) by (unfold forced_of in Hnf; destruct (is_some (fgroup f)), (fopt f); try discriminate Hnf; reflexivity).
          unfold fresh_of. rewrite Hfo. cbn [rd].
          destruct Hp as [Hh|Hh].
          2:{ destruct x; try discriminate Hx; cbn [is_default] in Hd; rewrite Hh in Hd; discriminate Hd. }
          destruct x as [| |z|b|bits|s|b|us|us|l|d|ch]; try discriminate Hx.
          1-7: (apply crel3_leaf; [reflexivity|]; unfold default_of; rewrite Hh; unfold slot_in_range in Hr; rewrite Hh in Hr;
                destruct p; try reflexivity; destruct (fty f); discriminate Hr).
          (* a message that is not emitted: flag down, hence a fresh instance, hence what the default is *)
          assert (Hos : osow ch = false).
          { unfold forced_of in Hnf. destruct (osow ch); [|reflexivity]. rewrite !orb_true_r in Hnf. discriminate. }
          cbn [slot_flags] in Hfl. rewrite Hos in Hfl. cbn [orb] in Hfl. unfold fresh_msg in Hfl.
          apply pv_same_sound in Hfl.
          unfold slot_in_range in Hr. rewrite Hh in Hr.
          destruct p; try (destruct (fty f); destruct ch; discriminate Hr); try (destruct ch; discriminate Hr).
          rewrite elem_in_range_msg in Hr. apply andb_true_iff in Hr as [Hc _]. apply Nat.eqb_eq in Hc. subst c0.
          unfold default_of. rewrite Hh. rewrite <- Hfl. apply crel3_refl.
        - (* written: the decoded value *)
          assert (Hflag : forall o, x = PMsg o -> osow o = true).
          { intros o ->. unfold sow_slot in Hs.
            assert (Hhh : exists q, fhint f = HPlain q \/ fhint f = HOptional q) by (exists p; exact Hp).
            destruct Hhh as (q & [Hq|Hq]); rewrite Hq in Hs;
              (destruct (osow o) eqn:Ho; [reflexivity|]; cbn [orb] in Hs; apply negb_true_iff in Hs;
               exfalso; unfold forced_of in Hd; cbn [osow] in Hd;
               apply orb_false_iff in Hs as [Hs Hs3]; apply orb_false_iff in Hs as [Hs1 Hs2];
               apply negb_false_iff in Hs1; rewrite Hs1, Hs2, Hs3, Ho in Hd;
               pose proof (group_selects_shape cur f i) as Hsh;
               destruct (group_selects cur f i) as [[|]|]; try discriminate Hs3; try congruence;
               rewrite Hsh in Hd; cbn in Hd; discriminate Hd). }
          destruct (fwraps f) as [w|] eqn:Hfw.
          + (* wrapper: scalar in, scalar out *)
            destruct Hp as [Hh|Hh]; [destruct (wf_plain _ _ _ _ Hwf Hh) as (_ & H & _); congruence|].
            destruct (wf_optional _ _ _ _ Hwf Hh) as (_ & _ & [(w' & vt & Hfw' & _ & _ & _ & Hvt & Hfit) | (H & _)]); [|congruence].
            rewrite Hfw in Hfw'. injection Hfw' as <-.
            assert (Hpp : match p with PyMsg _ | PyDatetime | PyTimedelta => False | _ => True end).
            { destruct w; try discriminate Hvt; injection Hvt as <-; destruct p; try discriminate Hfit; exact I. }
            assert (Hr' : scalar_in_range w x = true).
            { unfold slot_in_range in Hr. rewrite Hh, Hfw in Hr.
              rewrite <- (scalar_elem_in_range sc w p x Hpp). destruct x; try discriminate Hx; exact Hr. }
            destruct (norm_wrapped_shape sc w vt x Hvt Hr') as (Hs' & Hm' & _ & _ & Hn' & _ & Hm & _).
            assert (Hl : leaf (norm_wrapped sc w x) = true).
            { destruct (norm_wrapped sc w x); try reflexivity; try discriminate Hs'. exfalso. eapply Hm'. reflexivity. }
            assert (Hrw : rd sc f (norm_wrapped sc w x) = norm_wrapped sc w x)
              by (destruct (norm_wrapped sc w x); try reflexivity; discriminate Hs').
            rewrite Hrw. apply crel3_leaf; [|exact Hl].
            destruct x; try discriminate Hx; try reflexivity. exfalso. eapply Hm. reflexivity.
          + destruct x as [| |z|b|bits|s|b|us|us|l|d|ch]; try discriminate Hx; cbn [norm_elem].
            1-7: (match goal with |- crel3 ?a (rd ?s0 ?f0 (norm_scalar ?t ?a)) =>
                    assert (Hl : leaf (norm_scalar t a) = true) by (apply norm_scalar_leaf; reflexivity);
                    assert (Hrn : rd s0 f0 (norm_scalar t a) = norm_scalar t a) by (destruct t; reflexivity);
                    rewrite Hrn; apply crel3_leaf; [reflexivity | exact Hl]
                  end).
            cbn [rd]. unfold crel3. repeat split; try (intros k; exact I). cbn [msg_of crel].
            right. split; [reflexivity|]. split; [apply Hflag; reflexivity | exact HP]. }
      (* not singular *)
      destruct x as [| |z|b|bits|s|b|us|us|l|d|o]; try discriminate Hx.
      - (* PLACEHOLDER *)
        destruct (group_selects cur f i) as [[|]|] eqn:Hsel; [| congruence |].
        + pose proof (group_selects_shape cur f i) as Hsh. rewrite Hsel in Hsh. destruct Hsh as (g & Hg & _).
          destruct (fhint f) as [p|p|p|pk pv'] eqn:Hh.
          * assert (Hn : norm_slot sc (normu_obj sc) f (Some true) PPlaceholder
                         = match default_of sc f with PMsg o => PMsg (raise_sow o) | d => d end) by reflexivity.
            rewrite Hn. cbn [rd]. unfold sow_slot in Hs. rewrite Hh in Hs.
            unfold default_of. rewrite Hh. destruct p; try (apply crel3_refl). rewrite ?Hsel in Hs. cbn in Hs. discriminate Hs.
          * destruct (wf_optional _ _ _ _ Hwf Hh) as (_ & Hg' & _). congruence.
          * destruct (wf_list _ _ _ _ Hwf Hh) as (_ & _ & _ & Hg' & _). congruence.
          * destruct (wf_dict _ _ _ _ _ Hwf Hh) as (_ & _ & Hg' & _). congruence.
        + assert (Hn : norm_slot sc (normu_obj sc) f None PPlaceholder = fresh_of f) by reflexivity.
          rewrite Hn. unfold fresh_of. destruct (fopt f) eqn:Hfo; [|apply crel3_refl].
          cbn [rd]. assert (Hh : exists p, fhint f = HOptional p).
          { destruct (fhint f) as [q|q|q|qk qv] eqn:Hg; eauto.
            - destruct (wf_plain _ _ _ _ Hwf Hg) as (H & _). congruence.
            - destruct (wf_list _ _ _ _ Hwf Hg) as (H & _). congruence.
            - destruct (wf_dict _ _ _ _ _ Hwf Hg) as (H & _). congruence. }
          destruct Hh as (p & Hh). unfold default_of. rewrite Hh. apply crel3_refl.
      - (* None *)
        destruct (group_selects cur f i) as [[|]|] eqn:Hsel; [| congruence |].
        + exfalso. pose proof (group_selects_shape cur f i) as Hsh. rewrite Hsel in Hsh. destruct Hsh as (g & Hg & _).
          unfold slot_in_range in Hr. destruct (fhint f) as [p|p|p|pk pv'] eqn:Hh; try discriminate Hr.
          destruct (wf_optional _ _ _ _ Hwf Hh) as (_ & Hg' & _). congruence.
        + assert (Hn : norm_slot sc (normu_obj sc) f None PNone = fresh_of f) by reflexivity.
          rewrite Hn. unfold fresh_of. destruct (fopt f); [apply crel3_refl|]. cbn [rd].
          unfold slot_in_range in Hr. unfold default_of. destruct (fhint f); try discriminate Hr. apply crel3_refl.
      - (* list *)
        assert (Hh : exists p, fhint f = HList p).
        { unfold slot_in_range in Hr. destruct (fhint f) as [p|p|p|pk pv'] eqn:Hh; eauto;
            rewrite ?elem_in_range_list in Hr; discriminate Hr. }
        destruct Hh as (p & Hh). destruct (wf_list _ _ _ _ Hwf Hh) as (Hfo & _ & _ & Hg & _).
        rewrite (group_none_sel cur i f Hg).
        destruct l as [|y l'].
        + assert (Hn : norm_slot sc (normu_obj sc) f None (PList []) = fresh_of f) by reflexivity.
          rewrite Hn. unfold fresh_of. rewrite Hfo. cbn [rd]. unfold default_of. rewrite Hh. apply crel3_refl.
        + assert (Hn : norm_slot sc (normu_obj sc) f None (PList (y :: l'))
                       = PList (map (norm_elem (normu_obj sc) (fty f)) (y :: l'))) by reflexivity.
          rewrite Hn. cbn [rd]. unfold crel3. split; [exact I|]. split; [|intros k; exact I].
          intros k. unfold item_of. rewrite nth_error_map.
          cbn [slot_flags] in Hfl. cbn [subP] in HP.
          destruct (nth_error (y :: l') k) as [e|] eqn:Hk; cbn [option_map]; [|exact I].
          pose proof (nth_error_In _ _ Hk) as Hin.
          rewrite forallb_forall in Hfl. specialize (Hfl e Hin). rewrite Forall_forall in HP. specialize (HP e Hin).
          destruct e as [| | | | | | | | | | |ch]; cbn [norm_elem];
            try (match goal with |- context [norm_scalar ?t ?a] =>
                   first [ pose proof (norm_scalar_leaf t a eq_refl) as Hl; destruct (norm_scalar t a); try discriminate Hl; exact I
                         | destruct t; exact I ] end).
          cbn [crel]. right. split; [reflexivity|]. split; [exact Hfl | exact HP].
      - (* dict *)
        assert (Hh : exists pk pv', fhint f = HDict pk pv').
        { unfold slot_in_range in Hr. destruct (fhint f) as [p|p|p|pk pv'] eqn:Hh; eauto;
            rewrite ?elem_in_range_dict in Hr; discriminate Hr. }
        destruct Hh as (pk & pv' & Hh). destruct (wf_dict _ _ _ _ _ Hwf Hh) as (Hfo & _ & Hg & _ & kt & vt & Hm & _).
        rewrite (group_none_sel cur i f Hg).
        destruct d as [|kv0 d'].
        + assert (Hn : norm_slot sc (normu_obj sc) f None (PDict []) = fresh_of f) by reflexivity.
          rewrite Hn. unfold fresh_of. rewrite Hfo. cbn [rd]. unfold default_of. rewrite Hh. apply crel3_refl.
        + assert (Hn : norm_slot sc (normu_obj sc) f None (PDict (kv0 :: d'))
                       = PDict (map (fun kv => (fst kv, norm_map_value sc (normu_obj sc) vt (snd kv))) (kv0 :: d')))
            by (unfold norm_slot; rewrite Hm; reflexivity).
          rewrite Hn. cbn [rd]. unfold crel3. split; [exact I|]. split; [intros k; exact I|].
          intros k. unfold value_of. rewrite nth_error_map.
          cbn [slot_flags] in Hfl. cbn [subP] in HP.
          destruct (nth_error (kv0 :: d') k) as [[key e]|] eqn:Hk; cbn [option_map fst snd]; [|exact I].
          pose proof (nth_error_In _ _ Hk) as Hin.
          rewrite forallb_forall in Hfl. specialize (Hfl _ Hin). rewrite Forall_forall in HP. specialize (HP _ Hin).
          cbn [snd] in Hfl, HP.
          destruct e as [| | | | | | | | | | |ch]; cbn [norm_map_value];
            try (match goal with |- context [norm_scalar ?t ?a] =>
                   first [ pose proof (norm_scalar_leaf t a eq_refl) as Hl; destruct (norm_scalar t a); try discriminate Hl; exact I
                         | destruct t; exact I ] end).
          unfold enc_empty in Hfl. cbn [elemP] in HP.
          destruct (enc_obj sc ch) as [[|b0 bs0]|e0]; cbn [crel].
          * (* encodes to nothing: not on the wire, a fresh instance comes back *)
            destruct (osow ch); cbn [andb orb negb] in Hfl; [discriminate Hfl|].
            rewrite andb_true_r in Hfl. unfold fresh_msg in Hfl. apply pv_same_sound in Hfl.
            left. injection Hfl as Hfl. symmetry. exact Hfl.
          * right. split; [reflexivity|]. split; [|exact HP].
            destruct (osow ch); [reflexivity|]. cbn [andb orb negb] in Hfl. rewrite andb_false_r in Hfl. discriminate Hfl.
          * right. split; [reflexivity|]. split; [|exact HP].
            destruct (osow ch); [reflexivity|]. cbn [andb orb negb] in Hfl. rewrite andb_false_r in Hfl. discriminate Hfl.
    Qed.
  End Slot.

  (* ---- the statement, by induction on the value and then on the path ---- *)
  Definition PresOk (o : obj) : Prop := forall p, presence_below sc (normu_obj sc o) p = presence_below sc o p.

  Lemma presence_at_of_below a b p :
    presence_below sc a p = presence_below sc b p -> osow a = osow b -> presence_at sc a p = presence_at sc b p.
  Proof.
    destruct p as [|s p]; [|auto]. unfold presence_below, presence_at, nav, presence_here. intros H Hs.
    injection H as H1 H2. rewrite Hs, H1, H2. reflexivity.
  Qed.

  Lemma crel_nav a b p :
    crel PresOk a b ->
    match b with Some ch => Some (presence_at sc ch p) | None => None end =
    match a with Some ch => Some (presence_at sc ch p) | None => None end.
  Proof.
    destruct a as [ch|], b as [ch'|]; cbn [crel]; try contradiction; [|reflexivity].
    intros [->|(-> & Hs & HP)]; [reflexivity|]. f_equal.
    apply presence_at_of_below; [apply HP | rewrite Hs; destruct ch; reflexivity].
  Qed.

  Lemma presence_at_cons o s p :
    presence_at sc o (s :: p) = match child_at sc o s with Some ch => presence_at sc ch p | None => None end.
  Proof. unfold presence_at. cbn [nav]. destruct (child_at sc o s); reflexivity. Qed.

  Lemma child_at_read o s :
    child_at sc o s =
    match s with
    | SField i => match read sc o i with Ok v => msg_of v | Err _ => None end
    | SItem i k => match read sc o i with Ok v => item_of v k | Err _ => None end
    | SValue i k => match read sc o i with Ok v => value_of v k | Err _ => None end
    end.
  Proof.
    destruct s; cbn [child_at]; destruct (read sc o i) as [[]|]; try reflexivity.
  Qed.

  Lemma pres_step c raw sow unk cur :
    value_ok sc (Obj c raw sow unk cur) ->
    deep (sow_ok sc) (PMsg (Obj c raw sow unk cur)) = true ->
    deep (flags_ok sc) (PMsg (Obj c raw sow unk cur)) = true ->
    Forall (subP PresOk) raw ->
    PresOk (Obj c raw sow unk cur).
  Proof.
    intros Hv Hsw Hfl HP p. pose proof Hv as (Hr & Hd).
    rewrite in_range_unfold in Hr. rewrite deep_msg in Hsw, Hfl.
    apply andb_true_iff in Hr as [Hr Hsl]. apply andb_true_iff in Hr as [Hr Hcl]. apply andb_true_iff in Hr as [_ Hlen].
    apply Nat.eqb_eq in Hlen.
    apply andb_true_iff in Hsw as [Hsow _]. apply andb_true_iff in Hfl as [Hflags _].
    destruct (schema_class_facts sc c Hsc) as (Hwf & _).
    destruct p as [|s p].
    { (* the message itself: obs_top *)
      assert (Ho : obs_top sc (Obj c raw sow unk cur) (normu_obj sc (Obj c raw sow unk cur)) = true)
        by (apply obs_top_norm; assumption).
      apply (proj1 (obs_top_presence sc _ _ Ho eq_refl eq_refl Hlen)). }
    (* one step down *)
    assert (Hb : forall o', presence_below sc o' (s :: p) = presence_at sc o' (s :: p)) by reflexivity.
    rewrite !Hb, !presence_at_cons, !child_at_read.
    rewrite sow_ok_unfold in Hsow. unfold flags_ok in Hflags. cbn [oraw] in Hflags.
    set (fs := cfields (get_class sc c)) in *.
    assert (Hslot : forall i, crel3 PresOk
              (match read sc (Obj c raw sow unk cur) i with Ok v => v | Err _ => PNone end)
              (match read sc (normu_obj sc (Obj c raw sow unk cur)) i with Ok v => v | Err _ => PNone end) /\
              (forall e, read sc (Obj c raw sow unk cur) i = Err e ->
                         exists e', read sc (normu_obj sc (Obj c raw sow unk cur)) i = Err e') /\
              (forall v, read sc (Obj c raw sow unk cur) i = Ok v ->
                         exists v', read sc (normu_obj sc (Obj c raw sow unk cur)) i = Ok v')).
    { intros i. rewrite normu_obj_unfold. fold fs.
      destruct (nth_error fs i) as [f|] eqn:Hf.
      2:{ assert (E : forall r s0 u, read sc (Obj c r s0 u cur) i = Err EAttribute)
            by (intros r s0 u; unfold read, getattr; fold fs; rewrite Hf; reflexivity).
          rewrite !E. split; [apply crel3_refl|]. split; [intros e _; eauto | intros v H; discriminate H]. }
      rewrite !(read_spec sc c _ _ _ cur i f Hf).
      destruct (group_selects cur f i) as [[|]|] eqn:Hsel.
      2:{ split; [apply crel3_refl|]. split; [intros e _; eauto | intros v H; discriminate H]. }
      all: assert (Hx : exists x, nth_error raw i = Some x)
             by (destruct (nth_error raw i) eqn:E; [eauto|]; exfalso; apply nth_error_None in E;
                 assert (i < length fs)%nat by (apply nth_error_Some; congruence); lia).
      all: destruct Hx as (x & Hx).
      all: rewrite (nth_error_nth raw i PPlaceholder Hx).
      all: rewrite (normu_slots_nth sc cur raw fs 0 i x f Hx Hf); cbn [Nat.add]; rewrite Hsel.
      all: (split; [|split; [intros e H; discriminate H | intros v _; eauto]]).
      all: rewrite <- Hsel; apply (slot_child PresOk c cur i f x).
      all: try (rewrite Hsel; discriminate).
      all: try (apply (forallb_nth_error _ _ _ _ Hwf Hf)).
      all: try (apply (slots_in_range_nth sc raw fs i x f Hsl Hx Hf)).
      all: try (apply (sow_slots_nth sc cur raw fs 0 i x f Hsow Hx Hf)).
      all: try (apply (forallb_nth_error _ _ _ _ Hflags Hx)).
      all: eapply Forall_nth_error; eauto. }
    destruct s as [i|i k|i k]; destruct (Hslot i) as ((C1 & C2 & C3) & He & Hk).
    all: destruct (read sc (Obj c raw sow unk cur) i) as [v|e] eqn:Ra.
    all: try (destruct (He e eq_refl) as (e' & ->); reflexivity).
    all: destruct (Hk v eq_refl) as (v' & Rb); rewrite Rb in *.
    - apply (crel_nav _ _ p) in C1. destruct (msg_of v), (msg_of v'); try discriminate C1; try reflexivity.
      injection C1 as C1. exact C1.
    - specialize (C2 k). apply (crel_nav _ _ p) in C2. destruct (item_of v k), (item_of v' k); try discriminate C2; try reflexivity.
      injection C2 as C2. exact C2.
    - specialize (C3 k). apply (crel_nav _ _ p) in C3. destruct (value_of v k), (value_of v' k); try discriminate C3; try reflexivity.
      injection C3 as C3. exact C3.
  Qed.

  Theorem presence_everywhere : forall o,
    value_ok sc o -> deep (sow_ok sc) (PMsg o) = true -> deep (flags_ok sc) (PMsg o) = true -> PresOk o.
  Proof.
    apply (obj_nested_ind (fun o => value_ok sc o -> deep (sow_ok sc) (PMsg o) = true -> deep (flags_ok sc) (PMsg o) = true -> PresOk o)).
    intros c raw s u g HP Hv Hsw Hfl. apply pres_step; try assumption.
    pose proof (value_ok_slots sc (fun o => deep (sow_ok sc) (PMsg o) = true -> deep (flags_ok sc) (PMsg o) = true -> PresOk o)
                  c raw s u g Hv HP) as H1.
    rewrite deep_msg in Hsw, Hfl. apply andb_true_iff in Hsw as [_ Hsw]. apply andb_true_iff in Hfl as [_ Hfl].
    apply Forall_forall. intros x Hx. apply In_nth_error in Hx as (k & Hk).
    apply (sub_deep_lift (flags_ok sc)); [eapply deep_list_nth; eauto|].
    apply (sub_deep_lift (sow_ok sc) (fun ch => deep (flags_ok sc) (PMsg ch) = true -> PresOk ch)); [eapply deep_list_nth; eauto|].
    eapply Forall_nth_error; eauto.
  Qed.
End Pres.

