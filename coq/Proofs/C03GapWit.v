(* C03 gap closing, non-vacuity and exactness witnesses (everything by vm_compute). *)
From BP Require Import Base.Prelude Spec.Descriptor gen.C03Tables Model.Plugin Proofs.PluginP Proofs.PluginWitP Proofs.C03GapA.
From Coq Require Import String.

(* the message Outer of D_ok, found through the symbol table *)
Definition gap_outer_sym : option sym :=
  find (fun s => match s with
                 | SymMsg _ p m => (List.length (md_fields m) =? 8)%nat && negb (md_map_entry m)
                 | _ => false
                 end) (symbols D_ok).
Definition gap_outer : msg_d :=
  match gap_outer_sym with Some (SymMsg _ _ m) => m | _ => mkMsg [] [] [] [] [] false end.

Lemma gap_outer_in :
  In (SymMsg (b "p.q") [b "Outer"] gap_outer) (symbols D_ok) /\ b "p.q" <> google_protobuf
  /\ md_map_entry gap_outer = false /\ List.length (md_fields gap_outer) = 8%nat.
Proof.
  split.
  - assert (H : gap_outer_sym = Some (SymMsg (b "p.q") [b "Outer"] gap_outer)) by (vm_compute; reflexivity).
    unfold gap_outer_sym in H. apply find_some in H. exact (proj1 H).
  - split; [vm_compute; discriminate|]. split; vm_compute; reflexivity.
Qed.

(* what the readings say of its eight fields: number, map?, in a oneof?, optional flag, wraps? *)
Lemma gap_outer_fields :
  map (fun x => match spec_field w_field_name w_class_name D_ok (b "p.q") [b "Outer"] gap_outer x with
                | Some pf => (pf_number pf, is_some (pf_map_types pf), is_some (pf_group pf), pf_optional pf, is_some (pf_wraps pf))
                | None => (0, false, false, false, false)
                end) (md_fields gap_outer)
  = [(1, true, false, false, false); (2, false, true, false, false); (3, false, true, false, false);
     (4, false, false, true, false); (5, false, false, false, false); (6, false, false, false, false);
     (7, false, false, false, true); (8, true, false, false, false)].
Proof. vm_compute. reflexivity. Qed.

Lemma gap_enum_in :
  exists e, In (SymEnum (b "p.q") [b "Color"] e) (symbols D_ok) /\ existsb (fun nv => snd nv <? 0) (ed_values e) = true.
Proof.
  assert (H : exists e, find (fun s => match s with SymEnum _ p _ => str_eqb (dotted p) (b "Color") | _ => false end) (symbols D_ok)
                        = Some (SymEnum (b "p.q") [b "Color"] e) /\ existsb (fun nv => snd nv <? 0) (ed_values e) = true).
  { vm_compute. eexists. split; reflexivity. }
  destruct H as (e & H & Hneg). exists e. split; [|exact Hneg]. apply find_some in H. exact (proj1 H).
Qed.
