(* C08 gap closing, fourth group (clause table: Proofs/C08GapA.v, item 5b): schema evolution of a message whose encoding has records
   UNKNOWN TO THE NEWER CLASS interleaved at any position of the top level. *)
From Coq Require Import ZArith List Bool Lia ZifyBool.
From BP Require Import Base.Prelude Model.Types Model.Varint Model.Scalar Model.Float Model.Utf8.
From BP Require Import Model.Object Model.Eq Model.TimeCore Model.Encode Model.Decode Model.WellFormed Model.C01Def.
From BP Require Model.C08Step.
From BP Require Import gen.Tables Proofs.BytesP Proofs.LenP Proofs.C01Frame Proofs.C01Step Proofs.C01Apply
     Proofs.C01Elem Proofs.C01Field Proofs.C01Builtin Proofs.C01Unfold Proofs.C01Value Proofs.C01Slot Proofs.C01Slot2
     Proofs.C01Dict Proofs.C01Msg Proofs.C01Main Proofs.C01Stable Proofs.C01Eq.
From BP Require Proofs.C08FrameP Proofs.C08StepP Proofs.C08UnknownP Proofs.C08EvolutionP.
From BP Require Import Proofs.C08EvoDef Proofs.C08EvoBridge Proofs.C08EvoSchema Proofs.C08EvoRecs Proofs.C08EvoWalk Proofs.C08EvoSym Proofs.C08EvoMain Proofs.C08GapC.
From BP Require Proofs.C08GapA Proofs.C01Final.
Import ListNotations.

Lemma filter_comm {A} (P Q : A -> bool) l : filter P (filter Q l) = filter Q (filter P l).
Proof.
  induction l as [|x l IH]; [reflexivity|]. cbn [filter].
  destruct (Q x) eqn:EQ, (P x) eqn:EP; cbn [filter]; rewrite ?EQ, ?EP, IH; reflexivity.
Qed.

Lemma filter_sub {A} (P Q : A -> bool) l : (forall x, P x = true -> Q x = true) -> filter P (filter Q l) = filter P l.
Proof.
  intros H. induction l as [|x l IH]; [reflexivity|]. cbn [filter].
  destruct (Q x) eqn:EQ; cbn [filter]; destruct (P x) eqn:EP; rewrite ?IH; try reflexivity.
  apply H in EP. congruence.
Qed.

Lemma filter_idem {A} (P : A -> bool) l : filter P (filter P l) = filter P l.
Proof. apply filter_sub. auto. Qed.

Lemma rmap_ok_inv {A B} (g : A -> B) r y : C08UnknownP.rmap g r = Ok y -> exists a, r = Ok a /\ y = g a.
Proof. destruct r as [a|e]; cbn; intros H; [injection H as <-; eauto | discriminate]. Qed.

Lemma ounk_set_unk o u : ounk (C08Step.set_unk o u) = u.
Proof. destruct o; reflexivity. Qed.

Theorem evolution_with_unknown sn masks m b1 bs ps :
  c01_schema_ok sn = true -> masks_ok sn masks = true -> c01_value_ok sn m = true ->
  enc_obj sn m = Ok b1 -> Zlength b1 < 2 ^ 64 ->
  C08Step.records bs ps -> C08Step.known_raw (get_class sn (ocls m)) ps = b1 ->
  parse sn (ocls m) bs = Ok (C08Step.set_unk (norm_obj sn m) (C08Step.unknown_raw (get_class sn (ocls m)) ps)) /\
  exists mo b2,
    parse (C08Step.drop_fields masks sn) (ocls m) bs = Ok mo /\
    enc_obj (C08Step.drop_fields masks sn) mo = Ok b2 /\ length b2 = length bs /\
    parse sn (ocls m) b2 = Ok (C08Step.set_unk (norm_obj sn m) (C08Step.unknown_raw (get_class sn (ocls m)) ps)).
Proof.
  intros Hs Hmk Hv E1 S1 Hrec HK1.
  pose proof Hv as Hv'. apply c01_value_ok_spec in Hv'.
  (* unk m = [] *)
  assert (Hunk : ounk (norm_obj sn m) = []) by (destruct m; reflexivity).
  set (c := ocls m) in *.
  set (so := C08Step.drop_fields masks sn). set (cdn := get_class sn c) in *. set (cdo := get_class so c).
  assert (HT : EvoTop sn masks m) by (destruct m as [c0 raw sow unk cur]; apply (evo_top sn masks Hs Hmk c0 raw sow unk cur Hv')).
  destruct HT as (b1' & E1' & H).
  rewrite E1 in E1'. injection E1' as <-.
  destruct (H S1) as (ps1 & mk & k2 & psk & R1 & Hnd & Hallk & PK & Umk & Ek & Rk & PN & Lk). clear H.
  fold c so in Hnd, Hallk, PK, PN, Lk, Ek. fold cdn cdo in Hnd, Hallk, PK, PN, Lk.
  set (kN := C08UnknownP.known cdn). set (kO := C08UnknownP.known cdo).
  set (uO := C08Step.is_unknown cdo). set (uN := C08Step.is_unknown cdn).
  (* ps1 is the part of ps the newer class knows *)
  assert (Eps1 : ps1 = filter kN ps).
  { pose proof (C08FrameP.records_filter (C08UnknownP.known cdn) _ _ Hrec) as RF.
    rewrite <- C08UnknownP.known_raw_eq in RF. fold cdn in HK1. rewrite HK1 in RF.
    exact (C08FrameP.records_det _ _ R1 _ RF). }
  (* what the older class knows, the newer class knows *)
  assert (SUB : forall p, kO p = true -> kN p = true).
  { intros p Hp. unfold kO, kN, C08UnknownP.known in *. apply negb_true_iff in Hp.
    destruct (C08EvolutionP.older_known_newer sn masks c Hnd p Hp) as (i' & i & f & _ & Fn & W).
    unfold C08Step.is_unknown, cdn. rewrite Fn, W. reflexivity. }
  assert (SUBu : forall p, uN p = true -> uO p = true).
  { intros p Hp. destruct (uO p) eqn:E; [reflexivity|]. exfalso.
    assert (K : kO p = true) by (unfold kO, C08UnknownP.known; fold (uO p); rewrite E; reflexivity).
    apply SUB in K. unfold kN, C08UnknownP.known in K. fold (uN p) in K. rewrite Hp in K. discriminate. }
  assert (EKo : C08Step.known_raw cdo ps1 = C08Step.known_raw cdo ps).
  { rewrite !C08UnknownP.known_raw_eq, Eps1. fold kO. rewrite (filter_sub kO kN ps SUB). reflexivity. }
  rewrite EKo in PK, Lk.
  set (U := C08Step.unknown_raw cdo ps).
  (* the newer reader on bs itself *)
  assert (Hp1 : parse sn c b1 = Ok (norm_obj sn m)).
  { destruct (C01Final.c01_roundtrip sn m Hs Hv) as (x & Ex & Hx). rewrite E1 in Ex. injection Ex as <-.
    destruct (Hx S1) as (m' & Hp & -> & _). exact Hp. }
  split.
  { rewrite (C08GapA.parse_unknown_exact sn c bs ps Hrec). fold cdn. rewrite HK1, Hp1. reflexivity. }
  (* the older reader and writer *)
  assert (Hpo : parse so c bs = Ok (C08Step.set_unk mk U)).
  { rewrite (C08GapA.parse_unknown_exact so c bs ps Hrec). fold cdo. rewrite PK. reflexivity. }
  assert (Eo : enc_obj so (C08Step.set_unk mk U) = Ok (k2 ++ U)).
  { apply C08GapA.reemit_total. destruct mk as [c' raw' sow' unk' cur']. cbn [ounk] in Umk. subst unk'. exact Ek. }
  exists (C08Step.set_unk mk U), (k2 ++ U). split; [exact Hpo|]. split; [exact Eo|].
  pose proof (C08FrameP.records_filter uO _ _ Hrec) as RU.
  split.
  { rewrite app_length, Lk, (C08FrameP.records_raw _ _ Hrec), (raw_of_partition_length kO ps).
    pose proof (C08EvolutionP.unknown_filter_eq sn masks c ps) as UF.
    change (filter (fun p => negb (kO p)) ps = filter uO ps) in UF. rewrite UF. reflexivity. }
  (* the newer reader on the re-emitted bytes *)
  set (qs := filter uO ps) in *. set (qs1 := filter uO ps1).
  assert (RU1 : C08Step.records (C08Step.unknown_raw cdo ps1) qs1) by exact (C08FrameP.records_filter uO _ _ R1).
  pose proof (C08FrameP.records_app _ _ _ _ Rk RU) as Rb2.
  pose proof (C08FrameP.records_app _ _ _ _ Rk RU1) as Rb20.
  rewrite (C08GapA.parse_unknown_exact sn c _ _ Rb20) in PN. fold cdn in PN.
  change (C08Step.raw_of qs) with U in Rb2.
  rewrite (C08GapA.parse_unknown_exact sn c _ _ Rb2). fold cdn.
  assert (EKn : C08Step.known_raw cdn (psk ++ qs) = C08Step.known_raw cdn (psk ++ qs1)).
  { rewrite !C08GapA.known_raw_app. f_equal. rewrite !C08UnknownP.known_raw_eq. fold kN. unfold qs, qs1. rewrite Eps1.
    rewrite (filter_comm kN uO (filter kN ps)), filter_idem, (filter_comm kN uO ps). reflexivity. }
  rewrite EKn. apply rmap_ok_inv in PN as (m' & Em' & En). rewrite Em'. cbn [C08UnknownP.rmap]. f_equal.
  (* the unknown bytes *)
  assert (X1 : C08Step.unknown_raw cdn (psk ++ qs1) = []).
  { rewrite <- Hunk, En. symmetry. apply ounk_set_unk. }
  rewrite C08GapA.unknown_raw_app in X1. apply app_eq_nil in X1 as [X1 _].
  rewrite C08GapA.unknown_raw_app, X1. cbn [app].
  rewrite En, C08UnknownP.set_unk_set_unk. f_equal.
  unfold C08Step.unknown_raw, qs. fold uN. rewrite (filter_sub uN uO ps SUBu). reflexivity.
Qed.
