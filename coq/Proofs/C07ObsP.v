(* C07: observable exclusivity of the encoding.  In bytes(m), read by a reader that knows no schema,
   the records whose field number belongs to a member of group g are exactly those of the selected
   member — one record, present also when the member holds its default value — and there is none
   when the group selects nothing. *)
From Coq Require Import ZArith List Bool Lia Arith.
From BP Require Import Base.Prelude Model.Types Model.Varint Model.Object Model.Eq Model.Encode Model.Decode.
From BP Require Import Model.WellFormed Model.C07Wire Model.C07Step.
From BP Require Import Proofs.C07InvP Proofs.C07WireP Proofs.C07EncP Proofs.C07LoadP Proofs.C07HistP Proofs.C07ParseP.
Import ListNotations.

(* the loop of Message.dump over the fields, as a function of its own *)
Definition enc_here (sc : schema) (cur : list (option nat)) (f : fdesc) (i : nat) (x : pv) : result (list byte) :=
  match group_selects cur f i with
  | Some false => Ok []
  | sel =>
      match x with
      | PNone => Ok []
      | PPlaceholder =>
          match default_of sc f with
          | PNone => Ok []
          | d => emit_field (fun _ => Ok []) sc f sel d
          end
      | _ => emit_field (enc_obj sc) sc f sel x
      end
  end.

Definition enc_fields (sc : schema) (cur : list (option nat)) : nat -> list pv -> list fdesc -> result (list byte) :=
  fix go (i : nat) (raw : list pv) (fs : list fdesc) {struct raw} : result (list byte) :=
    match raw, fs with
    | x :: raw', f :: fs' =>
        do here <- enc_here sc cur f i x;
        do rest <- go (S i) raw' fs';
        Ok (here ++ rest)
    | _, _ => Ok []
    end.

Lemma enc_obj_unfold sc c raw sow unk cur :
  enc_obj sc (Obj c raw sow unk cur) =
  (do body <- enc_fields sc cur 0 raw (cfields (get_class sc c)); Ok (body ++ unk)).
Proof. reflexivity. Qed.

(* ---- one field ---- *)
Lemma enc_here_allnum sc cur f i x chunk :
  1 <= fnum f -> enc_here sc cur f i x = Ok chunk -> AllNum (fnum f) chunk.
Proof.
  intros Hn E. unfold enc_here in E.
  destruct (group_selects cur f i) as [[|]|];
    try (injection E as <-; apply AllNum_nil);
    (destruct x; try (injection E as <-; apply AllNum_nil); try (eapply emit_field_allnum; eauto; fail);
     destruct (default_of sc f); try (injection E as <-; apply AllNum_nil); eapply emit_field_allnum; eauto).
Qed.

Lemma enc_here_hidden sc cur f i x chunk :
  group_selects cur f i = Some false -> enc_here sc cur f i x = Ok chunk -> chunk = [].
Proof. intros Hs E. unfold enc_here in E. rewrite Hs in E. injection E as <-. reflexivity. Qed.

(* the value the selected member is emitted with *)
Definition shown (sc : schema) (f : fdesc) (x : pv) : pv :=
  match x with PPlaceholder => default_of sc f | _ => x end.

Lemma enc_here_selected sc cur f i x chunk :
  1 <= fnum f -> group_selects cur f i = Some true -> member_value_ok (shown sc f x) = true ->
  enc_here sc cur f i x = Ok chunk -> exists wt, Recs chunk [(fnum f, wt)].
Proof.
  intros Hn Hs Hv E. unfold enc_here in E. rewrite Hs in E.
  assert (Hg : fgroup f <> None).
  { unfold group_selects in Hs. destruct (fgroup f); [discriminate | discriminate]. }
  unfold shown in Hv. destruct x; try discriminate; try (eapply emit_field_selected; eauto; fail).
  destruct (default_of sc f); try discriminate; eapply emit_field_selected; eauto.
Qed.

(* ---- all fields ---- *)
Lemma enc_fields_recs sc cur : forall raw i fs body,
  (forall f, In f fs -> 1 <= fnum f) ->
  enc_fields sc cur i raw fs = Ok body ->
  exists rs, Recs body rs /\
    (forall n, In n (numbers rs) ->
       exists k f, nth_error fs k = Some f /\ (k < length raw)%nat /\ fnum f = n /\
                   group_selects cur f (i + k) <> Some false) /\
    (forall k f x, nth_error fs k = Some f -> nth_error raw k = Some x ->
       group_selects cur f (i + k) = Some true -> member_value_ok (shown sc f x) = true ->
       In (fnum f) (numbers rs)).
Proof.
  induction raw as [|x raw IH]; intros i fs body Hn E.
  - cbn in E. injection E as <-. exists []. split; [constructor|]. split.
    + intros n [].
    + intros k f x _ Hx. destruct k; discriminate.
  - destruct fs as [|f fs].
    + cbn in E. injection E as <-. exists []. split; [constructor|]. split.
      * intros n [].
      * intros k f0 x0 Hk. destruct k; discriminate.
    + cbn [enc_fields] in E. fold (enc_fields sc cur) in E.
      destruct (enc_here sc cur f i x) as [here|] eqn:Eh; cbn [bind] in E; [|discriminate].
      destruct (enc_fields sc cur (S i) raw fs) as [rest|] eqn:Er; cbn [bind] in E; [|discriminate].
      injection E as <-.
      assert (Hnf : 1 <= fnum f) by (apply Hn; left; reflexivity).
      destruct (enc_here_allnum _ _ _ _ _ _ Hnf Eh) as (rh & Rh & Fh).
      destruct (IH (S i) fs rest (fun f0 H0 => Hn f0 (or_intror H0)) Er) as (rr & Rr & Hin & Hsel).
      exists (rh ++ rr). split; [apply Recs_app; auto|]. unfold numbers in *. rewrite map_app. split.
      * intros n Hi. apply in_app_or in Hi. destruct Hi as [Hi|Hi].
        -- exists 0%nat, f. cbn [nth_error length]. split; [reflexivity|]. split; [lia|]. split.
           ++ apply in_map_iff in Hi. destruct Hi as (r & <- & Hr). rewrite Forall_forall in Fh. symmetry. apply Fh, Hr.
           ++ rewrite Nat.add_0_r. intros Hs. apply (enc_here_hidden _ _ _ _ _ _ Hs) in Eh. subst here.
              inversion Rh; subst; [destruct Hi | ].
              match goal with H : _ ++ _ ++ _ = [] |- _ =>
                apply app_eq_nil in H; destruct H as (-> & _) end.
              match goal with H : Spec.Varint.varint_shape [] |- _ => cbn in H; tauto end.
        -- destruct (Hin n Hi) as (k & f' & Hk & Hl & Hf & Hs).
           exists (S k), f'. cbn [nth_error length]. split; [exact Hk|]. split; [lia|]. split; [exact Hf|].
           replace (i + S k)%nat with (S i + k)%nat by lia. exact Hs.
      * intros k f' x' Hk Hx Hs Hv. apply in_or_app. destruct k as [|k]; cbn [nth_error] in Hk, Hx.
        -- injection Hk as <-. injection Hx as <-. rewrite Nat.add_0_r in Hs. left.
           destruct (enc_here_selected _ _ _ _ _ _ Hnf Hs Hv Eh) as (wt & R1).
           assert (rh = [(fnum f, wt)]).
           { pose proof (Recs_records _ _ Rh) as A. pose proof (Recs_records _ _ R1) as B. congruence. }
           subst rh. left. reflexivity.
        -- right. apply (Hsel k f' x' Hk Hx); auto.
           replace (S i + k)%nat with (i + S k)%nat by lia. exact Hs.
Qed.

(* ---- well-formed schemas ---- *)
Lemma wf_field_of sc c i f :
  wf_schema sc = true -> nth_error (cfields (get_class sc c)) i = Some f ->
  wf_field sc (cngroups (get_class sc c)) f = true.
Proof.
  intros Hwf Hf. unfold wf_schema in Hwf. apply andb_prop in Hwf. destruct Hwf as [_ Hall].
  unfold get_class in *. destruct (nth_error (classes sc) c) as [cd|] eqn:Ec.
  - rewrite (nth_error_nth _ _ _ Ec) in *. rewrite forallb_forall in Hall.
    specialize (Hall cd (nth_error_In _ _ Ec)). unfold wf_class in Hall.
    apply andb_prop in Hall. destruct Hall as [Hf' _].
    rewrite forallb_forall in Hf'. apply Hf'. eapply nth_error_In; eauto.
  - rewrite nth_overflow in Hf by (apply nth_error_None; exact Ec). destruct i; discriminate.
Qed.

Lemma wf_field_number sc n f : wf_field sc n f = true -> 1 <= fnum f.
Proof.
  unfold wf_field. intros H. repeat (apply andb_prop in H; destruct H as [H ?]).
  apply Z.leb_le. assumption.
Qed.

(* a oneof member is a plain field: its default is a value, never None / [] / {} *)
Lemma wf_member_default sc n f g :
  wf_field sc n f = true -> fgroup f = Some g -> member_value_ok (default_of sc f) = true.
Proof.
  unfold wf_field. intros H Hg. rewrite Hg in H. unfold default_of.
  destruct (fhint f) as [t|t|t|k v].
  - destruct t; reflexivity.
  - exfalso. repeat match goal with H0 : _ && _ = true |- _ => apply andb_prop in H0; destruct H0 end.
    match goal with H0 : negb (is_some' (Some _)) = true |- _ => discriminate H0 end.
  - exfalso. repeat match goal with H0 : _ && _ = true |- _ => apply andb_prop in H0; destruct H0 end.
    match goal with H0 : negb (is_some' (Some _)) = true |- _ => discriminate H0 end.
  - exfalso. repeat match goal with H0 : _ && _ = true |- _ => apply andb_prop in H0; destruct H0 end.
    match goal with H0 : negb (is_some' (Some _)) = true |- _ => discriminate H0 end.
Qed.

(* the side condition of the theorem: the selected member of every group holds a value (not None, not a
   list, not a dict: no oneof member is optional, repeated or a map) *)
Definition selected_values_ok (sc : schema) (o : obj) : Prop :=
  forall g i, which_one_of o g = Some i ->
    match nth i (oraw o) PPlaceholder with PNone | PList _ | PDict _ => False | _ => True end.

Theorem observable sc o bs :
  wf_schema sc = true -> Inv sc o -> selected_values_ok sc o -> enc_obj sc o = Ok bs ->
  exists body rs,
    bs = body ++ ounk o /\ records body = Some rs /\
    forall g, (g < cngroups (get_class sc (ocls o)))%nat ->
      match which_one_of o g with
      | Some i =>
          exists f, nth_error (cfs sc o) i = Some f /\ In (fnum f) (numbers rs) /\
                    forall j f', j <> i -> nth_error (cfs sc o) j = Some f' -> fgroup f' = Some g ->
                                 ~ In (fnum f') (numbers rs)
      | None =>
          forall j f', nth_error (cfs sc o) j = Some f' -> fgroup f' = Some g -> ~ In (fnum f') (numbers rs)
      end.
Proof.
  intros Hwf HI Hval E. pose proof (InvS_of_Inv _ _ HI) as (Hr & Hc & Hs & _).
  destruct o as [c raw sow unk cur]. unfold cfs, which_one_of, selected_values_ok in *. cbn [ocls oraw ocur ounk] in *.
  rewrite enc_obj_unfold in E.
  destruct (enc_fields sc cur 0 raw (cfields (get_class sc c))) as [body|] eqn:Ef; cbn [bind] in E; [|discriminate].
  injection E as <-.
  assert (Hnum : forall f, In f (cfields (get_class sc c)) -> 1 <= fnum f).
  { intros f Hin. apply In_nth_error in Hin. destruct Hin as (k & Hk).
    eapply wf_field_number, wf_field_of; eauto. }
  destruct (enc_fields_recs sc cur raw 0%nat _ body Hnum Ef) as (rs & R & Hin & Hsel).
  exists body, rs. split; [reflexivity|]. split; [apply Recs_records; exact R|].
  (* a member whose number is seen is readable *)
  assert (Hseen : forall j f', nth_error (cfields (get_class sc c)) j = Some f' -> In (fnum f') (numbers rs) ->
                               group_selects cur f' j <> Some false).
  { intros j f' Hj Hn. destruct (Hin _ Hn) as (k & f & Hk & _ & Hfn & Hgs). cbn [Nat.add] in Hgs.
    assert (k = j).
    { pose proof (field_by_number_nodup _ _ _ (wf_nodup sc c Hwf) Hk) as A.
      pose proof (field_by_number_nodup _ _ _ (wf_nodup sc c Hwf) Hj) as B.
      rewrite Hfn in A. rewrite A in B. congruence. }
    subst k. rewrite Hk in Hj. injection Hj as <-. exact Hgs. }
  intros g Hg. destruct (nth g cur None) as [i|] eqn:Ecur.
  - destruct (Hs g i Ecur) as (f & Hf & Hfg). exists f. split; [exact Hf|]. split.
    + destruct (nth_error raw i) as [x|] eqn:Ex.
      2:{ apply nth_error_None in Ex. apply nth_error_lt in Hf. lia. }
      apply (Hsel i f x Hf Ex).
      * cbn [Nat.add]. unfold group_selects. rewrite Hfg, Ecur. cbn [opt_nat_eqb]. rewrite Nat.eqb_refl. reflexivity.
      * specialize (Hval g i Ecur). rewrite (nth_error_nth _ _ _ Ex) in Hval. unfold shown.
        destruct x; try contradiction; try reflexivity.
        eapply wf_member_default; eauto. eapply wf_field_of; eauto.
    + intros j f' Hne Hj Hjg Hn. apply (Hseen j f' Hj Hn).
      unfold group_selects. rewrite Hjg, Ecur. cbn [opt_nat_eqb].
      destruct (Nat.eqb i j) eqn:Eij; [apply Nat.eqb_eq in Eij; congruence | reflexivity].
  - intros j f' Hj Hjg Hn. apply (Hseen j f' Hj Hn).
    unfold group_selects. rewrite Hjg, Ecur. reflexivity.
Qed.

(* the side condition holds along histories whose assigned values are values (never None / list / dict for a
   oneof member): stated here for the two ways a selection is made *)
Lemma selected_values_ok_new sc c : selected_values_ok sc (new sc c).
Proof.
  intros g i H. unfold which_one_of, new in H. cbn [ocur] in H. rewrite nth_repeat_none in H. discriminate.
Qed.
