(* C04, middle layer: sizes / induction over the nested value, what the side conditions give for
   sub-values, and the round trip of one element (scalar, Timestamp, Duration, nested message given
   the induction hypothesis) and of one field value. *)
From BP Require Import Base.Prelude Model.Types Model.Float Model.Utf8 Model.Object Model.Eq Model.TimeCore.
From BP Require Import Model.Encode Model.WellFormed Model.Json.
From BP Require Import Spec.Time.
From BP Require Model.Time Model.Enum Model.Casing.
From BP Require Import gen.Tables Proofs.BytesP Proofs.C04Def Proofs.C04ScalarP Proofs.C04CalP Proofs.C04CalSweepP.
From Coq Require Import Lia ZifyBool.

(* ---------------------------------------------------------------------------------- *)
(* size and induction                                                                  *)
(* ---------------------------------------------------------------------------------- *)
Fixpoint pv_size (v : pv) : nat :=
  match v with
  | PMsg (Obj _ raw _ _ _) => S ((fix ls (l : list pv) : nat := match l with [] => O | x :: r => Nat.add (pv_size x) (ls r) end) raw)
  | PList l => S ((fix ls (l : list pv) : nat := match l with [] => O | x :: r => Nat.add (pv_size x) (ls r) end) l)
  | PDict d => S ((fix ls (l : list (pv * pv)) : nat := match l with [] => O | kx :: r => Nat.add (pv_size (snd kx)) (ls r) end) d)
  | _ => 1%nat
  end.

Definition sum_size (l : list pv) : nat :=
  (fix ls (l : list pv) : nat := match l with [] => O | x :: r => Nat.add (pv_size x) (ls r) end) l.
Definition sum_size_d (d : list (pv * pv)) : nat :=
  (fix ls (l : list (pv * pv)) : nat := match l with [] => O | kx :: r => Nat.add (pv_size (snd kx)) (ls r) end) d.

Lemma size_msg c raw s u g : pv_size (PMsg (Obj c raw s u g)) = S (sum_size raw). Proof. reflexivity. Qed.
Lemma size_list l : pv_size (PList l) = S (sum_size l). Proof. reflexivity. Qed.
Lemma size_dict d : pv_size (PDict d) = S (sum_size_d d). Proof. reflexivity. Qed.
Lemma sum_size_cons x r : sum_size (x :: r) = (pv_size x + sum_size r)%nat. Proof. reflexivity. Qed.
Lemma sum_size_d_cons k x r : sum_size_d ((k, x) :: r) = (pv_size x + sum_size_d r)%nat. Proof. reflexivity. Qed.

Lemma in_sum_size x l : In x l -> (pv_size x <= sum_size l)%nat.
Proof.
  induction l as [|y r IH]; intros H; [destruct H|]. rewrite sum_size_cons.
  destruct H as [->|H]; [lia|]. specialize (IH H). lia.
Qed.
Lemma in_sum_size_d k x d : In (k, x) d -> (pv_size x <= sum_size_d d)%nat.
Proof.
  induction d as [|[k' y] r IH]; intros H; [destruct H|]. rewrite sum_size_d_cons.
  destruct H as [E|H]; [inversion E; subst; lia|]. specialize (IH H). lia.
Qed.

Lemma pv_size_ind (P : pv -> Prop) :
  (forall v, (forall w, (pv_size w < pv_size v)%nat -> P w) -> P v) -> forall v, P v.
Proof.
  intros H v. remember (pv_size v) as n eqn:E. revert v E.
  induction n as [n IH] using lt_wf_ind. intros v E. apply H. intros w Hw. apply (IH (pv_size w)); [lia|reflexivity].
Qed.

(* ---------------------------------------------------------------------------------- *)
(* pv_all                                                                              *)
(* ---------------------------------------------------------------------------------- *)
Lemma pv_all_msg P c raw s u g :
  pv_all P (PMsg (Obj c raw s u g)) = P (Obj c raw s u g) && forallb (pv_all P) raw.
Proof. reflexivity. Qed.

Lemma forallb_ext_in {A} (f g : A -> bool) l : (forall x, In x l -> f x = g x) -> forallb f l = forallb g l.
Proof.
  induction l as [|x r IH]; intros H; [reflexivity|]. cbn [forallb].
  rewrite (H x (or_introl eq_refl)), IH; [reflexivity|]. intros y Hy. apply H. right. exact Hy.
Qed.
Lemma forallb_andb {A} (f g : A -> bool) l : forallb (fun x => f x && g x) l = forallb f l && forallb g l.
Proof.
  induction l as [|x r IH]; [reflexivity|]. cbn [forallb]. rewrite IH.
  destruct (f x), (g x), (forallb f r), (forallb g r); reflexivity.
Qed.

Lemma pv_all_and P Q v : pv_all (fun o => P o && Q o) v = pv_all P v && pv_all Q v.
Proof.
  induction v as [v IH] using pv_size_ind. destruct v as [| | | | | | | | |l|d|[c raw s u g]]; try reflexivity.
  - cbn [pv_all]. rewrite <- forallb_andb. apply forallb_ext_in. intros x Hx. apply IH.
    rewrite size_list. pose proof (in_sum_size x l Hx). lia.
  - cbn [pv_all]. rewrite <- forallb_andb. apply forallb_ext_in. intros [k x] Hx. cbn [snd]. apply IH.
    rewrite size_dict. pose proof (in_sum_size_d k x d Hx). lia.
  - rewrite !pv_all_msg.
    assert (E : forallb (pv_all (fun o => P o && Q o)) raw = forallb (pv_all P) raw && forallb (pv_all Q) raw).
    { rewrite <- forallb_andb. apply forallb_ext_in. intros x Hx. apply IH.
      rewrite size_msg. pose proof (in_sum_size x raw Hx). lia. }
    rewrite E. destruct (P _), (Q _), (forallb (pv_all P) raw), (forallb (pv_all Q) raw); reflexivity.
Qed.

(* the four local conditions as one *)
Definition local_ok (sc : schema) (o : obj) : bool :=
  (match ounk o with [] => true | _ => false end) && local_no_lazy sc o && local_nan_ok o && local_oneof_ok sc o
  && local_dicts_ok sc o.
Definition pv_good (sc : schema) (v : pv) : bool := pv_all (local_ok sc) v.

Lemma good_split sc o :
  good sc o = in_range sc o && pv_good sc (PMsg o).
Proof.
  unfold good, json_supported, no_unknown, no_lazy, nan_ok, oneof_ok, dicts_ok, obj_all, pv_good, local_ok.
  rewrite !pv_all_and.
  repeat match goal with |- context [pv_all ?P (PMsg o)] => destruct (pv_all P (PMsg o)) end;
    destruct (in_range sc o); reflexivity.
Qed.

(* ---------------------------------------------------------------------------------- *)
(* norm_pv on values that hold no message                                              *)
(* ---------------------------------------------------------------------------------- *)
Lemma norm_scalar sc t v : scalar_in_range t v = true -> norm_pv sc v = v.
Proof. destruct t, v; try discriminate; reflexivity. Qed.

Lemma norm_pv_msg sc o : norm_pv sc (PMsg o) = PMsg (norm_obj sc o).
Proof. unfold norm_obj. destruct o as [c raw s u g]. reflexivity. Qed.

(* ---------------------------------------------------------------------------------- *)
(* JSON atoms: what a scalar turns into                                                *)
(* ---------------------------------------------------------------------------------- *)
Definition atom (j : json) : bool :=
  match j with JStr _ | JInt _ | JBool _ | JFloat _ => true | _ => false end.

Lemma atom_dump_float x : atom (dump_float x) = true.
Proof. unfold dump_float. destruct (x =? f64_pos_inf), (x =? f64_neg_inf), (f64_is_nan x); reflexivity. Qed.
Lemma atom_dump_enum sc e z : atom (dump_enum sc e z) = true.
Proof.
  unfold dump_enum, Enum.to_json_el. destruct (fst (Enum.try_value (enum_cls sc e) z)); reflexivity.
Qed.
Lemma atom_tr b j : atom j = true -> atom (tr b j) = true.
Proof. destruct b, j; try discriminate; reflexivity. Qed.

Lemma scalar_atom sc t p v :
  tmem t scalar_ptypes = true ->
  pyty_fits (length (classes sc)) (length (enums sc)) t p = true ->
  scalar_in_range t v = true -> atom (scalar_to_json sc t p v) = true.
Proof.
  intros Ht Hp Hr. unfold scalar_to_json.
  destruct t; try discriminate Ht; eval_tables;
    destruct v; try discriminate Hr; destruct p; try discriminate Hp;
    cbn [raw_json]; try reflexivity; try apply atom_dump_float; apply atom_dump_enum.
Qed.

Lemma list_or_single_atom conv j : atom j = true -> list_or_single conv j = conv j.
Proof. destruct j; try discriminate; reflexivity. Qed.

(* ---------------------------------------------------------------------------------- *)
(* one element                                                                         *)
(* ---------------------------------------------------------------------------------- *)
Definition recf (sc : schema) : nat -> json -> result obj :=
  fun c' j' => do kw <- from_dict_init sc c' j'; Ok (finish_cls sc c' kw).

Definition scalar_py (p : pyty) : bool :=
  match p with PyInt | PyFloat | PyBool | PyStr | PyBytes | PyEnum _ => true | _ => false end.

Lemma elem_scalar sc t p v : scalar_py p = true -> elem_in_range sc t p v = scalar_in_range t v.
Proof. destruct p; try discriminate; intros _; destruct v as [| | | | | | | | | | |[c r s u g]]; reflexivity. Qed.

Lemma fits_scalar nc ne t p : scalar_py p = true -> pyty_fits nc ne t p = true -> tmem t scalar_ptypes = true.
Proof. destruct p; try discriminate; intros _; destruct t; try discriminate; reflexivity. Qed.
Lemma fits_message nc ne t p : scalar_py p = false -> pyty_fits nc ne t p = true -> t = TMessage.
Proof. destruct p; try discriminate; intros _; destruct t; try discriminate; reflexivity. Qed.
Lemma scalar_not_message t : tmem t scalar_ptypes = true -> ptype_eqb t TMessage = false /\ ptype_eqb t TMap = false.
Proof. destruct t; try discriminate; split; reflexivity. Qed.

Lemma in_range_obj sc c o :
  elem_in_range sc TMessage (PyMsg c) (PMsg o) = true -> c = ocls o /\ in_range sc o = true.
Proof.
  intros H. destruct o as [c' r s u g]. unfold in_range. cbn [ocls].
  assert (E : c = c').
  { cbn [elem_in_range] in H. apply andb_prop in H as [H _]. apply andb_prop in H as [H _]. apply andb_prop in H as [H _].
    apply Nat.eqb_eq in H. exact H. }
  subst. split; [reflexivity|exact H].
Qed.

Section Elem.
  Variable sc : schema.
  Variable cs : casing.
  Variable b : bool.
  Variable n : nat.
  Hypothesis IHo : forall o', (pv_size (PMsg o') < n)%nat -> in_range sc o' = true -> pv_good sc (PMsg o') = true ->
    from_dict_cls sc (ocls o') (tr b (to_dict cs false sc o')) = Ok (norm_obj sc o').

  Let nc := length (classes sc).
  Let ne := length (enums sc).

  Lemma elem_rt t p v :
    (pv_size v < n)%nat ->
    pyty_fits nc ne t p = true ->
    elem_in_range sc t p v = true -> pv_good sc v = true -> nan_canonical v = true ->
    elem_from_json (recf sc) sc t p (tr b (elem_to_json (to_dict cs false sc) sc t p v)) = Ok (norm_pv sc v).
  Proof.
    intros Hs Hp Hr Hg Hn.
    destruct (scalar_py p) eqn:Sp.
    - (* a scalar *)
      pose proof (fits_scalar _ _ _ _ Sp Hp) as Ht. rewrite (elem_scalar _ _ _ _ Sp) in Hr.
      destruct (scalar_not_message t Ht) as [Nm _].
      assert (E : elem_to_json (to_dict cs false sc) sc t p v = scalar_to_json sc t p v)
        by (destruct t, v; try discriminate Hr; reflexivity).
      rewrite E. unfold elem_from_json. rewrite Nm.
      rewrite (norm_scalar sc t v Hr).
      destruct p; try discriminate Sp; apply scalar_roundtrip; assumption.
    - pose proof (fits_message _ _ _ _ Sp Hp) as ->.
      destruct p; try discriminate Sp.
      + (* a nested message *)
        destruct v as [| | | | | | | | | | |o]; try discriminate Hr.
        destruct (in_range_obj sc c o Hr) as [-> Ho].
        cbn [elem_to_json elem_from_json]. change (ptype_eqb TMessage TMessage) with true. cbv iota.
        change (recf sc (ocls o) (tr b (to_dict cs false sc o))) with (from_dict_cls sc (ocls o) (tr b (to_dict cs false sc o))).
        rewrite (IHo o Hs Ho Hg). cbn [bind]. rewrite norm_pv_msg. reflexivity.
      + destruct v; try discriminate Hr. cbn [elem_in_range] in Hr.
        cbn [elem_to_json elem_from_json]. rewrite tr_str.
        rewrite (iso_roundtrip us cal_fact_holds Hr). reflexivity.
      + destruct v; try discriminate Hr. cbn [elem_in_range] in Hr.
        cbn [elem_to_json elem_from_json]. rewrite tr_str.
        rewrite (duration_roundtrip us Hr). reflexivity.
  Qed.
End Elem.

(* ---------------------------------------------------------------------------------- *)
(* what in_range says about one raw attribute                                          *)
(* ---------------------------------------------------------------------------------- *)
Definition value_ok (sc : schema) (f : fdesc) (x : pv) : bool :=
  match x with
  | PPlaceholder => true
  | PNone => match fhint f with HOptional _ => true | _ => false end
  | _ =>
      match fhint f with
      | HPlain p' => elem_in_range sc (fty f) p' x
      | HOptional p' =>
          elem_in_range sc (match fwraps f with Some w => w | None => fty f end) p' x
      | HList p' =>
          match x with
          | PList l => (fix all (l : list pv) : bool :=
                          match l with [] => true | y :: l' => elem_in_range sc (fty f) p' y && all l' end) l
          | _ => false
          end
      | HDict pk pv' =>
          match x, fmap f with
          | PDict d, Some (kt, vt) =>
              (fix all (d : list (pv * pv)) : bool :=
                 match d with
                 | [] => true
                 | (k, y) :: d' => scalar_in_range kt k && elem_in_range sc vt pv' y && all d'
                 end) d
          | _, _ => false
          end
      end
  end.

Fixpoint fields_ok (sc : schema) (raw : list pv) (fs : list fdesc) {struct raw} : bool :=
  match raw, fs with
  | x :: raw', f :: fs' => value_ok sc f x && fields_ok sc raw' fs'
  | _, _ => true
  end.

Lemma in_range_unfold sc c raw s u g :
  in_range sc (Obj c raw s u g) = true ->
  length raw = length (cfields (get_class sc c)) /\ length g = cngroups (get_class sc c) /\
  fields_ok sc raw (cfields (get_class sc c)) = true.
Proof.
  unfold in_range. cbn [ocls elem_in_range]. intros H.
  apply andb_prop in H as [H F]. apply andb_prop in H as [H G]. apply andb_prop in H as [_ L].
  apply Nat.eqb_eq in L. apply Nat.eqb_eq in G. split; [exact L|]. split; [exact G|].
  revert F. generalize (cfields (get_class sc c)) as fs. clear.
  induction raw as [|x raw IH]; intros fs F; [reflexivity|]. destruct fs as [|f fs]; [reflexivity|].
  cbn [fields_ok]. apply andb_prop in F as [F1 F2]. rewrite (IH fs F2). rewrite andb_true_r. exact F1.
Qed.

Lemma all_list_forallb sc t p l :
  (fix all (l : list pv) : bool :=
     match l with [] => true | y :: l' => elem_in_range sc t p y && all l' end) l
  = forallb (elem_in_range sc t p) l.
Proof. induction l as [|y l IH]; [reflexivity|]. cbn [forallb]. rewrite <- IH. reflexivity. Qed.

Lemma all_dict_forallb sc kt vt p d :
  (fix all (d : list (pv * pv)) : bool :=
     match d with
     | [] => true
     | (k, y) :: d' => scalar_in_range kt k && elem_in_range sc vt p y && all d'
     end) d
  = forallb (fun ky => scalar_in_range kt (fst ky) && elem_in_range sc vt p (snd ky)) d.
Proof. induction d as [|[k y] d IH]; [reflexivity|]. cbn [forallb fst snd]. rewrite <- IH. reflexivity. Qed.

(* ---------------------------------------------------------------------------------- *)
(* small list lemmas                                                                   *)
(* ---------------------------------------------------------------------------------- *)
Lemma mapM_map {A B C} (f : B -> result C) (g : A -> B) (h : A -> C) l :
  (forall x, In x l -> f (g x) = Ok (h x)) -> mapM f (map g l) = Ok (map h l).
Proof.
  induction l as [|x r IH]; intros H; [reflexivity|]. cbn [map mapM].
  rewrite (H x (or_introl eq_refl)). cbn [bind]. rewrite IH; [reflexivity|]. intros y Hy. apply H. right. exact Hy.
Qed.

Lemma not_nan_canonical v : not_nan v = true -> nan_canonical v = true.
Proof. destruct v; try reflexivity. cbn. intros ->. reflexivity. Qed.

Lemma wrapper_same w vt : wrapper_value_type w = Some vt -> vt = w.
Proof. destruct w; cbn; intros H; inversion H; reflexivity. Qed.
