(* C02, gap closure (2): the specification itself treats the alternative encodings of C02's list as THE SAME
   MESSAGE.  Everything here is about Spec/Wire.v only ([gather], [sem]); the decoder comes in through
   C02_decode_refines in Proofs/C02GapA.v / Properties/C02.v.

   Core: [gather] seen one field at a time ([gather_nth] : field k holds [proj k rs]; [gather_unk] : the unknown
   fields are a filter of the records).  From it:
     sem_reorder          any reordering that keeps the relative order inside one field number, inside one oneof
                          group and among the unknown fields                                    ("any field order")
     sem_unknown_insert   an unknown field anywhere: same fields, the unknown list gains it     ("interleaved unknown fields")
     sem_duplicate_scalar an earlier (valid) occurrence of a singular scalar is overridden      ("repeated occurrences ... last one wins")
     sem_oneof_override   an earlier (valid) scalar member of a oneof group is overridden by any later member of the group *)
From Coq Require Import ZArith List Bool Lia.
From BP Require Import Base.Prelude Model.Types Model.Object Model.WellFormed Spec.Varint Spec.Wire.
From BP Require Import Proofs.C02Abs Proofs.C02ListP Proofs.C02StepP Proofs.C02StoreP Proofs.C02MapP Proofs.C02LegalSpec.
From BP Require Import Model.C02GapDef.
Import ListNotations.

(* ------------------------------------------------------------------ gather, one field at a time *)
Lemma gather_step_slot sc fs st u r :
  gather_step sc fs (st, u) r =
  match slot sc fs r with
  | Some (i, f) => (add_payload i f (snd r) 0 fs st, u)
  | None => (st, u ++ [r])
  end.
Proof.
  destruct r as [num p]. unfold gather_step, slot. cbn [fst snd].
  destruct (find_field fs num) as [[i f]|]; [|reflexivity]. destruct (accepts sc f p); reflexivity.
Qed.

Lemma proj_step_eq sc fs k fk ps r :
  proj_step sc fs k fk ps r =
  match slot sc fs r with
  | Some (i, f) => if Nat.eqb i k then ps ++ [snd r] else if same_group f fk then [] else ps
  | None => ps
  end.
Proof. reflexivity. Qed.

Lemma slot_nth sc fs r i f : slot sc fs r = Some (i, f) -> nth_error fs i = Some f.
Proof.
  unfold slot. destruct (find_field fs (fst r)) as [[i0 f0]|] eqn:F; [|discriminate].
  destruct (accepts sc f0 (snd r)); [|discriminate]. intros H. injection H as <- <-.
  exact (proj1 (find_field_spec _ _ _ _ F)).
Qed.

Lemma gather_nth sc fs : forall rs st u k fk ps,
  length st = length fs -> nth_error fs k = Some fk -> nth_error st k = Some ps ->
  nth_error (fst (fold_left (gather_step sc fs) rs (st, u))) k = Some (fold_left (proj_step sc fs k fk) rs ps).
Proof.
  induction rs as [|r rs IH]; intros st u k fk ps L Hf Hp; [exact Hp|].
  cbn [fold_left]. rewrite gather_step_slot, (proj_step_eq sc fs k fk ps r).
  destruct (slot sc fs r) as [[i f]|] eqn:Sl.
  - apply IH; [now apply add_payload_length | exact Hf |].
    rewrite (add_payload_nth i f (snd r) fs 0 st k fk ps Hf Hp). cbn [Nat.add].
    rewrite (Nat.eqb_sym k i). reflexivity.
  - apply IH; assumption.
Qed.

Lemma unk_of_cons sc fs r rs :
  unk_of sc fs (r :: rs) = if is_some (slot sc fs r) then unk_of sc fs rs else r :: unk_of sc fs rs.
Proof. unfold unk_of. cbn [filter]. destruct (is_some (slot sc fs r)); reflexivity. Qed.

Lemma unk_of_app sc fs a b : unk_of sc fs (a ++ b) = unk_of sc fs a ++ unk_of sc fs b.
Proof. unfold unk_of. apply filter_app. Qed.

Lemma gather_unk sc fs : forall rs st u,
  snd (fold_left (gather_step sc fs) rs (st, u)) = u ++ unk_of sc fs rs.
Proof.
  induction rs as [|r rs IH]; intros st u; [cbn; now rewrite app_nil_r|].
  cbn [fold_left]. rewrite gather_step_slot, unk_of_cons.
  destruct (slot sc fs r) as [[i f]|] eqn:Sl; cbn [is_some].
  - apply IH.
  - rewrite IH, <- app_assoc. reflexivity.
Qed.

Lemma list_ext_nth_error {A} : forall (l l' : list A), (forall k, nth_error l k = nth_error l' k) -> l = l'.
Proof.
  induction l as [|a l IH]; intros [|b l'] H.
  - reflexivity.
  - specialize (H 0%nat). discriminate.
  - specialize (H 0%nat). discriminate.
  - pose proof (H 0%nat) as H0. cbn in H0. injection H0 as ->. f_equal. apply IH. intros k. exact (H (S k)).
Qed.

(* two record lists every field sees alike, with the same unknown fields, gather alike *)
Lemma gather_ext sc fs rs rs' :
  (forall k fk, nth_error fs k = Some fk -> proj sc fs k fk rs = proj sc fs k fk rs') ->
  unk_of sc fs rs = unk_of sc fs rs' ->
  gather sc fs rs = gather sc fs rs'.
Proof.
  intros HP HU. unfold gather.
  set (st0 := map (fun _ : fdesc => @nil payload) fs).
  assert (L0 : length st0 = length fs) by (unfold st0; apply map_length).
  apply injective_projections.
  - apply list_ext_nth_error. intros k.
    destruct (nth_error fs k) as [fk|] eqn:Hf.
    + assert (H0 : nth_error st0 k = Some []) by (unfold st0; now rewrite (map_nth_error _ _ _ Hf)).
      rewrite (gather_nth sc fs rs st0 [] k fk [] L0 Hf H0), (gather_nth sc fs rs' st0 [] k fk [] L0 Hf H0).
      f_equal. exact (HP k fk Hf).
    + apply nth_error_None in Hf.
      pose proof (gather_length sc fs rs (st0, []) L0) as L1.
      pose proof (gather_length sc fs rs' (st0, []) L0) as L2.
      transitivity (@None (list payload)); [|symmetry]; apply nth_error_None; lia.
  - rewrite !gather_unk. cbn [app]. exact HU.
Qed.

Lemma sem_ext n sc c rs rs' :
  (forall nested, forallb (record_valid nested sc (cfields (get_class sc c))) rs =
                  forallb (record_valid nested sc (cfields (get_class sc c))) rs') ->
  gather sc (cfields (get_class sc c)) rs = gather sc (cfields (get_class sc c)) rs' ->
  sem n sc c rs = sem n sc c rs'.
Proof.
  intros HV HG. destruct n as [|n']; [reflexivity|]. rewrite !sem_S. cbv zeta. rewrite HV, HG. reflexivity.
Qed.

(* ------------------------------------------------------------------ any field order *)
Lemma same_group_sym f g : same_group f g = same_group g f.
Proof. unfold same_group. destruct (fgroup f), (fgroup g); try reflexivity. apply Nat.eqb_sym. Qed.

Lemma proj_step_comm sc fs k fk ps r1 r2 :
  indep sc fs r1 r2 = true -> nth_error fs k = Some fk ->
  proj_step sc fs k fk (proj_step sc fs k fk ps r1) r2 = proj_step sc fs k fk (proj_step sc fs k fk ps r2) r1.
Proof.
  intros I Hk. unfold indep in I. rewrite !proj_step_eq.
  destruct (slot sc fs r1) as [[i f]|] eqn:S1; destruct (slot sc fs r2) as [[j g]|] eqn:S2;
    try reflexivity; try discriminate I.
  apply andb_true_iff in I as [Nij Ng]. apply negb_true_iff in Nij, Ng. apply Nat.eqb_neq in Nij.
  pose proof (slot_nth _ _ _ _ _ S1) as Hi. pose proof (slot_nth _ _ _ _ _ S2) as Hj.
  destruct (Nat.eqb i k) eqn:Eik; destruct (Nat.eqb j k) eqn:Ejk.
  - apply Nat.eqb_eq in Eik, Ejk. lia.
  - apply Nat.eqb_eq in Eik. subst k. assert (fk = f) by congruence. subst fk.
    rewrite (same_group_sym g f), Ng. reflexivity.
  - apply Nat.eqb_eq in Ejk. subst k. assert (fk = g) by congruence. subst fk.
    rewrite Ng. reflexivity.
  - destruct (same_group f fk), (same_group g fk); reflexivity.
Qed.

Lemma fold_proj_app sc fs k fk a b ps :
  fold_left (proj_step sc fs k fk) (a ++ b) ps = fold_left (proj_step sc fs k fk) b (fold_left (proj_step sc fs k fk) a ps).
Proof. apply fold_left_app. Qed.

Lemma indep_unk_swap sc fs r1 r2 :
  indep sc fs r1 r2 = true -> unk_of sc fs [r1; r2] = unk_of sc fs [r2; r1].
Proof.
  unfold indep. intros I. rewrite !unk_of_cons.
  destruct (slot sc fs r1) as [[i f]|]; destruct (slot sc fs r2) as [[j g]|]; cbn [is_some]; try reflexivity.
  discriminate I.
Qed.

Lemma gather_swap sc fs pre r1 r2 post :
  indep sc fs r1 r2 = true ->
  gather sc fs (pre ++ r1 :: r2 :: post) = gather sc fs (pre ++ r2 :: r1 :: post).
Proof.
  intros I. apply gather_ext.
  - intros k fk Hk. unfold proj. rewrite !fold_proj_app. cbn [fold_left].
    rewrite (proj_step_comm sc fs k fk _ r1 r2 I Hk). reflexivity.
  - change (r1 :: r2 :: post) with ([r1; r2] ++ post). change (r2 :: r1 :: post) with ([r2; r1] ++ post).
    rewrite !unk_of_app, (indep_unk_swap sc fs r1 r2 I). reflexivity.
Qed.

Lemma forallb_swap {A} (p : A -> bool) pre r1 r2 post :
  forallb p (pre ++ r1 :: r2 :: post) = forallb p (pre ++ r2 :: r1 :: post).
Proof. rewrite !forallb_app. cbn [forallb]. destruct (p r1), (p r2); reflexivity. Qed.

Theorem sem_reorder n sc c rs rs' :
  reorder sc (cfields (get_class sc c)) rs rs' -> sem n sc c rs = sem n sc c rs'.
Proof.
  induction 1 as [rs | pre r1 r2 post I | a b d _ IH1 _ IH2].
  - reflexivity.
  - apply sem_ext; [intros nested; apply forallb_swap | now apply gather_swap].
  - congruence.
Qed.

(* ------------------------------------------------------------------ interleaved unknown fields *)
Lemma proj_unknown sc fs k fk pre u post :
  slot sc fs u = None -> proj sc fs k fk (pre ++ u :: post) = proj sc fs k fk (pre ++ post).
Proof.
  intros Su. unfold proj. rewrite !fold_proj_app. cbn [fold_left]. rewrite (proj_step_eq sc fs k fk _ u), Su. reflexivity.
Qed.

Lemma record_valid_unknown nested sc fs u : slot sc fs u = None -> record_valid nested sc fs u = true.
Proof.
  unfold slot, record_valid. destruct (find_field fs (fst u)) as [[i f]|]; [|reflexivity].
  destruct (accepts sc f (snd u)); [discriminate | reflexivity].
Qed.

(* an unknown field (number not declared, or wire type the declared field does not take) inserted anywhere:
   the denotation exists exactly when it did, every declared field reads the same, and the unknown-field list
   is the old one with the new record at its place *)
Theorem sem_unknown_insert n sc c pre u post :
  slot sc (cfields (get_class sc c)) u = None ->
  match sem n sc c (pre ++ post) with
  | Some (AMsg fields unk) =>
      sem n sc c (pre ++ u :: post) =
      Some (AMsg fields (unk_of sc (cfields (get_class sc c)) pre ++ u :: unk_of sc (cfields (get_class sc c)) post)) /\
      unk = unk_of sc (cfields (get_class sc c)) pre ++ unk_of sc (cfields (get_class sc c)) post
  | Some _ => False
  | None => sem n sc c (pre ++ u :: post) = None
  end.
Proof.
  intros Su. set (fs := cfields (get_class sc c)) in *.
  destruct n as [|n']; [reflexivity|]. rewrite !sem_S. cbv zeta. fold fs.
  assert (V : forallb (record_valid (nested_sem n' sc) sc fs) (pre ++ u :: post) =
              forallb (record_valid (nested_sem n' sc) sc fs) (pre ++ post)).
  { rewrite !forallb_app. cbn [forallb]. rewrite (record_valid_unknown _ sc fs u Su). reflexivity. }
  rewrite V. destruct (forallb _ (pre ++ post)); [|reflexivity].
  assert (G1 : fst (gather sc fs (pre ++ u :: post)) = fst (gather sc fs (pre ++ post))).
  { unfold gather. set (st0 := map (fun _ : fdesc => @nil payload) fs).
    assert (L0 : length st0 = length fs) by (unfold st0; apply map_length).
    apply list_ext_nth_error. intros k. destruct (nth_error fs k) as [fk|] eqn:Hf.
    - assert (H0 : nth_error st0 k = Some []) by (unfold st0; now rewrite (map_nth_error _ _ _ Hf)).
      rewrite (gather_nth sc fs _ st0 [] k fk [] L0 Hf H0), (gather_nth sc fs _ st0 [] k fk [] L0 Hf H0).
      f_equal. exact (proj_unknown sc fs k fk pre u post Su).
    - apply nth_error_None in Hf.
      pose proof (gather_length sc fs (pre ++ u :: post) (st0, []) L0) as L1.
      pose proof (gather_length sc fs (pre ++ post) (st0, []) L0) as L2.
      transitivity (@None (list payload)); [|symmetry]; apply nth_error_None; lia. }
  assert (G2 : snd (gather sc fs (pre ++ u :: post)) = unk_of sc fs pre ++ u :: unk_of sc fs post).
  { unfold gather. rewrite gather_unk. cbn [app]. rewrite unk_of_app, unk_of_cons, Su. reflexivity. }
  assert (G3 : snd (gather sc fs (pre ++ post)) = unk_of sc fs pre ++ unk_of sc fs post).
  { unfold gather. rewrite gather_unk. cbn [app]. apply unk_of_app. }
  destruct (gather sc fs (pre ++ u :: post)) as [st1 u1]. destruct (gather sc fs (pre ++ post)) as [st2 u2].
  cbn [fst snd] in G1, G2, G3. subst st1 u1 u2.
  destruct (omap_all _ (combine fs st2)) as [fields|]; cbn [obind]; [split; reflexivity | reflexivity].
Qed.
