(* C17 source-translation tie: the Gallina obtained MECHANICALLY from the current Python source of _read_exactly /
   _load_field (coq/gen/C17Src.v, written by harness/gen_c17_src.py) is extensionally equal to the hand-written model
   Model/Decode.read_exactly / load_field.  _load_field recurses on itself (nested groups) and loops (the members of a
   group): the translation is a Fixpoint on one fuel with a local loop counter; the model has the same two counters.
   The equality holds for EVERY pair of fuels above explicit bounds computed from the length of the stream, so the
   out-of-fuel arms (Err EFuel) are unreachable on both sides.
   Built only by the "source tie" stage of harness/props/c17.py: a harmless rewrite of the Python functions may change
   gen/C17Src.v so that these scripts no longer apply, which is reported as "tie did not hold", never as a violation. *)
From BP Require Import Base.Prelude Model.Types Model.Varint Model.Decode Spec.Varint.
From BP Require Import Model.C17Wire Proofs.BytesP Proofs.VarintP Proofs.C17FieldP.
From BP Require Import Model.C16SrcLib Model.C17SrcLib gen.C17Src gen.C17SrcBridge.
From BP Require Import gen.Tables.
From Coq Require Import ZifyBool ZifyN.
Ltac Zify.zify_post_hook ::= Z.to_euclidean_division_equations.

Lemma src17_reader_present : src17_reader_translated = true.
Proof. reflexivity. Qed.

(* ---------- how a ParsedField of the source corresponds to the model's record ---------- *)
(* ParsedField.value is None for a group, the int for a varint, the payload bytes otherwise; the model keeps an int
   and a bytes component (0 / [] when unused) *)
Definition value_of_parsed (p : parsed) : pyval :=
  if pwt p =? 0 then VInt (pint p) else if pwt p =? 3 then VNone else VBytes (pbytes p).

Definition of_parsed (p : parsed) : src_ParsedField :=
  mk_ParsedField (pnum p) (pwt p) (value_of_parsed p) (praw p).

Definition map_field (r : result (parsed * list byte)) : result (src_ParsedField * list byte) :=
  match r with Ok (p, s) => Ok (of_parsed p, s) | Err e => Err e end.

(* the image of a model outcome: the record translated, ETooLong renamed to EValue (both ValueError) *)
Definition lift_field (r : result (parsed * list byte)) : result (src_ParsedField * list byte) :=
  err_class (map_field r).

(* ---------- _read_exactly ---------- *)
Lemma src_read_exactly_is_model s n : src__read_exactly s n = read_exactly s n.
Proof.
  unfold src__read_exactly, read_exactly, py_read_n, py_len, Zlength.
  destruct (n <? 0) eqn:Hn.
  - replace (Z.of_nat (length s) =? n) with false by lia. cbn [negb].
    replace ((0 <=? n) && (n <=? Z.of_nat (length s))) with false by lia. reflexivity.
  - rewrite firstn_length.
    destruct ((0 <=? n) && (n <=? Z.of_nat (length s))) eqn:C.
    + replace (Z.of_nat (Nat.min (Z.to_nat n) (length s)) =? n) with true by lia. reflexivity.
    + replace (Z.of_nat (Nat.min (Z.to_nat n) (length s)) =? n) with false by lia. reflexivity.
Qed.

Lemma read_exactly_err s n k : read_exactly s n = Err k -> k = EEof.
Proof. unfold read_exactly. destruct (_ && _); [discriminate|]. intros H. injection H as <-. reflexivity. Qed.

(* ---------- the local loop of _load_field, named ---------- *)
Definition gstate : Type := (list byte * Z * list byte * Z * Z * unit)%type.

Definition src_group (fuel : nat) (rec : list byte -> Z -> list byte -> result (src_ParsedField * list byte))
  : nat -> gstate -> result (flow gstate Empty_set) :=
  fix loop (lfuel : nat) (st : gstate) {struct lfuel} : result (flow gstate Empty_set) :=
    match lfuel with
    | O => Err EFuel
    | S lfuel' =>
        let '(v_stream, v_num_wire, v_raw, v_number, v_wire_type, v_decoded) := st in
        bind (src17_load_varint fuel v_stream) (fun '(t6, v_stream) =>
        let '(v_inner_num_wire, v_r) := t6 in
        if ((Z.land v_inner_num_wire 7) =? 4)
        then if (negb ((Z.shiftr v_inner_num_wire 3) =? v_number))
             then Err EValue
             else let v_raw := (v_raw ++ v_r) in
                  Ok (Fall (v_stream, v_num_wire, v_raw, v_number, v_wire_type, v_decoded))
        else bind (rec v_stream (v_inner_num_wire) ((v_raw ++ v_r))) (fun '(t7, v_stream) =>
             let v_raw := (ParsedField_raw t7) in
             loop lfuel' (v_stream, v_num_wire, v_raw, v_number, v_wire_type, v_decoded)))
    end.

(* one unfolding of the translated function, with the loop named (checked by conversion against gen/C17Src.v) *)
Lemma src_load_field_unfold fuel' s nw raw :
  src__load_field (S fuel') s nw raw =
  (let fuel := S fuel' in
   let number := Z.shiftr nw 3 in
   let wt := Z.land nw 7 in
   if number =? 0 then Err EValue
   else
     bind
       (if wt =? 0 then
          bind (src17_load_varint fuel s) (fun '(t1, s') => let '(v, r) := t1 in Ok (s', VInt v, raw ++ r))
        else bind
          (if wt =? 1 then
             bind (src__read_exactly s 8) (fun '(d, s') => Ok (VBytes d, s', raw ++ d))
           else bind
             (if wt =? 2 then
                bind (src17_load_varint fuel s) (fun '(t3, s1) => let '(len, r) := t3 in
                bind (src__read_exactly s1 len) (fun '(d, s') => Ok (s', VBytes d, (raw ++ r) ++ d)))
              else bind
                (if wt =? 5 then
                   bind (src__read_exactly s 4) (fun '(d, s') => Ok (VBytes d, s', raw ++ d))
                 else if wt =? 3 then
                   bind (src_group fuel (src__load_field fuel') fuel (s, nw, raw, number, wt, tt)) (fun fl =>
                     match fl with
                     | Fall (s', _, raw', _, _, _) => Ok (VNone, s', raw')
                     | Return e => match e with end
                     end)
                 else Err EValue)
                (fun '(d, s', r) => Ok (s', d, r)))
             (fun '(s', d, r) => Ok (d, s', r)))
          (fun '(d, s', r) => Ok (s', d, r)))
       (fun '(s', d, r) => Ok (mk_ParsedField number wt d r, s'))).
Proof. reflexivity. Qed.

(* ---------- load_varint as the translation sees it ---------- *)
Lemma src17_lv fuel s : (10 < fuel)%nat -> src17_load_varint fuel s = err_class (load_varint s).
Proof. intros H. apply src17_load_varint_spec, H. Qed.

Lemma lift_err k : lift_field (Err k) = err_class (Err k).
Proof. reflexivity. Qed.

(* ---------- the main equality ---------- *)
(* the loop: both counters n1 (source) and n2 (model) exceed the length of the stream *)
Definition fall_of (nw : Z) (r : result (parsed * list byte)) : result (flow gstate Empty_set) :=
  match err_class r with
  | Ok (p, s') => Ok (Fall (s', nw, praw p, pnum p, pwt p, tt))
  | Err e => Err e
  end.

Lemma src_load_field_eq fuel : forall m s nw raw,
  (length s + 10 < fuel)%nat -> (length s < m)%nat ->
  src__load_field fuel s nw raw = lift_field (load_field m s nw raw).
Proof.
  induction fuel as [|fuel IH]; intros m s nw raw Hf Hm; [lia|].
  destruct m as [|m]; [lia|].
  rewrite src_load_field_unfold, load_field_unfold. cbv zeta.
  unfold WIRE_VARINT, WIRE_FIXED_64, WIRE_LEN_DELIM, WIRE_FIXED_32, WIRE_START_GROUP.
  set (number := Z.shiftr nw 3). set (wt := Z.land nw 7).
  destruct (number =? 0); [reflexivity|].
  rewrite !src_read_exactly_is_model.
  destruct (wt =? 0) eqn:E0.
  { rewrite src17_lv by lia.
    destruct (load_varint s) as [[[v r] s1]|k]; [|destruct k; reflexivity].
    cbn [err_class bind]. unfold lift_field, map_field, of_parsed, value_of_parsed.
    cbn [pnum pwt pint pbytes praw err_class]. rewrite E0. reflexivity. }
  destruct (wt =? 1) eqn:E1.
  { destruct (read_exactly s 8) as [[d s1]|k] eqn:Er; [|apply read_exactly_err in Er as ->; reflexivity].
    cbn [err_class bind]. unfold lift_field, map_field, of_parsed, value_of_parsed.
    cbn [pnum pwt pint pbytes praw err_class]. rewrite E0.
    replace (wt =? 3) with false by lia. reflexivity. }
  destruct (wt =? 2) eqn:E2.
  { rewrite src17_lv by lia.
    destruct (load_varint s) as [[[len r] s1]|k]; [|destruct k; reflexivity].
    cbn [err_class bind]. rewrite src_read_exactly_is_model.
    destruct (read_exactly s1 len) as [[d s2]|k] eqn:Er; [|apply read_exactly_err in Er as ->; reflexivity].
    cbn [err_class bind]. unfold lift_field, map_field, of_parsed, value_of_parsed.
    cbn [pnum pwt pint pbytes praw err_class]. rewrite E0.
    replace (wt =? 3) with false by lia. rewrite <- app_assoc. reflexivity. }
  destruct (wt =? 5) eqn:E5.
  { destruct (read_exactly s 4) as [[d s1]|k] eqn:Er; [|apply read_exactly_err in Er as ->; reflexivity].
    cbn [err_class bind]. unfold lift_field, map_field, of_parsed, value_of_parsed.
    cbn [pnum pwt pint pbytes praw err_class]. rewrite E0.
    replace (wt =? 3) with false by lia. reflexivity. }
  destruct (wt =? 3) eqn:E3; [|reflexivity].
  assert (G : forall n1 n2 s raw, (length s < n1)%nat -> (length s < n2)%nat ->
              (length s + 10 <= fuel)%nat -> (length s <= m)%nat ->
              src_group (S fuel) (src__load_field fuel) n1 (s, nw, raw, number, wt, tt) =
              fall_of nw (group_loop m number wt n2 s raw)).
  { clear s raw Hf Hm. induction n1 as [|n1 IHn]; intros n2 s raw Hn1 Hn2 Hf Hm; [lia|].
    destruct n2 as [|n2]; [lia|].
    cbn [src_group group_loop]. fold (src_group (S fuel) (src__load_field fuel)).
    fold (group_loop m number wt).
    rewrite src17_lv by lia.
    destruct (load_varint s) as [[[inner r] s1]|k] eqn:Ev; [|destruct k; reflexivity].
    cbn [err_class bind].
    apply load_varint_inv in Ev as (-> & _ & Hr). rewrite app_length in *.
    unfold WIRE_END_GROUP.
    destruct (Z.land inner 7 =? 4).
    { destruct (Z.shiftr inner 3 =? number); reflexivity. }
    rewrite (IH m s1 inner (raw ++ r)) by lia.
    destruct (load_field m s1 inner (raw ++ r)) as [[p s2]|k] eqn:Ef; [|destruct k; reflexivity].
    unfold lift_field, map_field. cbn [err_class bind of_parsed ParsedField_raw].
    apply load_field_sound, field_ok_shorter in Ef. apply IHn; lia. }
  rewrite (G (S fuel) (S m) s raw) by lia.
  unfold fall_of.
  assert (P : forall n s raw p s', group_loop m number wt n s raw = Ok (p, s') ->
              pnum p = number /\ pwt p = wt /\ pint p = 0 /\ pbytes p = []).
  { induction n as [|n IHn]; intros s0 raw0 p s' H; [discriminate|].
    cbn [group_loop] in H. fold (group_loop m number wt) in H.
    destruct (load_varint s0) as [[[inner r] s1]|k]; cbn [bind] in H; [|discriminate].
    destruct (Z.land inner 7 =? WIRE_END_GROUP).
    { destruct (Z.shiftr inner 3 =? number); [|discriminate]. injection H as <- <-. repeat split. }
    destruct (load_field m s1 inner (raw0 ++ r)) as [[p1 s2]|k]; cbn [bind] in H; [|discriminate].
    eapply IHn, H. }
  destruct (group_loop m number wt (S m) s raw) as [[p s']|k] eqn:Eg; [|destruct k; reflexivity].
  apply P in Eg as (Pn & Pw & Pi & Pb).
  cbn [err_class bind]. unfold lift_field, map_field, of_parsed, value_of_parsed. cbn [err_class].
  rewrite Pn, Pw, E0, E3. reflexivity.
Qed.

(* fuel bounds that do not mention each other *)
Theorem src_load_field_is_model fuel m s nw raw :
  (length s + 10 < fuel)%nat -> (length s < m)%nat ->
  src__load_field fuel s nw raw = lift_field (load_field m s nw raw).
Proof. apply src_load_field_eq. Qed.

(* the out-of-fuel arm is unreachable above the bound *)
Lemma src_load_field_fuel_ok fuel s nw raw :
  (length s + 10 < fuel)%nat -> src__load_field fuel s nw raw <> Err EFuel.
Proof.
  intros Hf. rewrite (src_load_field_eq fuel (S (length s)) s nw raw Hf) by lia.
  pose proof (load_field_fuel_ok (S (length s)) s nw raw ltac:(lia)) as N.
  unfold lift_field, map_field.
  destruct (load_field (S (length s)) s nw raw) as [[p s']|k]; [discriminate|].
  destruct k; cbn; try discriminate. congruence.
Qed.

(* ... and below it it is reached: a group nested in a group with fuel 1 (the recursion needs 2) *)
Lemma src_load_field_low_fuel : exists fuel s nw raw p,
  fuel <> O /\ src__load_field fuel s nw raw = Err EFuel /\ load_field (S (length s)) s nw raw = Ok p.
Proof.
  exists 1%nat, [x13; x14; x0c], 11, [], (mkP 1 3 0 [] [x13; x14; x0c], []).
  split; [discriminate|]. split; vm_compute; reflexivity.
Qed.

(* ---------- what is not a payload at all, and the end-group check ---------- *)
Lemma src_bad_tag fuel s nw raw :
  fuel <> O -> tag_num nw = 0 \/ tag_wt nw = 4 \/ tag_wt nw = 6 \/ tag_wt nw = 7 ->
  src__load_field fuel s nw raw = Err EValue.
Proof.
  intros Hf H. destruct fuel as [|fuel]; [congruence|].
  rewrite src_load_field_unfold. cbv zeta. unfold tag_num, tag_wt in H.
  destruct (Z.shiftr nw 3 =? 0) eqn:E0; [reflexivity|].
  destruct H as [H|[H|[H|H]]]; [lia| | |]; rewrite H; reflexivity.
Qed.

Lemma src_group_end_mismatch fuel s nw raw enw etag rest :
  tag_num nw <> 0 -> tag_wt nw = 3 -> s = etag ++ rest -> VarintRep enw etag -> tag_wt enw = 4 ->
  tag_num enw <> tag_num nw -> (length s + 10 < fuel)%nat ->
  src__load_field fuel s nw raw = Err EValue.
Proof.
  intros Hn Hw Hs Re T4 Tn Hf.
  rewrite (src_load_field_eq fuel (S (length s)) s nw raw Hf) by lia.
  rewrite (group_end_mismatch (S (length s)) s nw raw enw etag rest Hn Hw Hs Re T4 Tn) by lia. reflexivity.
Qed.

(* ---------- the exception classes of the reader: EOFError and ValueError only ---------- *)
Lemma load_varint_errs s e : load_varint s = Err e -> e = EEof \/ e = ETooLong.
Proof.
  unfold load_varint. destruct (load_go_total 10 0 0 [] s) as [[x H]|[H|H]]; rewrite H; intros E;
    [discriminate | injection E as <-; auto | injection E as <-; auto].
Qed.

Definition reader_err (e : errkind) : Prop := e = EEof \/ e = EValue \/ e = ETooLong \/ e = EFuel.

Lemma load_field_errs fuel : forall s nw raw e, load_field fuel s nw raw = Err e -> reader_err e.
Proof.
  assert (V : forall s e, load_varint s = Err e -> reader_err e).
  { intros s e H. apply load_varint_errs in H as [->| ->]; unfold reader_err; auto. }
  assert (R : forall s n e, read_exactly s n = Err e -> reader_err e).
  { intros s n e H. apply read_exactly_err in H as ->. unfold reader_err; auto. }
  assert (EV : reader_err EValue) by (unfold reader_err; auto).
  assert (EF : reader_err EFuel) by (unfold reader_err; auto).
  induction fuel as [|fuel IH]; intros s nw raw e H; rewrite load_field_unfold in H; cbv zeta in H.
  all: destruct (_ =? 0); [injection H as <-; exact EV|].
  all: destruct (_ =? WIRE_VARINT);
    [destruct (load_varint s) as [[[? ?] ?]|k] eqn:E; cbn [bind] in H; [discriminate | injection H as <-; eapply V, E]|].
  all: destruct (_ =? WIRE_FIXED_64);
    [destruct (read_exactly s 8) as [[? ?]|k] eqn:E; cbn [bind] in H; [discriminate | injection H as <-; eapply R, E]|].
  all: destruct (_ =? WIRE_LEN_DELIM);
    [destruct (load_varint s) as [[[len ?] s1]|k] eqn:E; cbn [bind] in H; [|injection H as <-; eapply V, E];
     destruct (read_exactly s1 len) as [[? ?]|k] eqn:E2; cbn [bind] in H; [discriminate | injection H as <-; eapply R, E2]|].
  all: destruct (_ =? WIRE_FIXED_32);
    [destruct (read_exactly s 4) as [[? ?]|k] eqn:E; cbn [bind] in H; [discriminate | injection H as <-; eapply R, E]|].
  all: destruct (_ =? WIRE_START_GROUP); [|injection H as <-; exact EV].
  - injection H as <-. exact EF.
  - revert H. generalize (S fuel) at 1. intros n. revert s raw.
    induction n as [|n IHn]; intros s raw H; cbn [group_loop] in H; [injection H as <-; exact EF|].
    fold (group_loop fuel (Z.shiftr nw 3) (Z.land nw 7)) in H.
    destruct (load_varint s) as [[[inner r] s1]|k] eqn:E; cbn [bind] in H; [|injection H as <-; eapply V, E].
    destruct (_ =? WIRE_END_GROUP); [destruct (_ =? _); [discriminate | injection H as <-; exact EV]|].
    destruct (load_field fuel s1 inner (raw ++ r)) as [[p s2]|k] eqn:Ef; cbn [bind] in H; [|injection H as <-; eapply IH, Ef].
    eapply IHn, H.
Qed.

Lemma src_load_field_outcomes fuel s nw raw :
  (length s + 10 < fuel)%nat ->
  (exists x, src__load_field fuel s nw raw = Ok x) \/ src__load_field fuel s nw raw = Err EEof \/
  src__load_field fuel s nw raw = Err EValue.
Proof.
  intros Hf. pose proof (src_load_field_fuel_ok fuel s nw raw Hf) as NF.
  rewrite (src_load_field_eq fuel (S (length s)) s nw raw Hf) in * by lia.
  unfold lift_field, map_field in *.
  destruct (load_field (S (length s)) s nw raw) as [[p s']|k] eqn:E; [left; eexists; reflexivity|].
  apply load_field_errs in E. destruct E as [->|[->|[->| ->]]]; cbn in *; auto. congruence.
Qed.

(* lift_field is invisible on successes and on EOF; a ValueError of the source is EValue or ETooLong of the model *)
Lemma lift_field_ok r q s' : lift_field r = Ok (q, s') <-> exists p, r = Ok (p, s') /\ q = of_parsed p.
Proof.
  unfold lift_field, map_field. destruct r as [[p s]|k].
  - cbn. split.
    + intros H. injection H as <- <-. eauto.
    + intros (p' & H & ->). injection H as <- <-. reflexivity.
  - split; [destruct k; discriminate|]. intros (p & H & _). discriminate.
Qed.

Lemma lift_field_err r e : lift_field r = Err e ->
  r = Err e \/ (e = EValue /\ r = Err ETooLong).
Proof.
  unfold lift_field, map_field. destruct r as [[p s]|k]; [discriminate|].
  destruct k; cbn; intros H; injection H as <-; auto.
Qed.

Lemma lift_field_err_conv r e : r = Err e -> exists e', lift_field r = Err e'.
Proof. intros ->. unfold lift_field, map_field. destruct e; cbn; eauto. Qed.

(* of_parsed loses nothing the reader produces: the record is recovered from its image when the wire type says which
   component is in use *)
Lemma of_parsed_fields p :
  ParsedField_number (of_parsed p) = pnum p /\ ParsedField_wire_type (of_parsed p) = pwt p /\
  ParsedField_raw (of_parsed p) = praw p /\
  (pwt p = 0 -> ParsedField_value (of_parsed p) = VInt (pint p)) /\
  (pwt p = 3 -> ParsedField_value (of_parsed p) = VNone) /\
  (pwt p <> 0 -> pwt p <> 3 -> ParsedField_value (of_parsed p) = VBytes (pbytes p)).
Proof.
  unfold of_parsed, value_of_parsed. cbn. repeat split.
  - intros ->. reflexivity.
  - intros ->. reflexivity.
  - intros H0 H3. replace (pwt p =? 0) with false by lia. replace (pwt p =? 3) with false by lia. reflexivity.
Qed.

(* ---------- the C17 reader statements, about the translated source ---------- *)
Lemma src_reader_sound fuel s nw raw q s' :
  (length s + 10 < fuel)%nat ->
  src__load_field fuel s nw raw = Ok (q, s') -> exists p, q = of_parsed p /\ field_ok nw raw s p s'.
Proof.
  intros Hf H. rewrite (src_load_field_eq fuel (S (length s)) s nw raw Hf) in H by lia.
  apply lift_field_ok in H as (p & E & ->). exists p. split; [reflexivity|].
  eapply load_field_sound, E.
Qed.

Lemma src_reader_complete nw pl fuel rest raw :
  wpayload nw pl -> (length (pl ++ rest) + 10 < fuel)%nat ->
  exists p, src__load_field fuel (pl ++ rest) nw raw = Ok (of_parsed p, rest) /\ field_ok nw raw (pl ++ rest) p rest.
Proof.
  intros W Hf.
  destruct (load_field_complete nw pl (S (length (pl ++ rest))) rest raw W ltac:(lia)) as (p & E & F).
  exists p. split; [|exact F].
  rewrite (src_load_field_eq fuel (S (length (pl ++ rest))) _ nw raw Hf) by lia.
  rewrite E. reflexivity.
Qed.

Lemma src_payload_cut nw pl x y fuel raw :
  wpayload nw pl -> pl = x ++ y -> y <> [] -> (length x + 10 < fuel)%nat ->
  exists e, src__load_field fuel x nw raw = Err e /\ e <> EFuel.
Proof.
  intros W E Hy Hf.
  destruct (load_field_cut nw pl x y (S (length x)) raw W E Hy) as (e & He).
  pose proof (src_load_field_fuel_ok fuel x nw raw Hf) as NF.
  rewrite (src_load_field_eq fuel (S (length x)) x nw raw Hf) in * by lia.
  destruct (lift_field_err_conv _ _ He) as (e' & He'). exists e'. split; [exact He'|].
  intros ->. apply NF, He'.
Qed.
