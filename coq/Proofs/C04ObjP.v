(* C04, object level (A): from_dict (class form) applied to to_dict(m) - directly or through the
   JSON text - returns exactly the normal form norm_obj m. *)
From BP Require Import Base.Prelude Model.Types Model.Float Model.Utf8 Model.Object Model.Eq Model.TimeCore.
From BP Require Import Model.Encode Model.WellFormed Model.Json.
From BP Require Model.Casing.
From BP Require Import gen.Tables Proofs.BytesP Proofs.C04Def Proofs.C04ScalarP Proofs.C04ElemP Proofs.C04FieldP.
From Coq Require Import Lia ZifyBool.

(* ---------------------------------------------------------------------------------- *)
(* the loops, named                                                                    *)
(* ---------------------------------------------------------------------------------- *)
Section Loops.
Variable cs : casing.
Variable sc : schema.
Variable cur : list (option nat).
Fixpoint td_items (i : nat) (raw : list pv) (fs : list fdesc)
  {struct raw} : list (list byte * json) :=
  match raw, fs with
  | x :: raw', f :: fs' =>
      let here :=
        match group_selects cur f i with
        | Some false => None
        | sel =>
            match x with
            | PPlaceholder => field_to_json (fun o' => JObj []) sc false f sel (default_of sc f)
            | _ => field_to_json (to_dict cs false sc) sc false f sel x
            end
        end in
      (match here with Some j => [(key_of_field cs f, j)] | None => [] end) ++ td_items (S i) raw' fs'
  | _, _ => []
  end.

Fixpoint norm_raw (i : nat) (raw : list pv) (fs : list fdesc) {struct raw} : list pv :=
  match raw, fs with
  | x :: raw', f :: fs' =>
      (match group_selects cur f i with
       | Some false => sentinel f
       | sel =>
           match x with
           | PPlaceholder => sentinel f
           | _ => if emitted sc f sel x then norm_pv sc x else sentinel f
           end
       end) :: norm_raw (S i) raw' fs'
  | _, fs' => map sentinel fs'
  end.
End Loops.

Lemma to_dict_unfold cs sc c raw s u g :
  to_dict cs false sc (Obj c raw s u g) = JObj (dict_norm (td_items cs sc g O raw (cfields (get_class sc c)))).
Proof. reflexivity. Qed.

Section FdLoop.
Variable sc : schema.
Variable c : nat.
Fixpoint fd_items (kvs : list (json * json)) : result (list (nat * pv)) :=
  match kvs with
  | [] => Ok []
  | (k, v) :: r =>
      do here <- item_from_json (recf sc) sc (cfields (get_class sc c)) k v;
      do rest <- fd_items r;
      Ok (here ++ rest)
  end.
End FdLoop.

Lemma from_dict_init_unfold sc c kvs :
  from_dict_init sc c (JObj kvs) = do items <- fd_items sc c kvs; Ok (kw_norm items).
Proof. reflexivity. Qed.


Lemma norm_obj_unfold sc c raw s u g :
  norm_obj sc (Obj c raw s u g) = set_sow (post_init sc c (norm_raw sc g O raw (cfields (get_class sc c)))).
Proof. reflexivity. Qed.

(* the keyword arguments the round trip passes to the constructor *)
Fixpoint kw_list (sc : schema) (cur : list (option nat)) (i : nat) (raw : list pv) (fs : list fdesc) {struct raw} : list (nat * pv) :=
  match raw, fs with
  | x :: raw', f :: fs' =>
      (match group_selects cur f i with
       | Some false => []
       | sel =>
           match x with
           | PPlaceholder => []
           | _ => if emitted sc f sel x then [(i, norm_pv sc x)] else []
           end
       end) ++ kw_list sc cur (S i) raw' fs'
  | _, _ => []
  end.

(* the loop of local_oneof_ok *)
Section OneofLoop.
Variable cur : list (option nat).
Fixpoint oneof_loop (i : nat) (raw : list pv) (fs : list fdesc) {struct raw} : bool :=
  match raw, fs with
  | x :: raw', f :: fs' =>
      (match group_selects cur f i with
       | Some sel => Bool.eqb sel (match x with PPlaceholder => false | _ => true end)
       | None => true
       end) && oneof_loop (S i) raw' fs'
  | _, _ => true
  end.
End OneofLoop.
Lemma local_oneof_unfold sc c raw s u g :
  local_oneof_ok sc (Obj c raw s u g) = oneof_loop g O raw (cfields (get_class sc c)).
Proof. reflexivity. Qed.

(* ---------------------------------------------------------------------------------- *)
(* emitted does not depend on the recursive printer                                     *)
(* ---------------------------------------------------------------------------------- *)
Lemma field_to_json_shape rec rec' sc incl f sel v :
  match field_to_json rec sc incl f sel v, field_to_json rec' sc incl f sel v with
  | Some _, Some _ | None, None => True
  | _, _ => False
  end.
Proof.
  unfold field_to_json, emit.
  destruct (ptype_eqb (fty f) TMessage).
  { destruct v; destruct (fwraps f); destruct (fhint f); cbv beta iota;
      repeat match goal with |- context [if ?c then _ else _] => match type of c with bool => destruct c end end; exact I. }
  destruct (ptype_eqb (fty f) TMap).
  { destruct v; destruct (fmap f) as [[? ?]|]; destruct (fhint f); cbv beta iota;
      repeat match goal with |- context [if ?c then _ else _] => match type of c with bool => destruct c end end; exact I. }
  destruct (negb (is_default sc f v) || (incl || match sel with Some true => true | _ => false end)); [|exact I].
  destruct (fhint f); destruct v; exact I.
Qed.

Lemma emitted_some rec sc f sel v j : field_to_json rec sc false f sel v = Some j -> emitted sc f sel v = true.
Proof.
  intros H. unfold emitted. pose proof (field_to_json_shape rec (fun _ => JNull) sc false f sel v) as S.
  rewrite H in S. destruct (field_to_json (fun _ => JNull) sc false f sel v); [reflexivity|contradiction].
Qed.
Lemma emitted_none rec sc f sel v : field_to_json rec sc false f sel v = None -> emitted sc f sel v = false.
Proof.
  intros H. unfold emitted. pose proof (field_to_json_shape rec (fun _ => JNull) sc false f sel v) as S.
  rewrite H in S. destruct (field_to_json (fun _ => JNull) sc false f sel v); [contradiction|reflexivity].
Qed.

(* a PLACEHOLDER attribute that no oneof group selects is never emitted *)
Lemma default_not_emitted rec sc ng f sel :
  wf_field sc ng f = true -> sel <> Some true ->
  field_to_json rec sc false f sel (default_of sc f) = None.
Proof.
  intros W Hsel.
  assert (Inc : (false || match sel with Some true => true | _ => false end) = false)
    by (destruct sel as [[|]|]; try reflexivity; congruence).
  destruct f as [name num t mp grp wr op hint ent].
  unfold wf_field in W. cbn [fnum fgroup fhint fopt fwraps fmap fty] in W.
  apply andb_prop in W as [_ Wh].
  unfold field_to_json, default_of. cbn [fty fwraps fhint fmap fopt hint_elem]. rewrite Inc.
  destruct hint as [p|p|p|pk p].
  - apply andb_true5 in Wh as [Wop [Wwr [Wmp [Wt Wp]]]].
    apply negb_true in Wop. apply is_some'_false in Wwr. apply is_some'_false in Wmp. subst op wr mp.
    destruct p; destruct t; try discriminate Wp; reflexivity.
  - destruct wr as [w|].
    + apply andb_prop in Wh as [_ Wrest]. apply andb_prop in Wrest as [Wrest _]. apply andb_prop in Wrest as [Wrest _].
      apply andb_prop in Wrest as [_ Wt]. apply ptype_eqb_eq in Wt. subst t. reflexivity.
    + apply andb_prop in Wh as [_ Wrest]. apply andb_prop in Wrest as [Wrest _]. apply andb_prop in Wrest as [_ Wt].
      destruct (ptype_eqb t TMessage); [reflexivity|]. rewrite (negb_true _ Wt). reflexivity.
  - apply andb_prop in Wh as [Wh Wp]. apply andb_prop in Wh as [Wh Wt]. apply andb_prop in Wh as [Wh Wgrp].
    apply andb_prop in Wh as [Wh Wmp]. apply andb_prop in Wh as [Wop Wwr].
    apply is_some'_false in Wwr. subst wr.
    destruct (ptype_eqb t TMessage); [reflexivity|]. rewrite (negb_true _ Wt). reflexivity.
  - apply andb_prop in Wh as [Wh _]. apply andb_prop in Wh as [Wh Wmap]. apply andb_prop in Wh as [Wh Wt].
    apply ptype_eqb_eq in Wt. subst t. destruct mp as [[kt vt]|]; [|discriminate Wmap]. reflexivity.
Qed.

(* ---------------------------------------------------------------------------------- *)
(* dict_norm / kw_norm are the identity on distinct keys                                *)
(* ---------------------------------------------------------------------------------- *)
Definition jkey (kj : list byte * json) : json * json := (JStr (fst kj), snd kj).

Lemma jset_fresh k v acc : ~ In k (map fst acc) -> jset k v (map jkey acc) = map jkey (acc ++ [(k, v)]).
Proof.
  induction acc as [|[k' v'] acc IH]; intros H; [reflexivity|].
  cbn [map jkey fst snd jset app].
  destruct (bytes_eqb k k') eqn:E.
  - apply bytes_eqb_eq in E. subst. exfalso. apply H. left. reflexivity.
  - f_equal. apply IH. intros I. apply H. right. exact I.
Qed.

Lemma dict_norm_fold items acc :
  NoDup (map fst (acc ++ items)) ->
  fold_left (fun d kv => jset (fst kv) (snd kv) d) items (map jkey acc) = map jkey (acc ++ items).
Proof.
  revert acc. induction items as [|[k v] items IH]; intros acc H.
  - rewrite app_nil_r. reflexivity.
  - cbn [fold_left fst snd]. rewrite jset_fresh.
    + rewrite IH; rewrite <- app_assoc; [reflexivity|exact H].
    + rewrite map_app in H. apply NoDup_remove_2 in H. intros I. apply H. apply in_or_app. left. exact I.
Qed.

Lemma dict_norm_nodup items : NoDup (map fst items) -> dict_norm items = map jkey items.
Proof. intros H. exact (dict_norm_fold items [] H). Qed.

Lemma kw_set_fresh i v kw : ~ In i (map fst kw) -> kw_set i v kw = kw ++ [(i, v)].
Proof.
  induction kw as [|[i' v'] kw IH]; intros H; [reflexivity|]. cbn [kw_set app].
  destruct (Nat.eqb i i') eqn:E.
  - apply Nat.eqb_eq in E. subst. exfalso. apply H. left. reflexivity.
  - f_equal. apply IH. intros I. apply H. right. exact I.
Qed.

Lemma kw_norm_fold items acc :
  NoDup (map fst (acc ++ items)) ->
  fold_left (fun kw iv => kw_set (fst iv) (snd iv) kw) items acc = acc ++ items.
Proof.
  revert acc. induction items as [|[i v] items IH]; intros acc H.
  - rewrite app_nil_r. reflexivity.
  - cbn [fold_left fst snd]. rewrite kw_set_fresh.
    + rewrite IH; rewrite <- app_assoc; [reflexivity|exact H].
    + rewrite map_app in H. apply NoDup_remove_2 in H. intros I. apply H. apply in_or_app. left. exact I.
Qed.

Lemma kw_norm_nodup items : NoDup (map fst items) -> kw_norm items = items.
Proof. intros H. exact (kw_norm_fold items [] H). Qed.

Lemma kw_list_ge sc cur i raw fs j : In j (map fst (kw_list sc cur i raw fs)) -> (i <= j)%nat.
Proof.
  revert i fs. induction raw as [|x raw IH]; intros i fs H; [destruct H|].
  destruct fs as [|f fs]; [destruct H|]. cbn [kw_list] in H. rewrite map_app in H. apply in_app_or in H as [H|H].
  - destruct (group_selects cur f i) as [[|]|];
      repeat match goal with
             | H : In _ (map fst []) |- _ => destruct H
             | H : In _ (map fst (match ?x with _ => _ end)) |- _ => destruct x
             | H : In _ (map fst [(_, _)]) |- _ => destruct H as [H|H]; [cbn in H; lia|destruct H]
             end.
  - specialize (IH _ _ H). lia.
Qed.

Lemma kw_list_nodup sc cur i raw fs : NoDup (map fst (kw_list sc cur i raw fs)).
Proof.
  revert i fs. induction raw as [|x raw IH]; intros i fs; [constructor|].
  destruct fs as [|f fs]; [constructor|]. cbn [kw_list]. rewrite map_app.
  assert (T : NoDup (map fst (kw_list sc cur (S i) raw fs))) by apply IH.
  assert (G : ~ In i (map fst (kw_list sc cur (S i) raw fs))) by (intros I; apply kw_list_ge in I; lia).
  destruct (group_selects cur f i) as [[|]|]; try exact T;
    (destruct x; try exact T; destruct (emitted sc f _ _); try exact T; cbn [map fst app]; constructor; assumption).
Qed.

(* ---------------------------------------------------------------------------------- *)
(* the constructor puts the keyword arguments in place                                  *)
(* ---------------------------------------------------------------------------------- *)
Lemma mark_norm sc x : (if fieldless sc (norm_pv sc x) then mark_sow (norm_pv sc x) else norm_pv sc x) = norm_pv sc x.
Proof.
  destruct (fieldless sc (norm_pv sc x)); [|reflexivity].
  destruct x as [| | | | | | | | | | |[c raw s u g]]; try reflexivity.
Qed.

Lemma set_nth_app {A} (pre : list A) s rest v : set_nth (length pre) v (pre ++ s :: rest) = pre ++ v :: rest.
Proof. induction pre as [|a pre IH]; [reflexivity|]. cbn [length app set_nth]. rewrite IH. reflexivity. Qed.

Definition kw_step (sc : schema) (r : list pv) (iv : nat * pv) : list pv :=
  let '(i, v) := iv in set_nth i (if fieldless sc v then mark_sow v else v) r.

Lemma fold_kw sc cur pre i raw fs :
  length pre = i -> length raw = length fs ->
  fold_left (kw_step sc) (kw_list sc cur i raw fs) (pre ++ map sentinel fs) = pre ++ norm_raw sc cur i raw fs.
Proof.
  revert pre i fs. induction raw as [|x raw IH]; intros pre i fs Hp Hl.
  - destruct fs; [reflexivity|discriminate Hl].
  - destruct fs as [|f fs]; [discriminate Hl|]. cbn [length] in Hl. injection Hl as Hl.
    cbn [kw_list norm_raw map]. rewrite fold_left_app.
    assert (Skip : fold_left (kw_step sc) (kw_list sc cur (S i) raw fs) (pre ++ sentinel f :: map sentinel fs)
                   = pre ++ sentinel f :: norm_raw sc cur (S i) raw fs).
    { replace (pre ++ sentinel f :: map sentinel fs) with ((pre ++ [sentinel f]) ++ map sentinel fs)
        by (rewrite <- app_assoc; reflexivity).
      rewrite IH; [rewrite <- app_assoc; reflexivity| rewrite app_length; cbn; lia | exact Hl]. }
    assert (Put : forall v, fold_left (kw_step sc) (kw_list sc cur (S i) raw fs)
                              (fold_left (kw_step sc) [(i, norm_pv sc v)] (pre ++ sentinel f :: map sentinel fs))
                            = pre ++ norm_pv sc v :: norm_raw sc cur (S i) raw fs).
    { intros v. cbn [fold_left kw_step]. rewrite mark_norm. subst i. rewrite set_nth_app.
      replace (pre ++ norm_pv sc v :: map sentinel fs) with ((pre ++ [norm_pv sc v]) ++ map sentinel fs)
        by (rewrite <- app_assoc; reflexivity).
      rewrite IH; [rewrite <- app_assoc; reflexivity| rewrite app_length; cbn; lia | exact Hl]. }
    destruct (group_selects cur f i) as [[|]|]; try exact Skip;
      (destruct x; try exact Skip; destruct (emitted sc f _ _); try exact Skip; apply Put).
Qed.

Lemma construct_kw sc c cur raw :
  length raw = length (cfields (get_class sc c)) ->
  construct sc c (kw_list sc cur O raw (cfields (get_class sc c))) =
  post_init sc c (norm_raw sc cur O raw (cfields (get_class sc c))).
Proof.
  intros Hl. unfold construct. f_equal.
  change (fun (r : list pv) '(i, v) => set_nth i (if fieldless sc v then mark_sow v else v) r) with (kw_step sc).
  assert (E : oraw (new sc c) = map sentinel (cfields (get_class sc c))) by reflexivity.
  rewrite E. exact (fold_kw sc cur [] O raw _ eq_refl Hl).
Qed.

(* ---------------------------------------------------------------------------------- *)
(* key lookups of a class whose keys are ok                                             *)
(* ---------------------------------------------------------------------------------- *)
Section KeysLoop.
Variable cs : casing.
Variable fs_all : list fdesc.
Fixpoint keys_loop (i : nat) (fs : list fdesc) : bool :=
  match fs with
  | [] => true
  | f :: r =>
      (match Casing.field_for_key (map fname fs_all) (key_of_field cs f) with
       | Some n => match find_field O fs_all n with
                   | Some (j, _) => Nat.eqb j i
                   | None => false
                   end
       | None => false
       end) && keys_loop (S i) r
  end.
End KeysLoop.

Fixpoint nodupb (l : list (list byte)) : bool :=
  match l with
  | [] => true
  | k :: r => negb (existsb (bytes_eqb k) r) && nodupb r
  end.

Lemma class_keys_unfold cs cd :
  class_keys_ok cs cd = keys_loop cs (cfields cd) O (cfields cd) && nodupb (map (key_of_field cs) (cfields cd)).
Proof. reflexivity. Qed.

Lemma nodupb_NoDup l : nodupb l = true -> NoDup l.
Proof.
  induction l as [|k r IH]; intros H; [constructor|]. cbn [nodupb] in H. apply andb_prop in H as [H1 H2].
  constructor; [|apply IH, H2]. intros I. apply negb_true in H1.
  assert (existsb (bytes_eqb k) r = true) by (apply existsb_exists; exists k; split; [exact I|apply bytes_eqb_eq; reflexivity]).
  congruence.
Qed.

Lemma find_field_nth i0 fs nm j f' :
  find_field i0 fs nm = Some (j, f') -> (i0 <= j)%nat /\ nth_error fs (j - i0) = Some f'.
Proof.
  revert i0. induction fs as [|f fs IH]; intros i0 H; [discriminate H|]. cbn [find_field] in H.
  destruct (Casing.str_eqb nm (fname f)).
  - inversion H; subst. split; [lia|]. replace (j - j)%nat with O by lia. reflexivity.
  - apply IH in H as [H1 H2]. split; [lia|]. replace (j - i0)%nat with (S (j - S i0)) by lia. exact H2.
Qed.

Definition lookup_ok (cs : casing) (fs_all : list fdesc) (i : nat) (fs : list fdesc) : Prop :=
  forall k f, nth_error fs k = Some f ->
    exists nm, Casing.field_for_key (map fname fs_all) (key_of_field cs f) = Some nm /\
               find_field O fs_all nm = Some ((i + k)%nat, f).

Lemma keys_loop_lookup cs fs_all pre fs :
  fs_all = pre ++ fs -> keys_loop cs fs_all (length pre) fs = true -> lookup_ok cs fs_all (length pre) fs.
Proof.
  revert pre. induction fs as [|f fs IH]; intros pre E H k g Hk; [destruct k; discriminate Hk|].
  cbn [keys_loop] in H. apply andb_prop in H as [H1 H2].
  destruct k as [|k].
  - cbn in Hk. inversion Hk; subst g; clear Hk.
    destruct (Casing.field_for_key (map fname fs_all) (key_of_field cs f)) as [nm|]; [|discriminate H1].
    destruct (find_field O fs_all nm) as [[j f']|] eqn:F; [|discriminate H1].
    apply Nat.eqb_eq in H1. subst j. exists nm. split; [reflexivity|].
    pose proof (find_field_nth _ _ _ _ _ F) as [_ F']. rewrite Nat.sub_0_r in F'.
    rewrite E in F'. rewrite nth_error_app2 in F' by lia. rewrite Nat.sub_diag in F'. cbn in F'. inversion F'; subst f'.
    rewrite Nat.add_0_r. exact F.
  - cbn [nth_error] in Hk.
    specialize (IH (pre ++ [f])). rewrite app_length in IH. cbn [length] in IH. rewrite Nat.add_1_r in IH.
    specialize (IH ltac:(rewrite <- app_assoc; exact E) H2 k g Hk).
    replace (length pre + S k)%nat with (S (length pre) + k)%nat by lia. exact IH.
Qed.

Lemma lookup_tail cs fs_all i f fs : lookup_ok cs fs_all i (f :: fs) -> lookup_ok cs fs_all (S i) fs.
Proof.
  intros L k g Hk. destruct (L (S k) g Hk) as [nm [A B]]. exists nm. split; [exact A|].
  replace (S i + k)%nat with (i + S k)%nat by lia. exact B.
Qed.

(* per class facts from the schema-level hypotheses *)
Lemma class_in_or_empty sc c : In (get_class sc c) (classes sc) \/ get_class sc c = empty_class.
Proof.
  unfold get_class. destruct (lt_dec c (length (classes sc))).
  - left. apply nth_In. exact l.
  - right. apply nth_overflow. lia.
Qed.

Lemma wf_fields sc c : wf_schema sc = true ->
  forallb (wf_field sc (cngroups (get_class sc c))) (cfields (get_class sc c)) = true.
Proof.
  intros W. destruct (class_in_or_empty sc c) as [I|E]; [|rewrite E; reflexivity].
  unfold wf_schema in W. apply andb_prop in W as [_ W]. rewrite forallb_forall in W. specialize (W _ I).
  unfold wf_class in W. apply andb_prop in W as [W _]. exact W.
Qed.

Lemma keys_fields cs sc c : keys_ok cs sc = true ->
  lookup_ok cs (cfields (get_class sc c)) O (cfields (get_class sc c)) /\
  NoDup (map (key_of_field cs) (cfields (get_class sc c))).
Proof.
  intros K. destruct (class_in_or_empty sc c) as [I|E].
  - unfold keys_ok in K. rewrite forallb_forall in K. specialize (K _ I). rewrite class_keys_unfold in K.
    apply andb_prop in K as [K1 K2]. split; [|apply nodupb_NoDup, K2].
    exact (keys_loop_lookup cs _ [] _ eq_refl K1).
  - rewrite E. split; [intros k f Hk; destruct k; discriminate Hk|constructor].
Qed.

(* ---------------------------------------------------------------------------------- *)
(* the object                                                                          *)
(* ---------------------------------------------------------------------------------- *)
Lemma not_ph {A} x (a b0 : A) :
  x <> PPlaceholder ->
  match x with PPlaceholder => a | PNone => b0 | PInt _ => b0 | PBool _ => b0 | PFloat _ => b0 | PStr _ => b0 | PBytes _ => b0
             | PDatetime _ => b0 | PTimedelta _ => b0 | PList _ => b0 | PDict _ => b0 | PMsg _ => b0 end = b0.
Proof. destruct x; congruence. Qed.

Lemma pv_eq_dec_ph x : x = PPlaceholder \/ x <> PPlaceholder.
Proof. destruct x; [left; reflexivity|right; discriminate..]. Qed.

Lemma fd_items_app sc c a b0 :
  fd_items sc c (a ++ b0) = do x <- fd_items sc c a; do y <- fd_items sc c b0; Ok (x ++ y).
Proof.
  induction a as [|[k v] a IH]; cbn [app fd_items].
  - cbn [bind]. destruct (fd_items sc c b0); reflexivity.
  - destruct (item_from_json (recf sc) sc (cfields (get_class sc c)) k v) as [h|e]; cbn [bind]; [|reflexivity].
    rewrite IH. destruct (fd_items sc c a) as [x|e]; cbn [bind]; [|reflexivity].
    destruct (fd_items sc c b0) as [y|e]; cbn [bind]; [|reflexivity]. rewrite app_assoc. reflexivity.
Qed.

Definition jtr (b : bool) (kj : list byte * json) : json * json := (JStr (fst kj), tr b (snd kj)).

Lemma td_items_keys cs sc cur i raw fs k :
  In k (map fst (td_items cs sc cur i raw fs)) -> In k (map (key_of_field cs) fs).
Proof.
  revert i fs. induction raw as [|x raw IH]; intros i fs H; [destruct H|]. destruct fs as [|f fs]; [destruct H|].
  cbn [td_items] in H. rewrite map_app in H. apply in_app_or in H as [H|H].
  - left. match type of H with In _ (map fst (match ?e with _ => _ end)) => destruct e end; [|destruct H].
    destruct H as [H|[]]. exact H.
  - right. exact (IH _ _ H).
Qed.

Lemma td_items_nodup cs sc cur i raw fs :
  NoDup (map (key_of_field cs) fs) -> NoDup (map fst (td_items cs sc cur i raw fs)).
Proof.
  revert i fs. induction raw as [|x raw IH]; intros i fs N; [constructor|]. destruct fs as [|f fs]; [constructor|].
  cbn [td_items]. rewrite map_app. cbn [map] in N. inversion N as [|? ? N1 N2]; subst.
  match goal with |- NoDup (map fst (match ?e with _ => _ end) ++ _) => destruct e end; cbn [map fst app].
  - constructor; [|apply IH, N2]. intros I. apply N1. exact (td_items_keys _ _ _ _ _ _ _ I).
  - apply IH, N2.
Qed.

Section ObjA.
  Variable sc : schema.
  Variable cs : casing.
  Variable b : bool.
  Hypothesis WF : wf_schema sc = true.
  Hypothesis KO : keys_ok cs sc = true.

  Section Step.
    Variable n : nat.
    Hypothesis IHo : forall o', (pv_size (PMsg o') < n)%nat -> in_range sc o' = true -> pv_good sc (PMsg o') = true ->
      from_dict_cls sc (ocls o') (tr b (to_dict cs false sc o')) = Ok (norm_obj sc o').

    Lemma head_rt c ng f sel x i nm :
      wf_field sc ng f = true -> (fgroup f = None -> sel = None) ->
      Casing.field_for_key (map fname (cfields (get_class sc c))) (key_of_field cs f) = Some nm ->
      find_field O (cfields (get_class sc c)) nm = Some (i, f) ->
      (pv_size x < n)%nat -> x <> PPlaceholder ->
      value_ok sc f x = true -> pv_good sc x = true -> field_nan_ok x = true ->
      fd_items sc c (map (jtr b) (match field_to_json (to_dict cs false sc) sc false f sel x with
                                  | Some j => [(key_of_field cs f, j)]
                                  | None => []
                                  end))
      = Ok (if emitted sc f sel x then [(i, norm_pv sc x)] else []).
    Proof.
      intros W Hsel L1 L2 Hs Hx Hv Hg Hn.
      destruct (field_to_json (to_dict cs false sc) sc false f sel x) as [j|] eqn:E.
      - rewrite (emitted_some _ _ _ _ _ _ E).
        destruct (field_rt sc cs b n IHo ng f sel x j W Hsel Hs Hx Hv Hg Hn E) as [R N].
        cbn [map jtr fst snd fd_items item_from_json]. rewrite L1, L2.
        destruct (tr b j) eqn:T; try congruence; rewrite R; reflexivity.
      - rewrite (emitted_none _ _ _ _ _ E). reflexivity.
    Qed.

    Lemma items_rt c cur ng raw : forall fs i,
      lookup_ok cs (cfields (get_class sc c)) i fs -> forallb (wf_field sc ng) fs = true ->
      fields_ok sc raw fs = true -> forallb (pv_good sc) raw = true -> forallb field_nan_ok raw = true ->
      oneof_loop cur i raw fs = true -> (forall x, In x raw -> (pv_size x < n)%nat) ->
      fd_items sc c (map (jtr b) (td_items cs sc cur i raw fs)) = Ok (kw_list sc cur i raw fs).
    Proof.
      induction raw as [|x raw IH]; intros fs i L W F G N O S; [reflexivity|].
      destruct fs as [|f fs]; [reflexivity|].
      cbn [td_items kw_list]. rewrite map_app, fd_items_app.
      cbn [forallb] in W, G, N. apply andb_prop in W as [W1 W2]. apply andb_prop in G as [G1 G2]. apply andb_prop in N as [N1 N2].
      cbn [fields_ok] in F. apply andb_prop in F as [F1 F2]. cbn [oneof_loop] in O. apply andb_prop in O as [O1 O2].
      rewrite (IH fs (Datatypes.S i) (lookup_tail _ _ _ _ _ L) W2 F2 G2 N2 O2 (fun y Hy => S y (or_intror Hy))).
      destruct (L O f eq_refl) as [nm [L1 L2]]. rewrite Nat.add_0_r in L2.
      assert (Hsel : fgroup f = None -> group_selects cur f i = None) by (unfold group_selects; intros ->; reflexivity).
      assert (Sx : (pv_size x < n)%nat) by (apply S; left; reflexivity).
      match goal with |- (do x <- fd_items sc c (map (jtr b) ?e1); _) = Ok (?e2 ++ _) =>
        assert (Head : fd_items sc c (map (jtr b) e1) = Ok e2) end.
      { destruct (group_selects cur f i) as [[|]|] eqn:Gs; cbv zeta.
        - assert (Hx : x <> PPlaceholder) by (intros ->; discriminate O1).
          rewrite !(not_ph x _ _ Hx).
          apply (head_rt c ng f (Some true) x i nm W1); assumption.
        - reflexivity.
        - destruct (pv_eq_dec_ph x) as [->|Hx].
          + rewrite (default_not_emitted _ sc ng f None W1) by discriminate. reflexivity.
          + rewrite !(not_ph x _ _ Hx). apply (head_rt c ng f None x i nm W1); assumption. }
      rewrite Head. cbn [bind]. reflexivity.
    Qed.
  End Step.

  Lemma trk_str k : trk b (JStr k) = JStr k.
  Proof. destruct b; reflexivity. Qed.

  Lemma obj_rt_n : forall n o, (pv_size (PMsg o) < n)%nat -> in_range sc o = true -> pv_good sc (PMsg o) = true ->
    from_dict_cls sc (ocls o) (tr b (to_dict cs false sc o)) = Ok (norm_obj sc o).
  Proof.
    induction n as [|n IHn]; intros o Hs Hr Hg; [lia|].
    destruct o as [c raw s u g]. cbn [ocls].
    destruct (in_range_unfold _ _ _ _ _ _ Hr) as [Hl [_ F]].
    unfold pv_good in Hg. rewrite pv_all_msg in Hg. apply andb_prop in Hg as [Hloc Hsub].
    unfold local_ok in Hloc. apply andb_prop in Hloc as [Hloc _]. apply andb_prop in Hloc as [Hloc Hone]. apply andb_prop in Hloc as [Hloc Hnan].
    rewrite local_oneof_unfold in Hone. unfold local_nan_ok in Hnan. cbn [oraw] in Hnan.
    rewrite to_dict_unfold. destruct (keys_fields cs sc c KO) as [L ND].
    rewrite dict_norm_nodup by (apply td_items_nodup, ND).
    rewrite tr_obj, map_map.
    rewrite (map_ext _ (jtr b)) by (intros [k j]; unfold jtr, jkey; cbn [fst snd]; rewrite trk_str; reflexivity).
    unfold from_dict_cls. rewrite from_dict_init_unfold.
    rewrite (items_rt n IHn c g (cngroups (get_class sc c)) raw _ O L (wf_fields sc c WF) F Hsub Hnan Hone).
    - cbn [bind]. rewrite kw_norm_nodup by apply kw_list_nodup.
      unfold finish_cls. rewrite construct_kw by exact Hl. rewrite norm_obj_unfold. reflexivity.
    - intros x Hx. rewrite size_msg in Hs. pose proof (in_sum_size x raw Hx). lia.
  Qed.

  (* (A) the class form, on the dict (b = false) and through the JSON text (b = true) *)
  Theorem from_to_dict_norm o : good sc o = true ->
    from_dict_cls sc (ocls o) (tr b (to_dict cs false sc o)) = Ok (norm_obj sc o).
  Proof.
    intros G. rewrite good_split in G. apply andb_prop in G as [Hr Hg].
    exact (obj_rt_n (S (pv_size (PMsg o))) o (Nat.lt_succ_diag_r _) Hr Hg).
  Qed.
End ObjA.
