(* C08 — gap closing, second group: compositions of C08_evolution with C01 (objects reachable through the public API),
   C09 (len), C17 (acceptance criterion), and the converse / iteration statements.  The clause table is at the top of
   Proofs/C08GapA.v. *)
From Coq Require Import ZArith List Bool Lia.
From BP Require Import Base.Prelude Model.Types Model.Varint Model.Object Model.Eq Model.Encode Model.Decode Model.Len Model.WellFormed.
From BP Require Import Model.History Model.C07Ops Model.C01Def Model.C01Reach Model.C01Parse Model.C08Step Model.C08GapDefs.
From BP Require Import Model.C17Typed Model.C17Nested.
From BP Require Import Spec.Varint Spec.C08Wire.
From BP Require Import Proofs.C08FrameP Proofs.C08StepP Proofs.C08UnknownP Proofs.C08WireP Proofs.C08EvoDef Proofs.C08EvoMain Proofs.C08GapA.
From BP Require Proofs.LenP Proofs.C01ReachFinal Proofs.C01Reach2B Proofs.C17NestedAcceptP.
Import ListNotations.

(* the conclusion of C08_evolution, named *)
Definition evolves (sn : schema) (masks : list (list bool)) (m : obj) : Prop :=
  exists b1, enc_obj sn m = Ok b1 /\
    (Zlength b1 < 2 ^ 64 ->
     exists mo b2 m2,
       parse (drop_fields masks sn) (ocls m) b1 = Ok mo /\
       enc_obj (drop_fields masks sn) mo = Ok b2 /\ length b2 = length b1 /\
       parse sn (ocls m) b2 = Ok m2 /\ m2 = norm_obj sn m /\
       (deep nan_free (PMsg m) = true -> obj_eq sn m2 m = true /\ obj_eq sn m m2 = true) /\
       (forall g, which_one_of m2 g = which_one_of m g) /\
       enc_obj sn m2 = Ok b1).

(* (5a) the value hypothesis of C08_evolution discharged for every object a history of public-API operations produces
   (constructor, setattr, nested assignment, reads, from_dict, copies, pickle ...: run7), under C01's decidable conditions on the
   OPERATIONS; the second form also allows m.parse(bytes) in the history (clean_bytes). *)
Theorem evolution_reachable sn masks c ops m :
  c01_schema_ok sn = true -> masks_ok sn masks = true ->
  hist_ok op_value_ok sn (new sn c) ops = true -> run7 sn (new sn c) ops = Ok m ->
  evolves sn masks m.
Proof.
  intros Hs Hm Hh E. apply c08_evolution; [exact Hs | exact Hm |].
  exact (C01ReachFinal.c01_reachable_value_ok sn c ops m Hs Hh E).
Qed.

Theorem evolution_reachable_parse sn masks c ops m :
  c01_schema_ok sn = true -> masks_ok sn masks = true ->
  hist_ok op_value_ok_p sn (new sn c) ops = true -> run7 sn (new sn c) ops = Ok m ->
  evolves sn masks m.
Proof.
  intros Hs Hm Hh E. apply c08_evolution; [exact Hs | exact Hm |].
  exact (C01Reach2B.c01_reachable_value_ok_parse sn c ops m Hs Hh E).
Qed.

(* (5c) LOSSLESS as injectivity: two messages of one class whose encodings the older reader/writer turns into the same bytes have
   the same encoding and the same decoded form — the older writer's output determines the newer writer's input *)
Theorem evolution_injective sn masks m m' b1 b1' mo mo' b2 :
  c01_schema_ok sn = true -> masks_ok sn masks = true ->
  c01_value_ok sn m = true -> c01_value_ok sn m' = true -> ocls m = ocls m' ->
  enc_obj sn m = Ok b1 -> enc_obj sn m' = Ok b1' -> Zlength b1 < 2 ^ 64 -> Zlength b1' < 2 ^ 64 ->
  parse (drop_fields masks sn) (ocls m) b1 = Ok mo -> parse (drop_fields masks sn) (ocls m') b1' = Ok mo' ->
  enc_obj (drop_fields masks sn) mo = Ok b2 -> enc_obj (drop_fields masks sn) mo' = Ok b2 ->
  b1 = b1' /\ norm_obj sn m = norm_obj sn m'.
Proof.
  intros Hs Hm Hv Hv' Hc E1 E1' S1 S1' P P' E2 E2'.
  destruct (c08_evolution sn masks m Hs Hm Hv) as (x & Ex & H). rewrite E1 in Ex. injection Ex as <-.
  destruct (H S1) as (mo0 & b20 & m2 & Q1 & Q2 & _ & Q3 & -> & _ & _ & Q4). clear H.
  rewrite P in Q1. injection Q1 as <-. rewrite E2 in Q2. injection Q2 as <-.
  destruct (c08_evolution sn masks m' Hs Hm Hv') as (x & Ex & H). rewrite E1' in Ex. injection Ex as <-.
  destruct (H S1') as (mo0 & b20 & m2 & Q1' & Q2' & _ & Q3' & -> & _ & _ & Q4'). clear H.
  rewrite P' in Q1'. injection Q1' as <-. rewrite E2' in Q2'. injection Q2' as <-.
  rewrite <- Hc, Q3 in Q3'. injection Q3' as En. split; [|exact En].
  rewrite En, Q4' in Q4. injection Q4 as <-. reflexivity.
Qed.

(* (4c) "again", any number of times: the chain newer writer -> (older reader/writer -> newer reader/writer)^n returns bytes(m)
   for every n: repeated passes through older programs never degrade the data *)
Theorem evolution_relay sn masks m b1 :
  c01_schema_ok sn = true -> masks_ok sn masks = true -> c01_value_ok sn m = true ->
  enc_obj sn m = Ok b1 -> Zlength b1 < 2 ^ 64 ->
  exists b2, relay (drop_fields masks sn) (ocls m) b1 = Ok b2 /\ relay sn (ocls m) b2 = Ok b1 /\ length b2 = length b1.
Proof.
  intros Hs Hm Hv E1 S1.
  destruct (c08_evolution sn masks m Hs Hm Hv) as (x & Ex & H). rewrite E1 in Ex. injection Ex as <-.
  destruct (H S1) as (mo & b2 & m2 & Q1 & Q2 & L & Q3 & _ & _ & _ & Q4).
  exists b2. unfold relay. rewrite Q1, Q3. cbn [bind]. repeat split; assumption.
Qed.

Theorem evolution_relay_chain sn masks m b1 n :
  c01_schema_ok sn = true -> masks_ok sn masks = true -> c01_value_ok sn m = true ->
  enc_obj sn m = Ok b1 -> Zlength b1 < 2 ^ 64 ->
  relay_chain (drop_fields masks sn) sn (ocls m) n b1 = Ok b1.
Proof.
  intros Hs Hm Hv E1 S1. destruct (evolution_relay sn masks m b1 Hs Hm Hv E1 S1) as (b2 & R1 & R2 & _).
  induction n as [|n IH]; [reflexivity|]. cbn [relay_chain]. rewrite R1. cbn [bind]. rewrite R2. cbn [bind]. exact IH.
Qed.

(* (5d) composition with C09: len() of what the older reader holds is the size of the newer writer's output *)
Theorem evolution_len sn masks m b1 mo :
  c01_schema_ok sn = true -> masks_ok sn masks = true -> c01_value_ok sn m = true ->
  enc_obj sn m = Ok b1 -> Zlength b1 < 2 ^ 64 ->
  parse (drop_fields masks sn) (ocls m) b1 = Ok mo ->
  len_obj (drop_fields masks sn) mo = Ok (Zlength b1) /\ len_obj sn m = Ok (Zlength b1) /\
  exists k, len_obj (drop_fields masks sn) (clear_unk mo) = Ok k /\ Zlength b1 = k + Zlength (ounk mo).
Proof.
  intros Hs Hm Hv E1 S1 P.
  destruct (c08_evolution sn masks m Hs Hm Hv) as (x & Ex & H). rewrite E1 in Ex. injection Ex as <-.
  destruct (H S1) as (mo0 & b2 & m2 & Q1 & Q2 & L & _). rewrite P in Q1. injection Q1 as <-.
  assert (A : len_obj (drop_fields masks sn) mo = Ok (Zlength b1)).
  { rewrite (LenP.len_of_bytes _ _ _ Q2). unfold Zlength. rewrite L. reflexivity. }
  split; [exact A|]. split; [apply LenP.len_of_bytes; exact E1|].
  apply len_unknown. exact A.
Qed.

(* (3) composition with C17's acceptance criterion: whether a byte string of complete records is [valid] for a class does not
   depend on the records the class does not know *)
Theorem accept_unknown_irrelevant sc c bs ps :
  wf_schema sc = true -> has_builtins sc -> entries_agree sc = true ->
  records bs ps -> (valid sc c bs <-> valid sc c (known_raw (get_class sc c) ps)).
Proof.
  intros W B E Hrec.
  rewrite <- !(C17NestedAcceptP.accept_iff sc W B E c).
  rewrite (parse_unknown_exact sc c bs ps Hrec).
  destruct (parse sc c (known_raw (get_class sc c) ps)) as [m'|e]; cbn [rmap]; split; intros [m H]; try discriminate; eauto.
Qed.

(* ... and [valid] is closed under inserting / deleting a well-formed sequence of unknown records anywhere *)
Theorem accept_insert_anywhere sc c a pa b pb u rs :
  wf_schema sc = true -> has_builtins sc -> entries_agree sc = true ->
  records a pa -> records b pb -> wire_records u rs -> forallb (t_unknown (get_class sc c)) rs = true ->
  (valid sc c (a ++ u ++ b) <-> valid sc c (a ++ b)).
Proof.
  intros W B E Ha Hb Hw Hall.
  rewrite <- !(C17NestedAcceptP.accept_iff sc W B E c).
  rewrite (insert_anywhere sc c a pa b pb u rs Ha Hb Hw Hall).
  destruct (parse sc c (a ++ b)) as [m'|e]; cbn [rmap]; split; intros [m H]; try discriminate; eauto.
Qed.
