(* C05 gap closing, third group (table: Proofs/C05GapA.v, clause (3)): "keys are lowerCamelCase JSON names" as a statement about
   the keys of the OBJECT to_dict(CAMEL) returns, for every object whatever it holds (no value-side premise): each key is a string,
   and it is the json_name (protoc's lowerCamelCase of the proto field name) of a field of the object's class. *)
From Coq Require Import ZArith List Bool Lia.
From BP Require Import Base.Prelude Model.Types Model.Object Model.WellFormed.
From BP Require Model.Json Spec.JsonMap.
From BP Require Import Proofs.BytesP Proofs.C05Casing Proofs.C05Model Proofs.C05MsgDef Proofs.C05MsgSpec Proofs.C05MsgEmit.
Import ListNotations.

Definition key_in (ks : list (list byte)) (kx : J.json * J.json) : Prop :=
  exists k, fst kx = J.JStr k /\ In k ks.

Lemma jset_keys ks k v d : In k ks -> Forall (key_in ks) d -> Forall (key_in ks) (J.jset k v d).
Proof.
  intros Hk. induction d as [|[k' v'] d IH]; intros F; cbn [J.jset].
  - constructor; [exists k; split; [reflexivity|exact Hk]|constructor].
  - inversion F as [|? ? H1 H2]; subst.
    destruct k'; try (constructor; [exact H1|apply IH, H2]).
    destruct (bytes_eqb k s).
    + constructor; [|exact H2]. destruct H1 as (k0 & E & I). exists k0. split; [exact E|exact I].
    + constructor; [exact H1|apply IH, H2].
Qed.

Lemma dict_norm_keys ks items : Forall (fun kv => In (fst kv) ks) items -> Forall (key_in ks) (J.dict_norm items).
Proof.
  unfold J.dict_norm. assert (G : forall d, Forall (key_in ks) d -> Forall (fun kv => In (fst kv) ks) items ->
    Forall (key_in ks) (fold_left (fun d kv => J.jset (fst kv) (snd kv) d) items d)).
  { induction items as [|kv items IH]; intros d Fd Fi; cbn [fold_left]; [exact Fd|].
    inversion Fi; subst. apply IH; [apply jset_keys; assumption|assumption]. }
  intros Fi. apply G; [constructor|exact Fi].
Qed.

(* every key of to_dict(CAMEL) of ANY object (whatever its raw state holds) is a string among the camelCase keys of the fields
   of its class ... *)
Theorem to_dict_keys_of_class incl sc o :
  match J.to_dict J.CAMEL incl sc o with
  | J.JObj d => Forall (key_in (map (J.key_of_field J.CAMEL) (cfields (get_class sc (ocls o))))) d
  | _ => False
  end.
Proof.
  destruct o as [c raw sow unk cur]. cbn [J.to_dict ocls]. apply dict_norm_keys.
  generalize (cfields (get_class sc c)) as fs. generalize O as i.
  induction raw as [|x raw IH]; intros i fs; [constructor|].
  destruct fs as [|f fs]; [constructor|].
  apply Forall_app. split.
  - match goal with |- Forall _ (match ?h with Some _ => _ | None => _ end) => destruct h end;
      [constructor; [left; reflexivity|constructor]|constructor].
  - specialize (IH (Datatypes.S i) fs). revert IH. apply Forall_impl. intros kv H. right. exact H.
Qed.

(* ... hence, for a matched schema, the json_name (protoc_json_name of the proto name) of a field of that class *)
Theorem emit_keys_are_json_names incl sc js off c o :
  js_matches off sc js = true -> ocls o = (c + off)%nat -> (c < length (S.jclasses js))%nat ->
  match J.to_dict J.CAMEL incl sc o with
  | J.JObj d => Forall (fun kx => exists k jf, fst kx = J.JStr k /\ In jf (S.jclass js c) /\ k = S.jf_json jf /\
                                    k = S.protoc_json_name (S.jf_name jf) /\ json_name_safe (S.jf_name jf) = true) d
  | _ => False
  end.
Proof.
  intros JM Ec Hc. pose proof (to_dict_keys_of_class incl sc o) as H.
  destruct (J.to_dict J.CAMEL incl sc o); try exact H.
  destruct (js_matches_class off sc js c JM Hc) as [F2 _].
  rewrite Ec, (keys_of_match _ _ _ _ F2) in H. revert H. apply Forall_impl. intros kx (k & E & I).
  apply in_map_iff in I. destruct I as (jf & <- & I). exists (S.jf_json jf), jf. repeat split; try assumption.
  - unfold js_matches in JM. apply andb_prop in JM as [_ M]. rewrite forallb_forall in M.
    assert (Ic : In c (seq 0 (length (S.jclasses js)))) by (apply in_seq; lia).
    specialize (M c Ic). unfold class_matches in M. apply andb_prop in M as [M _].
    clear - M I. revert M. generalize (cfields (get_class sc (c + off))) as fs.
    induction (S.jclass js c) as [|jf' jfs IH]; intros fs M; [contradiction I|].
    destruct fs as [|f fs]; [discriminate M|]. cbn [fields_match] in M. apply andb_prop in M as [M1 M2].
    destruct I as [->|I]; [|exact (IH I fs M2)].
    unfold field_matches in M1. do 4 (apply andb_prop in M1 as [M1 _]). apply andb_prop in M1 as [_ M1].
    apply bytes_eqb_eq. exact M1.
  - unfold js_matches in JM. apply andb_prop in JM as [_ M]. rewrite forallb_forall in M.
    assert (Ic : In c (seq 0 (length (S.jclasses js)))) by (apply in_seq; lia).
    specialize (M c Ic). unfold class_matches in M. apply andb_prop in M as [M _].
    clear - M I. revert M. generalize (cfields (get_class sc (c + off))) as fs.
    induction (S.jclass js c) as [|jf' jfs IH]; intros fs M; [contradiction I|].
    destruct fs as [|f fs]; [discriminate M|]. cbn [fields_match] in M. apply andb_prop in M as [M1 M2].
    destruct I as [->|I]; [|exact (IH I fs M2)].
    unfold field_matches in M1. do 5 (apply andb_prop in M1 as [M1 _]). apply andb_prop in M1 as [_ M1]. exact M1.
Qed.
