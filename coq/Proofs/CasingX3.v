(* Lemmas about Model/Casing.v (C19), part X3: the exact image of snake_case (a decidable normal form),
   sanitize_name is idempotent, and the from_dict key table: pairwise distinct to_dict keys are necessary
   as well as sufficient; both emitted keys of generated field names map back. *)
From BP Require Import Base.Prelude Model.Casing Model.C19Norm Proofs.BytesP Proofs.CasingP Proofs.CasingP2 Proofs.CasingP3 Proofs.CasingP4
  Proofs.CasingX1 Proofs.CasingX2.
From BP Require gen.Tables.

(* ---------------------------------------------------------------- the image of snake_case *)
(* the normal form [snake_nf] is defined in Model/C19Norm.v *)
Definition nf_inv (p : nfst) (cur : list byte) : Prop :=
  match p with
  | NU => cur = []
  | NL => lows cur /\ cur <> []
  | ND => lword cur
  end.

Lemma join_cons_ne w ws : ws <> [] -> join [us] (w :: ws) = w ++ us :: join [us] ws.
Proof. destruct ws as [|w' r]; [intros N; contradiction N; reflexivity|reflexivity]. Qed.

Lemma nf_parse x : forall p cur, snake_nf_go p x = true -> nf_inv p cur ->
  exists ws, Forall lword ws /\ ws <> [] /\ cur ++ x = join [us] ws.
Proof.
  induction x as [|c r IH]; intros p cur G I.
  - exists [cur]. rewrite app_nil_r. split; [|split; [discriminate|reflexivity]]. constructor; [|constructor].
    destruct p; cbn [snake_nf_go nf_inv] in *; [discriminate G|apply lword_lows; tauto|exact I].
  - cbn [snake_nf_go] in G. destruct (is_lower_b c) eqn:L.
    + assert (lows [c]) as Lc by (unfold lows; cbn; rewrite L; reflexivity).
      destruct p; try discriminate G; cbn [nf_inv] in I;
        (destruct (IH NL (cur ++ [c]) G) as (ws & F & N & E);
         [cbn [nf_inv]; split; [apply lows_app; split; [|exact Lc]|apply app_ne_nil_r]|
          exists ws; rewrite <- app_assoc in E; auto]).
      * subst cur. reflexivity.
      * tauto.
    + destruct (is_digit_b c) eqn:D.
      * destruct (IH ND (cur ++ [c]) G) as (ws & F & N & E).
        { cbn [nf_inv]. apply lword_snoc_digit; [|exact D].
          destruct p; cbn [nf_inv] in I; [right; exact I|left; apply lword_lows; tauto|left; exact I]. }
        exists ws. rewrite <- app_assoc in E. auto.
      * destruct (is_us c) eqn:U; [|discriminate G]. apply is_us_eq in U. subst c.
        assert (lword cur /\ snake_nf_go NU r = true) as [Hc G'].
        { destruct p; cbn [nf_inv] in I; [discriminate G|split; [apply lword_lows; tauto|exact G]|split; [exact I|exact G]]. }
        destruct (IH NU [] G' eq_refl) as (ws & F & N & E). cbn [app] in E.
        exists (cur :: ws). split; [constructor; assumption|]. split; [discriminate|].
        rewrite join_cons_ne by exact N. rewrite E. reflexivity.
Qed.

Lemma snake_nf_fixed x : snake_nf x = true -> snake_case x = x.
Proof.
  destruct x as [|c r]; [reflexivity|]. cbn [snake_nf]. intros G.
  destruct (nf_parse (c :: r) NU [] G eq_refl) as (ws & F & _ & E). cbn [app] in E. rewrite E.
  unfold snake_case, words. rewrite (scan_join ws F), (Forall_lword_lower_fix ws F). reflexivity.
Qed.

Lemma nf_lows l : forall p y, lows l -> l <> [] -> p <> ND -> snake_nf_go p (l ++ y) = snake_nf_go NL y.
Proof.
  induction l as [|c r IH]; intros p y H N P; [contradiction N; reflexivity|].
  unfold lows in H. cbn [forallb] in H. apply andb_true_iff in H. destruct H as [Hc Hr].
  cbn [app snake_nf_go]. rewrite Hc.
  assert (snake_nf_go NL (r ++ y) = snake_nf_go NL y) as Q.
  { destruct r as [|c2 r2]; [reflexivity|]. apply IH; [exact Hr|discriminate|discriminate]. }
  destruct p; [exact Q|exact Q|contradiction P; reflexivity].
Qed.

Lemma nf_digs d : forall p y, digs d -> d <> [] -> snake_nf_go p (d ++ y) = snake_nf_go ND y.
Proof.
  induction d as [|c r IH]; intros p y H N; [contradiction N; reflexivity|].
  unfold digs in H. cbn [forallb] in H. apply andb_true_iff in H. destruct H as [Hc Hr].
  cbn [app snake_nf_go]. rewrite (digit_not_lower c Hc), Hc.
  destruct r as [|c2 r2]; [reflexivity|]. apply IH; [exact Hr|discriminate].
Qed.

Lemma nf_lword w y : lword w -> exists q, q <> NU /\ snake_nf_go NU (w ++ y) = snake_nf_go q y.
Proof.
  intros (l & d & -> & Hl & Hd & N). rewrite <- app_assoc.
  destruct l as [|c l'].
  - cbn [app] in *. exists ND. split; [discriminate|]. apply nf_digs; assumption.
  - rewrite (nf_lows (c :: l') NU _ Hl) by discriminate.
    destruct d as [|c2 d']; [exists NL; split; [discriminate|reflexivity]|].
    exists ND. split; [discriminate|]. apply nf_digs; [exact Hd|discriminate].
Qed.

Lemma join_nf ws : Forall lword ws -> ws <> [] -> snake_nf_go NU (join [us] ws) = true.
Proof.
  induction ws as [|w r IH]; intros H N; [contradiction N; reflexivity|]. inversion H as [|? ? Hw Hr]; subst.
  destruct r as [|w' r'].
  - cbn [join]. destruct (nf_lword w [] Hw) as (q & Nq & E). rewrite app_nil_r in E. rewrite E.
    destruct q; [contradiction Nq; reflexivity|reflexivity|reflexivity].
  - rewrite join_cons_ne by discriminate. destruct (nf_lword w (us :: join [us] (w' :: r')) Hw) as (q & Nq & E).
    rewrite E. cbn [snake_nf_go]. change (is_lower_b us) with false. change (is_digit_b us) with false.
    change (is_us us) with true. cbn iota. rewrite (IH Hr) by discriminate.
    destruct q; [contradiction Nq; reflexivity|reflexivity|reflexivity].
Qed.

Lemma snake_case_nf s : snake_nf (snake_case s) = true.
Proof.
  unfold snake_case. pose proof (words_lwords s) as H. destruct (map lower (words s)) as [|w r] eqn:E; [reflexivity|].
  assert (join [us] (w :: r) <> []) as N by (apply join_ne_nil; [exact H|discriminate]).
  unfold snake_nf. destruct (join [us] (w :: r)) eqn:J; [contradiction N; reflexivity|]. rewrite <- J.
  apply join_nf; [exact H|discriminate].
Qed.

(* x is a value of snake_case  <->  x is in normal form  <->  snake_case fixes x *)
Lemma snake_nf_iff_fixed x : snake_nf x = true <-> snake_case x = x.
Proof. split; [apply snake_nf_fixed|]. intros E. rewrite <- E. apply snake_case_nf. Qed.

Lemma snake_image x : (exists s, snake_case s = x) <-> snake_nf x = true.
Proof.
  split; [intros (s & <-); apply snake_case_nf|]. intros H. exists x. apply snake_nf_fixed, H.
Qed.

Lemma snake_alphabet_all s : forallb snake_alphabet (snake_case s) = true.
Proof. exact (snake_chars s). Qed.

(* ---------------------------------------------------------------- sanitize_name is idempotent *)
Lemma sanitize_fixed x : is_identifier x = true -> is_keyword x = false -> sanitize_name x = x.
Proof. intros I K. unfold sanitize_name. rewrite K, I. reflexivity. Qed.

Lemma sanitize_idem x : ident_chars x = true -> sanitize_name (sanitize_name x) = sanitize_name x.
Proof. intros H. destruct (sanitize_ok x H) as [I K]. apply sanitize_fixed; assumption. Qed.

(* ... and [A-Za-z0-9_]* is exactly where sanitize_name produces an identifier *)
Lemma ident_start_char c : ident_start c = true -> ident_char c = true.
Proof. unfold ident_start, ident_char. destruct (classify c); auto; discriminate. Qed.

Lemma is_identifier_ident_chars x : is_identifier x = true -> ident_chars x = true.
Proof.
  destruct x as [|c r]; [discriminate|]. cbn [is_identifier]. unfold ident_chars. cbn [forallb]. rewrite !andb_true_iff.
  intros [Hc Hr]. split; [apply ident_start_char, Hc|exact Hr].
Qed.

Lemma sanitize_ident_iff x : is_identifier (sanitize_name x) = true <-> ident_chars x = true.
Proof.
  split; [|intros H; apply (sanitize_ok x H)]. unfold sanitize_name. destruct (is_keyword x) eqn:K.
  - intros _. apply is_keyword_in in K. pose proof kw_are_identifiers as T. rewrite forallb_forall in T.
    apply is_identifier_ident_chars, T, K.
  - destruct (is_identifier x) eqn:I; cbn [negb]; [intros _; apply is_identifier_ident_chars, I|].
    cbn [is_identifier]. intros H. exact H.
Qed.

Lemma enum_member_sanitize_fixed name enum_name : ident_chars name = true ->
  sanitize_name (pythonize_enum_member_name name enum_name) = pythonize_enum_member_name name enum_name.
Proof. intros H. destruct (enum_member_ok name enum_name H) as [I K]. apply sanitize_fixed; assumption. Qed.

(* the generated field names are exactly the fixed points of safe_snake_case *)
Lemma safe_snake_image x : (exists s, safe_snake_case s = x) <-> safe_snake_case x = x.
Proof. split; [intros (s & <-); apply safe_snake_idem|intros H; exists x; exact H]. Qed.

(* ---------------------------------------------------------------- from_dict: distinct keys are necessary too *)
Lemma field_for_key_camel_iff fs :
  (forall f, In f fs -> field_for_key fs (camel_key f) = Some f) <->
  (forall f g, In f fs -> In g fs -> camel_key f = camel_key g -> f = g).
Proof.
  split.
  - intros A f g If Ig E. pose proof (A f If) as Qf. pose proof (A g Ig) as Qg. rewrite E in Qf. congruence.
  - intros U f If. apply field_for_key_back; [exact If| |left; reflexivity].
    intros g Ig E. symmetry. apply U; auto.
Qed.

Lemma no_us_camel_key_generated g : forallb (fun c => negb (is_us c)) (camel_key (safe_snake_case g)) = true.
Proof.
  rewrite camel_key_safe_snake. pose proof (words_lwords g) as H. destruct (map lower (words g)) as [|w r]; [reflexivity|].
  inversion H as [|? ? Hw Hr]; subst. rewrite forallb_app, (lword_no_us w Hw). apply (no_us_concat_cap r Hr).
Qed.

(* for generated field names whose camelCase keys are pairwise distinct, BOTH keys to_dict can emit map back *)
Lemma field_for_key_generated fs :
  (forall f, In f fs -> safe_snake_case f = f) ->
  (forall f g, In f fs -> In g fs -> camel_key f = camel_key g -> f = g) ->
  forall f, In f fs -> field_for_key fs (camel_key f) = Some f /\ field_for_key fs (snake_key f) = Some f.
Proof.
  intros G U f If. split; [apply (proj2 (field_for_key_camel_iff fs) U f If)|].
  apply field_for_key_back; [exact If| |right].
  - intros g Ig E. symmetry. apply U; [exact If|exact Ig|]. rewrite E.
    (* the snake key of f is the camelCase key of some field: then f has at most one word *)
    rewrite snake_key_is_snake_case in *. pose proof (no_us_camel_key_generated g) as Ng.
    rewrite (G g Ig), E in Ng. rewrite <- (G f If) at 1. rewrite camel_key_safe_snake.
    unfold snake_case in *. pose proof (words_lwords f) as H.
    destruct (map lower (words f)) as [|w [|w' r]]; [reflexivity|cbn [capcat map concat join]; apply app_nil_r|].
    exfalso. destruct (join_has_us w w' r) as (a & b & J). rewrite J, forallb_app in Ng. cbn [forallb] in Ng.
    change (is_us us) with true in Ng. cbn [negb andb] in Ng. rewrite andb_false_r in Ng. discriminate Ng.
  - rewrite snake_key_is_snake_case. unfold safe_snake_case. rewrite snake_snake. exact (G f If).
Qed.
