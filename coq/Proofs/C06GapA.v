(* C06 — gap analysis of the property text against Properties/C06.v, and the first group of gap-closing proofs.

   PROPERTY TEXT, clause by clause -> theorems that existed -> gap -> closed by (GapA = this file, GapB / GapC = C06GapB.v / C06GapC.v)

   (1) "A freshly constructed message reads every field as its proto3 default and encodes to zero bytes"
         -> C06_fresh, C06_fresh_default_total, C06_fresh_unset are about [new sc c] (the state __post_init__ leaves);
            C06_fresh_from_dict about Cls.from_dict({}).
         gap a: "freshly constructed" is the constructor call Cls() = construct sc c []; only a lemma inside the from_dict proofs
            said it is [new].  -> GapB fresh_constructor (the whole clause for construct sc c []).
         gap b: converse / "exactly": zero bytes do not identify a fresh message on their own (an implicit field set to its
            default also gives zero bytes) - the text does not ask for it; GapB fresh_bytes_not_injective_refuted records it.
   (2) "an implicit-presence field holding its default value is never emitted"
         -> C06_implicit_skip (contribution [] and bytes(m) = bytes(m with the field reset)); from_dict variants.
         gap a: the converse that makes the clause non-trivial: an implicit-presence field holding a NON-default value IS emitted
            (otherwise "skip everything" would satisfy the clause).  -> GapB implicit_emit_iff: for a value of the field (not the
            sentinel) the contribution is empty EXACTLY when the value is the default; otherwise it starts with the field's tag.
         gap b: "never emitted" judged on the bytes by the reference (no record of that number in bytes(m)): needs the whole
            encoding to be a record sequence of Spec/C06Wire.v; not proved here (see report) - GapC encode_presence_* gives the
            reference's judgement of bytes(m) for the EXPLICIT kinds only.
   (3) "A proto3 optional field, oneof member or wrapper-typed field that was set - even to its default value - is emitted"
         -> C06_explicit_emit (state), _construct / _setattr / _setattrs / _parse_optional / _parse_oneof / _from_dict(_inst),
            C06_explicit_one_record, C06_emitted_once, the zero-record theorems.
         gap a: converse ("exactly"): an explicit-presence field that is NOT set (never set, or a oneof member another member
            displaced) contributes nothing; stated only for from_dict (C06_absent_from_dict).  -> GapB explicit_unset_silent,
            explicit_emit_iff (state level, any object: contribution non-empty iff the raw attribute holds a value and,
            for a oneof member, the group selects it).
         gap b: the hypotheses is_value / singular_value of the emit theorems are about the state, not about what the public
            API can produce.  -> GapC encode_presence(_reachable): for every object satisfying C01's decidable value
            conditions - in particular every object a run7 history produces (C01 reachability) - the reference finds a record
            of an optional-like field in bytes(m) EXACTLY when the field reads as not None, and its WhichOneof is which_one_of.
            (The syntactic form "emitted_in for reachable objects" - discharging is_value / singular_value themselves - is
            not proved; the statement on the bytes is the stronger one.)
   (4) "a plain sub-message field is emitted exactly when serialized_on_wire reports it (it was received, or something was
        assigned inside it)"
         -> C06_submessage under the hypothesis "flag consistent" (osow ch = false -> child is default), C06_flag_construct /
            _setattr / _parse / _from_dict(_child) / _assign_inside for the child AS PRODUCED BY one operation, K12 witnesses.
         gap a: flag consistency is a per-operation fact; no theorem said it holds for the objects histories produce.
            -> GapB sow_ok_flag_consistent (C01's decidable sow_ok implies the hypothesis for every plain sub-message field),
               GapC submessage_reachable: for every object a run7 history satisfying C01's operation-level condition
               op_reach_ok_p produces, the direct child is emitted EXACTLY when serialized_on_wire(child).
         gap b: exactness of that condition.  -> GapB k12_not_sow_ok: the K12 object violates sow_ok (so the condition cannot
            be dropped), while the direct-child assignment satisfies it.
   (5) "After decoding, each such field is reported as set exactly when the reference implementation reports HasField /
        WhichOneof for the same bytes"
         -> C06_decode_presence_optional / _oneof / _submessage: for ANY rs with is_records rs bs; C06_spec_reader_sound.
         gap a: "for the same bytes": has_record is a function of a record LIST; nothing said the list is determined by the
            bytes, nor that the executable reader (the one tied to google.protobuf) finds it whenever one exists.
            -> GapA parse_records_complete, is_records_unique, records_iff, presence_of_bytes_well_defined.
         gap b: the hypothesis parse = Ok m.  -> GapC decode_presence_valid: composed with C17_accept_iff - for every [valid]
            byte string parse returns and the three presence reports hold; an invalid one gives no object at all.
         gap c: "recovered": the presence a message had BEFORE encoding is the presence the reference reports on its bytes
            and the presence the decoded message reports (composition with C01_roundtrip).  -> GapC roundtrip_presence
            (value_not_none / readability / which_one_of / serialized_on_wire(child) of parse(bytes(m)) equal
            those of m), encode_presence_optional / _oneof / _submessage (they equal has_record / last_member on bytes(m)),
            and the reachable forms.
   (6) quantifier "every field kind x {never set, default, non-default} x {constructor, setattr, parse, from_dict}, alone and in
       combination": the state-level theorems are for any object; the four ways each have their theorem; "in combination" =
       any kwargs / any sequence of assignments / any record list / any mapping.  gap: histories MIXING the ways.
         -> GapC reachable_* (run7 = any interleaving of constructor-made values, setattr, parse into the object, from_dict
            instance form, reads). *)
From Coq Require Import ZArith List Bool Lia.
From BP Require Import Base.Prelude Model.Types Model.Object.
From BP Require Import Spec.Varint Spec.C06Wire Proofs.C06SpecP Model.C06GapDefs.
Import ListNotations.
Local Open Scope Z_scope.

(* ---------- the executable reader is COMPLETE for the record grammar ---------- *)
Lemma take_varint_complete : forall v n rest,
  varint_shape v -> (length v <= n)%nat -> take_varint n (v ++ rest) = Some (v, rest).
Proof.
  induction v as [|b v IH]; intros n rest Sh Le; [cbn in Sh; tauto|].
  destruct n as [|n]; [cbn [length] in Le; lia|].
  cbn [app take_varint]. cbn [varint_shape] in Sh. destruct v as [|b' v'].
  - destruct (Z.ltb_spec (Z_of_byte b) 128) as [_|Ge]; [reflexivity|lia].
  - destruct Sh as (Ge & Sh). destruct (Z.ltb_spec (Z_of_byte b) 128) as [Lt|_]; [lia|].
    rewrite (IH n rest Sh) by (cbn [length] in *; lia). reflexivity.
Qed.

Lemma take_varint_rep_complete n v rest : VarintRep n v -> take_varint 10 (v ++ rest) = Some (v, rest).
Proof. intros (Sh & _ & Le). apply take_varint_complete; assumption. Qed.

Lemma take_bytes_complete d rest : take_bytes (length d) (d ++ rest) = Some (d, rest).
Proof.
  unfold take_bytes. rewrite app_length.
  destruct (Nat.leb_spec (length d) (length d + length rest)) as [_|Gt]; [|lia].
  rewrite firstn_app, Nat.sub_diag, firstn_all, skipn_app, Nat.sub_diag, skipn_all. cbn. rewrite app_nil_r. reflexivity.
Qed.

Lemma tag_div num wt : 0 <= wt < 8 -> (num * 8 + wt) / 8 = num.
Proof. intros H. rewrite Z.add_comm, Z.div_add by lia. rewrite Z.div_small by lia. lia. Qed.
Lemma tag_mod num wt : 0 <= wt < 8 -> (num * 8 + wt) mod 8 = wt.
Proof. intros H. rewrite Z.add_comm, Z.mod_add by lia. apply Z.mod_small. lia. Qed.

Lemma read_record_complete r a rest : is_record r a -> read_record (a ++ rest) = Some (r, rest).
Proof.
  intros H. unfold read_record. destruct H as [num v tb vb Hn Rt Rv|num d tb Hn Rt Ld|num d tb lb Hn Rt Rl|num d tb Hn Rt Ld].
  - rewrite <- app_assoc, (take_varint_rep_complete _ _ _ Rt).
    destruct Rt as (_ & -> & _). rewrite tag_div, tag_mod by lia.
    destruct (Z.ltb_spec num 1) as [Lt|_]; [lia|]. cbn [Z.eqb].
    rewrite (take_varint_rep_complete _ _ _ Rv). destruct Rv as (_ & -> & _). reflexivity.
  - rewrite <- app_assoc, (take_varint_rep_complete _ _ _ Rt).
    destruct Rt as (_ & -> & _). rewrite tag_div, tag_mod by lia.
    destruct (Z.ltb_spec num 1) as [Lt|_]; [lia|]. cbn [Z.eqb Pos.eqb].
    rewrite <- Ld, take_bytes_complete. reflexivity.
  - rewrite <- !app_assoc, (take_varint_rep_complete _ _ _ Rt).
    destruct Rt as (_ & -> & _). rewrite tag_div, tag_mod by lia.
    destruct (Z.ltb_spec num 1) as [Lt|_]; [lia|]. cbn [Z.eqb Pos.eqb].
    rewrite (take_varint_rep_complete _ _ _ Rl). destruct Rl as (_ & -> & _).
    unfold Zlength. rewrite Nat2Z.id, take_bytes_complete. reflexivity.
  - rewrite <- app_assoc, (take_varint_rep_complete _ _ _ Rt).
    destruct Rt as (_ & -> & _). rewrite tag_div, tag_mod by lia.
    destruct (Z.ltb_spec num 1) as [Lt|_]; [lia|]. cbn [Z.eqb Pos.eqb].
    rewrite <- Ld, take_bytes_complete. reflexivity.
Qed.

Lemma is_record_nonempty r a : is_record r a -> (1 <= length a)%nat.
Proof.
  intros H. assert (E : exists tb x, a = tb ++ x /\ exists n, VarintRep n tb).
  { destruct H; [exists tb, vb|exists tb, d|exists tb, (lb ++ d)|exists tb, d]; (split; [reflexivity|eexists; eassumption]). }
  destruct E as (tb & x & -> & n & R). destruct (varint_rep_nonempty _ _ R) as (b & r' & ->). cbn [app length]. lia.
Qed.

Theorem read_records_complete : forall rs bs, is_records rs bs ->
  forall fuel, (length bs <= fuel)%nat -> read_records fuel bs = Some rs.
Proof.
  intros rs bs H. induction H as [|r rs a b Hr Hrs IH]; intros fuel Le.
  - destruct fuel; reflexivity.
  - pose proof (is_record_nonempty _ _ Hr) as Na. rewrite app_length in Le.
    destruct fuel as [|fuel]; [lia|].
    destruct (a ++ b) as [|x y] eqn:E.
    { apply (f_equal (@length byte)) in E. rewrite app_length in E. cbn [length] in E. lia. }
    cbn [read_records]. rewrite <- E, (read_record_complete _ _ b Hr), (IH fuel) by lia. reflexivity.
Qed.

(* the reader the harness ties to google.protobuf finds the record list whenever the grammar has one ... *)
Theorem parse_records_complete bs rs : is_records rs bs -> parse_records bs = Some rs.
Proof. intros H. apply read_records_complete; [exact H|apply le_n]. Qed.

(* ... so the list is determined by the bytes ... *)
Theorem is_records_unique bs rs rs' : is_records rs bs -> is_records rs' bs -> rs = rs'.
Proof.
  intros H H'. apply parse_records_complete in H. apply parse_records_complete in H'. congruence.
Qed.

(* ... the relation and the function are the same thing ... *)
Theorem records_iff bs rs : is_records rs bs <-> parse_records bs = Some rs.
Proof. split; [apply parse_records_complete|apply parse_records_sound]. Qed.

(* ... and "the reference reports HasField / WhichOneof for the same bytes" is a function of the bytes alone *)
Theorem presence_of_bytes_well_defined bs rs rs' :
  is_records rs bs -> is_records rs' bs ->
  (forall f, has_record f rs = has_record f rs') /\ (forall cd g, last_member cd g rs = last_member cd g rs').
Proof. intros H H'. rewrite (is_records_unique _ _ _ H H'). split; reflexivity. Qed.

(* the reference's verdict as functions of the bytes (None: the bytes are not a sequence of complete records) *)
Lemma has_field_bytes_spec f bs rs : is_records rs bs -> has_field_bytes f bs = Some (has_record f rs).
Proof. intros H. unfold has_field_bytes. rewrite (parse_records_complete _ _ H). reflexivity. Qed.
Lemma which_oneof_bytes_spec cd g bs rs : is_records rs bs -> which_oneof_bytes cd g bs = Some (last_member cd g rs).
Proof. intros H. unfold which_oneof_bytes. rewrite (parse_records_complete _ _ H). reflexivity. Qed.

(* concatenation: records of a ++ b are the records of a then those of b (fields "in combination") *)
Lemma is_records_app rs1 a : is_records rs1 a -> forall rs2 b, is_records rs2 b -> is_records (rs1 ++ rs2) (a ++ b).
Proof.
  intros H. induction H as [|r rs x y Hr Hrs IH]; intros rs2 b H2; [exact H2|].
  rewrite <- app_assoc. cbn [app]. constructor; [exact Hr|apply IH; exact H2].
Qed.

Lemma has_record_app f rs1 rs2 : has_record f (rs1 ++ rs2) = has_record f rs1 || has_record f rs2.
Proof. unfold has_record. apply existsb_app. Qed.

(* HasField is monotone under adding records anywhere: other fields never hide a field *)
Theorem has_record_combination f a b c rsa rsb rsc :
  is_records rsa a -> is_records rsb b -> is_records rsc c -> has_record f rsb = true ->
  has_field_bytes f (a ++ b ++ c) = Some true.
Proof.
  intros Ha Hb Hc Hf.
  rewrite (has_field_bytes_spec f _ _ (is_records_app _ _ Ha _ _ (is_records_app _ _ Hb _ _ Hc))).
  rewrite !has_record_app, Hf, orb_true_r. reflexivity.
Qed.
