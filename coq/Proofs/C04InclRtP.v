(* C04 (include_default_values generic, wfx schemas), object level (B), part 3: defaults; with
   include_default_values=True every attribute is emitted; with False a field that to_dict leaves out holds its default.
   Mirrors C04RtP. *)
From BP Require Import Base.Prelude Model.Types Model.Varint Model.Scalar Model.Float Model.Utf8 Model.Object Model.Eq Model.TimeCore.
From BP Require Import Model.Encode Model.WellFormed Model.Json Model.C04RepWrap.
From BP Require Import gen.Tables Proofs.BytesP Proofs.C04Def Proofs.C04ScalarP Proofs.C04ElemP Proofs.C04FieldP Proofs.C04ObjP
  Proofs.C04CurP Proofs.C04EncP Proofs.C04RtP Proofs.C04InclDef Proofs.C04InclBaseP Proofs.C04InclFieldP Proofs.C04InclObjP
  Proofs.C04InclCurP Proofs.C04InclEncP.
From Coq Require Import Lia ZifyBool.

(* ---------------------------------------------------------------------------------- *)
(* defaults                                                                            *)
(* ---------------------------------------------------------------------------------- *)
Lemma new_is_default_loopG sc ng fs :
  forallb (wfx_field sc ng) fs = true ->
  (fix go (raw : list pv) (fs : list fdesc) {struct raw} : bool :=
     match raw, fs with
     | x :: raw', f' :: fs' => (match x with PPlaceholder => true | _ => is_default sc f' x end) && go raw' fs'
     | _, _ => true
     end) (map (fun f => if fopt f then PNone else PPlaceholder) fs) fs = true.
Proof.
  induction fs as [|f fs IH]; intros W; [reflexivity|]. cbn [forallb] in W. apply andb_prop in W as [W1 W2].
  cbn [map]. rewrite (IH W2), andb_true_r. destruct (fopt f) eqn:O; [|reflexivity].
  destruct (wfx_opt_optional sc ng f W1 O) as [p Hp]. cbn [is_default]. rewrite Hp. reflexivity.
Qed.

Lemma is_default_defaultG sc ng f : wfx_schema sc = true -> wfx_field sc ng f = true -> is_default sc f (default_of sc f) = true.
Proof.
  intros WS W. unfold default_of. destruct f as [name num t mp grp wr op hint ent]. cbn [fhint].
  destruct hint as [p|p|p|pk p]; try reflexivity.
  destruct p; try reflexivity.
  unfold new. cbn [is_default fhint]. rewrite Nat.eqb_refl. cbn [andb].
  exact (new_is_default_loopG sc _ _ (wfx_fields sc c WS)).
Qed.

(* the message Cls.from_dict(Cls().to_dict(include_default_values=True)) builds is == Cls() *)
Lemma dnorm_is_default sc : wfx_schema sc = true ->
  forall fuel c f, fhint f = HPlain (PyMsg c) -> is_default sc f (PMsg (dnorm fuel sc c)) = true.
Proof.
  intros WS. induction fuel as [|fuel IH]; intros c f Hh.
  - cbn [dnorm]. unfold new, set_sow. cbn [is_default]. rewrite Hh. rewrite Nat.eqb_refl. cbn [andb].
    exact (new_is_default_loopG sc _ _ (wfx_fields sc c WS)).
  - cbn [dnorm]. rewrite post_init_unfold. unfold set_sow. cbn [is_default]. rewrite Hh. rewrite Nat.eqb_refl. cbn [andb].
    pose proof (wfx_fields sc c WS) as W. revert W. generalize (cngroups (get_class sc c)) as ng.
    induction (cfields (get_class sc c)) as [|g fs IHf]; intros ng W; [reflexivity|].
    cbn [forallb] in W. apply andb_prop in W as [W1 W2]. cbn [map]. rewrite (IHf ng W2), andb_true_r.
    unfold dfield. destruct (fgroup g) eqn:G; cbn [or_sentinel].
    + unfold sentinel. destruct (fopt g) eqn:O; [|reflexivity].
      destruct (wfx_opt_optional sc ng g W1 O) as [p Hp]. cbn [is_default]. rewrite Hp. reflexivity.
    + pose proof (is_default_defaultG sc ng g WS W1) as D.
      destruct (default_cases sc g) as [Dn|[[c' [Hg Dm]]|S]].
      * rewrite Dn. cbn [or_sentinel]. unfold sentinel. destruct (fopt g) eqn:O; [|reflexivity].
        destruct (wfx_opt_optional sc ng g W1 O) as [p Hp]. cbn [is_default]. rewrite Hp. reflexivity.
      * rewrite Dm. cbn [or_sentinel ocls new]. apply IH. exact Hg.
      * destruct (default_of sc g) as [| | | | | | | | |[|? ?]|[|? ?]|]; try discriminate S; cbn [or_sentinel]; exact D.
Qed.

(* the default of a field that is not optional, not in a oneof, contributes no bytes *)
Lemma default_emit_empty enc sc ng f :
  wfx_schema sc = true -> wfx_field sc ng f = true -> fgroup f = None -> fopt f = false ->
  match default_of sc f with PMsg o => osow o = false | _ => True end /\
  emit_field enc sc f None (default_of sc f) = Ok [].
Proof.
  intros WS W G O.
  assert (S : match default_of sc f with PMsg o => osow o | _ => false end = false).
  { unfold default_of. destruct (fhint f) as [p|p|p|pk p]; try reflexivity. destruct p; reflexivity. }
  split; [destruct (default_of sc f); try exact I; exact S|].
  unfold emit_field. rewrite (is_default_defaultG sc ng f WS W), G, O. cbn [is_some orb]. rewrite S. reflexivity.
Qed.

Lemma default_emission_emptyG sc ng f :
  wfx_schema sc = true -> wfx_field sc ng f = true -> fgroup f = None -> fopt f = false ->
  match default_of sc f with PNone => Ok [] | d => emit_field (fun _ => Ok []) sc f None d end = Ok [].
Proof.
  intros WS W G O. destruct (default_emit_empty (fun _ => Ok []) sc ng f WS W G O) as [_ E].
  destruct (default_of sc f); try exact E. reflexivity.
Qed.

(* ---------------------------------------------------------------------------------- *)
(* include_default_values=False: a field that to_dict leaves out holds its default      *)
(* ---------------------------------------------------------------------------------- *)
Lemma not_emitted_factsG sc ng f sel x :
  wfx_field sc ng f = true ->
  (fgroup f = None -> sel = None) -> (forall g, fgroup f = Some g -> exists s, sel = Some s) -> sel <> Some false ->
  x <> PPlaceholder -> x <> PNone -> value_okx sc f x = true -> lazy_cond sc sel f x = true ->
  emittedG sc false f sel x = false ->
  is_default sc f x = true /\ fopt f = false /\ sel = None /\ fgroup f = None /\
  match x with PMsg o => osow o = false | _ => True end.
Proof.
  intros W Hs1 Hs2 Hs3 Hx Hxn Hv Hl He.
  assert (Gn : fgroup f = None).
  { destruct (fgroup f) as [g|] eqn:G; [|reflexivity]. destruct (Hs2 g eq_refl) as [s ->].
    destruct s; [|congruence]. destruct (selected_emittedG sc ng false f g x W G Hx Hv) as [E _]. rewrite E in He. discriminate He. }
  pose proof (Hs1 Gn) as ->. clear Hs1 Hs2 Hs3.
  unfold value_okx in Hv. unfold emittedG, field_to_json, emit in He. unfold lazy_cond in Hl. unfold hint_elem, elem_ptype in *.
  destruct (wfx_kind sc ng f W) as [p Hh Ho Hw Hm Hp|p w Hh Hw Ho Hm Hgr Ht Hws Sp Hp|p Hh Hw Ho Hm Hgr Hp|p Hh Hw Ho Hm Hgr Hp
                                   |pk p kt vt Hh Hw Ho Hm Hgr Ht Hk Hp|p w Hh Hw Ho Hm Hgr Ht Hws Sp Hp];
    rewrite ?Hh, ?Hw, ?Ho, ?Hm in *; cbn [orb] in He.
  - assert (Hr : elem_in_rangex sc (fty f) p x = true) by (destruct x; try congruence; exact Hv).
    destruct (scalar_py p) eqn:Sp.
    + pose proof (fits_scalar _ _ _ _ Sp Hp) as Ht. destruct (scalar_not_message _ Ht) as [Nm Np].
      rewrite Nm, Np in He. rewrite (elem_scalarx _ _ _ _ Sp) in Hr.
      destruct (is_default sc f x) eqn:D.
      * repeat split; try reflexivity; try assumption. destruct x; try exact I. destruct (fty f); discriminate Hr.
      * cbn [negb orb] in He. destruct x; try congruence; discriminate He.
    + pose proof (fits_message _ _ _ _ Sp Hp) as Et. rewrite Et in *. change (ptype_eqb TMessage TMessage) with true in He. cbv iota in He.
      destruct p; try discriminate Sp; destruct x; try discriminate Hr; cbn [elem_in_rangex] in Hr.
      * destruct o as [c' r s u g]. cbn [osow] in *. destruct s; [discriminate He|]. cbn [orb] in Hl.
        repeat split; try reflexivity; assumption.
      * rewrite !orb_false_r in He. destruct (us =? 0) eqn:E; [|discriminate He]. repeat split; try reflexivity; try assumption.
        cbn [is_default]. rewrite Hh. exact E.
      * rewrite !orb_false_r in He. destruct (us =? 0) eqn:E; [|discriminate He]. repeat split; try reflexivity; try assumption.
        cbn [is_default]. rewrite Hh. exact E.
  - exfalso. rewrite Ht in He. change (ptype_eqb TMessage TMessage) with true in He. cbv iota in He.
    rewrite (elem_scalarx _ _ _ _ Sp) in Hv.
    destruct x; try congruence; try discriminate He; destruct w; discriminate Hv.
  - exfalso. destruct (scalar_py p) eqn:Sp.
    + pose proof (fits_scalar _ _ _ _ Sp Hp) as Ht. destruct (scalar_not_message _ Ht) as [Nm Np].
      rewrite Nm, Np in He. rewrite (elem_scalarx _ _ _ _ Sp) in Hv.
      destruct x; try congruence; cbn [is_default] in He; rewrite Hh in He; cbn [negb orb] in He; try discriminate He;
        destruct (fty f); discriminate Hv.
    + pose proof (fits_message _ _ _ _ Sp Hp) as Et. rewrite Et in *. change (ptype_eqb TMessage TMessage) with true in He. cbv iota in He.
      destruct x; try congruence; try discriminate He; try (destruct p; discriminate Hv).
      all: rewrite ?orb_true_r in He; discriminate He.
  - destruct x as [| | | | | | | | |l| |]; try discriminate Hv; try congruence.
    assert (l = []) as ->.
    { destruct l as [|y l]; [reflexivity|]. exfalso.
      destruct (ptype_eqb (fty f) TMessage); [discriminate He|].
      assert (Nm : ptype_eqb (fty f) TMap = false) by (destruct (fty f); try reflexivity; destruct p; discriminate Hp).
      rewrite Nm in He. cbn [is_default] in He. rewrite Hh in He. discriminate He. }
    repeat split; try reflexivity; try assumption. cbn [is_default]. rewrite Hh. reflexivity.
  - rewrite Ht in He. change (ptype_eqb TMap TMessage) with false in He. change (ptype_eqb TMap TMap) with true in He. cbv iota in He.
    destruct x as [| | | | | | | | | |d|]; try discriminate Hv; try congruence.
    assert (d = []) as -> by (destruct d; [reflexivity|discriminate He]).
    repeat split; try reflexivity; try assumption. cbn [is_default]. rewrite Hh. reflexivity.
  - exfalso. rewrite Ht in He. change (ptype_eqb TMessage TMessage) with true in He. cbv iota in He.
    destruct x; try congruence; discriminate He.
Qed.
