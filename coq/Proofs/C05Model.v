(* C05, betterproto's JSON leaves (Model/Json.v, property C04's mirror of to_dict / _from_dict_init)
   against the specification (Spec/JsonMap.v):
     - what the model EMITS for an in-range scalar is exactly the canonical form json_spec writes
       (64-bit integers as decimal strings, base64 with padding, "NaN"/"Infinity"/"-Infinity", numbers otherwise),
       hence json_accepts takes it back as the same value;
     - Timestamp strings are the canonical RFC 3339 "Z" form; Duration strings are accepted by the spec's reader
       (whole seconds are written "5.000s" where the canonical printer writes "5s": legal, not canonical);
     - what json_spec writes for a scalar, the model's reader (scalar_from_json / iso_parse) takes back. *)
From BP Require Import Base.Prelude Model.Types Model.Float Model.Object Model.WellFormed Model.TimeCore Spec.Time.
From BP Require Model.Json Model.Time Spec.JsonMap.
From BP Require Proofs.TimeP Proofs.C04Def Proofs.C04ScalarP Proofs.C04CalP Proofs.C04CalSweepP Proofs.C05Leaf.
From BP Require Import gen.Tables.
From Coq Require Import Lia ZifyBool.
Ltac Zify.zify_post_hook ::= Z.to_euclidean_division_equations.

Module J := Model.Json.
Module S := Spec.JsonMap.
Module L := Proofs.C05Leaf.

Ltac eval_tables :=
  repeat match goal with
         | |- context [tmem ?t ?l] => let v := eval vm_compute in (tmem t l) in change (tmem t l) with v
         | |- context [ptype_eqb ?a ?b] => let v := eval vm_compute in (ptype_eqb a b) in change (ptype_eqb a b) with v
         end; cbv iota.

(* ---- the vocabulary bridge ---- *)
Definition skind_of (t : ptype) : option S.skind :=
  match t with
  | TBool => Some S.KBool | TInt32 => Some S.KInt32 | TInt64 => Some S.KInt64 | TUInt32 => Some S.KUInt32
  | TUInt64 => Some S.KUInt64 | TSInt32 => Some S.KSInt32 | TSInt64 => Some S.KSInt64 | TFloat => Some S.KFloat
  | TDouble => Some S.KDouble | TFixed32 => Some S.KFixed32 | TSFixed32 => Some S.KSFixed32
  | TFixed64 => Some S.KFixed64 | TSFixed64 => Some S.KSFixed64 | TString => Some S.KString | TBytes => Some S.KBytes
  | TEnum | TMessage | TMap => None
  end.

(* the JSON text json.dumps writes for a model value, as the AST a parser reads (keys stringified); None = not JSON *)
Fixpoint conv (j : J.json) : option S.json :=
  match j with
  | J.JNull => Some S.JNull
  | J.JBool b => Some (S.JBool b)
  | J.JInt z => Some (S.JNum z)
  | J.JFloat b => Some (S.JFloat b)
  | J.JStr s => Some (S.JStr s)
  | J.JList l => option_map S.JArr (S.all_some (map conv l))
  | J.JObj d =>
      option_map S.JObj
        (S.all_some (map (fun kx => match conv (snd kx) with
                                    | Some x => Some (J.key_text (fst kx), x)
                                    | None => None
                                    end) d))
  | J.JPy _ => None
  end.
(* the parsed text of a canonical JSON value, as the model's reader sees it *)
Fixpoint unconv (j : S.json) : J.json :=
  match j with
  | S.JNull => J.JNull
  | S.JBool b => J.JBool b
  | S.JNum z => J.JInt z
  | S.JFloat b => J.JFloat b
  | S.JStr s => J.JStr s
  | S.JArr l => J.JList (map unconv l)
  | S.JObj d => J.JObj (map (fun kx => (J.JStr (fst kx), unconv (snd kx))) d)
  end.

Definition abs_scalar (v : pv) : option S.aval :=
  match v with
  | PInt z => Some (S.AInt z) | PBool b => Some (S.ABool b) | PFloat b => Some (S.AFloat b)
  | PStr s => Some (S.AStr s) | PBytes b => Some (S.ABytes b)
  | _ => None
  end.

(* ---- the two base64 encoders and the constants coincide ---- *)
Lemma b64_char_same i : 0 <= i < 64 -> J.b64_char i = S.b64_char i.
Proof.
  intros H. assert (C : forallb (fun i => Byte.eqb (J.b64_char i) (S.b64_char i)) (map Z.of_nat (seq 0 64)) = true)
    by (vm_compute; reflexivity).
  rewrite forallb_forall in C. apply Byte.byte_dec_bl, C.
  apply in_map_iff. exists (Z.to_nat i). split; [lia|]. apply in_seq. lia.
Qed.
Lemma b64encode_same l : J.b64encode l = S.b64_encode l.
Proof.
  induction l as [|a|a b|a b c r IH] using L.list_ind3; cbn [J.b64encode S.b64_encode]; cbv zeta.
  - reflexivity.
  - pose proof (L.byte_range a). rewrite !b64_char_same by lia. reflexivity.
  - pose proof (L.byte_range a). pose proof (L.byte_range b). rewrite !b64_char_same by lia. reflexivity.
  - pose proof (L.byte_range a). pose proof (L.byte_range b). pose proof (L.byte_range c).
    rewrite !b64_char_same by lia. rewrite IH. reflexivity.
Qed.
(* T1: the three float strings of the live module are the ones of the JSON mapping *)
Lemma float_strings_same :
  JSON_INFINITY = S.s_Infinity /\ JSON_NEG_INFINITY = S.s_NegInfinity /\ JSON_NAN = S.s_NaN.
Proof. repeat split; reflexivity. Qed.
(* T1: the table of 64-bit types is the spec's *)
Lemma int64_table_same t k : skind_of t = Some k -> tmem t INT_64_TYPES = S.is64 k.
Proof. destruct t; cbn [skind_of]; intros E; inversion E; subst; vm_compute; reflexivity. Qed.

(* ---- floats: bit-level facts ---- *)
Lemma exp_man_div b : 0 <= b ->
  f64_exp b = (b / 2 ^ 52) mod 2048 /\ f64_man b = b mod 2 ^ 52.
Proof.
  intros H. unfold f64_exp, f64_man. rewrite Z.shiftr_div_pow2 by lia.
  change 2047 with (Z.ones 11). change (2 ^ 52 - 1) with (Z.ones 52).
  rewrite !Z.land_ones by lia. split; reflexivity.
Qed.
Lemma not_finite_cases b : 0 <= b < 2 ^ 64 -> S.f64_finite b = false ->
  f64_is_nan b = true \/ b = f64_pos_inf \/ b = f64_neg_inf.
Proof.
  intros R F. unfold S.f64_finite in F. destruct (exp_man_div b ltac:(lia)) as [E M].
  unfold f64_is_nan. destruct (f64_exp b =? 2047) eqn:X; [|discriminate F]. cbn [andb].
  destruct (f64_man b =? 0) eqn:Y; [right|left; reflexivity].
  assert (P : f64_pos_inf = 2047 * 2 ^ 52) by (vm_compute; reflexivity).
  assert (N : f64_neg_inf = 4095 * 2 ^ 52) by (vm_compute; reflexivity).
  rewrite P, N. change (2 ^ 52) with 4503599627370496 in *. change (2 ^ 64) with 18446744073709551616 in R. lia.
Qed.
Lemma nan_bits_same : J.nan_bits = S.nan_bits.
Proof. vm_compute. reflexivity. Qed.
Lemma spec_nan_is_nan : f64_is_nan S.nan_bits = true.
Proof. vm_compute. reflexivity. Qed.

Lemma wf_float_of_range b : 0 <= b < 2 ^ 64 -> C04Def.nan_canonical (PFloat b) = true -> L.wf_float b = true.
Proof.
  intros R Hn. unfold L.wf_float. destruct (S.f64_finite b) eqn:F; [rewrite orb_true_r; reflexivity|].
  destruct (not_finite_cases b R F) as [N|[->| ->]].
  - cbn [C04Def.nan_canonical] in Hn. rewrite N in Hn. cbn [negb orb] in Hn. rewrite nan_bits_same in Hn.
    rewrite N, Hn. reflexivity.
  - reflexivity.
  - reflexivity.
Qed.

(* ====================================================================================== *)
(* EMIT: the model writes the canonical form of every in-range scalar                      *)
(* ====================================================================================== *)
Theorem model_scalar_is_canonical sc t k p v :
  skind_of t = Some k -> scalar_in_range t v = true ->
  exists a, abs_scalar v = Some a /\ conv (J.scalar_to_json sc t p v) = S.spec_scalar k a.
Proof.
  intros K R. destruct float_strings_same as (EI & EN & EQ).
  unfold J.scalar_to_json. rewrite (int64_table_same t k K).
  destruct t; cbn [skind_of] in K; inversion K; subst k; clear K;
    destruct v; try discriminate R; cbn [S.is64];
    try (eexists; split; [reflexivity|]; eval_tables;
         cbn [J.raw_json conv S.spec_scalar S.is64]; rewrite ?b64encode_same; reflexivity).
  - (* float *)
    eexists. split; [reflexivity|]. eval_tables.
    unfold J.dump_float. rewrite EI, EN, EQ. cbn [S.spec_scalar].
    destruct (f64_is_nan bits) eqn:N.
    + destruct (bits =? f64_pos_inf) eqn:P; [apply Z.eqb_eq in P; subst; discriminate N|].
      destruct (bits =? f64_neg_inf) eqn:Q; [apply Z.eqb_eq in Q; subst; discriminate N|]. reflexivity.
    + destruct (bits =? f64_pos_inf), (bits =? f64_neg_inf); reflexivity.
  - (* double *)
    eexists. split; [reflexivity|]. eval_tables.
    unfold J.dump_float. rewrite EI, EN, EQ. cbn [S.spec_scalar].
    destruct (f64_is_nan bits) eqn:N.
    + destruct (bits =? f64_pos_inf) eqn:P; [apply Z.eqb_eq in P; subst; discriminate N|].
      destruct (bits =? f64_neg_inf) eqn:Q; [apply Z.eqb_eq in Q; subst; discriminate N|]. reflexivity.
    + destruct (bits =? f64_pos_inf), (bits =? f64_neg_inf); reflexivity.
Qed.

(* in-range in the model's sense implies well-formed in the spec's sense *)
Lemma f32_exact_of_representable b : f32_representable b || f64_is_nan b = true -> L.f32_exact b = true.
Proof.
  intros H. unfold L.f32_exact. destruct (S.f64_finite b) eqn:F; [|reflexivity].
  rewrite (L.finite_not_nan _ F), orb_false_r in H. unfold f32_representable in H. unfold S.to_f32.
  destruct (d2f b) as [w|]; [|discriminate H]. apply Z.eqb_eq in H. rewrite H, F. apply Z.eqb_refl.
Qed.
Lemma wf_scalar_of_range t k v a :
  skind_of t = Some k -> scalar_in_range t v = true -> C04Def.nan_canonical v = true ->
  abs_scalar v = Some a -> L.wf_scalar k a = true.
Proof.
  intros K R N A.
  destruct t; cbn [skind_of] in K; inversion K; subst k; clear K;
    destruct v; try discriminate R; cbn [abs_scalar] in A; inversion A; subst a; clear A;
    cbn [L.wf_scalar scalar_in_range] in *; unfold S.in_int_range, S.int_range, int_in in *; try reflexivity; try lia.
  - apply andb_true_iff in R. destruct R as [R X]. apply andb_true_iff. split.
    + apply wf_float_of_range; [unfold int_in in R; lia|exact N].
    + apply f32_exact_of_representable, X.
  - apply wf_float_of_range; [lia|exact N].
Qed.

(* the reference's parser (as specified) takes every in-range scalar betterproto emits, as the same value *)
Theorem model_scalar_emit_accepted sc t k p v :
  skind_of t = Some k -> scalar_in_range t v = true -> C04Def.nan_canonical v = true ->
  exists a j, abs_scalar v = Some a /\ conv (J.scalar_to_json sc t p v) = Some j /\ S.acc_scalar k j = Some a.
Proof.
  intros K R N. destruct (model_scalar_is_canonical sc t k p v K R) as (a & A & C).
  destruct (L.spec_scalar_accepted k a (wf_scalar_of_range t k v a K R N A)) as (j & Sj & Aj).
  exists a, j. rewrite C. auto.
Qed.

(* ====================================================================================== *)
(* ACCEPT: the model's reader takes the canonical form of every in-range scalar            *)
(* ====================================================================================== *)
Definition leaf (j : S.json) : Prop := match j with S.JArr _ | S.JObj _ => False | _ => True end.
Lemma conv_leaf x j : conv x = Some j -> leaf j -> unconv j = x.
Proof.
  destruct x; cbn [conv]; intros E H; try (inversion E; subst; reflexivity);
    try (destruct (S.all_some _); cbn [option_map] in E; inversion E; subst; contradiction H).
Qed.
Definition opt_leaf (o : option S.json) : Prop := match o with Some j => leaf j | None => True end.
Lemma spec_scalar_opt_leaf k a : opt_leaf (S.spec_scalar k a).
Proof.
  destruct k, a; cbn [S.spec_scalar S.is64 opt_leaf leaf];
    try (destruct (f64_is_nan bits); [|destruct (bits =? f64_pos_inf); [|destruct (bits =? f64_neg_inf)]]);
    exact I.
Qed.
Lemma spec_scalar_leaf k a j : S.spec_scalar k a = Some j -> leaf j.
Proof. intros E. pose proof (spec_scalar_opt_leaf k a) as H. rewrite E in H. exact H. Qed.

Theorem model_scalar_accepts_canonical sc t k p v a j :
  skind_of t = Some k -> pyty_fits (length (classes sc)) (length (enums sc)) t p = true ->
  scalar_in_range t v = true -> C04Def.nan_canonical v = true ->
  abs_scalar v = Some a -> S.spec_scalar k a = Some j ->
  J.scalar_from_json sc t p (unconv j) = Ok v.
Proof.
  intros K P R N A Sj.
  destruct (model_scalar_is_canonical sc t k p v K R) as (a' & A' & C). rewrite A in A'. inversion A'; subst a'.
  rewrite Sj in C.
  assert (Ts : tmem t scalar_ptypes = true) by (destruct t; try discriminate K; reflexivity).
  pose proof (C04ScalarP.scalar_roundtrip sc false t p v Ts P R N) as RT. unfold C04ScalarP.tr in RT.
  rewrite <- RT. f_equal. apply (conv_leaf _ _ C), (spec_scalar_leaf k a), Sj.
Qed.

(* ====================================================================================== *)
(* Timestamp / Duration                                                                    *)
(* ====================================================================================== *)
Lemma cal_same s : S.cal_str s = J.cal_text s.
Proof.
  unfold S.cal_str, J.cal_text. rewrite L.civil_same. cbv zeta.
  destruct (J.civil_of_days (s / 86400)) as [[y m] d].
  replace (s mod 86400 / 60 mod 60) with (s mod 86400 mod 3600 / 60) by lia. reflexivity.
Qed.

(* to_dict writes the canonical RFC 3339 UTC form of the Timestamp (seconds, nanos) of the instant *)
Theorem model_timestamp_is_canonical us :
  J.ts_text us = S.ts_str (fst (ts_of_us us)) (snd (ts_of_us us)).
Proof. unfold J.ts_text, S.ts_str, ts_of_us. cbn [fst snd]. rewrite cal_same. reflexivity. Qed.

Theorem model_timestamp_emit_accepted us :
  (dt_min_us <=? us) && (us <=? dt_max_us) = true ->
  S.ts_parse (J.ts_text us) = Some (ts_of_us us) /\ S.ts_in_range (fst (ts_of_us us)) (snd (ts_of_us us)) = true.
Proof.
  intros R. unfold dt_min_us, dt_max_us in R. rewrite model_timestamp_is_canonical. unfold ts_of_us. cbn [fst snd]. split.
  - apply L.spec_timestamp_accepted; unfold S.TS_MIN_S, S.TS_MAX_S; lia.
  - unfold S.ts_in_range, S.TS_MIN_S, S.TS_MAX_S. lia.
Qed.

(* from_dict reads the canonical Timestamp string back as the same instant *)
Theorem model_timestamp_accepts_canonical us :
  (dt_min_us <=? us) && (us <=? dt_max_us) = true ->
  J.iso_parse (S.ts_str (fst (ts_of_us us)) (snd (ts_of_us us))) = Ok us.
Proof.
  intros R. rewrite <- model_timestamp_is_canonical. apply C04CalP.iso_roundtrip; [apply C04CalSweepP.cal_fact_holds|exact R].
Qed.

(* Duration: betterproto's string is taken by the spec's reader as the Duration of the span
   (for whole seconds it is "N.000s", which is legal but not the canonical "Ns") *)
Theorem model_duration_emit_accepted us :
  (- 315576000000000000 <=? us) && (us <=? 315576000000000000) = true ->
  dur_parse (Model.Time.delta_to_json us) = Some (dur_of_us us) /\
  S.dur_in_range (fst (dur_of_us us)) (snd (dur_of_us us)) = true /\
  (us mod 1000000 <> 0 -> Model.Time.delta_to_json us = dur_json (fst (dur_of_us us)) (snd (dur_of_us us))).
Proof.
  intros R. split; [apply TimeP.dur_parse_delta_to_json|]. split.
  - unfold dur_of_us, S.dur_in_range, DUR_MAX_S. cbn [fst snd]. lia.
  - apply TimeP.delta_to_json_is_spec.
Qed.

(* the canonical printer's whole-second form "5s" differs from betterproto's "5.000s" *)
Example model_duration_not_canonical_whole_seconds :
  Model.Time.delta_to_json 5000000 = [x35; x2e; x30; x30; x30; x73] /\ dur_json 5 0 = [x35; x73].
Proof. split; vm_compute; reflexivity. Qed.


(* ====================================================================================== *)
(* the message-level statements, executable forms (theorems: Proofs/C05MsgEmit.v            *)
(* emit_accepted, Proofs/C05AccMain.v reads_canonical; evaluated on the instance below)      *)
(* ====================================================================================== *)
(* C05_emit, executable form: the text of to_json(m) is accepted by the reference parser (as specified)
   and denotes ...; the harness compares the result with the abstract value of m *)
Definition model_emit_accepts (sc : schema) (js : S.jschema) (c : nat) (o : obj) : option S.aval :=
  match conv (J.text_rt (J.to_dict J.CAMEL false sc o)) with
  | Some j => S.json_accepts js c j
  | None => None
  end.
(* C05_accept, executable form: the canonical JSON of a, read by Cls.from_dict and written again, denotes a
   (cls = index of the class in the model's table, c = index in the spec's table) *)
Definition model_reads_canonical (sc : schema) (js : S.jschema) (c cls : nat) (a : S.aval) : option S.aval :=
  match S.json_spec js c a with
  | Some j => match J.from_dict_cls sc cls (unconv j) with
              | Ok o => model_emit_accepts sc js c o
              | Err _ => None
              end
  | None => None
  end.

Module Ex.
Import S.
Definition ex_sc : schema := (mkS (builtin_classes ++ [(mkC [(mkF [x62; x69; x67] (1)%Z TInt64 None None None false (HPlain PyInt) 0%nat);
      (mkF [x64; x61; x74; x61] (2)%Z TBytes None None None true (HOptional PyBytes) 0%nat);
      (mkF [x63; x6f; x6c; x6f; x72] (3)%Z TEnum None None None false (HPlain (PyEnum 0)) 0%nat);
      (mkF [x61; x74] (4)%Z TMessage None None None false (HPlain PyDatetime) 0%nat);
      (mkF [x73; x70; x61; x6e] (5)%Z TMessage None None None false (HPlain PyTimedelta) 0%nat);
      (mkF [x78; x73] (6)%Z TDouble None None None false (HList PyFloat) 0%nat);
      (mkF [x62; x79; x5f; x69; x64] (7)%Z TMap (Some (TInt32, TUInt64)) None None false (HDict PyInt PyInt) 12%nat);
      (mkF [x77; x72; x61; x70; x70; x65; x64] (8)%Z TMessage None None (Some TUInt64) false (HOptional PyInt) 0%nat);
      (mkF [x63; x68; x69; x6c; x64] (9)%Z TMessage None None None false (HPlain (PyMsg 11)) 0%nat);
      (mkF [x70; x69; x63; x6b; x5f; x61] (10)%Z TString None (Some 0%nat) None false (HPlain PyStr) 0%nat);
      (mkF [x70; x69; x63; x6b; x5f; x62] (11)%Z TSInt64 None (Some 0%nat) None false (HPlain PyInt) 0%nat);
      (mkF [x66; x6c; x61; x67; x5f; x32] (12)%Z TBool None None None false (HPlain PyBool) 0%nat)] 1%nat);
    (mkC [(mkF [x6b; x65; x79] 1%Z TInt32 None None None false (HPlain PyInt) 0%nat); (mkF [x76; x61; x6c; x75; x65] 2%Z TUInt64 None None None false (HPlain PyInt) 0%nat)] 0%nat)]) [(mkE [([x5a; x45; x52; x4f], (0)%Z); ([x4f; x4e; x45], (1)%Z); ([x4e; x45; x47], (-1)%Z)])]) .
Definition ex_js : S.jschema := (mkJS [[(mkJF [x62; x69; x67] [x62; x69; x67] (JScalar KInt64) Implicit None);
    (mkJF [x64; x61; x74; x61] [x64; x61; x74; x61] (JScalar KBytes) Explicit None);
    (mkJF [x63; x6f; x6c; x6f; x72] [x63; x6f; x6c; x6f; x72] (JEnum 0%nat) Implicit None);
    (mkJF [x61; x74] [x61; x74] JTimestamp Explicit None);
    (mkJF [x73; x70; x61; x6e] [x73; x70; x61; x6e] JDuration Explicit None);
    (mkJF [x78; x73] [x78; x73] (JScalar KDouble) Repeated None);
    (mkJF [x62; x79; x5f; x69; x64] [x62; x79; x49; x64] (JScalar KUInt64) (MapOf KInt32) None);
    (mkJF [x77; x72; x61; x70; x70; x65; x64] [x77; x72; x61; x70; x70; x65; x64] (JWrapper KUInt64) Explicit None);
    (mkJF [x63; x68; x69; x6c; x64] [x63; x68; x69; x6c; x64] (JMsg 0%nat) Explicit None);
    (mkJF [x70; x69; x63; x6b; x5f; x61] [x70; x69; x63; x6b; x41] (JScalar KString) Explicit (Some 0%nat));
    (mkJF [x70; x69; x63; x6b; x5f; x62] [x70; x69; x63; x6b; x42] (JScalar KSInt64) Explicit (Some 0%nat));
    (mkJF [x66; x6c; x61; x67; x5f; x32] [x66; x6c; x61; x67; x32] (JScalar KBool) Implicit None)]] [[([x5a; x45; x52; x4f], (0)%Z); ([x4f; x4e; x45], (1)%Z); ([x4e; x45; x47], (-1)%Z)]]) .
Definition ex_obj : obj := (Obj 11%nat [(PInt (-9223372036854775808)); (PBytes [xfb; xff]); (PInt (7)); (PDatetime (1583020799250000)); (PTimedelta (-1)); (PList [(PFloat (9218868437227405312)); (PFloat (9223372036854775808)); (PFloat (4609434218613702656))]); (PDict [((PInt (-5)), (PInt (18446744073709551615))); ((PInt (7)), (PInt (0)))]); (PInt (9223372036854775808)); (PMsg (Obj 11%nat [PPlaceholder; PNone; (PInt (-1)); PPlaceholder; PPlaceholder; PPlaceholder; PPlaceholder; PPlaceholder; PPlaceholder; PPlaceholder; (PInt (-3)); (PBool true)] true [] [(Some 10%nat)])); (PStr []); PPlaceholder; PPlaceholder] true [] [(Some 9%nat)]) .
Definition ex_aval : S.aval := (AMsg [(FOne (AInt (-9223372036854775808))); (FOne (ABytes [xfb; xff])); (FOne (AEnum (7))); (FOne (ATime (1583020799) (250000000))); (FOne (ADur (0) (-1000))); (FRep [(AFloat (9218868437227405312)); (AFloat (9223372036854775808)); (AFloat (4609434218613702656))]); (FMap [((AInt (-5)), (AInt (18446744073709551615))); ((AInt (7)), (AInt (0)))]); (FOne (AInt (9223372036854775808))); (FOne (AMsg [(FOne (AInt (0))); FAbsent; (FOne (AEnum (-1))); FAbsent; FAbsent; (FRep []); (FMap []); FAbsent; FAbsent; FAbsent; (FOne (AInt (-3))); (FOne (ABool true))])); (FOne (AStr [])); FAbsent; (FOne (ABool false))]) .
(* betterproto: {"big": "-9223372036854775808", "data": "+/8=", "color": 7, "at": "2020-02-29T23:59:59.250Z", "span": "-0.000001s", "xs": ["Infinity", -0.0, 1.5], "byId": {"-5": "18446744073709551615", "7": "0"}, "wrapped": "9223372036854775808", "child": {"color": "NEG", "pickB": "-3", "flag2": true}, "pickA": ""} *)
(* reference: { "big": "-9223372036854775808", "data": "+/8=", "color": 7, "at": "2020-02-29T23:59:59.250Z", "span": "-0.000001s", "xs": [ "Infinity", -0.0, 1.5 ], "byId": { "-5": "18446744073709551615", "7": "0" }, "wrapped": "9223372036854775808", "child": { "color": "NEG", "pickB": "-3", "flag2": true }, "pickA": "" } *)

End Ex.

(* one message with every leaf form: 64-bit extremes, base64 with "+/", an enum number without a name, an RFC 3339
   timestamp on a leap day with 3 fractional digits, a negative microsecond duration, "Infinity" and -0.0 in a repeated
   field, an int32-keyed map of uint64, a UInt64Value wrapper, a nested message, a oneof member holding its default *)
Example model_emit_instance :
  option_map S.cv_of_aval (model_emit_accepts Ex.ex_sc Ex.ex_js 0 Ex.ex_obj) = Some (S.cv_of_aval Ex.ex_aval).
Proof. vm_compute. reflexivity. Qed.
Example model_accept_instance :
  option_map S.cv_of_aval (model_reads_canonical Ex.ex_sc Ex.ex_js 0 (length builtin_classes) Ex.ex_aval) =
  Some (S.cv_of_aval Ex.ex_aval).
Proof. vm_compute. reflexivity. Qed.

(* ---- K13: -0.0 in an implicit-presence double field: the model omits it, the canonical printer does not ---- *)
Definition nz_name : list byte := [x78].
Definition nz_sc : schema := mkS (builtin_classes ++ [mkC [plain_field nz_name 1 TDouble] 0]) [].
Definition nz_js : S.jschema := S.mkJS [[S.mkJF nz_name nz_name (S.JScalar S.KDouble) S.Implicit None]] [].
Definition nz_obj : obj := Obj (length builtin_classes) [PFloat (2 ^ 63)] true [] [].
Definition nz_aval : S.aval := S.AMsg [S.FOne (S.AFloat (2 ^ 63))].

Theorem neg_zero_refuted_thm :
  scalar_in_range TDouble (PFloat (2 ^ 63)) = true /\
  J.to_dict J.CAMEL false nz_sc nz_obj = J.JObj [] /\
  S.json_spec nz_js 0 nz_aval = Some (S.JObj [(nz_name, S.JFloat (2 ^ 63))]) /\
  model_emit_accepts nz_sc nz_js 0 nz_obj = Some (S.AMsg [S.FOne (S.AFloat 0)]) /\
  S.AMsg [S.FOne (S.AFloat 0)] <> nz_aval.
Proof. repeat split; try (vm_compute; reflexivity). intros E. inversion E. Qed.
