(* C16, float clause: the one place where betterproto's bytes differ from the reference's for an in-range
   value - a singular double/float field holding -0.0 is skipped by Message.dump because -0.0 == 0.0 (the
   field default), although its bit pattern is not the default's.  Known finding K14. *)
From BP Require Import Base.Prelude Model.Types Model.Float Model.Object Model.Eq Model.Encode Model.WellFormed.

Definition negzero_schema : schema :=
  mkS (builtin_classes ++ [mkC [mkF [x66] 1 TDouble None None None false (HPlain PyFloat) 0] 0]) [].
Definition negzero_obj : obj := Obj 11 [PFloat (2 ^ 63)] true [] [].

Lemma neg_zero_skipped :
  exists sc o b,
    wf_schema sc = true /\ in_range sc o = true /\ oraw o = [PFloat b] /\
    b <> 0 /\                                     (* not the bit pattern of the default +0.0 *)
    pack_value TDouble (PFloat b) = Ok [x00; x00; x00; x00; x00; x00; x00; x80] /\   (* what the reference puts on the wire after the tag *)
    enc_obj sc o = Ok [].                         (* betterproto emits nothing *)
Proof.
  exists negzero_schema, negzero_obj, (2 ^ 63).
  repeat split; try (vm_compute; reflexivity). vm_compute. discriminate.
Qed.
