(* C05, key names: betterproto's JSON key for a field whose .proto name is [name]
     camel_key (safe_snake_case name)      (plugin: pythonize_field_name; to_dict: camel_case(field).rstrip("_"))
   against protoc's json_name (Spec/JsonMap.v protoc_json_name).
   Uses the finished C19 lemmas of Proofs/CasingP.v, CasingP2.v (words of safe_snake_case). *)
From BP Require Import Base.Prelude Model.Casing Spec.JsonMap.
From BP Require Import Proofs.CasingP Proofs.CasingP2.

(* ---------------------------------------------------------------- the decidable side condition *)
Definition lower_snake_char (b : byte) : bool := is_lower_b b || is_digit_b b || is_us b.
Definition lower_snake (s : list byte) : bool := forallb lower_snake_char s.
(* no digit directly followed by a letter (betterproto starts a new word there: a1b -> a1B) *)
Fixpoint no_digit_letter (s : list byte) : bool :=
  match s with
  | a :: r => match r with
              | b :: _ => negb (is_digit_b a && is_lower_b b)
              | [] => true
              end && no_digit_letter r
  | [] => true
  end.
(* leading underscores are not followed by a letter (protoc capitalises it: _foo -> Foo) *)
Definition head_not_lower (s : list byte) : bool :=
  match s with c :: _ => negb (is_lower_b c) | [] => true end.
Definition no_leading_us_letter (s : list byte) : bool :=
  match s with
  | c :: _ => if is_us c then head_not_lower (lstrip_us s) else true
  | [] => true
  end.
Definition json_name_safe (s : list byte) : bool :=
  lower_snake s && no_digit_letter s && no_leading_us_letter s.

Definition bp_json_key (name : list byte) : list byte := camel_key (safe_snake_case name).

(* ---------------------------------------------------------------- character facts (256 cases each) *)
Lemma ascii_upper_to_upper c : ascii_upper c = to_upper c.
Proof. destruct c; reflexivity. Qed.
Lemma is_us_b_is_us c : is_us_b c = is_us c.
Proof. destruct c; reflexivity. Qed.
Lemma lsc_cases c : lower_snake_char c = true ->
  (classify c = Lower /\ is_us c = false) \/ (classify c = Digit /\ is_us c = false) \/ c = us.
Proof. destruct c; cbn; intros H; try discriminate H; auto. Qed.
Lemma lower_is c : classify c = Lower -> is_lower_b c = true /\ is_digit_b c = false.
Proof. unfold is_lower_b, is_digit_b. intros ->. auto. Qed.
Lemma digit_is c : classify c = Digit -> is_lower_b c = false /\ is_digit_b c = true.
Proof. unfold is_lower_b, is_digit_b. intros ->. auto. Qed.
Lemma to_upper_digit' c : classify c = Digit -> to_upper c = c.
Proof. destruct c; cbn; intros H; try discriminate H; reflexivity. Qed.
Lemma to_lower_low c : classify c = Lower -> to_lower c = c.
Proof. destruct c; cbn; intros H; try discriminate H; reflexivity. Qed.
Lemma to_lower_digit c : classify c = Digit -> to_lower c = c.
Proof. destruct c; cbn; intros H; try discriminate H; reflexivity. Qed.
Lemma to_lower_upper_low c : classify c = Lower -> to_lower (to_upper c) = c.
Proof. destruct c; cbn; intros H; try discriminate H; reflexivity. Qed.

Definition capcat (ws : list (list byte)) : list byte := concat (map capitalize ws).

Lemma capitalize_snoc w c : w <> [] -> capitalize (w ++ [c]) = capitalize w ++ [to_lower c].
Proof. destruct w as [|a r]; [intros N; contradiction N; reflexivity|]. intros _. cbn [app capitalize]. unfold lower. rewrite map_app. reflexivity. Qed.

(* ---------------------------------------------------------------- scanner state <-> protoc's capitalize_next flag *)
(* what the words still to come contribute, given the scanner state *)
Definition next_not_lower (s : list byte) : Prop := head_not_lower s = true.

Lemma scan_json : forall s st0,
  lower_snake s = true -> no_digit_letter s = true ->
  match st0 with
  | S0 => capcat (scan S0 s) = to_json_name true s
  | SL w => w <> [] -> capcat (scan (SL w) s) = capitalize w ++ to_json_name false s
  | SD w => w <> [] -> next_not_lower s -> capcat (scan (SD w) s) = capitalize w ++ to_json_name false s
  | SU _ _ => True
  end.
Proof.
  induction s as [|c r IH]; intros st0 Hls Hnd.
  - destruct st0; cbn [scan flush capcat map concat to_json_name]; intros; rewrite ?app_nil_r; auto.
  - cbn [lower_snake forallb] in Hls. apply andb_true_iff in Hls. destruct Hls as [Hc Hr].
    assert (Hnd' : no_digit_letter r = true).
    { cbn [no_digit_letter] in Hnd. apply andb_true_iff in Hnd. apply Hnd. }
    assert (Hadj : is_digit_b c = true -> next_not_lower r).
    { intros Hd. cbn [no_digit_letter] in Hnd. apply andb_true_iff in Hnd. destruct Hnd as [Hn _].
      unfold next_not_lower, head_not_lower. destruct r as [|b r']; [reflexivity|].
      rewrite Hd in Hn. cbn [andb] in Hn. exact Hn. }
    pose proof (IH S0 Hr Hnd') as I0. cbn beta iota in I0.
    destruct (lsc_cases c Hc) as [[Hcl Hnu]|[[Hcd Hnu]| -> ]].
    + (* a lower-case letter *)
      destruct (lower_is c Hcl) as [Hl _].
      destruct st0 as [|pre u|w|w]; [| exact I | |].
      * cbn [scan step]. rewrite Hcl. cbn [app]. cbn [to_json_name]. rewrite is_us_b_is_us, Hnu.
        pose proof (IH (SL [c]) Hr Hnd') as I. cbn beta iota in I. rewrite I by discriminate.
        cbn [capitalize lower map app]. rewrite ascii_upper_to_upper. reflexivity.
      * intros Hw. cbn [scan step]. rewrite Hcl. cbn [app]. cbn [to_json_name]. rewrite is_us_b_is_us, Hnu.
        pose proof (IH (SL (w ++ [c])) Hr Hnd') as I. cbn beta iota in I.
        rewrite I by (destruct w; discriminate). rewrite capitalize_snoc by exact Hw.
        rewrite to_lower_low by exact Hcl. rewrite <- app_assoc. reflexivity.
      * intros _ Hn. unfold next_not_lower, head_not_lower in Hn. rewrite Hl in Hn. discriminate Hn.
    + (* a digit *)
      destruct (digit_is c Hcd) as [_ Hd].
      destruct st0 as [|pre u|w|w]; [| exact I | |].
      * cbn [scan step]. rewrite Hcd. cbn [app]. cbn [to_json_name]. rewrite is_us_b_is_us, Hnu.
        pose proof (IH (SD [c]) Hr Hnd') as I. cbn beta iota in I. rewrite I by (try discriminate; auto).
        cbn [capitalize lower map app]. rewrite ascii_upper_to_upper. reflexivity.
      * intros Hw. cbn [scan step]. rewrite Hcd. cbn [app]. cbn [to_json_name]. rewrite is_us_b_is_us, Hnu.
        pose proof (IH (SD (w ++ [c])) Hr Hnd') as I. cbn beta iota in I.
        rewrite I by (try (destruct w; discriminate); auto). rewrite capitalize_snoc by exact Hw.
        rewrite to_lower_digit by exact Hcd. rewrite <- app_assoc. reflexivity.
      * intros Hw _. cbn [scan step]. rewrite Hcd. cbn [app]. cbn [to_json_name]. rewrite is_us_b_is_us, Hnu.
        pose proof (IH (SD (w ++ [c])) Hr Hnd') as I. cbn beta iota in I.
        rewrite I by (try (destruct w; discriminate); auto). rewrite capitalize_snoc by exact Hw.
        rewrite to_lower_digit by exact Hcd. rewrite <- app_assoc. reflexivity.
    + (* an underscore *)
      destruct st0 as [|pre u|w|w]; [| exact I | |].
      * cbn [scan step]. rewrite classify_us. cbn [app]. cbn [to_json_name]. rewrite is_us_b_is_us. cbn [is_us us]. exact I0.
      * intros _. cbn [scan step]. rewrite classify_us. cbn [app capcat map concat]. cbn [to_json_name].
        rewrite is_us_b_is_us. cbn [is_us us]. fold (capcat (scan S0 r)). rewrite I0. reflexivity.
      * intros _ _. cbn [scan step]. rewrite classify_us. cbn [app capcat map concat]. cbn [to_json_name].
        rewrite is_us_b_is_us. cbn [is_us us]. fold (capcat (scan S0 r)). rewrite I0. reflexivity.
Qed.

Lemma pascal_json s : lower_snake s = true -> no_digit_letter s = true ->
  capcat (words s) = to_json_name true s.
Proof. intros H1 H2. exact (scan_json s S0 H1 H2). Qed.

(* lower-casing the first character turns "armed" into "not armed", unless protoc armed it itself *)
Lemma lcfirst_armed_us r : lower_snake r = true -> head_not_lower (lstrip_us r) = true ->
  lowercase_first (to_json_name true r) = to_json_name true r.
Proof.
  induction r as [|c r IH]; intros Hls Hh; [reflexivity|].
  cbn [lower_snake forallb] in Hls. apply andb_true_iff in Hls. destruct Hls as [Hc Hr].
  cbn [to_json_name]. rewrite is_us_b_is_us. cbn [lstrip_us] in Hh.
  destruct (is_us c) eqn:U.
  - apply IH; assumption.
  - cbn [head_not_lower] in Hh. destruct (lsc_cases c Hc) as [[Hcl _]|[[Hcd _]| -> ]].
    + destruct (lower_is c Hcl) as [Hl _]. rewrite Hl in Hh. discriminate Hh.
    + cbn [lowercase_first]. rewrite ascii_upper_to_upper, to_upper_digit' by exact Hcd.
      rewrite to_lower_digit by exact Hcd. reflexivity.
    + discriminate U.
Qed.

Lemma lcfirst_json s : lower_snake s = true -> no_leading_us_letter s = true ->
  lowercase_first (to_json_name true s) = to_json_name false s.
Proof.
  destruct s as [|c r]; [reflexivity|]. intros Hls Hh.
  pose proof Hls as Hls'. cbn [lower_snake forallb] in Hls. apply andb_true_iff in Hls. destruct Hls as [Hc Hr].
  unfold no_leading_us_letter in Hh. cbn [to_json_name]. rewrite is_us_b_is_us.
  destruct (is_us c) eqn:U.
  - cbn [lstrip_us] in Hh. rewrite U in Hh. apply lcfirst_armed_us; assumption.
  - cbn [lowercase_first]. rewrite ascii_upper_to_upper.
    destruct (lsc_cases c Hc) as [[Hcl _]|[[Hcd _]| -> ]].
    + rewrite to_lower_upper_low by exact Hcl. reflexivity.
    + rewrite to_upper_digit', to_lower_digit by exact Hcd. reflexivity.
    + discriminate U.
Qed.

(* protoc's json_name never contains an underscore *)
Lemma is_us_ascii_upper c : is_us (ascii_upper c) = is_us c.
Proof. destruct c; reflexivity. Qed.
Lemma json_name_no_us s : forall cap, forallb (fun c => negb (is_us c)) (to_json_name cap s) = true.
Proof.
  induction s as [|c r IH]; intros cap; [reflexivity|]. cbn [to_json_name]. rewrite is_us_b_is_us.
  destruct (is_us c) eqn:U; [apply IH|]. cbn [forallb]. rewrite IH, andb_true_r.
  destruct cap; [rewrite is_us_ascii_upper|]; rewrite U; reflexivity.
Qed.

Lemma bp_json_key_words s : bp_json_key s = rstrip_us (lowercase_first (capcat (words s))).
Proof.
  unfold bp_json_key, camel_key, camel_case, pascal_case. rewrite words_safe_snake.
  unfold capcat. rewrite map_map. f_equal. f_equal. f_equal. apply map_ext. intros; apply capitalize_lower.
Qed.

(* ---------------------------------------------------------------- the theorem *)
Theorem protoc_json_name_agrees_thm name :
  json_name_safe name = true -> bp_json_key name = protoc_json_name name.
Proof.
  unfold json_name_safe. rewrite !andb_true_iff. intros [[H1 H2] H3].
  rewrite bp_json_key_words, pascal_json, lcfirst_json by assumption.
  apply rstrip_us_no_us, json_name_no_us.
Qed.

(* ---------------------------------------------------------------- where they differ *)
Definition n_HTTPStatus : list byte := [x48; x54; x54; x50; x53; x74; x61; x74; x75; x73].
Definition n_fooBAR : list byte := [x66; x6f; x6f; x42; x41; x52].
Definition n_a1b : list byte := [x61; x31; x62].
Definition n__foo : list byte := [x5f; x66; x6f; x6f].
Definition n_FooBar : list byte := [x46; x6f; x6f; x42; x61; x72].

Definition differs (name : list byte) : bool := negb (str_eqb (bp_json_key name) (protoc_json_name name)).

Lemma differs_sound name : differs name = true -> bp_json_key name <> protoc_json_name name.
Proof.
  unfold differs. intros H E. rewrite E, str_eqb_refl in H. discriminate H.
Qed.

(* upper-case runs / a capital first letter (K3 of the design) *)
Theorem json_name_mixed_case_refuted_thm :
  proto_ident n_HTTPStatus = true /\ bp_json_key n_HTTPStatus <> protoc_json_name n_HTTPStatus /\
  proto_ident n_fooBAR = true /\ bp_json_key n_fooBAR <> protoc_json_name n_fooBAR /\
  proto_ident n_FooBar = true /\ bp_json_key n_FooBar <> protoc_json_name n_FooBar.
Proof. repeat split; try reflexivity; apply differs_sound; vm_compute; reflexivity. Qed.

(* lower_snake names outside the side condition: each conjunct of json_name_safe is needed *)
Theorem json_name_lower_snake_refuted_thm :
  (lower_snake n_a1b = true /\ no_leading_us_letter n_a1b = true /\ bp_json_key n_a1b <> protoc_json_name n_a1b) /\
  (lower_snake n__foo = true /\ no_digit_letter n__foo = true /\ bp_json_key n__foo <> protoc_json_name n__foo).
Proof. repeat split; try reflexivity; apply differs_sound; vm_compute; reflexivity. Qed.

(* the side condition is exact on lower_snake names: checked for every string of length <= 6 over {a, b, 1, _} *)
Fixpoint all_strings (alphabet : list byte) (n : nat) (s : list byte) (p : list byte -> bool) : bool :=
  p s && match n with
         | O => true
         | S n' => forallb (fun c => all_strings alphabet n' (s ++ [c]) p) alphabet
         end.
Definition safe_exact (s : list byte) : bool := Bool.eqb (json_name_safe s) (negb (differs s)).
Lemma json_name_safe_exact_len6 : all_strings [x61; x62; x31; x5f] 6 [] safe_exact = true.
Proof. vm_compute. reflexivity. Qed.

(* non-vacuity *)
Definition n_foo_bar_2 : list byte := [x66; x6f; x6f; x5f; x62; x61; x72; x5f; x32].      (* foo_bar_2 *)
Example json_name_safe_ex : json_name_safe n_foo_bar_2 = true /\
  bp_json_key n_foo_bar_2 = [x66; x6f; x6f; x42; x61; x72; x32].                            (* fooBar2 *)
Proof. split; vm_compute; reflexivity. Qed.
