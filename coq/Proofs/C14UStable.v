(* CLONE of Proofs/C01Stable.v with norm_obj replaced by normu_obj (Model/C14UDef.v: every message keeps its unknown
   bytes) and Good by GoodU. *)
(* C01 — stability: the decoded message re-encodes to the very same bytes,
   enc_obj (normu_obj m) = enc_obj m, by induction on the value (no decoder involved). *)
From Coq Require Import ZArith List Bool Lia ZifyBool.
From BP Require Import Base.Prelude Model.Types Model.Varint Model.Scalar Model.Float Model.Utf8.
From BP Require Import Model.Object Model.Eq Model.TimeCore Model.Encode Model.Decode Model.WellFormed Model.C01Def Model.C14UDef.
From BP Require Import Proofs.C14UUnfold.
From BP Require Import gen.Tables Proofs.BytesP Proofs.LenP Proofs.C01Scalar Proofs.C01Frame Proofs.C01Step Proofs.C01Apply
     Proofs.C01Elem Proofs.C01Field Proofs.C01Builtin Proofs.C01Unfold Proofs.C14UValue Proofs.C14USlot Proofs.C14USlot2
     Proofs.C14UDict Proofs.C14UMsg Proofs.C14UMain.

(* enc_slot / norm_slot of a singular value, without side conditions *)
Definition forced_of (cur : list (option nat)) (i : nat) (f : fdesc) (x : pv) : bool :=
  is_some (fgroup f) || fopt f || (match group_selects cur f i with Some true => true | _ => false end) ||
  (match x with PMsg o => osow o | _ => false end).

Lemma enc_slot_sing sc cur i f x :
  is_singular x = true -> group_selects cur f i <> Some false ->
  enc_slot sc cur i f x =
  if is_default sc f x && negb (forced_of cur i f x) then Ok []
  else serialize_with (msg_bytes (enc_obj sc)) (fnum f) (fty f) x (forced_of cur i f x) (fwraps f).
Proof.
  intros Hx Hsel. unfold forced_of.
  pose proof (group_selects_shape cur f i) as Hsh.
  unfold enc_slot. destruct (group_selects cur f i) as [[|]|] eqn:Es; [| congruence |].
  - destruct Hsh as (g & Hg & _). rewrite Hg. cbn [is_some orb negb].
    destruct x; try discriminate Hx; unfold emit_field; rewrite Hg; cbn [is_some orb negb];
      rewrite ?andb_false_r, ?orb_true_r; reflexivity.
  - rewrite Hsh. cbn [is_some orb].
    destruct x; try discriminate Hx; unfold emit_field; rewrite Hsh; cbn [is_some orb];
      rewrite ?orb_false_r; try reflexivity.
    + destruct utf8; rewrite ?orb_false_r; reflexivity.
    + rewrite (orb_comm (osow o)). reflexivity.
Qed.

Lemma norm_slot_sing sc cur i f x :
  is_singular x = true -> group_selects cur f i <> Some false ->
  norm_slot sc (normu_obj sc) f (group_selects cur f i) x =
  (if is_default sc f x && negb (forced_of cur i f x) then fresh_of f
   else match fwraps f with Some w => norm_wrapped sc w x | None => norm_elem (normu_obj sc) (fty f) x end).
Proof.
  intros Hx Hsel. unfold norm_slot, forced_of, fresh_of.
  destruct (group_selects cur f i) as [[|]|]; [| congruence |]; destruct x; try discriminate Hx; reflexivity.
Qed.

Lemma preprocess_norm_scalar msg t w v :
  scalar_in_range t v = true -> preprocess_with msg t w (norm_scalar t v) = preprocess_with msg t w v.
Proof.
  intros Hr. destruct t; try reflexivity. destruct v; try reflexivity.
  destruct (f32_facts bits Hr) as (w0 & E & _ & Hn & Es & _).
  cbn [norm_scalar]. unfold preprocess_with. cbn [tmem existsb ptype_eqb ptype_tag Z.eqb orb FIXED_TYPES].
  unfold pack_value. cbn [pack_fmt]. rewrite Hn, Es, E. reflexivity.
Qed.

(* the induction hypothesis for the nested messages of one slot, for any predicate *)
Lemma subP_forall (P : obj -> Prop) x : (forall o, P o) -> subP P x.
Proof.
  intros H. destruct x; cbn; auto; apply Forall_forall; intros y _;
    [destruct y; cbn; auto | destruct y as [k z]; destruct z; cbn; auto].
Qed.

Lemma sub_lift sc (Q : obj -> Prop) f x :
  slot_in_range sc f x = true -> deep (local_ok sc) x = true ->
  subP (fun o => value_ok sc o -> Q o) x -> subP Q x.
Proof.
  intros Hr Hd HP. destruct x as [| |z|b|bits|s|b|us|us|l|d|o]; try exact I.
  - cbn [subP] in *. unfold slot_in_range in Hr.
    destruct (fhint f) as [p|p|p|pk pv'] eqn:Hh; rewrite ?elem_in_range_list in Hr; try discriminate Hr.
    apply all_fix_forall in Hr. rewrite deep_plist in Hd.
    induction l as [|y l IH]; [constructor|].
    inversion Hr as [|? ? Hy Hr']; subst. inversion HP as [|? ? Py HP']; subst.
    rewrite deep_list_cons in Hd. apply andb_true_iff in Hd as [Hd1 Hd2].
    constructor; [|apply IH; assumption].
    destruct y; try exact I. cbn [elemP] in *. apply Py. split; [eapply elem_in_range_obj; eauto | exact Hd1].
  - cbn [subP] in *. unfold slot_in_range in Hr.
    destruct (fhint f) as [p|p|p|pk pv'] eqn:Hh; rewrite ?elem_in_range_dict in Hr; try discriminate Hr.
    destruct (fmap f) as [[kt vt]|]; [|discriminate Hr].
    apply (dict_fix_forall (fun k y => scalar_in_range kt k && elem_in_range sc vt pv' y)) in Hr.
    rewrite deep_pdict in Hd.
    induction d as [|[k y] d IH]; [constructor|].
    inversion Hr as [|? ? Hy Hr']; subst. inversion HP as [|? ? Py HP']; subst.
    cbn [deep_dict] in Hd. apply andb_true_iff in Hd as [Hd1 Hd2]. cbn [fst snd] in *.
    apply andb_true_iff in Hy as [_ Hy].
    constructor; [|apply IH; assumption]. cbn [snd].
    destruct y; try exact I. cbn [elemP] in *. apply Py. split; [eapply elem_in_range_obj; eauto | exact Hd1].
  - cbn [subP] in *. apply HP. split; [|exact Hd].
    unfold slot_in_range in Hr. destruct (fhint f) as [p|p|p|pk pv'] eqn:Hh; try discriminate Hr;
      eapply elem_in_range_obj; eauto.
Qed.

(* per-index facts of a value_ok object *)
Lemma value_ok_slots sc (Q : obj -> Prop) c raw sow unk cur :
  value_ok sc (Obj c raw sow unk cur) ->
  Forall (subP (fun o => value_ok sc o -> Q o)) raw ->
  Forall (subP Q) raw.
Proof.
  intros (Hr & Hd) HP. rewrite in_range_unfold in Hr. rewrite deep_msg in Hd.
  apply andb_true_iff in Hr as [Hr Hsl]. apply andb_true_iff in Hr as [Hr _]. apply andb_true_iff in Hr as [_ Hlen].
  apply andb_true_iff in Hd as [_ Hdl]. apply Nat.eqb_eq in Hlen.
  apply Forall_forall. intros x Hx. apply In_nth_error in Hx as (k & Hk).
  destruct (nth_error (cfields (get_class sc c)) k) as [f|] eqn:Hf.
  - apply (sub_lift sc Q f x).
    + eapply slots_in_range_nth; eauto.
    + eapply deep_list_nth; eauto.
    + eapply Forall_nth_error; eauto.
  - exfalso. apply nth_error_None in Hf. assert (k < length raw)%nat by (apply nth_error_Some; congruence). lia.
Qed.

Section Stable.
  Variable sc : schema.
  Hypothesis Hsc : c01_schema_ok sc = true.
  Let msgf := msg_bytes (enc_obj sc).

  Definition Stable (o : obj) : Prop := enc_obj sc (normu_obj sc o) = enc_obj sc o.

  Lemma preprocess_norm_elem t p v :
    elem_in_range sc t p v = true -> elemP Stable v ->
    preprocess_with msgf t None (norm_elem (normu_obj sc) t v) = preprocess_with msgf t None v.
  Proof.
    intros Hr HS. destruct v as [| |z|b|bits|s|b|us|us|l|d|o].
    all: try (cbn [norm_elem norm_scalar]; destruct t; reflexivity).
    - cbn [norm_elem]. apply preprocess_norm_scalar.
      destruct p; try discriminate Hr; try exact Hr; destruct t; discriminate Hr.
    - cbn [norm_elem elemP] in *. unfold preprocess_with.
      destruct (tmem t [TEnum; TBool; TInt32; TInt64; TUInt32; TUInt64]); [reflexivity|].
      destruct (tmem t [TSInt32; TSInt64]); [reflexivity|].
      destruct (tmem t FIXED_TYPES). { unfold pack_value. destruct (pack_fmt t) as [[]|]; reflexivity. }
      destruct (ptype_eqb t TString); [reflexivity|].
      destruct (ptype_eqb t TMessage); [|reflexivity].
      unfold msgf, msg_bytes. exact HS.
  Qed.

  Lemma serialize_norm_elem num t p v se :
    elem_in_range sc t p v = true -> elemP Stable v ->
    serialize_with msgf num t (norm_elem (normu_obj sc) t v) se None = serialize_with msgf num t v se None.
  Proof. intros Hr HS. unfold serialize_with. rewrite (preprocess_norm_elem t p v Hr HS). reflexivity. Qed.

  Lemma concat_map_map_ext {A} (F : A -> result (list byte)) (g : A -> A) l :
    (forall x, In x l -> F (g x) = F x) -> concat_map F (map g l) = concat_map F l.
  Proof.
    induction l as [|x l IH]; intros H; [reflexivity|]. cbn [map]. rewrite !concat_map_cons.
    rewrite (H x (or_introl eq_refl)), IH by (intros y Hy; apply H; right; exact Hy). reflexivity.
  Qed.

  (* ---- a fresh object encodes to nothing ---- *)
  Lemma group_selects_none_cur n f i : group_selects (repeat None n) f i <> Some true.
  Proof.
    unfold group_selects. destruct (fgroup f) as [g|]; [|discriminate].
    assert (nth g (repeat (@None nat) n) None = None).
    { revert g; induction n as [|n IH]; intros [|g]; cbn; auto. }
    rewrite H. discriminate.
  Qed.

  Lemma enc_fresh_slot c cur i f :
    wf_field sc (cngroups (get_class sc c)) f = true -> group_selects cur f i <> Some true ->
    enc_slot sc cur i f (fresh_of f) = Ok [].
  Proof.
    intros Hwf Hs. destruct (group_selects cur f i) as [[|]|] eqn:Es; [congruence | unfold enc_slot; rewrite Es; reflexivity |].
    unfold fresh_of. destruct (fopt f).
    - unfold enc_slot. rewrite Es. reflexivity.
    - apply (enc_placeholder_unselected sc c cur i f Hwf []); [|exact Es].
      intros g _ k f' _ _ _. destruct k; reflexivity.
  Qed.

  Lemma enc_fresh_slots c cur : forall fs i,
    forallb (wf_field sc (cngroups (get_class sc c))) fs = true ->
    (forall f k, group_selects cur f k <> Some true) ->
    enc_slots sc cur i (map fresh_of fs) fs = Ok [].
  Proof.
    induction fs as [|f fs IH]; intros i Hwf Hs; [reflexivity|].
    cbn [forallb] in Hwf. apply andb_true_iff in Hwf as [Hw1 Hw2]. cbn [map]. rewrite enc_slots_cons.
    rewrite (enc_fresh_slot c cur i f Hw1 (Hs f i)). cbn [bind]. rewrite IH by assumption. reflexivity.
  Qed.

  Lemma enc_new c sow : enc_obj sc (let 'Obj c' r _ u g := new sc c in Obj c' r sow u g) = Ok [].
  Proof.
    rewrite new_unfold. rewrite enc_obj_unfold.
    destruct (schema_class_facts sc c Hsc) as (Hwf & _).
    change (map (fun f => if fopt f then PNone else PPlaceholder) (cfields (get_class sc c)))
      with (map fresh_of (cfields (get_class sc c))).
    rewrite (enc_fresh_slots c _ _ 0 Hwf) by (intros f k; apply group_selects_none_cur). reflexivity.
  Qed.

  Lemma enc_new_plain c : enc_obj sc (new sc c) = Ok [].
  Proof. pose proof (enc_new c false) as H. rewrite new_unfold in *. exact H. Qed.

  Lemma enc_new_raised c : enc_obj sc (raise_sow (new sc c)) = Ok [].
  Proof. pose proof (enc_new c true) as H. rewrite new_unfold in *. exact H. Qed.

  Lemma osow_norm o : osow (normu_obj sc o) = true.
  Proof. destruct o. reflexivity. Qed.

  Lemma f64_nan_not_zero b : f64_is_nan b = true -> f64_is_zero b = false.
  Proof.
    intros H. destruct (C01Float.nan_fields b H) as (He & _). unfold f64_is_zero. apply Z.eqb_neq. intros Hz.
    unfold f64_exp in He. change 2047 with (2 ^ 11 - 1) in He at 1.
    rewrite C01Float.land_mask, C01Float.shr in He by lia. rewrite C01Float.land_mask in Hz by lia.
    change (2 ^ 63) with 9223372036854775808 in Hz. change (2 ^ 52) with 4503599627370496 in He.
    change (2 ^ 11) with 2048 in He. lia.
  Qed.

  Lemma is_default_norm_scalar sc' f t x :
    scalar_in_range t x = true -> is_default sc' f (norm_scalar t x) = is_default sc' f x.
  Proof.
    intros Hr. destruct t; try reflexivity. destruct x; try reflexivity.
    destruct (f32_facts bits Hr) as (w & E & Hw & Hn & Es & Hcase). cbn [norm_scalar]. rewrite Hn.
    destruct Hcase as [-> | [N1 N2]]; [reflexivity|].
    cbn [is_default]. destruct (fhint f) as [p|p|p|pk pv']; try reflexivity. destruct p; try reflexivity.
    rewrite (f64_nan_not_zero bits N1), (f64_nan_not_zero _ N2). reflexivity.
  Qed.

  Lemma forced_selected cur i f x : group_selects cur f i = Some true -> forced_of cur i f x = true.
  Proof. intros H. unfold forced_of. rewrite H. destruct (is_some (fgroup f)), (fopt f); reflexivity. Qed.

  Lemma singular_norm_elem t x : is_singular x = true -> is_singular (norm_elem (normu_obj sc) t x) = true.
  Proof. destruct x; try discriminate; intros _; try reflexivity; destruct t; reflexivity. Qed.

  Section SlotStable.
    Variables (c : nat) (cur : list (option nat)) (i : nat) (f : fdesc).
    Hypothesis Hwf : wf_field sc (cngroups (get_class sc c)) f = true.
    Let sel := group_selects cur f i.
    Let nc := length (classes sc).
    Let ne := length (enums sc).

    (* a singular slot without wrapper *)
    Lemma stable_plain_slot x p :
      fwraps f = None -> is_singular x = true -> elem_in_range sc (fty f) p x = true ->
      elemP (GoodU sc) x -> elemP Stable x -> sel <> Some false ->
      (forall o, x = PMsg o -> enc_obj sc o = Ok [] -> forced_of cur i f x = false -> is_default sc f x = true) ->
      enc_slot sc cur i f (norm_slot sc (normu_obj sc) f sel x) = enc_slot sc cur i f x.
    Proof.
      intros Hfw Hx Hr HG HS Hsel Hemp.
      unfold sel. rewrite (norm_slot_sing sc cur i f x Hx Hsel), (enc_slot_sing sc cur i f x Hx Hsel).
      destruct (is_default sc f x && negb (forced_of cur i f x)) eqn:Hd.
      { apply (enc_fresh_slot c); [exact Hwf|]. intros Hs. rewrite (forced_selected cur i f x Hs) in Hd.
        rewrite andb_false_r in Hd. discriminate. }
      rewrite Hfw.
      rewrite (enc_slot_sing sc cur i f _ (singular_norm_elem (fty f) x Hx) Hsel). rewrite ?Hfw.
      destruct x as [| |z|b|bits|s|b|us|us|l|d|o]; try discriminate Hx.
      all: cbn [norm_elem].
      - replace (norm_scalar (fty f) (PInt z)) with (PInt z) by (destruct (fty f); reflexivity). rewrite Hd. reflexivity.
      - replace (norm_scalar (fty f) (PBool b)) with (PBool b) by (destruct (fty f); reflexivity). rewrite Hd. reflexivity.
      - (* float *)
        assert (Hsr : scalar_in_range (fty f) (PFloat bits) = true)
          by (destruct p; try discriminate Hr; try exact Hr; destruct (fty f); discriminate Hr).
        rewrite (is_default_norm_scalar sc f (fty f) (PFloat bits) Hsr).
        assert (Hfo : forced_of cur i f (norm_scalar (fty f) (PFloat bits)) = forced_of cur i f (PFloat bits))
          by (destruct (fty f); reflexivity).
        rewrite Hfo, Hd. unfold serialize_with. fold msgf. rewrite (preprocess_norm_scalar msgf (fty f) None (PFloat bits) Hsr). reflexivity.
      - replace (norm_scalar (fty f) (PStr s)) with (PStr s) by (destruct (fty f); reflexivity). rewrite Hd. reflexivity.
      - replace (norm_scalar (fty f) (PBytes b)) with (PBytes b) by (destruct (fty f); reflexivity). rewrite Hd. reflexivity.
      - replace (norm_scalar (fty f) (PDatetime us)) with (PDatetime us) by (destruct (fty f); reflexivity). rewrite Hd. reflexivity.
      - replace (norm_scalar (fty f) (PTimedelta us)) with (PTimedelta us) by (destruct (fty f); reflexivity). rewrite Hd. reflexivity.
      - (* sub-message: the decoded one always has its flag up *)
        assert (Hf1 : forced_of cur i f (PMsg (normu_obj sc o)) = true).
        { unfold forced_of. rewrite osow_norm. rewrite !orb_true_r. reflexivity. }
        rewrite Hf1. rewrite andb_false_r.
        cbn [elemP] in HS, HG. destruct HG as (val & Ev & _).
        unfold serialize_with. fold msgf.
        pose proof (preprocess_norm_elem (fty f) p (PMsg o) Hr HS) as Hpre. cbn [norm_elem] in Hpre. rewrite Hpre.
        destruct (forced_of cur i f (PMsg o)) eqn:Hfo; [reflexivity|].
        (* not forced: it was written because it is not default, hence its encoding is not empty *)
        rewrite andb_true_r in Hd.
        destruct (preprocess_with msgf (fty f) None (PMsg o)) as [value|e] eqn:Ep; [|reflexivity]. cbn [bind].
        assert (Hval : value <> []).
        { intros ->. assert (Ht : fty f = TMessage).
          { destruct p; try (destruct (fty f); destruct o; discriminate Hr); try (destruct o; discriminate Hr).
            destruct (fty f); try reflexivity; unfold preprocess_with in Ep; cbn in Ep; discriminate Ep. }
          rewrite Ht in Ep. unfold preprocess_with in Ep. cbn [tmem existsb ptype_eqb ptype_tag Z.eqb orb FIXED_TYPES] in Ep.
          unfold msgf, msg_bytes in Ep. rewrite (Hemp o eq_refl Ep eq_refl) in Hd. discriminate. }
        destruct (tmem (fty f) WIRE_VARINT_TYPES); [reflexivity|].
        destruct (tmem (fty f) WIRE_FIXED_32_TYPES); [reflexivity|].
        destruct (tmem (fty f) WIRE_FIXED_64_TYPES); [reflexivity|].
        destruct (tmem (fty f) WIRE_LEN_DELIM_TYPES); [|reflexivity].
        rewrite Zlength_zero_iff. destruct value; [congruence|reflexivity].
    Qed.

    (* a wrapper slot *)
    Lemma wrapper_default_default vt : tmem vt wrapper_types = true ->
      is_default (mkS [] []) (wrapper_field vt) (default_of sc (wrapper_field vt)) = true.
    Proof. destruct vt; intros H; try discriminate H; reflexivity. Qed.

    Lemma wrapper_bytes_norm w vt x :
      wrapper_value_type w = Some vt -> scalar_in_range w x = true ->
      wrapper_bytes w (norm_wrapped sc w x) = wrapper_bytes w x.
    Proof.
      intros Hvt Hr. assert (Hw : vt = w /\ tmem vt wrapper_types = true)
        by (destruct w; try discriminate Hvt; injection Hvt as <-; split; reflexivity).
      destruct Hw as (-> & Hwt). unfold wrapper_bytes, norm_wrapped. rewrite Hvt. fold (wrapper_field w).
      destruct (is_default (mkS [] []) (wrapper_field w) x) eqn:E.
      - rewrite (wrapper_default_default w Hwt). reflexivity.
      - rewrite (is_default_norm_scalar (mkS [] []) (wrapper_field w) w x Hr), E.
        unfold serialize_with. rewrite (preprocess_norm_scalar no_msg w None x Hr). reflexivity.
    Qed.

    Lemma preprocess_wrapped w x :
      is_singular x = true -> (forall o, x <> PMsg o) -> (forall us, x <> PDatetime us) -> (forall us, x <> PTimedelta us) ->
      preprocess_with msgf TMessage (Some w) x = wrapper_bytes w x.
    Proof.
      intros Hx H1 H2 H3. unfold preprocess_with. cbn [tmem existsb ptype_eqb ptype_tag Z.eqb orb FIXED_TYPES].
      destruct x; try discriminate Hx; try reflexivity; exfalso; [eapply H2 | eapply H3]; reflexivity.
    Qed.

    Lemma norm_wrapped_shape w vt x :
      wrapper_value_type w = Some vt -> scalar_in_range w x = true ->
      is_singular (norm_wrapped sc w x) = true /\ (forall o, norm_wrapped sc w x <> PMsg o) /\
      (forall us, norm_wrapped sc w x <> PDatetime us) /\ (forall us, norm_wrapped sc w x <> PTimedelta us) /\
      norm_wrapped sc w x <> PNone /\
      is_singular x = true /\ (forall o, x <> PMsg o) /\ (forall us, x <> PDatetime us) /\ (forall us, x <> PTimedelta us).
    Proof.
      intros Hvt Hr. unfold norm_wrapped. rewrite Hvt.
      destruct w; try discriminate Hvt; injection Hvt as <-; destruct x; try discriminate Hr;
        match goal with |- context [if ?b then _ else _] => destruct b end;
        repeat split; try reflexivity; try discriminate.
    Qed.

    Lemma stable_wrapper_slot x w vt p :
      fhint f = HOptional p -> fwraps f = Some w -> wrapper_value_type w = Some vt -> fty f = TMessage ->
      scalar_in_range w x = true -> sel <> Some false ->
      enc_slot sc cur i f (norm_slot sc (normu_obj sc) f sel x) = enc_slot sc cur i f x.
    Proof.
      intros Hh Hfw Hvt Hty Hr Hsel.
      destruct (norm_wrapped_shape w vt x Hvt Hr) as (Hs' & Hm' & Hd' & Ht' & Hn' & Hx & Hm & Hdt & Htd).
      unfold sel. rewrite (norm_slot_sing sc cur i f x Hx Hsel), (enc_slot_sing sc cur i f x Hx Hsel).
      assert (Hnd : forall y, y <> PNone -> is_default sc f y = false).
      { intros y Hy. destruct y; cbn [is_default]; rewrite Hh; try reflexivity. congruence. }
      rewrite (Hnd x) by (destruct x; try discriminate Hx; discriminate). cbn [andb]. rewrite Hfw.
      rewrite (enc_slot_sing sc cur i f _ Hs' Hsel). rewrite (Hnd _ Hn'). cbn [andb]. rewrite Hfw, Hty.
      assert (Hfo : forced_of cur i f (norm_wrapped sc w x) = forced_of cur i f x).
      { unfold forced_of. destruct x; try discriminate Hx; try (exfalso; eapply Hm; reflexivity);
          destruct (norm_wrapped sc w _) eqn:En; try reflexivity; exfalso; eapply Hm'; reflexivity. }
      rewrite Hfo. unfold serialize_with. fold msgf.
      rewrite (preprocess_wrapped w _ Hs' Hm' Hd' Ht'), (preprocess_wrapped w x Hx Hm Hdt Htd).
      rewrite (wrapper_bytes_norm w vt x Hvt Hr). reflexivity.
    Qed.

    (* the selected oneof member that still held PLACEHOLDER *)
    Lemma stable_placeholder_selected p :
      sel = Some true -> fhint f = HPlain p ->
      enc_slot sc cur i f (norm_slot sc (normu_obj sc) f sel PPlaceholder) = enc_slot sc cur i f PPlaceholder.
    Proof.
      intros Hs Hh. destruct (wf_plain _ _ _ _ Hwf Hh) as (Hfo & Hfw & _ & Hmap & Hfit).
      pose proof (group_selects_shape cur f i) as Hsh. fold sel in Hsh. rewrite Hs in Hsh. destruct Hsh as (g & Hg & _).
      unfold norm_slot. rewrite Hs. unfold enc_slot. fold sel. rewrite Hs. unfold default_of. rewrite Hh.
      destruct p; try reflexivity.
      (* a sub-message *)
      assert (Ht : fty f = TMessage) by (destruct (fty f); try discriminate Hfit; reflexivity).
      unfold emit_field. rewrite Hg, Hfw, Ht. cbn [is_some orb negb]. rewrite !andb_false_r, !orb_true_r.
      unfold serialize_with, preprocess_with. cbn [tmem existsb ptype_eqb ptype_tag Z.eqb orb FIXED_TYPES].
      unfold msg_bytes. rewrite enc_new_raised. reflexivity.
    Qed.

    (* repeated *)
    Lemma stable_list p l :
      fhint f = HList p -> slot_in_range sc f (PList l) = true -> Forall (elemP Stable) l ->
      enc_slot sc cur i f (norm_slot sc (normu_obj sc) f sel (PList l)) = enc_slot sc cur i f (PList l).
    Proof.
      intros Hh Hr HS. destruct (wf_list _ _ _ _ Hwf Hh) as (Hfo & Hfw & _ & Hg & Hmap & Hfit).
      assert (Hsel : sel = None) by (apply group_none_sel; exact Hg).
      assert (Hin : Forall (fun y => elem_in_range sc (fty f) p y = true) l).
      { unfold slot_in_range in Hr. rewrite Hh in Hr. apply all_fix_forall in Hr. exact Hr. }
      assert (Hemit : forall l0, enc_slot sc cur i f (PList l0) = emit_field (enc_obj sc) sc f None (PList l0))
        by (intros l0; unfold enc_slot; fold sel; rewrite Hsel; reflexivity).
      destruct l as [|y l'].
      { unfold norm_slot. rewrite Hsel. fold (fresh_of f).
        rewrite (enc_fresh_slot c cur i f Hwf) by (fold sel; rewrite Hsel; discriminate).
        rewrite Hemit. unfold emit_field. cbn [is_default]. rewrite Hh, Hg, Hfo. reflexivity. }
      set (l := y :: l') in *.
      assert (Hnorm : norm_slot sc (normu_obj sc) f sel (PList l) = PList (map (norm_elem (normu_obj sc) (fty f)) l))
        by (unfold norm_slot; rewrite Hsel; reflexivity).
      rewrite Hnorm, !Hemit. unfold emit_field. cbn [is_default]. rewrite Hh. unfold l at 1 2. cbn [map andb].
      fold (map (norm_elem (normu_obj sc) (fty f)) l'). change (norm_elem (normu_obj sc) (fty f) y :: map (norm_elem (normu_obj sc) (fty f)) l')
        with (map (norm_elem (normu_obj sc) (fty f)) l). fold l.
      destruct (tmem (fty f) PACKED_TYPES).
      - rewrite (concat_map_map_ext (preprocess_with (msg_bytes (enc_obj sc)) (fty f) None)); [reflexivity|].
        intros x Hx. rewrite Forall_forall in Hin, HS. apply (preprocess_norm_elem (fty f) p x (Hin x Hx) (HS x Hx)).
      - rewrite Hfw. apply concat_map_map_ext.
        intros x Hx. rewrite Forall_forall in Hin, HS.
        fold msgf. rewrite (serialize_norm_elem (fnum f) (fty f) p x true (Hin x Hx) (HS x Hx)). reflexivity.
    Qed.

    (* map *)
    Lemma stable_dict pk pv' d :
      fhint f = HDict pk pv' -> slot_in_range sc f (PDict d) = true ->
      Forall (fun kv => elemP Stable (snd kv)) d ->
      enc_slot sc cur i f (norm_slot sc (normu_obj sc) f sel (PDict d)) = enc_slot sc cur i f (PDict d).
    Proof.
      intros Hh Hr HS. destruct (wf_dict _ _ _ _ _ Hwf Hh) as (Hfo & Hfw & Hg & Hty & kt & vt & Hm & Hk & Hv & Hfk & Hfv & Hec).
      assert (Hsel : sel = None) by (apply group_none_sel; exact Hg).
      assert (Hin : Forall (fun kv => scalar_in_range kt (fst kv) && elem_in_range sc vt pv' (snd kv) = true) d).
      { unfold slot_in_range in Hr. rewrite Hh, Hm in Hr.
        apply (dict_fix_forall (fun k y => scalar_in_range kt k && elem_in_range sc vt pv' y)) in Hr. exact Hr. }
      assert (Hemit : forall d0, enc_slot sc cur i f (PDict d0) = emit_field (enc_obj sc) sc f None (PDict d0))
        by (intros d0; unfold enc_slot; fold sel; rewrite Hsel; reflexivity).
      assert (Hent : forall d, Forall (fun kv => scalar_in_range kt (fst kv) && elem_in_range sc vt pv' (snd kv) = true) d ->
                Forall (fun kv => elemP Stable (snd kv)) d ->
        (fix entries (kvs : list (pv * pv)) : result (list byte) :=
           match kvs with
           | [] => Ok []
           | (k, v') :: r =>
               do sk <- serialize_with (msg_bytes (enc_obj sc)) 1 kt k false None;
               do sv <- serialize_with (msg_bytes (enc_obj sc)) 2 vt v' false None;
               do e <- serialize_with (msg_bytes (enc_obj sc)) (fnum f) (fty f) (PBytes (sk ++ sv)) true None;
               do rest <- entries r; Ok (e ++ rest)
           end) (map (fun kv => (fst kv, norm_map_value sc (normu_obj sc) vt (snd kv))) d)
        = (fix entries (kvs : list (pv * pv)) : result (list byte) :=
           match kvs with
           | [] => Ok []
           | (k, v') :: r =>
               do sk <- serialize_with (msg_bytes (enc_obj sc)) 1 kt k false None;
               do sv <- serialize_with (msg_bytes (enc_obj sc)) 2 vt v' false None;
               do e <- serialize_with (msg_bytes (enc_obj sc)) (fnum f) (fty f) (PBytes (sk ++ sv)) true None;
               do rest <- entries r; Ok (e ++ rest)
           end) d).
      2:{ destruct d as [|kv0 d'].
          { unfold norm_slot. rewrite Hsel. fold (fresh_of f).
            rewrite (enc_fresh_slot c cur i f Hwf) by (fold sel; rewrite Hsel; discriminate).
            rewrite Hemit. unfold emit_field. cbn [is_default]. rewrite Hh, Hg, Hfo. reflexivity. }
          assert (Hnorm : norm_slot sc (normu_obj sc) f sel (PDict (kv0 :: d'))
                          = PDict (map (fun kv => (fst kv, norm_map_value sc (normu_obj sc) vt (snd kv))) (kv0 :: d')))
            by (unfold norm_slot; rewrite Hsel, Hm; reflexivity).
          rewrite Hnorm, !Hemit. unfold emit_field. cbn [is_default]. rewrite Hh. cbn [map andb]. rewrite Hm.
          exact (Hent (kv0 :: d') Hin HS). }
      clear d Hr HS Hin. intros d Hin HS.
      induction d as [|[k y] d IH]; [reflexivity|].
      inversion Hin as [|? ? Hy Hin']; subst. inversion HS as [|? ? Sy HS']; subst. cbn [fst snd] in *.
      apply andb_true_iff in Hy as [Hky Hyy].
      cbn [map fst snd].
      assert (Hsv : serialize_with (msg_bytes (enc_obj sc)) 2 vt (norm_map_value sc (normu_obj sc) vt y) false None
                    = serialize_with (msg_bytes (enc_obj sc)) 2 vt y false None).
      { destruct y as [| |z|b|bits|s|b|us|us|l|dd|o]; cbn [norm_map_value].
        1,2,3,4,6,7,8,9,10,11:
          (match goal with |- context [norm_scalar ?T ?Y] =>
             replace (norm_scalar T Y) with Y by (destruct T; reflexivity) end; reflexivity).
        - unfold serialize_with.
          rewrite (preprocess_norm_scalar (msg_bytes (enc_obj sc)) vt None (PFloat bits)
                     ltac:(destruct pv'; try discriminate Hyy; try exact Hyy; destruct vt; discriminate Hyy)). reflexivity.
        - cbn [norm_map_value elemP] in *.
          assert (Hpre : forall o', enc_obj sc o' = enc_obj sc o ->
                    serialize_with (msg_bytes (enc_obj sc)) 2 vt (PMsg o') false None
                    = serialize_with (msg_bytes (enc_obj sc)) 2 vt (PMsg o) false None).
          { intros o' Ho'. unfold serialize_with, preprocess_with.
            destruct (tmem vt [TEnum; TBool; TInt32; TInt64; TUInt32; TUInt64]); [reflexivity|].
            destruct (tmem vt [TSInt32; TSInt64]); [reflexivity|].
            destruct (tmem vt FIXED_TYPES). { unfold pack_value. destruct (pack_fmt vt) as [[]|]; reflexivity. }
            destruct (ptype_eqb vt TString); [reflexivity|].
            destruct (ptype_eqb vt TMessage); [|reflexivity].
            unfold msg_bytes. rewrite Ho'. reflexivity. }
          destruct (enc_obj sc o) as [[|b0 bs0]|e] eqn:Eo.
          + apply Hpre. rewrite enc_new_plain. reflexivity.
          + apply Hpre. unfold Stable in Sy. rewrite Sy. exact Eo.
          + apply Hpre. unfold Stable in Sy. rewrite Sy. exact Eo. }
      rewrite Hsv. rewrite (IH Hin' HS'). reflexivity.
    Qed.

    (* every singular slot *)
    Lemma stable_singular x p :
      (fhint f = HPlain p \/ fhint f = HOptional p) -> is_singular x = true -> slot_in_range sc f x = true ->
      elemP (GoodU sc) x -> elemP Stable x -> sel <> Some false ->
      enc_slot sc cur i f (norm_slot sc (normu_obj sc) f sel x) = enc_slot sc cur i f x.
    Proof.
      intros [Hh|Hh] Hx Hr HG HS Hne.
      - destruct (wf_plain _ _ _ _ Hwf Hh) as (Hfo & Hfw & _ & _ & Hfit).
        assert (Hr' : elem_in_range sc (fty f) p x = true)
          by (unfold slot_in_range in Hr; rewrite Hh in Hr; destruct x; try discriminate Hx; exact Hr).
        apply (stable_plain_slot x p Hfw Hx Hr' HG HS Hne).
        intros o -> Ho _. apply (elem_empty_default sc f p (PMsg o) Hh Hfit Hr' HG Ho).
      - destruct (wf_optional _ _ _ _ Hwf Hh) as (_ & Hg & [(w & vt & Hfw & Hfo & Hty & Hwc & Hvt & Hfit) | (Hfw & Hfo & Hmap & Hfit)]).
        + assert (Hp : match p with PyMsg _ | PyDatetime | PyTimedelta => False | _ => True end).
          { destruct w; try discriminate Hvt; injection Hvt as <-; destruct p; try discriminate Hfit; exact I. }
          assert (Hr' : scalar_in_range w x = true).
          { unfold slot_in_range in Hr. rewrite Hh, Hfw in Hr.
            rewrite <- (scalar_elem_in_range sc w p x Hp). destruct x; try discriminate Hx; exact Hr. }
          apply (stable_wrapper_slot x w vt p Hh Hfw Hvt Hty Hr' Hne).
        + assert (Hr' : elem_in_range sc (fty f) p x = true)
            by (unfold slot_in_range in Hr; rewrite Hh, Hfw in Hr; destruct x; try discriminate Hx; exact Hr).
          apply (stable_plain_slot x p Hfw Hx Hr' HG HS Hne).
          intros o -> _ Hfa. unfold forced_of in Hfa. rewrite Hfo in Hfa. rewrite orb_true_r in Hfa. cbn in Hfa. discriminate.
    Qed.

    (* every slot *)
    Lemma slot_stable x :
      slot_in_range sc f x = true -> (sel = Some false -> x = PPlaceholder) ->
      subP (GoodU sc) x -> subP Stable x ->
      enc_slot sc cur i f (norm_slot sc (normu_obj sc) f sel x) = enc_slot sc cur i f x.
    Proof.
      intros Hr Hclean HG HS.
      destruct (is_singular x) eqn:Hx.
      { destruct (sel) as [[|]|] eqn:Hsel.
        2:{ unfold enc_slot. fold sel. rewrite Hsel. reflexivity. }
        all: destruct (singular_hint sc f x Hx Hr) as (p & Hp).
        all: assert (HG' : elemP (GoodU sc) x) by (destruct x; try discriminate Hx; try exact I; exact HG).
        all: assert (HS' : elemP Stable x) by (destruct x; try discriminate Hx; try exact I; exact HS).
        all: rewrite <- Hsel; apply (stable_singular x p Hp Hx Hr HG' HS'); rewrite Hsel; discriminate. }
      destruct sel as [[|]|] eqn:Hsel.
      2:{ unfold enc_slot. fold sel. rewrite Hsel. reflexivity. }
      all: destruct x as [| |z|b|bits|s|b|us|us|l|d|o]; try discriminate Hx.
      - (* placeholder, selected *)
        pose proof (group_selects_shape cur f i) as Hsh. fold sel in Hsh. rewrite Hsel in Hsh. destruct Hsh as (g & Hg & _).
        destruct (fhint f) as [p|p|p|pk pv'] eqn:Hh.
        + rewrite <- Hsel. apply (stable_placeholder_selected p Hsel Hh).
        + destruct (wf_optional _ _ _ _ Hwf Hh) as (_ & Hg' & _). congruence.
        + destruct (wf_list _ _ _ _ Hwf Hh) as (_ & _ & _ & Hg' & _). congruence.
        + destruct (wf_dict _ _ _ _ _ Hwf Hh) as (_ & _ & Hg' & _). congruence.
      - exfalso. pose proof (group_selects_shape cur f i) as Hsh. fold sel in Hsh. rewrite Hsel in Hsh. destruct Hsh as (g & Hg & _).
        unfold slot_in_range in Hr. destruct (fhint f) as [p|p|p|pk pv'] eqn:Hh; try discriminate Hr.
        destruct (wf_optional _ _ _ _ Hwf Hh) as (_ & Hg' & _). congruence.
      - exfalso. pose proof (group_selects_shape cur f i) as Hsh. fold sel in Hsh. rewrite Hsel in Hsh. destruct Hsh as (g & Hg & _).
        unfold slot_in_range in Hr. destruct (fhint f) as [p|p|p|pk pv'] eqn:Hh; rewrite ?elem_in_range_list in Hr; try discriminate Hr.
        destruct (wf_list _ _ _ _ Hwf Hh) as (_ & _ & _ & Hg' & _). congruence.
      - exfalso. pose proof (group_selects_shape cur f i) as Hsh. fold sel in Hsh. rewrite Hsel in Hsh. destruct Hsh as (g & Hg & _).
        unfold slot_in_range in Hr. destruct (fhint f) as [p|p|p|pk pv'] eqn:Hh; rewrite ?elem_in_range_dict in Hr; try discriminate Hr.
        destruct (wf_dict _ _ _ _ _ Hwf Hh) as (_ & _ & Hg' & _). congruence.
      - (* placeholder, no group *)
        assert (Hn : norm_slot sc (normu_obj sc) f None PPlaceholder = fresh_of f) by reflexivity.
        rewrite Hn. rewrite (enc_fresh_slot c cur i f Hwf) by (fold sel; rewrite Hsel; discriminate).
        assert (Hp : enc_slot sc cur i f PPlaceholder = Ok []).
        { apply (enc_placeholder_unselected sc c cur i f Hwf []); [|exact Hsel]. intros g _ k f' _ _ _. destruct k; reflexivity. }
        symmetry. exact Hp.
      - (* None *)
        assert (Hn : norm_slot sc (normu_obj sc) f None PNone = fresh_of f) by reflexivity.
        rewrite Hn. rewrite (enc_fresh_slot c cur i f Hwf) by (fold sel; rewrite Hsel; discriminate).
        unfold enc_slot. fold sel. rewrite Hsel. reflexivity.
      - assert (Hh : exists p, fhint f = HList p).
        { unfold slot_in_range in Hr. destruct (fhint f) as [p|p|p|pk pv'] eqn:Hh; eauto;
            rewrite ?elem_in_range_list in Hr; discriminate Hr. }
        destruct Hh as (p & Hh). rewrite <- Hsel. apply (stable_list p l Hh Hr HS).
      - assert (Hh : exists pk pv', fhint f = HDict pk pv').
        { unfold slot_in_range in Hr. destruct (fhint f) as [p|p|p|pk pv'] eqn:Hh; eauto;
            rewrite ?elem_in_range_dict in Hr; discriminate Hr. }
        destruct Hh as (pk & pv' & Hh). rewrite <- Hsel. apply (stable_dict pk pv' d Hh Hr HS).
    Qed.
  End SlotStable.

  (* the walk over the field list *)
  Lemma slots_stable c cur : forall raw fs i,
    forallb (wf_field sc (cngroups (get_class sc c))) fs = true ->
    slots_in_range sc raw fs = true -> clean_slots sc cur i raw fs = true ->
    Forall (subP (GoodU sc)) raw -> Forall (subP Stable) raw ->
    enc_slots sc cur i (normu_slots sc cur i raw fs) fs = enc_slots sc cur i raw fs.
  Proof.
    induction raw as [|x raw IH]; intros [|f fs] i Hwf Hr Hc HG HS; try reflexivity.
    cbn [forallb] in Hwf. apply andb_true_iff in Hwf as [Hw1 Hw2].
    cbn [slots_in_range] in Hr. apply andb_true_iff in Hr as [Hr1 Hr2].
    cbn [clean_slots] in Hc. apply andb_true_iff in Hc as [Hc1 Hc2].
    inversion HG as [|? ? G1 G2]; subst. inversion HS as [|? ? S1 S2]; subst.
    rewrite normu_slots_cons, !enc_slots_cons.
    rewrite (slot_stable c cur i f Hw1 x Hr1); auto.
    - rewrite (IH fs (S i)); auto.
    - intros Hs. rewrite Hs in Hc1. destruct x; try discriminate Hc1; reflexivity.
  Qed.

  Lemma stable_step c raw sow unk cur :
    value_ok sc (Obj c raw sow unk cur) ->
    Forall (subP (fun o => value_ok sc o -> Stable o)) raw ->
    Stable (Obj c raw sow unk cur).
  Proof.
    intros Hv HP. pose proof Hv as (Hr & Hd).
    rewrite in_range_unfold in Hr. rewrite deep_msg in Hd.
    apply andb_true_iff in Hr as [Hr Hsl]. apply andb_true_iff in Hr as [Hr Hcl]. apply andb_true_iff in Hr as [_ Hlen].
    apply andb_true_iff in Hd as [Hloc Hdl]. unfold local_ok in Hloc.
    apply andb_true_iff in Hloc as [Hloc Hku]. apply andb_true_iff in Hloc as [Hloc Hnu]. apply andb_true_iff in Hloc as [Hoc Hco].
    rewrite oneof_clean_unfold in Hoc.
    destruct (schema_class_facts sc c Hsc) as (Hwf & Hnd & Hent).
    unfold Stable. rewrite normu_obj_unfold, !enc_obj_unfold.
    set (fs := cfields (get_class sc c)) in *.
    assert (HGs : Forall (subP (GoodU sc)) raw /\ Forall (subP Stable) raw).
    { split.
      - apply (value_ok_slots sc (GoodU sc) c raw sow unk cur Hv).
        apply Forall_forall. intros x _. apply subP_forall. intros o Ho. apply (all_good sc Hsc o Ho).
      - apply (value_ok_slots sc Stable c raw sow unk cur Hv HP). }
    destruct HGs as (HG & HS).
    rewrite (slots_stable c cur raw fs 0 Hwf Hsl Hoc HG HS). reflexivity.
  Qed.

  Theorem all_stable : forall o, value_ok sc o -> Stable o.
  Proof.
    apply (obj_nested_ind (fun o => value_ok sc o -> Stable o)).
    intros c raw s u g HP Hv. apply stable_step; assumption.
  Qed.
End Stable.

Lemma c14u_reencode_stable sc m :
  c01_schema_ok sc = true -> c14u_value_ok sc m = true -> enc_obj sc (normu_obj sc m) = enc_obj sc m.
Proof. intros Hs Hv. apply c14u_value_ok_spec in Hv. exact (all_stable sc Hs m Hv). Qed.
