(* C05, message level, ACCEPT direction: definitions.

   * [wf_aval sc js off k a]  (decidable) the abstract value [a] is a well-formed value of kind [k] of the
     reference-side schema [js] (class [c] of [js] = class [c + off] of the runtime schema [sc]):
       - one field value per field, of the field's cardinality; scalars in range for their proto type, strings valid
         UTF-8, `float` fields binary32-representable, the one NaN; enum numbers in int32;
       - Timestamps in 0001..9999 and Durations within +-10000 years, both at MICROSECOND resolution (the quantifier
         of C05: Python's datetime / timedelta carry no nanoseconds);
       - at most one member of each oneof set; map keys pairwise distinct;
       - K13: no implicit-presence float / double field holds -0.0;
       - PLAIN-ZERO-TIME: a Timestamp / Duration field that is neither optional nor a oneof member does not hold
         the epoch / the zero span as a PRESENT value: betterproto keeps no presence for such a field (the value
         datetime(1970,1,1) / timedelta(0) IS "unset"), so after from_dict the member is gone again from to_dict
         and from bytes() (refuted witness: accept_plain_zero_time_refuted in Proofs/C05AccMain.v).
   * [conc_elem sc js off k a]  the Python value betterproto's reader builds from the canonical JSON of [a]
     (fields the canonical printer omits stay at the dataclass default; nested messages are built by the
     constructor and get _serialized_on_wire = True). *)
From BP Require Import Base.Prelude Model.Types Model.Float Model.Utf8 Model.Object Model.WellFormed Model.TimeCore Spec.Time.
From BP Require Model.Json Model.Enum Model.Casing Spec.JsonMap.
From BP Require Import Proofs.C04Def Proofs.C05Casing Proofs.C05Leaf Proofs.C05Model Proofs.C05MsgDef.

(* ---- leaves ---- *)
Definition utf8_ok (v : S.aval) : bool := match v with S.AStr s => utf8_valid s | _ => true end.
Definition bits_ok (v : S.aval) : bool := match v with S.AFloat b => (0 <=? b) && (b <? 2 ^ 64) | _ => true end.
Definition wf_leaf (k : S.skind) (v : S.aval) : bool := wf_scalar k v && utf8_ok v && bits_ok v.
Definition wf_mkey (k : S.skind) (v : S.aval) : bool := wf_key k v && utf8_ok v.

(* Timestamp / Duration at microsecond resolution, in range *)
Definition wf_time (s n : Z) : bool :=
  (S.TS_MIN_S <=? s) && (s <=? S.TS_MAX_S) && (0 <=? n) && (n <? 1000000000) && (n mod 1000 =? 0).
(* (the span itself within +-315 576 000 000 s, the bound of WellFormed.in_range: a fraction beyond the last whole
   second of the reference's range is excluded) *)
Definition wf_dur (s n : Z) : bool :=
  S.dur_in_range s n && (Z.rem n 1000 =? 0) &&
  (- 315576000000000000 <=? s * 1000000 + Z.quot n 1000) && (s * 1000000 + Z.quot n 1000 <=? 315576000000000000).

Definition akey_eqb (a b : S.aval) : bool :=
  match a, b with
  | S.AInt x, S.AInt y => x =? y
  | S.ABool x, S.ABool y => Bool.eqb x y
  | S.AStr x, S.AStr y => bytes_eqb x y
  | _, _ => false
  end.
Fixpoint akeys_distinct (l : list S.aval) : bool :=
  match l with
  | [] => true
  | k :: r => negb (existsb (akey_eqb k) r) && akeys_distinct r
  end.

Definition is_set_field (f : S.afield) : bool := match f with S.FAbsent => false | _ => true end.

(* at most one member of each oneof group is set *)
Fixpoint groups_clean (fds : list S.jfield) (fs : list S.afield) (seen : list nat) : bool :=
  match fds, fs with
  | fd :: fds', f :: fs' =>
      match S.jf_oneof fd with
      | Some g => if is_set_field f then negb (S.mem_nat g seen) && groups_clean fds' fs' (g :: seen)
                  else groups_clean fds' fs' seen
      | None => groups_clean fds' fs' seen
      end
  | _, _ => true
  end.

(* does the canonical printer leave the member out *)
Definition omitted (fd : S.jfield) (af : S.afield) : bool :=
  match af with
  | S.FAbsent => true
  | S.FOne v => match S.jf_card fd with S.Implicit => S.is_default_val v | _ => false end
  | S.FRep l => is_nil l
  | S.FMap l => is_nil l
  end.

Definition neg_zero_a (v : S.aval) : bool := match v with S.AFloat b => b =? 2 ^ 63 | _ => false end.
Definition plain_zero_time (f : fdesc) (v : S.aval) : bool :=
  match fhint f, fgroup f, v with
  | HPlain _, None, S.ATime s n => (s =? 0) && (n =? 0)
  | HPlain _, None, S.ADur s n => (s =? 0) && (n =? 0)
  | _, _, _ => false
  end.

Section WfLoop.
  Variable rec : S.jkind -> S.aval -> bool.
  Definition wf_afield (f : fdesc) (fd : S.jfield) (af : S.afield) : bool :=
    match af with
    | S.FAbsent => match S.jf_card fd with S.Explicit => true | _ => false end
    | S.FOne x =>
        match S.jf_card fd with
        | S.Implicit => rec (S.jf_kind fd) x && negb (neg_zero_a x)
        | S.Explicit => rec (S.jf_kind fd) x && negb (plain_zero_time f x)
        | _ => false
        end
    | S.FRep l =>
        match S.jf_card fd with
        | S.Repeated => forallb (rec (S.jf_kind fd)) l
        | _ => false
        end
    | S.FMap l =>
        match S.jf_card fd with
        | S.MapOf kk => forallb (fun kx => wf_mkey kk (fst kx) && rec (S.jf_kind fd) (snd kx)) l &&
                        akeys_distinct (map fst l)
        | _ => false
        end
    end.
  Fixpoint wf_afields (fs : list fdesc) (fds : list S.jfield) (afs : list S.afield) {struct afs} : bool :=
    match fs, fds, afs with
    | [], [], [] => true
    | f :: fs', fd :: fds', af :: afs' => wf_afield f fd af && wf_afields fs' fds' afs'
    | _, _, _ => false
    end.
End WfLoop.

Section ConcLoop.
  Variable rec : S.jkind -> S.aval -> pv.
  Definition conc_field (f : fdesc) (fd : S.jfield) (af : S.afield) : pv :=
    if omitted fd af then sentinel f
    else match af with
         | S.FAbsent => sentinel f
         | S.FOne v => rec (S.jf_kind fd) v
         | S.FRep l => PList (map (rec (S.jf_kind fd)) l)
         | S.FMap l => PDict (map (fun kx => (rec (S.JScalar S.KInt32) (fst kx), rec (S.jf_kind fd) (snd kx))) l)
         end.
  Fixpoint conc_fields (fs : list fdesc) (fds : list S.jfield) (afs : list S.afield) {struct afs} : list pv :=
    match fs, fds, afs with
    | f :: fs', fd :: fds', af :: afs' => conc_field f fd af :: conc_fields fs' fds' afs'
    | _, _, _ => []
    end.
End ConcLoop.

Section Acc.
  Variable sc : schema.
  Variable js : S.jschema.
  Variable off : nat.

  Fixpoint wf_aval (k : S.jkind) (v : S.aval) {struct v} : bool :=
    match v with
    | S.AMsg afs =>
        match k with
        | S.JMsg c =>
            Nat.ltb c (length (S.jclasses js)) && groups_clean (S.jclass js c) afs [] &&
            wf_afields wf_aval (cfields (get_class sc (c + off))) (S.jclass js c) afs
        | _ => false
        end
    | S.ATime s n => match k with S.JTimestamp => wf_time s n | _ => false end
    | S.ADur s n => match k with S.JDuration => wf_dur s n | _ => false end
    | S.AEnum n => match k with S.JEnum _ => (- 2 ^ 31 <=? n) && (n <? 2 ^ 31) | _ => false end
    | _ => match k with S.JScalar sk' | S.JWrapper sk' => wf_leaf sk' v | _ => false end
    end.

  Fixpoint conc_elem (k : S.jkind) (a : S.aval) {struct a} : pv :=
    match a with
    | S.AInt z | S.AEnum z => PInt z
    | S.ABool b => PBool b
    | S.AFloat b => PFloat b
    | S.AStr s => PStr s
    | S.ABytes b => PBytes b
    | S.ATime s n => PDatetime (s * 1000000 + n / 1000)
    | S.ADur s n => PTimedelta (s * 1000000 + Z.quot n 1000)
    | S.AMsg afs =>
        match k with
        | S.JMsg c =>
            PMsg (J.set_sow (post_init sc (c + off)
                    (conc_fields conc_elem (cfields (get_class sc (c + off))) (S.jclass js c) afs)))
        | _ => PNone
        end
    end.

  Definition conc_obj (c : nat) (afs : list S.afield) : obj :=
    J.set_sow (post_init sc (c + off) (conc_fields conc_elem (cfields (get_class sc (c + off))) (S.jclass js c) afs)).
End Acc.
