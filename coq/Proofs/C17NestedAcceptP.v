(* C17 below the top level, acceptance half: parse accepts a byte string exactly when it is [valid]
   (Model/C17Nested.v).  Leaves: decode_value succeeds on a fitting record iff its payload is valid
   [content]; store_value never fails on a typed object and a value that fits the field. *)
From BP Require Import Base.Prelude Model.Types Model.Varint Model.Scalar Model.Float Model.Utf8.
From BP Require Import Model.Object Model.Eq Model.TimeCore Model.Decode Model.WellFormed Spec.Varint.
From BP Require Import Model.C17Typed Model.C17Wire Model.C17Step Model.C17Nested.
From BP Require Import Proofs.BytesP Proofs.VarintP Proofs.C17FieldP Proofs.C17StepP Proofs.C17FrameP Proofs.C17ComposeP.
From BP Require Import Proofs.C17TypedAuxP Proofs.C17TypedP Proofs.C17FloatP Proofs.C17NestedP.
From BP Require Import gen.Tables.
From Coq Require Import ZifyBool.
Ltac Zify.zify_post_hook ::= Z.to_euclidean_division_equations.

Ltac split_and := repeat match goal with H : _ && _ = true |- _ => apply andb_true_iff in H as [? ?] end.

Lemma getattr_ungrouped sc o i f :
  nth_error (cfields (get_class sc (ocls o))) i = Some f -> fgroup f = None ->
  exists o' v, getattr sc o i = (o', Ok v).
Proof.
  destruct o as [c raw sow unk cur]. cbn [ocls]. intros Hn Hg. unfold getattr. rewrite Hn.
  unfold group_selects. rewrite Hg. destruct (nth i raw PPlaceholder); eauto.
Qed.

Lemma fits_cases' f wt :
  wire_type_fits f wt = true ->
  (wt = 0 /\ tmem (fty f) WIRE_VARINT_TYPES = true) \/
  (wt = 5 /\ tmem (fty f) WIRE_FIXED_32_TYPES = true) \/
  (wt = 1 /\ tmem (fty f) WIRE_FIXED_64_TYPES = true) \/
  (wt = 2 /\ (tmem (fty f) WIRE_LEN_DELIM_TYPES ||
               (tmem (fty f) PACKED_TYPES && match fhint f with HList _ => true | _ => false end)) = true).
Proof.
  unfold wire_type_fits, WIRE_VARINT, WIRE_FIXED_32, WIRE_FIXED_64, WIRE_LEN_DELIM.
  destruct (wt =? 0) eqn:E0; [intros H; left; split; [lia | exact H]|].
  destruct (wt =? 5) eqn:E5; [intros H; right; left; split; [lia | exact H]|].
  destruct (wt =? 1) eqn:E1; [intros H; right; right; left; split; [lia | exact H]|].
  destruct (wt =? 2) eqn:E2; [intros H; right; right; right; split; [lia | exact H]|].
  discriminate.
Qed.

Section Acc.
  Variable sc : schema.
  Hypothesis Hwf : wf_schema sc = true.
  Hypothesis Hbi : has_builtins sc.
  Hypothesis Hea : entries_agree sc = true.
  Notation tobj := (typed_obj false sc).
  Notation vfits := (value_fits false sc).

  (* ---------- store_value never fails on typed state ---------- *)
  Lemma store_value_total o i f value :
    tobj o = true -> nth_error (cfields (get_class sc (ocls o))) i = Some f ->
    vfits f value = true -> exists o', store_value sc o i f value = Ok o'.
  Proof.
    intros Ht Hn Hv. unfold store_value.
    destruct (fetch_current sc o i f) as [o1 current] eqn:Ef.
    destruct (fetch_current_typed false sc Hwf _ _ _ _ _ Ht Hn Ef) as (T1 & T2 & Hc & Hne).
    pose proof (wf_field_of sc _ i f Hwf Hn) as Hw.
    destruct (ptype_eqb (fty f) TMap) eqn:Em.
    - unfold wf_field in Hw. unfold value_fits in Hv. rewrite Em in Hw.
      destruct (fhint f) as [p'|p'|p'|pk pv'] eqn:Hh; split_and;
        try (match goal with Hx : negb true = true |- _ => discriminate Hx end).
      { destruct (fwraps f) as [w|]; split_and.
        - apply ptype_eqb_eq in Em. assert (fty f = TMessage) by (apply ptype_eqb_eq; assumption). congruence.
        - match goal with Hx : negb true = true |- _ => discriminate Hx end. }
      destruct value as [| | | | | | | | | | |e]; try discriminate Hv. apply andb_true_iff in Hv as [Hce Hte].
      apply Nat.eqb_eq in Hce.
      destruct (fmap f) as [[kt vt]|] eqn:Hm; [|discriminate].
      unfold typed_attr in Hc. rewrite Hh, Hm in Hc.
      destruct current as [| | | | | | | | | |d|]; try discriminate Hc; try congruence.
      unfold entry_class_ok in *. rewrite Hm, Hh in *.
      destruct (cfields (get_class sc (fentry f))) as [|fk [|fv [|]]] eqn:Ecf; try discriminate.
      split_and.
      assert (Gk : fgroup fk = None) by (destruct (fgroup fk); [discriminate | reflexivity]).
      assert (Gv : fgroup fv = None) by (destruct (fgroup fv); [discriminate | reflexivity]).
      destruct (getattr_ungrouped sc e 0 fk) as (e0 & k & ->); [rewrite Hce, Ecf; reflexivity | exact Gk|].
      destruct (getattr_ungrouped sc e 1 fv) as (e1 & v & ->); [rewrite Hce, Ecf; reflexivity | exact Gv|].
      eauto.
    - destruct current; eauto.
  Qed.

  (* ---------- decode_value on varint / fixed-width records: never fails ---------- *)
  Lemma decode_other_ok pn f p :
    wire_type_fits f (pwt p) = true -> pwt p <> 2 ->
    (pwt p = 5 -> Zlength (pbytes p) = 4) -> (pwt p = 1 -> Zlength (pbytes p) = 8) ->
    exists v, decode_value sc pn f p = Ok v.
  Proof.
    intros Hfit H2 H5 H1. unfold decode_value, WIRE_LEN_DELIM, WIRE_VARINT, WIRE_FIXED_32, WIRE_FIXED_64.
    destruct (fits_cases' _ _ Hfit) as [[E T]|[[E T]|[[E T]|[E T]]]]; [| | |congruence];
      rewrite E; cbn [Z.eqb Pos.eqb andb orb].
    - eauto.
    - apply (unpack_value_fixed (fty f) 4); [destruct (fty f); try discriminate T; reflexivity | auto].
    - apply (unpack_value_fixed (fty f) 8); [destruct (fty f); try discriminate T; reflexivity | auto].
  Qed.

  Lemma decode_len_no_class pn f nw raw lb d :
    (fty f = TMessage \/ fty f = TMap) -> nested_cls f = None ->
    exists e, decode_value sc pn f (len_parsed nw raw lb d) = Err e.
  Proof.
    intros Ht Hc. unfold nested_cls in Hc. unfold decode_value, len_parsed, post_len_r. cbn [pwt pbytes].
    destruct Ht as [Et|Et]; rewrite Et in *; [|discriminate Hc].
    cbn [tmem existsb PACKED_TYPES ptype_eqb ptype_tag Z.eqb Pos.eqb andb orb].
    unfold WIRE_LEN_DELIM, WIRE_VARINT, WIRE_FIXED_32, WIRE_FIXED_64. cbn [Z.eqb Pos.eqb andb orb].
    destruct (hint_elem (fhint f)), (fwraps f) as [w|]; try discriminate Hc; try rewrite Hc; eauto.
  Qed.

  Section Leaf.
    Variable pn : nat -> list byte -> result obj.
    Variable V : nat -> list byte -> Prop.
    Variable d : list byte.
    Hypothesis HV : forall c', (exists m, pn c' d = Ok m) <-> V c' d.
    Hypothesis Hparse : forall c', pn c' d = parse sc c' d.
    Hypothesis Hpn : forall c' bs m, pn c' bs = Ok m -> ocls m = c' /\ tobj m = true.

    Lemma finish_time_range f c' m v :
      nested_cls f = Some c' -> pn c' d = Ok m -> finish_nested sc f m = Ok v -> time_range sc f d = true.
    Proof.
      unfold time_range, finish_nested, nested_cls. intros Hc Em Hf.
      destruct (fty f); try reflexivity.
      destruct (hint_elem (fhint f)); try reflexivity.
      - assert (c' = timestamp_cls) by (destruct (fwraps f); congruence). subst c'.
        unfold ts_range, time_numbers, read. rewrite <- Hparse, Em.
        destruct (fwraps f);
          (destruct (snd (getattr sc m 0)) as [[]|]; try discriminate Hf;
           destruct (snd (getattr sc m 1)) as [[]|]; try discriminate Hf;
           match goal with |- context [us_of_ts ?a ?b] => destruct (us_of_ts a b) end; [reflexivity | discriminate Hf]).
      - assert (c' = duration_cls) by (destruct (fwraps f); congruence). subst c'.
        unfold dur_range, time_numbers, read. rewrite <- Hparse, Em.
        destruct (fwraps f);
          (destruct (snd (getattr sc m 0)) as [[]|]; try discriminate Hf;
           destruct (snd (getattr sc m 1)) as [[]|]; try discriminate Hf;
           match goal with |- context [us_of_dur ?a ?b] => destruct (us_of_dur a b) end; [reflexivity | discriminate Hf]).
    Qed.

    Lemma wrapper_getattr w wc m : wrapper_cls w = Some wc -> ocls m = wc -> exists v, snd (getattr sc m 0) = Ok v.
    Proof.
      intros Hc Hm.
      assert (exists vt, wrapper_value_type w = Some vt) as [vt Hvt]
          by (destruct w; cbn in Hc; try discriminate Hc; eexists; reflexivity).
      pose proof (wrapper_class_fields sc Hbi w wc vt Hc Hvt) as Hcf.
      destruct (getattr_ungrouped sc m 0 (plain_field value_name 1 vt)) as (o' & v & E);
        [rewrite Hm, Hcf; reflexivity | reflexivity|].
      rewrite E. cbn [snd]. eauto.
    Qed.

    Lemma finish_ok f c' m :
      nested_cls f = Some c' -> pn c' d = Ok m -> time_range sc f d = true ->
      exists v, finish_nested sc f m = Ok v.
    Proof.
      unfold time_range, finish_nested, nested_cls. intros Hc Em Hr.
      destruct (fty f); try discriminate Hc; [|eauto].
      destruct (hint_elem (fhint f)) eqn:Eh.
      7:{ destruct (fwraps f) as [w|]; [eapply wrapper_getattr; [eassumption | apply (Hpn _ _ _ Em)] | eauto]. }
      7:{ assert (c' = timestamp_cls) by (destruct (fwraps f); congruence). subst c'.
          unfold ts_range, time_numbers, read in Hr. rewrite <- Hparse, Em in Hr.
          destruct (fwraps f);
            (destruct (snd (getattr sc m 0)) as [[]|]; try discriminate Hr;
             destruct (snd (getattr sc m 1)) as [[]|]; try discriminate Hr;
             match goal with |- context [us_of_ts ?a ?b] => destruct (us_of_ts a b) end; [cbn [bind]; eauto | discriminate Hr]). }
      7:{ assert (c' = duration_cls) by (destruct (fwraps f); congruence). subst c'.
          unfold dur_range, time_numbers, read in Hr. rewrite <- Hparse, Em in Hr.
          destruct (fwraps f);
            (destruct (snd (getattr sc m 0)) as [[]|]; try discriminate Hr;
             destruct (snd (getattr sc m 1)) as [[]|]; try discriminate Hr;
             match goal with |- context [us_of_dur ?a ?b] => destruct (us_of_dur a b) end; [cbn [bind]; eauto | discriminate Hr]). }
      all: destruct (fwraps f) as [w|]; [eapply wrapper_getattr; [eassumption | apply (Hpn _ _ _ Em)] | discriminate Hc].
    Qed.

    Lemma decode_len_iff f nw raw lb :
      wire_type_fits f 2 = true ->
      ((exists v, decode_value sc pn f (len_parsed nw raw lb d) = Ok v) <-> content sc V f d).
    Proof.
      intros Hfit. split.
      - intros [v Hd]. destruct (tmem (fty f) PACKED_TYPES) eqn:Hp.
        + rewrite decode_len_packed in Hd by exact Hp.
          destruct (unpack_packed (S (length d)) (fty f) d) as [l|] eqn:Eu; cbn [bind] in Hd; [|discriminate].
          destruct (fixed_width (fty f)) as [w|] eqn:Hfw.
          * apply (CFixed _ _ _ _ w); auto.
            apply (unpack_packed_fixed (S (length d)) _ w d Hfw); [lia | eauto].
          * apply CVarints; auto. apply (unpack_packed_varints (S (length d)) _ d Hfw); [lia | eauto].
        + destruct (fits_cases' _ _ Hfit) as [[E T]|[[E T]|[[E T]|[E T]]]]; try discriminate E.
          rewrite Hp in T. cbn [andb] in T. rewrite orb_false_r in T.
          assert (Hmsg : forall c', nested_cls f = Some c' -> content sc V f d).
          { intros c' Hc. rewrite (decode_len_nested sc pn f nw raw lb d c' Hc) in Hd.
            destruct (pn c' d) as [m|] eqn:Em; cbn [bind] in Hd; [|discriminate].
            apply (CNested _ _ _ _ c'); [exact Hc | apply HV; eauto | eapply finish_time_range; eassumption]. }
          destruct (fty f) eqn:Et; try discriminate T.
          * rewrite decode_len_string in Hd by exact Et.
            destruct (utf8_valid d) eqn:Eu; [|discriminate]. apply CString; assumption.
          * apply CBytes; assumption.
          * destruct (nested_cls f) as [c'|] eqn:Hc; [eapply Hmsg; reflexivity|].
            destruct (decode_len_no_class pn f nw raw lb d (or_introl Et) Hc) as [e He]. congruence.
          * destruct (nested_cls f) as [c'|] eqn:Hc; [eapply Hmsg; reflexivity|].
            destruct (decode_len_no_class pn f nw raw lb d (or_intror Et) Hc) as [e He]. congruence.
      - intros [w Hp Hfw Hm|Hp Hfw Hv|Et Hu|Et|c' Hc Hv Hr].
        + rewrite decode_len_packed by exact Hp.
          destruct (proj2 (unpack_packed_fixed (S (length d)) _ w d Hfw ltac:(lia)) Hm) as [l ->]. cbn [bind]. eauto.
        + rewrite decode_len_packed by exact Hp.
          destruct (proj2 (unpack_packed_varints (S (length d)) _ d Hfw ltac:(lia)) Hv) as [l ->]. cbn [bind]. eauto.
        + rewrite decode_len_string by exact Et. rewrite Hu. eauto.
        + rewrite decode_len_bytes by exact Et. eauto.
        + rewrite (decode_len_nested sc pn f nw raw lb d c' Hc).
          destruct (proj2 (HV c') Hv) as [m Em]. rewrite Em. cbn [bind]. eapply finish_ok; eassumption.
    Qed.
  End Leaf.

  Lemma wpayload_len5 nw pl : wpayload nw pl -> tag_wt nw = 5 -> Zlength pl = 4.
  Proof. intros W E. destruct W; try lia. unfold Zlength; lia. Qed.
  Lemma wpayload_len1 nw pl : wpayload nw pl -> tag_wt nw = 1 -> Zlength pl = 8.
  Proof. intros W E. destruct W; try lia. unfold Zlength; lia. Qed.

  (* ---------- the loop of Message.load at the fuel L of one level; nested payloads shorter than L
                are covered by the hypothesis HV (the induction hypothesis of the main theorem) ---------- *)
  Section Loop.
    Variable L : nat.
    Hypothesis HV : forall c' d, (length d < L)%nat -> ((exists m, parse sc c' d = Ok m) <-> valid sc c' d).
    Notation pn := (pn_of L sc).
    Notation loop c := (loop_r sc (pn_of L sc) (load_field L) None (get_class sc c)).

    Lemma pn_parse c' d : (length d < L)%nat -> pn c' d = parse sc c' d.
    Proof.
      intros H. rewrite parse_eq. unfold parse_r. fold (pn_of (S (length d)) sc c' d). apply pn_of_irrel; lia.
    Qed.

    Lemma pn_typed c' bs m : pn c' bs = Ok m -> ocls m = c' /\ tobj m = true.
    Proof.
      unfold pn_of. intros H.
      destruct (load_r L sc (new sc c') bs None) as [[m' rest]|] eqn:El; cbn [bind] in H; [|discriminate].
      injection H as <-.
      destruct (load_r_typed false sc Hwf Hbi Hea f32_reencodable_all _ _ _ _ _ _ (new_typed false sc Hwf c') El) as [T1 T2].
      split; [exact T2 | exact T1].
    Qed.

    Lemma leaf_iff d f nw raw lb :
      (length d < L)%nat -> wire_type_fits f 2 = true ->
      ((exists v, decode_value sc pn f (len_parsed nw raw lb d) = Ok v) <-> content sc (valid sc) f d).
    Proof.
      intros Hd. apply decode_len_iff.
      - intros c'. rewrite pn_parse by exact Hd. apply HV; exact Hd.
      - intros c'. apply pn_parse; exact Hd.
      - exact pn_typed.
    Qed.

    Lemma apply_len_ok c o nw raw lb d i f :
      tobj o = true -> ocls o = c -> (length d < L)%nat ->
      field_by_number (get_class sc c) (tag_num nw) = Some (i, f) -> wire_type_fits f 2 = true ->
      content sc (valid sc) f d ->
      exists o', apply_field sc pn (get_class sc c) o (len_parsed nw raw lb d) = Ok o' /\ tobj o' = true /\ ocls o' = c.
    Proof.
      intros Ht Hc Hd Hf Hfit Hcont. subst c.
      destruct (proj2 (leaf_iff d f nw raw lb Hd Hfit) Hcont) as [v Hv].
      assert (Ha : exists o', apply_field sc pn (get_class sc (ocls o)) o (len_parsed nw raw lb d) = Ok o').
      { unfold apply_field. cbn [len_parsed pnum pwt]. rewrite Hf, Hfit. cbn [negb].
        rewrite Hv. cbn [bind].
        apply field_by_number_nth in Hf as [Hn _].
        eapply store_value_total; [exact Ht | exact Hn|].
        eapply (decode_value_typed false sc Hwf Hbi f32_reencodable_all pn pn_typed f _ (len_parsed nw raw lb d) v);
          [eapply wf_field_of; eassumption | exact Hfit | cbn [len_parsed pwt]; intros; discriminate | exact Hv]. }
      destruct Ha as [o' Ha]. exists o'. split; [exact Ha|].
      eapply (apply_field_typed false sc Hwf Hbi Hea f32_reencodable_all pn pn_typed o _ o' Ht); [|exact Ha].
      cbn [len_parsed pwt]. intros; discriminate.
    Qed.

    Lemma apply_other_ok c o nw raw s p s' :
      tobj o = true -> ocls o = c -> field_ok nw raw s p s' ->
      (known_fit sc c nw = None \/ tag_wt nw <> 2) ->
      exists o', apply_field sc pn (get_class sc c) o p = Ok o' /\ tobj o' = true /\ ocls o' = c.
    Proof.
      intros Ht Hc (pl & Es & Wp & Hraw & Hnum & Hwt & H2 & H15 & H0 & Hlen) Hk. subst c.
      assert (Hint : pwt p = 0 -> 0 <= pint p < 2 ^ 70).
      { intros E. rewrite Hwt in E. eapply VarintRep_range, H0, E. }
      assert (Ha : exists o', apply_field sc pn (get_class sc (ocls o)) o p = Ok o').
      { unfold apply_field. rewrite Hnum, Hwt. unfold known_fit in Hk.
        destruct (field_by_number (get_class sc (ocls o)) (tag_num nw)) as [[i f]|] eqn:Hf; [|eauto].
        destruct (wire_type_fits f (tag_wt nw)) eqn:Hfit; cbn [negb]; [|eauto].
        destruct Hk as [Hk|Hk]; [discriminate|].
        destruct (decode_other_ok pn f p) as [v Hv].
        - rewrite Hwt; exact Hfit.
        - rewrite Hwt; exact Hk.
        - intros E. rewrite Hwt in E. rewrite <- (H15 (or_intror E)). eapply wpayload_len5; eassumption.
        - intros E. rewrite Hwt in E. rewrite <- (H15 (or_introl E)). eapply wpayload_len1; eassumption.
        - rewrite Hv. cbn [bind]. apply field_by_number_nth in Hf as [Hn _].
          eapply store_value_total; [exact Ht | exact Hn|].
          eapply (decode_value_typed false sc Hwf Hbi f32_reencodable_all pn pn_typed f _ p v);
            [eapply wf_field_of; eassumption | rewrite Hwt; exact Hfit | exact Hint | exact Hv]. }
      destruct Ha as [o' Ha]. exists o'. split; [exact Ha|].
      eapply (apply_field_typed false sc Hwf Hbi Hea f32_reencodable_all pn pn_typed o p o' Ht Hint Ha).
    Qed.

    Lemma loop_step_full c nw tag pl rest n o read :
      VarintRep nw tag -> wpayload nw pl -> (length (tag ++ pl ++ rest) <= L)%nat ->
      exists p, field_ok nw tag (pl ++ rest) p rest /\
        loop c (S n) o (tag ++ pl ++ rest) read =
        (do o' <- apply_field sc pn (get_class sc c) o p; loop c n o' rest read).
    Proof.
      intros Rt Wp Hf. pose proof (VarintRep_nonempty _ _ Rt) as Ht. rewrite !app_length in Hf.
      destruct (load_field_complete nw pl L rest tag Wp) as (p & Hp & Hok). { rewrite app_length. lia. }
      exists p. split; [exact Hok|]. cbn [loop_r].
      destruct (tag ++ pl ++ rest) as [|b s] eqn:Es. { destruct tag; [cbn in Ht; lia | discriminate]. }
      rewrite <- Es. rewrite (load_varint_rep _ _ _ Rt). cbn [bind]. rewrite Hp. cbn [bind account finished].
      reflexivity.
    Qed.

    Lemma loop_valid c bs : valid sc c bs ->
      forall n o read, (length bs < n)%nat -> (length bs <= L)%nat -> tobj o = true -> ocls o = c ->
      exists o', loop c n o bs read = Ok (o', []) /\ tobj o' = true /\ ocls o' = c.
    Proof.
      induction 1 as [c | c nw tag pl rs Rt Wp Hk Hrs IH | c nw tag lb d rs f Rt Hn Hw Rl Hk Hcont Hrs IH];
        intros n o read Hl HL Ht Hc.
      - destruct n as [|n]; [cbn in Hl; lia|]. cbn [loop_r]. eauto.
      - destruct n as [|n]; [lia|].
        destruct (loop_step_full c nw tag pl rs n o read Rt Wp HL) as (p & Hok & ->).
        destruct (apply_other_ok c o nw tag _ p rs Ht Hc Hok Hk) as (o1 & -> & T1 & C1). cbn [bind].
        pose proof (VarintRep_nonempty _ _ Rt). rewrite !app_length in Hl, HL. apply IH; try assumption; lia.
      - destruct n as [|n]; [lia|].
        rewrite (loop_len_step sc pn L (get_class sc c) nw tag lb d rs n o read Rt Hn Hw Rl).
        pose proof (VarintRep_nonempty _ _ Rt). rewrite !app_length in Hl, HL.
        apply known_fit_inv in Hk as (i & Hf & Hfit). rewrite Hw in Hfit.
        destruct (apply_len_ok c o nw tag lb d i f Ht Hc ltac:(lia) Hf Hfit Hcont) as (o1 & -> & T1 & C1). cbn [bind].
        apply IH; try assumption; lia.
    Qed.

    Lemma loop_ok_valid c : forall n o bs read o' s',
      (length bs <= L)%nat -> ocls o = c -> loop c n o bs read = Ok (o', s') -> valid sc c bs.
    Proof.
      induction n as [|n IH]; intros o bs read o' s' HL Hc H; [discriminate|]. cbn [loop_r] in H.
      destruct bs as [|b bs0]; [constructor|]. set (bs := b :: bs0) in *.
      destruct (load_varint bs) as [[[nw r] s1]|] eqn:Ev; cbn [bind] in H; [|discriminate].
      apply load_varint_inv in Ev as (E & Rt & Hr).
      destruct (load_field L s1 nw r) as [[p s2]|] eqn:Ef; cbn [bind account] in H; [|discriminate].
      destruct (apply_field sc pn (get_class sc c) o p) as [o1|] eqn:Ea; cbn [bind finished] in H; [|discriminate].
      destruct (load_field_sound _ _ _ _ _ _ Ef) as (pl & Es1 & Wp & _).
      rewrite E, Es1, !app_length in HL.
      assert (Hrs : valid sc c s2).
      { eapply IH; [| |exact H]; [lia|]. apply apply_field_shell in Ea. destruct Ea as [C _]. congruence. }
      rewrite E, Es1.
      destruct (known_fit sc c nw) as [f|] eqn:Hk; [|apply (VOther sc c nw); auto].
      destruct (Z.eq_dec (tag_wt nw) 2) as [Hw|Hw]; [|apply (VOther sc c nw); auto].
      destruct Wp as [nw v vb H1 H2 H3|nw d0 H1 H2 H3|nw lb d Hn Hw' Rl|nw inner enw etag H1 H2 H3 H4 H5 H6|nw d0 H1 H2 H3];
        try lia.
      rewrite Es1, <- app_assoc, (load_field_len nw lb d s2 r L Hn Hw Rl) in Ef. injection Ef as <-.
      rewrite !app_length in HL.
      pose proof Hk as Hk'. apply known_fit_inv in Hk' as (i & Hf & Hfit). rewrite Hw in Hfit.
      unfold apply_field in Ea. cbn [len_parsed pnum pwt] in Ea. rewrite Hf, Hfit in Ea. cbn [negb] in Ea.
      destruct (decode_value sc pn f (len_parsed nw r lb d))
        as [v|] eqn:Ed; cbn [bind] in Ea; [|discriminate].
      apply (VLen sc c nw r lb d s2 f); auto.
      apply (leaf_iff d f nw r lb ltac:(lia) Hfit). exists v. exact Ed.
    Qed.
  End Loop.

  Theorem accept_iff_gen : forall N c bs, (length bs < N)%nat ->
    ((exists m, parse sc c bs = Ok m) <-> valid sc c bs).
  Proof.
    induction N as [|N IH]; intros c bs Hl; [lia|].
    set (L := length bs).
    assert (HV : forall c' d, (length d < L)%nat -> ((exists m, parse sc c' d = Ok m) <-> valid sc c' d))
      by (intros; apply IH; unfold L in *; lia).
    rewrite parse_as_into, parse_into_loop. fold L. change (ocls (new sc c)) with c.
    split.
    - intros [m Hm].
      destruct (loop_r sc (pn_of L sc) (load_field L) None (get_class sc c) (S L) (mark_on_wire (new sc c)) bs 0)
        as [[o' s']|] eqn:El; [|discriminate].
      eapply (loop_ok_valid L HV c); [| |exact El]; [unfold L; lia | reflexivity].
    - intros Hv.
      destruct (loop_valid L HV c bs Hv (S L) (mark_on_wire (new sc c)) 0) as (o' & -> & _);
        [unfold L; lia | unfold L; lia | | reflexivity | cbn [bind]; eauto].
      rewrite (proj1 (mark_on_wire_typed false sc _)). apply new_typed; exact Hwf.
  Qed.

  Theorem accept_iff c bs : (exists m, parse sc c bs = Ok m) <-> valid sc c bs.
  Proof. apply (accept_iff_gen (S (length bs))). lia. Qed.

  (* m.parse(bs) on an existing well-typed message of class c: the same criterion *)
  Theorem accept_iff_into o bs :
    tobj o = true -> ((exists m, parse_into sc o bs = Ok m) <-> valid sc (ocls o) bs).
  Proof.
    intros Ht. rewrite parse_into_loop. set (L := length bs).
    assert (HV : forall c' d, (length d < L)%nat -> ((exists m, parse sc c' d = Ok m) <-> valid sc c' d))
      by (intros; apply accept_iff).
    split.
    - intros [m Hm].
      destruct (loop_r sc (pn_of L sc) (load_field L) None (get_class sc (ocls o)) (S L) (mark_on_wire o) bs 0)
        as [[o' s']|] eqn:El; [|discriminate].
      eapply (loop_ok_valid L HV (ocls o)); [| |exact El]; [unfold L; lia | destruct o; reflexivity].
    - intros Hv.
      destruct (loop_valid L HV (ocls o) bs Hv (S L) (mark_on_wire o) 0) as (o' & -> & _);
        [unfold L; lia | unfold L; lia | | destruct o; reflexivity | cbn [bind]; eauto].
      rewrite (proj1 (mark_on_wire_typed false sc _)). exact Ht.
  Qed.
End Acc.

(* valid strings are concatenations of complete records *)
Lemma valid_wrecs sc c bs : valid sc c bs -> wrecs bs.
Proof.
  induction 1 as [c | c nw tag pl rs Rt Wp Hk Hrs IH | c nw tag lb d rs f Rt Hn Hw Rl Hk Hcont Hrs IH].
  - constructor.
  - econstructor; eassumption.
  - econstructor; [exact Rt | apply PLen; assumption | exact IH].
Qed.
