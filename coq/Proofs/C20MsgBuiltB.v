(* C20, message level: the built message  m = Cls(); m.f = v  meets C01's value condition in every schema meeting C01's
   schema condition; hence the binary message-level theorem applies to it with no hypothesis left on the message. *)
From Coq Require Import ZArith List Bool Lia ZifyBool.
From BP Require Import Base.Prelude Model.Types Model.Varint Model.Scalar Model.Float Model.Utf8.
From BP Require Import Model.Object Model.Eq Model.TimeCore Model.Encode Model.Decode Model.WellFormed Model.C01Def Model.C20Msg.
From BP Require Import gen.Tables Proofs.C01Apply Proofs.C01Builtin Proofs.C01Unfold Proofs.C01Slot Proofs.C01Msg Proofs.C01Main
     Proofs.C20MsgDef Proofs.C20MsgBuilt Proofs.C20MsgBin.
From BP Require Model.Enum Proofs.EnumP.

Lemma flat_deep P x : flat x -> deep P x = true.
Proof.
  destruct x as [| |z|b|bits|s|b|us|us|l|d|o]; cbn [flat]; intros H; try reflexivity; [| |contradiction].
  - rewrite deep_plist. induction H as [|y l Hy _ IH]; [reflexivity|]. rewrite deep_list_cons, IH, andb_true_r.
    destruct y; try reflexivity; contradiction.
  - rewrite deep_pdict. induction H as [|[k y] d Hy _ IH]; [reflexivity|]. cbn [deep_dict]. fold (deep_dict P).
    rewrite IH, andb_true_r. cbn [snd] in Hy. destruct y; try reflexivity; contradiction.
Qed.

Lemma deep_list_flat P raw : (forall x, In x raw -> flat x) -> deep_list P raw = true.
Proof.
  induction raw as [|x raw IH]; intros H; [reflexivity|]. rewrite deep_list_cons, (flat_deep P x (H x (or_introl eq_refl))).
  apply IH. intros y Hy. apply H. right. exact Hy.
Qed.

Definition clean_cond (cur : list (option nat)) (j : nat) (f : fdesc) (x : pv) : bool :=
  match group_selects cur f j with
  | Some false => match x with PPlaceholder => true | _ => false end
  | _ => true
  end.

Lemma clean_slots_loop3 sc cur : forall raw fs j, loop3 (clean_cond cur) j raw fs = clean_slots sc cur j raw fs.
Proof.
  induction raw as [|x raw IH]; intros [|f fs] j; try reflexivity. cbn [loop3 clean_slots]. rewrite IH. reflexivity.
Qed.

Lemma cur_ok_intro sc c raw sow unk cur :
  (forall g j, nth g cur None = Some j -> exists f, nth_error (cfields (get_class sc c)) j = Some f /\ fgroup f = Some g) ->
  cur_ok sc (Obj c raw sow unk cur) = true.
Proof.
  unfold cur_ok. cbn [ocls ocur]. set (fs := cfields (get_class sc c)).
  assert (H : forall cur g0,
    (forall g j, nth g cur None = Some j -> exists f, nth_error fs j = Some f /\ fgroup f = Some (g0 + g)%nat) ->
    (fix go (g : nat) (cur : list (option nat)) : bool :=
       match cur with
       | [] => true
       | None :: r => go (S g) r
       | Some i :: r => match nth_error fs i with Some f => opt_nat_eqb (fgroup f) (Some g) | None => false end && go (S g) r
       end) g0 cur = true).
  { clear. induction cur as [|o cur IH]; intros g0 H; [reflexivity|].
    assert (Hr : forall g j, nth g cur None = Some j -> exists f, nth_error fs j = Some f /\ fgroup f = Some (S g0 + g)%nat).
    { intros g j Hg. destruct (H (S g) j Hg) as (f & Hf & Hgf). exists f. split; [exact Hf|]. rewrite Hgf. f_equal. lia. }
    destruct o as [j|]; [|exact (IH (S g0) Hr)].
    destruct (H 0%nat j eq_refl) as (f & Hf & Hgf). rewrite Hf, Hgf, Nat.add_0_r. cbn [opt_nat_eqb]. rewrite Nat.eqb_refl.
    exact (IH (S g0) Hr). }
  intros Hc. apply (H cur 0%nat). intros g j Hg. destruct (Hc g j Hg) as (f & Hf & Hgf). exists f. auto.
Qed.

Section BuiltB.
  Variable sc : schema.
  Hypothesis Hsc : c01_schema_ok sc = true.
  Variables (c i : nat) (f : fdesc) (pos : epos) (e : nat) (k : pv) (v : Z).
  Hypothesis Hf : nth_error (cfields (get_class sc c)) i = Some f.
  Hypothesis Hp : enum_position f = Some (pos, e).
  Hypothesis Hv : EnumP.int32 v.
  Hypothesis Hk : pos = PosMapValue -> scalar_in_range (key_type f) k = true.

  Let Hwf := proj1 (schema_class_facts sc c Hsc).

  Lemma built_value_ok : c01_value_ok sc (built sc c i pos k v) = true.
  Proof.
    unfold c01_value_ok. rewrite (built_in_range sc c Hwf i f pos e k v Hf Hp Hv Hk). cbn [andb].
    rewrite (built_unfold sc c Hwf i f pos k v Hf), deep_msg.
    rewrite (deep_list_flat _ _ (braw_flat sc c i f pos e k v Hf Hp)), andb_true_r.
    apply andb_true_iff. split; [apply andb_true_iff; split; [apply andb_true_iff; split|]|].
    - (* oneof_clean *)
      rewrite oneof_clean_unfold, <- clean_slots_loop3. apply loop3_pointwise. intros j x f' Hx Hj. cbn [Nat.add].
      unfold clean_cond.
      destruct (braw_nth sc c i f pos k v Hf j x Hx) as [(-> & ->)|(Hne & f'' & Hj' & ->)].
      + rewrite Hf in Hj. injection Hj as <-. pose proof (bcur_selects_i sc c Hwf i f Hf) as Hs.
        destruct (group_selects (bcur sc c i f) f i) as [[|]|]; try reflexivity. congruence.
      + rewrite Hj in Hj'. injection Hj' as <-.
        destruct (group_selects (bcur sc c i f) f' j) as [[|]|] eqn:Hs; try reflexivity.
        unfold group_selects in Hs. destruct (fgroup f') as [g|] eqn:Hg; [|discriminate Hs].
        rewrite (fresh_group_member sc c Hwf j f' g Hj Hg). reflexivity.
    - (* cur_ok *)
      apply cur_ok_intro. intros g j Hg. destruct (bcur_nth sc c i f g j Hg) as (-> & Hgf). exists f. auto.
    - reflexivity.
    - (* keys_unique *)
      unfold keys_unique. cbn [oraw]. apply forallb_pointwise. intros x Hin. apply In_nth_error in Hin as (j & Hj).
      destruct (braw_nth sc c i f pos k v Hf j x Hj) as [(_ & ->)|(_ & f' & _ & ->)].
      + destruct pos; reflexivity.
      + unfold fresh_of. destruct (fopt f'); reflexivity.
  Qed.

  (* the binary theorem for the built message: no hypothesis on the message is left *)
  Theorem roundtrip_built_binary :
    EnumP.int32 v /\
    read sc (built sc c i pos k v) i = Ok (place pos k v) /\ holds_enum pos (place pos k v) v = true /\
    field_member sc e (PInt v) = Some (EnumP.canon (Enum.members_of (enum_body sc e)) v) /\
    exists bs, enc_obj sc (built sc c i pos k v) = Ok bs /\
      (Zlength bs < 2 ^ 64 ->
       exists m', parse sc c bs = Ok m' /\
         read sc m' i = Ok (place pos k v) /\
         (forall g, which_one_of m' g = which_one_of (built sc c i pos k v) g) /\
         enc_obj sc m' = Ok bs).
  Proof.
    pose proof (built_reads sc c Hwf i f pos e k v Hf Hp) as Hr.
    pose proof (place_holds f pos e k v Hp) as Hh.
    assert (Hc : ocls (built sc c i pos k v) = c) by (rewrite (built_unfold sc c Hwf i f pos k v Hf); reflexivity).
    assert (Hf' : nth_error (cfields (get_class sc (ocls (built sc c i pos k v)))) i = Some f) by (rewrite Hc; exact Hf).
    destruct (roundtrip_message_binary sc (built sc c i pos k v) i f pos e (place pos k v) v Hsc built_value_ok Hf' Hp Hr Hh)
      as (Hi & Hm & bs & Eb & Hrt).
    split; [exact Hi|]. split; [exact Hr|]. split; [exact Hh|]. split; [exact Hm|].
    exists bs. split; [exact Eb|]. rewrite Hc in Hrt. exact Hrt.
  Qed.
End BuiltB.

(* the statement of Properties/C20.v: the value condition holds AND the round trip *)
Lemma roundtrip_built_binary_full sc c i f pos e k v :
  c01_schema_ok sc = true ->
  nth_error (cfields (get_class sc c)) i = Some f -> enum_position f = Some (pos, e) ->
  EnumP.int32 v -> (pos = PosMapValue -> scalar_in_range (key_type f) k = true) ->
  let m := built sc c i pos k v in
  c01_value_ok sc m = true /\
  read sc m i = Ok (place pos k v) /\ holds_enum pos (place pos k v) v = true /\
  field_member sc e (PInt v) = Some (EnumP.canon (Enum.members_of (enum_body sc e)) v) /\
  exists bs, enc_obj sc m = Ok bs /\
    (Zlength bs < 2 ^ 64 ->
     exists m', parse sc c bs = Ok m' /\
       read sc m' i = Ok (place pos k v) /\
       (forall g, which_one_of m' g = which_one_of m g) /\
       enc_obj sc m' = Ok bs).
Proof.
  intros Hsc Hf Hp Hv Hk m. subst m.
  split; [exact (built_value_ok sc Hsc c i f pos e k v Hf Hp Hv Hk)|].
  exact (proj2 (roundtrip_built_binary sc Hsc c i f pos e k v Hf Hp Hv Hk)).
Qed.
