(* C02, framing layer.  Spec/Wire.v's relation [wire_ok] and function [parse_wire] agree
   (both directions), and the model's tag/payload reader (Model/Decode.load_varint +
   load_field) reads a legal record exactly as the specification does, with
   praw = the bytes the record occupied. *)
From BP Require Import Base.Prelude Model.Types Model.Varint Model.Object Model.Decode.
From BP Require Import Spec.Varint Spec.Wire Proofs.BytesP Proofs.VarintP.
From BP Require Import gen.Tables.
From Coq Require Import ZifyBool ZifyN.
Ltac Zify.zify_post_hook ::= Z.to_euclidean_division_equations.

Scheme rec_ok_mind := Minimality for rec_ok Sort Prop
  with wire_ok_mind := Minimality for wire_ok Sort Prop.

(* ------------------------------------------------------------------ read_varint <-> VarintRep *)
Lemma read_varint_complete raw : forall k rest,
  varint_shape raw -> (length raw <= k)%nat ->
  read_varint k (raw ++ rest) = Some (varint_value raw, rest).
Proof.
  induction raw as [|b r IH]; intros k rest Sh Le; [cbn in Sh; tauto|].
  destruct k as [|k]; [cbn in Le; lia|].
  cbn [app read_varint varint_value]. pose proof (Z_of_byte_range b) as Hb.
  cbn [varint_shape] in Sh. destruct r as [|b' r'].
  - replace (Z_of_byte b <? 128) with true by lia. cbn [varint_value app]. f_equal. f_equal. lia.
  - destruct Sh as [Hge Sh]. replace (Z_of_byte b <? 128) with false by lia.
    rewrite (IH k rest Sh) by (cbn [length] in *; lia). f_equal. f_equal. lia.
Qed.

Lemma read_varint_cons k b r :
  read_varint (S k) (b :: r) =
  if Z_of_byte b <? 128 then Some (Z_of_byte b, r)
  else match read_varint k r with
       | Some (v, r') => Some (Z_of_byte b - 128 + 128 * v, r')
       | None => None
       end.
Proof. reflexivity. Qed.

Lemma read_varint_sound k : forall s n rest,
  read_varint k s = Some (n, rest) ->
  exists raw, s = raw ++ rest /\ varint_shape raw /\ varint_value raw = n /\ (length raw <= k)%nat.
Proof.
  induction k as [|k IH]; intros s n rest H; [destruct s; discriminate|].
  destruct s as [|b s]; [discriminate|]. rewrite read_varint_cons in H.
  pose proof (Z_of_byte_range b) as Hb.
  destruct (Z_of_byte b <? 128) eqn:E.
  - injection H as <- <-. exists [b]. split; [reflexivity|]. split; [cbn [varint_shape]; lia|].
    split; [cbn [varint_value]; lia | cbn [length]; lia].
  - destruct (read_varint k s) as [[v r']|] eqn:R; [|discriminate].
    assert (Hn : Z_of_byte b - 128 + 128 * v = n) by congruence.
    assert (Hr : r' = rest) by congruence. clear H. subst n rest.
    destruct (IH _ _ _ R) as (raw & -> & Sh & Va & Le).
    exists (b :: raw). split; [reflexivity|]. split.
    { cbn [varint_shape]. destruct raw; [cbn in Sh; tauto|]. split; [lia|exact Sh]. }
    split; [cbn [varint_value]; lia | cbn [length]; lia].
Qed.

Lemma VarintRep_read n raw k rest :
  VarintRep n raw -> (length raw <= k)%nat -> read_varint k (raw ++ rest) = Some (n, rest).
Proof. intros (Sh & Va & _) Le. rewrite read_varint_complete by assumption. now rewrite Va. Qed.

Lemma VarintRep_nonempty n raw : VarintRep n raw -> raw <> [].
Proof. intros (Sh & _). now apply varint_shape_nonempty. Qed.

Lemma VarintRep_nonneg n raw : VarintRep n raw -> 0 <= n.
Proof. intros (_ & <- & _). apply varint_value_nonneg. Qed.

(* ------------------------------------------------------------------ tags *)
Lemma tag_split num wt : 0 <= wt < 8 -> (num * 8 + wt) / 8 = num /\ (num * 8 + wt) mod 8 = wt.
Proof. intros H. lia. Qed.

Lemma tag_bits num wt : 0 <= num -> 0 <= wt < 8 ->
  Z.shiftr (num * 8 + wt) 3 = num /\ Z.land (num * 8 + wt) 7 = wt.
Proof.
  intros Hn Hw. split.
  - rewrite Z.shiftr_div_pow2 by lia. change (2 ^ 3) with 8. lia.
  - change 7 with (Z.ones 3). rewrite Z.land_ones by lia. change (2 ^ 3) with 8. lia.
Qed.

Lemma TagRep_read num wt t rest :
  TagRep num wt t -> read_varint tag_max (t ++ rest) = Some (num * 8 + wt, rest).
Proof. intros (R & L & _). now apply VarintRep_read. Qed.

Lemma TagRep_nonempty num wt t : TagRep num wt t -> t <> [].
Proof. intros (R & _). eapply VarintRep_nonempty; eauto. Qed.

Lemma length_pos_of_nonempty {A} (l : list A) : l <> [] -> (1 <= length l)%nat.
Proof. destruct l; [congruence | cbn; lia]. Qed.

(* ------------------------------------------------------------------ take *)
Lemma take_app n (b rest : list byte) : length b = n -> take n (b ++ rest) = Some (b, rest).
Proof.
  intros <-. unfold take. rewrite app_length.
  replace (Nat.leb (length b) (length b + length rest)) with true by (symmetry; apply Nat.leb_le; lia).
  rewrite firstn_app, Nat.sub_diag, firstn_all. cbn [firstn]. rewrite app_nil_r.
  rewrite skipn_app, Nat.sub_diag, skipn_all. reflexivity.
Qed.

Lemma takez_app (b rest : list byte) : takez (Zlength b) (b ++ rest) = Some (b, rest).
Proof.
  unfold takez, Zlength. rewrite app_length.
  replace (Z.of_nat (length b) <=? Z.of_nat (length b + length rest)) with true by lia.
  rewrite Nat2Z.id. now apply take_app.
Qed.

Lemma take_sound n s b rest : take n s = Some (b, rest) -> s = b ++ rest /\ length b = n.
Proof.
  unfold take. destruct (Nat.leb n (length s)) eqn:E; [|discriminate]. intros [= <- <-].
  apply Nat.leb_le in E. split; [symmetry; apply firstn_skipn | apply firstn_length_le; exact E].
Qed.

Lemma takez_sound n s b rest : 0 <= n -> takez n s = Some (b, rest) -> s = b ++ rest /\ Zlength b = n.
Proof.
  unfold takez. intros Hn. destruct (n <=? Zlength s); [|discriminate]. intros H.
  apply take_sound in H as [-> L]. split; [reflexivity|]. unfold Zlength. lia.
Qed.

(* ------------------------------------------------------------------ wire_ok -> parse_records *)
(* what must follow the records: nothing at top level, the matching end tag inside a group *)
Definition closes (grp : option Z) (tail rest : list byte) : Prop :=
  match grp with
  | None => tail = [] /\ rest = []
  | Some g => exists e, TagRep g 4 e /\ tail = e ++ rest
  end.

Lemma parse_records_cons fuel grp b s :
  parse_records (S fuel) grp (b :: s) = parse_one (parse_records fuel) grp (b :: s).
Proof. reflexivity. Qed.

Lemma parse_records_nonempty fuel grp s :
  s <> [] -> parse_records (S fuel) grp s = parse_one (parse_records fuel) grp s.
Proof. destruct s; [congruence | reflexivity]. Qed.

Lemma app_nonempty {A} (a b : list A) : a <> [] -> a ++ b <> [].
Proof. destruct a; [congruence | discriminate]. Qed.

(* parse_one on a stream that starts with a legal tag *)
Lemma parse_one_tag rec grp num wt t x :
  TagRep num wt t -> 0 <= wt < 8 ->
  parse_one rec grp (t ++ x) =
  (let continue (p : payload) (rest : list byte) :=
     match rec grp rest with Some (rs, rest') => Some ((num, p) :: rs, rest') | None => None end in
   if wt =? 0 then
     match read_varint 10 x with
     | Some (v, r2) => if v <? 2 ^ 64 then continue (Varint v) r2 else None
     | None => None
     end
   else if wt =? 1 then match take 8 x with Some (b, r2) => continue (Fixed64 b) r2 | None => None end
   else if wt =? 2 then
     match read_varint tag_max x with
     | Some (n, r2) => match takez n r2 with Some (b, r3) => continue (Len b) r3 | None => None end
     | None => None
     end
   else if wt =? 5 then match take 4 x with Some (b, r2) => continue (Fixed32 b) r2 | None => None end
   else if wt =? 3 then
     match rec (Some num) x with Some (inner, r2) => continue (Group inner) r2 | None => None end
   else if wt =? 4 then
     match grp with Some g => if g =? num then Some ([], x) else None | None => None end
   else None).
Proof.
  intros T Hw. unfold parse_one. rewrite (TagRep_read _ _ _ _ T). destruct T as (_ & _ & Hr).
  destruct (tag_split num wt Hw) as [-> ->].
  replace ((num <? 1) || (2 ^ 29 <=? num)) with false by lia. reflexivity.
Qed.

Lemma parse_records_end fuel grp tail rest :
  closes grp tail rest -> parse_records (S fuel) grp tail = Some ([], rest).
Proof.
  destruct grp as [g|]; cbn [closes].
  - intros (e & T & ->). rewrite parse_records_nonempty by (apply app_nonempty; eapply TagRep_nonempty; eauto).
    rewrite (parse_one_tag _ _ _ _ _ _ T) by lia. cbn [Z.eqb]. rewrite Z.eqb_refl. reflexivity.
  - intros [-> ->]. reflexivity.
Qed.

Definition P_rec (a : list byte) (r : record) : Prop :=
  forall fuel grp s rs rest, (length a + length s < S fuel)%nat ->
    parse_records fuel grp s = Some (rs, rest) ->
    parse_records (S fuel) grp (a ++ s) = Some (r :: rs, rest).
Definition P_wire (bs : list byte) (rs : list record) : Prop :=
  forall fuel grp tail rest, closes grp tail rest -> (length bs + length tail < fuel)%nat ->
    parse_records fuel grp (bs ++ tail) = Some (rs, rest).

Combined Scheme rec_wire_mind from rec_ok_mind, wire_ok_mind.

Lemma wire_ok_parse_gen :
  (forall a r, rec_ok a r -> P_rec a r) /\ (forall bs rs, wire_ok bs rs -> P_wire bs rs).
Proof.
  apply rec_wire_mind; unfold P_rec, P_wire.
  - (* varint *)
    intros num t v n T R Hn fuel grp s rs rest _ H.
    rewrite <- app_assoc, parse_records_nonempty by (apply app_nonempty; eapply TagRep_nonempty; eauto).
    rewrite (parse_one_tag _ _ _ _ _ _ T) by lia. cbn [Z.eqb].
    rewrite (VarintRep_read _ _ 10 _ R) by (destruct R as (_ & _ & L); exact L).
    replace (n <? 2 ^ 64) with true by lia. rewrite H. reflexivity.
  - (* fixed64 *)
    intros num t b T L fuel grp s rs rest _ H.
    rewrite <- app_assoc, parse_records_nonempty by (apply app_nonempty; eapply TagRep_nonempty; eauto).
    rewrite (parse_one_tag _ _ _ _ _ _ T) by lia. cbn [Z.eqb].
    rewrite (take_app 8 b s L), H. reflexivity.
  - (* len *)
    intros num t l b T R Ll fuel grp s rs rest _ H.
    rewrite <- !app_assoc, parse_records_nonempty by (apply app_nonempty; eapply TagRep_nonempty; eauto).
    rewrite (parse_one_tag _ _ _ _ _ _ T) by lia. cbn [Z.eqb].
    rewrite (VarintRep_read _ _ tag_max _ R Ll), takez_app, H. reflexivity.
  - (* fixed32 *)
    intros num t b T L fuel grp s rs rest _ H.
    rewrite <- app_assoc, parse_records_nonempty by (apply app_nonempty; eapply TagRep_nonempty; eauto).
    rewrite (parse_one_tag _ _ _ _ _ _ T) by lia. cbn [Z.eqb].
    rewrite (take_app 4 b s L), H. reflexivity.
  - (* group *)
    intros num t body rs0 e T _ IHbody E fuel grp s rs rest Hlen H.
    rewrite <- !app_assoc, parse_records_nonempty by (apply app_nonempty; eapply TagRep_nonempty; eauto).
    rewrite (parse_one_tag _ _ _ _ _ _ T) by lia. cbn [Z.eqb].
    pose proof (length_pos_of_nonempty _ (TagRep_nonempty _ _ _ T)) as Lt.
    rewrite (IHbody fuel (Some num) (e ++ s) s).
    + rewrite H. reflexivity.
    + exists e. split; [exact E | reflexivity].
    + rewrite !app_length in *. lia.
  - (* nil *)
    intros fuel grp tail rest C L. destruct fuel as [|fuel]; [lia|]. cbn [app]. now apply parse_records_end.
  - (* cons *)
    intros a r b rs Ra IHa _ IHb fuel grp tail rest C L.
    destruct fuel as [|fuel]; [lia|]. rewrite <- app_assoc.
    assert (La : (1 <= length a)%nat).
    { inversion Ra; subst; rewrite !app_length;
        match goal with T : TagRep _ _ ?t |- _ => pose proof (length_pos_of_nonempty _ (TagRep_nonempty _ _ _ T)) end; lia. }
    apply IHa.
    + rewrite !app_length in *. lia.
    + apply IHb; [exact C|]. rewrite !app_length in *. lia.
Qed.

Theorem wire_ok_parse bs rs : wire_ok bs rs -> parse_wire bs = Some rs.
Proof.
  intros H. unfold parse_wire.
  pose proof (proj2 wire_ok_parse_gen bs rs H (S (length bs)) None [] [] (conj eq_refl eq_refl)) as P.
  rewrite app_nil_r in P. rewrite P; [reflexivity | cbn; lia].
Qed.

(* ------------------------------------------------------------------ parse_records -> wire_ok *)
Lemma wire_ok_one a r : rec_ok a r -> wire_ok a [r].
Proof. intros H. rewrite <- (app_nil_r a). apply ok_cons; [exact H | apply ok_nil]. Qed.

Lemma wire_ok_app a ra b rb : wire_ok a ra -> wire_ok b rb -> wire_ok (a ++ b) (ra ++ rb).
Proof.
  intros Ha Hb. induction Ha as [|a r a' rs Hr Ha IH]; [exact Hb|].
  rewrite <- app_assoc. cbn [app]. apply ok_cons; assumption.
Qed.

Lemma parse_records_sound fuel : forall grp s rs rest,
  parse_records fuel grp s = Some (rs, rest) ->
  exists bs tail, s = bs ++ tail /\ wire_ok bs rs /\ closes grp tail rest.
Proof.
  induction fuel as [|fuel IH]; intros grp s rs rest H; [discriminate|].
  destruct s as [|b0 s0].
  { cbn in H. destruct grp; [discriminate|]. injection H as <- <-.
    exists [], []. repeat split; constructor. }
  rewrite parse_records_cons in H. remember (b0 :: s0) as s eqn:Es. clear Es b0 s0.
  unfold parse_one in H.
  destruct (read_varint tag_max s) as [[tag r1]|] eqn:Rt; [|discriminate].
  destruct (read_varint_sound _ _ _ _ Rt) as (t & -> & Sh & Va & Le).
  pose proof (varint_value_nonneg t) as Hnn. rewrite Va in Hnn.
  set (num := tag / 8) in *. set (wt := tag mod 8) in *.
  destruct ((num <? 1) || (2 ^ 29 <=? num)) eqn:Rg; [discriminate|].
  assert (T : TagRep num wt t).
  { split; [|split; [exact Le | lia]]. split; [exact Sh|]. split; [unfold num, wt; lia | unfold tag_max in Le; lia]. }
  assert (Hwt : 0 <= wt < 8) by (unfold wt; lia).
  (* the continuation shared by the payload cases *)
  assert (K : forall p a rest1,
             rec_ok (t ++ a) (num, p) ->
             match parse_records fuel grp rest1 with
             | Some (rs0, rest') => Some ((num, p) :: rs0, rest')
             | None => None
             end = Some (rs, rest) ->
             exists bs tail, t ++ a ++ rest1 = bs ++ tail /\ wire_ok bs rs /\ closes grp tail rest).
  { intros p a rest1 Hr Hk. destruct (parse_records fuel grp rest1) as [[rs0 rest']|] eqn:P; [|discriminate].
    injection Hk as <- <-. destruct (IH _ _ _ _ P) as (bs & tail & -> & W & C).
    exists ((t ++ a) ++ bs), tail. split; [now rewrite <- !app_assoc|]. split; [|exact C].
    apply ok_cons; assumption. }
  destruct (wt =? 0) eqn:W0.
  { destruct (read_varint 10 r1) as [[v r2]|] eqn:Rv; [|discriminate].
    destruct (v <? 2 ^ 64) eqn:Hv; [|discriminate].
    destruct (read_varint_sound _ _ _ _ Rv) as (vb & -> & Sh' & Va' & Le').
    apply (K (Varint v) vb r2); [|exact H].
    replace wt with 0 in T by lia. apply ok_varint; [exact T | | lia]. repeat split; assumption. }
  destruct (wt =? 1) eqn:W1.
  { destruct (take 8 r1) as [[b r2]|] eqn:Tk; [|discriminate].
    apply take_sound in Tk as [-> Lb]. apply (K (Fixed64 b) b r2); [|exact H].
    replace wt with 1 in T by lia. now apply ok_fixed64. }
  destruct (wt =? 2) eqn:W2.
  { destruct (read_varint tag_max r1) as [[n r2]|] eqn:Rv; [|discriminate].
    destruct (read_varint_sound _ _ _ _ Rv) as (lb & -> & Sh' & Va' & Le').
    destruct (takez n r2) as [[b r3]|] eqn:Tk; [|discriminate].
    pose proof (varint_value_nonneg lb) as Hn0. rewrite Va' in Hn0.
    apply takez_sound in Tk as [-> Lb]; [|exact Hn0].
    specialize (K (Len b) (lb ++ b) r3). rewrite <- !app_assoc in K. apply K; [|exact H].
    replace wt with 2 in T by lia. apply ok_len; [exact T | | exact Le'].
    split; [exact Sh'|]. split; [lia | unfold tag_max in Le'; lia]. }
  destruct (wt =? 5) eqn:W5.
  { destruct (take 4 r1) as [[b r2]|] eqn:Tk; [|discriminate].
    apply take_sound in Tk as [-> Lb]. apply (K (Fixed32 b) b r2); [|exact H].
    replace wt with 5 in T by lia. now apply ok_fixed32. }
  destruct (wt =? 3) eqn:W3.
  { destruct (parse_records fuel (Some num) r1) as [[inner r2]|] eqn:Pi; [|discriminate].
    destruct (IH _ _ _ _ Pi) as (body & tail & -> & Wb & (e & Te & ->)).
    specialize (K (Group inner) (body ++ e) r2). rewrite <- !app_assoc in K. apply K; [|exact H].
    replace wt with 3 in T by lia. now apply ok_group. }
  destruct (wt =? 4) eqn:W4; [|discriminate].
  destruct grp as [g|]; [|discriminate]. destruct (g =? num) eqn:Eg; [|discriminate].
  injection H as <- <-. exists [], (t ++ r1). split; [reflexivity|]. split; [constructor|].
  exists t. split; [|reflexivity]. replace g with num by lia. replace wt with 4 in T by lia. exact T.
Qed.

Theorem parse_wire_sound bs rs : parse_wire bs = Some rs -> wire_ok bs rs.
Proof.
  unfold parse_wire. destruct (parse_records (S (length bs)) None bs) as [[rs' rest]|] eqn:P; [|discriminate].
  intros [= ->]. destruct (parse_records_sound _ _ _ _ _ P) as (b & tail & -> & W & [-> _]).
  now rewrite app_nil_r.
Qed.

Theorem parse_wire_iff bs rs : parse_wire bs = Some rs <-> wire_ok bs rs.
Proof. split; [apply parse_wire_sound | apply wire_ok_parse]. Qed.

(* the concatenation of two legal serialisations is the legal serialisation of the concatenation *)
Lemma parse_wire_app a ra b rb :
  parse_wire a = Some ra -> parse_wire b = Some rb -> parse_wire (a ++ b) = Some (ra ++ rb).
Proof. rewrite !parse_wire_iff. apply wire_ok_app. Qed.

(* ------------------------------------------------------------------ the model's reader on a legal record *)
Definition group_loop (fuel' : nat) (number wire_type : Z) :=
  fix group (n : nat) (s : list byte) (raw : list byte) {struct n} : result (parsed * list byte) :=
    match n with
    | O => Err EFuel
    | S n' =>
        do (inner, r, s1) <- load_varint s;
        if Z.land inner 7 =? WIRE_END_GROUP then
          if Z.shiftr inner 3 =? number then Ok (mkP number wire_type 0 [] (raw ++ r), s1)
          else Err EValue
        else
          do (p, s2) <- load_field fuel' s1 inner (raw ++ r);
          group n' s2 (praw p)
    end.

Lemma load_field_unfold fuel s num_wire raw :
  load_field fuel s num_wire raw =
  (let number := Z.shiftr num_wire 3 in
   let wire_type := Z.land num_wire 7 in
   if number =? 0 then Err EValue
   else if wire_type =? WIRE_VARINT then
     do (v, r, s') <- load_varint s; Ok (mkP number wire_type v [] (raw ++ r), s')
   else if wire_type =? WIRE_FIXED_64 then
     do (d, s') <- read_exactly s 8; Ok (mkP number wire_type 0 d (raw ++ d), s')
   else if wire_type =? WIRE_LEN_DELIM then
     do (len, r, s1) <- load_varint s;
     do (d, s') <- read_exactly s1 len;
     Ok (mkP number wire_type 0 d (raw ++ r ++ d), s')
   else if wire_type =? WIRE_FIXED_32 then
     do (d, s') <- read_exactly s 4; Ok (mkP number wire_type 0 d (raw ++ d), s')
   else if wire_type =? WIRE_START_GROUP then
     match fuel with
     | O => Err EFuel
     | S fuel' => group_loop fuel' number wire_type fuel s raw
     end
   else Err EValue).
Proof. destruct fuel; reflexivity. Qed.

Lemma read_exactly_app (b rest : list byte) n :
  Zlength b = n -> read_exactly (b ++ rest) n = Ok (b, rest).
Proof.
  intros <-. unfold read_exactly, Zlength. rewrite app_length.
  replace ((0 <=? Z.of_nat (length b)) && (Z.of_nat (length b) <=? Z.of_nat (length b + length rest))) with true by lia.
  rewrite Nat2Z.id. rewrite firstn_app, Nat.sub_diag, firstn_all. cbn [firstn]. rewrite app_nil_r.
  rewrite skipn_app, Nat.sub_diag, skipn_all. reflexivity.
Qed.

(* what the ParsedField of a record looks like *)
Definition parsed_of (r : record) (raw : list byte) : parsed :=
  match snd r with
  | Varint n => mkP (fst r) 0 n [] raw
  | Fixed64 b => mkP (fst r) 1 0 b raw
  | Len b => mkP (fst r) 2 0 b raw
  | Fixed32 b => mkP (fst r) 5 0 b raw
  | Group _ => mkP (fst r) 3 0 [] raw
  end.

Definition M_rec (a : list byte) (r : record) : Prop :=
  forall fuel pre rest, (length a <= fuel)%nat ->
    exists tb rest1,
      load_varint (a ++ rest) = Ok (fst r * 8 + wt_of (snd r), tb, rest1) /\
      load_field fuel rest1 (fst r * 8 + wt_of (snd r)) (pre ++ tb) = Ok (parsed_of r (pre ++ a), rest).
Definition M_wire (body : list byte) (rs : list record) : Prop :=
  forall n fuel' num wt e rest raw,
    TagRep num 4 e -> (length body + length e <= n)%nat -> (length body <= fuel')%nat ->
    group_loop fuel' num wt n (body ++ e ++ rest) raw = Ok (mkP num wt 0 [] (raw ++ body ++ e), rest).

Lemma TagRep_load num wt t rest : TagRep num wt t -> load_varint (t ++ rest) = Ok (num * 8 + wt, t, rest).
Proof. intros (R & _). now apply load_varint_rep. Qed.

Lemma model_reads_gen :
  (forall a r, rec_ok a r -> M_rec a r) /\ (forall bs rs, wire_ok bs rs -> M_wire bs rs).
Proof.
  apply rec_wire_mind; unfold M_rec, M_wire.
  - (* varint *)
    intros num t v n T R Hn fuel pre rest _. exists t, (v ++ rest). cbn [fst snd wt_of].
    rewrite <- app_assoc. split; [now apply TagRep_load|].
    rewrite load_field_unfold. destruct T as (_ & _ & Hr). cbv zeta.
    destruct (tag_bits num 0 ltac:(lia) ltac:(lia)) as [-> ->].
    replace (num =? 0) with false by lia. unfold WIRE_VARINT. cbn [Z.eqb Pos.eqb].
    rewrite (load_varint_rep _ _ _ R). cbn [bind]. unfold parsed_of. cbn [fst snd].
    now rewrite <- app_assoc.
  - (* fixed64 *)
    intros num t b T L fuel pre rest _. exists t, (b ++ rest). cbn [fst snd wt_of].
    rewrite <- app_assoc. split; [now apply TagRep_load|].
    rewrite load_field_unfold. destruct T as (_ & _ & Hr). cbv zeta.
    destruct (tag_bits num 1 ltac:(lia) ltac:(lia)) as [-> ->].
    replace (num =? 0) with false by lia. unfold WIRE_VARINT, WIRE_FIXED_64. cbn [Z.eqb Pos.eqb].
    rewrite read_exactly_app by (unfold Zlength; lia). cbn [bind]. unfold parsed_of. cbn [fst snd].
    now rewrite <- app_assoc.
  - (* len *)
    intros num t l b T R Ll fuel pre rest _. exists t, (l ++ b ++ rest). cbn [fst snd wt_of].
    rewrite <- !app_assoc. split; [now apply TagRep_load|].
    rewrite load_field_unfold. destruct T as (_ & _ & Hr). cbv zeta.
    destruct (tag_bits num 2 ltac:(lia) ltac:(lia)) as [-> ->].
    replace (num =? 0) with false by lia. unfold WIRE_VARINT, WIRE_FIXED_64, WIRE_LEN_DELIM. cbn [Z.eqb Pos.eqb].
    rewrite (load_varint_rep _ _ _ R). cbn [bind].
    rewrite read_exactly_app by reflexivity. cbn [bind]. unfold parsed_of. cbn [fst snd].
    now rewrite <- !app_assoc.
  - (* fixed32 *)
    intros num t b T L fuel pre rest _. exists t, (b ++ rest). cbn [fst snd wt_of].
    rewrite <- app_assoc. split; [now apply TagRep_load|].
    rewrite load_field_unfold. destruct T as (_ & _ & Hr). cbv zeta.
    destruct (tag_bits num 5 ltac:(lia) ltac:(lia)) as [-> ->].
    replace (num =? 0) with false by lia.
    unfold WIRE_VARINT, WIRE_FIXED_64, WIRE_LEN_DELIM, WIRE_FIXED_32. cbn [Z.eqb Pos.eqb].
    rewrite read_exactly_app by (unfold Zlength; lia). cbn [bind]. unfold parsed_of. cbn [fst snd].
    now rewrite <- app_assoc.
  - (* group *)
    intros num t body rs e T _ IHbody E fuel pre rest Lf. exists t, (body ++ e ++ rest). cbn [fst snd wt_of].
    rewrite <- !app_assoc. split; [now apply TagRep_load|].
    rewrite load_field_unfold. pose proof T as (_ & _ & Hr). cbv zeta.
    destruct (tag_bits num 3 ltac:(lia) ltac:(lia)) as [-> ->].
    replace (num =? 0) with false by lia.
    unfold WIRE_VARINT, WIRE_FIXED_64, WIRE_LEN_DELIM, WIRE_FIXED_32, WIRE_START_GROUP. cbn [Z.eqb Pos.eqb].
    pose proof (length_pos_of_nonempty _ (TagRep_nonempty _ _ _ T)) as Lt.
    pose proof (length_pos_of_nonempty _ (TagRep_nonempty _ _ _ E)) as Le.
    rewrite !app_length in Lf.
    destruct fuel as [|fuel']; [lia|].
    rewrite (IHbody (S fuel') fuel' num 3 e rest (pre ++ t) E) by lia.
    unfold parsed_of. cbn [fst snd]. now rewrite <- !app_assoc.
  - (* nil *)
    intros n fuel' num wt e rest raw E Ln _. cbn [app].
    pose proof (length_pos_of_nonempty _ (TagRep_nonempty _ _ _ E)) as Le.
    destruct n as [|n]; [cbn [length] in Ln; lia|]. cbn [group_loop].
    rewrite (TagRep_load _ _ _ _ E). cbn [bind]. pose proof E as (_ & _ & Hr).
    destruct (tag_bits num 4 ltac:(lia) ltac:(lia)) as [-> ->].
    unfold WIRE_END_GROUP. cbn [Z.eqb Pos.eqb]. rewrite Z.eqb_refl. reflexivity.
  - (* cons *)
    intros a r b rs Ra IHa _ IHb n fuel' num wt e rest raw E Ln Lf.
    assert (La : (1 <= length a)%nat).
    { inversion Ra; subst; rewrite !app_length;
        match goal with T : TagRep _ _ ?t |- _ => pose proof (length_pos_of_nonempty _ (TagRep_nonempty _ _ _ T)) end; lia. }
    rewrite app_length in Ln, Lf.
    destruct n as [|n]; [lia|]. cbn [group_loop]. rewrite <- app_assoc.
    destruct (IHa fuel' raw (b ++ e ++ rest) ltac:(lia)) as (tb & rest1 & Hv & Hf).
    rewrite Hv. cbn [bind].
    assert (Hnot : Z.land (fst r * 8 + wt_of (snd r)) 7 =? WIRE_END_GROUP = false).
    { assert (Hnum : 1 <= fst r) by (inversion Ra; subst; cbn [fst];
          match goal with T : TagRep _ _ _ |- _ => destruct T as (_ & _ & ?) end; lia).
      assert (Hw : 0 <= wt_of (snd r) < 8 /\ wt_of (snd r) <> 4) by (destruct (snd r); cbn; lia).
      destruct (tag_bits (fst r) (wt_of (snd r)) ltac:(lia) ltac:(lia)) as [_ ->]. unfold WIRE_END_GROUP. lia. }
    rewrite Hnot, Hf. cbn [bind].
    assert (Hraw : praw (parsed_of r (raw ++ a)) = raw ++ a) by (unfold parsed_of; destruct (snd r); reflexivity).
    rewrite Hraw, (IHb n fuel' num wt e rest (raw ++ a) E) by lia.
    now rewrite <- !app_assoc.
Qed.

(* load_fields' step on a legal record: the tag, then the payload; praw = the record's bytes *)
Theorem model_reads_record a r fuel rest :
  rec_ok a r -> (length a <= fuel)%nat ->
  exists tb rest1,
    load_varint (a ++ rest) = Ok (fst r * 8 + wt_of (snd r), tb, rest1) /\
    load_field fuel rest1 (fst r * 8 + wt_of (snd r)) tb = Ok (parsed_of r a, rest).
Proof.
  intros H L. destruct (proj1 model_reads_gen a r H fuel [] rest L) as (tb & rest1 & A & B).
  exists tb, rest1. split; [exact A | exact B].
Qed.
