(* C17 below the top level: the statements as Properties/C17.v quotes them. *)
From BP Require Import Base.Prelude Model.Types Model.Varint Model.Utf8 Model.Object Model.Decode Model.WellFormed Spec.Varint.
From BP Require Import Model.C17Typed Model.C17Wire Model.C17Step Model.C17Nested.
From BP Require Import Proofs.VarintP Proofs.C17FieldP Proofs.C17NestedP Proofs.C17NestedAcceptP.
From BP Require Import gen.Tables.
From Coq Require Import ZifyBool.

Lemma fixed_is_packed t w : fixed_width t = Some w -> tmem t PACKED_TYPES = true.
Proof. destruct t; intros H; try discriminate H; reflexivity. Qed.

Lemma varint_kind_packed t : tmem t WIRE_VARINT_TYPES = true -> tmem t PACKED_TYPES = true /\ fixed_width t = None.
Proof. destruct t; intros H; try discriminate H; split; reflexivity. Qed.

Section Statements.
  Variable sc : schema.
  Variables (pre tag lb d post : list byte) (nw : Z) (f : fdesc).
  Hypothesis Wp : wrecs pre.
  Hypothesis Rt : VarintRep nw tag.
  Hypothesis Hn : tag_num nw <> 0.
  Hypothesis Hw : tag_wt nw = 2.
  Hypothesis Rl : VarintRep (Zlength d) lb.

  Theorem packed_ragged_i o w :
    known_fit sc (ocls o) nw = Some f -> fixed_width (fty f) = Some w -> Zlength d mod w <> 0 ->
    exists e, parse_into sc o (pre ++ tag ++ lb ++ d ++ post) = Err e.
  Proof. intros Hk Hf Hm. eapply packed_ragged_into; try eassumption. eapply fixed_is_packed; eassumption. Qed.

  Theorem packed_varint_cut_i o good x n a y :
    known_fit sc (ocls o) nw = Some f -> tmem (fty f) WIRE_VARINT_TYPES = true ->
    d = good ++ x -> varints good -> x <> [] -> VarintRep n a -> a = x ++ y -> y <> [] ->
    exists e, parse_into sc o (pre ++ tag ++ lb ++ d ++ post) = Err e.
  Proof.
    intros Hk Hv Ed Hg Hx Ra Ea Hy. destruct (varint_kind_packed _ Hv) as [Hp Hf].
    eapply packed_varint_bad_into; try eassumption. eapply load_varint_cut; eassumption.
  Qed.

  Theorem packed_varint_overlong_i o good hi rest :
    known_fit sc (ocls o) nw = Some f -> tmem (fty f) WIRE_VARINT_TYPES = true ->
    d = good ++ hi ++ rest -> varints good -> length hi = 10%nat -> Forall (fun b => 128 <= Z_of_byte b) hi ->
    exists e, parse_into sc o (pre ++ tag ++ lb ++ d ++ post) = Err e.
  Proof.
    intros Hk Hv Ed Hg Hl Hh. destruct (varint_kind_packed _ Hv) as [Hp Hf].
    eapply (packed_varint_bad_into sc o pre tag lb d post nw f Wp Rt Hn Hw Rl Hk good (hi ++ rest)); try eassumption.
    - destruct hi; [discriminate Hl | discriminate].
    - apply load_varint_overlong; assumption.
  Qed.

  (* the exact criterion for varint-kind packed payloads *)
  Theorem packed_varint_invalid_i o :
    known_fit sc (ocls o) nw = Some f -> tmem (fty f) WIRE_VARINT_TYPES = true -> ~ varints d ->
    exists e, parse_into sc o (pre ++ tag ++ lb ++ d ++ post) = Err e.
  Proof.
    intros Hk Hv Hnv. destruct (varint_kind_packed _ Hv) as [Hp Hf].
    eapply len_record_rejected; try eassumption.
    intros L _. rewrite decode_len_packed by exact Hp.
    destruct (unpack_packed (S (length d)) (fty f) d) as [l|e] eqn:Eu; cbn [bind]; [|eauto].
    exfalso. apply Hnv. apply (unpack_packed_varints (S (length d)) (fty f) d Hf ltac:(lia)). eauto.
  Qed.
End Statements.

Lemma new_ocls sc c : ocls (new sc c) = c.
Proof. reflexivity. Qed.

Theorem invalid_rejected sc c bs :
  wf_schema sc = true -> has_builtins sc -> entries_agree sc = true ->
  ~ valid sc c bs -> exists e, parse sc c bs = Err e.
Proof.
  intros Hwf Hbi Hea Hnv. destruct (parse sc c bs) as [m|e] eqn:E; [|eauto].
  exfalso. apply Hnv. apply (accept_iff sc Hwf Hbi Hea c bs). eauto.
Qed.
