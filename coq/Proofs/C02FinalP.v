(* C02: the decoder refines the specification — assembly. *)
From BP Require Import Base.Prelude Model.Types Model.Varint Model.Object Model.Decode Model.WellFormed.
From BP Require Import Spec.Varint Spec.Wire.
From BP Require Import Proofs.C02Abs Proofs.C02WireP Proofs.C02LoadP Proofs.C02SimP Proofs.C02ElemP Proofs.C02LoopP Proofs.C02MapP.

Theorem decode_refines sc c bs rs a :
  wf_schema sc = true -> builtins_std sc = true ->
  parse_wire bs = Some rs ->
  sem (S (length bs)) sc c rs = Some a ->
  supported (S (length bs)) sc c rs = true ->
  exists m', parse sc c bs = Ok m' /\ abs_obj sc m' = a.
Proof.
  intros WF BS P Sm Sp.
  destruct (load_refines sc WF
              (fun n' pn nested_ok B c0 PN => map_step sc WF BS n' pn nested_ok B PN c0)
              (S (length bs)) c bs rs a ltac:(lia) (parse_wire_sound _ _ P) Sm Sp) as (o' & Hl & Ha & _).
  exists o'. split; [|exact Ha].
  unfold parse, parse_into. rewrite load_eq, Hl. reflexivity.
Qed.

(* the same statement for the relational form of "legal wire encoding" *)
Corollary decode_refines_rel sc c bs rs a :
  wf_schema sc = true -> builtins_std sc = true ->
  wire_ok bs rs ->
  sem (S (length bs)) sc c rs = Some a ->
  supported (S (length bs)) sc c rs = true ->
  exists m', parse sc c bs = Ok m' /\ abs_obj sc m' = a.
Proof. intros WF BS W. apply decode_refines; auto. now apply wire_ok_parse. Qed.

Print Assumptions decode_refines.
