(* C06, decoder side, part 2: what applying one parsed field does to the raw attributes and to
   _group_current (pointwise), and the typing invariant [good] it preserves. *)
From BP Require Import Base.Prelude Model.Types Model.Varint Model.Scalar Model.Float Model.Utf8.
From BP Require Import Model.Object Model.Eq Model.TimeCore Model.Decode Model.WellFormed Model.C06Obs.
From BP Require Import gen.Tables Spec.C06Wire Proofs.C06SpecP Proofs.C06LoopP Proofs.C06EncP.

(* ---- lists ---- *)
Lemma set_nth_length {A} (x : A) : forall l i, length (set_nth i x l) = length l.
Proof. induction l; destruct i; cbn; auto. Qed.

Lemma nth_set_nth_eq {A} (x d : A) : forall l i, (i < length l)%nat -> nth i (set_nth i x l) d = x.
Proof. induction l; destruct i; cbn; intros; try lia; auto. apply IHl. lia. Qed.

Lemma nth_set_nth_neq {A} (x d : A) : forall l i j, i <> j -> nth j (set_nth i x l) d = nth j l d.
Proof. induction l; destruct i, j; cbn; intros; try congruence; auto. Qed.

Lemma nth_error_lt {A} (l : list A) i x : nth_error l i = Some x -> (i < length l)%nat.
Proof. intros H. apply nth_error_Some. congruence. Qed.

(* ---- __setattr__, with the sibling reset named ---- *)
Definition reset_sibs (g i : nat) : nat -> list fdesc -> list pv -> list pv :=
  fix go (j : nat) (fs : list fdesc) (raw : list pv) : list pv :=
    match fs, raw with
    | f' :: fs', x :: raw' =>
        (if opt_nat_eqb (fgroup f') (Some g) && negb (Nat.eqb j i) then PPlaceholder else x)
        :: go (Datatypes.S j) fs' raw'
    | _, _ => raw
    end.

Lemma reset_sibs_cons g i j f' fs x raw :
  reset_sibs g i j (f' :: fs) (x :: raw) =
  (if opt_nat_eqb (fgroup f') (Some g) && negb (Nat.eqb j i) then PPlaceholder else x)
  :: reset_sibs g i (S j) fs raw.
Proof. reflexivity. Qed.

Lemma reset_sibs_nil_l g i j raw : reset_sibs g i j [] raw = raw.
Proof. reflexivity. Qed.

Lemma reset_sibs_nil_r g i j fs : reset_sibs g i j fs [] = [].
Proof. destruct fs; reflexivity. Qed.

Definition marked (sc : schema) (v : pv) : pv := if fieldless sc v then mark_sow v else v.

Lemma setattr_unfold sc c raw sow unk cur i v :
  setattr sc (Obj c raw sow unk cur) i v =
  match nth_error (cfields (get_class sc c)) i with
  | None => Obj c raw sow unk cur
  | Some f =>
      match fgroup f with
      | None => Obj c (set_nth i (marked sc v) raw) true unk cur
      | Some g => Obj c (set_nth i (marked sc v) (reset_sibs g i O (cfields (get_class sc c)) raw)) true unk
                      (set_nth g (Some i) cur)
      end
  end.
Proof. reflexivity. Qed.

Lemma opt_nat_eqb_eq a b : opt_nat_eqb a b = true -> a = b.
Proof.
  destruct a, b; cbn; intros H; try discriminate; try reflexivity.
  apply Nat.eqb_eq in H. congruence.
Qed.

Lemma reset_sibs_spec g i : forall fs raw j0,
  length (reset_sibs g i j0 fs raw) = length raw /\
  forall j, nth j (reset_sibs g i j0 fs raw) PPlaceholder = nth j raw PPlaceholder \/
            (nth j (reset_sibs g i j0 fs raw) PPlaceholder = PPlaceholder /\ (j0 + j)%nat <> i /\
             exists f', nth_error fs j = Some f' /\ fgroup f' = Some g).
Proof.
  induction fs as [|f' fs IH]; intros raw j0; [rewrite reset_sibs_nil_l; auto|].
  destruct raw as [|x raw]; [rewrite reset_sibs_nil_r; auto|].
  rewrite reset_sibs_cons. cbn [length]. destruct (IH raw (S j0)) as [IHl IHn]. split; [lia|].
  intros [|j].
  - cbn [nth]. destruct (opt_nat_eqb (fgroup f') (Some g)) eqn:Eg; [|left; reflexivity].
    destruct (Nat.eqb_spec j0 i) as [E|E]; [left; reflexivity|].
    right. cbn [andb negb]. split; [reflexivity|]. split; [lia|].
    exists f'. split; [reflexivity|]. apply opt_nat_eqb_eq. exact Eg.
  - cbn [nth nth_error]. destruct (IHn j) as [H|(H & Hne & He)]; [left; exact H|].
    right. split; [exact H|]. split; [lia|exact He].
Qed.

(* ---- the typing invariant ---- *)
Definition fits_hint (h : hint) (x : pv) : Prop :=
  match x with
  | PNone => exists t, h = HOptional t
  | PList _ => exists t, h = HList t
  | _ => True
  end.

Definition fields_of (sc : schema) (o : obj) : list fdesc := cfields (get_class sc (ocls o)).

Definition good (sc : schema) (o : obj) : Prop :=
  length (oraw o) = length (fields_of sc o) /\
  length (ocur o) = cngroups (get_class sc (ocls o)) /\
  forall j f, nth_error (fields_of sc o) j = Some f -> fits_hint (fhint f) (raw_at o j).

Lemma good_new sc c : opt_hinted sc -> good sc (new sc c).
Proof.
  intros Hoh. unfold good, new, fields_of, raw_at. cbn [oraw ocls ocur].
  rewrite map_length, repeat_length. repeat split.
  intros j f Hj.
  erewrite nth_error_nth by (rewrite nth_error_map, Hj; reflexivity).
  destruct (fopt f) eqn:Ho; [|exact I].
  apply (Hoh c f (nth_error_In _ _ Hj) Ho).
Qed.

Lemma good_mark_received sc o : good sc o -> good sc (mark_received o).
Proof. destruct o. exact (fun H => H). Qed.

Definition singular_hint (h : hint) : bool :=
  match h with HPlain _ | HOptional _ => true | _ => false end.

Lemma default_of_fits sc f : fits_hint (fhint f) (default_of sc f).
Proof.
  unfold default_of. destruct (fhint f) as [t|t|t|k v]; cbn; eauto. destruct t; exact I.
Qed.

Lemma default_of_shape sc f :
  default_of sc f <> PPlaceholder /\
  (singular_hint (fhint f) = true -> forall l, default_of sc f <> PList l).
Proof.
  unfold default_of. destruct (fhint f) as [t|t|t|k v]; try destruct t; split; try discriminate;
    intros; discriminate.
Qed.

(* ---- one step: the pointwise effect on raw attributes and group selection ---- *)
Record effect (sc : schema) (o o2 : obj) (i : nat) (f : fdesc) (vs : pv) : Prop := mkEffect {
  ef_cls : ocls o2 = ocls o;
  ef_len : length (oraw o2) = length (oraw o);
  ef_clen : length (ocur o2) = length (ocur o);
  ef_here : raw_at o2 i = vs;
  ef_other : forall j, j <> i ->
      raw_at o2 j = raw_at o j \/
      (raw_at o2 j = PPlaceholder /\ exists f' g, nth_error (fields_of sc o) j = Some f' /\
                                                fgroup f' = Some g /\ fgroup f = Some g);
  ef_cur : forall g, nth g (ocur o2) None =
                     if opt_nat_eqb (fgroup f) (Some g) then Some i else nth g (ocur o) None }.

Lemma opt_nat_eqb_refl g : opt_nat_eqb (Some g) (Some g) = true.
Proof. cbn. apply Nat.eqb_refl. Qed.

Lemma opt_nat_eqb_neq g g' : g <> g' -> opt_nat_eqb (Some g) (Some g') = false.
Proof. intros H. cbn. apply Nat.eqb_neq. exact H. Qed.

Lemma setattr_effect sc o i f v :
  nth_error (fields_of sc o) i = Some f ->
  length (oraw o) = length (fields_of sc o) ->
  (forall g, fgroup f = Some g -> (g < length (ocur o))%nat) ->
  effect sc o (setattr sc o i v) i f (marked sc v).
Proof.
  destruct o as [c raw sow unk cur]. unfold fields_of. cbn [ocls oraw ocur]. intros Hf Hl Hg.
  rewrite setattr_unfold, Hf. pose proof (nth_error_lt _ _ _ Hf) as Hi.
  destruct (fgroup f) as [g|] eqn:G.
  - destruct (reset_sibs_spec g i (cfields (get_class sc c)) raw O) as [Rl Rn].
    constructor; unfold raw_at, fields_of; cbn [ocls oraw ocur].
    + reflexivity.
    + rewrite set_nth_length. exact Rl.
    + apply set_nth_length.
    + apply nth_set_nth_eq. lia.
    + intros j Hj. rewrite nth_set_nth_neq by congruence.
      destruct (Rn j) as [H|(H & _ & f' & Hf' & Gf')]; [left; exact H|].
      right. split; [exact H|]. exists f', g. auto.
    + intros g'. rewrite G. destruct (Nat.eq_dec g g') as [<-|Ne].
      * rewrite opt_nat_eqb_refl. apply nth_set_nth_eq. apply Hg. reflexivity.
      * rewrite opt_nat_eqb_neq by exact Ne. apply nth_set_nth_neq. exact Ne.
  - constructor; unfold raw_at, fields_of; cbn [ocls oraw ocur].
    + reflexivity.
    + apply set_nth_length.
    + reflexivity.
    + apply nth_set_nth_eq. lia.
    + intros j Hj. left. apply nth_set_nth_neq. congruence.
    + intros g'. rewrite G. reflexivity.
Qed.

Lemma set_raw_effect sc o i f v :
  nth_error (fields_of sc o) i = Some f ->
  length (oraw o) = length (fields_of sc o) ->
  (forall g, fgroup f = Some g -> nth g (ocur o) None = Some i) ->
  effect sc o (set_raw o i v) i f v.
Proof.
  destruct o as [c raw sow unk cur]. unfold fields_of. cbn [ocls oraw ocur]. intros Hf Hl Hsel.
  pose proof (nth_error_lt _ _ _ Hf) as Hi.
  constructor; unfold raw_at, fields_of; cbn [set_raw ocls oraw ocur].
  - reflexivity.
  - apply set_nth_length.
  - reflexivity.
  - apply nth_set_nth_eq. lia.
  - intros j Hj. left. apply nth_set_nth_neq. congruence.
  - intros g. destruct (opt_nat_eqb (fgroup f) (Some g)) eqn:E; [|reflexivity].
    apply opt_nat_eqb_eq in E. apply Hsel. exact E.
Qed.

(* composing two steps on the same field *)
Lemma effect_trans sc o o1 o2 i f v1 v2 :
  effect sc o o1 i f v1 -> effect sc o1 o2 i f v2 -> effect sc o o2 i f v2.
Proof.
  intros A B. constructor.
  - rewrite (ef_cls _ _ _ _ _ _ B). apply (ef_cls _ _ _ _ _ _ A).
  - rewrite (ef_len _ _ _ _ _ _ B). apply (ef_len _ _ _ _ _ _ A).
  - rewrite (ef_clen _ _ _ _ _ _ B). apply (ef_clen _ _ _ _ _ _ A).
  - apply (ef_here _ _ _ _ _ _ B).
  - intros j Hj.
    assert (Efs : fields_of sc o1 = fields_of sc o) by (unfold fields_of; rewrite (ef_cls _ _ _ _ _ _ A); reflexivity).
    destruct (ef_other _ _ _ _ _ _ B j Hj) as [H|(H & f' & g & Hf' & G1 & G2)].
    + rewrite H. apply (ef_other _ _ _ _ _ _ A j Hj).
    + right. split; [exact H|]. exists f', g. rewrite <- Efs. auto.
  - intros g. rewrite (ef_cur _ _ _ _ _ _ B g).
    destruct (opt_nat_eqb (fgroup f) (Some g)) eqn:E; [reflexivity|].
    rewrite (ef_cur _ _ _ _ _ _ A g), E. reflexivity.
Qed.

Lemma effect_refl sc o i f :
  (forall g, fgroup f = Some g -> nth g (ocur o) None = Some i) ->
  effect sc o o i f (raw_at o i).
Proof.
  intros Hsel. constructor; auto.
  intros g. destruct (opt_nat_eqb (fgroup f) (Some g)) eqn:E; [|reflexivity].
  apply opt_nat_eqb_eq in E. apply Hsel. exact E.
Qed.

(* ---- __getattribute__ ---- *)
Lemma getattr_cases sc o i f :
  nth_error (fields_of sc o) i = Some f ->
  (group_selects (ocur o) f i = Some false /\ getattr sc o i = (o, Err EAttribute)) \/
  (group_selects (ocur o) f i <> Some false /\ raw_at o i <> PPlaceholder /\
   getattr sc o i = (o, Ok (raw_at o i))) \/
  (group_selects (ocur o) f i <> Some false /\ raw_at o i = PPlaceholder /\
   getattr sc o i = (set_raw o i (default_of sc f), Ok (default_of sc f))).
Proof.
  destruct o as [c raw sow unk cur]. unfold fields_of, raw_at. cbn [ocls oraw ocur]. intros Hf.
  unfold getattr. rewrite Hf.
  destruct (group_selects cur f i) as [[|]|] eqn:G.
  - right. destruct (nth i raw PPlaceholder) eqn:E;
      try (left; repeat split; try discriminate; reflexivity).
    right. repeat split; try discriminate.
  - left. auto.
  - right. destruct (nth i raw PPlaceholder) eqn:E;
      try (left; repeat split; try discriminate; reflexivity).
    right. repeat split; try discriminate.
Qed.

Lemma selected_of_readable cur f i :
  group_selects cur f i <> Some false -> forall g, fgroup f = Some g -> nth g cur None = Some i.
Proof.
  unfold group_selects. intros H g G. rewrite G in H.
  destruct (opt_nat_eqb (nth g cur None) (Some i)) eqn:E; [|congruence].
  apply opt_nat_eqb_eq. exact E.
Qed.

Lemma fetch_effect sc o i f o1 current :
  nth_error (fields_of sc o) i = Some f -> good sc o ->
  (forall g, fgroup f = Some g -> (g < length (ocur o))%nat) ->
  fetch sc o i f = (o1, current) ->
  (exists v1, effect sc o o1 i f v1) /\ (forall l, current = PList l -> exists t, fhint f = HList t).
Proof.
  intros Hf (Hl & Hc & Hg) Hgl H. unfold fetch in H.
  destruct (getattr_cases sc o i f Hf) as [(G & E)|[(G & Hne & E)|(G & He & E)]]; rewrite E in H.
  - injection H as <- <-. split.
    + eexists. apply setattr_effect; assumption.
    + intros l Hd. pose proof (default_of_fits sc f) as F. rewrite Hd in F. exact F.
  - injection H as <- <-. split.
    + eexists. apply effect_refl. apply selected_of_readable. exact G.
    + intros l Hd. specialize (Hg i f Hf). rewrite Hd in Hg. exact Hg.
  - injection H as <- <-. split.
    + eexists. apply set_raw_effect; try assumption. apply selected_of_readable. exact G.
    + intros l Hd. pose proof (default_of_fits sc f) as F. rewrite Hd in F. exact F.
Qed.

Lemma effect_fields sc o o1 i f v : effect sc o o1 i f v -> fields_of sc o1 = fields_of sc o.
Proof. intros E. unfold fields_of. rewrite (ef_cls _ _ _ _ _ _ E). reflexivity. Qed.

Lemma effect_selected sc o o1 i f v :
  effect sc o o1 i f v -> forall g, fgroup f = Some g -> nth g (ocur o1) None = Some i.
Proof. intros E g G. rewrite (ef_cur _ _ _ _ _ _ E g), G, opt_nat_eqb_refl. reflexivity. Qed.

Lemma store_effect sc o i f value o2 :
  nth_error (fields_of sc o) i = Some f -> good sc o ->
  (forall g, fgroup f = Some g -> (g < length (ocur o))%nat) ->
  store sc o i f value = Ok o2 ->
  exists vs, effect sc o o2 i f vs /\
    ((exists l t, vs = PList l /\ fhint f = HList t) \/
     (exists d, vs = PDict d /\ fty f = TMap) \/
     vs = marked sc value).
Proof.
  intros Hf Hgood Hgl H. unfold store in H.
  destruct (fetch sc o i f) as [o1 current] eqn:Ef.
  destruct (fetch_effect _ _ _ _ _ _ Hf Hgood Hgl Ef) as [(v1 & E1) Hlist].
  pose proof (effect_fields _ _ _ _ _ _ E1) as Efs.
  assert (Hf1 : nth_error (fields_of sc o1) i = Some f) by (rewrite Efs; exact Hf).
  assert (Hl1 : length (oraw o1) = length (fields_of sc o1)).
  { rewrite Efs, (ef_len _ _ _ _ _ _ E1). apply Hgood. }
  pose proof (effect_selected _ _ _ _ _ _ E1) as Hsel1.
  assert (SR : forall x, effect sc o (set_raw o1 i x) i f x).
  { intros x. eapply effect_trans; [exact E1|]. apply set_raw_effect; assumption. }
  destruct o1 as [c1 raw1 sow1 unk1 cur1].
  destruct (ptype_eqb (fty f) TMap) eqn:Tm.
  - apply ptype_eqb_eq in Tm.
    destruct value as [| | | | | | | | | | |em]; try discriminate.
    destruct current as [| | | | | | | | | |d|]; try discriminate.
    destruct (getattr sc em 0) as [? [k|]]; try discriminate.
    destruct (getattr sc em 1) as [? [v|]]; try discriminate.
    injection H as <-. eexists. split; [apply (SR (PDict (dict_set d sc k v)))|].
    right. left. eauto.
  - assert (SA : effect sc o (setattr sc (Obj c1 raw1 sow1 unk1 cur1) i value) i f (marked sc value)).
    { eapply effect_trans; [exact E1|]. apply setattr_effect; try assumption.
      intros g G. rewrite (ef_clen _ _ _ _ _ _ E1). apply Hgl. exact G. }
    destruct current as [| | | | | | | | |l| |];
      try (injection H as <-; eexists; split; [exact SA|right; right; reflexivity]).
    injection H as <-. destruct (Hlist l eq_refl) as (t & Ht).
    eexists. split; [apply (SR (PList _))|]. left. eauto.
Qed.

(* ---- the value a record denotes ---- *)
Lemma wrapper_cls_builtin w wc : wrapper_cls w = Some wc -> In wc (seq 0 (length builtin_classes)).
Proof.
  intros H. apply in_seq. destruct w; vm_compute in H; try discriminate; injection H as <-; vm_compute; lia.
Qed.

Lemma std_builtin_field sc c f :
  std_builtins_b sc = true -> In c (seq 0 (length builtin_classes)) ->
  In f (cfields (get_class sc c)) ->
  fgroup f = None /\ exists t, fhint f = HPlain t /\ forall c', t <> PyMsg c'.
Proof.
  intros S Ic If. unfold std_builtins_b in S. rewrite forallb_forall in S.
  specialize (S c Ic). rewrite forallb_forall in S. specialize (S f If).
  destruct (fhint f) as [t|t|t|k v]; try discriminate.
  destruct t; try discriminate; destruct (fgroup f); try discriminate;
    (split; [reflexivity|eexists; split; [reflexivity|intros; discriminate]]).
Qed.

(* reading the single field of a parsed wrapper object yields a proper scalar *)
Lemma wrapper_read sc m v :
  std_builtins_b sc = true -> In (ocls m) (seq 0 (length builtin_classes)) -> good sc m ->
  snd (getattr sc m 0) = Ok v ->
  v <> PNone /\ v <> PPlaceholder /\ (forall l, v <> PList l).
Proof.
  intros S Ic (Hl & Hc & Hg) H.
  destruct (nth_error (fields_of sc m) 0) as [f0|] eqn:Hf.
  - destruct (std_builtin_field sc (ocls m) f0 S Ic (nth_error_In _ _ Hf)) as (G & t & Ht & Hnm).
    specialize (Hg O f0 Hf). rewrite Ht in Hg.
    destruct (getattr_cases sc m O f0 Hf) as [(_ & E)|[(_ & Hne & E)|(_ & He & E)]]; rewrite E in H; cbn [snd] in H.
    + discriminate.
    + injection H as <-. repeat split; try assumption.
      * intros E'. rewrite E' in Hg. destruct Hg; discriminate.
      * intros l E'. rewrite E' in Hg. destruct Hg; discriminate.
    + injection H as <-. unfold default_of. rewrite Ht.
      destruct t; try (exfalso; eapply Hnm; reflexivity); repeat split; try discriminate; intros; discriminate.
  - destruct m as [c raw sow unk cur]. unfold fields_of in Hf. cbn [ocls] in Hf.
    unfold getattr in H. rewrite Hf in H. discriminate.
Qed.
